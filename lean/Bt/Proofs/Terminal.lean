import Bt.Proofs.C08Root
import Bt.Proofs.Quiet
import Bt.Engine.Backtest
/-! C16 (terminal part): what `update` does to a liquidated tree.

    * `allFlat`      every security of the tree has `position = 0`;
    * `Unparked`     no security carries parked cash (`capital = 0`);
    * `Settled`      every strategy's `value` is its cash plus the values of its sub-strategies, and the
                     securities the update loop still visits are worth `0`;
    * `DeadSettled`  the three together: the invariant of a bankrupt, liquidated, settled tree.

    `DeadSettled` is preserved by `update(d')` for ANY date `d'` (new or not), every strategy's cash and value
    staying what they are (`updNode_deadSettled`).  A tree that is merely flat becomes `DeadSettled` by one
    `update` on a date that is new for every node (`updNode_settle`): the cash parked on the securities is
    swept into their parents — the only cash movement still possible — and every value is rewritten. -/
set_option linter.unusedSectionVars false
namespace Bt.P16
open Bt

variable {K : Type} [Field K] [LinearOrder K] [IsStrictOrderedRing K] [HasFloor K]

/-! ### definitions -/

/-- every security below has `position = 0` -/
def allFlat : Node K → Prop := AllSecs (fun s => s.position = 0)
def allFlatKids : List (Node K) → Prop := AllSecsKids (fun s => s.position = 0)

/-- no security below carries parked cash (coupon less holding cost waiting for the next date's sweep) -/
def Unparked : Node K → Prop := AllSecs (fun s => s.capital = 0)

/-- sum of the values of the sub-strategies among the children -/
def subVal : List (Node K) → K
  | [] => 0
  | .sec _ :: ks => subVal ks
  | .strat sd _ :: ks => sd.value + subVal ks

/-- a security of a dead tree: flat, nothing parked, and worth nothing if the update loop still visits it -/
def SecDead (s : SecData K) : Prop := s.position = 0 ∧ s.capital = 0 ∧ (s.needupdate = true → s.value = 0)

/-- a strategy whose value is its cash plus the values of its sub-strategies -/
def StratSettled (sd : StratData K) (kids : List (Node K)) : Prop := sd.value = sd.capital + subVal kids

/-- every strategy's `value` = its cash + its sub-strategies' values; visited securities are worth `0` -/
def Settled : Node K → Prop := TreeAll StratSettled (fun s => s.needupdate = true → s.value = 0)

/-- the invariant of a liquidated tree -/
def DeadSettled : Node K → Prop := TreeAll StratSettled SecDead
def DeadSettledKids : List (Node K) → Prop := TreeAllKids StratSettled SecDead

/-- `Dead`: flat and nothing parked (no claim on the recorded values) -/
def Dead : Node K → Prop := AllSecs (fun s => s.position = 0 ∧ s.capital = 0)

mutual
/-- the cash of every strategy of the tree, in pre-order -/
def capitals : Node K → List K
  | .sec _ => []
  | .strat sd kids => sd.capital :: capitalsL kids
def capitalsL : List (Node K) → List K
  | [] => []
  | k :: ks => capitals k ++ capitalsL ks
end

mutual
/-- all the cash of the subtree: the strategies' `capital` plus what is parked on the securities -/
def cashBelow : Node K → K
  | .sec s => s.capital
  | .strat sd kids => sd.capital + cashBelowL kids
def cashBelowL : List (Node K) → K
  | [] => 0
  | k :: ks => cashBelow k + cashBelowL ks
end

/-- no node of the tree has its clock at `d` (`d` is a new date for all of them) -/
def Fresh (d : Nat) : Node K → Prop := TreeAll (fun sd _ => sd.now ≠ some d) (fun s => s.now ≠ some d)
def FreshKids (d : Nat) : List (Node K) → Prop :=
  TreeAllKids (fun sd _ => sd.now ≠ some d) (fun s => s.now ≠ some d)

section simp_lemmas
variable (Q : StratData K → List (Node K) → Prop) (S : SecData K → Prop)

@[simp] theorem treeAll_sec (s : SecData K) : TreeAll Q S (.sec s) ↔ S s := by simp [TreeAll]
@[simp] theorem treeAll_strat (sd : StratData K) (kids : List (Node K)) :
    TreeAll Q S (.strat sd kids) ↔ Q sd kids ∧ TreeAllKids Q S kids := by simp [TreeAll]
@[simp] theorem treeAllKids_nil : TreeAllKids Q S ([] : List (Node K)) ↔ True := by simp [TreeAllKids]
@[simp] theorem treeAllKids_cons (k : Node K) (ks : List (Node K)) :
    TreeAllKids Q S (k :: ks) ↔ TreeAll Q S k ∧ TreeAllKids Q S ks := by simp [TreeAllKids]
end simp_lemmas

theorem deadSettled_sec (s : SecData K) : DeadSettled (.sec s) ↔ SecDead s := treeAll_sec _ _ s
theorem deadSettled_strat (sd : StratData K) (kids : List (Node K)) :
    DeadSettled (.strat sd kids) ↔ sd.value = sd.capital + subVal kids ∧ DeadSettledKids kids :=
  treeAll_strat _ _ sd kids
theorem deadSettledKids_cons (k : Node K) (ks : List (Node K)) :
    DeadSettledKids (k :: ks) ↔ DeadSettled k ∧ DeadSettledKids ks := treeAllKids_cons _ _ k ks

/-- `DeadSettled` is exactly: flat, nothing parked, settled -/
theorem deadSettled_iff : (∀ n : Node K, DeadSettled n ↔ allFlat n ∧ Unparked n ∧ Settled n) ∧
    (∀ l : List (Node K), DeadSettledKids l ↔ allFlatKids l ∧ AllSecsKids (fun s => s.capital = 0) l ∧
      TreeAllKids StratSettled (fun s => s.needupdate = true → s.value = 0) l) := by
  apply Node.induct
  · intro s
    simp only [DeadSettled, allFlat, Unparked, Settled, treeAll_sec, AllSecs_sec, SecDead]
  · intro sd kids ih
    simp only [DeadSettled, DeadSettledKids, allFlat, allFlatKids, Unparked, Settled, treeAll_strat,
      AllSecs_strat] at ih ⊢
    rw [ih]; tauto
  · simp [DeadSettledKids, allFlatKids]
  · intro k ks ihk ihks
    simp only [DeadSettled, DeadSettledKids, allFlat, allFlatKids, Unparked, Settled, treeAllKids_cons,
      AllSecsKids_cons] at ihk ihks ⊢
    rw [ihk, ihks]; tauto

theorem DeadSettled.dead {n : Node K} (h : DeadSettled n) : Dead n := by
  have := (deadSettled_iff.1 n).1 h
  exact AllSecs.and.1 n this.1 this.2.1

theorem DeadSettled.allFlat {n : Node K} (h : DeadSettled n) : allFlat n := ((deadSettled_iff.1 n).1 h).1

/-! ### one security -/

theorem secBaseUpdate_capital {cfg : Cfg K} {d : Nat} {s s1 : SecData K}
    (h : secBaseUpdate cfg d s = .ok s1) : s1.capital = s.capital := by
  cases he : secEarly d s
  · obtain ⟨v, _, rfl⟩ := secBaseUpdate_inv he h
    simp
  · rw [secBaseUpdate_early he] at h
    cases h; rfl

/-- the coupon of a flat security is `0` (a NaN coupon is accepted when `is_zero(position)`) -/
theorem cpnE_flat {cfg : Cfg K} {d : Nat} {coupons : List (Option K)} {c : K}
    (h : P08.cpnE cfg d 0 coupons = .ok c) : c = 0 := by
  unfold P08.cpnE at h
  split at h
  · split at h
    · cases h; rfl
    · cases h
  · cases h; simp

/-- so is its holding cost -/
theorem hcE_flat {d : Nat} {cl cs : Option (List (Option K))} {c : K}
    (h : P08.hcE d (0 : K) cl cs = .ok c) : c = 0 := by
  unfold P08.hcE at h
  simp only [lt_self_iff_false, decide_false, Bool.false_and, Bool.false_eq_true, ↓reduceIte] at h
  cases h; rfl

theorem secCouponTail_flat {cfg : Cfg K} {d : Nat} {s s' : SecData K} (hp : s.position = 0)
    (h : secCouponTail cfg d s = .ok s') : s'.capital = 0 := by
  obtain ⟨c, hc, h1, h2, rfl⟩ := P08.secCouponTail_ok h
  rw [hp] at h1 h2
  rw [cpnE_flat h1, hcE_flat h2]
  simp [P08.withCoupon]

/-- what `update(d)` does to a flat security -/
structure FlatStep (d : Nat) (s s' : SecData K) : Prop where
  position : s'.position = 0
  /-- re-marked to `0`, or the early return (same date, position already recorded) -/
  value : s'.value = 0 ∨ (s.now = some d ∧ s'.value = s.value)
  /-- the coupon classes recompute `capital := coupon − holding cost = 0`; the others never touch it -/
  capital : s'.capital = 0 ∨ s'.capital = s.capital
  /-- `update` never switches `needupdate` on -/
  needupdate : s'.needupdate = true → s.needupdate = true
  /-- the position row gets a `0` at `d` or is left alone -/
  rPosition : s'.rPosition = s.rPosition ∨ s'.rPosition = s.rPosition.set d 0

theorem secUpdate_flat {cfg : Cfg K} {d : Nat} {s s' : SecData K} (hp : s.position = 0)
    (h : secUpdate cfg d s = .ok s') : FlatStep d s s' := by
  have hf := secUpdate_frame h
  obtain ⟨s1, h1, ht⟩ := secUpdate_base h
  have hp1 : s1.position = 0 := by rw [(secBaseUpdate_frame h1).position]; exact hp
  have hcap : s'.capital = 0 ∨ s'.capital = s.capital := by
    obtain ⟨s1', h1', hk⟩ := secUpdate_inv h
    rw [h1] at h1'; cases h1'
    have hc1 := secBaseUpdate_capital h1
    rcases hk with ⟨_, rfl⟩ | ⟨_, rfl⟩ | ⟨_, rfl⟩ | ⟨_, hc⟩ | ⟨_, s2, hc, rfl⟩
    · exact .inr hc1
    · exact .inr (by simpa using hc1)
    · exact .inr (by simpa using hc1)
    · exact .inl (secCouponTail_flat (by simpa using hp1) hc)
    · exact .inl (by simpa using secCouponTail_flat (by simpa using hp1) hc)
  cases hE : secEarly d s
  · have fr := secBaseUpdate_fresh hE h1
    refine ⟨by rw [hf.position]; exact hp, .inl ?_, hcap, ?_, .inr ?_⟩
    · rw [ht.value]
      rcases secMarkValue_inv fr.marks with ⟨p, _, hv⟩ | ⟨_, hv, _⟩
      · rw [hv]; simp [hp]
      · exact hv
    · rw [ht.needupdate, fr.needupdate]
      split
      · intro hh; cases hh
      · exact id
    · rw [ht.rPosition, fr.rPosition, hp]
  · rw [secBaseUpdate_early hE] at h1
    cases h1
    refine ⟨by rw [hf.position]; exact hp, .inr ⟨((secEarly_true_iff d s).1 hE).1, ht.value⟩, hcap, ?_,
      .inl ht.rPosition⟩
    rw [ht.needupdate]; exact id

theorem secUpdate_now {cfg : Cfg K} {d : Nat} {s s' : SecData K} (h : secUpdate cfg d s = .ok s') :
    s'.now = some d := by
  obtain ⟨s1, h1, ht⟩ := secUpdate_base h
  rw [ht.now]
  cases hE : secEarly d s
  · exact (secBaseUpdate_fresh hE h1).now
  · rw [secBaseUpdate_early hE] at h1
    cases h1
    exact ((secEarly_true_iff d s).1 hE).1

/-- a dead security stays dead under `update` on any date, and — if visited — worth nothing -/
theorem secUpdate_dead {cfg : Cfg K} {d : Nat} {s s' : SecData K} (hd : SecDead s)
    (h : secUpdate cfg d s = .ok s') : SecDead s' ∧ (s.needupdate = true → s'.value = 0) := by
  have st := secUpdate_flat hd.1 h
  have hv : s.needupdate = true → s'.value = 0 := by
    intro hn
    rcases st.value with hv | ⟨_, hv⟩
    · exact hv
    · rw [hv]; exact hd.2.2 hn
  refine ⟨⟨st.position, ?_, fun hn => hv (st.needupdate hn)⟩, hv⟩
  rcases st.capital with hc | hc
  · exact hc
  · rw [hc]; exact hd.2.1

/-! ### re-weighting the children changes none of the quantities above -/

theorem treeAll_setWeight {Q : StratData K → List (Node K) → Prop} {S : SecData K → Prop}
    (hQ : ∀ sd kids w, Q { sd with weight := w } kids ↔ Q sd kids)
    (hS : ∀ s w, S { s with weight := w } ↔ S s) (w : K) (k : Node K) :
    TreeAll Q S (k.setWeight w) ↔ TreeAll Q S k := by
  cases k with
  | sec s => simp only [Node.setWeight, treeAll_sec, hS]
  | strat sd ks => simp only [Node.setWeight, treeAll_strat, hQ]

theorem treeAllKids_kidsWeights {Q : StratData K → List (Node K) → Prop} {S : SecData K → Prop}
    (hQ : ∀ sd kids w, Q { sd with weight := w } kids ↔ Q sd kids)
    (hS : ∀ s w, S { s with weight := w } ↔ S s) (cfg : Cfg K) (fi : Bool) (v n : K) :
    ∀ ks : List (Node K), TreeAllKids Q S (kidsWeights cfg fi v n ks) ↔ TreeAllKids Q S ks
  | [] => by simp [kidsWeights]
  | k :: ks => by
    rw [P08.kidsWeights_cons, treeAllKids_cons, treeAllKids_cons, treeAllKids_kidsWeights hQ hS cfg fi v n ks]
    split
    · rfl
    · rw [treeAll_setWeight hQ hS]

theorem deadSettledKids_kidsWeights (cfg : Cfg K) (fi : Bool) (v n : K) (ks : List (Node K)) :
    DeadSettledKids (kidsWeights cfg fi v n ks) ↔ DeadSettledKids ks :=
  treeAllKids_kidsWeights (fun _ _ _ => Iff.rfl) (fun _ _ => Iff.rfl) cfg fi v n ks

theorem subVal_cons (k : Node K) (ks : List (Node K)) : subVal (k :: ks) = subVal [k] + subVal ks := by
  cases k <;> simp [subVal]

theorem capitals_setWeight (w : K) (k : Node K) : capitals (k.setWeight w) = capitals k := by
  cases k <;> simp [Node.setWeight, capitals]

theorem subVal_setWeight (w : K) (k : Node K) : subVal [k.setWeight w] = subVal [k] := by
  cases k <;> simp [Node.setWeight, subVal]

theorem cashBelow_setWeight (w : K) (k : Node K) : cashBelow (k.setWeight w) = cashBelow k := by
  cases k <;> simp [Node.setWeight, cashBelow]

theorem capitalsL_kidsWeights (cfg : Cfg K) (fi : Bool) (v n : K) :
    ∀ ks : List (Node K), capitalsL (kidsWeights cfg fi v n ks) = capitalsL ks
  | [] => by simp [kidsWeights]
  | k :: ks => by
    rw [P08.kidsWeights_cons, capitalsL, capitalsL, capitalsL_kidsWeights cfg fi v n ks]
    split
    · rfl
    · rw [capitals_setWeight]

theorem subVal_kidsWeights (cfg : Cfg K) (fi : Bool) (v n : K) :
    ∀ ks : List (Node K), subVal (kidsWeights cfg fi v n ks) = subVal ks
  | [] => by simp [kidsWeights]
  | k :: ks => by
    rw [P08.kidsWeights_cons, subVal_cons, subVal_cons k, subVal_kidsWeights cfg fi v n ks]
    split
    · rfl
    · rw [subVal_setWeight]

theorem cashBelowL_kidsWeights (cfg : Cfg K) (fi : Bool) (v n : K) :
    ∀ ks : List (Node K), cashBelowL (kidsWeights cfg fi v n ks) = cashBelowL ks
  | [] => by simp [kidsWeights]
  | k :: ks => by
    rw [P08.kidsWeights_cons, cashBelowL, cashBelowL, cashBelowL_kidsWeights cfg fi v n ks]
    split
    · rfl
    · rw [cashBelow_setWeight]

/-! ### `update` on ANY date preserves `DeadSettled`, every cash and every value -/

theorem secDead_sweep {newpt : Bool} {s : SecData K} (acc : Acc K) (hd : SecDead s) :
    SecDead (sweepSec newpt s acc).1 := by
  refine ⟨by simpa using hd.1, ?_, by simpa using hd.2.2⟩
  rw [sweepSec_fst]; split
  · rfl
  · exact hd.2.1

/-- one child of the loop, in a dead tree -/
theorem kidStep_dead {cfg : Cfg K} {d : Nat} {newpt bo : Bool} {k k' : Node K} {acc acc1 : Acc K}
    (hstep : KidStep cfg d newpt bo k acc k' acc1) (hd : DeadSettled k)
    (ihk : ∀ n', DeadSettled k → updNode cfg d k = .ok n' →
      DeadSettled n' ∧ capitals n' = capitals k ∧ subVal [n'] = subVal [k]) :
    DeadSettled k' ∧ capitals k' = capitals k ∧ subVal [k'] = subVal [k] ∧
      acc1.val = acc.val + subVal [k] ∧ acc1.coupons = acc.coupons := by
  obtain ⟨sv, -, -, sc⟩ := hstep.acc_eq
  cases hstep with
  | skip s acc hn =>
    rw [deadSettled_sec] at hd
    refine ⟨(deadSettled_sec _).2 (secDead_sweep acc hd), rfl, rfl, ?_, ?_⟩
    · simp [subVal]
    · simpa [parkedCash, hd.2.1] using sc
  | sec s acc s1 hn hs =>
    rw [deadSettled_sec] at hd
    have h1 := secUpdate_dead (secDead_sweep acc hd) hs
    refine ⟨(deadSettled_sec _).2 h1.1, rfl, rfl, ?_, ?_⟩
    · have : s1.value = 0 := h1.2 (by simpa using hn)
      simpa [Node.skipped, hn, subVal, Node.value, this] using sv
    · simpa [parkedCash, hd.2.1] using sc
  | strat sd kk acc k1 hk =>
    obtain ⟨h1, h2, h3⟩ := ihk _ hd hk
    refine ⟨h1, h2, h3, ?_, ?_⟩
    · obtain ⟨sd', kk', rfl⟩ := P08.updNode_strat_isStrat hk
      simp only [subVal, add_zero] at h3
      rw [sv]
      simp [Node.skipped, subVal, Node.value, h3]
    · simpa [parkedCash] using sc

theorem updNode_deadSettled_aux {cfg : Cfg K} {d : Nat} :
    (∀ n : Node K, ∀ n', DeadSettled n → updNode cfg d n = .ok n' →
      DeadSettled n' ∧ capitals n' = capitals n ∧ subVal [n'] = subVal [n]) ∧
    (∀ ks : List (Node K), ∀ newpt bo acc out, DeadSettledKids ks →
      updKids cfg d newpt bo ks acc = .ok out →
      DeadSettledKids out.1 ∧ capitalsL out.1 = capitalsL ks ∧ subVal out.1 = subVal ks ∧
      out.2.val = acc.val + subVal ks ∧ out.2.coupons = acc.coupons) := by
  apply Node.induct
  · intro s n' hd h
    obtain ⟨s', hs, rfl⟩ := updNode_sec_inv h
    rw [deadSettled_sec] at hd
    exact ⟨(deadSettled_sec _).2 (secUpdate_dead hd hs).1, rfl, rfl⟩
  · intro sd kids ih n' hd h
    obtain ⟨kids1, acc, sd3, hk, hw, rfl⟩ := updNode_strat_inv h
    rw [deadSettled_strat] at hd
    obtain ⟨hval, hkids⟩ := hd
    obtain ⟨hds, hcaps, hsub, hv, hc⟩ := ih _ _ _ _ hkids hk
    simp only [stratDateChange_capital] at hv hc
    obtain ⟨f_cap, -⟩ := stratWrite_frame hw
    have hcap3 : sd3.capital = sd.capital := by rw [f_cap, stratPre_capital, hc, add_zero]
    have hval3 : sd3.value = sd.value := by
      rcases stratWrite_inv hw with ⟨p, rfl⟩ | ⟨_, rfl, _⟩
      · simp [hv, hc, hval]
      · simp
    refine ⟨?_, ?_, ?_⟩
    · rw [deadSettled_strat, deadSettledKids_kidsWeights, subVal_kidsWeights]
      exact ⟨by simp [hval3, hcap3, hsub, hval], hds⟩
    · simp only [capitals, stratRows_capital, hcap3, capitalsL_kidsWeights, hcaps]
    · simp [subVal, hval3]
  · intro newpt bo acc out _ h
    cases updKids_nil_inv h
    simp [DeadSettledKids, subVal, capitalsL]
  · intro k ks ihk ihks newpt bo acc out hd h
    obtain ⟨k', ks', acc1, hout, hrest, hstep⟩ := updKids_cons_inv h
    rw [deadSettledKids_cons] at hd
    obtain ⟨a1, a2, a3, a4, a5⟩ := kidStep_dead hstep hd.1 (ihk)
    obtain ⟨b1, b2, b3, b4, b5⟩ := ihks newpt bo acc1 (ks', out.2) hd.2 hrest
    simp only at b1 b2 b3 b4 b5
    rw [hout]
    refine ⟨(deadSettledKids_cons _ _).2 ⟨a1, b1⟩, by simp only [capitalsL, a2, b2], ?_, ?_, ?_⟩
    · rw [subVal_cons, subVal_cons k, a3, b3]
    · rw [b4, a4, add_assoc, ← subVal_cons]
    · rw [b5, a5]

/-- **`update(d')` on a liquidated, settled tree — for any date `d'`, new or not —** leaves it liquidated and
    settled, and changes no strategy's cash. -/
theorem updNode_deadSettled {cfg : Cfg K} {d : Nat} {n n' : Node K} (hd : DeadSettled n)
    (h : updNode cfg d n = .ok n') : DeadSettled n' ∧ capitals n' = capitals n :=
  ⟨(updNode_deadSettled_aux.1 n n' hd h).1, (updNode_deadSettled_aux.1 n n' hd h).2.1⟩

/-- … and no strategy's value (stated at the root of the updated subtree; every sub-strategy is the root of
    its own, and `DeadSettled` makes all the values functions of the unchanged cash amounts) -/
theorem updNode_deadSettled_value {cfg : Cfg K} {d : Nat} {sd : StratData K} {kids : List (Node K)}
    {n' : Node K} (hd : DeadSettled (.strat sd kids)) (h : updNode cfg d (.strat sd kids) = .ok n') :
    n'.value = sd.value := by
  have := (updNode_deadSettled_aux.1 _ n' hd h).2.2
  obtain ⟨sd', kk', rfl⟩ := P08.updNode_strat_isStrat h
  simpa [subVal, Node.value] using this

/-! ### in a settled dead tree every value is the cash below it -/

theorem deadSettled_value_aux :
    (∀ n : Node K, DeadSettled n → subVal [n] = cashBelow n) ∧
    (∀ ks : List (Node K), DeadSettledKids ks → subVal ks = cashBelowL ks) := by
  apply Node.induct
  · intro s hd
    rw [deadSettled_sec] at hd
    simp [subVal, cashBelow, hd.2.1]
  · intro sd kids ih hd
    rw [deadSettled_strat] at hd
    simp [subVal, cashBelow, hd.1, ih hd.2]
  · intro _; rfl
  · intro k ks ihk ihks hd
    rw [deadSettledKids_cons] at hd
    rw [subVal_cons, cashBelowL, ihk hd.1, ihks hd.2]

/-- the value of a strategy of a `DeadSettled` tree is the sum of the cash of the strategies below it -/
theorem DeadSettled.value_eq {sd : StratData K} {kids : List (Node K)} (hd : DeadSettled (.strat sd kids)) :
    sd.value = cashBelow (.strat sd kids) := by
  simpa [subVal] using deadSettled_value_aux.1 _ hd

/-! ### the first `update` on a new date settles a flat tree -/

/-- one child of the loop, flat tree, new date -/
theorem kidStep_settle {cfg : Cfg K} {d : Nat} {bo : Bool} {k k' : Node K} {acc acc1 : Acc K}
    (hstep : KidStep cfg d true bo k acc k' acc1) (hf : allFlat k) (hfr : Fresh d k)
    (ihk : ∀ n', k.isSec = false → allFlat k → Fresh d k → updNode cfg d k = .ok n' →
      DeadSettled n' ∧ cashBelow n' = cashBelow k) :
    DeadSettled k' ∧ acc1.val = acc.val + subVal [k'] ∧ acc1.coupons = acc.coupons + parkedCash [k] ∧
      cashBelow k' + parkedCash [k] = cashBelow k := by
  obtain ⟨sv, -, -, sc⟩ := hstep.acc_eq
  simp only [↓reduceIte] at sc
  cases hstep with
  | skip s acc hn =>
    simp only [allFlat, AllSecs_sec] at hf
    refine ⟨(deadSettled_sec _).2 ⟨by simpa using hf, by simp [sweepSec_fst], by simp [hn]⟩, ?_, sc, ?_⟩
    · simp [subVal]
    · simp [cashBelow, sweepSec_fst, parkedCash]
  | sec s acc s1 hn hs =>
    simp only [allFlat, AllSecs_sec] at hf
    simp only [Fresh, treeAll_sec] at hfr
    have st := secUpdate_flat (s := (sweepSec true s acc).1) (by simpa using hf) hs
    have hv : s1.value = 0 := by
      rcases st.value with hv | ⟨hnow, _⟩
      · exact hv
      · exact absurd (by simpa using hnow) hfr
    have hc : s1.capital = 0 := by
      rcases st.capital with hc | hc
      · exact hc
      · rw [hc]; simp [sweepSec_fst]
    refine ⟨(deadSettled_sec _).2 ⟨st.position, hc, fun _ => hv⟩, ?_, sc, ?_⟩
    · rw [sv]; simp [Node.skipped, hn, subVal, Node.value, hv]
    · simp [cashBelow, hc, parkedCash]
  | strat sd kk acc k1 hk =>
    obtain ⟨h1, h2⟩ := ihk _ rfl hf hfr hk
    refine ⟨h1, ?_, by simpa [parkedCash] using sc, by simpa [parkedCash] using h2⟩
    obtain ⟨sd', kk', rfl⟩ := P08.updNode_strat_isStrat hk
    rw [sv]; simp [Node.skipped, subVal, Node.value]

theorem updNode_settle_aux {cfg : Cfg K} {d : Nat} :
    (∀ n : Node K, ∀ n', n.isSec = false → allFlat n → Fresh d n → updNode cfg d n = .ok n' →
      DeadSettled n' ∧ cashBelow n' = cashBelow n) ∧
    (∀ ks : List (Node K), ∀ bo acc out, allFlatKids ks → FreshKids d ks →
      updKids cfg d true bo ks acc = .ok out →
      DeadSettledKids out.1 ∧ out.2.val = acc.val + subVal out.1 ∧
      out.2.coupons = acc.coupons + parkedCash ks ∧ cashBelowL out.1 + parkedCash ks = cashBelowL ks) := by
  apply Node.induct
  · intro s n' hs; cases hs
  · intro sd kids ih n' _ hf hfr h
    obtain ⟨kids1, acc, sd3, hk, hw, rfl⟩ := updNode_strat_inv h
    simp only [allFlat, AllSecs_strat] at hf
    simp only [Fresh, treeAll_strat] at hfr
    have hnp : (stratDateChange d sd).2 = true := (stratDateChange_newpt d sd).2 hfr.1
    rw [hnp] at hk hw
    obtain ⟨hds, hv, hc, hcb⟩ := ih _ _ _ hf hfr.2 hk
    simp only [stratDateChange_capital, zero_add] at hv hc
    obtain ⟨p, rfl⟩ := stratWrite_newpt hw
    refine ⟨?_, ?_⟩
    · rw [deadSettled_strat, deadSettledKids_kidsWeights, subVal_kidsWeights]
      refine ⟨?_, hds⟩
      simp only [stratRows_value, stratSetPrice_value, stratSetTotals_value, stratRows_capital,
        stratSetPrice_capital, stratSetTotals_capital, stratPre_capital, hv, hc]
      ring
    · simp only [cashBelow, cashBelowL_kidsWeights, stratRows_capital, stratSetPrice_capital,
        stratSetTotals_capital, stratPre_capital, hc, ← hcb]
      ring
  · intro bo acc out _ _ h
    cases updKids_nil_inv h
    simp [DeadSettledKids, subVal, parkedCash, cashBelowL]
  · intro k ks ihk ihks bo acc out hf hfr h
    obtain ⟨k', ks', acc1, hout, hrest, hstep⟩ := updKids_cons_inv h
    simp only [allFlatKids, AllSecsKids_cons] at hf
    simp only [FreshKids, treeAllKids_cons] at hfr
    obtain ⟨a1, a2, a3, a4⟩ := kidStep_settle hstep hf.1 hfr.1 ihk
    obtain ⟨b1, b2, b3, b4⟩ := ihks bo acc1 (ks', out.2) hf.2 hfr.2 hrest
    simp only at b1 b2 b3 b4
    rw [hout]
    refine ⟨(deadSettledKids_cons _ _).2 ⟨a1, b1⟩, ?_, ?_, ?_⟩
    · rw [b2, a2, add_assoc, ← subVal_cons]
    · rw [b3, a3, add_assoc, ← parkedCash_cons]
    · rw [cashBelowL, cashBelowL, parkedCash_cons, ← a4, ← b4]; ring

/-- **The first `update` on a date that is new for every node settles a flat tree:** the cash parked on the
    securities is swept into their parents (total cash conserved: `cashBelow`), everything is rewritten, and
    the tree is `DeadSettled` from then on.  The root's new value is all the cash of the old tree; its cash
    is the old cash plus what was parked on its own security children. -/
theorem updNode_settle {cfg : Cfg K} {d : Nat} {sd : StratData K} {kids : List (Node K)} {n' : Node K}
    (hf : allFlat (.strat sd kids)) (hfr : Fresh d (.strat sd kids))
    (h : updNode cfg d (.strat sd kids) = .ok n') :
    DeadSettled n' ∧ n'.value = cashBelow (.strat sd kids) ∧
      capitals n' = (sd.capital + parkedCash kids) :: (capitals n').tail := by
  obtain ⟨h1, h2⟩ := updNode_settle_aux.1 _ n' rfl hf hfr h
  obtain ⟨sd', kk', rfl⟩ := P08.updNode_strat_isStrat h
  refine ⟨h1, ?_, ?_⟩
  · rw [← h2, ← h1.value_eq]; rfl
  · have hc := (updNode_localBal h).cash
    simp only [Fresh, treeAll_strat] at hfr
    simp only [hfr.1, ↓reduceIte] at hc
    simp [capitals, hc]

/-! ### with nothing parked, all the cash is the strategies' cash -/

theorem unparked_cash_aux :
    (∀ n : Node K, Unparked n → cashBelow n = (capitals n).sum) ∧
    (∀ ks : List (Node K), AllSecsKids (fun s => s.capital = 0) ks →
      cashBelowL ks = (capitalsL ks).sum ∧ parkedCash ks = 0) := by
  apply Node.induct
  · intro s h
    simp only [Unparked, AllSecs_sec] at h
    simp [cashBelow, capitals, h]
  · intro sd kids ih h
    simp only [Unparked, AllSecs_strat] at h
    simp [cashBelow, capitals, (ih h).1]
  · intro _; simp [cashBelowL, capitalsL, parkedCash]
  · intro k ks ihk ihks h
    simp only [AllSecsKids_cons] at h
    obtain ⟨b1, b2⟩ := ihks h.2
    refine ⟨by simp [cashBelowL, capitalsL, ihk h.1, b1], ?_⟩
    rw [parkedCash_cons, b2, add_zero]
    cases k with
    | sec s => simpa [parkedCash] using h.1
    | strat sd kk => simp [parkedCash]

theorem unparked_cash {sd : StratData K} {kids : List (Node K)} (h : Unparked (.strat sd kids)) :
    parkedCash kids = 0 ∧ cashBelow (.strat sd kids) = (capitals (.strat sd kids)).sum :=
  ⟨(unparked_cash_aux.2 kids (by simpa [Unparked] using h)).2, unparked_cash_aux.1 _ h⟩

/-! ### `Dead` alone (flat, nothing parked — no claim on the recorded values) already fixes every cash -/

def DeadKids : List (Node K) → Prop := AllSecsKids (fun s => s.position = 0 ∧ s.capital = 0)

theorem treeRel_dead {d : Nat} :
    (∀ n n' : Node K, TreeRel (fun sd kids sd' _ =>
        sd'.capital = sd.capital + (if sd.now = some d then 0 else parkedCash kids))
        (fun s s' => s.position = 0 ∧ s.capital = 0 → s'.position = 0 ∧ s'.capital = 0) n n' →
      Dead n → Dead n' ∧ capitals n' = capitals n) ∧
    (∀ l l' : List (Node K), TreeRelKids (fun sd kids sd' _ =>
        sd'.capital = sd.capital + (if sd.now = some d then 0 else parkedCash kids))
        (fun s s' => s.position = 0 ∧ s.capital = 0 → s'.position = 0 ∧ s'.capital = 0) l l' →
      DeadKids l → DeadKids l' ∧ capitalsL l' = capitalsL l) := by
  apply Node.induct
  · intro s n' h hd
    cases n' with
    | sec s' =>
      simp only [TreeRel, Dead, AllSecs_sec] at *
      exact ⟨h hd, rfl⟩
    | strat sd' kids' => simp [TreeRel] at h
  · intro sd kids ih n' h hd
    cases n' with
    | sec s' => simp [TreeRel] at h
    | strat sd' kids' =>
      simp only [TreeRel, Dead, AllSecs_strat] at h hd ⊢
      obtain ⟨h1, h2⟩ := ih _ h.2 hd
      refine ⟨h1, ?_⟩
      have hp : parkedCash kids = 0 :=
        (unparked_cash_aux.2 kids ((AllSecs.mono (fun s hs => hs.2)).2 kids hd)).2
      simp only [capitals, h.1, hp, ite_self, add_zero, h2]
  · intro l' h _
    cases l' with
    | nil => exact ⟨by simp [DeadKids], rfl⟩
    | cons k' ks' => simp [TreeRelKids] at h
  · intro k ks ihk ihks l' h hd
    cases l' with
    | nil => simp [TreeRelKids] at h
    | cons k' ks' =>
      simp only [TreeRelKids, DeadKids, AllSecsKids_cons] at h hd ⊢
      obtain ⟨a1, a2⟩ := ihk _ h.1 hd.1
      obtain ⟨b1, b2⟩ := ihks _ h.2 hd.2
      exact ⟨⟨a1, b1⟩, by simp only [capitalsL, a2, b2]⟩

/-- `update` on any date keeps a flat tree with nothing parked flat with nothing parked, and moves no cash
    (whatever the recorded values are) -/
theorem updNode_dead {cfg : Cfg K} {d : Nat} {n n' : Node K} (hd : Dead n) (h : updNode cfg d n = .ok n') :
    Dead n' ∧ capitals n' = capitals n := by
  refine treeRel_dead.1 n n' ((updNode_treeRel (cfg := cfg) (d := d)
    (fun _ _ _ _ hh => (updNode_localBal hh).cash) (fun _ _ _ _ _ hh => hh)
    (fun newpt s acc s' hs hp => ?_) (fun newpt s acc _ hp => ?_) (fun _ _ _ hh => hh)).1 n n' h) hd
  · have st := secUpdate_flat (s := (sweepSec newpt s acc).1) (by simpa using hp.1) hs
    refine ⟨st.position, ?_⟩
    rcases st.capital with hc | hc
    · exact hc
    · rw [hc, sweepSec_fst]; split
      · rfl
      · exact hp.2
  · refine ⟨by simpa using hp.1, ?_⟩
    rw [sweepSec_fst]; split
    · rfl
    · exact hp.2

end Bt.P16
