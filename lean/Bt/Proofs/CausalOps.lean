import Bt.Proofs.CausalTree
import Bt.Proofs.CausalLaws
/-! C04 (no look-ahead), part 5: truncation of the supplied data commutes with every operation on a world
    whose clocks are at or before `t` (`ClockLE t w`), and with every public step. -/
set_option linter.unusedSectionVars false
namespace Bt.P04
open Bt Bt.P08

variable {K : Type} [Field K] [LinearOrder K] [IsStrictOrderedRing K] [HasFloor K]

/-- every strategy of the tree that has a clock, and the root, has it at or before `t` -/
abbrev ClockLE (t : Nat) (w : World K) : Prop := WOK (· ≤ t) w

section world
variable (t : Nat) (w : World K)
@[simp] theorem world_trunc_root : (w.trunc t).root = w.root.trunc t := rfl
@[simp] theorem world_trunc_stale : (w.trunc t).stale = w.stale := rfl

theorem wok_trunc {C : Nat → Prop} : WOK C (w.trunc t) ↔ WOK C w := by
  unfold WOK
  rw [world_trunc_root, nowsIn_trunc, node_trunc_now]
end world

variable {cfg : Cfg K} {t : Nat}

/-- operations keep the clocks at or before `t` -/
theorem keep_of_lift (cfg : Cfg K) {C : Nat → Prop} {w w' : World K} (hw : WOK C w)
    (h : Lift (NowS C) (NowD C) w.root w'.root) : WOK C w' := lift_wok (clockLaws cfg C) h hw

theorem modify_trunc {f : Option (StratData K) → Node K → Except Err (OpRes K)}
    (hf : ∀ par n, ParLE t par → NowsIn (· ≤ t) n → f par (n.trunc t) = (f par n).map (truncRes t))
    {w : World K} (hw : ClockLE t w) (path : List Nat) :
    (w.trunc t).modify path f = (w.modify path f).map (World.trunc t) := by
  unfold World.modify
  rw [world_trunc_root, modAt_trunc hf path none w.root (parLE_none t) hw.1, map_map', map_map']
  rfl

/-! ### recursive `flatten` -/

theorem modify_flatF_keep {w w' : World K} {path : List Nat} (h : World.modify w path (flatF cfg) = .ok w')
    (hw : ClockLE t w) : ClockLE t w' :=
  keep_of_lift cfg hw
    (modify_lift (clockLaws cfg _) (fun _ _ _ _ hn hr => flatF_lift (clockLaws cfg _) hn hr) hw h)

mutual
theorem flattenAt_trunc {rf : World K → Except Err (World K)}
    (hrf : ∀ w, ClockLE t w → rf (w.trunc t) = (rf w).map (World.trunc t))
    (hrfk : ∀ w w', rf w = .ok w' → ClockLE t w → ClockLE t w') :
    (n : Node K) → ∀ (path : List Nat) (w : World K), ClockLE t w →
      flattenAt cfg rf (n.trunc t) path (w.trunc t) = (flattenAt cfg rf n path w).map (World.trunc t)
  | .sec s, path, w, _ => by rw [trunc_sec, flattenAt.eq_1, flattenAt.eq_1]; rfl
  | .strat sd kids, path, w, hw => by
    rw [trunc_strat, flattenAt_strat, flattenAt_strat]
    refine bind_comm (World.trunc t) (World.trunc t) (flattenSubs_trunc hrf hrfk kids path 0 w hw)
      fun w1 h1 => ?_
    have hw1 : ClockLE t w1 :=
      flattenSubs_inv (I := ClockLE t) hrfk (fun _ _ _ h hI => modify_flatF_keep h hI) kids _ _ _ _ h1 hw
    rw [world_trunc_root, get?_trunc]
    cases hg : w1.root.get? path with
    | none => rfl
    | some n1 =>
      cases n1 with
      | sec s => rfl
      | strat sd1 ks1 =>
        simp only [Option.map_some, trunc_strat, truncL_isEmpty, world_trunc_stale]
        refine bind_comm (World.trunc t) (World.trunc t) ?_ fun w2 h2 => ?_
        · exact ite_comm Iff.rfl (Except.map (World.trunc t)) (hrf w1 hw1) rfl
        · have hw2 : ClockLE t w2 := by
            split at h2
            · exact hrfk _ _ h2 hw1
            · cases h2; exact hw1
          exact modify_trunc (fun par n _ hn => flatF_trunc cfg t par n hn) hw2 path

theorem flattenSubs_trunc {rf : World K → Except Err (World K)}
    (hrf : ∀ w, ClockLE t w → rf (w.trunc t) = (rf w).map (World.trunc t))
    (hrfk : ∀ w w', rf w = .ok w' → ClockLE t w → ClockLE t w') :
    (ks : List (Node K)) → ∀ (path : List Nat) (i : Nat) (w : World K), ClockLE t w →
      flattenSubs cfg rf (Node.truncL t ks) path i (w.trunc t) =
        (flattenSubs cfg rf ks path i w).map (World.trunc t)
  | [], path, i, w, _ => by rw [truncL_nil, flattenSubs.eq_1, flattenSubs.eq_1]; rfl
  | .strat a a1 :: ks, path, i, w, hw => by
    rw [truncL_cons, trunc_strat, flattenSubs.eq_2, flattenSubs.eq_2, ← trunc_strat]
    refine bind_comm (World.trunc t) (World.trunc t) (flattenAt_trunc hrf hrfk (.strat a a1) _ w hw)
      fun w1 h1 => ?_
    have hw1 : ClockLE t w1 :=
      flattenAt_inv (I := ClockLE t) hrfk (fun _ _ _ h hI => modify_flatF_keep h hI) _ _ _ _ h1 hw
    exact flattenSubs_trunc hrf hrfk ks path (i + 1) w1 hw1
  | .sec a :: ks, path, i, w, hw => by
    rw [truncL_cons, trunc_sec, flattenSubs.eq_3, flattenSubs.eq_3]
    exact flattenSubs_trunc hrf hrfk ks path (i + 1) w hw
end

/-! ### `root.update`, refresh -/

theorem refreshNB_trunc {w : World K} (hw : ClockLE t w) :
    refreshNB cfg (w.trunc t) = (refreshNB cfg w).map (World.trunc t) := by
  unfold refreshNB
  rw [world_trunc_root, node_trunc_now]
  cases hn : w.root.now with
  | none => rfl
  | some d =>
    simp only
    rw [updNode_trunc cfg (hw.2 d hn), map_map', map_map']; rfl

theorem refreshNB_keep {w w' : World K} (h : refreshNB cfg w = .ok w') (hw : ClockLE t w) : ClockLE t w' :=
  keep_of_lift cfg hw (refreshNB_lift (clockLaws cfg _) hw h)

/-- **`root.update(d)` on truncated data, `d ≤ t`** (no assumption on the clocks) -/
theorem updRoot_trunc (cfg : Cfg K) {d t : Nat} (h : d ≤ t) (w : World K) :
    updRoot cfg d (w.trunc t) = (updRoot cfg d w).map (World.trunc t) := by
  obtain ⟨root, st⟩ := w
  cases root with
  | sec s => rfl
  | strat sd kids =>
    show updRoot cfg d ⟨.strat sd (Node.truncL t kids), st⟩ = _
    rw [updRoot_strat, updRoot_strat]
    refine bind_comm (truncKA t) (World.trunc t) (updKids_trunc cfg h kids _ _ _) fun r hr => ?_
    refine ite_comm Iff.rfl (Except.map (World.trunc t)) ?_ ?_
    · have hB : ClockLE t (bankruptWorld (stratDateChange d sd).1 r) := by
        have hkn := updKids_nowsEq kids _ _ _ _ _ hr
        refine wok_of_nowsIn_strat (sd := _) (ks := r.1) rfl ?_
        simp only [bankruptWorld, NowsIn]
        refine ⟨fun x hx => ?_, nowsInL_mono (fun x hx => hx ▸ h) _ hkn⟩
        change (stratDateChange d sd).1.now = some x at hx
        rw [stratDateChange_now] at hx; cases hx; exact h
      refine bind_comm (World.trunc t) (World.trunc t)
        (flattenAt_trunc (fun w hw => refreshNB_trunc hw) (fun _ _ => refreshNB_keep)
          (bankruptWorld (stratDateChange d sd).1 r).root [] _ hB) fun wF _ => ?_
      rw [world_trunc_root, updNode_trunc cfg h, map_map', map_map']; rfl
    · rw [stratFinish_trunc, map_map', map_map']; rfl

theorem refresh_trunc {w : World K} (hw : ClockLE t w) :
    refresh cfg (w.trunc t) = (refresh cfg w).map (World.trunc t) := by
  unfold refresh
  rw [world_trunc_root, node_trunc_now]
  refine ite_comm Iff.rfl (Except.map (World.trunc t)) ?_ rfl
  cases hn : w.root.now with
  | none => rfl
  | some d => exact updRoot_trunc cfg (hw.2 d hn) w

theorem refresh_keep {w w' : World K} (h : refresh cfg w = .ok w') (hw : ClockLE t w) : ClockLE t w' :=
  keep_of_lift cfg hw (refresh_lift (clockLaws cfg _) hw h)

/-! ### the public operations -/

theorem opAdjust_trunc {w : World K} (hw : ClockLE t w) (path : List Nat) (amount : K) (u fl : Bool) :
    opAdjust (w.trunc t) path amount u fl = (opAdjust w path amount u fl).map (World.trunc t) := by
  unfold opAdjust
  refine modify_trunc (fun par n _ _ => ?_) hw path
  cases n <;> rfl

theorem opAllocate_trunc {w : World K} (hw : ClockLE t w) (path : List Nat) (amount : K) (u : Bool) :
    opAllocate cfg (w.trunc t) path amount u = (opAllocate cfg w path amount u).map (World.trunc t) := by
  unfold opAllocate
  refine modify_trunc (fun par n hp hn => ?_) hw path
  cases n with
  | sec s =>
    cases par with
    | none => rfl
    | some p =>
      simp only [trunc_sec]
      rw [secAllocate_trunc cfg p.comm s (hp p rfl), map_map', map_map']; rfl
  | strat sd kids =>
    simp only [NowsIn] at hn
    cases par with
    | none =>
      simp only [trunc_strat]
      rw [allocKids_trunc cfg t kids amount _ (by exact hn.1) hn.2, map_map', map_map']; rfl
    | some p =>
      show Except.map _ (allocNode cfg p.now p.comm amount (Node.trunc t (.strat sd kids))) =
        Except.map _ (Except.map _ (allocNode cfg p.now p.comm amount (.strat sd kids)))
      rw [allocNode_trunc cfg t (.strat sd kids) _ _ _ (hp p rfl) (by simpa [NowsIn] using hn),
        map_map', map_map']; rfl

theorem opTransact_trunc {w : World K} (hw : ClockLE t w) (path : List Nat) (q : K) (u : Bool)
    (custom : Option K) :
    opTransact cfg (w.trunc t) path q u custom = (opTransact cfg w path q u custom).map (World.trunc t) := by
  unfold opTransact
  refine modify_trunc (fun par n hp hn => ?_) hw path
  cases n with
  | sec s =>
    cases par with
    | none => rfl
    | some p =>
      simp only [trunc_sec]
      rw [secTransact_trunc cfg p.comm s (hp p rfl), map_map', map_map']; rfl
  | strat sd kids =>
    simp only [NowsIn] at hn
    have key : Except.map (fun x : StratData K × List (Node K) => ((Node.strat x.1 x.2, [], u) : OpRes K))
        (transKids cfg q (Node.truncL t kids) sd) =
        Except.map (truncRes t) (Except.map (fun x : StratData K × List (Node K) =>
          ((Node.strat x.1 x.2, [], u) : OpRes K)) (transKids cfg q kids sd)) := by
      rw [transKids_trunc cfg t kids q sd hn.1 hn.2, map_map', map_map']; rfl
    cases par <;> exact key

theorem opAdjust_keep (cfg : Cfg K) {w w' : World K} {path : List Nat} {amount : K} {u fl : Bool}
    (h : opAdjust w path amount u fl = .ok w') (hw : ClockLE t w) : ClockLE t w' :=
  keep_of_lift cfg hw (opAdjust_lift (clockLaws cfg _) hw h)
theorem opAllocate_keep {w w' : World K} {path : List Nat} {amount : K} {u : Bool}
    (h : opAllocate cfg w path amount u = .ok w') (hw : ClockLE t w) : ClockLE t w' :=
  keep_of_lift cfg hw (opAllocate_lift (clockLaws cfg _) hw h)
theorem opTransact_keep {w w' : World K} {path : List Nat} {q : K} {u : Bool} {custom : Option K}
    (h : opTransact cfg w path q u custom = .ok w') (hw : ClockLE t w) : ClockLE t w' :=
  keep_of_lift cfg hw (opTransact_lift (clockLaws cfg _) hw h)
theorem opFlatten_keep {w w' : World K} {path : List Nat}
    (h : opFlatten cfg w path = .ok w') (hw : ClockLE t w) : ClockLE t w' :=
  keep_of_lift cfg hw (opFlatten_lift (clockLaws cfg _) hw h)
theorem opClose_keep {w w' : World K} {path : List Nat} {child : Nat} {u : Bool}
    (h : opClose cfg w path child u = .ok w') (hw : ClockLE t w) : ClockLE t w' :=
  keep_of_lift cfg hw (opClose_lift (clockLaws cfg _) hw h)
theorem opRebalance_keep {w w' : World K} {path : List Nat} {weight : K} {child : Nat} {base : Option K}
    {u : Bool} (h : opRebalance cfg w path weight child base u = .ok w') (hw : ClockLE t w) : ClockLE t w' :=
  keep_of_lift cfg hw (opRebalance_lift (clockLaws cfg _) hw h)
theorem opRead_keep {w w' : World K} {path : List Nat} {g : Getter}
    (h : opRead cfg w path g = .ok w') (hw : ClockLE t w) : ClockLE t w' :=
  keep_of_lift cfg hw (opRead_lift (clockLaws cfg _) hw h)

theorem opFlatten_trunc {w : World K} (hw : ClockLE t w) (path : List Nat) :
    opFlatten cfg (w.trunc t) path = (opFlatten cfg w path).map (World.trunc t) := by
  unfold opFlatten
  rw [world_trunc_root, get?_trunc]
  cases hg : w.root.get? path with
  | none => rfl
  | some n =>
    exact flattenAt_trunc (fun w hw => refresh_trunc hw) (fun _ _ => refresh_keep) n path w hw

theorem opClose_trunc {w : World K} (hw : ClockLE t w) (path : List Nat) (child : Nat) (u : Bool) :
    opClose cfg (w.trunc t) path child u = (opClose cfg w path child u).map (World.trunc t) := by
  unfold opClose
  rw [world_trunc_root, get?_trunc, get?_trunc]
  cases hg : w.root.get? path with
  | none => rfl
  | some n =>
    cases n with
    | sec s => rfl
    | strat sd ks =>
      cases hc : w.root.get? (path ++ [child]) with
      | none => rfl
      | some c =>
        cases c <;>
        · simp only [Option.map_some, trunc_strat, trunc_sec, truncL_isEmpty]
          refine bind_comm (World.trunc t) (World.trunc t) ?_ fun w1 h1 => ?_
          · exact ite_comm Iff.rfl (Except.map (World.trunc t)) (opFlatten_trunc hw _) rfl
          · have hw1 : ClockLE t w1 := by
              split at h1
              · exact opFlatten_keep h1 hw
              · cases h1; exact hw
            refine ite_comm Iff.rfl (Except.map (World.trunc t)) ?_ ?_
            · first
                | rfl
                | (rw [world_trunc_root, get?_trunc]
                   cases hc1 : w1.root.get? (path ++ [child]) with
                   | none => rfl
                   | some c1 =>
                     cases c1 with
                     | strat _ _ => rfl
                     | sec s1 =>
                       simp only [Option.map_some, trunc_sec, trunc_position]
                       exact ite_comm Iff.rfl (Except.map (World.trunc t)) (opTransact_trunc hw1 _ _ _ _) rfl)
            · refine bind_comm (World.trunc t) (World.trunc t) (refresh_trunc hw1) fun w2 h2 => ?_
              have hw2 := refresh_keep h2 hw1
              rw [world_trunc_root, get?_trunc]
              cases hc2 : w2.root.get? (path ++ [child]) with
              | none => rfl
              | some c2 =>
                simp only [Option.map_some, node_trunc_value]
                exact ite_comm Iff.rfl (Except.map (World.trunc t)) (opAllocate_trunc hw2 _ _ _) rfl

theorem opRebalance_trunc {w : World K} (hw : ClockLE t w) (path : List Nat) (weight : K) (child : Nat)
    (base : Option K) (u : Bool) :
    opRebalance cfg (w.trunc t) path weight child base u =
      (opRebalance cfg w path weight child base u).map (World.trunc t) := by
  unfold opRebalance
  refine ite_comm Iff.rfl (Except.map (World.trunc t)) (opClose_trunc hw _ _ _) ?_
  refine bind_comm (World.trunc t) (World.trunc t) ?_ fun w1 h1 => ?_
  · exact ite_comm Iff.rfl (Except.map (World.trunc t)) (refresh_trunc hw) rfl
  · have hw1 : ClockLE t w1 := by
      split at h1
      · exact refresh_keep h1 hw
      · cases h1; exact hw
    refine bind_comm (World.trunc t) (World.trunc t) (refresh_trunc hw1) fun w2 h2 => ?_
    have hw2 := refresh_keep h2 hw1
    rcases hb1 : w1.root.get? path with _ | (s1 | ⟨sd1, ks1⟩) <;>
    · simp only [world_trunc_root, get?_trunc, hb1, Option.map_none, Option.map_some, trunc_sec, trunc_strat]
      cases hg : w2.root.get? path with
      | none => rfl
      | some n =>
        cases n with
        | sec s => rfl
        | strat sd ks =>
          cases hc : w2.root.get? (path ++ [child]) with
          | none => rfl
          | some c =>
            simp only [Option.map_some, trunc_strat, node_trunc_weight, node_trunc_fixedIncome]
            refine ite_comm Iff.rfl (Except.map (World.trunc t)) ?_ (opAllocate_trunc hw2 _ _ _)
            exact ite_comm Iff.rfl (Except.map (World.trunc t)) (opTransact_trunc hw2 _ _ _ _)
              (opAllocate_trunc hw2 _ _ _)

/-! ### getters -/

mutual
theorem localRefreshAll_trunc {rootNow : Nat} (h : rootNow ≤ t) :
    (n : Node K) → ∀ (pnow : Option Nat),
      localRefreshAll cfg rootNow pnow (n.trunc t) = (localRefreshAll cfg rootNow pnow n).map (Node.trunc t)
  | .sec s, pnow => by
    rw [trunc_sec, localRefreshAll.eq_1, localRefreshAll.eq_1]
    refine ite_comm Iff.rfl (Except.map (Node.trunc t)) ?_ rfl
    rw [secUpdate_trunc cfg s h, map_map', map_map']; rfl
  | .strat sd kids, pnow => by
    rw [trunc_strat, localRefreshAll.eq_2, localRefreshAll.eq_2, localRefreshKids_trunc h kids, map_map',
      map_map']; rfl
theorem localRefreshKids_trunc {rootNow : Nat} (h : rootNow ≤ t) :
    (ks : List (Node K)) → ∀ (pnow : Option Nat),
      localRefreshKids cfg rootNow pnow (Node.truncL t ks) =
        (localRefreshKids cfg rootNow pnow ks).map (Node.truncL t)
  | [], pnow => by rw [truncL_nil, localRefreshKids.eq_1]; rfl
  | k :: ks, pnow => by
    rw [truncL_cons, localRefreshKids.eq_2, localRefreshKids.eq_2]
    refine bind_comm (Node.trunc t) (Node.truncL t) (localRefreshAll_trunc h k pnow) fun k' _ => ?_
    rw [localRefreshKids_trunc h ks, map_map', map_map']; rfl
end

theorem localF_trunc {rootNow : Option Nat} (hr : NowLE t rootNow) (par : Option (StratData K)) (n : Node K) :
    localF cfg rootNow par (n.trunc t) = (localF cfg rootNow par n).map (truncRes t) := by
  unfold localF
  cases par with
  | none => cases n <;> rfl
  | some p =>
    cases n with
    | strat _ _ => rfl
    | sec s =>
      simp only [trunc_sec]
      refine ite_comm Iff.rfl (Except.map (truncRes t)) ?_ rfl
      cases rootNow with
      | none => rfl
      | some d =>
        simp only
        rw [secUpdate_trunc cfg s (hr d rfl), map_map', map_map']; rfl

theorem localModify_keep {w w' : World K} {path : List Nat}
    (h : w.modify path (localF cfg w.root.now) = .ok w') (hw : ClockLE t w) : ClockLE t w' :=
  keep_of_lift cfg hw
    (modify_lift (clockLaws cfg _) (fun _ _ _ _ _ hr => localF_lift (clockLaws cfg _) hw.2 hr) hw h)

theorem opRead_trunc {w : World K} (hw : ClockLE t w) (path : List Nat) (g : Getter) :
    opRead cfg (w.trunc t) path g = (opRead cfg w path g).map (World.trunc t) := by
  rw [opRead_eq, opRead_eq]
  cases g with
  | plain => rfl
  | stratRefreshing => exact refresh_trunc hw
  | secLocal =>
    simp only [world_trunc_root, node_trunc_now]
    exact modify_trunc (fun par n _ _ => localF_trunc hw.2 par n) hw path
  | secSeries =>
    simp only [world_trunc_root, node_trunc_now]
    exact bind_comm (World.trunc t) (World.trunc t)
      (modify_trunc (fun par n _ _ => localF_trunc hw.2 par n) hw path)
      fun w1 h1 => refresh_trunc (localModify_keep h1 hw)
  | stratMembers =>
    simp only
    refine bind_comm (World.trunc t) (World.trunc t) (refresh_trunc hw) fun w1 h1 => ?_
    have hw1 := refresh_keep h1 hw
    rw [world_trunc_root, node_trunc_now]
    cases hn : w1.root.now with
    | none => rfl
    | some d =>
      simp only
      refine modify_trunc (fun par n _ _ => ?_) hw1 path
      rw [localRefreshAll_trunc (hw1.2 d hn), map_map', map_map']; rfl

/-! ### public steps -/

theorem ok_of_comm {α β : Type} {x : Except Err α} {x' : Except Err β} {m : α → β} {a : α}
    (hc : x' = x.map m) (h : x = .ok a) : x' = .ok (m a) := by rw [hc, h]; rfl

/-- **A public step executed at clocks `≤ t` (explicit updates at dates `≤ t`) is the same step on the
    truncated data.** -/
theorem StepC.trunc {w w' : World K} (hw : ClockLE t w) (h : StepC cfg (· ≤ t) w w') :
    StepC cfg (· ≤ t) (w.trunc t) (w'.trunc t) := by
  cases h with
  | update d hd h => exact .update d hd (ok_of_comm (updRoot_trunc cfg hd w) h)
  | adjust p a u f h => exact .adjust p a u f (ok_of_comm (opAdjust_trunc hw p a u f) h)
  | allocate p a u h => exact .allocate p a u (ok_of_comm (opAllocate_trunc hw p a u) h)
  | transact p q u c h => exact .transact p q u c (ok_of_comm (opTransact_trunc hw p q u c) h)
  | flatten p h => exact .flatten p (ok_of_comm (opFlatten_trunc hw p) h)
  | close p c u h => exact .close p c u (ok_of_comm (opClose_trunc hw p c u) h)
  | rebalance p wt c b u h => exact .rebalance p wt c b u (ok_of_comm (opRebalance_trunc hw p wt c b u) h)
  | read p g h => exact .read p g (ok_of_comm (opRead_trunc hw p g) h)

theorem StepC.keep {w w' : World K} (hw : ClockLE t w) (h : StepC cfg (· ≤ t) w w') : ClockLE t w' :=
  keep_of_lift cfg hw (h.lift (clockLaws cfg _) hw)

/-- … and so is any finite sequence of them. -/
theorem RunC.trunc {w w' : World K} (hw : ClockLE t w) (h : RunC cfg (· ≤ t) w w') :
    RunC cfg (· ≤ t) (w.trunc t) (w'.trunc t) := by
  induction h with
  | nil w => exact .nil _
  | cons hs _ ih => exact .cons (hs.trunc hw) (ih (hs.keep hw))

end Bt.P04
