import Bt.Proofs.Quiet
/-! The recorded rows hold the end-of-date state. -/
namespace Bt
set_option linter.unusedSectionVars false
variable {K : Type} [Field K] [LinearOrder K] [IsStrictOrderedRing K] [HasFloor K]

/-- rows of a security at `d`: position as of the last update, value, notional -/
def SecRowsAt (d : Nat) (s : SecData K) : Prop :=
  s.rPosition[d]? = some s.lastPos ∧ s.rValue[d]? = some s.value ∧ s.rNotl[d]? = some s.notl
/-- invariant: the rows at the security's own date hold its marked state -/
def SecRowsInv (s : SecData K) : Prop := ∀ d, s.now = some d → SecRowsAt d s
def SecRowsLen (d : Nat) (s : SecData K) : Prop :=
  d < s.rPosition.length ∧ d < s.rValue.length ∧ d < s.rNotl.length

def StratRowsAt (d : Nat) (sd : StratData K) : Prop :=
  sd.rValue[d]? = some sd.value ∧ sd.rNotl[d]? = some sd.notl
def StratRowsInv (sd : StratData K) : Prop := ∀ d, sd.now = some d → StratRowsAt d sd
def StratRowsLen (d : Nat) (sd : StratData K) : Prop :=
  d < sd.rValue.length ∧ d < sd.rNotl.length ∧ d < sd.rCash.length

/-- what `update(d)` does for the rows of a security -/
structure SecRowsStep (d : Nat) (s s' : SecData K) : Prop where
  inv : SecRowsInv s → SecRowsLen d s → SecRowsInv s'
  len : SecRowsLen d s → SecRowsLen d s'
  fresh : SecRowsInv s → SecRowsLen d s → s.needupdate = true →
    s'.now = some d ∧ s'.rPosition[d]? = some s'.position ∧ s'.rValue[d]? = some s'.value ∧
      s'.rNotl[d]? = some s'.notl

/-- what `update(d)` does for the rows of a strategy -/
structure StratRowsStep (d : Nat) (sd sd' : StratData K) : Prop where
  inv : StratRowsInv sd → StratRowsLen d sd → StratRowsInv sd'
  len : StratRowsLen d sd → StratRowsLen d sd'
  fresh : StratRowsInv sd → StratRowsLen d sd →
    sd'.now = some d ∧ sd'.rValue[d]? = some sd'.value ∧ sd'.rCash[d]? = some sd'.capital ∧
      sd'.rNotl[d]? = some sd'.notl

theorem secUpdate_rowsAt {cfg : Cfg K} {d : Nat} {s s' : SecData K} (h : secUpdate cfg d s = .ok s')
    (hi : SecRowsInv s) (hl : SecRowsLen d s) :
    s'.now = some d ∧ s'.lastPos = s'.position ∧ SecRowsAt d s' := by
  have hf := secUpdate_frame h
  obtain ⟨s1, h1, ht⟩ := secUpdate_base h
  obtain ⟨lp, lv, ln⟩ := hl
  cases hE : secEarly d s
  · have fr := secBaseUpdate_fresh hE h1
    refine ⟨by rw [ht.now, fr.now], by rw [ht.lastPos, fr.lastPos, hf.position], ?_, ?_, ?_⟩
    · rw [ht.rPosition, fr.rPosition, ht.lastPos, fr.lastPos]; simp [lp]
    · rw [ht.rValue, fr.rValue, ht.value]; simp [lv]
    · exact secUpdate_rNotl h ln (Or.inr hE)
  · have hb := h1
    rw [secBaseUpdate_early hE] at hb
    cases hb
    obtain ⟨hnow, hlp⟩ := (secEarly_true_iff d s).mp hE
    obtain ⟨ip, iv, inl⟩ := hi d hnow
    refine ⟨by rw [ht.now, hnow], by rw [ht.lastPos, hlp, hf.position], ?_, ?_, ?_⟩
    · rw [ht.rPosition, ht.lastPos]; exact ip
    · rw [ht.rValue, ht.value]; exact iv
    · by_cases hk : s.kind = .plain
      · have := secUpdate_notl_plain h hk
        rw [secBaseUpdate_early hE] at this
        cases this; exact inl
      · exact secUpdate_rNotl h ln (Or.inl hk)

theorem secUpdate_rowsStep {cfg : Cfg K} {d : Nat} {s s' : SecData K} (h : secUpdate cfg d s = .ok s') :
    SecRowsStep d s s' := by
  have hf := secUpdate_frame h
  refine ⟨?_, ?_, ?_⟩
  · intro hi hl d' hd'
    obtain ⟨hnow, _, hr⟩ := secUpdate_rowsAt h hi hl
    rw [hnow] at hd'; cases hd'; exact hr
  · intro ⟨a, b, c⟩
    exact ⟨by rw [hf.lenPosition]; exact a, by rw [hf.lenValue]; exact b, by rw [hf.lenNotl]; exact c⟩
  · intro hi hl _
    obtain ⟨hnow, hlp, hp, hv, hn⟩ := secUpdate_rowsAt h hi hl
    exact ⟨hnow, by rw [← hlp]; exact hp, hv, hn⟩

theorem sweepSec_rowsStep (d : Nat) (newpt : Bool) (s : SecData K) (acc : Acc K) :
    (SecRowsInv s → SecRowsInv (sweepSec newpt s acc).1) ∧
    (SecRowsLen d s → SecRowsLen d (sweepSec newpt s acc).1) := by
  constructor
  · intro hi d' hd'
    simp only [sweepSec_now] at hd'
    simpa [SecRowsAt] using hi d' hd'
  · intro hl; simpa [SecRowsLen] using hl

theorem updNode_stratRowsStep {cfg : Cfg K} {d : Nat} {sd sd' : StratData K} {kids kids' : List (Node K)}
    (h : updNode cfg d (.strat sd kids) = .ok (.strat sd' kids')) : StratRowsStep d sd sd' := by
  obtain ⟨kids1, acc, sd3, hk, hw, heq⟩ := updNode_strat_inv h
  injection heq with hsd hkids
  obtain ⟨f_cap, f_fi, f_now, _, f_rc, _, _, _⟩ := stratWrite_frame hw
  have hnow : sd'.now = some d := by rw [hsd]; simp [f_now]
  have hfresh : StratRowsInv sd → StratRowsLen d sd →
      sd'.rValue[d]? = some sd'.value ∧ sd'.rCash[d]? = some sd'.capital ∧ sd'.rNotl[d]? = some sd'.notl := by
    intro hi ⟨lv, ln, lc⟩
    have hc : sd'.rCash[d]? = some sd'.capital := by
      rw [hsd]; simp [f_rc, lc]
    rcases stratWrite_inv hw with ⟨p, rfl⟩ | ⟨hf, rfl, _, _⟩
    · refine ⟨?_, hc, ?_⟩
      · rw [hsd]; simp [lv]
      · rw [hsd]; simp [ln]
    · have hd : sd.now = some d := by
        by_contra hne
        have := (stratDateChange_newpt d sd).mpr hne
        rw [hf] at this; cases this
      obtain ⟨iv, inl⟩ := hi d hd
      refine ⟨?_, hc, ?_⟩
      · rw [hsd]; simpa using iv
      · rw [hsd]; simpa using inl
  refine ⟨?_, ?_, ?_⟩
  · intro hi hl d' hd'
    rw [hnow] at hd'; cases hd'
    obtain ⟨a, _, c⟩ := hfresh hi hl
    exact ⟨a, c⟩
  · intro ⟨lv, ln, lc⟩
    rw [hsd]
    rcases stratWrite_inv hw with ⟨p, rfl⟩ | ⟨hf, rfl, _, _⟩
    · exact ⟨by simpa using lv, by simpa using ln, by simpa using lc⟩
    · exact ⟨by simpa using lv, by simpa using ln, by simpa using lc⟩
  · intro hi hl
    obtain ⟨a, b, c⟩ := hfresh hi hl
    exact ⟨hnow, a, b, c⟩

/-- the relation `update(d)` establishes for the rows, node by node -/
def RowsRel (d : Nat) : Node K → Node K → Prop :=
  TreeRel (fun sd _ sd' _ => StratRowsStep d sd sd') (SecRowsStep d)

theorem updNode_rowsRel {cfg : Cfg K} {d : Nat} {n n' : Node K} (h : updNode cfg d n = .ok n') :
    RowsRel d n n' := by
  refine (updNode_treeRel (P := fun sd _ sd' _ => StratRowsStep d sd sd') (S := SecRowsStep d)
    (fun _ _ _ _ h => updNode_stratRowsStep h) (fun _ _ _ _ w h => ⟨h.inv, h.len, h.fresh⟩)
    ?_ ?_ (fun _ _ w h => ⟨h.inv, h.len, h.fresh⟩)).1 n n' h
  · intro newpt s acc s' hs
    have st := secUpdate_rowsStep hs
    obtain ⟨w1, w2⟩ := sweepSec_rowsStep d newpt s acc
    exact ⟨fun hi hl => st.inv (w1 hi) (w2 hl), fun hl => st.len (w2 hl),
      fun hi hl hn => st.fresh (w1 hi) (w2 hl) (by simpa using hn)⟩
  · intro newpt s acc hn
    obtain ⟨w1, w2⟩ := sweepSec_rowsStep d newpt s acc
    exact ⟨fun hi _ => w1 hi, w2, fun _ _ hn' => by rw [hn] at hn'; cases hn'⟩

/-- every node's rows at its own date hold its state -/
def RowsInv : Node K → Prop := TreeAll (fun sd _ => StratRowsInv sd) SecRowsInv
/-- every row list used is longer than `d` -/
def RowsLen (d : Nat) : Node K → Prop := TreeAll (fun sd _ => StratRowsLen d sd) (SecRowsLen d)

/-- after `update(d)`: every strategy, and every security the loop visited, has its rows at `d` equal to
    its state -/
def RowsFresh (d : Nat) : Node K → Node K → Prop :=
  TreeRel
    (fun _ _ sd' _ => sd'.now = some d ∧ sd'.rValue[d]? = some sd'.value ∧ sd'.rCash[d]? = some sd'.capital ∧
      sd'.rNotl[d]? = some sd'.notl)
    (fun s s' => s.needupdate = true →
      s'.now = some d ∧ s'.rPosition[d]? = some s'.position ∧ s'.rValue[d]? = some s'.value ∧
        s'.rNotl[d]? = some s'.notl)

/-- strengthen / transfer along a tree relation using predicates that hold on the input tree -/
theorem TreeRel.imp_of_all
    {P P' : StratData K → List (Node K) → StratData K → List (Node K) → Prop}
    {S S' : SecData K → SecData K → Prop} {QA : StratData K → Prop} {A : SecData K → Prop}
    (hP : ∀ sd kids sd' kids', P sd kids sd' kids' → QA sd → P' sd kids sd' kids')
    (hS : ∀ s s', S s s' → A s → S' s s') :
    (∀ n n' : Node K, TreeRel P S n n' → TreeAll (fun sd _ => QA sd) A n → TreeRel P' S' n n') ∧
    (∀ l l' : List (Node K), TreeRelKids P S l l' → TreeAllKids (fun sd _ => QA sd) A l →
      TreeRelKids P' S' l l') := by
  apply Node.induct
  · intro s n' h ha
    cases n' with
    | sec s' => simp only [TreeRel, TreeAll] at *; exact hS _ _ h ha
    | strat sd' kids' => simp [TreeRel] at h
  · intro sd kids ih n' h ha
    cases n' with
    | sec s' => simp [TreeRel] at h
    | strat sd' kids' =>
      simp only [TreeRel, TreeAll] at *
      exact ⟨hP _ _ _ _ h.1 ha.1, ih _ h.2 ha.2⟩
  · intro l' h _
    cases l' with
    | nil => simp [TreeRelKids]
    | cons k' ks' => simp [TreeRelKids] at h
  · intro k ks ihk ihks l' h ha
    cases l' with
    | nil => simp [TreeRelKids] at h
    | cons k' ks' =>
      simp only [TreeRelKids, TreeAllKids] at *
      exact ⟨ihk _ h.1 ha.1, ihks _ h.2 ha.2⟩

theorem TreeRel.transferAll
    {P : StratData K → List (Node K) → StratData K → List (Node K) → Prop}
    {S : SecData K → SecData K → Prop} {QA QB : StratData K → Prop} {A B : SecData K → Prop}
    (hP : ∀ sd kids sd' kids', P sd kids sd' kids' → QA sd → QB sd')
    (hS : ∀ s s', S s s' → A s → B s') :
    (∀ n n' : Node K, TreeRel P S n n' → TreeAll (fun sd _ => QA sd) A n → TreeAll (fun sd _ => QB sd) B n') ∧
    (∀ l l' : List (Node K), TreeRelKids P S l l' → TreeAllKids (fun sd _ => QA sd) A l →
      TreeAllKids (fun sd _ => QB sd) B l') := by
  apply Node.induct
  · intro s n' h ha
    cases n' with
    | sec s' => simp only [TreeRel, TreeAll] at *; exact hS _ _ h ha
    | strat sd' kids' => simp [TreeRel] at h
  · intro sd kids ih n' h ha
    cases n' with
    | sec s' => simp [TreeRel] at h
    | strat sd' kids' =>
      simp only [TreeRel, TreeAll] at *
      exact ⟨hP _ _ _ _ h.1 ha.1, ih _ h.2 ha.2⟩
  · intro l' h _
    cases l' with
    | nil => simp [TreeAllKids]
    | cons k' ks' => simp [TreeRelKids] at h
  · intro k ks ihk ihks l' h ha
    cases l' with
    | nil => simp [TreeRelKids] at h
    | cons k' ks' =>
      simp only [TreeRelKids, TreeAllKids] at *
      exact ⟨ihk _ h.1 ha.1, ihks _ h.2 ha.2⟩

theorem TreeAll.and {QA QB : StratData K → Prop} {A B : SecData K → Prop} :
    (∀ n : Node K, TreeAll (fun sd _ => QA sd) A n → TreeAll (fun sd _ => QB sd) B n →
      TreeAll (fun sd _ => QA sd ∧ QB sd) (fun s => A s ∧ B s) n) ∧
    (∀ l : List (Node K), TreeAllKids (fun sd _ => QA sd) A l → TreeAllKids (fun sd _ => QB sd) B l →
      TreeAllKids (fun sd _ => QA sd ∧ QB sd) (fun s => A s ∧ B s) l) := by
  apply Node.induct
  · intro s ha hb; simp only [TreeAll] at *; exact ⟨ha, hb⟩
  · intro sd kids ih ha hb; simp only [TreeAll] at *; exact ⟨⟨ha.1, hb.1⟩, ih ha.2 hb.2⟩
  · intros; simp [TreeAllKids]
  · intro k ks ihk ihks ha hb
    simp only [TreeAllKids] at *
    exact ⟨ihk ha.1 hb.1, ihks ha.2 hb.2⟩

theorem updNode_rows {cfg : Cfg K} {d : Nat} {n n' : Node K} (h : updNode cfg d n = .ok n')
    (hi : RowsInv n) (hl : RowsLen d n) : RowsInv n' ∧ RowsLen d n' ∧ RowsFresh d n n' := by
  have hr := updNode_rowsRel h
  have hb := TreeAll.and.1 n hi hl
  refine ⟨?_, ?_, ?_⟩
  · exact (TreeRel.transferAll (QA := fun sd => StratRowsInv sd ∧ StratRowsLen d sd)
      (A := fun s => SecRowsInv s ∧ SecRowsLen d s) (QB := StratRowsInv) (B := SecRowsInv)
      (fun _ _ _ _ hp ha => hp.inv ha.1 ha.2) (fun _ _ hs ha => hs.inv ha.1 ha.2)).1 n n' hr hb
  · exact (TreeRel.transferAll (QA := fun sd => StratRowsInv sd ∧ StratRowsLen d sd)
      (A := fun s => SecRowsInv s ∧ SecRowsLen d s) (QB := StratRowsLen d) (B := SecRowsLen d)
      (fun _ _ _ _ hp ha => hp.len ha.2) (fun _ _ hs ha => hs.len ha.2)).1 n n' hr hb
  · exact (TreeRel.imp_of_all (QA := fun sd => StratRowsInv sd ∧ StratRowsLen d sd)
      (A := fun s => SecRowsInv s ∧ SecRowsLen d s)
      (fun _ _ _ _ hp ha => hp.fresh ha.1 ha.2) (fun _ _ hs ha => hs.fresh ha.1 ha.2)).1 n n' hr hb

end Bt
