import Bt.Algos.ProgramR
import Bt.Proofs.ProgramX
import Bt.Props.C04_blotter
/-! Blotter-driven strategies in the whole-program model (`Bt.Algos.ProgramR`, `progRunR`): helper lemmas for
    `Bt.Props.C04_progr` (no look-ahead) — the row loop is causal and public, `progRunR` factors through the rows
    `Blotter.select` hands it (hence is causal in the blotter: `CausalWith`), and the generic composition of *two* trees of
    run functions that correspond node by node (`Nodes2`). -/
set_option linter.unusedSectionVars false
set_option linter.unusedVariables false
namespace Bt.PProgR
open Bt Bt.P08 Bt.P04 Bt.Prog Bt.PProg Bt.PProgX Bt.Blotter

section causal
variable {K : Type} [Field K] [LinearOrder K] [IsStrictOrderedRing K] [HasFloor K]
variable {cfg : Cfg K}

theorem execRows_nil (mult : Option K) (path : List Nat) (w : World K) : execRows cfg mult path [] w = .ok w := rfl

theorem execRows_cons (mult : Option K) (path : List Nat) (r : Int × BRow K) (rest : List (Int × BRow K)) (w : World K) :
    execRows cfg mult path (r :: rest) w = (execRow cfg mult path w r).bind (execRows cfg mult path rest) := rfl

/-- the row loop over a fixed list of rows: causal and public (a sequence of `transact` calls) -/
theorem execRows_causal_public (t : Nat) (mult : Option K) (path : List Nat) :
    ∀ rows : List (Int × BRow K),
      Causal t (fun _ w => execRows cfg mult path rows w) ∧ P04.RunPublic cfg (fun _ w => execRows cfg mult path rows w)
  | [] => ⟨causal_id, runPublic_id⟩
  | r :: rest => by
    obtain ⟨hc, hp⟩ := execRows_causal_public t mult path rest
    have hc1 : Causal t (fun _ w => execRow cfg mult path w r) := causal_transact (cfg := cfg) _ _ _ _
    have hp1 : P04.RunPublic cfg (fun _ w => execRow cfg mult path w r) := runPublic_transact _ _ _ _
    exact ⟨causal_seq hc1 hc hp1, runPublic_seq hp1 hp⟩

/-- one call of a blotter-driven stack once its rows are chosen: the row loop, then `root.update(now)` -/
def runRows (cfg : Cfg K) (path : List Nat) (x : Option K × List (Int × BRow K)) : RunFn K := fun d w =>
  (execRows cfg x.1 path x.2 w).bind fun w1 => updRoot cfg d w1

theorem runRows_causal (t : Nat) (path : List Nat) (x : Option K × List (Int × BRow K)) : Causal t (runRows cfg path x) :=
  causal_seq (execRows_causal_public t x.1 path x.2).1 causal_update (execRows_causal_public t x.1 path x.2).2

theorem runRows_public (path : List Nat) (x : Option K × List (Int × BRow K)) : P04.RunPublic cfg (runRows cfg path x) :=
  runPublic_seq (execRows_causal_public 0 x.1 path x.2).2 runPublic_update

/-- what a call at row `d` uses of the program: the multiplier and the rows of its window -/
def pick (p : ProgR K) (d : Nat) : Option K × List (Int × BRow K) := (p.mult, select p.timeline d p.rows)

theorem progRunR_eq (p : ProgR K) (path : List Nat) : progRunR cfg p path = fun d w => runRows cfg path (pick p d) d w := rfl

/-- two blotter programs agree up to the stamp `cut`, which covers rows `0..t` of the timeline: same timeline, same
    multiplier, the same rows stamped `≤ cut` in the same order (the rows stamped later: anything, anywhere in the frame) -/
def BlotterAgree (cut : Int) (t : Nat) (p p' : ProgR K) : Prop :=
  p'.timeline = p.timeline ∧ p'.mult = p.mult ∧
  (∀ d now, d ≤ t → p.timeline[d]? = some now → now ≤ cut) ∧
  p.rows.filter (fun r => decide (r.1 ≤ cut)) = p'.rows.filter (fun r => decide (r.1 ≤ cut))

theorem BlotterAgree.refl (cut : Int) (t : Nat) (p : ProgR K)
    (h : ∀ d now, d ≤ t → p.timeline[d]? = some now → now ≤ cut) : BlotterAgree cut t p p := ⟨rfl, rfl, h, rfl⟩

theorem select_of_none {β : Type} {tl : List Int} {i : Nat} (h : tl[i]? = none) (rows : List (Int × β)) :
    select tl i rows = [] := by
  unfold select
  rw [List.filter_eq_nil_iff]
  intro r _
  simp [inWindow, h]

theorem pick_agree {cut : Int} {t : Nat} {p p' : ProgR K} (h : BlotterAgree cut t p p') {d : Nat} (hd : d ≤ t) :
    pick p' d = pick p d := by
  obtain ⟨htl, hm, hcut, hrows⟩ := h
  unfold pick
  rw [htl, hm]
  congr 1
  cases hn : p.timeline[d]? with
  | none => rw [select_of_none hn, select_of_none hn]
  | some now => exact (C04.select_causal p.timeline d now cut hn (hcut d now hd hn) p.rows p'.rows hrows).symm

/-- **`progRunR` is causal in its blotter**: with two programs that agree up to `cut`, `progRunR p'` on the data truncated
    after `t` does at every date `d ≤ t` what `progRunR p` does on the full data -/
theorem progRunR_causalWith (cut : Int) (t : Nat) (path : List Nat) :
    CausalWith (BlotterAgree cut) t (fun p => progRunR cfg p path) :=
  causalWith_of_factor (E := BlotterAgree cut) pick (runRows cfg path) (fun p p' d hd hE => pick_agree hE hd)
    (runRows_causal t path)

theorem progRunR_causal (p : ProgR K) (path : List Nat) (t : Nat) : Causal t (progRunR cfg p path) := fun d hd w hw =>
  runRows_causal t path (pick p d) d hd w hw

theorem progRunR_public (p : ProgR K) (path : List Nat) : P04.RunPublic cfg (progRunR cfg p path) := fun d w w2 hw h =>
  runRows_public path (pick p d) d w w2 hw h

/-! ### two trees of run functions that correspond node by node -/

theorem causalPair_id (t : Nat) : CausalPair t (fun _ w => (.ok w : Except Err (World K))) (fun _ w => .ok w) :=
  fun _ _ _ _ => rfl

theorem causalPair_seq {t : Nat} {f f' g g' : RunFn K} (hf : CausalPair t f f') (hg : CausalPair t g g')
    (hfp : P04.RunPublic cfg f) :
    CausalPair t (fun d w => (f d w).bind (g d)) (fun d w => (f' d w).bind (g' d)) := fun d hd w hw =>
  bind_comm (World.trunc t) (World.trunc t) (hf d hd w hw) fun w1 h1 => hg d hd w1 (hfp.atClock hw h1)

end causal

section two
variable {α : Type} [Add α] [Sub α] [Mul α] [Div α] [Neg α] [LT α] [DecidableLT α]
  [LE α] [DecidableLE α] [OfNat α 0] [OfNat α 1] [HasFloor α]

mutual
/-- `Nodes2 R tr tr' path`: the two trees have the same shape and `R` relates the run functions of corresponding nodes,
    each taken at its own path -/
def Nodes2 (R : RunFn α → RunFn α → Prop) : GTree α → GTree α → List Nat → Prop
  | .node f kids, .node f' kids', path => R (f path) (f' path) ∧ NodesL2 R kids kids' path 0
def NodesL2 (R : RunFn α → RunFn α → Prop) : List (Option (GTree α)) → List (Option (GTree α)) → List Nat → Nat → Prop
  | [], [], _, _ => True
  | none :: ks, none :: ks', path, i => NodesL2 R ks ks' path (i + 1)
  | some t :: ks, some t' :: ks', path, i => Nodes2 R t t' (path ++ [i]) ∧ NodesL2 R ks ks' path (i + 1)
  | _, _, _, _ => False
end

theorem nodes2_node (R : RunFn α → RunFn α → Prop) (f f' : List Nat → RunFn α) (kids kids' : List (Option (GTree α)))
    (path : List Nat) :
    Nodes2 R (.node f kids) (.node f' kids') path ↔ R (f path) (f' path) ∧ NodesL2 R kids kids' path 0 := by
  rw [Nodes2]

mutual
/-- a binary closure principle: a relation between run functions that holds of ("do nothing", "do nothing") and is
    closed under sequential composition passes from the nodes to `Strategy.run()` of the two trees -/
theorem treeRunG_closed2 {R : RunFn α → RunFn α → Prop} (hid : R (fun _ w => .ok w) (fun _ w => .ok w))
    (hseq : ∀ f f' g g' : RunFn α, R f f' → R g g' → R (fun d w => (f d w).bind (g d)) (fun d w => (f' d w).bind (g' d))) :
    (t t' : GTree α) → ∀ path, Nodes2 R t t' path → R (treeRunG t path) (treeRunG t' path)
  | .node f kids, .node f' kids', path, h => by
    rw [nodes2_node] at h
    rw [treeRunG_node_fn, treeRunG_node_fn]
    exact hseq _ _ _ _ h.1 (kidsRunG_closed2 hid hseq kids kids' path 0 h.2)
theorem kidsRunG_closed2 {R : RunFn α → RunFn α → Prop} (hid : R (fun _ w => .ok w) (fun _ w => .ok w))
    (hseq : ∀ f f' g g' : RunFn α, R f f' → R g g' → R (fun d w => (f d w).bind (g d)) (fun d w => (f' d w).bind (g' d))) :
    (ks ks' : List (Option (GTree α))) → ∀ path i, NodesL2 R ks ks' path i → R (kidsRunG ks path i) (kidsRunG ks' path i)
  | [], [], path, i, _ => by rw [kidsRunG_nil_fn]; exact hid
  | none :: ks, none :: ks', path, i, h => by
    rw [NodesL2] at h
    rw [kidsRunG_none_fn, kidsRunG_none_fn]
    exact kidsRunG_closed2 hid hseq ks ks' path (i + 1) h
  | some t :: ks, some t' :: ks', path, i, h => by
    rw [NodesL2] at h
    rw [kidsRunG_some_fn, kidsRunG_some_fn]
    exact hseq _ _ _ _ (treeRunG_closed2 hid hseq t t' _ h.1) (kidsRunG_closed2 hid hseq ks ks' path (i + 1) h.2)
  | [], _ :: _, _, _, h => by simp [NodesL2] at h
  | _ :: _, [], _, _, h => by simp [NodesL2] at h
  | none :: _, some _ :: _, _, _, h => by simp [NodesL2] at h
  | some _ :: _, none :: _, _, _, h => by simp [NodesL2] at h
end

end two

section pairtree
variable {K : Type} [Field K] [LinearOrder K] [IsStrictOrderedRing K] [HasFloor K]
variable {cfg : Cfg K}

/-- corresponding nodes agree up to `t` (`CausalPair`) and the nodes of the first tree are public ⟹ the trees agree up to `t` -/
theorem treeRunG_causalPair {t : Nat} (tr tr' : GTree K) (path : List Nat)
    (h : Nodes2 (fun f f' => CausalPair t f f' ∧ P04.RunPublic cfg f) tr tr' path) :
    CausalPair t (treeRunG tr path) (treeRunG tr' path) ∧ P04.RunPublic cfg (treeRunG tr path) :=
  treeRunG_closed2 (R := fun f f' => CausalPair t f f' ∧ P04.RunPublic cfg f) ⟨causalPair_id t, runPublic_id⟩
    (fun _ _ _ _ hf hg => ⟨causalPair_seq hf.1 hg.1 hf.2, runPublic_seq hf.2 hg.2⟩) tr tr' path h

/-- `backtest_causal_pair` for `btRun`: initial capital, the update of the first row `d0 ≤ t`, then the loop -/
theorem btRun_causal_pair {t : Nat} {run run' : RunFn K} (hc : CausalPair t run run') (hc' : Causal t run')
    (hp : P04.RunPublic cfg run) (hp' : P04.RunPublic cfg run')
    {w w' : World K} (hw : w.trunc t = w'.trunc t) (hz : HedgeZero w.root) (c : K) (d0 : Nat) (hd0 : d0 ≤ t)
    (pre post : List Nat) (hpre : ∀ d ∈ pre, d ≤ t) (hpost : ∀ d ∈ post, t < d) {r r' : World K}
    (h : btRun cfg run c (d0 :: (pre ++ post)) w = .ok r)
    (h' : btRun cfg run' c (d0 :: (pre ++ post)) w' = .ok r') :
    (∀ j, j ≤ t → rowsAt j r.root = rowsAt j r'.root) ∧ rowLens r.root = rowLens r'.root := by
  simp only [btRun] at h h'
  obtain ⟨w1, h1, h⟩ := bind_eq_ok h
  obtain ⟨w2, h2, h⟩ := bind_eq_ok h
  obtain ⟨w1', h1', h'⟩ := bind_eq_ok h'
  obtain ⟨w2', h2', h'⟩ := bind_eq_ok h'
  have e1 : w1.trunc t = w1'.trunc t := by
    refine ok_of_map_eq h1 h1' ?_
    rw [← opAdjust_root_trunc, ← opAdjust_root_trunc, hw]
  have e2 : w2.trunc t = w2'.trunc t := by
    refine ok_of_map_eq h2 h2' ?_
    rw [← updRoot_trunc cfg hd0, ← updRoot_trunc cfg hd0, e1]
  have hz1 : HedgeZero w1.root := RunC.hedgeZero (cfg := cfg) (wok_true w) (.single (.adjust _ _ _ _ h1)) hz
  have hz2 : HedgeZero w2.root := updRoot_hedgeZero h2 hz1
  exact backtest_causal_pair hc hc' hp hp' e2 hz2 pre post hpre hpost h h'

end pairtree
end Bt.PProgR
