import Bt.Proofs.RebalanceExact
import Bt.Proofs.RebalanceEx
import Bt.Proofs.Examples
/-! Concrete `Rat` fixtures for the satisfiability examples and witnesses of `Bt.Props.C06_costs`. -/
namespace Bt.P06Ex
open Bt Bt.Rebal Bt.RebalEx Bt.Alloc Bt.P06

/-- a plain security on date 1 with bid/offer data (spread `bo`), up to date; whole or fractional units -/
def mkC (name : String) (integer : Bool) (mult price bo position weight : Rat) (needupdate : Bool) :
    SecData Rat :=
  { mkS name mult (some price) position weight needupdate with
    integer := integer, bidofferSet := true, bidoffer := some bo, bidoffers := [none, some bo, some bo] }

/-- a market-value strategy on date 1 with a commission function and bid/offer bookkeeping -/
def mkDC (comm : Rat → Rat → Rat) (capital value weight : Rat) : StratData Rat :=
  { mkD capital value weight with comm := comm, bidofferSet := true }

theorem mkC_rsec (name : String) (integer : Bool) (mult price bo pos w : Rat) (nu : Bool)
    (hflat : nu = false → pos = 0) : RSec 1 (mkC name integer mult price bo pos w nu) :=
  ⟨rfl, rfl, rfl, rfl, rfl, hflat⟩

/-- 1000 of value: 300 in `a` (30 × 10), 200 in `b` (10 × 20, spread 0.4 — not a target below), nothing in
    `c`, 500 cash; a flat fee of 2 per trade -/
def secsC : List (SecData Rat) :=
  [mkC "a" false 1 10 0 30 (3/10) true, mkC "b" false 1 20 (2/5) 10 (1/5) true, mkC "c" false 2 5 0 0 0 false]

def stratC : StratData Rat := mkDC (fun _ _ => 2) 500 1000 1

theorem secsC_rsec : ∀ s ∈ secsC, RSec 1 s := by
  intro s hs
  simp only [secsC, List.mem_cons, List.not_mem_nil, or_false] at hs
  rcases hs with rfl | rfl | rfl <;> exact mkC_rsec _ _ _ _ _ _ _ _ (by decide)

theorem secsC_frac : ∀ s ∈ secsC, s.integer = false := by
  intro s hs
  simp only [secsC, List.mem_cons, List.not_mem_nil, or_false] at hs
  rcases hs with rfl | rfl | rfl <;> rfl

theorem secsC_wts : ∀ s ∈ secsC, s.weight * stratC.value = s.value := by
  intro s hs
  simp only [secsC, List.mem_cons, List.not_mem_nil, or_false] at hs
  rcases hs with rfl | rfl | rfl <;> decide +kernel

/-- the same with spreads on every security and a commission of 0.1 % of the traded value: the sizing search
    iterates -/
def secsP : List (SecData Rat) :=
  [mkC "a" false 1 10 (1/5) 30 (3/10) true, mkC "b" false 1 20 (2/5) 10 (1/5) true,
   mkC "c" false 2 5 (1/10) 0 0 false]

def stratP : StratData Rat := mkDC (commProp (1/1000)) 500 1000 1

theorem secsP_rsec : ∀ s ∈ secsP, RSec 1 s := by
  intro s hs
  simp only [secsP, List.mem_cons, List.not_mem_nil, or_false] at hs
  rcases hs with rfl | rfl | rfl <;> exact mkC_rsec _ _ _ _ _ _ _ _ (by decide)

/-- whole units: 90 in `i` (3 × 30), 200 in `b`, 710 cash; flat fee 2 -/
def secsIC : List (SecData Rat) :=
  [mkC "i" true 1 30 0 3 (9/100) true, mkC "b" false 1 20 (2/5) 10 (1/5) true]

def stratIC : StratData Rat := mkDC (fun _ _ => 2) 710 1000 1

theorem secsIC_rsec : ∀ s ∈ secsIC, RSec 1 s := by
  intro s hs
  simp only [secsIC, List.mem_cons, List.not_mem_nil, or_false] at hs
  rcases hs with rfl | rfl <;> exact mkC_rsec _ _ _ _ _ _ _ _ (by decide)

/-- [position | cash, value, weight, spread paid | fees of the date] of a node -/
def kv : Node Rat → List Rat
  | .sec s => [s.position, s.value, s.weight, s.bidofferPaid]
  | .strat d _ => [d.capital, d.value, d.weight, d.lastFee]

/-- comparable view of a flat world: [cash, value, weight, fees] of the root, then one row per child -/
def viewC (w : World Rat) : List (List Rat) :=
  match w.root with
  | .strat d ks => kv (.strat d ks) :: ks.map kv
  | .sec s => [kv (.sec s)]

def atC (w : World Rat) (p : List Nat) : Option (List Rat) := (w.root.get? p).map kv

/-- `stratC`/`secsC` as the only child (weight 1) of a root holding no cash -/
def rootC : Node Rat := .strat { mkD 0 1000 1 with name := "root" } [.strat stratC (secsC.map Node.sec)]

def nestedC : World Rat := { root := rootC, stale := false }

/-- the cost-free flat strategy `strat`/`secs` of `RebalEx` under the same root -/
def rootN : Node Rat := .strat { mkD 0 1000 1 with name := "root" } [.strat strat (secs.map Node.sec)]

/-- a sub-strategy worth 400 (100 cash, 200 in `x`, 100 in `y`) next to the security `a` (300) under a root
    holding 300 of cash -/
def subSecs : List (SecData Rat) := [mkS "x" 1 (some 10) 20 (1/2) true, mkS "y" 1 (some 5) 20 (1/4) true]

def subD : StratData Rat := { mkD 100 400 (2/5) with name := "sub" }

def subKids : List (Node Rat) := [.sec (mkS "a" 1 (some 10) 30 (3/10) true), .strat subD (subSecs.map Node.sec)]

def subTop : StratData Rat := mkD 300 1000 1

theorem subSecs_nice : ∀ c ∈ subSecs, NiceSec cfgQ 1 c := by
  intro x hx
  simp only [subSecs, List.mem_cons, List.not_mem_nil, or_false] at hx
  rcases hx with rfl | rfl <;>
    exact mkS_nice _ _ _ _ _ _ (by decide +kernel) (by decide +kernel) (by decide)

/-- a stale world: `a` was bought (10 units for 100) since the last update; the cached values are those of
    before the trade -/
def staleW : World Rat :=
  { root := .strat (mkD 400 1000 1)
      [.sec { mkS "a" 1 (some 10) 40 (3/10) true with value := 300, notl := 300, lastPos := 30 },
       .sec (mkS "b" 1 (some 20) 10 (1/5) true)], stale := true }

/-- child 0 of the root (price 10, multiplier 1, 30 units and no spread paid before, commission 0.1 % of the
    traded value, target value 400, amount 100) ended within `isclose`'s tolerance of `target − cost booked` -/
def reachedA (w : World Rat) : Bool :=
  match w.root.get? [0] with
  | some (.sec a) =>
    decide (|a.value - 400 + (a.bidofferPaid + 1/1000 * (|a.position - 30| * 10))| ≤ 1/10^8 + 1/10^16 * 100) &&
      decide (a.position ≠ 30)
  | _ => false

/-- the fee swallows the amount: a flat fee of 2, a flat security priced 10, target value 2 -/
def feeSec : SecData Rat := mkC "f" false 1 10 0 0 0 false

/-- a world is a flat strategy with two security children, not stale, market value, on date 1, worth 1000, whose
    children satisfy `RSec 1` (checked field by field) and carry their value shares as weights -/
def refreshedOK (w1 : World Rat) : Bool :=
  match w1 with
  | ⟨.strat sd [.sec a, .sec b], false⟩ =>
    sd.now == some 1 && !sd.fixedIncome && sd.value == 1000 &&
    [a, b].all fun s =>
      decide (s.weight * sd.value = s.value) && decide (s.lastPos = s.position) &&
      decide (s.value = s.position * px s * s.mult) && s.now == some 1 && s.kind == .plain &&
      s.price == some (px s) && s.needupdate && !s.integer
  | _ => false

end Bt.P06Ex
