import Bt.Proofs.ProgramX
import Bt.Proofs.ProgramXEx
import Bt.Props.C15
/-! Helper lemmas for `Bt.Props.C15_progw` / `C06_progw`: the weight post-processing algos of the extended whole-program
    model (`Bt/Algos/ProgramX.lean`: `WStep`, `postStep`, `postSteps`, `ProgX.post`, `ProgX.cash`). -/
set_option linter.unusedSectionVars false
namespace Bt.PProgW
open Bt Bt.P08 Bt.P04 Bt.Prog Bt.PProg Bt.PProgX Bt.Select Bt.Weigh

section steps
variable {K : Type} [Field K] [LinearOrder K] [IsStrictOrderedRing K] [HasFloor K] [HasNatFloor K]
variable {cfg : Cfg K}

theorem postSteps_nil (path : List Nat) (s : World K × List (Nat × K)) : postSteps cfg path [] s = .ok s := by
  rw [postSteps]; rfl

theorem postSteps_cons (path : List Nat) (st : WStep K) (rest : List (WStep K)) (s : World K × List (Nat × K)) :
    postSteps cfg path (st :: rest) s = (postStep cfg path st s).bind (postSteps cfg path rest) := by
  rw [postSteps]

theorem bind_assoc' {ε α β γ : Type} (x : Except ε α) (f : α → Except ε β) (g : β → Except ε γ) :
    (x.bind f).bind g = x.bind fun a => (f a).bind g := by
  cases x <;> rfl

theorem bind_ok' {ε α β : Type} (a : α) (f : α → Except ε β) : (Except.ok a : Except ε α).bind f = f a := rfl

theorem postSteps_append (path : List Nat) : ∀ (a b : List (WStep K)) (s : World K × List (Nat × K)),
    postSteps cfg path (a ++ b) s = (postSteps cfg path a s).bind (postSteps cfg path b)
  | [], b, s => by rw [List.nil_append, postSteps_nil, bind_ok']
  | st :: rest, b, s => by
    rw [List.cons_append, postSteps_cons, postSteps_cons, bind_assoc']
    congr 1
    funext s1
    exact postSteps_append path rest b s1

theorem postSteps_single (path : List Nat) (st : WStep K) (s : World K × List (Nat × K)) :
    postSteps cfg path [st] s = postStep cfg path st s := by
  rw [postSteps_cons]
  cases postStep cfg path st s with
  | error e => rfl
  | ok a => rw [bind_ok', postSteps_nil]

/-- the steps `pre ++ [last]` succeed exactly when `pre` does and `last` does on its result -/
theorem postSteps_snoc_ok {path : List Nat} {pre : List (WStep K)} {last : WStep K} {s r : World K × List (Nat × K)}
    (h : postSteps cfg path (pre ++ [last]) s = .ok r) :
    ∃ m, postSteps cfg path pre s = .ok m ∧ postStep cfg path last m = .ok r := by
  rw [postSteps_append] at h
  obtain ⟨m, hm, h⟩ := bind_eq_ok h
  rw [postSteps_single] at h
  exact ⟨m, hm, h⟩

theorem postStep_scale (path : List Nat) (s : K) (w : World K) (ws : List (Nat × K)) :
    postStep cfg path (.scale s) (w, ws) = .ok (w, scaleWeights s ws) := rfl

theorem postStep_limitW_ok {path : List Nat} {l : K} {w w' : World K} {ws ws' : List (Nat × K)}
    (h : postStep cfg path (.limitW l) (w, ws) = .ok (w', ws')) : w' = w ∧ limitWeights l ws = .done ws' := by
  simp only [postStep] at h
  split at h
  · rename_i r hr
    cases h
    exact ⟨rfl, hr⟩
  · cases h
  · cases h

/-- `LimitDeltas` on a strategy that has children: the tree is refreshed, the current weights are those of the children
    of the refreshed tree -/
theorem postStep_limitD_ok {path : List Nat} {order : List Nat} {glob : Option K} {per : List (Nat × K)}
    {w w' : World K} {ws ws' : List (Nat × K)} {sd0 : StratData K} {kids0 : List (Node K)}
    (hn : w.root.get? path = some (.strat sd0 kids0)) (hne : kids0 ≠ [])
    (h : postStep cfg path (.limitD order glob per) (w, ws) = .ok (w', ws')) :
    refresh cfg w = .ok w' ∧ ∃ sd kids, w'.root.get? path = some (.strat sd kids) ∧
      ws' = limitDeltasOrd order (ldLim glob per) (curWeights kids) ws := by
  simp only [postStep, hn] at h
  have he : kids0.isEmpty = false := by cases kids0 with
    | nil => exact absurd rfl hne
    | cons _ _ => rfl
  rw [he] at h
  simp only [Bool.false_eq_true, ↓reduceIte] at h
  obtain ⟨w1, h1, h⟩ := bind_eq_ok h
  split at h
  · rename_i sd kids hk
    cases h
    exact ⟨h1, sd, kids, hk, rfl⟩
  · cases h

theorem postStep_overTime_ok {path : List Nat} {n : K} {w w' : World K} {ws ws' : List (Nat × K)}
    (h : postStep cfg path (.overTime n) (w, ws) = .ok (w', ws')) :
    refresh cfg w = .ok w' ∧ ∃ sd kids, w'.root.get? path = some (.strat sd kids) ∧
      ws' = rotTargets n (curWeights kids) ws := by
  simp only [postStep] at h
  obtain ⟨w1, h1, h⟩ := bind_eq_ok h
  split at h
  · rename_i sd kids hk
    cases h
    exact ⟨h1, sd, kids, hk, rfl⟩
  · cases h

/-- `CloseDead` is the one post-processing algo that trades (`target.close`) -/
def WStep.isClose : WStep K → Bool
  | .closeDead => true
  | _ => false

/-- whatever the steps (no `CloseDead` among them): the world handed to `Rebalance` is the world the stack started on, or
    its refresh (the refreshing getter `LimitDeltas` reads the children's weights through) -/
theorem postStep_world {path : List Nat} {st : WStep K} {w w' : World K} {ws ws' : List (Nat × K)}
    (hc : WStep.isClose st = false)
    (h : postStep cfg path st (w, ws) = .ok (w', ws')) : w' = w ∨ refresh cfg w = .ok w' := by
  cases st with
  | closeDead => simp [WStep.isClose] at hc
  | scale s => cases h; exact Or.inl rfl
  | limitW l => exact Or.inl (postStep_limitW_ok h).1
  | limitD order glob per =>
    simp only [postStep] at h
    split at h
    · split at h
      · cases h; exact Or.inl rfl
      · obtain ⟨w1, h1, h⟩ := bind_eq_ok h
        split at h
        · cases h; exact Or.inr h1
        · cases h
    · cases h
  | overTime n =>
    simp only [postStep] at h
    obtain ⟨w1, h1, h⟩ := bind_eq_ok h
    split at h
    · cases h; exact Or.inr h1
    · cases h

theorem postSteps_world {path : List Nat} : ∀ (sts : List (WStep K)) {w w' : World K} {ws ws' : List (Nat × K)},
    (∀ st ∈ sts, WStep.isClose st = false) →
    postSteps cfg path sts (w, ws) = .ok (w', ws') → w' = w ∨ refresh cfg w = .ok w'
  | [], w, w', ws, ws', _, h => by rw [postSteps_nil] at h; cases h; exact Or.inl rfl
  | st :: rest, w, w', ws, ws', hc, h => by
    rw [postSteps_cons] at h
    obtain ⟨⟨w1, ws1⟩, h1, h2⟩ := bind_eq_ok h
    have hc' : ∀ st ∈ rest, WStep.isClose st = false := fun st hst => hc st (List.mem_cons_of_mem _ hst)
    rcases postStep_world (hc _ List.mem_cons_self) h1 with e | hr
    · rw [e] at h2; exact postSteps_world rest hc' h2
    · rcases postSteps_world rest hc' h2 with e | hr2
      · rw [e]; exact Or.inr hr
      · rw [refresh_idem_aux hr] at hr2
        cases hr2
        exact Or.inr hr

/-- steps that do not read the children's weights (`LimitDeltas`, `RebalanceOverTime` do) and do not trade (`CloseDead` does)
    do not touch the world -/
def WStep.isLimitD : WStep K → Bool
  | .limitD _ _ _ => true
  | .overTime _ => true
  | .closeDead => true
  | _ => false

theorem postSteps_world_pure {path : List Nat} : ∀ (sts : List (WStep K)) {w w' : World K} {ws ws' : List (Nat × K)},
    (∀ st ∈ sts, WStep.isLimitD st = false) → postSteps cfg path sts (w, ws) = .ok (w', ws') → w' = w
  | [], w, w', ws, ws', _, h => by rw [postSteps_nil] at h; cases h; rfl
  | st :: rest, w, w', ws, ws', hp, h => by
    rw [postSteps_cons] at h
    obtain ⟨⟨w1, ws1⟩, h1, h2⟩ := bind_eq_ok h
    have e1 : w1 = w := by
      cases st with
      | scale s => cases h1; rfl
      | limitW l => exact (postStep_limitW_ok h1).1
      | limitD o g p => exact absurd (hp _ (List.mem_cons_self)) (by simp [WStep.isLimitD])
      | overTime n => exact absurd (hp _ (List.mem_cons_self)) (by simp [WStep.isLimitD])
      | closeDead => exact absurd (hp _ (List.mem_cons_self)) (by simp [WStep.isLimitD])
    rw [e1] at h2
    exact postSteps_world_pure rest (fun st hst => hp st (List.mem_cons_of_mem _ hst)) h2

end steps

section unfold
variable {K : Type} [Field K] [LinearOrder K] [IsStrictOrderedRing K] [HasFloor K] [HasNatFloor K]
variable {cfg : Cfg K}

/-- the weights the weigher of the stack puts into `temp['weights']` (`none`: `WeighEqually` without a selection raises) -/
def weigherOut (wg : Wgh K) (sel : Option (List Nat)) : Option (List (Nat × K)) :=
  match wg, sel with
  | .equally, none => none
  | wg, sel => some (Prog.weights wg (sel.getD []))

theorem weigherOut_equally_some (sel : List Nat) :
    weigherOut (.equally : Wgh K) (some sel) = some (Prog.weights .equally sel) := rfl

theorem weigherOut_specified (tbl : List (Nat × K)) (sel : Option (List Nat)) :
    weigherOut (.specified tbl) sel = some tbl := by
  cases sel <;> rfl

/-- a stack whose weigher is `WeighEqually` / `WeighSpecified` (no `WeighTarget` frame): `weigherX` is `weigherOut` -/
theorem weigherX_of_weigherOut {p : ProgX K} {d : Nat} {sel : Option (List Nat)} {ws0 : List (Nat × K)}
    (ht : p.target = none) (hw : weigherOut p.wgh sel = some ws0) : weigherX p d sel = .ok (some ws0) := by
  unfold weigherX
  rw [ht]
  simp only
  cases hwg : p.wgh with
  | equally =>
    cases sel with
    | none => rw [hwg] at hw; cases hw
    | some l => rw [hwg] at hw; cases hw; rfl
  | specified tbl =>
    rw [hwg, weigherOut_specified] at hw
    cases hw
    cases sel <;> rfl

/-- `WeighTarget(frame)`: the weights are the frame's row for the date, whatever is selected -/
theorem weigherX_target {p : ProgX K} {rows : List (Option (List (Nat × K)))} (ht : p.target = some rows) (d : Nat)
    (sel : Option (List Nat)) : weigherX p d sel = .ok (rows.getD d none) := by
  unfold weigherX
  rw [ht]
  rfl

/-- **unfolding of the extended stack** on a day on which the gate is open, every selector answers and the weigher
    produces `ws0` (`weigherX`: `WeighEqually` / `WeighSpecified` on the selection, or the row of the `WeighTarget` frame) -/
theorem progRunX_unfoldX {p : ProgX K} {path : List Nat} {d : Nat} {w : World K} {sd : StratData K}
    {kids : List (Node K)} {sel : Option (List Nat)} {ws0 : List (Nat × K)}
    (hg : p.gate.getD d false = true) (hn : w.root.get? path = some (.strat sd kids))
    (hs : selSteps (tableOf p.ucols kids d) d p.sels none = .ok (some sel))
    (hw : weigherX p d sel = .ok (some ws0)) :
    progRunX cfg p path d w =
      (postSteps cfg path p.post (w, ws0)).bind fun s => algoRebalance cfg s.1 path s.2 p.cash none := by
  unfold progRunX
  simp only [hg, ↓reduceIte, hn, hs, hw]
  rfl

/-- the same for a stack without a `WeighTarget` frame, the weigher's output given by `weigherOut` -/
theorem progRunX_unfold {p : ProgX K} {path : List Nat} {d : Nat} {w : World K} {sd : StratData K}
    {kids : List (Node K)} {sel : Option (List Nat)} {ws0 : List (Nat × K)}
    (hg : p.gate.getD d false = true) (hn : w.root.get? path = some (.strat sd kids))
    (hs : selSteps (tableOf p.ucols kids d) d p.sels none = .ok (some sel))
    (ht : p.target = none) (hw : weigherOut p.wgh sel = some ws0) :
    progRunX cfg p path d w =
      (postSteps cfg path p.post (w, ws0)).bind fun s => algoRebalance cfg s.1 path s.2 p.cash none :=
  progRunX_unfoldX hg hn hs (weigherX_of_weigherOut ht hw)

/-- a `WeighTarget` frame without a row for the date stops the stack: nothing happens that day -/
theorem progRunX_no_target_row {p : ProgX K} {path : List Nat} {d : Nat} {w : World K} {sd : StratData K}
    {kids : List (Node K)} {sel : Option (List Nat)} {rows : List (Option (List (Nat × K)))}
    (hn : w.root.get? path = some (.strat sd kids))
    (hs : selSteps (tableOf p.ucols kids d) d p.sels none = .ok (some sel))
    (ht : p.target = some rows) (hr : rows.getD d none = none) :
    progRunX cfg p path d w = .ok w := by
  unfold progRunX
  split
  · simp only [hn, hs, weigherX_target ht, hr]; rfl
  · rfl

/-- a selector that returns False stops the stack: nothing happens that day -/
theorem progRunX_sel_false {p : ProgX K} {path : List Nat} {d : Nat} {w : World K} {sd : StratData K}
    {kids : List (Node K)} (hn : w.root.get? path = some (.strat sd kids))
    (hs : selSteps (tableOf p.ucols kids d) d p.sels none = .ok none) :
    progRunX cfg p path d w = .ok w := by
  unfold progRunX
  split
  · simp only [hn, hs]; rfl
  · rfl

end unfold

section ldelta
variable {K : Type} [Field K] [LinearOrder K] [IsStrictOrderedRing K]

/-- the key-ordered `LimitDeltas` of the whole-program model has the entries of C15's `limitDeltas`, whenever the iteration
    order covers the keys of the weights and of the children, the limits being non-negative -/
theorem limitDeltasOrd_get (order : List Nat) (lim : Nat → Option K) (cur tw : Dict Nat K)
    (hcov : ∀ k, k ∈ ldKeys cur tw → k ∈ order) (hl : ∀ k l, lim k = some l → 0 ≤ l) (k : Nat) :
    dictGet (limitDeltasOrd order lim cur tw) k = dictGet (limitDeltas lim cur tw) k := by
  unfold limitDeltasOrd limitDeltas
  by_cases hk : k ∈ ldKeys cur tw
  · rw [foldl_mem_get lim cur order tw k (hcov k hk) (hl k), foldl_mem_get lim cur _ tw k hk (hl k)]
  · have hk' := hk
    rw [mem_ldKeys, not_or] at hk'
    have hs := settled_of_absent lim cur tw k (hl k) hk'.1 hk'.2
    rw [(foldl_settled lim cur order tw k hs).1, (foldl_settled lim cur _ tw k hs).1]

theorem limitDeltasOrd_getD (order : List Nat) (lim : Nat → Option K) (cur tw : Dict Nat K)
    (hcov : ∀ k, k ∈ ldKeys cur tw → k ∈ order) (hl : ∀ k l, lim k = some l → 0 ≤ l) (k : Nat) :
    dictGetD (limitDeltasOrd order lim cur tw) k 0 = dictGetD (limitDeltas lim cur tw) k 0 := by
  unfold dictGetD
  rw [limitDeltasOrd_get order lim cur tw hcov hl k]

end ldelta

section cash
variable {K : Type} [Field K] [LinearOrder K] [IsStrictOrderedRing K] [HasFloor K]
variable {cfg : Cfg K}

/-- setting a cash fraction aside is scaling the targets: the trades are the same, one by one -/
theorem rebalanceTargets_cash (path : List Nat) (base c : K) : ∀ (ts : List (Nat × K)) (w : World K),
    rebalanceTargets cfg path base (1 - c) ts w = rebalanceTargets cfg path base 1 (scaleWeights (1 - c) ts) w
  | [], w => by rw [scaleWeights, List.map_nil, rebalanceTargets, rebalanceTargets]
  | (i, wt) :: rest, w => by
    rw [scaleWeights, List.map_cons, rebalanceTargets, rebalanceTargets]
    have e : wt * (1 - c) = (1 - c) * wt * 1 := by ring
    rw [e]
    congr 1
    funext w1
    exact rebalanceTargets_cash path base c rest w1

theorem scaleWeights_fst (s : K) (ts : List (Nat × K)) : (scaleWeights s ts).map (·.1) = ts.map (·.1) := by
  unfold scaleWeights
  rw [List.map_map]
  rfl

end cash

end Bt.PProgW

/-! ### concrete programs for the `example`s of `Bt.Props.C15_progw` / `C06_progw` -/
namespace Bt.PProgW
open Bt Bt.Prog Bt.PProg Bt.PProgX Bt.Select Bt.Weigh

/-- `temp['weights']` of the first example: 70% / 20% / 10% in `x`, `y`, `z` -/
def wsW : List (Nat × Rat) := [(0, 7/10), (1, 1/5), (2, 1/10)]

/-- `[RunPeriod, SelectAll, WeighSpecified(70/20/10), LimitWeights(0.5), ScaleWeights(0.5), Rebalance]` over `x`, `y`, `z` -/
def progWL : ProgX Rat :=
  { gate := [false, true, true, true], ucols := [0, 1, 2], sels := [.all false false], wgh := .specified wsW,
    post := [.limitW (1/2), .scale (1/2)] }

/-- `[RunPeriod, SelectAll, WeighSpecified(70/20/10), LimitDeltas(0.1), SetCash(0.25), Rebalance]`; the key set iterates `z, x, y` -/
def progWD : ProgX Rat :=
  { gate := [false, true, true, true], ucols := [0, 1, 2], sels := [.all false false], wgh := .specified wsW,
    post := [.limitD [2, 0, 1] (some (1/10)) []], cash := some (1/4) }

/-- the same with the cash fraction expressed as a last `ScaleWeights(0.75)` -/
def progWD' : ProgX Rat := { progWD with post := progWD.post ++ [.scale (1 - 1/4)], cash := none }

def gtreeWL : GTree Rat := embedX cfgE (.node progWL [none, none, none])
def gtreeWD : GTree Rat := embedX cfgE (.node progWD [none, none, none])
def gtreeWD' : GTree Rat := embedX cfgE (.node progWD' [none, none, none])

/-- the children's weights of the root -/
def rootWeights (w : World Rat) : List (Nat × Rat) :=
  match w.root with
  | .strat _ kids => curWeights kids
  | _ => []

end Bt.PProgW
