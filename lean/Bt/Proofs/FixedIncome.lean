import Bt.Engine.Ops
import Bt.Proofs.Alloc
/-! Helper lemmas for C17 (fixed-income accounting): notional by security kind, coupon accrual and
    sweep, strategy notional and weights, additive index, fixed-income rebalance. -/
set_option linter.unusedSectionVars false
set_option linter.unusedVariables false
namespace Bt.FI
open Bt Bt.Alloc

/-! ### security level: frames of the small steps -/
section sec
variable {K : Type} [Field K] [LinearOrder K] [IsStrictOrderedRing K] [HasFloor K]

/-- fields none of the steps of `SecurityBase.update` touches -/
def SecFrame (s s' : SecData K) : Prop :=
  s'.kind = s.kind ∧ s'.coupons = s.coupons ∧ s'.costLong = s.costLong ∧ s'.costShort = s.costShort ∧
  s'.rCoupon = s.rCoupon ∧ s'.rHolding = s.rHolding ∧ s'.capital = s.capital ∧ s'.coupon = s.coupon ∧
  s'.holdingCost = s.holdingCost ∧ s'.position = s.position ∧ s'.fixedIncome = s.fixedIncome ∧
  s'.name = s.name ∧ s'.weight = s.weight

theorem SecFrame.refl (s : SecData K) : SecFrame s s :=
  ⟨rfl, rfl, rfl, rfl, rfl, rfl, rfl, rfl, rfl, rfl, rfl, rfl, rfl⟩

theorem SecFrame.trans {a b c : SecData K} (h1 : SecFrame a b) (h2 : SecFrame b c) : SecFrame a c := by
  obtain ⟨a1, a2, a3, a4, a5, a6, a7, a8, a9, a10, a11, a12, a13⟩ := h1
  obtain ⟨b1, b2, b3, b4, b5, b6, b7, b8, b9, b10, b11, b12, b13⟩ := h2
  exact ⟨b1.trans a1, b2.trans a2, b3.trans a3, b4.trans a4, b5.trans a5, b6.trans a6, b7.trans a7,
    b8.trans a8, b9.trans a9, b10.trans a10, b11.trans a11, b12.trans a12, b13.trans a13⟩

theorem secDateChange_frame (d : Nat) (s : SecData K) : SecFrame s (secDateChange d s) := by
  unfold secDateChange; split <;> exact SecFrame.refl _

theorem secRecordPos_frame (d : Nat) (s : SecData K) : SecFrame s (secRecordPos d s) := SecFrame.refl _

theorem secSetValue_frame (d : Nat) (v : K) (s : SecData K) : SecFrame s (secSetValue d v s) :=
  SecFrame.refl _

theorem secQuiet_frame (cfg : Cfg K) (s : SecData K) : SecFrame s (secQuiet cfg s) := by
  unfold secQuiet; split <;> exact SecFrame.refl _

theorem secFlushOutlay_frame (d : Nat) (s : SecData K) : SecFrame s (secFlushOutlay d s) := by
  unfold secFlushOutlay; split <;> exact SecFrame.refl _

theorem secRowBidoffer_frame (d : Nat) (s : SecData K) : SecFrame s (secRowBidoffer d s) := by
  unfold secRowBidoffer; split <;> exact SecFrame.refl _

theorem secFiTail_frame (d : Nat) (s : SecData K) : SecFrame s (secFiTail d s) := SecFrame.refl _

theorem secHedgeTail_frame (s : SecData K) : SecFrame s (secHedgeTail s) := SecFrame.refl _

/-- the non-early body of `SecurityBase.update` once the marked value is known -/
def secBaseBody (cfg : Cfg K) (d : Nat) (v : K) (s : SecData K) : SecData K :=
  secRowBidoffer d (secFlushOutlay d (secQuiet cfg (secSetValue d v (secRecordPos d (secDateChange d s)))))

theorem secBaseUpdate_inv (cfg : Cfg K) (d : Nat) (s s1 : SecData K)
    (h : secBaseUpdate cfg d s = .ok s1) :
    (secEarly d s = true ∧ s1 = s) ∨
    (secEarly d s = false ∧ ∃ v, secMarkValue cfg (secRecordPos d (secDateChange d s)) = .ok v ∧
      s1 = secBaseBody cfg d v s) := by
  unfold secBaseUpdate at h
  split at h
  · rename_i he; cases h; exact Or.inl ⟨he, rfl⟩
  · rename_i he
    dsimp only at h
    cases hv : secMarkValue cfg (secRecordPos d (secDateChange d s)) with
    | error e => rw [hv] at h; cases h
    | ok v =>
      rw [hv] at h; cases h
      exact Or.inr ⟨by simpa using he, v, rfl, rfl⟩

theorem secBaseBody_frame (cfg : Cfg K) (d : Nat) (v : K) (s : SecData K) :
    SecFrame s (secBaseBody cfg d v s) :=
  (((((secDateChange_frame d s).trans (secRecordPos_frame d _)).trans (secSetValue_frame d v _)).trans
    (secQuiet_frame cfg _)).trans (secFlushOutlay_frame d _)).trans (secRowBidoffer_frame d _)

theorem secBaseUpdate_frame (cfg : Cfg K) (d : Nat) (s s1 : SecData K)
    (h : secBaseUpdate cfg d s = .ok s1) : SecFrame s s1 := by
  rcases secBaseUpdate_inv cfg d s s1 h with ⟨_, rfl⟩ | ⟨_, v, _, rfl⟩
  · exact SecFrame.refl _
  · exact secBaseBody_frame cfg d v s

/-! value / notional through the tail of the base update -/

@[simp] theorem secQuiet_notl (cfg : Cfg K) (s : SecData K) : (secQuiet cfg s).notl = s.notl := by
  unfold secQuiet; split <;> rfl
@[simp] theorem secQuiet_value (cfg : Cfg K) (s : SecData K) : (secQuiet cfg s).value = s.value := by
  unfold secQuiet; split <;> rfl
@[simp] theorem secQuiet_rNotl (cfg : Cfg K) (s : SecData K) : (secQuiet cfg s).rNotl = s.rNotl := by
  unfold secQuiet; split <;> rfl
@[simp] theorem secFlushOutlay_notl (d : Nat) (s : SecData K) : (secFlushOutlay d s).notl = s.notl := by
  unfold secFlushOutlay; split <;> rfl
@[simp] theorem secFlushOutlay_value (d : Nat) (s : SecData K) : (secFlushOutlay d s).value = s.value := by
  unfold secFlushOutlay; split <;> rfl
@[simp] theorem secFlushOutlay_rNotl (d : Nat) (s : SecData K) : (secFlushOutlay d s).rNotl = s.rNotl := by
  unfold secFlushOutlay; split <;> rfl
@[simp] theorem secRowBidoffer_notl (d : Nat) (s : SecData K) : (secRowBidoffer d s).notl = s.notl := by
  unfold secRowBidoffer; split <;> rfl
@[simp] theorem secRowBidoffer_value (d : Nat) (s : SecData K) : (secRowBidoffer d s).value = s.value := by
  unfold secRowBidoffer; split <;> rfl
@[simp] theorem secRowBidoffer_rNotl (d : Nat) (s : SecData K) : (secRowBidoffer d s).rNotl = s.rNotl := by
  unfold secRowBidoffer; split <;> rfl

theorem secBaseBody_notl (cfg : Cfg K) (d : Nat) (v : K) (s : SecData K) :
    (secBaseBody cfg d v s).notl = v ∧ (secBaseBody cfg d v s).value = v := by
  unfold secBaseBody; simp [secSetValue]

/-! ### the coupon tail -/

/-- what `CouponPayingSecurity.update` computes as holding cost, as a relation -/
def HoldingSpec (d : Nat) (s : SecData K) (hc : K) : Prop :=
  (0 < s.position → ∀ col, s.costLong = some col → ∃ c, cell col d = some c ∧ hc = s.position * c) ∧
  (s.position < 0 → ∀ col, s.costShort = some col → ∃ c, cell col d = some c ∧ hc = -s.position * c) ∧
  ((0 < s.position → s.costLong = none) → (s.position < 0 → s.costShort = none) → hc = 0)

/-- what it computes as coupon, as a relation -/
def CouponSpec (cfg : Cfg K) (d : Nat) (s : SecData K) (cpn : K) : Prop :=
  (∀ c, cell s.coupons d = some c → cpn = s.position * c) ∧
  (cell s.coupons d = none → cpn = 0 ∧ isZero cfg.tol s.position = true)

/-- the coupon of the date (l.1836-1846) -/
def couponAmt (cfg : Cfg K) (d : Nat) (s : SecData K) : Except Err K :=
  match cell s.coupons d with
  | none => if isZero cfg.tol s.position then pure 0 else throw Err.nanCouponOpenPosition
  | some c => pure (s.position * c)

/-- the holding cost of the date (l.1848-1855) -/
def holdingAmt (d : Nat) (s : SecData K) : Except Err K :=
  if 0 < s.position && s.costLong.isSome then
    match cell (s.costLong.getD []) d with
    | none => throw Err.nanData
    | some c => pure (s.position * c)
  else if s.position < 0 && s.costShort.isSome then
    match cell (s.costShort.getD []) d with
    | none => throw Err.nanData
    | some c => pure (-s.position * c)
  else pure 0

theorem secCouponTail_eq (cfg : Cfg K) (d : Nat) (s : SecData K) :
    secCouponTail cfg d s =
      (couponAmt cfg d s).bind fun cpn => (holdingAmt d s).bind fun hc =>
        pure { s with coupon := cpn, holdingCost := hc, capital := cpn - hc,
                      rCoupon := s.rCoupon.set d cpn, rHolding := s.rHolding.set d hc } := rfl

theorem couponAmt_inv (cfg : Cfg K) (d : Nat) (s : SecData K) (cpn : K)
    (h : couponAmt cfg d s = .ok cpn) : CouponSpec cfg d s cpn := by
  unfold couponAmt at h
  cases hc : cell s.coupons d with
  | none =>
    rw [hc] at h; dsimp only at h
    by_cases hz : isZero cfg.tol s.position = true
    · simp only [hz, if_true] at h; cases h
      exact ⟨fun c hc' => (by rw [hc] at hc'; cases hc'), fun _ => ⟨rfl, hz⟩⟩
    · simp only [hz] at h; cases h
  | some c =>
    rw [hc] at h; dsimp only at h; cases h
    exact ⟨fun c' hc' => (by rw [hc] at hc'; cases hc'; rfl), fun hc' => (by rw [hc] at hc'; cases hc')⟩

theorem couponAmt_nan_open (cfg : Cfg K) (d : Nat) (s : SecData K)
    (hc : cell s.coupons d = none) (hz : isZero cfg.tol s.position = false) :
    couponAmt cfg d s = .error Err.nanCouponOpenPosition := by
  unfold couponAmt; rw [hc]; simp [hz]; rfl

theorem holdingAmt_inv (d : Nat) (s : SecData K) (hc : K)
    (h : holdingAmt d s = .ok hc) : HoldingSpec d s hc := by
  unfold holdingAmt at h
  by_cases hl : 0 < s.position ∧ s.costLong.isSome = true
  · obtain ⟨hpos, hsome⟩ := hl
    obtain ⟨col, hcol⟩ := Option.isSome_iff_exists.1 hsome
    simp only [hpos, decide_true, hcol, Option.getD_some] at h
    cases hcl : cell col d with
    | none => rw [hcl] at h; cases h
    | some c =>
      rw [hcl] at h
      cases h
      refine ⟨?_, ?_, ?_⟩
      · intro _ col' hcol'; rw [hcol] at hcol'; cases hcol'; exact ⟨c, hcl, rfl⟩
      · intro hneg; exact absurd hneg (not_lt.2 (le_of_lt hpos))
      · intro h1 _; rw [h1 hpos] at hcol; cases hcol
  · have hl' : (decide (0 < s.position) && s.costLong.isSome) = false := by
      rcases not_and_or.1 hl with h1 | h1
      · simp [h1]
      · simp [h1]
    simp only [hl', Bool.false_eq_true, ↓reduceIte] at h
    by_cases hsh : s.position < 0 ∧ s.costShort.isSome = true
    · obtain ⟨hneg, hsome⟩ := hsh
      obtain ⟨col, hcol⟩ := Option.isSome_iff_exists.1 hsome
      simp only [hneg, decide_true, hcol, Option.getD_some] at h
      cases hcl : cell col d with
      | none => rw [hcl] at h; cases h
      | some c =>
        rw [hcl] at h
        cases h
        refine ⟨?_, ?_, ?_⟩
        · intro hpos; exact absurd hpos (not_lt.2 (le_of_lt hneg))
        · intro _ col' hcol'; rw [hcol] at hcol'; cases hcol'; exact ⟨c, hcl, rfl⟩
        · intro _ h2; rw [h2 hneg] at hcol; cases hcol
    · have hsh' : (decide (s.position < 0) && s.costShort.isSome) = false := by
        rcases not_and_or.1 hsh with h1 | h1
        · simp [h1]
        · simp [h1]
      simp only [hsh', Bool.false_eq_true, ↓reduceIte] at h
      cases h
      refine ⟨?_, ?_, fun _ _ => rfl⟩
      · intro hpos col hcol; exact absurd ⟨hpos, by simp [hcol]⟩ hl
      · intro hneg col hcol; exact absurd ⟨hneg, by simp [hcol]⟩ hsh

theorem secCouponTail_inv (cfg : Cfg K) (d : Nat) (s s' : SecData K)
    (h : secCouponTail cfg d s = .ok s') :
    ∃ cpn hc, CouponSpec cfg d s cpn ∧ HoldingSpec d s hc ∧
      s' = { s with coupon := cpn, holdingCost := hc, capital := cpn - hc,
                    rCoupon := s.rCoupon.set d cpn, rHolding := s.rHolding.set d hc } := by
  rw [secCouponTail_eq] at h
  cases h1 : couponAmt cfg d s with
  | error e => rw [h1] at h; cases h
  | ok cpn =>
    rw [h1] at h; simp only [Except.bind] at h
    cases h2 : holdingAmt d s with
    | error e => rw [h2] at h; cases h
    | ok hc =>
      rw [h2] at h; cases h
      exact ⟨cpn, hc, couponAmt_inv cfg d s cpn h1, holdingAmt_inv d s hc h2, rfl⟩

theorem secCouponTail_nan_open (cfg : Cfg K) (d : Nat) (s : SecData K)
    (hc : cell s.coupons d = none) (hz : isZero cfg.tol s.position = false) :
    secCouponTail cfg d s = .error Err.nanCouponOpenPosition := by
  rw [secCouponTail_eq, couponAmt_nan_open cfg d s hc hz]; rfl

theorem CouponSpec.congr {cfg : Cfg K} {d : Nat} {a b : SecData K} {x : K}
    (hp : b.position = a.position) (hc : b.coupons = a.coupons) (h : CouponSpec cfg d a x) :
    CouponSpec cfg d b x := by
  unfold CouponSpec at *; rw [hp, hc]; exact h

theorem HoldingSpec.congr {d : Nat} {a b : SecData K} {x : K}
    (hp : b.position = a.position) (hl : b.costLong = a.costLong) (hs : b.costShort = a.costShort)
    (h : HoldingSpec d a x) : HoldingSpec d b x := by
  unfold HoldingSpec at *; rw [hp, hl, hs]; exact h

/-! ### `update` as dispatched on the kind -/

theorem secUpdate_inv (cfg : Cfg K) (d : Nat) (s s' : SecData K) (h : secUpdate cfg d s = .ok s') :
    ∃ s1, secBaseUpdate cfg d s = .ok s1 ∧
      (s.kind = .plain → s' = s1) ∧ (s.kind = .fi → s' = secFiTail d s1) ∧
      (s.kind = .hedge → s' = secHedgeTail s1) ∧
      (s.kind = .coupon → secCouponTail cfg d (secFiTail d s1) = .ok s') ∧
      (s.kind = .couponHedge → ∃ s2, secCouponTail cfg d (secFiTail d s1) = .ok s2 ∧ s' = secHedgeTail s2) := by
  unfold secUpdate at h
  cases hb : secBaseUpdate cfg d s with
  | error e => rw [hb] at h; cases h
  | ok s1 =>
    rw [hb] at h
    simp only [Except.bind] at h
    refine ⟨s1, rfl, ?_⟩
    cases hk : s.kind <;> rw [hk] at h <;> simp only at h
    · cases h; simp
    · cases h; simp
    · simp [h]
    · cases h; simp
    · cases hc : secCouponTail cfg d (secFiTail d s1) with
      | error e => rw [hc] at h; cases h
      | ok s2 => rw [hc] at h; cases h; simp

theorem secUpdate_frame (cfg : Cfg K) (d : Nat) (s s' : SecData K) (h : secUpdate cfg d s = .ok s') :
    s'.kind = s.kind ∧ s'.position = s.position ∧ s'.fixedIncome = s.fixedIncome ∧ s'.name = s.name ∧
    s'.coupons = s.coupons ∧ s'.costLong = s.costLong ∧ s'.costShort = s.costShort ∧
    s'.weight = s.weight := by
  obtain ⟨s1, hb, hp, hf, hh, hc, hch⟩ := secUpdate_inv cfg d s s' h
  obtain ⟨f1, f2, f3, f4, f5, f6, f7, f8, f9, f10, f11, f12, f13⟩ := secBaseUpdate_frame cfg d s s1 hb
  cases hk : s.kind
  · rw [hp hk]; exact ⟨f1.trans hk, f10, f11, f12, f2, f3, f4, f13⟩
  · rw [hf hk]; exact ⟨f1.trans hk, f10, f11, f12, f2, f3, f4, f13⟩
  · obtain ⟨cpn, hc', _, _, rfl⟩ := secCouponTail_inv cfg d _ _ (hc hk)
    exact ⟨f1.trans hk, f10, f11, f12, f2, f3, f4, f13⟩
  · rw [hh hk]; exact ⟨f1.trans hk, f10, f11, f12, f2, f3, f4, f13⟩
  · obtain ⟨s2, h2, rfl⟩ := hch hk
    obtain ⟨cpn, hc', _, _, rfl⟩ := secCouponTail_inv cfg d _ _ h2
    exact ⟨f1.trans hk, f10, f11, f12, f2, f3, f4, f13⟩

/-- a coupon-paying security after a successful update -/
theorem secUpdate_coupon_inv (cfg : Cfg K) (d : Nat) (s s' : SecData K)
    (hk : s.kind = .coupon ∨ s.kind = .couponHedge) (h : secUpdate cfg d s = .ok s') :
    CouponSpec cfg d s s'.coupon ∧ HoldingSpec d s s'.holdingCost ∧
    s'.capital = s'.coupon - s'.holdingCost ∧ s'.position = s.position ∧
    s'.rCoupon = s.rCoupon.set d s'.coupon ∧ s'.rHolding = s.rHolding.set d s'.holdingCost := by
  obtain ⟨s1, hb, _, _, _, hc, hch⟩ := secUpdate_inv cfg d s s' h
  obtain ⟨f1, f2, f3, f4, f5, f6, f7, f8, f9, f10, f11, f12, f13⟩ := secBaseUpdate_frame cfg d s s1 hb
  have key : ∀ s2, secCouponTail cfg d (secFiTail d s1) = .ok s2 →
      CouponSpec cfg d s s2.coupon ∧ HoldingSpec d s s2.holdingCost ∧
      s2.capital = s2.coupon - s2.holdingCost ∧ s2.position = s.position ∧
      s2.rCoupon = s.rCoupon.set d s2.coupon ∧ s2.rHolding = s.rHolding.set d s2.holdingCost := by
    intro s2 h2
    obtain ⟨cpn, hc', hcs, hhs, rfl⟩ := secCouponTail_inv cfg d _ _ h2
    refine ⟨hcs.congr ?_ ?_, hhs.congr ?_ ?_ ?_, rfl, f10, ?_, ?_⟩
    · exact f10.symm
    · exact f2.symm
    · exact f10.symm
    · exact f3.symm
    · exact f4.symm
    · show (secFiTail d s1).rCoupon.set d cpn = _; rw [← f5]; rfl
    · show (secFiTail d s1).rHolding.set d hc' = _; rw [← f6]; rfl
  rcases hk with hk | hk
  · exact key s' (hc hk)
  · obtain ⟨s2, h2, rfl⟩ := hch hk
    exact key s2 h2

end sec
/-! ### strategy level -/
section strat
variable {K : Type} [Field K] [LinearOrder K] [IsStrictOrderedRing K] [HasFloor K]

theorem map_ok {ε α β : Type} {f : α → β} {x : Except ε α} {y : β} (h : Except.map f x = .ok y) :
    ∃ a, x = .ok a ∧ f a = y := by
  cases x with
  | error e => cases h
  | ok a => cases h; exact ⟨a, rfl, rfl⟩

theorem bind_ok {ε α β : Type} {f : α → Except ε β} {x : Except ε α} {y : β} (h : x.bind f = .ok y) :
    ∃ a, x = .ok a ∧ f a = .ok y := by
  cases x with
  | error e => cases h
  | ok a => exact ⟨a, rfl, h⟩

/-- the security as the coupon sweep leaves it -/
def sweptSec (newpt : Bool) (s : SecData K) : SecData K := if newpt then { s with capital := 0 } else s

@[simp] theorem sweepSec_fst (newpt : Bool) (s : SecData K) (acc : Acc K) :
    (sweepSec newpt s acc).1 = sweptSec newpt s := by
  unfold sweepSec sweptSec; split <;> rfl

@[simp] theorem sweptSec_needupdate (newpt : Bool) (s : SecData K) :
    (sweptSec newpt s).needupdate = s.needupdate := by
  unfold sweptSec; split <;> rfl

@[simp] theorem sweptSec_kind (newpt : Bool) (s : SecData K) : (sweptSec newpt s).kind = s.kind := by
  unfold sweptSec; split <;> rfl

theorem sweepSec_snd (newpt : Bool) (s : SecData K) (acc : Acc K) :
    (sweepSec newpt s acc).2 =
      { acc with coupons := if newpt then acc.coupons + s.capital else acc.coupons } := by
  unfold sweepSec; split <;> rfl

theorem updKids_nil_inv (cfg : Cfg K) (d : Nat) (newpt bo : Bool) (kids' : List (Node K))
    (acc acc' : Acc K) (h : updKids cfg d newpt bo [] acc = .ok (kids', acc')) :
    kids' = [] ∧ acc' = acc := by
  rw [updKids] at h; cases h; exact ⟨rfl, rfl⟩

theorem updKids_sec_inv (cfg : Cfg K) (d : Nat) (newpt bo : Bool) (s : SecData K) (ks kids' : List (Node K))
    (acc acc' : Acc K) (h : updKids cfg d newpt bo (.sec s :: ks) acc = .ok (kids', acc')) :
    ∃ s1 ks', kids' = .sec s1 :: ks' ∧
      ((s.needupdate = false ∧ s1 = sweptSec newpt s ∧
          updKids cfg d newpt bo ks (sweepSec newpt s acc).2 = .ok (ks', acc')) ∨
       (s.needupdate = true ∧ secUpdate cfg d (sweptSec newpt s) = .ok s1 ∧
          updKids cfg d newpt bo ks (accAdd bo (sweepSec newpt s acc).2 (.sec s1)) = .ok (ks', acc'))) := by
  rw [updKids] at h
  have hn : (sweepSec newpt s acc).1.needupdate = s.needupdate := by simp
  rw [← sweepSec_fst newpt s acc]
  generalize sweepSec newpt s acc = p at h hn ⊢
  obtain ⟨s0, acc0⟩ := p
  dsimp only at h hn ⊢
  cases hnu : s.needupdate
  · rw [hnu] at hn
    simp only [hn, Bool.not_false, if_true] at h
    obtain ⟨⟨ks', a⟩, h1, h2⟩ := map_ok h
    cases h2
    exact ⟨s0, ks', rfl, Or.inl ⟨rfl, rfl, h1⟩⟩
  · rw [hnu] at hn
    simp only [hn, Bool.not_true, Bool.false_eq_true, if_false] at h
    obtain ⟨s1, h1, h2⟩ := bind_ok h
    obtain ⟨⟨ks', a⟩, h3, h4⟩ := map_ok h2
    cases h4
    exact ⟨s1, ks', rfl, Or.inr ⟨rfl, h1, h3⟩⟩

theorem updKids_strat_inv (cfg : Cfg K) (d : Nat) (newpt bo : Bool) (sd : StratData K)
    (gk ks kids' : List (Node K)) (acc acc' : Acc K)
    (h : updKids cfg d newpt bo (.strat sd gk :: ks) acc = .ok (kids', acc')) :
    ∃ k1 ks', kids' = k1 :: ks' ∧ updNode cfg d (.strat sd gk) = .ok k1 ∧
      updKids cfg d newpt bo ks (accAdd bo acc k1) = .ok (ks', acc') := by
  rw [updKids] at h
  obtain ⟨k1, h1, h2⟩ := bind_ok h
  obtain ⟨⟨ks', a⟩, h3, h4⟩ := map_ok h2
  cases h4
  exact ⟨k1, ks', rfl, h1, h3⟩

/-- what the children loop does to one child: a security is swept first (new date only), then updated
    if it needs it; a sub-strategy is updated -/
def childStep (cfg : Cfg K) (d : Nat) (newpt : Bool) : Node K → Except Err (Node K)
  | .sec s =>
    if s.needupdate then (secUpdate cfg d (sweptSec newpt s)).map Node.sec
    else pure (.sec (sweptSec newpt s))
  | .strat sd gk => updNode cfg d (.strat sd gk)

/-- coupon less cost parked on the security children -/
def kidsParked : List (Node K) → K
  | [] => 0
  | .sec s :: ks => s.capital + kidsParked ks
  | .strat _ _ :: ks => kidsParked ks

/-- `Σ |notional|` of the post-update children over those the loop visited (pre-state test) -/
def sumVisited : List (Node K) → List (Node K) → K
  | k :: ks, k' :: ks' => (if k.skipped then 0 else absA k'.notl) + sumVisited ks ks'
  | _, _ => 0

/-- the same sum for values -/
def sumVisitedVal : List (Node K) → List (Node K) → K
  | k :: ks, k' :: ks' => (if k.skipped then 0 else k'.value) + sumVisitedVal ks ks'
  | _, _ => 0

def _root_.Bt.Node.isHedge : Node K → Bool
  | .sec s => s.kind == .hedge || s.kind == .couponHedge
  | .strat _ _ => false

/-- `Σ |notional|` over the visited children that are not hedge securities -/
def sumVisitedNH : List (Node K) → List (Node K) → K
  | k :: ks, k' :: ks' => (if k.skipped || k.isHedge then 0 else absA k'.notl) + sumVisitedNH ks ks'
  | _, _ => 0

@[simp] theorem accAdd_coupons (bo : Bool) (acc : Acc K) (k : Node K) :
    (accAdd bo acc k).coupons = acc.coupons := rfl
@[simp] theorem accAdd_notl (bo : Bool) (acc : Acc K) (k : Node K) :
    (accAdd bo acc k).notl = acc.notl + absA k.notl := rfl
@[simp] theorem accAdd_val (bo : Bool) (acc : Acc K) (k : Node K) :
    (accAdd bo acc k).val = acc.val + k.value := rfl

theorem secUpdate_hedge_notl (cfg : Cfg K) (d : Nat) (s s' : SecData K) (h : secUpdate cfg d s = .ok s')
    (hk : s.kind = .hedge ∨ s.kind = .couponHedge) : s'.notl = 0 := by
  obtain ⟨s1, _, _, _, hh, _, hch⟩ := secUpdate_inv cfg d s s' h
  rcases hk with hk | hk
  · rw [hh hk]; rfl
  · obtain ⟨s2, _, rfl⟩ := hch hk; rfl

theorem absA_zero : absA (0 : K) = 0 := by rw [absA_eq_abs, abs_zero]

/-- the accumulators of the children loop and what it does to each child, for every list -/
theorem updKids_spec (cfg : Cfg K) (d : Nat) (newpt bo : Bool) :
    ∀ (kids kids' : List (Node K)) (acc acc' : Acc K),
      updKids cfg d newpt bo kids acc = .ok (kids', acc') →
      kids'.length = kids.length ∧
      acc'.coupons = acc.coupons + (if newpt then kidsParked kids else 0) ∧
      acc'.notl = acc.notl + sumVisited kids kids' ∧
      acc'.val = acc.val + sumVisitedVal kids kids' ∧
      sumVisited kids kids' = sumVisitedNH kids kids' ∧
      ∀ (i : Nat) (k : Node K), kids[i]? = some k → ∃ k', kids'[i]? = some k' ∧ childStep cfg d newpt k = .ok k' := by
  intro kids
  induction kids with
  | nil =>
    intro kids' acc acc' h
    obtain ⟨rfl, rfl⟩ := updKids_nil_inv cfg d newpt bo kids' acc acc' h
    refine ⟨rfl, ?_, ?_, ?_, rfl, ?_⟩
    · cases newpt <;> simp [kidsParked]
    · simp [sumVisited]
    · simp [sumVisitedVal]
    · intro i k hk; simp at hk
  | cons k ks ih =>
    intro kids' acc acc' h
    cases k with
    | sec s =>
      obtain ⟨s1, ks', rfl, hcase⟩ := updKids_sec_inv cfg d newpt bo s ks kids' acc acc' h
      rcases hcase with ⟨hnu, rfl, hrest⟩ | ⟨hnu, hup, hrest⟩
      · obtain ⟨hl, hc, hn, hv, hnh, hi⟩ := ih ks' _ acc' hrest
        rw [sweepSec_snd] at hc hn hv
        refine ⟨by simp [hl], ?_, ?_, ?_, ?_, ?_⟩
        · rw [hc]; cases newpt <;> simp [kidsParked]; ring
        · rw [hn]; simp [sumVisited, Node.skipped, hnu]
        · rw [hv]; simp [sumVisitedVal, Node.skipped, hnu]
        · simp [sumVisited, sumVisitedNH, Node.skipped, hnu, hnh]
        · intro i k hk
          cases i with
          | zero =>
            simp only [List.getElem?_cons_zero, Option.some.injEq] at hk
            subst hk
            exact ⟨.sec (sweptSec newpt s), by simp, by simp [childStep, hnu]; rfl⟩
          | succ j =>
            simp only [List.getElem?_cons_succ] at hk ⊢
            exact hi j k hk
      · obtain ⟨hl, hc, hn, hv, hnh, hi⟩ := ih ks' _ acc' hrest
        simp only [accAdd_coupons, accAdd_notl, accAdd_val] at hc hn hv
        rw [sweepSec_snd] at hc hn hv
        refine ⟨by simp [hl], ?_, ?_, ?_, ?_, ?_⟩
        · rw [hc]; cases newpt <;> simp [kidsParked]; ring
        · rw [hn]; simp [sumVisited, Node.skipped, hnu, Node.notl]; ring
        · rw [hv]; simp [sumVisitedVal, Node.skipped, hnu, Node.value]; ring
        · simp only [sumVisited, sumVisitedNH, Node.skipped, hnu, Bool.not_true, Bool.false_eq_true,
            if_false, Bool.false_or, hnh, Node.notl]
          by_cases hh : (Node.sec s : Node K).isHedge = true
          · have hk : s.kind = .hedge ∨ s.kind = .couponHedge := by
              simpa [Node.isHedge] using hh
            have := secUpdate_hedge_notl cfg d _ s1 hup (by simpa using hk)
            simp [hh, this, absA_zero]
          · simp [hh]
        · intro i k hk
          cases i with
          | zero =>
            simp only [List.getElem?_cons_zero, Option.some.injEq] at hk
            subst hk
            exact ⟨.sec s1, by simp, by simp [childStep, hnu, hup, Except.map]⟩
          | succ j =>
            simp only [List.getElem?_cons_succ] at hk ⊢
            exact hi j k hk
    | strat sd gk =>
      obtain ⟨k1, ks', rfl, hup, hrest⟩ := updKids_strat_inv cfg d newpt bo sd gk ks kids' acc acc' h
      obtain ⟨hl, hc, hn, hv, hnh, hi⟩ := ih ks' _ acc' hrest
      simp only [accAdd_coupons, accAdd_notl, accAdd_val] at hc hn hv
      refine ⟨by simp [hl], ?_, ?_, ?_, ?_, ?_⟩
      · rw [hc]; cases newpt <;> simp [kidsParked]
      · rw [hn]; simp [sumVisited, Node.skipped]; ring
      · rw [hv]; simp [sumVisitedVal, Node.skipped]; ring
      · simp [sumVisited, sumVisitedNH, Node.skipped, Node.isHedge, hnh]
      · intro i k hk
        cases i with
        | zero =>
          simp only [List.getElem?_cons_zero, Option.some.injEq] at hk
          subst hk
          exact ⟨k1, by simp, by simp [childStep, hup]⟩
        | succ j =>
          simp only [List.getElem?_cons_succ] at hk ⊢
          exact hi j k hk

/-! `update` of a strategy node -/

theorem stratDateChange_snd (d : Nat) (sd : StratData K) :
    (stratDateChange d sd).2 = true ↔ sd.now ≠ some d := by
  unfold stratDateChange
  cases h : sd.now with
  | none => simp
  | some n =>
    by_cases hn : n = d
    · simp [hn]
    · simp [hn]

theorem stratDateChange_frame (d : Nat) (sd : StratData K) :
    (stratDateChange d sd).1.capital = sd.capital ∧ (stratDateChange d sd).1.fixedIncome = sd.fixedIncome ∧
    (stratDateChange d sd).1.notl = sd.notl ∧ (stratDateChange d sd).1.value = sd.value ∧
    (stratDateChange d sd).1.bidofferSet = sd.bidofferSet ∧ (stratDateChange d sd).1.name = sd.name := by
  unfold stratDateChange
  cases h : sd.now with
  | none => exact ⟨rfl, rfl, rfl, rfl, rfl, rfl⟩
  | some n =>
    dsimp only
    split <;> exact ⟨rfl, rfl, rfl, rfl, rfl, rfl⟩

/-- on a new date the "last" figures are the previous date's closing figures and the flows restart -/
theorem stratDateChange_new (d n : Nat) (sd : StratData K) (h : sd.now = some n) (hn : n ≠ d) :
    (stratDateChange d sd).1.lastPrice = sd.price ∧ (stratDateChange d sd).1.lastValue = sd.value ∧
    (stratDateChange d sd).1.lastNotl = sd.notl ∧ (stratDateChange d sd).1.netFlows = 0 := by
  unfold stratDateChange
  rw [h]
  simp [hn]

@[simp] theorem stratRows_capital (d : Nat) (sd : StratData K) : (stratRows d sd).capital = sd.capital := by
  unfold stratRows; dsimp only; split <;> rfl
@[simp] theorem stratRows_notl (d : Nat) (sd : StratData K) : (stratRows d sd).notl = sd.notl := by
  unfold stratRows; dsimp only; split <;> rfl
@[simp] theorem stratRows_value (d : Nat) (sd : StratData K) : (stratRows d sd).value = sd.value := by
  unfold stratRows; dsimp only; split <;> rfl
@[simp] theorem stratRows_fixedIncome (d : Nat) (sd : StratData K) :
    (stratRows d sd).fixedIncome = sd.fixedIncome := by
  unfold stratRows; dsimp only; split <;> rfl

theorem stratSetTotals_frame (d : Nat) (sd : StratData K) (val notl bo : K) :
    (stratSetTotals d sd val notl bo).capital = sd.capital ∧
    (stratSetTotals d sd val notl bo).fixedIncome = sd.fixedIncome ∧
    (stratSetTotals d sd val notl bo).notl = notl ∧ (stratSetTotals d sd val notl bo).value = val ∧
    (stratSetTotals d sd val notl bo).lastPrice = sd.lastPrice ∧
    (stratSetTotals d sd val notl bo).lastValue = sd.lastValue ∧
    (stratSetTotals d sd val notl bo).lastNotl = sd.lastNotl ∧
    (stratSetTotals d sd val notl bo).netFlows = sd.netFlows := by
  unfold stratSetTotals; dsimp only
  split <;> exact ⟨rfl, rfl, rfl, rfl, rfl, rfl, rfl, rfl⟩

/-- the two outcomes of the guarded write -/
theorem stratWrite_inv (cfg : Cfg K) (d : Nat) (newpt : Bool) (sd sd3 : StratData K) (val notl bo : K)
    (h : stratWrite cfg d newpt sd val notl bo = .ok sd3) :
    (stratChanged cfg newpt sd val notl = false ∧ sd3 = sd) ∨
    (stratChanged cfg newpt sd val notl = true ∧ ∃ ret,
      (if sd.fixedIncome then fiReturn cfg (stratSetTotals d sd val notl bo)
        else mvReturn cfg (stratSetTotals d sd val notl bo)) = .ok ret ∧
      sd3 = stratSetPrice d (stratSetTotals d sd val notl bo)
        (if sd.fixedIncome then (stratSetTotals d sd val notl bo).lastPrice + ret
          else (stratSetTotals d sd val notl bo).lastPrice * (1 + ret))) := by
  unfold stratWrite at h
  cases hc : stratChanged cfg newpt sd val notl
  · rw [hc] at h; cases h; exact Or.inl ⟨rfl, rfl⟩
  · rw [hc] at h
    simp only [if_true] at h
    have hfi := (stratSetTotals_frame d sd val notl bo).2.1
    right; refine ⟨rfl, ?_⟩
    cases hf : sd.fixedIncome
    · rw [hf] at hfi; simp only [hfi, Bool.false_eq_true, if_false] at h ⊢
      obtain ⟨ret, h1, h2⟩ := map_ok h
      exact ⟨ret, h1, h2.symm⟩
    · rw [hf] at hfi; simp only [hfi, if_true] at h ⊢
      obtain ⟨ret, h1, h2⟩ := map_ok h
      exact ⟨ret, h1, h2.symm⟩

theorem stratWrite_frame (cfg : Cfg K) (d : Nat) (newpt : Bool) (sd sd3 : StratData K) (val notl bo : K)
    (h : stratWrite cfg d newpt sd val notl bo = .ok sd3) :
    sd3.capital = sd.capital ∧ sd3.fixedIncome = sd.fixedIncome := by
  rcases stratWrite_inv cfg d newpt sd sd3 val notl bo h with ⟨_, rfl⟩ | ⟨_, ret, _, rfl⟩
  · exact ⟨rfl, rfl⟩
  · exact ⟨(stratSetTotals_frame d sd val notl bo).1, (stratSetTotals_frame d sd val notl bo).2.1⟩

theorem updNode_strat_inv (cfg : Cfg K) (d : Nat) (sd : StratData K) (kids : List (Node K)) (n : Node K)
    (h : updNode cfg d (.strat sd kids) = .ok n) :
    ∃ kids1 acc sd3,
      updKids cfg d (stratDateChange d sd).2 (stratDateChange d sd).1.bidofferSet kids
        ⟨(stratDateChange d sd).1.capital, 0, 0, 0⟩ = .ok (kids1, acc) ∧
      stratWrite cfg d (stratDateChange d sd).2
        { (stratDateChange d sd).1 with capital := (stratDateChange d sd).1.capital + acc.coupons }
        (acc.val + acc.coupons) acc.notl acc.bo = .ok sd3 ∧
      n = .strat (stratRows d sd3) (kidsWeights cfg sd3.fixedIncome (acc.val + acc.coupons) acc.notl kids1) := by
  rw [updNode] at h
  generalize stratDateChange d sd = p at h ⊢
  obtain ⟨sd1, newpt⟩ := p
  dsimp only at h ⊢
  obtain ⟨⟨kids1, acc⟩, h1, h2⟩ := bind_ok h
  dsimp only at h2
  obtain ⟨sd3, h3, h4⟩ := map_ok h2
  exact ⟨kids1, acc, sd3, h1, h3, h4.symm⟩

/-! weights of the children -/

@[simp] theorem setWeight_notl (w : K) (k : Node K) : (k.setWeight w).notl = k.notl := by
  cases k <;> rfl
@[simp] theorem setWeight_value (w : K) (k : Node K) : (k.setWeight w).value = k.value := by
  cases k <;> rfl
@[simp] theorem setWeight_weight (w : K) (k : Node K) : (k.setWeight w).weight = w := by
  cases k <;> rfl
@[simp] theorem setWeight_skipped (w : K) (k : Node K) : (k.setWeight w).skipped = k.skipped := by
  cases k <;> rfl

/-- the node the weights loop leaves in place of `k` -/
def weighted (cfg : Cfg K) (fi : Bool) (val notl : K) (k : Node K) : Node K :=
  if k.skipped then k else k.setWeight (childWeight cfg fi val notl k)

@[simp] theorem weighted_notl (cfg : Cfg K) (fi : Bool) (val notl : K) (k : Node K) :
    (weighted cfg fi val notl k).notl = k.notl := by
  unfold weighted; split <;> simp
@[simp] theorem weighted_value (cfg : Cfg K) (fi : Bool) (val notl : K) (k : Node K) :
    (weighted cfg fi val notl k).value = k.value := by
  unfold weighted; split <;> simp
@[simp] theorem weighted_skipped (cfg : Cfg K) (fi : Bool) (val notl : K) (k : Node K) :
    (weighted cfg fi val notl k).skipped = k.skipped := by
  unfold weighted; split <;> simp

theorem kidsWeights_eq (cfg : Cfg K) (fi : Bool) (val notl : K) (kids : List (Node K)) :
    kidsWeights cfg fi val notl kids = kids.map (weighted cfg fi val notl) := rfl

theorem kidsWeights_getElem? (cfg : Cfg K) (fi : Bool) (val notl : K) (kids : List (Node K)) (i : Nat) :
    (kidsWeights cfg fi val notl kids)[i]? = (kids[i]?).map (weighted cfg fi val notl) := by
  rw [kidsWeights_eq, List.getElem?_map]

theorem sumVisited_kidsWeights (cfg : Cfg K) (fi : Bool) (val notl : K) :
    ∀ (kids kids1 : List (Node K)),
      sumVisited kids (kidsWeights cfg fi val notl kids1) = sumVisited kids kids1 ∧
      sumVisitedNH kids (kidsWeights cfg fi val notl kids1) = sumVisitedNH kids kids1 ∧
      sumVisitedVal kids (kidsWeights cfg fi val notl kids1) = sumVisitedVal kids kids1 := by
  intro kids
  induction kids with
  | nil => intro kids1; simp [sumVisited, sumVisitedNH, sumVisitedVal]
  | cons k ks ih =>
    intro kids1
    cases kids1 with
    | nil => simp [kidsWeights_eq, sumVisited, sumVisitedNH, sumVisitedVal]
    | cons k1 ks1 =>
      have := ih ks1
      rw [kidsWeights_eq] at this ⊢
      simp only [List.map_cons, sumVisited, sumVisitedNH, sumVisitedVal, weighted_notl, weighted_value,
        this.1, this.2.1, this.2.2, and_self]

/-- Everything the proofs need about a strategy's `update`, in one place. -/
theorem updNode_strat_spec (cfg : Cfg K) (d : Nat) (sd sd' : StratData K) (kids kids' : List (Node K))
    (h : updNode cfg d (.strat sd kids) = .ok (.strat sd' kids')) :
    ∃ kids1 : List (Node K),
      kids' = kidsWeights cfg sd.fixedIncome (sd.capital + sumVisitedVal kids kids1 +
          (if sd.now ≠ some d then kidsParked kids else 0)) (sumVisited kids kids1) kids1 ∧
      kids1.length = kids.length ∧
      (∀ (i : Nat) (k : Node K), kids[i]? = some k →
        ∃ k1, kids1[i]? = some k1 ∧ childStep cfg d (decide (sd.now ≠ some d)) k = .ok k1) ∧
      sd'.capital = sd.capital + (if sd.now ≠ some d then kidsParked kids else 0) ∧
      sd'.fixedIncome = sd.fixedIncome ∧
      sumVisited kids kids' = sumVisited kids kids1 ∧
      sumVisited kids kids' = sumVisitedNH kids kids' ∧
      (sd'.notl = sumVisited kids kids' ∨
        (sd.now = some d ∧ sd'.notl = sd.notl ∧ isZero cfg.tol (sd.notl - sumVisited kids kids') = true)) := by
  obtain ⟨kids1, acc, sd3, hk, hw, hn⟩ := updNode_strat_inv cfg d sd kids _ h
  obtain ⟨f1, f2, f3, f4, f5, f6⟩ := stratDateChange_frame d sd
  have hnp : (stratDateChange d sd).2 = decide (sd.now ≠ some d) := by
    rw [Bool.eq_iff_iff, stratDateChange_snd]; simp
  rw [hnp] at hk hw
  obtain ⟨hl, hc, hnl, hv, hnh, hi⟩ := updKids_spec cfg d _ _ kids kids1 _ acc hk
  dsimp only at hc hnl hv
  rw [zero_add] at hc hnl
  obtain ⟨w1, w2⟩ := stratWrite_frame cfg d _ _ sd3 _ _ _ hw
  dsimp only at w1 w2
  cases hn
  have hcoup : acc.coupons = if sd.now ≠ some d then kidsParked kids else 0 := by
    rw [hc]; by_cases hd : sd.now = some d <;> simp [hd]
  have hsw := sumVisited_kidsWeights cfg sd3.fixedIncome (acc.val + acc.coupons) acc.notl kids kids1
  refine ⟨kids1, ?_, hl, hi, ?_, ?_, hsw.1, ?_, ?_⟩
  · rw [w2, f2, hv, f1, hnl, hcoup]
  · rw [stratRows_capital, w1, f1, hcoup]
  · rw [stratRows_fixedIncome, w2, f2]
  · rw [hsw.1, hsw.2.1]; exact hnh
  · rw [hsw.1, stratRows_notl]
    rcases stratWrite_inv cfg d _ _ sd3 _ _ _ hw with ⟨hch, rfl⟩ | ⟨hch, ret, _, rfl⟩
    · right
      unfold stratChanged at hch
      simp only [Bool.or_eq_false_iff, Bool.not_eq_false', decide_eq_false_iff_not, ne_eq,
        Decidable.not_not] at hch
      obtain ⟨⟨h1, _⟩, h3⟩ := hch
      dsimp only at h3 ⊢
      rw [f3, hnl] at h3
      exact ⟨h1, f3, h3⟩
    · left
      show (stratSetTotals d _ _ _ _).notl = _
      rw [(stratSetTotals_frame d _ _ _ _).2.2.1, hnl]

theorem secUpdate_capital_noncoupon (cfg : Cfg K) (d : Nat) (s s' : SecData K)
    (h : secUpdate cfg d s = .ok s') (hk : s.kind = .plain ∨ s.kind = .fi ∨ s.kind = .hedge) :
    s'.capital = s.capital := by
  obtain ⟨s1, hb, hp, hf, hh, _, _⟩ := secUpdate_inv cfg d s s' h
  have f7 := (secBaseUpdate_frame cfg d s s1 hb).2.2.2.2.2.2.1
  rcases hk with hk | hk | hk
  · rw [hp hk]; exact f7
  · rw [hf hk]; exact f7
  · rw [hh hk]; exact f7

theorem weighted_sec (cfg : Cfg K) (fi : Bool) (val notl : K) (s1 : SecData K) :
    ∃ w, weighted cfg fi val notl (.sec s1) = .sec { s1 with weight := w } := by
  unfold weighted
  split
  · exact ⟨s1.weight, rfl⟩
  · exact ⟨_, rfl⟩

/-- a security child through the whole strategy update: swept, updated if needed, re-weighted -/
theorem updNode_sec_child (cfg : Cfg K) (d : Nat) (sd sd' : StratData K) (kids kids' : List (Node K))
    (h : updNode cfg d (.strat sd kids) = .ok (.strat sd' kids')) (i : Nat) (s : SecData K)
    (hi : kids[i]? = some (.sec s)) :
    ∃ s1 w, kids'[i]? = some (.sec { s1 with weight := w }) ∧
      (s.needupdate = true → secUpdate cfg d (sweptSec (decide (sd.now ≠ some d)) s) = .ok s1) ∧
      (s.needupdate = false → s1 = sweptSec (decide (sd.now ≠ some d)) s ∧ w = s.weight) := by
  obtain ⟨kids1, hk', _, hstep, _⟩ := updNode_strat_spec cfg d sd sd' kids kids' h
  obtain ⟨k1, hk1, hcs⟩ := hstep i _ hi
  rw [hk', kidsWeights_getElem?, hk1]
  simp only [childStep] at hcs
  cases hnu : s.needupdate
  · rw [hnu] at hcs
    simp only [Bool.false_eq_true, if_false] at hcs
    cases hcs
    refine ⟨sweptSec _ s, s.weight, ?_, fun h' => (by cases h'), fun _ => ⟨rfl, rfl⟩⟩
    have hsk : (Node.sec (sweptSec (decide (sd.now ≠ some d)) s)).skipped = true := by
      simp [Node.skipped, hnu]
    rw [Option.map_some]; unfold weighted; rw [if_pos hsk]
    cases decide (sd.now ≠ some d) <;> rfl
  · rw [hnu] at hcs
    simp only [if_true] at hcs
    obtain ⟨s1, h1, h2⟩ := map_ok hcs
    subst h2
    obtain ⟨w, hw⟩ := weighted_sec cfg sd.fixedIncome
      (sd.capital + sumVisitedVal kids kids1 + if sd.now ≠ some d then kidsParked kids else 0)
      (sumVisited kids kids1) s1
    exact ⟨s1, w, by rw [Option.map_some, hw], fun _ => h1, fun h' => (by cases h')⟩

/-! the additive index -/

theorem stratWrite_fi_eq (cfg : Cfg K) (d : Nat) (newpt : Bool) (sd : StratData K) (val notl bo : K)
    (hfi : sd.fixedIncome = true) (hch : stratChanged cfg newpt sd val notl = true) :
    stratWrite cfg d newpt sd val notl bo =
      (fiReturn cfg (stratSetTotals d sd val notl bo)).map fun ret =>
        stratSetPrice d (stratSetTotals d sd val notl bo) (sd.lastPrice + ret) := by
  unfold stratWrite
  obtain ⟨_, f2, _, _, f5, _⟩ := stratSetTotals_frame d sd val notl bo
  simp only [hch, if_true, f2, hfi, f5]

theorem fiReturn_totals (cfg : Cfg K) (d : Nat) (sd : StratData K) (val notl bo : K) :
    fiReturn cfg (stratSetTotals d sd val notl bo) =
      if !(isZero cfg.tol sd.lastNotl) then pure ((val - (sd.lastValue + sd.netFlows)) / sd.lastNotl * cfg.par)
      else if !(isZero cfg.tol notl) then pure ((val - (sd.lastValue + sd.netFlows)) / notl * cfg.par)
      else if isZero cfg.tol (val - (sd.lastValue + sd.netFlows)) then pure 0
      else throw Err.zeroBaseReturn := by
  obtain ⟨_, _, f3, f4, _, f6, f7, f8⟩ := stratSetTotals_frame d sd val notl bo
  unfold fiReturn
  simp only [f3, f4, f6, f7, f8]

@[simp] theorem stratRows_price (d : Nat) (sd : StratData K) (h : sd.paperTrade = false) :
    (stratRows d sd).price = sd.price := by
  unfold stratRows; simp [h]

theorem stratSetTotals_paperTrade (d : Nat) (sd : StratData K) (val notl bo : K) :
    (stratSetTotals d sd val notl bo).paperTrade = sd.paperTrade := by
  unfold stratSetTotals; dsimp only; split <;> rfl

theorem stratDateChange_paperTrade (d : Nat) (sd : StratData K) :
    (stratDateChange d sd).1.paperTrade = sd.paperTrade := by
  unfold stratDateChange
  cases h : sd.now with
  | none => rfl
  | some n => dsimp only; split <;> rfl

end strat

/-! ### operations addressed by a path -/
section ops
variable {K : Type} [Field K] [LinearOrder K] [IsStrictOrderedRing K] [HasFloor K]

theorem get?_nil (n : Node K) : n.get? [] = some n := by
  cases n <;> rfl

theorem get?_cons_strat (sd : StratData K) (kids : List (Node K)) (i : Nat) (rest : List Nat) :
    (Node.strat sd kids).get? (i :: rest) = (kids[i]?).bind fun k => k.get? rest := by
  rw [Node.get?]
  cases kids[i]? <;> rfl

/-- `modAt f path` runs `f` on the node at `path` (given the data of that node's parent) and puts the
    node it returns back in the same place. -/
theorem modAt_get (f : Option (StratData K) → Node K → Except Err (OpRes K)) :
    ∀ (path : List Nat) (par : Option (StratData K)) (n : Node K) (r : OpRes K) (k : Node K),
      modAt f path par n = .ok r → n.get? path = some k →
      ∃ par' k' adjs, f par' k = .ok (k', adjs, r.2.2) ∧ r.1.get? path = some k' ∧
        (path = [] → par' = par) ∧
        (∀ p i, path = p ++ [i] → ∃ psd pks, n.get? p = some (.strat psd pks) ∧ par' = some psd) := by
  intro path
  induction path with
  | nil =>
    intro par n r k h hk
    rw [get?_nil] at hk; cases hk
    rw [modAt] at h
    obtain ⟨k', adjs, st⟩ := r
    refine ⟨par, k', adjs, h, get?_nil _, fun _ => rfl, fun p i hp => ?_⟩
    cases p <;> cases hp
  | cons i rest ih =>
    intro par n r k h hk
    cases n with
    | sec s => rw [Node.get?] at hk; cases hk
    | strat sd kids =>
      rw [get?_cons_strat] at hk
      cases hki : kids[i]? with
      | none => rw [hki] at hk; cases hk
      | some kid =>
        rw [hki] at hk
        simp only [Option.bind_some] at hk
        rw [modAt] at h
        simp only [hki] at h
        obtain ⟨⟨k1, adjs1, st1⟩, h1, h2⟩ := map_ok h
        obtain ⟨par', k', adjs, hf, hg, hnil, hsnoc⟩ := ih (some sd) kid _ k h1 hk
        subst h2
        have hlt : i < kids.length := by
          rcases List.getElem?_eq_some_iff.1 hki with ⟨hlt, _⟩; exact hlt
        refine ⟨par', k', adjs, hf, ?_, fun h' => (by cases h'), fun p j hp => ?_⟩
        · rw [get?_cons_strat]
          simp only [List.getElem?_set_self hlt, Option.bind_some]
          exact hg
        · cases p with
          | nil =>
            simp only [List.nil_append, List.cons.injEq] at hp
            obtain ⟨_, hr⟩ := hp
            exact ⟨sd, kids, get?_nil _, hnil hr⟩
          | cons i' p' =>
            simp only [List.cons_append, List.cons.injEq] at hp
            obtain ⟨rfl, hr⟩ := hp
            obtain ⟨psd, pks, hget, hpar⟩ := hsnoc p' j hr
            refine ⟨psd, pks, ?_, hpar⟩
            rw [get?_cons_strat, hki]; exact hget

theorem get?_snoc_sec_parent (n : Node K) (p : List Nat) (i : Nat) (k : Node K)
    (h : n.get? (p ++ [i]) = some k) : ∃ psd pks, n.get? p = some (.strat psd pks) ∧ pks[i]? = some k := by
  induction p generalizing n with
  | nil =>
    cases n with
    | sec s => rw [List.nil_append, Node.get?] at h; cases h
    | strat sd kids =>
      rw [List.nil_append, get?_cons_strat] at h
      cases hk : kids[i]? with
      | none => rw [hk] at h; cases h
      | some k0 =>
        rw [hk] at h; simp only [Option.bind_some, get?_nil] at h
        cases h
        exact ⟨sd, kids, get?_nil _, hk⟩
  | cons j p' ih =>
    cases n with
    | sec s => rw [List.cons_append, Node.get?] at h; cases h
    | strat sd kids =>
      rw [List.cons_append, get?_cons_strat] at h
      cases hk : kids[j]? with
      | none => rw [hk] at h; cases h
      | some k0 =>
        rw [hk] at h; simp only [Option.bind_some] at h
        obtain ⟨psd, pks, h1, h2⟩ := ih k0 h
        exact ⟨psd, pks, by rw [get?_cons_strat, hk]; exact h1, h2⟩

/-- `transact` on a security child at `path ++ [child]`: it is `SecurityBase.transact` run with the
    parent's date and commission function, and the new security sits in the same place. -/
theorem opTransact_sec (cfg : Cfg K) (w w' : World K) (path : List Nat) (child : Nat) (q : K)
    (update : Bool) (sd : StratData K) (ks : List (Node K)) (s : SecData K)
    (hp : w.root.get? path = some (.strat sd ks)) (hc : w.root.get? (path ++ [child]) = some (.sec s))
    (h : opTransact cfg w (path ++ [child]) q update none = .ok w') :
    ∃ s' a, secTransact cfg sd.now sd.comm s q true none = .ok (s', a) ∧
      w'.root.get? (path ++ [child]) = some (.sec s') := by
  unfold opTransact World.modify at h
  obtain ⟨r, h1, h2⟩ := map_ok h
  obtain ⟨par', k', adjs, hf, hg, _, hsnoc⟩ := modAt_get _ _ _ _ _ _ h1 hc
  obtain ⟨psd, pks, hpar, rfl⟩ := hsnoc path child rfl
  rw [hp] at hpar; cases hpar
  dsimp only at hf
  obtain ⟨⟨s', a⟩, hs, he⟩ := map_ok hf
  have hk' : k' = .sec s' := (congrArg Prod.fst he).symm
  subst hk'
  refine ⟨s', a, hs, ?_⟩
  subst h2
  exact hg

theorem secTransact_position (cfg : Cfg K) (pn : Option Nat) (comm : K → K → K) (s : SecData K) (q : K)
    (r : SecData K × Option (Adj K)) (h : secTransact cfg pn comm s q true none = .ok r) :
    (isZero cfg.tol q = false → r.1.position = s.position + q) ∧
    (isZero cfg.tol q = true → r.1.position = s.position) := by
  unfold secTransact at h
  simp only [if_true] at h
  obtain ⟨s1, h1, h2⟩ := bind_ok h
  have hpos := secRefresh_position cfg pn s s1 h1
  refine ⟨fun hq => ?_, fun hq => ?_⟩
  · rw [(secTransactCore_ok cfg comm s1 q r hq h2).1, hpos]
  · unfold secTransactCore at h2
    simp only [hq, if_true] at h2
    cases h2; exact hpos

end ops

/-! ### every depth -/
section depth
variable {K : Type} [Field K] [LinearOrder K] [IsStrictOrderedRing K] [HasFloor K]

theorem updNode_strat_shape (cfg : Cfg K) (d : Nat) (sd : StratData K) (kids : List (Node K)) (n : Node K)
    (h : updNode cfg d (.strat sd kids) = .ok n) : ∃ sd' kids', n = .strat sd' kids' := by
  obtain ⟨kids1, acc, sd3, _, _, hn⟩ := updNode_strat_inv cfg d sd kids n h
  exact ⟨_, _, hn⟩

/-- `update` of a tree runs `update` exactly on every strategy below it; the strategy found afterwards
    at the same path is that update's result, up to the weight its parent then gives it. -/
theorem updNode_at_path (cfg : Cfg K) (d : Nat) :
    ∀ (path : List Nat) (n n' : Node K) (sd : StratData K) (kids : List (Node K)),
      updNode cfg d n = .ok n' → n.get? path = some (.strat sd kids) →
      ∃ sd1 kids1 w, updNode cfg d (.strat sd kids) = .ok (.strat sd1 kids1) ∧
        n'.get? path = some (.strat { sd1 with weight := w } kids1) := by
  intro path
  induction path with
  | nil =>
    intro n n' sd kids h hg
    rw [get?_nil] at hg; cases hg
    obtain ⟨sd1, kids1, rfl⟩ := updNode_strat_shape cfg d sd kids n' h
    exact ⟨sd1, kids1, sd1.weight, h, get?_nil _⟩
  | cons i rest ih =>
    intro n n' sd kids h hg
    cases n with
    | sec s => rw [Node.get?] at hg; cases hg
    | strat sd0 kids0 =>
      obtain ⟨sd0', kids0', rfl⟩ := updNode_strat_shape cfg d sd0 kids0 n' h
      rw [get?_cons_strat] at hg
      cases hk : kids0[i]? with
      | none => rw [hk] at hg; cases hg
      | some k =>
        rw [hk] at hg; simp only [Option.bind_some] at hg
        obtain ⟨kids1, hk', _, hstep, _⟩ := updNode_strat_spec cfg d sd0 sd0' kids0 kids0' h
        obtain ⟨k1, hk1, hcs⟩ := hstep i k hk
        cases k with
        | sec s =>
          cases rest with
          | nil => rw [get?_nil] at hg; cases hg
          | cons j r => rw [Node.get?] at hg; cases hg
        | strat sdk gk =>
          simp only [childStep] at hcs
          obtain ⟨sd1, kids1', w, hu, hg1⟩ := ih _ k1 sd kids hcs hg
          obtain ⟨d1, g1, rfl⟩ := updNode_strat_shape cfg d sdk gk k1 hcs
          rw [get?_cons_strat, hk', kidsWeights_getElem?, hk1]
          simp only [Option.map_some, Option.bind_some, weighted, Node.skipped, Bool.false_eq_true,
            if_false, Node.setWeight]
          cases rest with
          | nil =>
            rw [get?_nil] at hg1 ⊢
            cases hg1
            exact ⟨sd1, kids1', _, hu, rfl⟩
          | cons j r =>
            rw [get?_cons_strat] at hg1 ⊢
            exact ⟨sd1, kids1', w, hu, hg1⟩

end depth

/-! Concrete data over `ℚ` for the satisfiability examples. -/
section concrete

/-- a security of the given kind holding `pos`, last updated on date 0, with three-date data columns
    and rows -/
def mkS (kind : SecKind) (pos : Rat) (prices coupons : List (Option Rat))
    (costLong costShort : Option (List (Option Rat))) : SecData Rat :=
  { name := "b", kind := kind, fixedIncome := kind != .plain, integer := false, bidofferSet := false,
    mult := 1, now := some 0, price := some 1, value := pos, notl := pos, weight := 1,
    position := pos, lastPos := pos, outlayAcc := 0, bidoffer := some 0, bidofferPaid := 0,
    capital := 0, coupon := 0, holdingCost := 0, needupdate := true,
    prices := prices, bidoffers := [], coupons := coupons, costLong := costLong, costShort := costShort,
    rValue := [0, 0, 0], rPosition := [0, 0, 0], rNotl := [7, 7, 7], rOutlay := [0, 0, 0],
    rBidofferPaid := [0, 0, 0], rCoupon := [0, 0, 0], rHolding := [0, 0, 0] }

/-- what the examples look at in an updated security -/
def secView (r : Except Err (SecData Rat)) :
    Except Err (List Rat × List Rat) :=
  r.map fun s => ([s.position, s.value, s.notl, s.coupon, s.holdingCost, s.capital], s.rNotl)

/-- a strategy's own data, last updated on `now`, no commissions -/
def mkStrat (fi : Bool) (now : Option Nat) (capital value notl price : Rat) : StratData Rat :=
  { name := "s", fixedIncome := fi, bidofferSet := false, paperTrade := false, paperPx := 0,
    comm := fun _ _ => 0, now := now, capital := capital, price := price, value := value, notl := notl,
    weight := 1, netFlows := 0, lastValue := value, lastNotl := notl, lastPrice := price, lastFee := 0,
    bidofferPaid := 0, bankrupt := false,
    rPrice := [0, 0, 0], rValue := [0, 0, 0], rNotl := [0, 0, 0], rCash := [0, 0, 0], rFees := [0, 0, 0],
    rFlows := [0, 0, 0], rBidofferPaid := [0, 0, 0] }

def kidView : Node Rat → List Rat
  | .sec s => [s.capital, s.notl, s.weight, s.position, s.coupon]
  | .strat d _ => [d.capital, d.notl, d.weight]

/-- `[capital, value, notional, price]` of a strategy and `kidView` of its children -/
def nodeView (r : Except Err (Node Rat)) : Except Err (List Rat × List (List Rat)) :=
  r.map fun n => match n with
    | .strat sd ks => ([sd.capital, sd.value, sd.notl, sd.price], ks.map kidView)
    | .sec _ => ([], [])

def pxs : List (Option Rat) := [some 2, some 3, some 4]
def cps : List (Option Rat) := [some 1, some 2, some 3]

/-- children of the example strategy: a coupon bond (5, parked 10), a hedge (3, parked 2), and a flat-weight
    fixed-income security that needs no update (−2, parked 1) -/
def fiKids : List (Node Rat) :=
  [ .sec { mkS .coupon 5 pxs cps none none with capital := 10 },
    .sec { mkS .hedge 3 pxs [] none none with capital := 2 },
    .sec { mkS .fi (-2) pxs [] none none with capital := 1, needupdate := false, weight := 1/4 } ]

/-- a fixed-income strategy last updated on date 0: cash 100, value 110, notional 7, index 100 -/
def fiTree : Node Rat := .strat (mkStrat true (some 0) 100 110 7 100) fiKids

/-- a non-stale world: fixed-income strategy (notional 7) over a fixed-income security (5, weight 5/7)
    and an ordinary one (2, weight 2/7), all on date 0 -/
def rebWorld : World Rat :=
  { root := .strat (mkStrat true (some 0) 100 107 7 100)
      [ .sec { mkS .fi 5 pxs [] none none with weight := 5/7 },
        .sec { mkS .plain 2 pxs [] none none with weight := 2/7 } ],
    stale := false }

/-- positions of the root's security children and the root's cash -/
def worldView (r : Except Err (World Rat)) : Except Err (List Rat × Rat) :=
  r.map fun w => match w.root with
    | .strat sd ks => (ks.map (fun k => match k with | .sec s => s.position | .strat _ _ => 0), sd.capital)
    | .sec _ => ([], 0)

/-- the example strategy one level down, under a market-value parent -/
def deepTree : Node Rat := .strat (mkStrat false (some 0) 50 160 110 100) [fiTree]

end concrete

end Bt.FI
