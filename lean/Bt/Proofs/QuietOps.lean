import Bt.Proofs.Quiet
/-! `Quiet` is preserved by the trading primitives (`secTransactCore`, `secAllocate`, `allocNode`,
    `transNode`, `flatten`), by `kidsWeights` and by `modAt`. -/
namespace Bt
set_option linter.unusedSectionVars false
variable {K : Type} [Field K] [LinearOrder K] [IsStrictOrderedRing K] [HasFloor K]

/-! ### securities -/

/-- `transact`: nothing happens, or the position moves by `q` and the security is flagged for update;
    the marked fields are left alone either way -/
theorem secTransactCore_inv {cfg : Cfg K} {comm : K → K → K} {s s' : SecData K} {q : K} {custom : Option K}
    {a : Option (Adj K)} (h : secTransactCore cfg comm s q custom = .ok (s', a)) :
    (s' = s ∧ a = none) ∨
    (∃ oa bo, s' = { s with needupdate := true, position := s.position + q,
                            outlayAcc := s.outlayAcc + oa, bidofferPaid := s.bidofferPaid + bo } ∧
       isZero cfg.tol q = false ∧ a.isSome = true) := by
  unfold secTransactCore at h
  split at h
  · left; cases (Except.pure_eq_ok h); exact ⟨rfl, rfl⟩
  · rename_i hz
    split at h
    · cases h
    · obtain ⟨⟨full, outlay, fee, bo⟩, _, h⟩ := Except.bind_eq_ok h
      cases (Except.pure_eq_ok h)
      right; exact ⟨outlay, bo, rfl, by simpa using hz, rfl⟩

theorem secTransactCore_quiet {cfg : Cfg K} {comm : K → K → K} {s s' : SecData K} {q : K} {custom : Option K}
    {a : Option (Adj K)} (h : secTransactCore cfg comm s q custom = .ok (s', a)) (hq : SecQuiet s) :
    SecQuiet s' := by
  rcases secTransactCore_inv h with ⟨rfl, _⟩ | ⟨oa, bo, rfl, _, _⟩
  · exact hq
  · intro hn; cases hn

theorem QuietStep.refl (cfg : Cfg K) (s : SecData K) : QuietStep cfg s s :=
  ⟨fun h _ => h, rfl, fun _ _ h => h⟩

theorem secRefresh_quietStep {cfg : Cfg K} {pn : Option Nat} {s s' : SecData K}
    (h : secRefresh cfg pn s = .ok s') : QuietStep cfg s s' := by
  unfold secRefresh at h
  split at h
  · cases pn with
    | none => cases h
    | some d => exact secUpdate_quietStep h
  · cases (Except.pure_eq_ok h); exact QuietStep.refl cfg s

theorem secAllocate_quiet {cfg : Cfg K} {pn : Option Nat} {comm : K → K → K} {s s' : SecData K} {amount : K}
    {a : Option (Adj K)} (h : secAllocate cfg pn comm s amount = .ok (s', a))
    (hq : SecQuiet s) (hn : SecNoDust cfg s) : SecQuiet s' := by
  unfold secAllocate at h
  obtain ⟨s1, h1, h⟩ := Except.bind_eq_ok h
  obtain ⟨oq, _, h⟩ := Except.bind_eq_ok h
  have hq1 := (secRefresh_quietStep h1).quiet hq hn
  cases oq with
  | none => cases (Except.pure_eq_ok h); exact hq1
  | some q => exact secTransactCore_quiet h hq1

theorem secTransact_quiet {cfg : Cfg K} {pn : Option Nat} {comm : K → K → K} {s s' : SecData K} {q : K}
    {upd : Bool} {custom : Option K} {a : Option (Adj K)}
    (h : secTransact cfg pn comm s q upd custom = .ok (s', a))
    (hq : SecQuiet s) (hn : SecNoDust cfg s) : SecQuiet s' := by
  unfold secTransact at h
  obtain ⟨s1, h1, h⟩ := Except.bind_eq_ok h
  have hq1 : SecQuiet s1 := by
    cases upd
    · cases (Except.pure_eq_ok h1); exact hq
    · exact (secRefresh_quietStep h1).quiet hq hn
  exact secTransactCore_quiet h hq1

/-! ### trees: a security predicate `A` before gives `B` after -/
section Trees
variable {A B : SecData K → Prop} {cfg : Cfg K}

theorem allocNode_allSecs
    (hS : ∀ pn comm s amount s' a, A s → secAllocate cfg pn comm s amount = .ok (s', a) → B s') :
    (∀ (n : Node K) pn comm amount r, AllSecs A n → allocNode cfg pn comm amount n = .ok r → AllSecs B r.1) ∧
    (∀ (ks : List (Node K)) amount sd r, AllSecsKids A ks → allocKids cfg amount ks sd = .ok r →
      AllSecsKids B r.2) := by
  apply Node.induct
  · intro s pn comm amount r ha h
    rw [allocNode] at h
    obtain ⟨⟨s', a⟩, h1, rfl⟩ := Except.map_eq_ok h
    simp only [AllSecs_sec] at *
    exact hS _ _ _ _ _ _ ha h1
  · intro sd kids ih pn comm amount r ha h
    rw [allocNode] at h
    obtain ⟨⟨sd2, kids2⟩, h1, rfl⟩ := Except.map_eq_ok h
    simp only [AllSecs_strat] at *
    exact ih _ _ _ ha h1
  · intro amount sd r _ h
    rw [allocKids] at h
    cases (Except.pure_eq_ok h); simp
  · intro k ks ihk ihks amount sd r ha h
    rw [allocKids] at h
    obtain ⟨⟨k', adjs⟩, h1, h⟩ := Except.bind_eq_ok h
    obtain ⟨⟨sd'', ks'⟩, h2, rfl⟩ := Except.map_eq_ok h
    simp only [AllSecsKids_cons] at *
    exact ⟨ihk _ _ _ _ ha.1 h1, ihks _ _ _ ha.2 h2⟩

theorem transNode_allSecs
    (hS : ∀ pn comm s q custom s' a, A s → secTransact cfg pn comm s q true custom = .ok (s', a) → B s') :
    (∀ (n : Node K) pn comm q custom r, AllSecs A n → transNode cfg pn comm q custom n = .ok r →
      AllSecs B r.1) ∧
    (∀ (ks : List (Node K)) q sd r, AllSecsKids A ks → transKids cfg q ks sd = .ok r → AllSecsKids B r.2) := by
  apply Node.induct
  · intro s pn comm q custom r ha h
    rw [transNode] at h
    obtain ⟨⟨s', a⟩, h1, rfl⟩ := Except.map_eq_ok h
    simp only [AllSecs_sec] at *
    exact hS _ _ _ _ _ _ _ ha h1
  · intro sd kids ih pn comm q custom r ha h
    rw [transNode] at h
    obtain ⟨⟨sd2, kids2⟩, h1, rfl⟩ := Except.map_eq_ok h
    simp only [AllSecs_strat] at *
    exact ih _ _ _ ha h1
  · intro q sd r _ h
    rw [transKids] at h
    cases (Except.pure_eq_ok h); simp
  · intro k ks ihk ihks q sd r ha h
    rw [transKids] at h
    obtain ⟨⟨k', adjs⟩, h1, h⟩ := Except.bind_eq_ok h
    obtain ⟨⟨sd'', ks'⟩, h2, rfl⟩ := Except.map_eq_ok h
    simp only [AllSecsKids_cons] at *
    exact ⟨ihk _ _ _ _ _ ha.1 h1, ihks _ _ _ ha.2 h2⟩

theorem flattenKidsMV_allSecs (hAB : ∀ s, A s → B s)
    (hS : ∀ pn comm s amount s' a, A s → secAllocate cfg pn comm s amount = .ok (s', a) → B s') :
    ∀ (ks : List (Node K)) sd r, AllSecsKids A ks → flattenKidsMV cfg ks sd = .ok r → AllSecsKids B r.2 := by
  intro ks
  induction ks with
  | nil =>
    intro sd r _ h
    rw [flattenKidsMV] at h
    cases (Except.pure_eq_ok h); simp
  | cons k ks ih =>
    intro sd r ha h
    rw [flattenKidsMV] at h
    simp only [AllSecsKids_cons] at ha
    split at h
    · obtain ⟨⟨sd'', ks'⟩, h2, rfl⟩ := Except.map_eq_ok h
      simp only [AllSecsKids_cons]
      exact ⟨(AllSecs.mono hAB).1 k ha.1, ih _ _ ha.2 h2⟩
    · obtain ⟨⟨k', adjs⟩, h1, h⟩ := Except.bind_eq_ok h
      obtain ⟨⟨sd'', ks'⟩, h2, rfl⟩ := Except.map_eq_ok h
      simp only [AllSecsKids_cons]
      exact ⟨(allocNode_allSecs hS).1 _ _ _ _ _ ha.1 h1, ih _ _ ha.2 h2⟩

theorem flattenKidsFI_allSecs (hAB : ∀ s, A s → B s)
    (hS : ∀ pn comm s q custom s' a, A s → secTransact cfg pn comm s q true custom = .ok (s', a) → B s') :
    ∀ (ks : List (Node K)) sd r, AllSecsKids A ks → flattenKidsFI cfg ks sd = .ok r → AllSecsKids B r.2 := by
  intro ks
  induction ks with
  | nil =>
    intro sd r _ h
    rw [flattenKidsFI] at h
    cases (Except.pure_eq_ok h); simp
  | cons k ks ih =>
    intro sd r ha h
    cases k with
    | strat sdk kk => rw [flattenKidsFI] at h; cases h
    | sec s =>
      rw [flattenKidsFI] at h
      simp only [AllSecsKids_cons, AllSecs_sec] at ha
      split at h
      · obtain ⟨⟨sd'', ks'⟩, h2, rfl⟩ := Except.map_eq_ok h
        simp only [AllSecsKids_cons, AllSecs_sec]
        exact ⟨hAB s ha.1, ih _ _ ha.2 h2⟩
      · obtain ⟨⟨s', adj⟩, h1, h⟩ := Except.bind_eq_ok h
        obtain ⟨⟨sd'', ks'⟩, h2, rfl⟩ := Except.map_eq_ok h
        simp only [AllSecsKids_cons, AllSecs_sec]
        exact ⟨hS _ _ _ _ _ _ _ ha.1 h1, ih _ _ ha.2 h2⟩

theorem flattenStrat_allSecs (hAB : ∀ s, A s → B s)
    (hSa : ∀ pn comm s amount s' a, A s → secAllocate cfg pn comm s amount = .ok (s', a) → B s')
    (hSt : ∀ pn comm s q custom s' a, A s → secTransact cfg pn comm s q true custom = .ok (s', a) → B s')
    {sd : StratData K} {kids : List (Node K)} {r : StratData K × List (Node K)}
    (ha : AllSecsKids A kids) (h : flattenStrat cfg sd kids = .ok r) : AllSecsKids B r.2 := by
  unfold flattenStrat at h
  split at h
  · exact flattenKidsFI_allSecs hAB hSt _ _ _ ha h
  · exact flattenKidsMV_allSecs hAB hSa _ _ _ ha h

theorem AllSecsKids.getElem? {S : SecData K → Prop} {l : List (Node K)} (h : AllSecsKids S l) {i : Nat}
    {k : Node K} (hk : l[i]? = some k) : AllSecs S k :=
  h.mem k (List.mem_of_getElem? hk)

theorem AllSecsKids.set {S : SecData K → Prop} : ∀ {l : List (Node K)} (i : Nat) {k : Node K},
    AllSecsKids S l → AllSecs S k → AllSecsKids S (l.set i k) := by
  intro l
  induction l with
  | nil => intro i k h _; simp
  | cons x xs ih =>
    intro i k h hk
    simp only [AllSecsKids_cons] at h
    cases i with
    | zero => simp only [List.set_cons_zero, AllSecsKids_cons]; exact ⟨hk, h.2⟩
    | succ j => simp only [List.set_cons_succ, AllSecsKids_cons]; exact ⟨h.1, ih j h.2 hk⟩

/-- an operation applied at a path: if it turns `A` into `B` at the addressed node, so does `modAt`
    on the whole tree (`A → B` pointwise covers the untouched siblings) -/
theorem modAt_allSecs (hAB : ∀ s, A s → B s) {f : Option (StratData K) → Node K → Except Err (OpRes K)}
    (hf : ∀ par n r, AllSecs A n → f par n = .ok r → AllSecs B r.1) :
    ∀ (path : List Nat) par (n : Node K) r, AllSecs A n → modAt f path par n = .ok r → AllSecs B r.1 := by
  intro path
  induction path with
  | nil => intro par n r ha h; rw [modAt] at h; exact hf par n r ha h
  | cons i rest ih =>
    intro par n r ha h
    cases n with
    | sec s => rw [modAt] at h; cases h
    | strat sd kids =>
      rw [modAt] at h
      split at h
      · cases h
      · rename_i k hk
        obtain ⟨⟨k', adjs, st⟩, h1, rfl⟩ := Except.map_eq_ok h
        simp only [AllSecs_strat] at *
        exact AllSecsKids.set i ((AllSecs.mono hAB).2 _ ha) (ih _ _ _ (ha.getElem? hk) h1)

end Trees

/-- the combined invariant: quiet flags and dust-free positions -/
def SecQD (cfg : Cfg K) (s : SecData K) : Prop := SecQuiet s ∧ SecNoDust cfg s

theorem allocNode_quiet {cfg : Cfg K} {pn : Option Nat} {comm : K → K → K} {amount : K} {n : Node K}
    {r : Node K × List (Adj K)} (h : allocNode cfg pn comm amount n = .ok r)
    (hq : Quiet n) (hn : NoDust cfg n) : Quiet r.1 :=
  (allocNode_allSecs (A := SecQD cfg) (B := SecQuiet)
    (fun _ _ _ _ _ _ ha h => secAllocate_quiet h ha.1 ha.2)).1 n pn comm amount r (AllSecs.and.1 n hq hn) h

theorem transNode_quiet {cfg : Cfg K} {pn : Option Nat} {comm : K → K → K} {q : K} {custom : Option K}
    {n : Node K} {r : Node K × List (Adj K)} (h : transNode cfg pn comm q custom n = .ok r)
    (hq : Quiet n) (hn : NoDust cfg n) : Quiet r.1 :=
  (transNode_allSecs (A := SecQD cfg) (B := SecQuiet)
    (fun _ _ _ _ _ _ _ ha h => secTransact_quiet h ha.1 ha.2)).1 n pn comm q custom r (AllSecs.and.1 n hq hn) h

theorem flattenStrat_quiet {cfg : Cfg K} {sd : StratData K} {kids : List (Node K)}
    {r : StratData K × List (Node K)} (h : flattenStrat cfg sd kids = .ok r)
    (hq : Quiet (.strat sd kids)) (hn : NoDust cfg (.strat sd kids)) : Quiet (.strat r.1 r.2) := by
  have ha := AllSecs.and.1 _ hq hn
  simp only [Quiet, AllSecs_strat] at *
  exact flattenStrat_allSecs (A := SecQD cfg) (B := SecQuiet) (fun _ h => h.1)
    (fun _ _ _ _ _ _ ha h => secAllocate_quiet h ha.1 ha.2)
    (fun _ _ _ _ _ _ _ ha h => secTransact_quiet h ha.1 ha.2) ha h

theorem kidsWeights_allSecs {S : SecData K → Prop} (hw : ∀ s w, S s → S { s with weight := w })
    (cfg : Cfg K) (fi : Bool) (val notl : K) :
    ∀ (kids : List (Node K)), AllSecsKids S kids → AllSecsKids S (kidsWeights cfg fi val notl kids) := by
  intro kids
  induction kids with
  | nil => intro h; simp [kidsWeights]
  | cons k ks ih =>
    intro h
    rw [kidsWeights_eq_map, List.map_cons]
    simp only [AllSecsKids_cons] at *
    refine ⟨?_, ih h.2⟩
    unfold reweigh
    split
    · exact h.1
    · cases k with
      | sec s => simp only [Node.setWeight, AllSecs_sec] at *; exact hw _ _ h.1
      | strat sd kk => simp only [Node.setWeight, AllSecs_strat] at *; exact h.1

theorem kidsWeights_quiet (cfg : Cfg K) (fi : Bool) (val notl : K) (kids : List (Node K))
    (h : AllSecsKids SecQuiet kids) : AllSecsKids SecQuiet (kidsWeights cfg fi val notl kids) :=
  kidsWeights_allSecs (fun _ _ h => h) cfg fi val notl kids h

end Bt
