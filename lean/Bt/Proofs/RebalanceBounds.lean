import Bt.Proofs.RebalanceCostsMain
/-! C06 with costs / at any path, part 5: what the sizing exits mean for a child's distance to its target
    (fractional units, whole units, no costs, closing), sums over the targets, and the outcome after the
    closing update. -/
set_option linter.unusedSectionVars false
namespace Bt.P06
open Bt Bt.Rebal

variable {K : Type} [Field K] [LinearOrder K] [IsStrictOrderedRing K] [HasFloor K]

/-! ### the amount a job allocates -/

theorem planN_target (cfg : Cfg K) (V : K) (s : SecData K) (wt : K) (hz : isZero cfg.tol wt = false)
    (hw : s.weight * V = s.value) : planN cfg V (.sec s) (some wt) = some (wt * V - s.value) := by
  simp only [planN, hz, Bool.false_eq_true, ↓reduceIte, Node.weight, sub_mul, hw]

theorem planN_negl (cfg : Cfg K) (V : K) (s : SecData K) (wt : K) (hz : isZero cfg.tol wt = true) :
    planN cfg V (.sec s) (some wt) = planN cfg V (.sec s) none := by
  simp only [planN, hz, ↓reduceIte]

/-! ### closing a child -/

/-- A closing job (a child that is not a target, or whose scaled target weight is negligible): the whole
    position is sold when value and position are above `TOL`, otherwise nothing is traded; never a partial
    trade. The closing trade is the unchecked `q == −position` skip: whatever it costs is paid. -/
theorem closed_outcome (cfg : Cfg K) (comm : K → K → K) (d : Nat) (V : K) (s : SecData K) (q : K)
    (htol : 0 < cfg.tol) (hr : RSec d s) (h : PlanSized cfg comm V s none q) :
    (q = 0 ∨ q = -s.position) ∧
    (isZero cfg.tol s.value = false → isZero cfg.tol s.position = false → q = -s.position) ∧
    (isZero cfg.tol s.value = true ∨ isZero cfg.tol s.position = true → q = 0) := by
  unfold PlanSized at h
  simp only [planN, closeAmtN, Node.value] at h
  by_cases hv : eqA s.value 0 = true
  · simp only [hv, ↓reduceIte] at h
    have hv0 : s.value = 0 := (Alloc.eqA_iff _ _).1 hv
    refine ⟨Or.inl h, fun h1 => ?_, fun _ => h⟩
    rw [hv0, isZero_zero cfg htol] at h1; cases h1
  · have hv : eqA s.value 0 = false := by simpa using hv
    simp only [hv, Bool.false_eq_true, ↓reduceIte] at h
    obtain ⟨oq, hq, hcase⟩ := h
    have hq0 : allocQ0 cfg s (px s) (-s.value) = -s.position := by
      unfold allocQ0; simp [isZero_zero cfg htol]
    -- what `allocQuantity` returns on `-value`
    have hoq : (isZero cfg.tol s.value = true ∨ isZero cfg.tol s.position = true → oq = none) ∧
        (oq = none ∨ oq = some (-s.position)) := by
      by_cases hz : isZero cfg.tol (-s.value) = true
      · have : allocQuantity cfg comm s (-s.value) = .ok none := by
          unfold allocQuantity; simp [hz]; rfl
        rw [this] at hq; cases hq
        exact ⟨fun _ => rfl, Or.inl rfl⟩
      · have hz : isZero cfg.tol (-s.value) = false := by simpa using hz
        cases hp : s.price with
        | none => rw [hr.price] at hp; cases hp
        | some p =>
          have hpp : p = px s := by rw [hr.price] at hp; cases hp; rfl
          subst hpp
          by_cases hpz : isZero cfg.tol (px s) = true
          · unfold allocQuantity at hq
            simp [hz, hp, hpz] at hq
          · have hpz : isZero cfg.tol (px s) = false := by simpa using hpz
            by_cases hpos : isZero cfg.tol s.position = true
            · rw [Alloc.allocQuantity_q0_zero cfg comm s _ (px s) hz hp hpz
                (by rw [hq0, Alloc.isZero_neg]; exact hpos)] at hq
              cases hq
              exact ⟨fun _ => rfl, Or.inl rfl⟩
            · have hpos : isZero cfg.tol s.position = false := by simpa using hpos
              rw [Alloc.allocQuantity_skip cfg comm s _ (px s) hz hp hpz
                (by rw [hq0, Alloc.isZero_neg]; exact hpos) hq0] at hq
              cases hq
              refine ⟨?_, Or.inr rfl⟩
              rintro (h1 | h1)
              · rw [Alloc.isZero_neg, h1] at hz; cases hz
              · rw [h1] at hpos; cases hpos
    have hq' : q = 0 ∨ q = -s.position := by
      rcases hcase with ⟨rfl, _⟩ | ⟨_, rfl, _⟩
      · exact Or.inl rfl
      · rcases hoq.2 with h0 | h0
        · cases h0
        · right; cases h0; rfl
    refine ⟨hq', ?_, ?_⟩
    · intro h1 h2
      rcases hcase with ⟨rfl, hn | ⟨q0, rfl, hz0⟩⟩ | ⟨_, rfl, _⟩
      · -- nothing returned although value and position are above TOL: impossible
        exfalso
        subst hn
        have hz : isZero cfg.tol (-s.value) = false := by rw [Alloc.isZero_neg]; exact h1
        have hpz : isZero cfg.tol (px s) = false := by
          by_contra hpz
          have hpz : isZero cfg.tol (px s) = true := by simpa using hpz
          unfold allocQuantity at hq
          simp [hz, hr.price, hpz] at hq
        rw [Alloc.allocQuantity_skip cfg comm s _ (px s) hz hr.price hpz
          (by rw [hq0, Alloc.isZero_neg]; exact h2) hq0] at hq
        cases hq
      · exfalso
        rcases hoq.2 with h0 | h0
        · cases h0
        · cases h0
          rw [Alloc.isZero_neg, h2] at hz0; cases hz0
      · rcases hoq.2 with h0 | h0
        · cases h0
        · cases h0; rfl
    · intro h1
      have := hoq.1 h1
      subst this
      rcases hcase with ⟨rfl, _⟩ | ⟨_, h0, _⟩
      · rfl
      · cases h0

/-! ### fractional units: the target is missed by the costs booked, up to `isclose` -/

/-- A rebalancing job with a non-negligible weight on a fractional security whose cached weight is its value
    share of the base `V` (`a = wt·V − value` is allocated): nothing is traded; or the position is closed
    through the `q == −position` shortcut because the target value `wt·V` is below `TOL`; or the sizing search
    returned a quantity whose full outlay is `isclose` to `a` — then the new worth misses the target `wt·V` by
    exactly the cost booked for this trade (half-spread + commission), up to `atol + TOL·|a|`. -/
theorem target_frac_bound (cfg : Cfg K) (comm : K → K → K) (d : Nat) (V : K) (s : SecData K) (wt q : K)
    (htol : 0 < cfg.tol) (hr : RSec d s) (hint : s.integer = false)
    (hz : isZero cfg.tol wt = false) (hw : s.weight * V = s.value)
    (h : PlanSized cfg comm V s (some wt) q) :
    q = 0 ∨ (q = -s.position ∧ |wt * V| < cfg.tol) ∨
    (isZero cfg.tol q = false ∧
      |(s.position + q) * px s * s.mult - wt * V + costOf cfg comm s q|
        ≤ cfg.atol + cfg.tol * |wt * V - s.value|) := by
  unfold PlanSized at h
  rw [planN_target cfg V s wt hz hw] at h
  obtain ⟨oq, _, ⟨rfl, _⟩ | ⟨hqz, _, hsk | hcl | hbr⟩⟩ := h
  · exact Or.inl rfl
  · right; left
    obtain ⟨e1, e2⟩ := hsk
    refine ⟨e1, ?_⟩
    have hq0 : q ≠ 0 := ne_zero_of_isZero_false htol hqz
    unfold allocQ0 at e2
    by_cases hc : isZero cfg.tol (wt * V - s.value + s.value) = true
    · rw [sub_add_cancel] at hc
      exact (Alloc.isZero_iff _ _).1 hc
    · exfalso
      have hc' : isZero cfg.tol (wt * V - s.value + s.value) = false := by simpa using hc
      simp only [hc', Bool.false_eq_true, ↓reduceIte, hint] at e2
      have hpm : px s * s.mult ≠ 0 := by
        intro h0
        rw [h0, div_zero] at e2
        apply hq0
        rw [e1, ← e2]
      have ha : wt * V - s.value = -s.position * (px s * s.mult) := by
        rw [← e2, div_mul_cancel₀ _ hpm]
      rw [ha, hr.val] at hc'
      have : -s.position * (px s * s.mult) + s.position * px s * s.mult = 0 := by ring
      rw [this, isZero_zero cfg htol] at hc'
      cases hc'
  · right; right
    have hq0 : q ≠ 0 := ne_zero_of_isZero_false htol hqz
    refine ⟨hqz, ?_⟩
    rw [outF_eq cfg comm s q hq0] at hcl
    have : (s.position + q) * px s * s.mult - wt * V + costOf cfg comm s q =
        q * px s * s.mult + costOf cfg comm s q - (wt * V - s.value) := by
      rw [hr.val]; ring
    rw [this]; exact hcl
  · rw [hint] at hbr; cases hbr.1

/-! ### no costs: the target is reached exactly -/

/-- A rebalancing job on a fractional, cost-free, up-to-date security whose trade is not swallowed by `TOL`
    (`TargetExact`): the new worth is exactly `wt·V`, and nothing is booked. -/
theorem target_exact_nocost (cfg : Cfg K) (comm : K → K → K) (d : Nat) (V : K) (s : SecData K) (wt q : K)
    (hatol : 0 ≤ cfg.atol) (htol : 0 < cfg.tol) (hn : NiceSec cfg d s) (hcomm : ∀ q x, comm q x = 0)
    (hw : s.weight * V = s.value) (hx : TargetExact cfg V s wt)
    (h : PlanSized cfg comm V s (some wt) q) :
    (s.position + q) * px s * s.mult = wt * V ∧ costOf cfg comm s q = 0 := by
  obtain ⟨hz, hc⟩ := hx
  unfold PlanSized at h
  rw [planN_target cfg V s wt hz hw] at h
  obtain ⟨oq, hq, hcase⟩ := h
  rw [allocQuantity_nocost cfg comm s _ (px s) hatol htol hn.frac hn.price hn.pnz hn.bo hcomm hn.mnz] at hq
  have hcost : ∀ x, costOf cfg comm s x = 0 := by
    intro x
    simp only [costOf, spreadOf, feeOf, boOf, hn.bo, Option.getD_some, hcomm]
    split <;> ring
  refine ⟨?_, hcost q⟩
  rcases hc with h0 | ⟨h1, h2, h3⟩
  · rw [h0] at hq
    have : niceQ cfg s (px s) 0 = none := by unfold niceQ; simp [isZero_zero cfg htol]
    rw [this] at hq
    cases hq
    rcases hcase with ⟨rfl, _⟩ | ⟨_, h', _⟩
    · rw [add_zero, ← hn.val]; linear_combination -h0
    · cases h'
  · have hn' : niceQ cfg s (px s) (wt * V - s.value) = some ((wt * V - s.value) / (px s * s.mult)) := by
      unfold niceQ
      simp only [h1, sub_add_cancel, h2, h3, Bool.false_eq_true, ↓reduceIte]
    rw [hn'] at hq
    cases hq
    rcases hcase with ⟨rfl, h' | ⟨q0, h', hz0⟩⟩ | ⟨_, h', _⟩
    · cases h'
    · cases h'; rw [h3] at hz0; cases hz0
    · cases h'
      rw [add_mul, add_mul, mul_assoc ((wt * V - s.value) / (px s * s.mult)), div_mul_cancel₀ _ hn.mnz,
        ← hn.val]
      ring

/-! ### whole units: within the outlay of one more unit -/

/-- the full outlay of one more unit on top of `q` -/
def unitOutlay (cfg : Cfg K) (comm : K → K → K) (s : SecData K) (q : K) : K :=
  outF cfg comm s (q + 1) - outF cfg comm s q

/-- one more unit costs at most its value plus half the spread plus the change of the commission -/
theorem unitOutlay_le (cfg : Cfg K) (comm : K → K → K) (s : SecData K) (q : K) :
    unitOutlay cfg comm s q ≤ px s * s.mult + |cfg.half * boOf s * s.mult| +
      |comm (q + 1) (px s * s.mult) - comm q (px s * s.mult)| := by
  unfold unitOutlay outF Alloc.fullOutF
  rw [Alloc.absA_eq_abs, Alloc.absA_eq_abs]
  have h1 : (|q + 1| - |q|) * (cfg.half * boOf s * s.mult) ≤ |cfg.half * boOf s * s.mult| := by
    have hle : |(|q + 1| - |q|)| ≤ 1 := by
      calc |(|q + 1| - |q|)| ≤ |q + 1 - q| := abs_abs_sub_abs_le_abs_sub _ _
        _ = 1 := by simp
    calc (|q + 1| - |q|) * (cfg.half * boOf s * s.mult)
        ≤ |(|q + 1| - |q|) * (cfg.half * boOf s * s.mult)| := le_abs_self _
      _ = |(|q + 1| - |q|)| * |cfg.half * boOf s * s.mult| := abs_mul _ _
      _ ≤ 1 * |cfg.half * boOf s * s.mult| := mul_le_mul_of_nonneg_right hle (abs_nonneg _)
      _ = _ := one_mul _
  have h2 := le_abs_self (comm (q + 1) (px s * s.mult) - comm q (px s * s.mult))
  nlinarith

section whole
variable [FloorRing K]

/-- A rebalancing job with a non-negligible weight on a whole-unit security holding a whole number of units
    (`floorA`/`ceilA` the real floor and ceiling), cached weight = value share of `V`: nothing is traded; or the
    position is closed through the unchecked `q == −position` skip (target below `TOL`, or `−position` happens
    to be the rounded quantity: within one unit's value, costs not counted); or the outlay is `isclose` to the
    amount (distance = cost booked, up to the tolerance); or the whole quantity `q` is such that the new worth
    plus the cost booked is below the target by less than the full outlay of one more unit. -/
theorem target_int_bound (hfloor : ∀ x : K, floorA x = (⌊x⌋ : K)) (hceil : ∀ x : K, ceilA x = (⌈x⌉ : K))
    (cfg : Cfg K) (comm : K → K → K) (d : Nat) (V : K) (s : SecData K) (wt q : K)
    (htol : 0 < cfg.tol) (hr : RSec d s) (hint : s.integer = true)
    (hz : isZero cfg.tol wt = false) (hw : s.weight * V = s.value) (hwhole : ∃ z : ℤ, s.position = (z : K))
    (h : PlanSized cfg comm V s (some wt) q) :
    q = 0 ∨
    (q = -s.position ∧ (|wt * V| < cfg.tol ∨
      |(s.position + q) * px s * s.mult - wt * V| < |px s * s.mult|)) ∨
    (isZero cfg.tol q = false ∧
      |(s.position + q) * px s * s.mult - wt * V + costOf cfg comm s q|
        ≤ cfg.atol + cfg.tol * |wt * V - s.value|) ∨
    (isZero cfg.tol q = false ∧ (∃ n : ℤ, q = (n : K)) ∧
      outF cfg comm s q < wt * V - s.value ∧ wt * V - s.value < outF cfg comm s (q + 1) ∧
      -unitOutlay cfg comm s q < (s.position + q) * px s * s.mult - wt * V + costOf cfg comm s q ∧
      (s.position + q) * px s * s.mult - wt * V + costOf cfg comm s q < 0) := by
  unfold PlanSized at h
  rw [planN_target cfg V s wt hz hw] at h
  obtain ⟨oq, hq, ⟨rfl, _⟩ | ⟨hqz, rfl, hsk | hcl | hbr⟩⟩ := h
  · exact Or.inl rfl
  · right; left
    obtain ⟨e1, e2⟩ := hsk
    refine ⟨e1, ?_⟩
    have hq0 : q ≠ 0 := ne_zero_of_isZero_false htol hqz
    unfold allocQ0 at e2
    by_cases hc : isZero cfg.tol (wt * V - s.value + s.value) = true
    · left
      rw [sub_add_cancel] at hc
      exact (Alloc.isZero_iff _ _).1 hc
    · right
      have hc' : isZero cfg.tol (wt * V - s.value + s.value) = false := by simpa using hc
      simp only [hc', Bool.false_eq_true, ↓reduceIte, hint] at e2
      have hpm : px s * s.mult ≠ 0 := by
        intro h0
        rw [h0, div_zero] at e2
        apply hq0
        rw [e1, ← e2]
        split <;> simp [hfloor, hceil]
      have hnear : |q - (wt * V - s.value) / (px s * s.mult)| < 1 := by
        rw [e1, ← e2]
        split
        · rw [hfloor]
          have h1 := Int.floor_le ((wt * V - s.value) / (px s * s.mult))
          have h2 := Int.lt_floor_add_one ((wt * V - s.value) / (px s * s.mult))
          rw [abs_lt]; constructor <;> linarith
        · rw [hceil]
          have h1 := Int.le_ceil ((wt * V - s.value) / (px s * s.mult))
          have h2 := Int.ceil_lt_add_one ((wt * V - s.value) / (px s * s.mult))
          rw [abs_lt]; constructor <;> linarith
      have : (s.position + q) * px s * s.mult - wt * V =
          (q - (wt * V - s.value) / (px s * s.mult)) * (px s * s.mult) := by
        rw [sub_mul, div_mul_cancel₀ _ hpm, hr.val]; ring
      rw [this, abs_mul]
      calc _ < 1 * |px s * s.mult| := mul_lt_mul_of_pos_right hnear (abs_pos.2 hpm)
        _ = _ := one_mul _
  · right; right; left
    have hq0 : q ≠ 0 := ne_zero_of_isZero_false htol hqz
    refine ⟨hqz, ?_⟩
    rw [outF_eq cfg comm s q hq0] at hcl
    have : (s.position + q) * px s * s.mult - wt * V + costOf cfg comm s q =
        q * px s * s.mult + costOf cfg comm s q - (wt * V - s.value) := by
      rw [hr.val]; ring
    rw [this]; exact hcl
  · right; right; right
    obtain ⟨_, hlt, hgt⟩ := hbr
    have hq0 : q ≠ 0 := ne_zero_of_isZero_false htol hqz
    have hint' : ∃ n : ℤ, q = (n : K) := by
      obtain ⟨_, p, hp, _, _, hcs⟩ := Alloc.allocQuantity_some cfg comm s _ q hq
      rw [hr.price] at hp
      cases hp
      rcases hcs with ⟨_, e⟩ | ⟨hne, _⟩
      · obtain ⟨z, hzp⟩ := hwhole
        exact ⟨-z, by rw [e, hzp]; push_cast; rfl⟩
      · refine C05.alloc_integer_quantity_is_integer hfloor hceil cfg comm s _ q hint ?_ hq
        by_contra hc
        have hc : isZero cfg.tol (wt * V - s.value + s.value) = true := by simpa using hc
        apply hne
        unfold allocQ0; simp only [hc, ↓reduceIte]
    have e : (s.position + q) * px s * s.mult - wt * V + costOf cfg comm s q =
        outF cfg comm s q - (wt * V - s.value) := by
      rw [outF_eq cfg comm s q hq0, hr.val]; ring
    refine ⟨hqz, hint', hlt, hgt, ?_, ?_⟩
    · rw [e, unitOutlay]; linarith
    · rw [e]; linarith

/-- …and under an outlay strictly increasing over whole quantities (`C05.outlay_strictMono_int`,
    `C05.outlay_strictMono`), the bracketing quantity is affordable and no larger whole quantity is. -/
theorem bracket_maximal (cfg : Cfg K) (comm : K → K → K) (s : SecData K) (a q : K) (n : ℤ)
    (hmono : StrictMono (fun z : ℤ => outF cfg comm s (z : K)))
    (hq : q = (n : K)) (h1 : outF cfg comm s q < a) (h2 : a < outF cfg comm s (q + 1)) :
    outF cfg comm s q ≤ a ∧ ∀ z : ℤ, outF cfg comm s (z : K) ≤ a → (z : K) ≤ q :=
  C05.alloc_integer_maximal (outF cfg comm s) hmono a q n hq h1 h2

end whole

/-! ### sums over lists of children -/

theorem zipWith_get {α β : Type} (f : α → β → K) : ∀ (as : List α) (bs : List β) (i : Nat) (a : α) (b : β),
    as[i]? = some a → bs[i]? = some b → (List.zipWith f as bs)[i]? = some (f a b)
  | [], _, i, a, b, h, _ => by simp at h
  | _ :: _, [], i, a, b, _, h => by simp at h
  | x :: as, y :: bs, 0, a, b, ha, hb => by
    simp only [List.getElem?_cons_zero, Option.some.injEq] at ha hb
    subst ha hb
    simp
  | x :: as, y :: bs, i + 1, a, b, ha, hb => by
    simp only [List.getElem?_cons_succ] at ha hb
    simp only [List.zipWith_cons_cons, List.getElem?_cons_succ]
    exact zipWith_get f as bs i a b ha hb

theorem zipWith_length' {α β : Type} (f : α → β → K) : ∀ (as : List α) (bs : List β),
    bs.length = as.length → (List.zipWith f as bs).length = as.length
  | [], _, _ => by simp
  | _ :: _, [], h => by simp at h
  | x :: as, y :: bs, h => by
    simp only [List.zipWith_cons_cons, List.length_cons]
    rw [zipWith_length' f as bs (by simpa using h)]

theorem sum_map_congr_idx {α : Type} (f g : α → K) : ∀ (l1 l2 : List α), l2.length = l1.length →
    (∀ (i : Nat) (a : α), l1[i]? = some a → ∃ b, l2[i]? = some b ∧ g b = f a) →
    (l2.map g).sum = (l1.map f).sum
  | [], l2, hl, _ => by
    have : l2 = [] := List.eq_nil_of_length_eq_zero (by simpa using hl)
    rw [this]; rfl
  | a :: l1, [], hl, _ => by simp at hl
  | a :: l1, b :: l2, hl, h => by
    obtain ⟨b', hb', e⟩ := h 0 a (by simp)
    simp only [List.getElem?_cons_zero, Option.some.injEq] at hb'
    subst hb'
    have ih := sum_map_congr_idx f g l1 l2 (by simpa using hl) (fun i x hx => by
      have := h (i + 1) x (by simpa using hx)
      simpa using this)
    simp only [List.map_cons, List.sum_cons, ih, e]

/-- the entries a list of distinct indices picks out of a list of non-negative numbers add up to at most the
    whole list -/
theorem sum_picked_le : ∀ (T : List Nat) (L : List K), T.Nodup → (∀ x ∈ L, 0 ≤ x) →
    (∀ i ∈ T, i < L.length) → (T.map fun i => L[i]?.getD 0).sum ≤ L.sum
  | [], L, _, hL, _ => by
    simp only [List.map_nil, List.sum_nil]
    exact List.sum_nonneg hL
  | i :: rest, L, hnd, hL, hlt => by
    have hi : i ∉ rest := (List.nodup_cons.1 hnd).1
    have hil : i < L.length := hlt i List.mem_cons_self
    have hLi : L[i]? = some L[i] := List.getElem?_eq_getElem hil
    have ih := sum_picked_le rest (L.set i 0) (List.nodup_cons.1 hnd).2
      (by
        intro x hx
        rcases List.mem_or_eq_of_mem_set hx with hx | rfl
        · exact hL x hx
        · exact le_refl _)
      (by intro j hj; rw [List.length_set]; exact hlt j (List.mem_cons_of_mem _ hj))
    rw [list_sum_set L i L[i] 0 hLi] at ih
    have hsame : (rest.map fun j => (L.set i 0)[j]?.getD 0) = rest.map fun j => L[j]?.getD 0 := by
      apply List.map_congr_left
      intro j hj
      have hne : i ≠ j := fun e => hi (e ▸ hj)
      rw [List.getElem?_set_ne hne]
    rw [hsame] at ih
    simp only [List.map_cons, List.sum_cons, hLi, Option.getD_some]
    linarith

end Bt.P06
