import Bt.Algos.ProgramX
import Bt.Proofs.Program
import Bt.Proofs.ProgramEx
import Bt.Proofs.ProgramF
import Bt.Props.C14
/-! Whole programs, extended (`Bt.Algos.ProgramX`, namespace `Bt.Prog`): helper lemmas for the program-level
    instances of C04 (no look-ahead), C09 (shadow copy = stand-alone backtest) and C16 (bankruptcy flags) over

    * `progRunX` — stacks `[RunPeriod, selection algos of C14 …, WeighEqually | WeighSpecified, Rebalance]` whose
      selectors are evaluated on the strategy's universe as a `Select.Table` (`tableOf`), and
    * `GTree` / `treeRunG` / `SimG` — trees and nested backtests whose nodes carry *arbitrary* run functions.

    The generic part: any property `P` of run functions that holds of "do nothing" and is closed under sequential
    composition passes from the node functions of a `GTree` (each at its own path: `AllNodes P t path`) to
    `treeRunG t path` (`treeRunG_closed`).  Instances: `RunCAll` (a sequence of public calls on every world, for
    every clock predicate), `P04.RunPublic`, `P16.RunPublic`, `P04.Causal ∧ P04.RunPublic`,
    `P04.CausalStrong ∧ RunCAll`, "the identity at row `d`".
    The fixed-shape programs of `Bt.Algos.Program` are the instance `embed` / `embedSim`. -/
set_option linter.unusedSectionVars false
set_option linter.unusedVariables false
namespace Bt.PProgX
open Bt Bt.P08 Bt.P04 Bt.Prog Bt.PProg Bt.PProgF Bt.Select

/-! ### the universe as a table: rows `0..d` only -/

section table
variable {K : Type} [Field K] [LinearOrder K] [IsStrictOrderedRing K] [HasFloor K]

/-- a cell of the universe at a row `r ≤ t` is the same on the data truncated after `t` -/
theorem colCell_trunc {r t : Nat} (hr : r ≤ t) (d : Nat) (k : Node K) :
    colCell r d (k.trunc t) = colCell r d k := by
  cases k with
  | sec s => exact cell_take s.prices hr
  | strat sd ks => rfl

/-- **the table a strategy's selectors see at row `d ≤ t`** is built from rows `0..d` only -/
theorem tableOf_truncL {d t : Nat} (h : d ≤ t) (ucols : List Nat) (kids : List (Node K)) :
    tableOf ucols (Node.truncL t kids) d = tableOf ucols kids d := by
  unfold tableOf
  congr 1
  refine List.map_congr_left fun r hr => ?_
  have hrt : r ≤ t := by
    have := List.mem_range.1 hr
    omega
  refine List.map_congr_left fun i _ => ?_
  rw [truncL_getElem?]
  cases kids[i]? with
  | none => rfl
  | some k => exact colCell_trunc hrt d k

theorem tableOf_rows_length (ucols : List Nat) (kids : List (Node K)) (d : Nat) :
    (tableOf ucols kids d).rows.length = d + 1 := by
  simp [tableOf]

/-- the table holds nothing after the current row: it is its own `Table.truncate d` (the prefix C14's
    `*_no_lookahead` theorems speak about) -/
theorem tableOf_truncate (ucols : List Nat) (kids : List (Node K)) (d : Nat) :
    (tableOf ucols kids d).truncate d = tableOf ucols kids d := by
  unfold Table.truncate
  rw [List.take_of_length_le (by rw [tableOf_rows_length])]

end table

/-! ### the selection algos read the table through its prefix `Table.truncate now` (C14) -/

section sel
variable {K : Type} [Field K] [LinearOrder K] [IsStrictOrderedRing K] [HasNatFloor K]

theorem selectMomentum_no_lookahead (t : Table Nat K) (now : Nat) (win : Option (Nat × Nat))
    (prior : Option (List Nat)) (n : NSpec K) (asc aon : Bool) :
    selectMomentum (t.truncate now) now win prior n asc aon = selectMomentum t now win prior n asc aon := by
  unfold selectMomentum
  rw [C14.totalReturn_no_lookahead]

/-- one selection algo on any table `t` (of any length) is a function of `t.truncate d` -/
theorem selStep_no_lookahead (t : Table Nat K) (d : Nat) (prior : Option (List Nat)) (s : SelStep K) :
    selStep (t.truncate d) d prior s = selStep t d prior s := by
  cases s with
  | all nd neg => simp only [selStep, C14.selectAll_no_lookahead]
  | these idx nd neg => simp only [selStep, C14.selectThese_no_lookahead]
  | hasData lo mc nd neg => simp only [selStep, C14.hasData_no_lookahead]
  | momentum win n asc aon => simp only [selStep, selectMomentum_no_lookahead]
  | where_ scols rows nd neg => simp only [selStep, C14.selectWhere_no_lookahead]
  | statN scols rows n asc aon fs => rfl
  | require ifNone => rfl
  | regex ok => rfl
  | types kids incl excl => rfl

theorem selSteps_no_lookahead (t : Table Nat K) (d : Nat) : ∀ (ss : List (SelStep K)) (prior : Option (List Nat)),
    selSteps (t.truncate d) d ss prior = selSteps t d ss prior
  | [], prior => rfl
  | s :: rest, prior => by
    simp only [selSteps, selStep_no_lookahead]
    cases selStep t d prior s with
    | error e => rfl
    | ok r =>
      cases r with
      | none => rfl
      | some sel => exact selSteps_no_lookahead t d rest sel

/-- two tables with the same prefix up to `d` give the same selection at `d` -/
theorem selSteps_agree {t t' : Table Nat K} {d : Nat} (h : t.truncate d = t'.truncate d) (ss : List (SelStep K))
    (prior : Option (List Nat)) : selSteps t d ss prior = selSteps t' d ss prior := by
  rw [← selSteps_no_lookahead t, ← selSteps_no_lookahead t', h]

end sel

section selTrunc
variable {K : Type} [Field K] [LinearOrder K] [IsStrictOrderedRing K] [HasFloor K] [HasNatFloor K]

/-- **every selection sequence at row `d ≤ t`** gives the same result on the children of a truncated strategy -/
theorem selSteps_truncL {d t : Nat} (h : d ≤ t) (ucols : List Nat) (kids : List (Node K)) (ss : List (SelStep K))
    (prior : Option (List Nat)) :
    selSteps (tableOf ucols (Node.truncL t kids) d) d ss prior = selSteps (tableOf ucols kids d) d ss prior := by
  rw [tableOf_truncL h]

end selTrunc

/-! ### one strategy's extended stack -/

section run
variable {K : Type} [Field K] [LinearOrder K] [IsStrictOrderedRing K] [HasFloor K] [HasNatFloor K]
variable {cfg : Cfg K}

/-- a run function that, on every world whose clocks lie in `C` (any `C`), is a sequence of public calls whose
    explicit `root.update`s are at dates in `C`.  `C := (· = d)` gives C04's `RunPublic`, `C := fun _ => True`
    C16's, `C := (· ≤ t)` what the composition of `CausalStrong` functions needs. -/
def RunCAll (cfg : Cfg K) (run : RunFn K) : Prop :=
  ∀ (C : Nat → Prop) (d : Nat) (w w' : World K), WOK C w → run d w = .ok w' → RunC cfg C w w'

theorem RunCAll.public04 {run : RunFn K} (h : RunCAll cfg run) : P04.RunPublic cfg run :=
  fun d w w2 hw hr => h (· = d) d w w2 hw hr

theorem RunCAll.public16 {run : RunFn K} (h : RunCAll cfg run) : P16.RunPublic cfg run :=
  fun d w w' hr => (h (fun _ => True) d w w' (wok_true w) hr).toPublic

/-- the truncated children carry the same current weights -/
theorem curWeights_truncL (t : Nat) (kids : List (Node K)) : curWeights (Node.truncL t kids) = curWeights kids := by
  unfold curWeights
  rw [truncL_length, truncL_eq_map, List.map_map]
  congr 1
  exact List.map_congr_left fun k _ => node_trunc_weight t k

/-- a weight post-processing algo touches the world through a refreshing getter at most (`LimitDeltas` reading the
    children's weights): a sequence of public calls -/
theorem postStep_runC {C : Nat → Prop} {path : List Nat} {st : WStep K} {w w' : World K} {ws ws' : List (Nat × K)}
    (h : postStep cfg path st (w, ws) = .ok (w', ws')) : RunC cfg C w w' := by
  cases st with
  | scale s => simp only [postStep] at h; cases h; exact .nil _
  | limitW l =>
    simp only [postStep] at h
    split at h
    · cases h; exact .nil _
    · cases h
    · cases h
  | limitD order glob per =>
    simp only [postStep] at h
    split at h
    · split at h
      · cases h; exact .nil _
      · obtain ⟨w1, h1, h⟩ := bind_eq_ok h
        split at h
        · cases h; exact runC_refresh h1
        · cases h
    · cases h
  | overTime n =>
    simp only [postStep] at h
    obtain ⟨w1, h1, h⟩ := bind_eq_ok h
    split at h
    · cases h; exact runC_refresh h1
    · cases h
  | closeDead => exact closeDead_runC h

theorem postSteps_runC {C : Nat → Prop} {path : List Nat} : ∀ (sts : List (WStep K)) {w w' : World K} {ws ws' : List (Nat × K)},
    postSteps cfg path sts (w, ws) = .ok (w', ws') → RunC cfg C w w'
  | [], w, w', ws, ws', h => by rw [postSteps] at h; cases h; exact .nil _
  | st :: rest, w, w', ws, ws', h => by
    rw [postSteps] at h
    obtain ⟨⟨w1, ws1⟩, h1, h⟩ := bind_eq_ok h
    exact (postStep_runC h1).append (postSteps_runC rest h)

/-- … and commutes with truncation (the weights it computes are the same: it reads `weight` fields only) -/
theorem postStep_trunc {t : Nat} (path : List Nat) (st : WStep K) {w : World K} (hw : ClockLE t w) (ws : List (Nat × K)) :
    postStep cfg path st (w.trunc t, ws) = (postStep cfg path st (w, ws)).map (truncFst t) := by
  cases st with
  | scale s => rfl
  | limitW l =>
    simp only [postStep]
    cases Weigh.limitWeights l ws <;> rfl
  | limitD order glob per =>
    simp only [postStep]
    rw [world_trunc_root, get?_trunc]
    cases hg : w.root.get? path with
    | none => rfl
    | some n =>
      cases n with
      | sec s => rfl
      | strat sd0 kids0 =>
        simp only [Option.map_some, trunc_strat, truncL_isEmpty]
        refine ite_comm Iff.rfl (Except.map (truncFst t)) rfl ?_
        refine bind_comm (World.trunc t) (truncFst t) (refresh_trunc hw) fun w1 h1 => ?_
        rw [world_trunc_root, get?_trunc]
        cases hg1 : w1.root.get? path with
        | none => rfl
        | some n1 =>
          cases n1 with
          | sec s => rfl
          | strat sd ks =>
            simp only [Option.map_some, trunc_strat, curWeights_truncL]
            rfl
  | overTime n =>
    simp only [postStep]
    refine bind_comm (World.trunc t) (truncFst t) (refresh_trunc hw) fun w1 h1 => ?_
    rw [world_trunc_root, get?_trunc]
    cases hg1 : w1.root.get? path with
    | none => rfl
    | some n1 =>
      cases n1 with
      | sec s => rfl
      | strat sd ks =>
        simp only [Option.map_some, trunc_strat, curWeights_truncL]
        rfl
  | closeDead => exact closeDead_trunc path hw ws

theorem postSteps_trunc {t : Nat} (path : List Nat) : ∀ (sts : List (WStep K)) {w : World K}, ClockLE t w →
    ∀ (ws : List (Nat × K)),
      postSteps cfg path sts (w.trunc t, ws) = (postSteps cfg path sts (w, ws)).map (truncFst t)
  | [], w, _, ws => by rw [postSteps, postSteps]; rfl
  | st :: rest, w, hw, ws => by
    rw [postSteps, postSteps]
    refine bind_comm (truncFst t) (truncFst t) (postStep_trunc path st hw ws) fun s1 h1 => ?_
    obtain ⟨w1, ws1⟩ := s1
    exact postSteps_trunc path rest ((postStep_runC (C := (· ≤ t)) h1).wok hw) ws1

/-- the stack of one strategy is a sequence of public calls (the refreshing read of its `LimitDeltas`, those of its
    `Rebalance`) -/
theorem progRunX_runC {C : Nat → Prop} {p : ProgX K} {path : List Nat} {d : Nat} {w w' : World K}
    (hw : WOK C w) (h : progRunX cfg p path d w = .ok w') : RunC cfg C w w' := by
  unfold progRunX at h
  split at h
  · split at h
    · split at h
      · cases h
      · cases h; exact .nil _
      · obtain ⟨r, _, h⟩ := bind_eq_ok h
        cases r with
        | none => cases h; exact .nil _
        | some ws0 =>
          obtain ⟨⟨w1, ws1⟩, h1, h⟩ := bind_eq_ok h
          have r1 := postSteps_runC (C := C) _ h1
          exact r1.append (algoRebalance_runC (r1.wok hw) h)
    · cases h
  · cases h; exact .nil _

theorem progRunX_runCAll (p : ProgX K) (path : List Nat) : RunCAll cfg (progRunX cfg p path) :=
  fun _ _ _ _ hw h => progRunX_runC hw h

/-- … and commutes with truncation after `t` at a date `d ≤ t`, all clocks being `≤ t`: the table is that of the
    full data (`tableOf_truncL`), the weigher does not read the world, `Rebalance` is causal -/
theorem progRunX_trunc (p : ProgX K) (path : List Nat) {d t : Nat} (hd : d ≤ t) {w : World K}
    (hw : ClockLE t w) :
    progRunX cfg p path d (w.trunc t) = (progRunX cfg p path d w).map (World.trunc t) := by
  unfold progRunX
  cases hg : p.gate.getD d false with
  | false => rfl
  | true =>
    simp only [↓reduceIte]
    rw [world_trunc_root, get?_trunc]
    cases hn : w.root.get? path with
    | none => rfl
    | some n =>
      cases n with
      | sec s => rfl
      | strat sd kids =>
        simp only [Option.map_some, trunc_strat]
        rw [tableOf_truncL hd]
        cases hs : selSteps (tableOf p.ucols kids d) d p.sels none with
        | error e => rfl
        | ok r =>
          cases r with
          | none => rfl
          | some sel =>
            simp only
            refine bind_comm_same (World.trunc t) fun r _ => ?_
            cases r with
            | none => rfl
            | some ws0 =>
              refine bind_comm (truncFst t) (World.trunc t) (postSteps_trunc path p.post hw _) fun s1 h1 => ?_
              obtain ⟨w1, ws1⟩ := s1
              exact algoRebalance_trunc ((postSteps_runC (C := (· ≤ t)) _ h1).wok hw) path _ p.cash none

theorem progRunX_gate_closed (p : ProgX K) (path : List Nat) (d : Nat) (w : World K)
    (h : p.gate.getD d false = false) : progRunX cfg p path d w = .ok w := by
  unfold progRunX
  rw [h]; rfl

theorem progRunX_causalStrong (p : ProgX K) (path : List Nat) (t : Nat) : CausalStrong t (progRunX cfg p path) :=
  fun _ hd _ hw => progRunX_trunc p path hd hw

end run

/-! ### trees of arbitrary run functions -/

section gtree
variable {α : Type}

theorem treeRunG_node (f : List Nat → RunFn α) (kids : List (Option (GTree α))) (path : List Nat) (d : Nat)
    (w : World α) :
    treeRunG (.node f kids) path d w = (f path d w).bind fun w1 => kidsRunG kids path 0 d w1 := by
  rw [treeRunG]

theorem kidsRunG_nil (path : List Nat) (i d : Nat) (w : World α) : kidsRunG [] path i d w = .ok w := by
  rw [kidsRunG]; rfl

theorem kidsRunG_none (ks : List (Option (GTree α))) (path : List Nat) (i d : Nat) (w : World α) :
    kidsRunG (none :: ks) path i d w = kidsRunG ks path (i + 1) d w := by
  rw [kidsRunG]

theorem kidsRunG_some (tr : GTree α) (ks : List (Option (GTree α))) (path : List Nat) (i d : Nat) (w : World α) :
    kidsRunG (some tr :: ks) path i d w =
      (treeRunG tr (path ++ [i]) d w).bind fun w1 => kidsRunG ks path (i + 1) d w1 := by
  rw [kidsRunG]

/-- the same as equations between run functions -/
theorem treeRunG_node_fn (f : List Nat → RunFn α) (kids : List (Option (GTree α))) (path : List Nat) :
    treeRunG (.node f kids) path = fun d w => (f path d w).bind (kidsRunG kids path 0 d) := by
  funext d w; exact treeRunG_node f kids path d w

theorem kidsRunG_nil_fn (path : List Nat) (i : Nat) :
    kidsRunG ([] : List (Option (GTree α))) path i = fun _ w => .ok w := by
  funext d w; exact kidsRunG_nil path i d w

theorem kidsRunG_none_fn (ks : List (Option (GTree α))) (path : List Nat) (i : Nat) :
    kidsRunG (none :: ks) path i = kidsRunG ks path (i + 1) := by
  funext d w; exact kidsRunG_none ks path i d w

theorem kidsRunG_some_fn (tr : GTree α) (ks : List (Option (GTree α))) (path : List Nat) (i : Nat) :
    kidsRunG (some tr :: ks) path i =
      fun d w => (treeRunG tr (path ++ [i]) d w).bind (kidsRunG ks path (i + 1) d) := by
  funext d w; exact kidsRunG_some tr ks path i d w

mutual
/-- **every node function of the tree satisfies `P` at its path**: the root's function at `path`, the function of
    the `i`-th child at `path ++ [i]`, and so on (`none` entries — securities — carry no function) -/
def AllNodes (P : RunFn α → Prop) : GTree α → List Nat → Prop
  | .node f kids, path => P (f path) ∧ AllNodesL P kids path 0
def AllNodesL (P : RunFn α → Prop) : List (Option (GTree α)) → List Nat → Nat → Prop
  | [], _, _ => True
  | none :: ks, path, i => AllNodesL P ks path (i + 1)
  | some t :: ks, path, i => AllNodes P t (path ++ [i]) ∧ AllNodesL P ks path (i + 1)
end

theorem allNodes_node (P : RunFn α → Prop) (f : List Nat → RunFn α) (kids : List (Option (GTree α)))
    (path : List Nat) : AllNodes P (.node f kids) path ↔ P (f path) ∧ AllNodesL P kids path 0 := by
  rw [AllNodes]
theorem allNodesL_nil (P : RunFn α → Prop) (path : List Nat) (i : Nat) :
    AllNodesL P ([] : List (Option (GTree α))) path i ↔ True := by rw [AllNodesL]
theorem allNodesL_none (P : RunFn α → Prop) (ks : List (Option (GTree α))) (path : List Nat) (i : Nat) :
    AllNodesL P (none :: ks) path i ↔ AllNodesL P ks path (i + 1) := by rw [AllNodesL]
theorem allNodesL_some (P : RunFn α → Prop) (t : GTree α) (ks : List (Option (GTree α))) (path : List Nat) (i : Nat) :
    AllNodesL P (some t :: ks) path i ↔ AllNodes P t (path ++ [i]) ∧ AllNodesL P ks path (i + 1) := by
  rw [AllNodesL]

mutual
theorem allNodes_mono {P Q : RunFn α → Prop} (h : ∀ r, P r → Q r) : (t : GTree α) → ∀ path,
    AllNodes P t path → AllNodes Q t path
  | .node f kids, path, hp => by
    rw [allNodes_node] at hp ⊢
    exact ⟨h _ hp.1, allNodesL_mono h kids path 0 hp.2⟩
theorem allNodesL_mono {P Q : RunFn α → Prop} (h : ∀ r, P r → Q r) : (ks : List (Option (GTree α))) →
    ∀ path i, AllNodesL P ks path i → AllNodesL Q ks path i
  | [], path, i, _ => (allNodesL_nil Q path i).2 trivial
  | none :: ks, path, i, hp => by
    rw [allNodesL_none] at hp ⊢
    exact allNodesL_mono h ks path (i + 1) hp
  | some t :: ks, path, i, hp => by
    rw [allNodesL_some] at hp ⊢
    exact ⟨allNodes_mono h t _ hp.1, allNodesL_mono h ks path (i + 1) hp.2⟩
end

mutual
theorem allNodes_and {P Q : RunFn α → Prop} : (t : GTree α) → ∀ path,
    AllNodes P t path → AllNodes Q t path → AllNodes (fun r => P r ∧ Q r) t path
  | .node f kids, path, hp, hq => by
    rw [allNodes_node] at hp hq ⊢
    exact ⟨⟨hp.1, hq.1⟩, allNodesL_and kids path 0 hp.2 hq.2⟩
theorem allNodesL_and {P Q : RunFn α → Prop} : (ks : List (Option (GTree α))) →
    ∀ path i, AllNodesL P ks path i → AllNodesL Q ks path i → AllNodesL (fun r => P r ∧ Q r) ks path i
  | [], path, i, _, _ => (allNodesL_nil _ path i).2 trivial
  | none :: ks, path, i, hp, hq => by
    rw [allNodesL_none] at hp hq ⊢
    exact allNodesL_and ks path (i + 1) hp hq
  | some t :: ks, path, i, hp, hq => by
    rw [allNodesL_some] at hp hq ⊢
    exact ⟨allNodes_and t _ hp.1 hq.1, allNodesL_and ks path (i + 1) hp.2 hq.2⟩
end

mutual
/-- every node function of the tree (as a function of the path) satisfies `Q` -/
def EveryNode (Q : (List Nat → RunFn α) → Prop) : GTree α → Prop
  | .node f kids => Q f ∧ EveryNodeL Q kids
def EveryNodeL (Q : (List Nat → RunFn α) → Prop) : List (Option (GTree α)) → Prop
  | [] => True
  | none :: ks => EveryNodeL Q ks
  | some t :: ks => EveryNode Q t ∧ EveryNodeL Q ks
end

theorem everyNode_node (Q : (List Nat → RunFn α) → Prop) (f : List Nat → RunFn α) (kids : List (Option (GTree α))) :
    EveryNode Q (.node f kids) ↔ Q f ∧ EveryNodeL Q kids := by rw [EveryNode]
theorem everyNodeL_nil (Q : (List Nat → RunFn α) → Prop) : EveryNodeL Q ([] : List (Option (GTree α))) ↔ True := by
  rw [EveryNodeL]
theorem everyNodeL_none (Q : (List Nat → RunFn α) → Prop) (ks : List (Option (GTree α))) :
    EveryNodeL Q (none :: ks) ↔ EveryNodeL Q ks := by rw [EveryNodeL]
theorem everyNodeL_some (Q : (List Nat → RunFn α) → Prop) (t : GTree α) (ks : List (Option (GTree α))) :
    EveryNodeL Q (some t :: ks) ↔ EveryNode Q t ∧ EveryNodeL Q ks := by rw [EveryNodeL]

mutual
/-- a property of the node functions that gives `P` at every path gives `AllNodes P` at every path -/
theorem EveryNode.allNodes {Q : (List Nat → RunFn α) → Prop} {P : RunFn α → Prop}
    (h : ∀ f, Q f → ∀ path, P (f path)) : (t : GTree α) → EveryNode Q t → ∀ path, AllNodes P t path
  | .node f kids, hq, path => by
    rw [everyNode_node] at hq
    rw [allNodes_node]
    exact ⟨h f hq.1 path, EveryNodeL.allNodesL h kids hq.2 path 0⟩
theorem EveryNodeL.allNodesL {Q : (List Nat → RunFn α) → Prop} {P : RunFn α → Prop}
    (h : ∀ f, Q f → ∀ path, P (f path)) : (ks : List (Option (GTree α))) → EveryNodeL Q ks →
    ∀ path i, AllNodesL P ks path i
  | [], _, path, i => (allNodesL_nil P path i).2 trivial
  | none :: ks, hq, path, i => by
    rw [everyNodeL_none] at hq
    rw [allNodesL_none]
    exact EveryNodeL.allNodesL h ks hq path (i + 1)
  | some t :: ks, hq, path, i => by
    rw [everyNodeL_some] at hq
    rw [allNodesL_some]
    exact ⟨EveryNode.allNodes h t hq.1 _, EveryNodeL.allNodesL h ks hq.2 path (i + 1)⟩
end

mutual
/-- **the closure principle**: a property of run functions that holds of "do nothing" and is closed under
    sequential composition passes from the node functions (each at its path) to `Strategy.run()` of the tree -/
theorem treeRunG_closed {P : RunFn α → Prop} (hid : P (fun _ w => .ok w))
    (hseq : ∀ f g : RunFn α, P f → P g → P (fun d w => (f d w).bind (g d))) :
    (t : GTree α) → ∀ path, AllNodes P t path → P (treeRunG t path)
  | .node f kids, path, h => by
    rw [allNodes_node] at h
    rw [treeRunG_node_fn]
    exact hseq _ _ h.1 (kidsRunG_closed hid hseq kids path 0 h.2)
theorem kidsRunG_closed {P : RunFn α → Prop} (hid : P (fun _ w => .ok w))
    (hseq : ∀ f g : RunFn α, P f → P g → P (fun d w => (f d w).bind (g d))) :
    (ks : List (Option (GTree α))) → ∀ path i, AllNodesL P ks path i → P (kidsRunG ks path i)
  | [], path, i, _ => by rw [kidsRunG_nil_fn]; exact hid
  | none :: ks, path, i, h => by
    rw [allNodesL_none] at h
    rw [kidsRunG_none_fn]
    exact kidsRunG_closed hid hseq ks path (i + 1) h
  | some t :: ks, path, i, h => by
    rw [allNodesL_some] at h
    rw [kidsRunG_some_fn]
    exact hseq _ _ (treeRunG_closed hid hseq t _ h.1) (kidsRunG_closed hid hseq ks path (i + 1) h.2)
end

end gtree

/-! ### instances of the closure principle -/

section ginst
variable {K : Type} [Field K] [LinearOrder K] [IsStrictOrderedRing K] [HasFloor K]
variable {cfg : Cfg K}

theorem runCAll_id : RunCAll cfg (fun _ w => (.ok w : Except Err (World K))) :=
  fun _ _ _ _ _ h => by cases h; exact .nil _

theorem runCAll_seq {f g : RunFn K} (hf : RunCAll cfg f) (hg : RunCAll cfg g) :
    RunCAll cfg (fun d w => (f d w).bind (g d)) := fun C d w w' hw h => by
  obtain ⟨w1, h1, h2⟩ := bind_eq_ok h
  have r1 := hf C d w w1 hw h1
  exact r1.append (hg C d w1 w' (r1.wok hw) h2)

theorem run_append {w w' w'' : World K} (h1 : P08.Run cfg w w') (h2 : P08.Run cfg w' w'') : P08.Run cfg w w'' := by
  induction h1 with
  | nil w => exact h2
  | cons hs _ ih => exact .cons hs (ih h2)

theorem public16_id : P16.RunPublic cfg (fun _ w => (.ok w : Except Err (World K))) :=
  fun _ _ _ h => by cases h; exact .nil _

theorem public16_seq {f g : RunFn K} (hf : P16.RunPublic cfg f) (hg : P16.RunPublic cfg g) :
    P16.RunPublic cfg (fun d w => (f d w).bind (g d)) := fun d w w' h => by
  obtain ⟨w1, h1, h2⟩ := bind_eq_ok h
  exact run_append (hf d w w1 h1) (hg d w1 w' h2)

theorem causalStrong_id (t : Nat) : CausalStrong t (fun _ w => (.ok w : Except Err (World K))) :=
  fun _ _ _ _ => rfl

theorem causalStrong_seq {t : Nat} {f g : RunFn K} (hf : CausalStrong t f) (hg : CausalStrong t g)
    (hfp : RunCAll cfg f) : CausalStrong t (fun d w => (f d w).bind (g d)) := fun d hd w hw =>
  bind_comm (World.trunc t) (World.trunc t) (hf d hd w hw) fun w1 h1 =>
    hg d hd w1 ((hfp (· ≤ t) d w w1 hw h1).wok hw)

/-- every node a sequence of public calls on every world ⟹ so is the tree -/
theorem treeRunG_runCAll (t : GTree K) (path : List Nat) (h : AllNodes (RunCAll cfg) t path) :
    RunCAll cfg (treeRunG t path) :=
  treeRunG_closed runCAll_id (fun _ _ => runCAll_seq) t path h

/-- every node public in the sense of C04 ⟹ so is the tree -/
theorem treeRunG_public04 (t : GTree K) (path : List Nat) (h : AllNodes (P04.RunPublic cfg) t path) :
    P04.RunPublic cfg (treeRunG t path) :=
  treeRunG_closed runPublic_id (fun _ _ => runPublic_seq) t path h

theorem kidsRunG_public04 (ks : List (Option (GTree K))) (path : List Nat) (i : Nat)
    (h : AllNodesL (P04.RunPublic cfg) ks path i) : P04.RunPublic cfg (kidsRunG ks path i) :=
  kidsRunG_closed runPublic_id (fun _ _ => runPublic_seq) ks path i h

/-- every node public in the sense of C16 ⟹ so is the tree -/
theorem treeRunG_public16 (t : GTree K) (path : List Nat) (h : AllNodes (P16.RunPublic cfg) t path) :
    P16.RunPublic cfg (treeRunG t path) :=
  treeRunG_closed public16_id (fun _ _ => public16_seq) t path h

theorem kidsRunG_public16 (ks : List (Option (GTree K))) (path : List Nat) (i : Nat)
    (h : AllNodesL (P16.RunPublic cfg) ks path i) : P16.RunPublic cfg (kidsRunG ks path i) :=
  kidsRunG_closed public16_id (fun _ _ => public16_seq) ks path i h

/-- every node causal and public (C04's notions) ⟹ the tree is causal and public -/
theorem treeRunG_causal_public {t : Nat} (tr : GTree K) (path : List Nat)
    (h : AllNodes (fun r => Causal t r ∧ P04.RunPublic cfg r) tr path) :
    Causal t (treeRunG tr path) ∧ P04.RunPublic cfg (treeRunG tr path) :=
  treeRunG_closed (P := fun r => Causal t r ∧ P04.RunPublic cfg r) ⟨causal_id, runPublic_id⟩
    (fun _ _ hf hg => ⟨causal_seq hf.1 hg.1 hf.2, runPublic_seq hf.2 hg.2⟩) tr path h

theorem kidsRunG_causal_public {t : Nat} (ks : List (Option (GTree K))) (path : List Nat) (i : Nat)
    (h : AllNodesL (fun r => Causal t r ∧ P04.RunPublic cfg r) ks path i) :
    Causal t (kidsRunG ks path i) ∧ P04.RunPublic cfg (kidsRunG ks path i) :=
  kidsRunG_closed (P := fun r => Causal t r ∧ P04.RunPublic cfg r) ⟨causal_id, runPublic_id⟩
    (fun _ _ hf hg => ⟨causal_seq hf.1 hg.1 hf.2, runPublic_seq hf.2 hg.2⟩) ks path i h

/-- the stronger pair: `CausalStrong` (clocks `≤ t`) and `RunCAll` -/
theorem treeRunG_causalStrong {t : Nat} (tr : GTree K) (path : List Nat)
    (h : AllNodes (fun r => CausalStrong t r ∧ RunCAll cfg r) tr path) :
    CausalStrong t (treeRunG tr path) ∧ RunCAll cfg (treeRunG tr path) :=
  treeRunG_closed (P := fun r => CausalStrong t r ∧ RunCAll cfg r) ⟨causalStrong_id t, runCAll_id⟩
    (fun _ _ hf hg => ⟨causalStrong_seq hf.1 hg.1 hf.2, runCAll_seq hf.2 hg.2⟩) tr path h

/-- every node function the identity at row `d` ⟹ `Strategy.run()` at row `d` returns the tree as it is -/
theorem treeRunG_id_at {d : Nat} (tr : GTree K) (path : List Nat)
    (h : AllNodes (fun r => ∀ w, r d w = .ok w) tr path) (w : World K) : treeRunG tr path d w = .ok w :=
  treeRunG_closed (P := fun r => ∀ w, r d w = .ok w) (fun _ => rfl)
    (fun f g hf hg w => by show (f d w).bind (g d) = .ok w; rw [hf, bind_ok, hg]) tr path h w

theorem kidsRunG_id_at {d : Nat} (ks : List (Option (GTree K))) (path : List Nat) (i : Nat)
    (h : AllNodesL (fun r => ∀ w, r d w = .ok w) ks path i) (w : World K) : kidsRunG ks path i d w = .ok w :=
  kidsRunG_closed (P := fun r => ∀ w, r d w = .ok w) (fun _ => rfl)
    (fun f g hf hg w => by show (f d w).bind (g d) = .ok w; rw [hf, bind_ok, hg]) ks path i h w

/-- `P08.Run` is `RunC` with no restriction on the dates -/
theorem run_toRunC {w w' : World K} (h : P08.Run cfg w w') : RunC cfg (fun _ => True) w w' := by
  induction h with
  | nil w => exact .nil w
  | cons hs _ ih =>
    refine .cons ?_ ih
    cases hs with
    | update d h => exact .update d trivial h
    | adjust p a u f h => exact .adjust p a u f h
    | allocate p a u h => exact .allocate p a u h
    | transact p q u c h => exact .transact p q u c h
    | flatten p h => exact .flatten p h
    | close p c u h => exact .close p c u h
    | rebalance p wt c b u h => exact .rebalance p wt c b u h
    | read p g h => exact .read p g h

end ginst

/-! ### trees of extended programs; the fixed-shape programs as an instance -/

section embed
variable {α : Type} [Add α] [Sub α] [Mul α] [Div α] [Neg α] [LT α] [DecidableLT α]
  [LE α] [DecidableLE α] [OfNat α 0] [OfNat α 1] [HasFloor α] [NatCast α]

mutual
/-- a fixed-shape program tree as a `GTree`: node function `progRun cfg p` -/
def embed (cfg : Cfg α) : ProgTree α → GTree α
  | .node p kids => .node (progRun cfg p) (embedL cfg kids)
def embedL (cfg : Cfg α) : List (Option (ProgTree α)) → List (Option (GTree α))
  | [] => []
  | none :: ks => none :: embedL cfg ks
  | some t :: ks => some (embed cfg t) :: embedL cfg ks
end

mutual
/-- a nested backtest of fixed-shape programs as a `SimG` -/
def embedSim (cfg : Cfg α) : Sim α → SimG α
  | .mk w t papers => .mk w (embed cfg t) (embedPapers cfg papers)
def embedPapers (cfg : Cfg α) : List (List Nat × Sim α) → List (List Nat × SimG α)
  | [] => []
  | (q, s) :: rest => (q, embedSim cfg s) :: embedPapers cfg rest
end

/-- the programs of a tree of strategies with extended stacks, aligned with the children lists -/
inductive XTree (α : Type) where
  | node : ProgX α → List (Option (XTree α)) → XTree α

variable [HasNatFloor α]

mutual
/-- a tree of extended programs as a `GTree`: node function `progRunX cfg p` -/
def embedX (cfg : Cfg α) : XTree α → GTree α
  | .node p kids => .node (progRunX cfg p) (embedXL cfg kids)
def embedXL (cfg : Cfg α) : List (Option (XTree α)) → List (Option (GTree α))
  | [] => []
  | none :: ks => none :: embedXL cfg ks
  | some t :: ks => some (embedX cfg t) :: embedXL cfg ks
end

/-- the node function is the stack of some extended program -/
def IsProgX (cfg : Cfg α) (f : List Nat → RunFn α) : Prop := ∃ p : ProgX α, f = progRunX cfg p

/-- the node function is the stack of some fixed-shape program -/
def IsProg (cfg : Cfg α) (f : List Nat → RunFn α) : Prop := ∃ p : Prog α, f = progRun cfg p

end embed

section embedThms
variable {K : Type} [Field K] [LinearOrder K] [IsStrictOrderedRing K] [HasFloor K]
variable {cfg : Cfg K}

theorem embed_node (p : Prog K) (kids : List (Option (ProgTree K))) :
    embed cfg (.node p kids) = .node (progRun cfg p) (embedL cfg kids) := by rw [embed]
theorem embedL_nil : embedL cfg ([] : List (Option (ProgTree K))) = [] := by rw [embedL]
theorem embedL_none (ks : List (Option (ProgTree K))) : embedL cfg (none :: ks) = none :: embedL cfg ks := by
  rw [embedL]
theorem embedL_some (t : ProgTree K) (ks : List (Option (ProgTree K))) :
    embedL cfg (some t :: ks) = some (embed cfg t) :: embedL cfg ks := by rw [embedL]

mutual
/-- **the fixed-shape programs are an instance**: `treeRun cfg t = treeRunG (embed cfg t)` -/
theorem treeRun_eq_treeRunG : (t : ProgTree K) → ∀ (path : List Nat) (d : Nat) (w : World K),
    treeRun cfg t path d w = treeRunG (embed cfg t) path d w
  | .node p kids, path, d, w => by
    rw [treeRun_node, embed_node, treeRunG_node]
    exact P09.bind_congr' _ fun w1 _ => kidsRun_eq_kidsRunG kids path 0 d w1
theorem kidsRun_eq_kidsRunG : (ks : List (Option (ProgTree K))) → ∀ (path : List Nat) (i d : Nat) (w : World K),
    kidsRun cfg ks path i d w = kidsRunG (embedL cfg ks) path i d w
  | [], path, i, d, w => by rw [kidsRun_nil, embedL_nil, kidsRunG_nil]
  | none :: ks, path, i, d, w => by
    rw [kidsRun_none, embedL_none, kidsRunG_none]
    exact kidsRun_eq_kidsRunG ks path (i + 1) d w
  | some t :: ks, path, i, d, w => by
    rw [kidsRun_some, embedL_some, kidsRunG_some, treeRun_eq_treeRunG t]
    exact P09.bind_congr' _ fun w1 _ => kidsRun_eq_kidsRunG ks path (i + 1) d w1
end

theorem treeRun_eq_treeRunG_fn (t : ProgTree K) (path : List Nat) :
    treeRun cfg t path = treeRunG (embed cfg t) path := by
  funext d w; exact treeRun_eq_treeRunG t path d w

theorem backtest_eq_btRunG (t : ProgTree K) (capital : K) (dates : List Nat) (w0 : World K) :
    Prog.backtest cfg t capital dates w0 = btRun cfg (treeRunG (embed cfg t) []) capital dates w0 := by
  unfold Prog.backtest
  rw [treeRun_eq_treeRunG_fn]

mutual
theorem everyNode_embed : (t : ProgTree K) → EveryNode (IsProg cfg) (embed cfg t)
  | .node p kids => by
    rw [embed_node, everyNode_node]
    exact ⟨⟨p, rfl⟩, everyNodeL_embedL kids⟩
theorem everyNodeL_embedL : (ks : List (Option (ProgTree K))) → EveryNodeL (IsProg cfg) (embedL cfg ks)
  | [] => by rw [embedL_nil, everyNodeL_nil]; trivial
  | none :: ks => by rw [embedL_none, everyNodeL_none]; exact everyNodeL_embedL ks
  | some t :: ks => by rw [embedL_some, everyNodeL_some]; exact ⟨everyNode_embed t, everyNodeL_embedL ks⟩
end

variable [HasNatFloor K]

theorem embedX_node (p : ProgX K) (kids : List (Option (XTree K))) :
    embedX cfg (.node p kids) = .node (progRunX cfg p) (embedXL cfg kids) := by rw [embedX]
theorem embedXL_nil : embedXL cfg ([] : List (Option (XTree K))) = [] := by rw [embedXL]
theorem embedXL_none (ks : List (Option (XTree K))) : embedXL cfg (none :: ks) = none :: embedXL cfg ks := by
  rw [embedXL]
theorem embedXL_some (t : XTree K) (ks : List (Option (XTree K))) :
    embedXL cfg (some t :: ks) = some (embedX cfg t) :: embedXL cfg ks := by rw [embedXL]

mutual
theorem everyNode_embedX : (t : XTree K) → EveryNode (IsProgX cfg) (embedX cfg t)
  | .node p kids => by
    rw [embedX_node, everyNode_node]
    exact ⟨⟨p, rfl⟩, everyNodeL_embedXL kids⟩
theorem everyNodeL_embedXL : (ks : List (Option (XTree K))) → EveryNodeL (IsProgX cfg) (embedXL cfg ks)
  | [] => by rw [embedXL_nil, everyNodeL_nil]; trivial
  | none :: ks => by rw [embedXL_none, everyNodeL_none]; exact everyNodeL_embedXL ks
  | some t :: ks => by rw [embedXL_some, everyNodeL_some]; exact ⟨everyNode_embedX t, everyNodeL_embedXL ks⟩
end

/-! #### every tree of (extended) programs is public and causal -/

theorem isProgX_runCAll {f : List Nat → RunFn K} (h : IsProgX cfg f) (path : List Nat) : RunCAll cfg (f path) := by
  obtain ⟨p, rfl⟩ := h; exact progRunX_runCAll p path

theorem isProgX_causalStrong {f : List Nat → RunFn K} (h : IsProgX cfg f) (t : Nat) (path : List Nat) :
    CausalStrong t (f path) := by
  obtain ⟨p, rfl⟩ := h; exact progRunX_causalStrong p path t

/-- a tree all of whose nodes are extended programs: a sequence of public calls on every world … -/
theorem progx_runCAll (tr : GTree K) (h : EveryNode (IsProgX cfg) tr) (path : List Nat) :
    RunCAll cfg (treeRunG tr path) :=
  treeRunG_runCAll tr path (EveryNode.allNodes (fun _ hf p => isProgX_runCAll hf p) tr h path)

/-- … commuting with truncation after `t` at every date `d ≤ t` on every world with clocks `≤ t` -/
theorem progx_causalStrong (tr : GTree K) (h : EveryNode (IsProgX cfg) tr) (path : List Nat) (t : Nat) :
    CausalStrong t (treeRunG tr path) :=
  (treeRunG_causalStrong tr path (EveryNode.allNodes
    (fun _ hf p => ⟨isProgX_causalStrong hf t p, isProgX_runCAll hf p⟩) tr h path)).1

theorem isProg_runCAll {f : List Nat → RunFn K} (h : IsProg cfg f) (path : List Nat) : RunCAll cfg (f path) := by
  obtain ⟨p, rfl⟩ := h; exact fun _ _ _ _ hw hr => progRun_runC hw hr

theorem isProg_causalStrong {f : List Nat → RunFn K} (h : IsProg cfg f) (t : Nat) (path : List Nat) :
    CausalStrong t (f path) := by
  obtain ⟨p, rfl⟩ := h; exact progRun_causalStrong p path t

theorem isProg_id_at {f : List Nat → RunFn K} {d : Nat} :
    (∃ p : Prog K, f = progRun cfg p ∧ p.gate.getD d false = false) → ∀ path w, f path d w = .ok w := by
  rintro ⟨p, rfl, hg⟩ path w; exact progRun_gate_closed p path d w hg

end embedThms

/-! ### closed gates of trees of programs -/

section gates
variable {α : Type}

mutual
/-- every extended program of the tree has its gate closed at row `d` -/
def xGateClosed (d : Nat) : XTree α → Bool
  | .node p kids => !(p.gate.getD d false) && xGateClosedL d kids
def xGateClosedL (d : Nat) : List (Option (XTree α)) → Bool
  | [] => true
  | none :: ks => xGateClosedL d ks
  | some t :: ks => xGateClosed d t && xGateClosedL d ks
end

theorem xGateClosed_node (d : Nat) (p : ProgX α) (kids : List (Option (XTree α))) :
    xGateClosed d (.node p kids) = (!(p.gate.getD d false) && xGateClosedL d kids) := by rw [xGateClosed]
theorem xGateClosedL_nil (d : Nat) : xGateClosedL d ([] : List (Option (XTree α))) = true := by rw [xGateClosedL]
theorem xGateClosedL_none (d : Nat) (ks : List (Option (XTree α))) :
    xGateClosedL d (none :: ks) = xGateClosedL d ks := by rw [xGateClosedL]
theorem xGateClosedL_some (d : Nat) (t : XTree α) (ks : List (Option (XTree α))) :
    xGateClosedL d (some t :: ks) = (xGateClosed d t && xGateClosedL d ks) := by rw [xGateClosedL]

end gates

section gatesK
variable {K : Type} [Field K] [LinearOrder K] [IsStrictOrderedRing K] [HasFloor K]
variable {cfg : Cfg K}

/-- the node function is the identity at row `d` -/
abbrev IdAt (d : Nat) (r : RunFn K) : Prop := ∀ w, r d w = .ok w

mutual
theorem idAt_embed {d : Nat} : (t : ProgTree K) → gateClosed d t = true → ∀ path, AllNodes (IdAt d) (embed cfg t) path
  | .node p kids, h, path => by
    rw [gateClosed_node, Bool.and_eq_true] at h
    rw [embed_node, allNodes_node]
    exact ⟨fun w => progRun_gate_closed p path d w (by simpa using h.1), idAt_embedL kids h.2 path 0⟩
theorem idAt_embedL {d : Nat} : (ks : List (Option (ProgTree K))) → gateClosedL d ks = true →
    ∀ path i, AllNodesL (IdAt d) (embedL cfg ks) path i
  | [], _, path, i => by rw [embedL_nil, allNodesL_nil]; trivial
  | none :: ks, h, path, i => by
    rw [gateClosedL_none] at h
    rw [embedL_none, allNodesL_none]; exact idAt_embedL ks h path (i + 1)
  | some t :: ks, h, path, i => by
    rw [gateClosedL_some, Bool.and_eq_true] at h
    rw [embedL_some, allNodesL_some]; exact ⟨idAt_embed t h.1 _, idAt_embedL ks h.2 path (i + 1)⟩
end

variable [HasNatFloor K]

mutual
theorem idAt_embedX {d : Nat} : (t : XTree K) → xGateClosed d t = true →
    ∀ path, AllNodes (IdAt d) (embedX cfg t) path
  | .node p kids, h, path => by
    rw [xGateClosed_node, Bool.and_eq_true] at h
    rw [embedX_node, allNodes_node]
    exact ⟨fun w => progRunX_gate_closed p path d w (by simpa using h.1), idAt_embedXL kids h.2 path 0⟩
theorem idAt_embedXL {d : Nat} : (ks : List (Option (XTree K))) → xGateClosedL d ks = true →
    ∀ path i, AllNodesL (IdAt d) (embedXL cfg ks) path i
  | [], _, path, i => by rw [embedXL_nil, allNodesL_nil]; trivial
  | none :: ks, h, path, i => by
    rw [xGateClosedL_none] at h
    rw [embedXL_none, allNodesL_none]; exact idAt_embedXL ks h path (i + 1)
  | some t :: ks, h, path, i => by
    rw [xGateClosedL_some, Bool.and_eq_true] at h
    rw [embedXL_some, allNodesL_some]; exact ⟨idAt_embedX t h.1 _, idAt_embedXL ks h.2 path (i + 1)⟩
end

end gatesK

/-! ### nested backtests over trees of arbitrary run functions: unfolding -/

section sim
variable {K : Type} [Field K] [LinearOrder K] [IsStrictOrderedRing K] [HasFloor K]
variable {cfg : Cfg K}

theorem simDayG_mk (d : Nat) (w : World K) (t : GTree K) (papers : List (List Nat × SimG K)) :
    simDayG cfg d (.mk w t papers) =
      (simPapersG cfg d papers w).bind fun r =>
        (btDay cfg (treeRunG t []) d r.2).map fun w2 => SimG.mk w2 t r.1 := by
  rw [simDayG]

theorem simPapersG_nil (d : Nat) (w : World K) : simPapersG cfg d [] w = .ok ([], w) := by
  rw [simPapersG]; rfl

theorem simPapersG_cons (d : Nat) (path : List Nat) (s : SimG K) (rest : List (List Nat × SimG K)) (w : World K) :
    simPapersG cfg d ((path, s) :: rest) w =
      (simDayG cfg d s).bind fun s' =>
        (simPapersG cfg d rest { w with root := setPaperPx s'.world.price path w.root }).map fun r =>
          ((path, s') :: r.1, r.2) := by
  rw [simPapersG]

theorem simLoopG_nil (s : SimG K) : simLoopG cfg [] s = .ok s := rfl
theorem simLoopG_cons (d : Nat) (ds : List Nat) (s : SimG K) :
    simLoopG cfg (d :: ds) s = (simDayG cfg d s).bind (simLoopG cfg ds) := rfl

theorem simDayG0_mk (d : Nat) (w : World K) (t : GTree K) (papers : List (List Nat × SimG K)) :
    simDayG0 cfg d (.mk w t papers) =
      (simPapersG0 cfg d papers w).bind fun r =>
        (updRoot cfg d r.2).map fun w2 => SimG.mk w2 t r.1 := by
  rw [simDayG0]

theorem simPapersG0_nil (d : Nat) (w : World K) : simPapersG0 cfg d [] w = .ok ([], w) := by
  rw [simPapersG0]; rfl

theorem simPapersG0_cons (d : Nat) (path : List Nat) (s : SimG K) (rest : List (List Nat × SimG K)) (w : World K) :
    simPapersG0 cfg d ((path, s) :: rest) w =
      (simDayG0 cfg d s).bind fun s' =>
        (simPapersG0 cfg d rest { w with root := setPaperPx s'.world.price path w.root }).map fun r =>
          ((path, s') :: r.1, r.2) := by
  rw [simPapersG0]

theorem simShadowG_nil (s : SimG K) : simShadowG cfg [] s = .ok s := rfl
theorem simShadowG_cons (d0 : Nat) (ds : List Nat) (s : SimG K) :
    simShadowG cfg (d0 :: ds) s = (simDayG0 cfg d0 s).bind (simLoopG cfg ds) := rfl

theorem simRunG_mk (c : K) (d0 : Nat) (ds : List Nat) (w0 : World K) (t : GTree K)
    (papers : List (List Nat × SimG K)) :
    simRunG cfg c (d0 :: ds) (.mk w0 t papers) =
      (opAdjust w0 [] c true true).bind fun w1 =>
      (simPapersG0 cfg d0 papers w1).bind fun r =>
      (updRoot cfg d0 r.2).bind fun w3 => simLoopG cfg ds (.mk w3 t r.1) := rfl

theorem simLoopG_append (ds1 ds2 : List Nat) (s : SimG K) :
    simLoopG cfg (ds1 ++ ds2) s = (simLoopG cfg ds1 s).bind (simLoopG cfg ds2) := by
  induction ds1 generalizing s with
  | nil => rfl
  | cons d ds1 ih =>
    rw [List.cons_append, simLoopG_cons, simLoopG_cons, P09.bind_assoc']
    exact P09.bind_congr' _ fun s1 _ => ih s1

/-- the stand-alone run over a prefix of the dates is the state the whole run passes through -/
theorem simRunG_prefix (c : K) (d0 : Nat) (ds1 ds2 : List Nat) (s : SimG K) :
    simRunG cfg c (d0 :: (ds1 ++ ds2)) s = (simRunG cfg c (d0 :: ds1) s).bind (simLoopG cfg ds2) := by
  obtain ⟨w0, t, papers⟩ := s
  rw [simRunG_mk, simRunG_mk, P09.bind_assoc']
  refine P09.bind_congr' _ fun w1 _ => ?_
  rw [P09.bind_assoc']
  refine P09.bind_congr' _ fun r _ => ?_
  rw [P09.bind_assoc']
  refine P09.bind_congr' _ fun w3 _ => ?_
  exact simLoopG_append ds1 ds2 _

/-! #### a leaf definition (no sub-strategies): `SimG` is `btRun` -/

theorem simDayG_leaf (d : Nat) (w : World K) (t : GTree K) :
    simDayG cfg d (.mk w t []) = (btDay cfg (treeRunG t []) d w).map fun w2 => SimG.mk w2 t [] := by
  rw [simDayG_mk, simPapersG_nil]; rfl

theorem simLoopG_leaf (t : GTree K) : ∀ (ds : List Nat) (w : World K),
    simLoopG cfg ds (.mk w t []) = (btLoop cfg (treeRunG t []) ds w).map fun w2 => SimG.mk w2 t []
  | [], w => rfl
  | d :: ds, w => by
    rw [simLoopG_cons, simDayG_leaf, map_bind', btLoop]
    cases btDay cfg (treeRunG t []) d w with
    | error e => rfl
    | ok w1 => exact simLoopG_leaf t ds w1

theorem simRunG_leaf (c : K) (t : GTree K) (dates : List Nat) (w0 : World K) :
    simRunG cfg c dates (.mk w0 t []) = (btRun cfg (treeRunG t []) c dates w0).map fun w2 => SimG.mk w2 t [] := by
  cases dates with
  | nil => rfl
  | cons d0 ds =>
    rw [simRunG_mk]
    unfold btRun
    simp only
    cases opAdjust w0 [] c true true with
    | error e => rfl
    | ok w1 =>
      rw [bind_ok, bind_ok, simPapersG0_nil, bind_ok]
      cases updRoot cfg d0 w1 with
      | error e => rfl
      | ok w3 => exact simLoopG_leaf t ds w3

theorem simPapersG_noDust {d : Nat} : ∀ (papers : List (List Nat × SimG K)) (w : World K)
    (r : List (List Nat × SimG K) × World K), simPapersG cfg d papers w = .ok r →
    (P08.NoDust cfg r.2.root ↔ P08.NoDust cfg w.root)
  | [], w, r, h => by rw [simPapersG_nil] at h; cases h; rfl
  | (path, s) :: rest, w, r, h => by
    rw [simPapersG_cons] at h
    obtain ⟨s', _, h⟩ := bind_eq_ok h
    obtain ⟨r1, h1, rfl⟩ := map_eq_ok h
    exact (simPapersG_noDust rest _ r1 h1).trans (noDust_setPaperPx _ path w.root)

/-- **the shadow copy of a definition (any nesting, any run functions) is its stand-alone backtest**: on the first date a
    shadow copy is only updated (`simDayG0`) - what `Backtest.run` does to its own tree there -, on the later dates both
    get the loop body; the copy's own shadow copies are stepped identically on both sides.  No hypothesis. -/
theorem simShadowG_funded_eq_simRunG (c : K) (d0 : Nat) (ds : List Nat) (w0 : World K)
    (t : GTree K) (papers : List (List Nat × SimG K)) :
    (opAdjust w0 [] c true true).bind (fun w1 => simShadowG cfg (d0 :: ds) (.mk w1 t papers)) =
      simRunG cfg c (d0 :: ds) (.mk w0 t papers) := by
  rw [simRunG_mk]
  refine P09.bind_congr' _ fun w1 _ => ?_
  rw [simShadowG_cons, simDayG0_mk, P09.bind_assoc']
  refine P09.bind_congr' _ fun r _ => ?_
  rw [map_bind']

end sim

/-! ### the shadow copies of a run evolve on their own -/

section papers
variable {K : Type} [Field K] [LinearOrder K] [IsStrictOrderedRing K] [HasFloor K]
variable {cfg : Cfg K}

theorem simPapersG_forall₂ {d : Nat} : ∀ (papers : List (List Nat × SimG K)) (w : World K)
    (r : List (List Nat × SimG K) × World K), simPapersG cfg d papers w = .ok r →
    List.Forall₂ (fun a b => a.1 = b.1 ∧ simDayG cfg d a.2 = .ok b.2) papers r.1
  | [], w, r, h => by rw [simPapersG_nil] at h; cases h; exact .nil
  | (path, s) :: rest, w, r, h => by
    rw [simPapersG_cons] at h
    obtain ⟨s', hs, h⟩ := bind_eq_ok h
    obtain ⟨r1, h1, rfl⟩ := map_eq_ok h
    exact .cons ⟨rfl, hs⟩ (simPapersG_forall₂ rest _ r1 h1)

theorem simDayG_papers {d : Nat} {w : World K} {t : GTree K} {papers : List (List Nat × SimG K)} {S' : SimG K}
    (h : simDayG cfg d (.mk w t papers) = .ok S') :
    ∃ w' papers', S' = .mk w' t papers' ∧
      List.Forall₂ (fun a b => a.1 = b.1 ∧ simDayG cfg d a.2 = .ok b.2) papers papers' := by
  rw [simDayG_mk] at h
  obtain ⟨r, hr, h⟩ := bind_eq_ok h
  obtain ⟨w2, _, rfl⟩ := map_eq_ok h
  exact ⟨w2, r.1, rfl, simPapersG_forall₂ _ _ _ hr⟩

theorem simPapersG0_forall₂ {d : Nat} : ∀ (papers : List (List Nat × SimG K)) (w : World K)
    (r : List (List Nat × SimG K) × World K), simPapersG0 cfg d papers w = .ok r →
    List.Forall₂ (fun a b => a.1 = b.1 ∧ simDayG0 cfg d a.2 = .ok b.2) papers r.1
  | [], w, r, h => by rw [simPapersG0_nil] at h; cases h; exact .nil
  | (path, s) :: rest, w, r, h => by
    rw [simPapersG0_cons] at h
    obtain ⟨s', hs, h⟩ := bind_eq_ok h
    obtain ⟨r1, h1, rfl⟩ := map_eq_ok h
    exact .cons ⟨rfl, hs⟩ (simPapersG0_forall₂ rest _ r1 h1)

theorem simDayG0_papers {d : Nat} {w : World K} {t : GTree K} {papers : List (List Nat × SimG K)} {S' : SimG K}
    (h : simDayG0 cfg d (.mk w t papers) = .ok S') :
    ∃ w' papers', S' = .mk w' t papers' ∧
      List.Forall₂ (fun a b => a.1 = b.1 ∧ simDayG0 cfg d a.2 = .ok b.2) papers papers' := by
  rw [simDayG0_mk] at h
  obtain ⟨r, hr, h⟩ := bind_eq_ok h
  obtain ⟨w2, _, rfl⟩ := map_eq_ok h
  exact ⟨w2, r.1, rfl, simPapersG0_forall₂ _ _ _ hr⟩

theorem forall₂_loopG_refl : ∀ (papers : List (List Nat × SimG K)),
    List.Forall₂ (fun a b => a.1 = b.1 ∧ simLoopG cfg [] a.2 = .ok b.2) papers papers
  | [] => .nil
  | a :: l => .cons ⟨rfl, rfl⟩ (forall₂_loopG_refl l)

theorem forall₂_loopG_cons {d : Nat} {ds : List Nat} : ∀ {l1 l2 l3 : List (List Nat × SimG K)},
    List.Forall₂ (fun a b => a.1 = b.1 ∧ simDayG cfg d a.2 = .ok b.2) l1 l2 →
    List.Forall₂ (fun a b => a.1 = b.1 ∧ simLoopG cfg ds a.2 = .ok b.2) l2 l3 →
    List.Forall₂ (fun a b => a.1 = b.1 ∧ simLoopG cfg (d :: ds) a.2 = .ok b.2) l1 l3
  | [], [], [], _, _ => .nil
  | a :: l1, b :: l2, c :: l3, .cons h1 t1, .cons h2 t2 =>
    .cons ⟨h1.1.trans h2.1, by rw [simLoopG_cons, h1.2, bind_ok]; exact h2.2⟩ (forall₂_loopG_cons t1 t2)

theorem simLoopG_papers {t : GTree K} : ∀ (ds : List Nat) {w : World K} {papers : List (List Nat × SimG K)}
    {S' : SimG K}, simLoopG cfg ds (.mk w t papers) = .ok S' →
    ∃ w' papers', S' = .mk w' t papers' ∧
      List.Forall₂ (fun a b => a.1 = b.1 ∧ simLoopG cfg ds a.2 = .ok b.2) papers papers'
  | [], w, papers, S', h => by
    cases h; exact ⟨w, papers, rfl, forall₂_loopG_refl papers⟩
  | d :: ds, w, papers, S', h => by
    rw [simLoopG_cons] at h
    obtain ⟨S1, h1, h2⟩ := bind_eq_ok h
    obtain ⟨w1, p1, rfl, f1⟩ := simDayG_papers h1
    obtain ⟨w2, p2, rfl, f2⟩ := simLoopG_papers ds h2
    exact ⟨w2, p2, rfl, forall₂_loopG_cons f1 f2⟩

theorem forall₂_shadowG_cons {d : Nat} {ds : List Nat} : ∀ {l1 l2 l3 : List (List Nat × SimG K)},
    List.Forall₂ (fun a b => a.1 = b.1 ∧ simDayG0 cfg d a.2 = .ok b.2) l1 l2 →
    List.Forall₂ (fun a b => a.1 = b.1 ∧ simLoopG cfg ds a.2 = .ok b.2) l2 l3 →
    List.Forall₂ (fun a b => a.1 = b.1 ∧ simShadowG cfg (d :: ds) a.2 = .ok b.2) l1 l3
  | [], [], [], _, _ => .nil
  | a :: l1, b :: l2, c :: l3, .cons h1 t1, .cons h2 t2 =>
    .cons ⟨h1.1.trans h2.1, by rw [simShadowG_cons, h1.2, bind_ok]; exact h2.2⟩ (forall₂_shadowG_cons t1 t2)

/-- after a whole `simRunG` of the parent every shadow copy has been stepped by its own `simShadowG` over all the
    dates (update on the first, the loop body on the others) — whatever the parent's tree, run functions, capital -/
theorem simRunG_papers {c : K} {d0 : Nat} {ds : List Nat} {w0 : World K} {t : GTree K}
    {papers : List (List Nat × SimG K)} {S' : SimG K} (h : simRunG cfg c (d0 :: ds) (.mk w0 t papers) = .ok S') :
    ∃ w' papers', S' = .mk w' t papers' ∧
      List.Forall₂ (fun a b => a.1 = b.1 ∧ simShadowG cfg (d0 :: ds) a.2 = .ok b.2) papers papers' := by
  rw [simRunG_mk] at h
  obtain ⟨w1, _, h⟩ := bind_eq_ok h
  obtain ⟨r, hr, h⟩ := bind_eq_ok h
  obtain ⟨w3, _, h⟩ := bind_eq_ok h
  obtain ⟨w2, p2, rfl, f2⟩ := simLoopG_papers ds h
  exact ⟨w2, p2, rfl, forall₂_shadowG_cons (simPapersG0_forall₂ _ _ _ hr) f2⟩

end papers

/-! ### the price the parent reads is the shadow copy's -/

section price
variable {K : Type} [Field K] [LinearOrder K] [IsStrictOrderedRing K] [HasFloor K]
variable {cfg : Cfg K}

/-- a day of `Backtest.run` with algos that are public in the sense of C16 -/
theorem btDay_paperAt16 {run : RunFn K} (hrun : P16.RunPublic cfg run) {d : Nat} {px : K} {w w' : World K}
    {p : List Nat} (h : btDay cfg run d w = .ok w') (hin : PaperIn px w.root p) : PaperAt d px w'.root p :=
  btDay_paperAt (fun d w w' hr => run_toRunC (hrun d w w' hr)) h hin

theorem forall₂_pathsG {R : SimG K → SimG K → Prop} : ∀ {l1 l2 : List (List Nat × SimG K)},
    List.Forall₂ (fun a b => a.1 = b.1 ∧ R a.2 b.2) l1 l2 → l1.map (·.1) = l2.map (·.1)
  | [], [], _ => rfl
  | a :: l1, b :: l2, .cons h t => by
    simp only [List.map_cons, h.1, forall₂_pathsG t]

theorem simPapersG_paperT {d : Nat} {q : List Nat} : ∀ (papers : List (List Nat × SimG K)) (w : World K)
    (r : List (List Nat × SimG K) × World K), simPapersG cfg d papers w = .ok r →
    PaperT w.root q → PaperT r.2.root q
  | [], w, r, h, hq => by rw [simPapersG_nil] at h; cases h; exact hq
  | (path, s) :: rest, w, r, h, hq => by
    rw [simPapersG_cons] at h
    obtain ⟨s', _, h⟩ := bind_eq_ok h
    obtain ⟨r1, h1, rfl⟩ := map_eq_ok h
    exact simPapersG_paperT rest _ r1 h1 (setPaperPx_paperT hq)

theorem simPapersG_keep {d : Nat} {q : List Nat} {px : K} : ∀ (papers : List (List Nat × SimG K)) (w : World K)
    (r : List (List Nat × SimG K) × World K), simPapersG cfg d papers w = .ok r →
    q ∉ papers.map (·.1) → PaperIn px w.root q → PaperIn px r.2.root q
  | [], w, r, h, _, hq => by rw [simPapersG_nil] at h; cases h; exact hq
  | (path, s) :: rest, w, r, h, hn, hq => by
    rw [simPapersG_cons] at h
    obtain ⟨s', _, h⟩ := bind_eq_ok h
    obtain ⟨r1, h1, rfl⟩ := map_eq_ok h
    simp only [List.map_cons, List.mem_cons, not_or] at hn
    exact simPapersG_keep rest _ r1 h1 hn.2 (setPaperPx_paperIn_ne hn.1 hq)

theorem simPapersG_paperIn {d : Nat} : ∀ (papers : List (List Nat × SimG K)) (w : World K)
    (r : List (List Nat × SimG K) × World K), simPapersG cfg d papers w = .ok r →
    (papers.map (·.1)).Nodup → ∀ q s', (q, s') ∈ r.1 → PaperT w.root q → PaperIn s'.world.price r.2.root q
  | [], w, r, h, _, q, s', hm, _ => by rw [simPapersG_nil] at h; cases h; cases hm
  | (path, s) :: rest, w, r, h, hnd, q, s'', hm, hq => by
    rw [simPapersG_cons] at h
    obtain ⟨s', _, h⟩ := bind_eq_ok h
    obtain ⟨r1, h1, rfl⟩ := map_eq_ok h
    simp only [List.map_cons, List.nodup_cons] at hnd
    rcases List.mem_cons.1 hm with heq | hm'
    · cases heq
      obtain ⟨sd, kk, g1, g2⟩ := paperT_iff.1 hq
      exact simPapersG_keep rest _ r1 h1 hnd.1 (setPaperPx_paperIn_self g1 g2)
    · exact simPapersG_paperIn rest _ r1 h1 hnd.2 q s'' hm' (setPaperPx_paperT hq)

theorem simPapersG0_paperT {d : Nat} {q : List Nat} : ∀ (papers : List (List Nat × SimG K)) (w : World K)
    (r : List (List Nat × SimG K) × World K), simPapersG0 cfg d papers w = .ok r →
    PaperT w.root q → PaperT r.2.root q
  | [], w, r, h, hq => by rw [simPapersG0_nil] at h; cases h; exact hq
  | (path, s) :: rest, w, r, h, hq => by
    rw [simPapersG0_cons] at h
    obtain ⟨s', _, h⟩ := bind_eq_ok h
    obtain ⟨r1, h1, rfl⟩ := map_eq_ok h
    exact simPapersG0_paperT rest _ r1 h1 (setPaperPx_paperT hq)

theorem simPapersG0_keep {d : Nat} {q : List Nat} {px : K} : ∀ (papers : List (List Nat × SimG K)) (w : World K)
    (r : List (List Nat × SimG K) × World K), simPapersG0 cfg d papers w = .ok r →
    q ∉ papers.map (·.1) → PaperIn px w.root q → PaperIn px r.2.root q
  | [], w, r, h, _, hq => by rw [simPapersG0_nil] at h; cases h; exact hq
  | (path, s) :: rest, w, r, h, hn, hq => by
    rw [simPapersG0_cons] at h
    obtain ⟨s', _, h⟩ := bind_eq_ok h
    obtain ⟨r1, h1, rfl⟩ := map_eq_ok h
    simp only [List.map_cons, List.mem_cons, not_or] at hn
    exact simPapersG0_keep rest _ r1 h1 hn.2 (setPaperPx_paperIn_ne hn.1 hq)

theorem simPapersG0_paperIn {d : Nat} : ∀ (papers : List (List Nat × SimG K)) (w : World K)
    (r : List (List Nat × SimG K) × World K), simPapersG0 cfg d papers w = .ok r →
    (papers.map (·.1)).Nodup → ∀ q s', (q, s') ∈ r.1 → PaperT w.root q → PaperIn s'.world.price r.2.root q
  | [], w, r, h, _, q, s', hm, _ => by rw [simPapersG0_nil] at h; cases h; cases hm
  | (path, s) :: rest, w, r, h, hnd, q, s'', hm, hq => by
    rw [simPapersG0_cons] at h
    obtain ⟨s', _, h⟩ := bind_eq_ok h
    obtain ⟨r1, h1, rfl⟩ := map_eq_ok h
    simp only [List.map_cons, List.nodup_cons] at hnd
    rcases List.mem_cons.1 hm with heq | hm'
    · cases heq
      obtain ⟨sd, kk, g1, g2⟩ := paperT_iff.1 hq
      exact simPapersG0_keep rest _ r1 h1 hnd.1 (setPaperPx_paperIn_self g1 g2)
    · exact simPapersG0_paperIn rest _ r1 h1 hnd.2 q s'' hm' (setPaperPx_paperT hq)

/-- **one date of a nested backtest** over a tree whose `Strategy.run()` is public: every shadow copy is stepped by
    its own `simDayG`, and at the end of the day every paper-traded strategy of the tree that has a shadow copy shows
    the stepped copy's price as its own price, recorded at row `d` -/
theorem simDayG_child_price {d : Nat} {w : World K} {t : GTree K} {papers : List (List Nat × SimG K)}
    {S' : SimG K} (hpub : P16.RunPublic cfg (treeRunG t [])) (h : simDayG cfg d (.mk w t papers) = .ok S')
    (hnd : (papers.map (·.1)).Nodup) :
    ∃ w' papers', S' = .mk w' t papers' ∧
      List.Forall₂ (fun a b => a.1 = b.1 ∧ simDayG cfg d a.2 = .ok b.2) papers papers' ∧
      ∀ q s', (q, s') ∈ papers' → PaperT w.root q → PaperAt d s'.world.price w'.root q := by
  rw [simDayG_mk] at h
  obtain ⟨r, hr, h⟩ := bind_eq_ok h
  obtain ⟨w2, h2, rfl⟩ := map_eq_ok h
  exact ⟨w2, r.1, rfl, simPapersG_forall₂ _ _ _ hr, fun q s' hm hq =>
    btDay_paperAt16 hpub h2 (simPapersG_paperIn _ _ _ hr hnd q s' hm hq)⟩

theorem simDayG_paperT {d : Nat} {w : World K} {t : GTree K} {papers : List (List Nat × SimG K)} {S' : SimG K}
    {q : List Nat} (hpub : P16.RunPublic cfg (treeRunG t [])) (h : simDayG cfg d (.mk w t papers) = .ok S')
    (hq : PaperT w.root q) : PaperT S'.world.root q := by
  rw [simDayG_mk] at h
  obtain ⟨r, hr, h⟩ := bind_eq_ok h
  obtain ⟨w2, h2, rfl⟩ := map_eq_ok h
  obtain ⟨px, hin⟩ := simPapersG_paperT _ _ _ hr hq
  exact ⟨px, (btDay_paperAt16 hpub h2 hin).paperIn⟩

theorem simLoopG_paperT {q : List Nat} {t : GTree K} (hpub : P16.RunPublic cfg (treeRunG t [])) :
    ∀ (ds : List Nat) {w : World K} {papers : List (List Nat × SimG K)} {S' : SimG K},
    simLoopG cfg ds (.mk w t papers) = .ok S' → PaperT w.root q → PaperT S'.world.root q
  | [], w, papers, S', h, hq => by cases h; exact hq
  | d :: ds, w, papers, S', h, hq => by
    rw [simLoopG_cons] at h
    obtain ⟨S1, h1, h2⟩ := bind_eq_ok h
    obtain ⟨w1, p1, rfl, _⟩ := simDayG_papers h1
    exact simLoopG_paperT hpub ds h2 (simDayG_paperT hpub h1 hq)

/-- the first date of `simRunG` (capital, shadow copies stepped, `update(d0)`): no run function is called -/
theorem simRunG_first_child_price {c : K} {d0 : Nat} {w0 : World K} {t : GTree K}
    {papers : List (List Nat × SimG K)} {S' : SimG K} (h : simRunG cfg c [d0] (.mk w0 t papers) = .ok S')
    (hnd : (papers.map (·.1)).Nodup) :
    ∃ w' papers', S' = .mk w' t papers' ∧
      ∀ q s', (q, s') ∈ papers' → PaperT w0.root q → PaperAt d0 s'.world.price w'.root q := by
  rw [simRunG_mk] at h
  obtain ⟨w1, h1, h⟩ := bind_eq_ok h
  obtain ⟨r, hr, h⟩ := bind_eq_ok h
  obtain ⟨w3, h3, h⟩ := bind_eq_ok h
  cases h
  refine ⟨w3, r.1, rfl, fun q s' hm hq => ?_⟩
  have hl := ((RunC.single (C := fun _ => True) (.adjust _ _ _ _ h1)).lift (paperLaws cfg) (wok_true w0)).1
  obtain ⟨px, hin⟩ := hq
  exact updRoot_paperAt h3 (simPapersG0_paperIn _ _ _ hr hnd q s' hm ⟨px, paperIn_of_lift hl hin⟩)

/-- **a whole nested backtest**: at the end, on the last date, every paper-traded strategy that has a shadow copy
    shows the final copy's price, recorded at that row -/
theorem simRunG_child_price {c : K} {d0 : Nat} {ds : List Nat} {w0 : World K} {t : GTree K}
    {papers : List (List Nat × SimG K)} {S' : SimG K} (hpub : P16.RunPublic cfg (treeRunG t []))
    (h : simRunG cfg c (d0 :: ds) (.mk w0 t papers) = .ok S') (hnd : (papers.map (·.1)).Nodup) :
    ∃ w' papers', S' = .mk w' t papers' ∧
      ∀ q s', (q, s') ∈ papers' → PaperT w0.root q →
        PaperAt (ds.getLastD d0) s'.world.price w'.root q := by
  rcases List.eq_nil_or_concat ds with rfl | ⟨ds', dl, rfl⟩
  · exact simRunG_first_child_price h hnd
  · rw [List.concat_eq_append] at h ⊢
    have hlast : (ds' ++ [dl]).getLastD d0 = dl := by simp
    rw [hlast]
    rw [simRunG_prefix] at h
    obtain ⟨S1, h1, h2⟩ := bind_eq_ok h
    obtain ⟨w1, p1, rfl, f1⟩ := simRunG_papers h1
    rw [simLoopG_cons] at h2
    obtain ⟨S2, h2, h3⟩ := bind_eq_ok h2
    cases h3
    have hnd1 : (p1.map (·.1)).Nodup := by
      rw [← forall₂_pathsG (R := fun a b => simShadowG cfg (d0 :: ds') a = .ok b) f1]; exact hnd
    obtain ⟨w', papers', rfl, _, hp⟩ := simDayG_child_price hpub h2 hnd1
    refine ⟨w', papers', rfl, fun q s' hm hq => hp q s' hm ?_⟩
    rw [simRunG_mk] at h1
    obtain ⟨wa, ha, h1⟩ := bind_eq_ok h1
    obtain ⟨r, hr, h1⟩ := bind_eq_ok h1
    obtain ⟨w3, h3, h1⟩ := bind_eq_ok h1
    have hl := ((RunC.single (C := fun _ => True) (.adjust _ _ _ _ ha)).lift (paperLaws cfg) (wok_true w0)).1
    obtain ⟨px, hin⟩ := hq
    obtain ⟨px', hin'⟩ := simPapersG0_paperT _ _ _ hr ⟨px, paperIn_of_lift hl hin⟩
    exact simLoopG_paperT hpub ds' h1 ⟨px', (updRoot_paperAt h3 hin').paperIn⟩

end price

/-! ### nested backtests of fixed-shape programs are an instance -/

section embedSimThms
variable {K : Type} [Field K] [LinearOrder K] [IsStrictOrderedRing K] [HasFloor K]
variable {cfg : Cfg K}

theorem embedSim_mk (w : World K) (t : ProgTree K) (papers : List (List Nat × Sim K)) :
    embedSim cfg (.mk w t papers) = .mk w (embed cfg t) (embedPapers cfg papers) := by rw [embedSim]
theorem embedPapers_nil : embedPapers cfg ([] : List (List Nat × Sim K)) = [] := by rw [embedPapers]
theorem embedPapers_cons (q : List Nat) (s : Sim K) (rest : List (List Nat × Sim K)) :
    embedPapers cfg ((q, s) :: rest) = (q, embedSim cfg s) :: embedPapers cfg rest := by rw [embedPapers]

theorem embedSim_world (s : Sim K) : (embedSim cfg s).world = s.world := by
  obtain ⟨w, t, papers⟩ := s
  rw [embedSim_mk]; rfl

theorem map_map' {ε α β γ : Type} (x : Except ε α) (f : α → β) (g : β → γ) :
    (x.map f).map g = x.map fun a => g (f a) := by cases x <;> rfl

theorem bind_map' {ε α β γ : Type} (x : Except ε α) (f : α → Except ε β) (g : β → γ) :
    (x.bind f).map g = x.bind fun a => (f a).map g := by cases x <;> rfl

mutual
/-- one date: stepping the embedded `Sim` is the embedding of the stepped `Sim` -/
theorem simDay_embed (d : Nat) : (s : Sim K) → simDayG cfg d (embedSim cfg s) = (simDay cfg d s).map (embedSim cfg)
  | .mk w t papers => by
    rw [embedSim_mk, simDayG_mk, simDay_mk, simPapers_embed d papers w, map_bind', bind_map']
    refine P09.bind_congr' _ fun r _ => ?_
    rw [map_map', ← treeRun_eq_treeRunG_fn]
    simp only [embedSim_mk]
theorem simPapers_embed (d : Nat) : (ps : List (List Nat × Sim K)) → ∀ (w : World K),
    simPapersG cfg d (embedPapers cfg ps) w =
      (simPapers cfg d ps w).map fun r => (embedPapers cfg r.1, r.2)
  | [], w => by rw [embedPapers_nil, simPapersG_nil, simPapers_nil]; rfl
  | (q, s) :: rest, w => by
    rw [embedPapers_cons, simPapersG_cons, simPapers_cons, simDay_embed d s, map_bind', bind_map']
    refine P09.bind_congr' _ fun s' _ => ?_
    rw [embedSim_world, simPapers_embed d rest, map_map', map_map']
    simp only [embedPapers_cons]
end

mutual
/-- the first date: stepping the embedded `Sim` is the embedding of the stepped `Sim` -/
theorem simDay0_embed (d : Nat) : (s : Sim K) → simDayG0 cfg d (embedSim cfg s) = (simDay0 cfg d s).map (embedSim cfg)
  | .mk w t papers => by
    rw [embedSim_mk, simDayG0_mk, simDay0_mk, simPapers0_embed d papers w, map_bind', bind_map']
    refine P09.bind_congr' _ fun r _ => ?_
    rw [map_map']
    simp only [embedSim_mk]
theorem simPapers0_embed (d : Nat) : (ps : List (List Nat × Sim K)) → ∀ (w : World K),
    simPapersG0 cfg d (embedPapers cfg ps) w =
      (simPapers0 cfg d ps w).map fun r => (embedPapers cfg r.1, r.2)
  | [], w => by rw [embedPapers_nil, simPapersG0_nil, simPapers0_nil]; rfl
  | (q, s) :: rest, w => by
    rw [embedPapers_cons, simPapersG0_cons, simPapers0_cons, simDay0_embed d s, map_bind', bind_map']
    refine P09.bind_congr' _ fun s' _ => ?_
    rw [embedSim_world, simPapers0_embed d rest, map_map', map_map']
    simp only [embedPapers_cons]
end

theorem simLoop_embed : ∀ (ds : List Nat) (s : Sim K),
    simLoopG cfg ds (embedSim cfg s) = (simLoop cfg ds s).map (embedSim cfg)
  | [], s => rfl
  | d :: ds, s => by
    rw [simLoopG_cons, simLoop_cons, simDay_embed, map_bind', bind_map']
    exact P09.bind_congr' _ fun s1 _ => simLoop_embed ds s1

theorem simShadow_embed : ∀ (ds : List Nat) (s : Sim K),
    simShadowG cfg ds (embedSim cfg s) = (simShadow cfg ds s).map (embedSim cfg)
  | [], s => rfl
  | d :: ds, s => by
    rw [simShadowG_cons, simShadow_cons, simDay0_embed, map_bind', bind_map']
    exact P09.bind_congr' _ fun s1 _ => simLoop_embed ds s1

/-- **`Backtest.run` of a nested tree of fixed-shape programs** is `simRunG` of its embedding -/
theorem simRun_embed (c : K) (dates : List Nat) (s : Sim K) :
    simRunG cfg c dates (embedSim cfg s) = (simRun cfg c dates s).map (embedSim cfg) := by
  obtain ⟨w0, t, papers⟩ := s
  cases dates with
  | nil => rw [embedSim_mk]; rfl
  | cons d0 ds =>
    rw [embedSim_mk, simRunG_mk, simRun_mk, bind_map']
    refine P09.bind_congr' _ fun w1 _ => ?_
    rw [simPapers0_embed, map_bind', bind_map']
    refine P09.bind_congr' _ fun r _ => ?_
    rw [bind_map']
    refine P09.bind_congr' _ fun w3 _ => ?_
    rw [← simLoop_embed, embedSim_mk]

end embedSimThms

/-! ### after the bankruptcy the run function is irrelevant -/

section bankrupt
variable {K : Type} [Field K] [LinearOrder K] [IsStrictOrderedRing K] [HasFloor K]
variable {cfg : Cfg K}

/-- a complete backtest (any run function) whose first part `d0 :: ds1` ends flagged continues with `root.update` only -/
theorem btRun_bankrupt_rest (run : RunFn K) (capital : K) (d0 : Nat) (ds1 ds2 : List Nat) (w0 wm : World K)
    (h : btRun cfg run capital (d0 :: ds1) w0 = .ok wm) (hb : wm.bankrupt = true) :
    btRun cfg run capital (d0 :: (ds1 ++ ds2)) w0 = P16.updLoop cfg ds2 wm := by
  rw [P09.btRun_prefix, h, bind_ok]
  exact P16.btLoop_bankrupt _ ds2 hb

end bankrupt

/-! ### the rows the programs of a tree carry: only those up to the current row are read -/

section rowsTree
variable {α : Type}

mutual
/-- every program of the tree with what it carries per row of the index cut after row `t` (`PProgF.truncProg`) -/
def truncX (t : Nat) : XTree α → XTree α
  | .node p kids => .node (truncProg t p) (truncXL t kids)
def truncXL (t : Nat) : List (Option (XTree α)) → List (Option (XTree α))
  | [] => []
  | none :: ks => none :: truncXL t ks
  | some x :: ks => some (truncX t x) :: truncXL t ks
end

theorem truncX_node (t : Nat) (p : ProgX α) (kids : List (Option (XTree α))) :
    truncX t (.node p kids) = .node (truncProg t p) (truncXL t kids) := by rw [truncX]
theorem truncXL_nil (t : Nat) : truncXL t ([] : List (Option (XTree α))) = [] := by rw [truncXL]
theorem truncXL_none (t : Nat) (ks : List (Option (XTree α))) : truncXL t (none :: ks) = none :: truncXL t ks := by
  rw [truncXL]
theorem truncXL_some (t : Nat) (x : XTree α) (ks : List (Option (XTree α))) :
    truncXL t (some x :: ks) = some (truncX t x) :: truncXL t ks := by rw [truncXL]

end rowsTree

section rowsTreeK
variable {K : Type} [Field K] [LinearOrder K] [IsStrictOrderedRing K] [HasFloor K] [HasNatFloor K]
variable {cfg : Cfg K}

mutual
/-- `Strategy.run()` of a tree of extended programs at a row `d ≤ t` reads what the programs carry per row up to `t` only -/
theorem treeRunG_truncX {d t : Nat} (h : d ≤ t) : (x : XTree K) → ∀ (path : List Nat) (w : World K),
    treeRunG (embedX cfg (truncX t x)) path d w = treeRunG (embedX cfg x) path d w
  | .node p kids, path, w => by
    rw [truncX_node, embedX_node, embedX_node, treeRunG_node, treeRunG_node, progRunX_truncProg p path h]
    exact P09.bind_congr' _ fun w1 _ => kidsRunG_truncXL h kids path 0 w1
theorem kidsRunG_truncXL {d t : Nat} (h : d ≤ t) : (ks : List (Option (XTree K))) → ∀ (path : List Nat) (i : Nat)
    (w : World K), kidsRunG (embedXL cfg (truncXL t ks)) path i d w = kidsRunG (embedXL cfg ks) path i d w
  | [], path, i, w => by rw [truncXL_nil]
  | none :: ks, path, i, w => by
    rw [truncXL_none, embedXL_none, embedXL_none, kidsRunG_none, kidsRunG_none]
    exact kidsRunG_truncXL h ks path (i + 1) w
  | some x :: ks, path, i, w => by
    rw [truncXL_some, embedXL_some, embedXL_some, kidsRunG_some, kidsRunG_some, treeRunG_truncX h x]
    exact P09.bind_congr' _ fun w1 _ => kidsRunG_truncXL h ks path (i + 1) w1
end

/-- two trees of programs that carry the same rows up to `t` run alike on every row `d ≤ t` -/
theorem treeRunG_rows_agree {x x' : XTree K} {t : Nat} (hxx : truncX t x = truncX t x') (path : List Nat) {d : Nat}
    (h : d ≤ t) (w : World K) : treeRunG (embedX cfg x) path d w = treeRunG (embedX cfg x') path d w := by
  rw [← treeRunG_truncX h x, ← treeRunG_truncX h x', hxx]

end rowsTreeK

end Bt.PProgX
