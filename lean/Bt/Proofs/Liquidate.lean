import Bt.Proofs.LiqTree
import Bt.Proofs.RebalancePath
import Bt.Engine.Backtest
/-! C16 (liquidation): the recursive `flatten` leaves every security of the addressed subtree flat;
    so does the bankruptcy branch of `root.update` for the whole tree.

    The per-security hypotheses are `SecPre` (Bt/Proofs/LiqSec.lean); `Liquidable` asks them of every
    security of a tree.  One hypothesis is about the run rather than the input: no `update` made
    during the liquidation may produce a weight strictly between `0` and `TOL` (`NoDustWeights`),
    because a strategy's value — the denominator of its children's weights — depends on the
    commissions paid while its sub-strategies were liquidated, for an arbitrary commission function. -/
set_option linter.unusedSectionVars false
namespace Bt.P16
open Bt

variable {K : Type} [Field K] [LinearOrder K] [IsStrictOrderedRing K] [HasFloor K]

/-! ### small helpers -/

theorem allNodes_true : (∀ n : Node K, AllNodes (fun _ => True) (fun _ => True) n) ∧
    (∀ l : List (Node K), AllNodesKids (fun _ => True) (fun _ => True) l) := by
  apply Node.induct
  · intro s; simp
  · intro sd ks ih; simpa using ih
  · simp
  · intro k ks h1 h2; simpa using ⟨h1, h2⟩

theorem allNodes_mono {Q Q' : StratData K → Prop} {I I' : SecData K → Prop}
    (hQ : ∀ sd, Q sd → Q' sd) (hI : ∀ s, I s → I' s) :
    (∀ n : Node K, AllNodes Q I n → AllNodes Q' I' n) ∧
    (∀ l : List (Node K), AllNodesKids Q I l → AllNodesKids Q' I' l) := by
  apply Node.induct
  · intro s h; simp only [AllNodes_sec] at *; exact hI _ h
  · intro sd ks ih h; simp only [AllNodes_strat] at *; exact ⟨hQ _ h.1, ih h.2⟩
  · intro _; simp
  · intro k ks h1 h2 h; simp only [AllNodesKids_cons] at *; exact ⟨h1 h.1, h2 h.2⟩

theorem allNodes_and {Q Q' : StratData K → Prop} {I I' : SecData K → Prop} :
    (∀ n : Node K, AllNodes Q I n → AllNodes Q' I' n → AllNodes (fun sd => Q sd ∧ Q' sd) (fun s => I s ∧ I' s) n) ∧
    (∀ l : List (Node K), AllNodesKids Q I l → AllNodesKids Q' I' l →
      AllNodesKids (fun sd => Q sd ∧ Q' sd) (fun s => I s ∧ I' s) l) := by
  apply Node.induct
  · intro s h h'; simp only [AllNodes_sec] at *; exact ⟨h, h'⟩
  · intro sd ks ih h h'; simp only [AllNodes_strat] at *; exact ⟨⟨h.1, h'.1⟩, ih h.2 h'.2⟩
  · intro _ _; simp
  · intro k ks h1 h2 h h'; simp only [AllNodesKids_cons] at *; exact ⟨h1 h.1 h'.1, h2 h.2 h'.2⟩

theorem allSecs_iff_allNodes (S : SecData K → Prop) (n : Node K) :
    AllSecs S n ↔ AllNodes (fun _ => True) S n := Iff.rfl
theorem allSecsKids_iff_allNodesKids (S : SecData K → Prop) (l : List (Node K)) :
    AllSecsKids S l ↔ AllNodesKids (fun _ => True) S l := Iff.rfl

/-- drop the strategy part -/
theorem AllNodes.secs {Q : StratData K → Prop} {I : SecData K → Prop} {n : Node K} (h : AllNodes Q I n) :
    AllSecs I n :=
  (allSecs_iff_allNodes I n).2 ((allNodes_mono (fun _ _ => trivial) (fun _ h => h)).1 n h)

theorem drop_cons_inv {α : Type} : ∀ {l : List α} {i : Nat} {a : α} {rest : List α},
    l.drop i = a :: rest → l[i]? = some a ∧ l.drop (i + 1) = rest
  | [], i, a, rest, h => by simp at h
  | x :: l, 0, a, rest, h => by
    simp only [List.drop_zero, List.cons.injEq] at h
    obtain ⟨rfl, rfl⟩ := h
    simp
  | x :: l, i + 1, a, rest, h => by
    simp only [List.drop_succ_cons] at h
    obtain ⟨h1, h2⟩ := drop_cons_inv h
    exact ⟨by simpa using h1, by simpa using h2⟩

theorem drop_nil_inv {α : Type} : ∀ {l : List α} {i j : Nat}, l.drop i = [] → i ≤ j → l[j]? = none
  | [], i, j, _, _ => by simp
  | x :: l, 0, j, h, _ => by simp at h
  | x :: l, i + 1, 0, _, hij => by omega
  | x :: l, i + 1, j + 1, h, hij => by
    simp only [List.drop_succ_cons] at h
    simp only [List.getElem?_cons_succ]
    exact drop_nil_inv h (by omega)

/-! ### shapes -/

/-- same shape -/
abbrev Sh : Node K → Node K → Prop := TreeRel (fun _ _ _ _ => True) (fun _ _ => True)
abbrev ShL : List (Node K) → List (Node K) → Prop := TreeRelKids (fun _ _ _ _ => True) (fun _ _ => True)

theorem Sh.refl : (∀ n : Node K, Sh n n) ∧ (∀ l : List (Node K), ShL l l) :=
  treeRel_refl (fun _ _ => trivial) (fun _ => trivial)

theorem FRel.sh : (∀ a b : Node K, FRel a b → Sh a b) ∧ (∀ a b : List (Node K), FRelL a b → ShL a b) :=
  treeRel_mono (fun _ _ _ _ _ => trivial) (fun _ _ _ => trivial)

theorem ShL.trans {a b c : List (Node K)} (h1 : ShL a b) (h2 : ShL b c) : ShL a c :=
  (treeRel_trans (fun _ _ _ _ _ _ _ _ => trivial) (fun _ _ _ _ _ => trivial)).2 _ _ _ h1 h2

/-- is there a sub-strategy among the children -/
def hasStrat : List (Node K) → Bool
  | [] => false
  | .sec _ :: ks => hasStrat ks
  | .strat _ _ :: _ => true

theorem noStrat_allSec : ∀ {ks ms : List (Node K)}, hasStrat ks = false → ShL ks ms →
    ∀ k ∈ ms, k.isSec = true
  | [], [], _, _ => by simp
  | [], _ :: _, _, h => by simp [TreeRelKids] at h
  | _ :: _, [], _, h => by simp [TreeRelKids] at h
  | .strat _ _ :: _, _ :: _, h, _ => by simp [hasStrat] at h
  | .sec s :: ks, m :: ms, h, hs => by
    simp only [hasStrat] at h
    simp only [TreeRelKids] at hs
    intro k hk
    rcases List.mem_cons.1 hk with rfl | hk
    · cases k with
      | sec _ => rfl
      | strat _ _ => simp [TreeRel] at hs
    · exact noStrat_allSec h hs.2 k hk

/-! ### `modAt`: the node at the path is replaced, the rest is kept -/

theorem modAt_rel {S : SecData K → SecData K → Prop} (hS : ∀ s, S s s)
    {f : Option (StratData K) → Node K → Except Err (OpRes K)} :
    ∀ (path : List Nat) (par : Option (StratData K)) (n : Node K) (r : OpRes K) (k : Node K),
      n.get? path = some k → modAt f path par n = .ok r →
      ∃ par' r', f par' k = .ok r' ∧ r.1.get? path = some r'.1 ∧ r.2.2 = r'.2.2 ∧
        (TreeRel NowEq S k r'.1 → TreeRel NowEq S n r.1)
  | [], par, n, r, k, hg, h => by
    rw [Rebal.get?_nil] at hg
    cases hg
    rw [modAt] at h
    exact ⟨par, r, h, Rebal.get?_nil _, rfl, fun hr => hr⟩
  | i :: rest, par, .sec s, r, k, hg, h => by simp [Node.get?] at hg
  | i :: rest, par, .strat sd kids, r, k, hg, h => by
    rw [modAt] at h
    cases hc : kids[i]? with
    | none => rw [hc] at h; cases h
    | some c =>
      rw [hc] at h
      simp only at h
      obtain ⟨⟨c', adjs, st⟩, h1, rfl⟩ := Except.map_eq_ok h
      rw [Rebal.get?_cons_strat sd kids i rest c hc] at hg
      obtain ⟨par', r', hf, hg', hst, hrel⟩ := modAt_rel hS rest (some sd) c _ k hg h1
      have hlt : i < kids.length := by
        rcases Nat.lt_or_ge i kids.length with hl | hl
        · exact hl
        · rw [List.getElem?_eq_none hl] at hc; cases hc
      refine ⟨par', r', hf, ?_, hst, fun hr => ?_⟩
      · show (Node.strat _ (kids.set i c')).get? (i :: rest) = _
        rw [Rebal.get?_cons_strat _ (kids.set i c') i rest c' (List.getElem?_set_self hlt)]
        exact hg'
      · show TreeRel NowEq S (.strat sd kids) (.strat _ (kids.set i c'))
        simp only [TreeRel]
        exact ⟨P08.foldl_adjust_now adjs sd,
          treeRelKids_set (treeRel_refl (fun _ _ => rfl) hS).2 kids i hc (hrel hr)⟩

/-! ### the invariant of a liquidation on date `d` -/

/-- the root is a strategy; every strategy's clock is `d`; every security satisfies `SecPre`; and
    when nothing is pending (`stale = false`) every security is in the state `update(d)` leaves -/
structure Inv (cfg : Cfg K) (d : Nat) (w : World K) : Prop where
  root : ∃ sd ks, w.root = .strat sd ks
  pre : AllNodes (Qd d) (SecPre cfg d) w.root
  fresh : w.stale = false → AllNodes (Qd d) (SecLiq cfg d) w.root

theorem FRel.root {a b : Node K} (h : FRel a b) (ha : ∃ sd ks, a = .strat sd ks) :
    ∃ sd ks, b = .strat sd ks := by
  obtain ⟨sd, ks, rfl⟩ := ha
  cases b with
  | sec _ => simp [TreeRel] at h
  | strat sd' ks' => exact ⟨sd', ks', rfl⟩

theorem inert_of {cfg : Cfg K} {d : Nat} :
    (∀ n : Node K, AllNodes (Qd d) (SecPre cfg d) n → n.allFlat → AllSecs W3 n → InertN cfg d n) ∧
    (∀ l : List (Node K), AllNodesKids (Qd d) (SecPre cfg d) l → allFlatL l → AllSecsKids W3 l →
      AllNodesKids (Qd d) (InertS cfg d) l) := by
  apply Node.induct
  · intro s hp hf hw
    simp only [AllNodes_sec, allFlat_sec, AllSecs_sec] at *
    exact ⟨hp, hf, hw hf⟩
  · intro sd ks ih hp hf hw
    simp only [AllNodes_strat, allFlat_strat, AllSecs_strat] at *
    exact ⟨hp.1, ih hp.2 hf hw⟩
  · intro _ _ _; simp
  · intro k ks ihk ihks hp hf hw
    simp only [AllNodesKids_cons, allFlatL_cons, AllSecsKids_cons] at *
    exact ⟨ihk hp.1 hf.1 hw.1, ihks hp.2 hf.2 hw.2⟩

/-- the children of a strategy are ready for its `flatten` -/
theorem kidsReady_of {cfg : Cfg K} {d : Nat} {ks : List (Node K)}
    (hpre : AllNodesKids (Qd d) (SecPre cfg d) ks) (hliq : AllNodesKids (Qd d) (SecLiq cfg d) ks)
    (hflat : ∀ k ∈ ks, k.isSec = false → k.allFlat ∧ AllSecs W3 k) : ∀ k ∈ ks, KidReady cfg d k := by
  intro k hk
  obtain ⟨j, hj⟩ := List.mem_iff_getElem?.1 hk
  have hp := hpre.getElem? hj
  have hl := hliq.getElem? hj
  cases k with
  | sec s =>
    simp only [AllNodes_sec] at hp hl
    exact ⟨hl, hp.ndw⟩
  | strat sd kk =>
    obtain ⟨hf, hw⟩ := hflat _ hk rfl
    exact inert_of.1 _ hp hf hw

/-- one `flatten` step at a path -/
theorem modify_flat {cfg : Cfg K} (htol : 0 < cfg.tol) {d : Nat} {w w' : World K} {path : List Nat}
    {k : Node K} (hg : w.root.get? path = some k) (hr : FlatReady cfg d k)
    (h : w.modify path (P08.flatF cfg) = .ok w') :
    TRel cfg d w.root w'.root ∧ w'.stale = true ∧ ∃ k', w'.root.get? path = some k' ∧ k'.allFlat := by
  unfold World.modify at h
  obtain ⟨⟨r, adjs, st⟩, hm, rfl⟩ := Except.map_eq_ok h
  obtain ⟨par', r', hf, hg', hst, hrel⟩ :=
    modAt_rel (S := TStep cfg d) (fun _ => ⟨fun h => h, fun h => h⟩) path none w.root _ k hg hm
  obtain ⟨hc, hs⟩ := flatF_flat htol hr hf
  refine ⟨hrel (CRel.toT.1 _ _ hc), ?_, r'.1, hg', CRel.allFlat.1 _ _ hc⟩
  simp only at hst
  show (w.stale || st) = true
  rw [hst, hs]; simp

/-! ### the recursive `flatten` -/

section Flatten
variable {cfg : Cfg K} {d : Nat} {rf : World K → Except Err (World K)} {Jw : World K → Prop}

mutual
/-- **`flatten` on any tree.**  `rf` is the refresh a value getter triggers, `Jw` any world property
    the run maintains (used for the no-dust-weights hypothesis).  If the invariant `Inv` holds, the
    node at `path` has the shape the recursion follows, and the call returns, then every security below
    `path` has position `0`; the invariant still holds, flat securities elsewhere stayed flat, and the
    world is stale. -/
theorem flattenAt_flat (htol : 0 < cfg.tol)
    (hJmod : ∀ path w w', Jw w → w.modify path (P08.flatF cfg) = .ok w' → Jw w')
    (hrf : ∀ w w', Jw w → Inv cfg d w → w.stale = true → rf w = .ok w' →
      Jw w' ∧ Inv cfg d w' ∧ w'.stale = false ∧ AllSecs W3 w'.root ∧ FRel w.root w'.root) :
    (n : Node K) → ∀ (path : List Nat) (w w' : World K) (m : Node K), Jw w → Inv cfg d w →
      w.root.get? path = some m → Sh n m → flattenAt cfg rf n path w = .ok w' →
      Jw w' ∧ Inv cfg d w' ∧ FRel w.root w'.root ∧ w'.stale = true ∧
        ∃ m', w'.root.get? path = some m' ∧ m'.allFlat
  | .sec s, path, w, w', m, _, _, _, _, h => by rw [flattenAt.eq_1] at h; cases h
  | .strat sd0 kids, path, w, w', m, hJ, hI, hg, hsh, h => by
    rw [P08.flattenAt_strat] at h
    obtain ⟨w1, h1, h⟩ := Except.bind_eq_ok h
    cases m with
    | sec _ => simp [TreeRel] at hsh
    | strat sdm mks =>
    simp only [TreeRel] at hsh
    obtain ⟨hJ1, hI1, hF1, hst1, hsame1, sd1, mks1, hg1, hflat1⟩ :=
      flattenSubs_flat htol hJmod hrf kids path 0 w w1 sdm mks hJ hI hg (by simpa using hsh.2) h1
    rw [hg1] at h
    simp only at h
    obtain ⟨w2, h2, h⟩ := Except.bind_eq_ok h
    -- the world the single-level liquidation runs in, and its node at `path`
    have key : Jw w2 ∧ Inv cfg d w2 ∧ FRel w1.root w2.root ∧
        ∃ k2, w2.root.get? path = some k2 ∧ FlatReady cfg d k2 := by
      have hn1 := AllNodes.get? path hI1.pre hg1
      simp only [AllNodes_strat] at hn1
      by_cases hc : (!sd1.fixedIncome && !mks1.isEmpty && w1.stale) = true
      · -- the getter refreshes
        rw [if_pos hc] at h2
        have hs1 : w1.stale = true := by
          simp only [Bool.and_eq_true] at hc; exact hc.2
        obtain ⟨hJ2, hI2, hst2, hW2, hF2⟩ := hrf w1 w2 hJ1 hI1 hs1 h2
        obtain ⟨k2, hg2, hrel2⟩ := treeRel_get? path hF2 hg1
        refine ⟨hJ2, hI2, hF2, k2, hg2, ?_⟩
        cases k2 with
        | sec _ => simp [TreeRel] at hrel2
        | strat sd2 mks2 =>
          simp only [TreeRel] at hrel2
          have hp2 := AllNodes.get? path hI2.pre hg2
          have hl2 := AllNodes.get? path (hI2.fresh hst2) hg2
          have hw2 := AllNodes.get? path ((allSecs_iff_allNodes _ _).1 hW2) hg2
          simp only [AllNodes_strat] at hp2 hl2 hw2
          refine ⟨hp2.1, ?_⟩
          split
          · exact hp2.2
          · refine kidsReady_of hp2.2 hl2.2 (fun k hk hks => ?_)
            obtain ⟨j, hj⟩ := List.mem_iff_getElem?.1 hk
            obtain ⟨k1, hj1, hr1⟩ := treeRelKids_getElem?' hrel2.2 hj
            have hk1 : k1.isSec = false := by
              cases k1 with
              | sec _ => cases k <;> simp [TreeRel, Node.isSec] at hr1 hks
              | strat _ _ => rfl
            exact ⟨FRel.allFlat hr1 (hflat1 j k1 (Nat.zero_le _) hj1 hk1),
              (allSecs_iff_allNodes _ _).2 (hw2.2.getElem? hj)⟩
      · -- no refresh
        rw [if_neg hc] at h2
        cases (Except.pure_eq_ok h2)
        refine ⟨hJ1, hI1, FRel.refl.1 _, _, hg1, hn1.1, ?_⟩
        split
        · exact hn1.2
        · rename_i hfi
          have hfi' : sd1.fixedIncome = false := by simpa using hfi
          intro k hk
          have hne : mks1.isEmpty = false := by
            cases mks1 with
            | nil => cases hk
            | cons _ _ => rfl
          have hs1 : w1.stale = false := by
            simpa [hfi', hne] using hc
          -- no sub-strategy was flattened: all children are securities of a fresh world
          have hns : hasStrat kids = false := by
            cases hh : hasStrat kids
            · rfl
            · rw [hst1 hh] at hs1; cases hs1
          have hw : w1 = w := hsame1 hns
          subst hw
          rw [hg] at hg1
          cases hg1
          have hl1 := AllNodes.get? path (hI.fresh hs1) hg
          simp only [AllNodes_strat] at hl1
          refine kidsReady_of hn1.2 hl1.2 (fun k' hk' hks' => ?_) k hk
          rw [noStrat_allSec hns hsh.2 k' hk'] at hks'
          cases hks'
    obtain ⟨hJ2, hI2, hF2, k2, hg2, hr2⟩ := key
    obtain ⟨hT, hst', k', hg', hf'⟩ := modify_flat htol hg2 hr2 h
    refine ⟨hJmod _ _ _ hJ2 h, ⟨FRel.root hT.toF hI2.root, hT.pre hI2.pre, fun hs => ?_⟩,
      (hF1.trans hF2).trans hT.toF, hst', k', hg', hf'⟩
    rw [hst'] at hs; cases hs

theorem flattenSubs_flat (htol : 0 < cfg.tol)
    (hJmod : ∀ path w w', Jw w → w.modify path (P08.flatF cfg) = .ok w' → Jw w')
    (hrf : ∀ w w', Jw w → Inv cfg d w → w.stale = true → rf w = .ok w' →
      Jw w' ∧ Inv cfg d w' ∧ w'.stale = false ∧ AllSecs W3 w'.root ∧ FRel w.root w'.root) :
    (ks : List (Node K)) → ∀ (path : List Nat) (i : Nat) (w w' : World K) (sdm : StratData K)
      (mks : List (Node K)), Jw w → Inv cfg d w → w.root.get? path = some (.strat sdm mks) →
      ShL ks (mks.drop i) → flattenSubs cfg rf ks path i w = .ok w' →
      Jw w' ∧ Inv cfg d w' ∧ FRel w.root w'.root ∧ (hasStrat ks = true → w'.stale = true) ∧
        (hasStrat ks = false → w' = w) ∧
        ∃ sd' mks', w'.root.get? path = some (.strat sd' mks') ∧
          ∀ j k, i ≤ j → mks'[j]? = some k → k.isSec = false → k.allFlat
  | [], path, i, w, w', sdm, mks, hJ, hI, hg, hsh, h => by
    rw [flattenSubs.eq_1] at h
    cases (Except.pure_eq_ok h)
    refine ⟨hJ, hI, FRel.refl.1 _, fun hh => by simp [hasStrat] at hh, fun _ => rfl, sdm, mks, hg, ?_⟩
    intro j k hij hj
    have hd : mks.drop i = [] := by
      cases hm : mks.drop i with
      | nil => rfl
      | cons _ _ => rw [hm] at hsh; simp [TreeRelKids] at hsh
    rw [drop_nil_inv hd hij] at hj; cases hj
  | .strat a a1 :: ks, path, i, w, w', sdm, mks, hJ, hI, hg, hsh, h => by
    rw [flattenSubs.eq_2] at h
    obtain ⟨w1, h1, h⟩ := Except.bind_eq_ok h
    cases hm : mks.drop i with
    | nil => rw [hm] at hsh; simp [TreeRelKids] at hsh
    | cons m0 rest =>
    rw [hm] at hsh
    simp only [TreeRelKids] at hsh
    obtain ⟨hi0, hrest⟩ := drop_cons_inv hm
    have hgi : w.root.get? (path ++ [i]) = some m0 := by
      rw [Rebal.get?_child path w.root sdm mks i hg]; exact hi0
    obtain ⟨hJ1, hI1, hF1, hst1, m0', hgi1, hfl1⟩ :=
      flattenAt_flat htol hJmod hrf (.strat a a1) (path ++ [i]) w w1 m0 hJ hI hgi hsh.1 h1
    obtain ⟨n1, hg1, hr1⟩ := treeRel_get? path hF1 hg
    cases n1 with
    | sec _ => simp [TreeRel] at hr1
    | strat sd1 mks1 =>
    simp only [TreeRel] at hr1
    have hsh1 : ShL ks (mks1.drop (i + 1)) := by
      rw [← hrest] at hsh
      exact ShL.trans hsh.2 (FRel.sh.2 _ _ (treeRelKids_drop (i + 1) hr1.2))
    obtain ⟨hJ', hI', hF', hst', hsame', sd', mks', hg', hfl'⟩ :=
      flattenSubs_flat htol hJmod hrf ks path (i + 1) w1 w' sd1 mks1 hJ1 hI1 hg1 hsh1 h
    refine ⟨hJ', hI', hF1.trans hF', fun _ => ?_, fun hh => by simp [hasStrat] at hh, sd', mks', hg', ?_⟩
    · cases hh : hasStrat ks
      · rw [hsame' hh]; exact hst1
      · exact hst' hh
    · intro j k hij hj hk
      rcases Nat.eq_or_lt_of_le hij with rfl | hlt
      · -- the sub-strategy just flattened: flat in `w1`, still flat in `w'`
        have hi1 : mks1[i]? = some m0' := by
          rw [← Rebal.get?_child path w1.root sd1 mks1 i hg1]; exact hgi1
        obtain ⟨n', hgn', hrn'⟩ := treeRel_get? path hF' hg1
        rw [hg'] at hgn'
        cases hgn'
        simp only [TreeRel] at hrn'
        obtain ⟨k', hk', hrk'⟩ := treeRelKids_getElem? hrn'.2 hi1
        rw [hj] at hk'
        cases hk'
        exact FRel.allFlat hrk' hfl1
      · exact hfl' j k hlt hj hk
  | .sec a :: ks, path, i, w, w', sdm, mks, hJ, hI, hg, hsh, h => by
    rw [flattenSubs.eq_3] at h
    cases hm : mks.drop i with
    | nil => rw [hm] at hsh; simp [TreeRelKids] at hsh
    | cons m0 rest =>
    rw [hm] at hsh
    simp only [TreeRelKids] at hsh
    obtain ⟨hi0, hrest⟩ := drop_cons_inv hm
    rw [← hrest] at hsh
    obtain ⟨hJ', hI', hF', hst', hsame', sd', mks', hg', hfl'⟩ :=
      flattenSubs_flat htol hJmod hrf ks path (i + 1) w w' sdm mks hJ hI hg hsh.2 h
    refine ⟨hJ', hI', hF', fun hh => hst' (by simpa [hasStrat] using hh),
      fun hh => hsame' (by simpa [hasStrat] using hh), sd', mks', hg', ?_⟩
    intro j k hij hj hk
    rcases Nat.eq_or_lt_of_le hij with rfl | hlt
    · -- child `i` is a security
      obtain ⟨n', hgn', hrn'⟩ := treeRel_get? path hF' hg
      rw [hg'] at hgn'
      cases hgn'
      simp only [TreeRel] at hrn'
      obtain ⟨k', hk', hrk'⟩ := treeRelKids_getElem? hrn'.2 hi0
      rw [hj] at hk'
      cases hk'
      cases m0 with
      | strat _ _ => simp [TreeRel] at hsh
      | sec _ => cases k <;> simp [TreeRel, Node.isSec] at hrk' hk
    · exact hfl' j k hlt hj hk
end

end Flatten

/-! ### `update(d)` of a whole tree, as a step of the liquidation -/

theorem URel.toF {cfg : Cfg K} {d : Nat} :
    (∀ a b : Node K, URel cfg d a b → AllNodes (Qd d) (fun _ => True) a → FRel a b) ∧
    (∀ a b : List (Node K), URelL cfg d a b → AllNodesKids (Qd d) (fun _ => True) a → FRelL a b) :=
  TreeRel.imp_of_all (QA := Qd d) (A := fun _ => True)
    (fun _ _ _ _ hp hq => hp.trans hq.symm) (fun _ _ hs _ hp => by rw [hs.1]; exact hp)

theorem URel.liq {cfg : Cfg K} {d : Nat} :
    (∀ a b : Node K, URel cfg d a b → AllNodes (Qd d) (SecLiq cfg d) b) ∧
    (∀ a b : List (Node K), URelL cfg d a b → AllNodesKids (Qd d) (SecLiq cfg d) b) :=
  ⟨fun a b h => (TreeRel.transferAll (QA := fun _ => True) (QB := Qd d) (A := fun _ => True)
      (B := SecLiq cfg d) (fun _ _ _ _ hp _ => hp) (fun _ _ hs _ => hs.2)).1 a b h (allNodes_true.1 a),
   fun a b h => (TreeRel.transferAll (QA := fun _ => True) (QB := Qd d) (A := fun _ => True)
      (B := SecLiq cfg d) (fun _ _ _ _ hp _ => hp) (fun _ _ hs _ => hs.2)).2 a b h (allNodes_true.2 a)⟩

/-- `SecLiq` everywhere plus no dust weight gives `SecPre` everywhere -/
theorem pre_of_liq {cfg : Cfg K} {d : Nat} {n : Node K} (hl : AllNodes (Qd d) (SecLiq cfg d) n)
    (hw : AllSecs (NDW cfg) n) : AllNodes (Qd d) (SecPre cfg d) n :=
  (allNodes_mono (fun _ h => h.1) (fun _ h => h.1.pre h.2)).1 n
    (allNodes_and.1 n hl ((allSecs_iff_allNodes _ _).1 hw))

/-- **`update(d)` never moves a position**: a flat tree stays flat -/
theorem updNode_allFlat {cfg : Cfg K} {d : Nat} {n n' : Node K} (h : updNode cfg d n = .ok n')
    (hf : n.allFlat) : n'.allFlat :=
  (TreeRel.transfer (A := fun s => s.position = 0) (B := fun s => s.position = 0)
    (fun _ _ hs hp => by rw [hs.position]; exact hp)).1 n n' (updNode_updRel h) hf

/-- what one `update(d)` of a tree rooted at a strategy establishes -/
theorem updNode_post {cfg : Cfg K} {d : Nat} {sd : StratData K} {ks : List (Node K)} {n : Node K}
    (hp : AllNodes (Qd d) (SecPre cfg d) (.strat sd ks)) (h : updNode cfg d (.strat sd ks) = .ok n) :
    AllNodes (Qd d) (SecLiq cfg d) n ∧ AllSecs W3 n ∧ FRel (.strat sd ks) n ∧
      ∃ sd' ks', n = .strat sd' ks' := by
  obtain ⟨hrel, hw⟩ := updNode_liq _ _ (AllNodes.secs hp) h
  obtain ⟨sd', ks', rfl⟩ := P08.updNode_strat_isStrat h
  refine ⟨URel.liq.1 _ _ hrel, ?_, URel.toF.1 _ _ hrel
    ((allNodes_mono (fun _ h => h) (fun _ _ => trivial)).1 _ hp), sd', ks', rfl⟩
  simp only [AllSecs_strat]
  exact hw _ _ rfl

/-! ### the run of a liquidation -/

/-- the tree `root.update(d)` holds when it tests for bankruptcy and liquidates: date change done, children
    updated for `d`, swept coupons booked, the flag set, own totals not yet written -/
def liqStart (cfg : Cfg K) (d : Nat) (w : World K) : Except Err (World K) :=
  match w.root with
  | .sec _ => throw Err.badPath
  | .strat sd kids =>
    (updKids cfg d (stratDateChange d sd).2 (stratDateChange d sd).1.bidofferSet kids
      ⟨(stratDateChange d sd).1.capital, 0, 0, 0⟩).map fun r =>
      { root := .strat { stratPre d sd r.2.coupons with bankrupt := true } r.1, stale := false }

/-- the worlds a liquidation started in `w0` can pass through: the moves are the entry into the
    bankruptcy step, the getter refresh inside it (`refreshNB`), one level of `flatten` at any path, and a
    whole `root.update` (the getter refresh of a user-called `flatten`) -/
inductive LiqReach (cfg : Cfg K) (w0 : World K) : World K → Prop
  | start : LiqReach cfg w0 w0
  | enter {w wB : World K} (d : Nat) : LiqReach cfg w0 w → liqStart cfg d w = .ok wB → LiqReach cfg w0 wB
  | refresh {w w' : World K} : LiqReach cfg w0 w → refreshNB cfg w = .ok w' → LiqReach cfg w0 w'
  | flat {w w' : World K} (path : List Nat) : LiqReach cfg w0 w →
      w.modify path (P08.flatF cfg) = .ok w' → LiqReach cfg w0 w'
  | update {w w' : World K} (d : Nat) : LiqReach cfg w0 w → updRoot cfg d w = .ok w' → LiqReach cfg w0 w'

/-- **The hypothesis on the run**: in no world the liquidation passes through does a security carry a
    weight strictly between `0` and `TOL` in absolute value.  (Weights are rewritten by every `update`
    as `value / parent value`; the parent's value depends on the commissions and spreads paid so far,
    so for an arbitrary commission function this cannot be reduced to a condition on the input.)
    `Bt.C16.witness_dust_weight_reopens` shows what happens otherwise. -/
def NoDustWeights (cfg : Cfg K) (w0 : World K) : Prop :=
  ∀ w, LiqReach cfg w0 w → AllSecs (NDW cfg) w.root

/-- **`Liquidable cfg d n`**: every security of the tree satisfies `SecPre cfg d` (see there for what
    each clause excludes) — the hypothesis on the tree a liquidation on date `d` starts from. -/
def Liquidable (cfg : Cfg K) (d : Nat) (n : Node K) : Prop := AllSecs (SecPre cfg d) n

/-- every strategy of the tree has its clock at `d` (true after any `root.update(d)`) -/
def ClocksAt (d : Nat) (n : Node K) : Prop := AllNodes (Qd d) (fun _ => True) n

theorem Liquidable.withClocks {cfg : Cfg K} {d : Nat} {n : Node K} (h : Liquidable cfg d n)
    (hc : ClocksAt d n) : AllNodes (Qd d) (SecPre cfg d) n :=
  (allNodes_mono (fun _ h => h.1) (fun _ h => h.2)).1 n
    (allNodes_and.1 n hc ((allSecs_iff_allNodes _ _).1 h))

/-- the getter refresh inside the bankruptcy step, as a step of `flattenAt_flat` -/
theorem refreshNB_step' {cfg : Cfg K} {d : Nat} {w w' : World K}
    (hI : Inv cfg d w) (h : refreshNB cfg w = .ok w') (hnd : AllSecs (NDW cfg) w'.root) :
    Inv cfg d w' ∧ w'.stale = false ∧ AllSecs W3 w'.root ∧ FRel w.root w'.root := by
  obtain ⟨sd, ks, hr⟩ := hI.root
  have hp := hI.pre
  rw [hr] at hp
  have hnow : sd.now = some d := by simp only [AllNodes_strat] at hp; exact hp.1
  unfold refreshNB at h
  rw [hr] at h
  simp only [Node.now, hnow] at h
  obtain ⟨n, hn, rfl⟩ := Except.map_eq_ok h
  obtain ⟨hl, hw, hF, hroot⟩ := updNode_post hp hn
  refine ⟨⟨hroot, pre_of_liq hl hnd, fun _ => hl⟩, rfl, hw, ?_⟩
  rw [hr]; exact hF

theorem refreshNB_step {cfg : Cfg K} {d : Nat} {w0 w w' : World K} (hND : NoDustWeights cfg w0)
    (hJ : LiqReach cfg w0 w) (hI : Inv cfg d w) (h : refreshNB cfg w = .ok w') :
    LiqReach cfg w0 w' ∧ Inv cfg d w' ∧ w'.stale = false ∧ AllSecs W3 w'.root ∧ FRel w.root w'.root :=
  ⟨LiqReach.refresh hJ h, refreshNB_step' hI h (hND _ (LiqReach.refresh hJ h))⟩

/-- the world the bankruptcy step starts from satisfies the invariant -/
theorem liqStart_inv {cfg : Cfg K} {d : Nat} {w wB : World K} (hpre : AllSecs (SecPre cfg d) w.root)
    (h : liqStart cfg d w = .ok wB) (hnd : AllSecs (NDW cfg) wB.root) :
    Inv cfg d wB ∧ wB.stale = false ∧
      ∃ sd kids sdB kids1, w.root = .strat sd kids ∧ wB.root = .strat sdB kids1 ∧ sdB.now = some d ∧
        URelL cfg d kids kids1 := by
  unfold liqStart at h
  cases hr : w.root with
  | sec s => rw [hr] at h; cases h
  | strat sd kids =>
    rw [hr] at h hpre
    simp only at h
    obtain ⟨⟨kids1, acc⟩, hk, rfl⟩ := Except.map_eq_ok h
    simp only [AllSecs_strat] at hpre
    obtain ⟨hrel, _⟩ := updKids_liq kids _ _ _ _ _ hpre hk
    have hnow : ({ stratPre d sd acc.coupons with bankrupt := true } : StratData K).now = some d :=
      stratDateChange_now d sd
    have hl : AllNodes (Qd d) (SecLiq cfg d)
        (.strat { stratPre d sd acc.coupons with bankrupt := true } kids1) := by
      simp only [AllNodes_strat]
      exact ⟨hnow, URel.liq.2 _ _ hrel⟩
    exact ⟨⟨⟨_, _, rfl⟩, pre_of_liq hl hnd, fun _ => hl⟩, rfl, sd, kids, _, kids1, rfl, rfl, hnow, hrel⟩

/-- **the bankruptcy step proper**: from a world satisfying the invariant, `flatten` of the whole tree
    followed by `update(d)` leaves every security flat -/
theorem liquidate_flat {cfg : Cfg K} (htol : 0 < cfg.tol) {d : Nat} {w0 wB wF : World K} {n : Node K}
    (hND : NoDustWeights cfg w0) (hJ : LiqReach cfg w0 wB) (hI : Inv cfg d wB)
    (hfl : flattenAt cfg (refreshNB cfg) wB.root [] wB = .ok wF) (hn : updNode cfg d wF.root = .ok n) :
    LiqReach cfg w0 wF ∧ wF.root.allFlat ∧ n.allFlat ∧ FRel wB.root n ∧
      AllNodes (Qd d) (SecLiq cfg d) n ∧ AllSecs W3 n ∧ ∃ sd' ks', n = .strat sd' ks' := by
  obtain ⟨hJF, hIF, hF, _, m', hg', hf'⟩ :=
    flattenAt_flat (Jw := LiqReach cfg w0) htol (fun path _ _ hJ h => LiqReach.flat path hJ h)
      (fun _ _ hJ hI _ h => refreshNB_step hND hJ hI h)
      wB.root [] wB wF wB.root hJ hI (Rebal.get?_nil _) (Sh.refl.1 _) hfl
  rw [Rebal.get?_nil] at hg'
  cases hg'
  obtain ⟨sdF, ksF, hrF⟩ := hIF.root
  have hpF := hIF.pre
  rw [hrF] at hpF hn
  obtain ⟨hl, hw, hFn, hroot⟩ := updNode_post hpF hn
  rw [← hrF] at hFn
  exact ⟨hJF, hf', FRel.allFlat hFn hf', hF.trans hFn, hl, hw, hroot⟩

/-- `BankruptTree` of `Bt.Proofs.Root` in terms of `liqStart` -/
theorem bankruptTree_liqStart {cfg : Cfg K} {d : Nat} {w : World K} {n0 : Node K}
    (h : BankruptTree cfg d w n0) :
    ∃ wB wF, liqStart cfg d w = .ok wB ∧ flattenAt cfg (refreshNB cfg) wB.root [] wB = .ok wF ∧
      n0 = wF.root := by
  obtain ⟨sd, kids, kids1, acc, wF, hr, hk, _, _, _, _, hfl, rfl⟩ := h
  refine ⟨⟨.strat { stratPre d sd acc.coupons with bankrupt := true } kids1, false⟩, wF, ?_, hfl, rfl⟩
  unfold liqStart
  rw [hr]
  simp only [hk]
  rfl

/-- **Bankruptcy ⇒ everything flat.**  If `root.update(d)` returns with the flag newly set, every
    security of the tree has position `0`, and the tree is in the state `update(d)` leaves. -/
theorem updRoot_bankrupt_post {cfg : Cfg K} (htol : 0 < cfg.tol) {d : Nat} {w w' : World K}
    (hpre : AllSecs (SecPre cfg d) w.root) (hND : NoDustWeights cfg w)
    (h : updRoot cfg d w = .ok w') (hb : w.bankrupt = false) (hb' : w'.bankrupt = true) :
    w'.root.allFlat ∧ AllNodes (Qd d) (SecLiq cfg d) w'.root := by
  obtain ⟨_, n0, hn, hc⟩ := updRoot_inv h
  rcases hc with rfl | hc
  · -- no liquidation: the flag cannot have changed
    exfalso
    cases hr : w.root with
    | sec s => rw [hr] at hn; obtain ⟨s', _, hs'⟩ := updNode_sec_inv hn; simp [World.bankrupt, hs'] at hb'
    | strat sd ks =>
      rw [hr] at hn
      obtain ⟨sd', ks', hs', hbk⟩ := P08.updNode_strat_bankrupt hn
      simp only [World.bankrupt, hr] at hb
      simp only [World.bankrupt, hs'] at hb'
      rw [hbk, hb] at hb'
      cases hb'
  · obtain ⟨wB, wF, hs, hfl, rfl⟩ := bankruptTree_liqStart hc
    have hJ : LiqReach cfg w wB := LiqReach.enter d LiqReach.start hs
    obtain ⟨hI, _, _⟩ := liqStart_inv hpre hs (hND _ hJ)
    obtain ⟨_, _, hf, _, hl, _, _⟩ := liquidate_flat htol hND hJ hI hfl hn
    exact ⟨hf, hl⟩

theorem updRoot_bankrupt_flat {cfg : Cfg K} (htol : 0 < cfg.tol) {d : Nat} {w w' : World K}
    (hpre : AllSecs (SecPre cfg d) w.root) (hND : NoDustWeights cfg w)
    (h : updRoot cfg d w = .ok w') (hb : w.bankrupt = false) (hb' : w'.bankrupt = true) :
    w'.root.allFlat :=
  (updRoot_bankrupt_post htol hpre hND h hb hb').1

/-- a flat security in the state `update(d)` leaves, marked on `d`, has `0` in its position row at `d` -/
theorem SecLiq.row_zero {cfg : Cfg K} {d : Nat} {s : SecData K} (h : SecLiq cfg d s) (hp : s.position = 0)
    (hnow : s.now = some d) (hlen : d < s.rPosition.length) : s.rPosition[d]? = some 0 := by
  rw [h.rowp hnow hlen, h.last, hp]

/-- … and the position rows at `d` record it, for every security marked on `d` -/
theorem updRoot_bankrupt_rows {cfg : Cfg K} (htol : 0 < cfg.tol) {d : Nat} {w w' : World K}
    (hpre : AllSecs (SecPre cfg d) w.root) (hND : NoDustWeights cfg w)
    (h : updRoot cfg d w = .ok w') (hb : w.bankrupt = false) (hb' : w'.bankrupt = true) :
    AllSecs (fun s => s.position = 0 ∧
      (s.now = some d → d < s.rPosition.length → s.rPosition[d]? = some 0)) w'.root := by
  obtain ⟨hf, hl⟩ := updRoot_bankrupt_post htol hpre hND h hb hb'
  have := allNodes_and.1 _ hl ((allSecs_iff_allNodes _ _).1 hf)
  exact (allSecs_iff_allNodes _ _).2
    ((allNodes_mono (fun _ _ => trivial) (fun s hs => ⟨hs.2, hs.1.row_zero hs.2⟩)).1 _ this)

/-! ### a user-called `flatten` -/

/-- the getter refresh of a user-called `flatten` (a whole `root.update`, which may itself liquidate),
    as a step of `flattenAt_flat` -/
theorem refresh_step {cfg : Cfg K} (htol : 0 < cfg.tol) {d : Nat} {w0 w w' : World K}
    (hND : NoDustWeights cfg w0) (hJ : LiqReach cfg w0 w) (hI : Inv cfg d w) (hs : w.stale = true)
    (h : refresh cfg w = .ok w') :
    LiqReach cfg w0 w' ∧ Inv cfg d w' ∧ w'.stale = false ∧ AllSecs W3 w'.root ∧ FRel w.root w'.root := by
  obtain ⟨sd, ks, hr⟩ := hI.root
  have hp := hI.pre
  rw [hr] at hp
  have hnow : sd.now = some d := by simp only [AllNodes_strat] at hp; exact hp.1
  rcases refresh_inv h with ⟨hs', _⟩ | ⟨_, d', hd', hu⟩
  · rw [hs] at hs'; cases hs'
  · rw [hr] at hd'
    have hdd : d' = d := by
      have : sd.now = some d' := hd'
      rw [hnow] at this; cases this; rfl
    subst hdd
    have hJ' := LiqReach.update d' hJ hu
    have hnd := hND _ hJ'
    obtain ⟨hst, n0, hn, hc⟩ := updRoot_inv hu
    rcases hc with rfl | hc
    · rw [hr] at hn
      obtain ⟨hl, hw, hF, hroot⟩ := updNode_post hp hn
      refine ⟨hJ', ⟨hroot, pre_of_liq hl hnd, fun _ => hl⟩, hst, hw, ?_⟩
      rw [hr]; exact hF
    · obtain ⟨wB, wF, hsB, hfl, rfl⟩ := bankruptTree_liqStart hc
      have hJB : LiqReach cfg w0 wB := LiqReach.enter d' hJ hsB
      obtain ⟨hIB, _, sd1, kids, sdB, kids1, hr1, hrB, hnowB, hrel⟩ :=
        liqStart_inv (AllNodes.secs hI.pre) hsB (hND _ hJB)
      obtain ⟨_, _, _, hFBn, hl, hw, hroot⟩ := liquidate_flat htol hND hJB hIB hfl hn
      rw [hr] at hr1
      cases hr1
      refine ⟨hJ', ⟨hroot, pre_of_liq hl hnd, fun _ => hl⟩, hst, hw, ?_⟩
      have h1 : FRel w.root wB.root := by
        rw [hr, hrB]
        simp only [TreeRel]
        simp only [AllNodes_strat] at hp
        exact ⟨hnowB.trans hnow.symm, URel.toF.2 _ _ hrel
          ((allNodes_mono (fun _ h => h) (fun _ _ => trivial)).2 _ hp.2)⟩
      exact h1.trans hFBn

/-- **`strategy.flatten()` called on any strategy of the tree** leaves every security below it flat. -/
theorem opFlatten_flat {cfg : Cfg K} (htol : 0 < cfg.tol) {d : Nat} {w w' : World K} {path : List Nat}
    (hq : AllNodes (Qd d) (SecPre cfg d) w.root)
    (hup : w.stale = false → updNode cfg d w.root = .ok w.root)
    (hND : NoDustWeights cfg w) (h : opFlatten cfg w path = .ok w') :
    (∃ m', w'.root.get? path = some m' ∧ m'.allFlat) ∧ FRel w.root w'.root := by
  unfold opFlatten at h
  cases hg : w.root.get? path with
  | none => rw [hg] at h; cases h
  | some n =>
    rw [hg] at h
    simp only at h
    -- the root is a strategy
    have hroot : ∃ sd ks, w.root = .strat sd ks := by
      cases hr : w.root with
      | strat sd ks => exact ⟨sd, ks, rfl⟩
      | sec s =>
        exfalso
        rw [hr] at hg
        cases path with
        | nil =>
          simp only [Node.get?] at hg
          cases hg
          rw [flattenAt.eq_1] at h; cases h
        | cons i rest => simp [Node.get?] at hg
    have hI : Inv cfg d w := by
      refine ⟨hroot, hq, fun hs => ?_⟩
      obtain ⟨sd, ks, hr⟩ := hroot
      have hu := hup hs
      rw [hr] at hu hq ⊢
      exact (updNode_post hq hu).1
    obtain ⟨_, _, hF, _, hm⟩ :=
      flattenAt_flat (Jw := LiqReach cfg w) htol (fun path _ _ hJ h => LiqReach.flat path hJ h)
        (fun _ _ hJ hI hs h => refresh_step htol hND hJ hI hs h)
        n path w w' n LiqReach.start hI hg (Sh.refl.1 _) h
    exact ⟨hm, hF⟩

/-! ### the one-level case: a root holding securities only (no hypothesis on the run) -/

theorem flattenSubs_noStrat {cfg : Cfg K} {rf : World K → Except Err (World K)} :
    ∀ (ks : List (Node K)) (path : List Nat) (i : Nat) (w : World K), hasStrat ks = false →
      flattenSubs cfg rf ks path i w = .ok w
  | [], path, i, w, _ => by rw [flattenSubs.eq_1]; rfl
  | .strat _ _ :: ks, path, i, w, h => by simp [hasStrat] at h
  | .sec s :: ks, path, i, w, h => by
    rw [flattenSubs.eq_3]
    exact flattenSubs_noStrat ks path (i + 1) w (by simpa [hasStrat] using h)

/-- without sub-strategies and nothing pending, `flatten` never calls the getter refresh -/
theorem flattenAt_rf_irrelevant {cfg : Cfg K} (rf rf' : World K → Except Err (World K))
    {sd0 : StratData K} {kids : List (Node K)} {path : List Nat} {w : World K}
    (hns : hasStrat kids = false) (hs : w.stale = false) :
    flattenAt cfg rf (.strat sd0 kids) path w = flattenAt cfg rf' (.strat sd0 kids) path w := by
  rw [P08.flattenAt_strat, P08.flattenAt_strat, flattenSubs_noStrat kids path 0 w hns,
    flattenSubs_noStrat kids path 0 w hns]
  simp only [P08.bind_ok, hs, Bool.and_false, Bool.false_eq_true, ↓reduceIte]

theorem hasStrat_sh : ∀ {a b : List (Node K)}, ShL a b → hasStrat b = hasStrat a
  | [], [], _ => rfl
  | [], _ :: _, h => by simp [TreeRelKids] at h
  | _ :: _, [], h => by simp [TreeRelKids] at h
  | .sec _ :: a, .sec _ :: b, h => by
    simp only [TreeRelKids] at h
    simp only [hasStrat]; exact hasStrat_sh h.2
  | .sec _ :: a, .strat _ _ :: b, h => by simp [TreeRelKids, TreeRel] at h
  | .strat _ _ :: a, .sec _ :: b, h => by simp [TreeRelKids, TreeRel] at h
  | .strat _ _ :: a, .strat _ _ :: b, _ => rfl

theorem updKids_noStrat_ndw {cfg : Cfg K} {d : Nat} :
    ∀ (ks : List (Node K)) (newpt bo : Bool) (acc : Acc K) ks1 a, hasStrat ks = false →
      AllSecsKids (SecPre cfg d) ks → updKids cfg d newpt bo ks acc = .ok (ks1, a) →
      AllSecsKids (NDW cfg) ks1
  | [], newpt, bo, acc, ks1, a, _, _, h => by
    rw [updKids.eq_1] at h; cases h; simp
  | .strat _ _ :: ks, newpt, bo, acc, ks1, a, hns, _, _ => by simp [hasStrat] at hns
  | .sec s :: ks, newpt, bo, acc, ks1, a, hns, hp, h => by
    rw [P08.updKids_sec] at h
    simp only [AllSecsKids_cons, AllSecs_sec] at hp
    have hns' : hasStrat ks = false := by simpa [hasStrat] using hns
    have hsw := hp.1.sweep newpt acc
    split at h
    · obtain ⟨⟨ks2, a2⟩, hrest, hr⟩ := Except.map_eq_ok h
      cases hr
      simp only [AllSecsKids_cons, AllSecs_sec]
      exact ⟨hsw.ndw, updKids_noStrat_ndw ks _ _ _ _ _ hns' hp.2 hrest⟩
    · obtain ⟨s1, hs1, h⟩ := Except.bind_eq_ok h
      obtain ⟨⟨ks2, a2⟩, hrest, hr⟩ := Except.map_eq_ok h
      cases hr
      obtain ⟨_, _, hw⟩ := secUpdate_liq hsw hs1
      simp only [AllSecsKids_cons, AllSecs_sec]
      exact ⟨by unfold NDW; rw [hw]; exact hsw.ndw, updKids_noStrat_ndw ks _ _ _ _ _ hns' hp.2 hrest⟩

/-- **Bankruptcy of a root that holds securities only**: every hypothesis is on the input world. -/
theorem updRoot_bankrupt_onelevel {cfg : Cfg K} (htol : 0 < cfg.tol) {d : Nat} {w w' : World K}
    {sd : StratData K} {kids : List (Node K)} (hr : w.root = .strat sd kids)
    (hone : hasStrat kids = false) (hpre : AllSecs (SecPre cfg d) w.root)
    (h : updRoot cfg d w = .ok w') (hb : w.bankrupt = false) (hb' : w'.bankrupt = true) :
    w'.root.allFlat ∧ AllNodes (Qd d) (SecLiq cfg d) w'.root := by
  obtain ⟨_, n0, hn, hc⟩ := updRoot_inv h
  rcases hc with rfl | hc
  · exfalso
    rw [hr] at hn
    obtain ⟨sd', ks', hs', hbk⟩ := P08.updNode_strat_bankrupt hn
    simp only [World.bankrupt, hr] at hb
    simp only [World.bankrupt, hs'] at hb'
    rw [hbk, hb] at hb'
    cases hb'
  · obtain ⟨sd2, kids2, kids1, acc, wF, hr2, hk, _, _, _, _, hfl, rfl⟩ := hc
    rw [hr] at hr2 hpre
    cases hr2
    simp only [AllSecs_strat] at hpre
    obtain ⟨hrel, _⟩ := updKids_liq kids _ _ _ _ _ hpre hk
    have hnd := updKids_noStrat_ndw kids _ _ _ _ _ hone hpre hk
    have hns1 : hasStrat kids1 = false := by
      rw [hasStrat_sh ((treeRel_mono (fun _ _ _ _ _ => trivial) (fun _ _ _ => trivial)).2 _ _ hrel)]
      exact hone
    have hnow : ({ stratPre d sd acc.coupons with bankrupt := true } : StratData K).now = some d :=
      stratDateChange_now d sd
    have hl : AllNodes (Qd d) (SecLiq cfg d)
        (.strat { stratPre d sd acc.coupons with bankrupt := true } kids1) := by
      simp only [AllNodes_strat]
      exact ⟨hnow, URel.liq.2 _ _ hrel⟩
    have hI : Inv cfg d ⟨.strat { stratPre d sd acc.coupons with bankrupt := true } kids1, false⟩ :=
      ⟨⟨_, _, rfl⟩, pre_of_liq hl (by simpa using hnd), fun _ => hl⟩
    rw [flattenAt_rf_irrelevant (refreshNB cfg) (fun _ => .error Err.badPath) hns1 rfl] at hfl
    obtain ⟨_, hIF, _, _, m', hg', hf'⟩ :=
      flattenAt_flat (Jw := fun _ => True) (rf := fun _ => .error Err.badPath) htol
        (fun _ _ _ _ _ => trivial) (fun _ _ _ _ _ h => by cases h)
        _ [] _ wF _ trivial hI (Rebal.get?_nil _) (Sh.refl.1 _) hfl
    rw [Rebal.get?_nil] at hg'
    cases hg'
    obtain ⟨sdF, ksF, hrF⟩ := hIF.root
    have hpF := hIF.pre
    rw [hrF] at hpF hn
    obtain ⟨hlF, _, hFn, _⟩ := updNode_post hpF hn
    rw [← hrF] at hFn
    exact ⟨FRel.allFlat hFn hf', hlF⟩

end Bt.P16
