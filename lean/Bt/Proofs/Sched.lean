import Bt.Algos.Sched
import Bt.Proofs.SchedCal
/-! Helper definitions (specification vocabulary) and lemmas for C12. -/
namespace Bt.Sched
open Bt.Cal

instance instDecEqExcept {ε α : Type} [DecidableEq ε] [DecidableEq α] : DecidableEq (Except ε α) := fun a b =>
  match a, b with
  | .ok x, .ok y => if h : x = y then isTrue (by rw [h]) else isFalse (fun e => by cases e; exact h rfl)
  | .error x, .error y => if h : x = y then isTrue (by rw [h]) else isFalse (fun e => by cases e; exact h rfl)
  | .ok _, .error _ => isFalse (fun e => by cases e)
  | .error _, .ok _ => isFalse (fun e => by cases e)

/-! ### specification vocabulary -/

/-- strictly increasing index (what `Backtest` feeds) -/
def StrictInc (idx : List Stamp) : Prop := idx.Pairwise (fun a b => a.ns < b.ns)

def AllValid (idx : List Stamp) : Prop := ∀ s ∈ idx, s.valid = true

/-- identifier of the day / Monday-week / month / quarter / year a timestamp falls in -/
def periodId : PeriodKind → Stamp → Int
  | .daily, s => s.dayNo
  | .weekly, s => s.mondayWeek
  | .monthly, s => 12 * s.year + s.month
  | .quarterly, s => 4 * s.year + s.quarter
  | .yearly, s => s.year

/-- Only for RunWeekly: the timestamp's ISO year is its calendar year (false for the days of a week that
    straddles New Year and belongs to the other year, e.g. 2012-12-31 or 2012-01-01). -/
def Regular (k : PeriodKind) (s : Stamp) : Prop := k = .weekly → s.isoYear = s.year

def AllRegular (k : PeriodKind) (idx : List Stamp) : Prop := ∀ s ∈ idx, Regular k s

/-- "falls in a new period relative to the previous date" (row 0 is the synthetic row, so `2 ≤ i`) -/
def newPeriodAt (k : PeriodKind) (idx : List Stamp) (i : Nat) : Bool :=
  decide (2 ≤ i) &&
  match idx[i - 1]?, idx[i]? with
  | some a, some b => periodId k a != periodId k b
  | _, _ => false

/-- "the last date before such a change" -/
def periodEndsAt (k : PeriodKind) (idx : List Stamp) (i : Nat) : Bool :=
  decide (1 ≤ i) &&
  match idx[i]?, idx[i + 1]? with
  | some a, some b => periodId k a != periodId k b
  | _, _ => false

/-- the property text for row `i` of the index -/
def shouldFire (k : PeriodKind) (f : Flags) (idx : List Stamp) (i : Nat) : Bool :=
  decide (1 ≤ i ∧ i < idx.length) &&
  ((decide (i = 1) && f.runOnFirstDate) || (decide (i = idx.length - 1) && f.runOnLastDate) ||
   (if f.runOnEndOfPeriod then periodEndsAt k idx i else newPeriodAt k idx i))

/-- rows at which the code answers from a flag alone although the property text asks for a firing -/
def edgeDeviation (k : PeriodKind) (f : Flags) (idx : List Stamp) (i : Nat) : Bool :=
  (decide (i = 1) && !f.runOnFirstDate &&
    ((decide (idx.length = 2) && f.runOnLastDate) || (f.runOnEndOfPeriod && periodEndsAt k idx 1))) ||
  (decide (2 ≤ i ∧ i = idx.length - 1) && !f.runOnLastDate && !f.runOnEndOfPeriod && newPeriodAt k idx i)

/-- RunWeekly's comparator (kept under its old name: it used to be the proposed repair) -/
def cmpWeeklyIso (a b : Stamp) : Bool := a.isoYear != b.isoYear || a.week != b.week

/-! ### `now in index` / `get_loc` on a strictly increasing index -/

theorem occurrences_eq_zero {t : Stamp} {idx : List Stamp} (h : ∀ s ∈ idx, s.ns ≠ t.ns) :
    occurrences t idx = 0 := by
  unfold occurrences
  rw [List.countP_eq_zero]
  intro s hs
  simp [sameInstant, h s hs]

theorem locate_of_strictInc {idx : List Stamp} (hs : StrictInc idx) {i : Nat} {t : Stamp}
    (hi : idx[i]? = some t) : occurrences t idx = 1 ∧ firstPos t idx = i := by
  induction idx generalizing i with
  | nil => simp at hi
  | cons x xs ih =>
    unfold StrictInc at hs
    rw [List.pairwise_cons] at hs
    obtain ⟨hx, hxs⟩ := hs
    cases i with
    | zero =>
      simp at hi
      subst hi
      have hz : occurrences x xs = 0 :=
        occurrences_eq_zero (fun s hs => by have := hx s hs; omega)
      unfold occurrences at hz ⊢
      unfold firstPos
      simp [List.findIdx_cons, sameInstant, hz]
    | succ j =>
      simp at hi
      have ht : t ∈ xs := List.mem_of_getElem? hi
      have hlt := hx t ht
      have hne : sameInstant t x = false := by
        simp [sameInstant]; omega
      obtain ⟨h1, h2⟩ := ih hxs hi
      unfold occurrences at h1 ⊢
      unfold firstPos at h2 ⊢
      simp [List.findIdx_cons, hne, h1, h2]

theorem strictInc_lt {idx : List Stamp} (hs : StrictInc idx) {i j : Nat} {a b : Stamp}
    (ha : idx[i]? = some a) (hb : idx[j]? = some b) (hij : i < j) : a.ns < b.ns := by
  unfold StrictInc at hs
  rw [List.pairwise_iff_getElem] at hs
  obtain ⟨hi, rfl⟩ := List.getElem?_eq_some_iff.1 ha
  obtain ⟨hj, rfl⟩ := List.getElem?_eq_some_iff.1 hb
  exact hs i j hi hj hij

/-- on a strictly increasing index the scheduler's answer at the label of row `i` is the position rule of row `i` -/
theorem runPeriod_at (k : PeriodKind) (f : Flags) {idx : List Stamp} (hs : StrictInc idx) {i : Nat} {t : Stamp}
    (hi : idx[i]? = some t) : runPeriod k f idx (some t) = .ok (positionRule k f idx i) := by
  obtain ⟨h1, h2⟩ := locate_of_strictInc hs hi
  simp [runPeriod, h1, h2]

/-! ### comparators versus period identifiers -/

theorem compareDates_eq_periodId (k : PeriodKind) {a b : Stamp} (ha : a.valid = true) (hb : b.valid = true)
    (ra : Regular k a) (rb : Regular k b) :
    compareDates k a b = (periodId k a != periodId k b) := by
  rw [Bool.eq_iff_iff]
  have va := (Stamp.valid_iff a).1 ha
  have vb := (Stamp.valid_iff b).1 hb
  cases k with
  | daily =>
    simp only [compareDates, cmpDaily, periodId, Bool.not_eq_true', Bool.and_eq_false_iff, beq_eq_false_iff_ne,
      bne_iff_ne, ne_eq]
    constructor
    · intro h he
      have := Stamp.civil_eq_of_dayNo_eq ha hb he
      omega
    · intro h
      by_cases c : a.year = b.year ∧ a.month = b.month ∧ a.day = b.day
      · exfalso; apply h
        unfold Stamp.dayNo; rw [c.1, c.2.1, c.2.2]
      · omega
  | weekly =>
    have e := Stamp.iso_eq_iff_mondayWeek_eq ha hb
    simp only [compareDates, cmpWeekly, periodId, Bool.or_eq_true, bne_iff_ne, ne_eq]
    constructor
    · intro h he
      have := e.2 he
      omega
    · intro h
      by_cases c : a.isoYear = b.isoYear ∧ a.week = b.week
      · exact absurd (e.1 c) h
      · omega
  | monthly =>
    simp only [compareDates, cmpMonthly, periodId, Bool.or_eq_true, bne_iff_ne, ne_eq]
    omega
  | quarterly =>
    have qa := Stamp.quarter_range ha
    have qb := Stamp.quarter_range hb
    simp only [compareDates, cmpQuarterly, periodId, Bool.or_eq_true, bne_iff_ne, ne_eq]
    omega
  | yearly =>
    simp only [compareDates, cmpYearly, periodId, bne_iff_ne, ne_eq]

/-- the repaired weekly comparator is exact for every pair of valid timestamps -/
theorem cmpWeeklyIso_eq_periodId {a b : Stamp} (ha : a.valid = true) (hb : b.valid = true) :
    cmpWeeklyIso a b = (periodId .weekly a != periodId .weekly b) := by
  rw [Bool.eq_iff_iff]
  have e := Stamp.iso_eq_iff_mondayWeek_eq ha hb
  simp only [cmpWeeklyIso, periodId, Bool.or_eq_true, bne_iff_ne, ne_eq]
  constructor
  · intro h he
    have := e.2 he
    omega
  · intro h
    by_cases c : a.isoYear = b.isoYear ∧ a.week = b.week
    · exact absurd (e.1 c) h
    · omega

/-- period identifiers never decrease with time -/
theorem periodId_mono (k : PeriodKind) {a b : Stamp} (ha : a.valid = true) (hb : b.valid = true)
    (h : a.ns ≤ b.ns) : periodId k a ≤ periodId k b := by
  have hd := Stamp.dayNo_le_of_ns_le ha hb h
  cases k with
  | daily => exact hd
  | weekly => exact Stamp.mondayWeek_le_of_dayNo_le hd
  | monthly => exact Stamp.monthId_le_of_dayNo_le ha hb hd
  | quarterly =>
    have := Stamp.monthId_le_of_dayNo_le ha hb hd
    have := Stamp.year_le_of_dayNo_le ha hb hd
    have va := (Stamp.valid_iff a).1 ha
    have vb := (Stamp.valid_iff b).1 hb
    simp only [periodId, Stamp.quarter]
    omega
  | yearly => exact Stamp.year_le_of_dayNo_le ha hb hd

/-! ### counting schedulers -/

theorem trace_length {σ τ : Type} (step : σ → τ → Bool × σ) (s : σ) (calls : List τ) :
    (trace step s calls).length = calls.length := by
  induction calls generalizing s with
  | nil => rfl
  | cons t ts ih => simp [trace, ih]

/-- RunOnce after it has run never fires again -/
theorem runOnce_after (calls : List (Option Int)) :
    trace runOnceStep true calls = calls.map (fun _ => false) := by
  induction calls with
  | nil => rfl
  | cons t ts ih => simp [trace, runOnceStep, ih]

/-- RunAfterDays: closed form from any state, `k` calls later -/
theorem runAfterDays_get (days : Int) (calls : List (Option Int)) (k : Nat) (hk : k < calls.length) :
    (trace runAfterDaysStep days calls)[k]? = some (decide (days ≤ (k : Int))) := by
  induction calls generalizing days k with
  | nil => simp at hk
  | cons t ts ih =>
    cases k with
    | zero =>
      by_cases h : days > 0
      · simp [trace, runAfterDaysStep, h] <;> omega
      · simp [trace, runAfterDaysStep, h] <;> omega
    | succ j =>
      have hj : j < ts.length := by simpa using hk
      by_cases h : days > 0
      · simp only [trace, runAfterDaysStep, h, if_true, List.getElem?_cons_succ]
        rw [ih (days - 1) j hj]
        congr 1
        apply decide_eq_decide.2
        constructor <;> intro <;> omega
      · simp only [trace, runAfterDaysStep, h, if_false, List.getElem?_cons_succ]
        rw [ih days j hj]
        congr 1
        apply decide_eq_decide.2
        constructor <;> intro <;> omega

/-- what RunEveryNPeriods is meant to do, in terms of the number `c` of calls counted so far
    (calls whose date differs from the date of the preceding call) -/
def everyNSpec (n offset : Nat) : Option Int → Nat → List (Option Int) → List Bool
  | _, _, [] => []
  | prev, c, t :: ts =>
    if prev = t then false :: everyNSpec n offset prev c ts
    else decide (offset ≤ c ∧ (c - offset) % n = 0) :: everyNSpec n offset t (c + 1) ts

/-- invariant linking the counter `idx` of the code with the number `c` of counted calls -/
def everyNInv (n offset : Nat) (c : Nat) (idx : Int) : Prop :=
  (c ≤ offset ∧ idx = (n : Int) - 1 - offset + c) ∨ (offset < c ∧ idx = ((c - offset - 1 : Nat) % n : Nat))

theorem everyN_fire_iff {n offset c : Nat} {idx : Int} (hn : 1 ≤ n) (h : everyNInv n offset c idx) :
    idx = (n : Int) - 1 ↔ (offset ≤ c ∧ (c - offset) % n = 0) := by
  rcases h with ⟨h1, h2⟩ | ⟨h1, h2⟩
  · constructor
    · intro e
      have : c = offset := by omega
      subst this; simp
    · rintro ⟨e1, _⟩
      have : c = offset := by omega
      subst this; omega
  · obtain ⟨d, rfl⟩ : ∃ d, c = offset + 1 + d := ⟨c - offset - 1, by omega⟩
    have e1 : offset + 1 + d - offset - 1 = d := by omega
    have e2 : offset + 1 + d - offset = d + 1 := by omega
    rw [e1] at h2
    rw [e2]
    have hlt : d % n < n := Nat.mod_lt _ (by omega)
    constructor
    · intro e
      refine ⟨by omega, ?_⟩
      have e' : d % n = n - 1 := by omega
      rw [Nat.add_mod, e']
      have : (n - 1 + 1 % n) % n = 0 := by
        by_cases h1n : n = 1
        · subst h1n; simp
        · have : 1 % n = 1 := Nat.mod_eq_of_lt (by omega)
          rw [this, show n - 1 + 1 = n by omega, Nat.mod_self]
      exact this
    · rintro ⟨_, e⟩
      have : d % n = n - 1 := by
        by_cases c : d % n + 1 < n
        · exfalso
          rw [Nat.add_mod] at e
          by_cases h1n : n = 1
          · omega
          · have h1 : 1 % n = 1 := Nat.mod_eq_of_lt (by omega)
            rw [h1, Nat.mod_eq_of_lt c] at e
            omega
        · omega
      omega

theorem everyN_inv_step {n offset c : Nat} {idx : Int} (hn : 1 ≤ n) (h : everyNInv n offset c idx) :
    everyNInv n offset (c + 1) (if idx = (n : Int) - 1 then 0 else idx + 1) := by
  have hf := everyN_fire_iff hn h
  rcases h with ⟨h1, h2⟩ | ⟨h1, h2⟩
  · by_cases e : idx = (n : Int) - 1
    · have : c = offset := by omega
      subst this
      right
      refine ⟨by omega, ?_⟩
      simp [e]
    · left
      have : c ≠ offset := by
        intro hc; apply e; subst hc; omega
      refine ⟨by omega, ?_⟩
      simp only [e, if_false]; omega
  · right
    refine ⟨by omega, ?_⟩
    obtain ⟨d, rfl⟩ : ∃ d, c = offset + 1 + d := ⟨c - offset - 1, by omega⟩
    have e1 : offset + 1 + d - offset - 1 = d := by omega
    have e3 : offset + 1 + d + 1 - offset - 1 = d + 1 := by omega
    rw [e1] at h2
    rw [e3]
    have hlt : d % n < n := Nat.mod_lt _ (by omega)
    by_cases e : idx = (n : Int) - 1
    · simp only [e, if_true]
      have e' : d % n = n - 1 := by omega
      have : (d + 1) % n = 0 := by
        rw [Nat.add_mod, e']
        by_cases h1n : n = 1
        · subst h1n; simp
        · have : 1 % n = 1 := Nat.mod_eq_of_lt (by omega)
          rw [this, show n - 1 + 1 = n by omega, Nat.mod_self]
      rw [this]; rfl
    · simp only [e, if_false]
      have c1 : d % n + 1 < n := by omega
      have : (d + 1) % n = d % n + 1 := by
        rw [Nat.add_mod]
        by_cases h1n : n = 1
        · omega
        · have h1 : 1 % n = 1 := Nat.mod_eq_of_lt (by omega)
          rw [h1, Nat.mod_eq_of_lt c1]
      rw [this, h2]; omega

theorem everyN_trace_inv (n offset : Nat) (hn : 1 ≤ n) (calls : List (Option Int)) (c : Nat) (idx : Int)
    (prev : Option Int) (h : everyNInv n offset c idx) :
    trace everyNStep { n := n, idx := idx, lcall := prev } calls = everyNSpec n offset prev c calls := by
  induction calls generalizing c idx prev with
  | nil => rfl
  | cons t ts ih =>
    by_cases e : prev = t
    · subst e
      simp only [trace, everyNStep, everyNSpec, if_true]
      rw [ih c idx prev h]
    · have hf := everyN_fire_iff hn h
      have hs := everyN_inv_step hn h
      by_cases g : idx = (n : Int) - 1
      · simp only [trace, everyNStep, everyNSpec, e, g, if_true, if_false]
        simp only [g, if_true] at hs
        rw [ih (c + 1) 0 t hs]
        congr 1
        exact (decide_eq_true (hf.1 g)).symm
      · simp only [trace, everyNStep, everyNSpec, e, g, if_false]
        simp only [g, if_false] at hs
        rw [ih (c + 1) (idx + 1) t hs]
        congr 1
        exact (decide_eq_false (fun hh => g (hf.2 hh))).symm

theorem everyNInv_init (n offset : Nat) : everyNInv n offset 0 ((n : Int) - offset - 1) := by
  left; exact ⟨Nat.zero_le _, by omega⟩

end Bt.Sched
