import Bt.Proofs.C08Rows
/-! C08: `update(d)` writes recorded rows only at index `d`. -/
set_option linter.unusedSectionVars false
namespace Bt.P08
open Bt

variable {K : Type} [Field K] [LinearOrder K] [IsStrictOrderedRing K] [HasFloor K]

section sec
variable {P : Nat → Prop} {d : Nat}

theorem secDateChange_frozen (P : Nat → Prop) (d : Nat) (s : SecData K) :
    SecFrozen P s (secDateChange d s) := by
  unfold secDateChange; split
  · constructor <;> simp
  · exact .refl P s

theorem secRecordPos_frozen (hP : P d) (s : SecData K) : SecFrozen P s (secRecordPos d s) := by
  constructor <;> simp [secRecordPos, RowOK.set hP]

theorem secSetValue_frozen (hP : P d) (v : K) (s : SecData K) : SecFrozen P s (secSetValue d v s) := by
  constructor <;> simp [secSetValue, RowOK.set hP]

theorem secQuiet_frozen (P : Nat → Prop) (cfg : Cfg K) (s : SecData K) : SecFrozen P s (secQuiet cfg s) := by
  unfold secQuiet; split
  · constructor <;> simp
  · exact .refl P s

theorem secFlushOutlay_frozen (hP : P d) (s : SecData K) : SecFrozen P s (secFlushOutlay d s) := by
  unfold secFlushOutlay; split
  · constructor <;> simp [RowOK.set hP]
  · exact .refl P s

theorem secRowBidoffer_frozen (hP : P d) (s : SecData K) : SecFrozen P s (secRowBidoffer d s) := by
  unfold secRowBidoffer; split
  · constructor <;> simp [RowOK.set hP]
  · exact .refl P s

theorem secFiTail_frozen (hP : P d) (s : SecData K) : SecFrozen P s (secFiTail d s) := by
  constructor <;> simp [secFiTail, RowOK.set hP]

theorem secHedgeTail_frozen (P : Nat → Prop) {s : SecData K} (hk : isHedge s.kind = true) :
    SecFrozen P s (secHedgeTail s) := by
  constructor <;> simp [secHedgeTail]
  rw [hk]; exact RowOK.zero P _

theorem withCoupon_frozen (hP : P d) (s : SecData K) (c hc : K) : SecFrozen P s (withCoupon d s c hc) := by
  constructor <;> simp [withCoupon, RowOK.set hP]

theorem secBaseUpdate_frozen {cfg : Cfg K} {s s1 : SecData K} (hP : P d)
    (h : secBaseUpdate cfg d s = .ok s1) : SecFrozen P s s1 := by
  rcases secBaseUpdate_cases h with ⟨_, rfl⟩ | ⟨_, v, _, rfl⟩
  · exact .refl P _
  · exact (secDateChange_frozen P d s).trans <| (secRecordPos_frozen hP _).trans <|
      (secSetValue_frozen hP v _).trans <| (secQuiet_frozen P cfg _).trans <|
      (secFlushOutlay_frozen hP _).trans (secRowBidoffer_frozen hP _)

theorem secTail_frozen {cfg : Cfg K} {s1 s' : SecData K} (hP : P d)
    (h : secTail cfg d s1.kind s1 = .ok s') : SecFrozen P s1 s' := by
  cases hk : s1.kind with
  | plain => rw [hk] at h; cases h; exact .refl P _
  | fi => rw [hk] at h; cases h; exact secFiTail_frozen hP _
  | hedge => rw [hk] at h; cases h; exact secHedgeTail_frozen P (by rw [hk]; rfl)
  | coupon =>
    rw [hk] at h
    obtain ⟨c, hc, _, _, rfl⟩ := secCouponTail_ok h
    exact (secFiTail_frozen hP _).trans (withCoupon_frozen hP _ c hc)
  | couponHedge =>
    rw [hk] at h
    obtain ⟨s2, h', rfl⟩ := map_eq_ok h
    obtain ⟨c, hc, _, _, rfl⟩ := secCouponTail_ok h'
    refine (secFiTail_frozen hP _).trans <| (withCoupon_frozen hP _ c hc).trans ?_
    exact secHedgeTail_frozen P (by simp [withCoupon, secFiTail, hk, isHedge])

/-- `SecurityBase.update(d)` (any subclass) writes rows only at `d` -/
theorem secUpdate_frozen {cfg : Cfg K} {s s' : SecData K} (hP : P d)
    (h : secUpdate cfg d s = .ok s') : SecFrozen P s s' := by
  rw [secUpdate_eq] at h
  obtain ⟨s1, hb, ht⟩ := bind_eq_ok h
  rw [← (secBaseUpdate_kind_position hb).1] at ht
  exact (secBaseUpdate_frozen hP hb).trans (secTail_frozen hP ht)

end sec

section strat
variable {P : Nat → Prop} {d : Nat}

theorem stratDateChange_frozen (P : Nat → Prop) (d : Nat) (sd : StratData K) :
    StratFrozen P sd (stratDateChange d sd).1 := by
  unfold stratDateChange; split
  · constructor <;> simp
  · split <;> (constructor <;> simp)

theorem stratSetTotals_frozen (hP : P d) (sd : StratData K) (v n b : K) :
    StratFrozen P sd (stratSetTotals d sd v n b) := by
  unfold stratSetTotals; simp only; split <;> (constructor <;> simp [RowOK.set hP])

theorem stratSetPrice_frozen (hP : P d) (sd : StratData K) (p : K) :
    StratFrozen P sd (stratSetPrice d sd p) := by
  constructor <;> simp [stratSetPrice, RowOK.set hP]

theorem stratWrite_frozen {cfg : Cfg K} {np : Bool} {sd sd3 : StratData K} {v n b : K} (hP : P d)
    (h : stratWrite cfg d np sd v n b = .ok sd3) : StratFrozen P sd sd3 := by
  rcases stratWrite_cases h with ⟨_, rfl⟩ | ⟨_, p, rfl⟩
  · exact .refl P _
  · exact (stratSetTotals_frozen hP sd v n b).trans (stratSetPrice_frozen hP _ p)

theorem stratRows_frozen (hP : P d) (sd : StratData K) : StratFrozen P sd (stratRows d sd) := by
  unfold stratRows; simp only; split <;> (constructor <;> simp [RowOK.set hP])

theorem capital_frozen (P : Nat → Prop) (sd : StratData K) (c : K) :
    StratFrozen P sd { sd with capital := c } := by
  constructor <;> simp

theorem adjust_frozen (P : Nat → Prop) (sd : StratData K) (a : Adj K) : StratFrozen P sd (sd.adjust a) := by
  constructor <;> simp [StratData.adjust]

theorem foldl_adjust_frozen (P : Nat → Prop) (adjs : List (Adj K)) (sd : StratData K) :
    StratFrozen P sd (adjs.foldl StratData.adjust sd) := by
  induction adjs generalizing sd with
  | nil => exact .refl P sd
  | cons a as ih => rw [List.foldl_cons]; exact (adjust_frozen P sd a).trans (ih _)

theorem setWeight_frozen (P : Nat → Prop) (w : K) (k : Node K) : Frozen P k (k.setWeight w) := by
  cases k with
  | sec s => simp only [Node.setWeight, frozen_sec]; constructor <;> simp
  | strat sd ks =>
    simp only [Node.setWeight, frozen_strat]
    exact ⟨by constructor <;> simp, FrozenL.refl P ks⟩

theorem kidsWeights_frozen (P : Nat → Prop) (cfg : Cfg K) (fi : Bool) (v n : K) :
    ∀ ks : List (Node K), FrozenL P ks (kidsWeights cfg fi v n ks)
  | [] => by simp [kidsWeights]
  | k :: ks => by
    rw [kidsWeights_cons, frozenL_cons]
    refine ⟨?_, kidsWeights_frozen P cfg fi v n ks⟩
    split
    · exact Frozen.refl P k
    · exact setWeight_frozen P _ k

end strat

theorem sweepSec_frozen (P : Nat → Prop) (np : Bool) (s : SecData K) (acc : Acc K) :
    SecFrozen P s (sweepSec np s acc).1 := by
  unfold sweepSec; split
  · constructor <;> simp
  · exact .refl P s

mutual
/-- `update(d)` of a node writes rows only at index `d`, anywhere in the tree -/
theorem updNode_frozen {P : Nat → Prop} {cfg : Cfg K} {d : Nat} (hP : P d) :
    (n : Node K) → ∀ n', updNode cfg d n = .ok n' → Frozen P n n'
  | .sec s, n', h => by
    rw [updNode.eq_1] at h
    obtain ⟨s', hs, rfl⟩ := map_eq_ok h
    simpa using secUpdate_frozen hP hs
  | .strat sd kids, n', h => by
    rw [updNode_strat] at h
    obtain ⟨⟨kids1, acc⟩, hk, hf⟩ := bind_eq_ok h
    unfold stratFinish at hf
    obtain ⟨sd3, hw, rfl⟩ := map_eq_ok hf
    rw [frozen_strat]
    refine ⟨?_, FrozenL.trans _ _ _ (updKids_frozen hP kids _ _ _ _ _ hk) (kidsWeights_frozen P ..)⟩
    exact (stratDateChange_frozen P d sd).trans <| (capital_frozen P _ _).trans <|
      (stratWrite_frozen hP hw).trans (stratRows_frozen hP _)

theorem updKids_frozen {P : Nat → Prop} {cfg : Cfg K} {d : Nat} (hP : P d) :
    (ks : List (Node K)) → ∀ (newpt bo : Bool) (acc : Acc K) ks' a,
      updKids cfg d newpt bo ks acc = .ok (ks', a) → FrozenL P ks ks'
  | [], newpt, bo, acc, ks', a, h => by
    rw [updKids.eq_1] at h; cases h; simp
  | .sec s :: ks, newpt, bo, acc, ks', a, h => by
    rw [updKids_sec] at h
    split at h
    · obtain ⟨⟨ks1, a1⟩, hrest, hr⟩ := map_eq_ok h
      cases hr
      rw [frozenL_cons, frozen_sec]
      exact ⟨sweepSec_frozen P .., updKids_frozen hP ks _ _ _ _ _ hrest⟩
    · obtain ⟨s1, hs1, h⟩ := bind_eq_ok h
      obtain ⟨⟨ks1, a1⟩, hrest, hr⟩ := map_eq_ok h
      cases hr
      rw [frozenL_cons, frozen_sec]
      exact ⟨(sweepSec_frozen P ..).trans (secUpdate_frozen hP hs1), updKids_frozen hP ks _ _ _ _ _ hrest⟩
  | .strat sd kk :: ks, newpt, bo, acc, ks', a, h => by
    rw [updKids_strat] at h
    obtain ⟨k1, hk1, h⟩ := bind_eq_ok h
    obtain ⟨⟨ks1, a1⟩, hrest, hr⟩ := map_eq_ok h
    cases hr
    rw [frozenL_cons]
    exact ⟨updNode_frozen hP (.strat sd kk) _ hk1, updKids_frozen hP ks _ _ _ _ _ hrest⟩
end

end Bt.P08
