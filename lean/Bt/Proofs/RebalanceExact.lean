import Bt.Proofs.RebalanceFinal
/-! C06 at any path, part 10: fractional units without costs — `Rebalance_exact_partial` lifted from the root
    to the strategy found at any path of any tree. -/
set_option linter.unusedSectionVars false
namespace Bt.P06
open Bt Bt.Rebal

variable {K : Type} [Field K] [LinearOrder K] [IsStrictOrderedRing K] [HasFloor K]

theorem zipWith_sum_zero {α β : Type} (f : α → β → K) (hf : ∀ a b, f a b = 0) :
    ∀ (as : List α) (bs : List β), (List.zipWith f as bs).sum = 0
  | [], _ => by simp
  | _ :: _, [] => by simp
  | a :: as, b :: bs => by
    rw [List.zipWith_cons_cons, List.sum_cons, hf, zipWith_sum_zero f hf as bs, add_zero]

/-- with a zero spread no spread is booked for a child -/
theorem ChildOut.nocost {cfg : Cfg K} {comm : K → K → K} {V : K} {T : List (Nat × K)} {cash : Option K}
    {tot : K} {i : Nat} {s t : SecData K} {q : K} (h : ChildOut cfg comm V T cash tot i s t q)
    (hbo : s.bidoffer = some 0) : t.bidofferPaid = s.bidofferPaid := by
  rw [h.bop]
  simp [spreadOf, boOf, hbo]

/-- **`Rebalance` without costs, at any path.**  The market-value strategy `(sd, ss)` found at `p` of a tree
    that is not stale, standing on `d` like the root, without commission, whose children are fractional,
    cost-free, up-to-date securities (`NiceSec`), balanced (`value = cash + Σ position·price·mult`, every cached
    weight is the child's value share): if the algo does not raise, the final world is `root.update(d)` of the
    tree with only that strategy replaced, and unless the root's bankruptcy step fires the strategy at `p`
    keeps its value `V`, its cash is the remainder `V − Σ child values`, nothing is booked, every target whose
    trade is not swallowed by `TOL` ends with value exactly `(1−κ)·w·V` and (if not parked) weight `(1−κ)·w`,
    and every other child is closed (when value and position were above `TOL`). -/
theorem exact_at_path (cfg : Cfg K) (d : Nat) (root : Node K) (p : List Nat) (sd : StratData K)
    (ss : List (SecData K)) (T : List (Nat × K)) (cash notional : Option K) (w' : World K)
    (hatol : 0 ≤ cfg.atol) (htol : 0 < cfg.tol) (hv : ∃ x, root.get? p = some x)
    (hrn : (PW root p sd (ss.map Node.sec)).root.now = some d)
    (hnow : sd.now = some d) (hfi : sd.fixedIncome = false) (hcomm : ∀ q x, sd.comm q x = 0)
    (hnice : ∀ s ∈ ss, NiceSec cfg d s) (hnd : (T.map (·.1)).Nodup) (hin : ∀ i ∈ T.map (·.1), i < ss.length)
    (hbal : sd.value = sd.capital + worthSum ss) (hwts : ∀ s ∈ ss, s.weight * sd.value = s.value)
    (h : algoRebalance cfg (PW root p sd (ss.map Node.sec)) p T cash notional = .ok w') :
    ∃ (sd3 : StratData K) (ss3 : List (SecData K)),
      updRoot cfg d (PW root p sd3 (ss3.map Node.sec)) = .ok w' ∧
      (BankruptStep cfg d (PW root p sd3 (ss3.map Node.sec)) ∨
       (w'.stale = false ∧ ∃ (sdF : StratData K) (ssF : List (SecData K)),
        w'.root.get? p = some (.strat sdF (ssF.map Node.sec)) ∧ ssF.length = ss.length ∧
        sdF.value = sd.value ∧ sdF.capital + (ssF.map (·.value)).sum = sd.value ∧
        sdF.lastFee = sd.lastFee ∧
        (∀ (i : Nat) (wt : K) (s : SecData K), (i, wt) ∈ T → ss[i]? = some s →
          TargetExact cfg sd.value s (wt * cashScale cash) →
          ∃ t, ssF[i]? = some t ∧ t.value = wt * cashScale cash * sd.value ∧
            t.value = t.position * px t * t.mult ∧ px t = px s ∧ t.mult = s.mult ∧
            t.bidofferPaid = s.bidofferPaid ∧
            (t.needupdate = true → isZero cfg.tol sd.value = false → t.weight = wt * cashScale cash)) ∧
        (∀ (i : Nat) (s : SecData K), ss[i]? = some s →
          (i ∉ T.map (·.1) ∨ ∃ wt, (i, wt) ∈ T ∧ isZero cfg.tol (wt * cashScale cash) = true) →
          ∃ t, ssF[i]? = some t ∧
            (isZero cfg.tol s.value = false → isZero cfg.tol s.position = false →
              t.position = 0 ∧ t.value = 0) ∧
            (isZero cfg.tol s.value = true ∨ isZero cfg.tol s.position = true →
              t.position = s.position ∧ t.value = s.value)))) := by
  obtain ⟨sd3, ss3, hupd, _, _, hcase⟩ := secs_final_at cfg d root p sd ss T cash notional w' htol hv hrn hnow hfi
    (fun s hs => NiceSec.rsec (hnice s hs)) hnd hin h
    (fun i s t tot => t.bidofferPaid = s.bidofferPaid ∧ ∃ q, ChildOut cfg sd.comm sd.value T cash tot i s t q)
    (fun tot i s t q hs hc => ⟨hc.nocost (hnice s (List.mem_of_getElem? hs)).bo, q, hc⟩)
  refine ⟨sd3, ss3, hupd, ?_⟩
  rcases hcase with hb | ⟨hst, sdF, ssF, g, r2, r3, r4, r5, r6⟩
  · exact Or.inl hb
  · right
    have hfee0 : sdF.lastFee = sd.lastFee := by
      rw [r3, zipWith_sum_zero (feeBetween sd.comm) (fun a b => by simp [feeBetween, feeOf, hcomm]), add_zero]
    have hbo0 : boSumL ssF = boSumL ss := by
      unfold boSumL
      exact sum_map_congr_idx (·.bidofferPaid) (·.bidofferPaid) ss ssF r2 (fun i a ha => by
        obtain ⟨t, ht, hb, _⟩ := r6 i a ha
        exact ⟨t, ht, hb⟩)
    have htot : sdF.capital + (ssF.map (·.value)).sum = sd.value := by
      rw [r4, hfee0, hbo0, hbal]; ring
    have hval : sdF.value = sd.value := by
      rcases r5 with e | ⟨e, _⟩
      · rw [e, htot]
      · exact e
    refine ⟨hst, sdF, ssF, g, r2, hval, htot, hfee0, ?_, ?_⟩
    · intro i wt s hi hs hx
      have hn := hnice s (List.mem_of_getElem? hs)
      obtain ⟨t, ht, hb, q, hc⟩ := r6 i s hs
      obtain ⟨e1, _⟩ := hc.exact_target d hatol htol hn hcomm hnd wt hi (hwts s (List.mem_of_getElem? hs)) hx
      refine ⟨t, ht, e1, hc.val, hc.pxe, hc.mult, hb, ?_⟩
      intro hnu hz
      have hne : sd.value ≠ 0 := by
        intro h0; rw [h0, isZero_zero cfg htol] at hz; cases hz
      rw [hc.wgt hnu, htot, hz, e1]
      simp only [Bool.false_eq_true, ↓reduceIte]
      rw [mul_div_cancel_right₀ _ hne]
    · intro i s hs hcase
      obtain ⟨t, ht, _, q, hc⟩ := r6 i s hs
      obtain ⟨c1, c2⟩ := hc.closed d htol (NiceSec.rsec (hnice s (List.mem_of_getElem? hs))) hnd hcase
      exact ⟨t, ht, c1, fun h1 => ⟨(c2 h1).1, (c2 h1).2.1⟩⟩

end Bt.P06
