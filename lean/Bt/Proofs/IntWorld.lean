import Bt.Proofs.TreeInv
import Mathlib.Algebra.Order.Ring.Cast
import Mathlib.Algebra.Order.Group.Unbundled.Int
/-! Whole-unit positions: in a tree of market-value strategies whose securities all trade whole units,
    `allocate` / `flatten` / `close` / `rebalance` / `adjust` / `update` keep every position an integer, so with
    `TOL ≤ 1` no dust ever arises and `Quiet` is an invariant. -/
namespace Bt
set_option linter.unusedSectionVars false
variable {K : Type} [Field K] [LinearOrder K] [IsStrictOrderedRing K] [HasFloor K]

/-- `x` is a whole number -/
def IsInt (x : K) : Prop := ∃ z : ℤ, x = (z : K)

theorem IsInt.add {a b : K} (ha : IsInt a) (hb : IsInt b) : IsInt (a + b) := by
  obtain ⟨x, rfl⟩ := ha; obtain ⟨y, rfl⟩ := hb; exact ⟨x + y, by push_cast; rfl⟩
theorem IsInt.neg {a : K} (ha : IsInt a) : IsInt (-a) := by
  obtain ⟨x, rfl⟩ := ha; exact ⟨-x, by push_cast; rfl⟩

theorem secNoDust_of_isInt {cfg : Cfg K} (htol : cfg.tol ≤ 1) {s : SecData K} (hz : IsInt s.position) :
    SecNoDust cfg s := by
  obtain ⟨z, hz⟩ := hz
  intro h
  rw [isZero_iff, hz] at h
  have h1 : |(z : K)| < 1 := lt_of_lt_of_le h htol
  rw [← Int.cast_abs, ← Int.cast_one, Int.cast_lt, Int.abs_lt_one_iff] at h1
  rw [hz, h1]; simp

/-- a whole-unit security obeying the flag discipline -/
def IntSec (s : SecData K) : Prop := SecQuiet s ∧ s.integer = true ∧ IsInt s.position
/-- a market-value strategy -/
def MVStrat (sd : StratData K) : Prop := sd.fixedIncome = false

/-- the share-sizing search returns a whole number when it starts from one (integer securities) -/
theorem sizeLoop_isInt {cfg : Cfg K} {out : K → Except Err K} {pm amount : K}
    (hfloor : ∀ x : K, IsInt (floorA x)) :
    ∀ (fuel i : Nat) (q lastQ full lastShort r : K), IsInt q →
      sizeLoop cfg out pm amount true fuel i q lastQ full lastShort = .ok r → IsInt r := by
  intro fuel
  induction fuel with
  | zero => intro i q lastQ full lastShort r _ h; rw [sizeLoop] at h; cases h
  | succ n ih =>
    intro i q lastQ full lastShort r hq h
    rw [sizeLoop] at h
    split at h
    · cases (Except.pure_eq_ok h); exact hq
    · simp only [↓reduceIte] at h
      obtain ⟨full2, _, h⟩ := Except.bind_eq_ok h
      obtain ⟨b, _, h⟩ := Except.bind_eq_ok h
      split at h
      · cases (Except.pure_eq_ok h); exact hfloor _
      · split at h
        · cases h
        · split at h
          · cases h
          · split at h
            · cases h
            · exact ih _ _ _ _ _ _ (hfloor _) h

theorem allocQuantity_isInt {cfg : Cfg K} {comm : K → K → K} {s : SecData K} {amount q : K}
    (hfloor : ∀ x : K, IsInt (floorA x)) (hceil : ∀ x : K, IsInt (ceilA x))
    (hint : s.integer = true) (hpos : IsInt s.position)
    (h : allocQuantity cfg comm s amount = .ok (some q)) : IsInt q := by
  unfold allocQuantity at h
  split at h
  · cases h
  · split at h
    · cases h
    · rename_i price _
      split at h
      · cases h
      · have hq0 : IsInt (allocQ0 cfg s price amount) := by
          unfold allocQ0
          split
          · exact hpos.neg
          · dsimp only
            split
            · exact hfloor _
            · exact hceil _
        simp only at h
        split at h
        · cases h
        · split at h
          · cases (Except.pure_eq_ok h); exact hq0
          · obtain ⟨full0, _, h⟩ := Except.bind_eq_ok h
            obtain ⟨r, hr, hrq⟩ := Except.map_eq_ok h
            cases hrq
            rw [hint] at hr
            exact sizeLoop_isInt hfloor _ _ _ _ _ _ _ hq0 hr

/-- the whole-unit / market-value invariant -/
theorem treeInv_int {cfg : Cfg K} (htol : cfg.tol ≤ 1) (hfloor : ∀ x : K, IsInt (floorA x))
    (hceil : ∀ x : K, IsInt (ceilA x)) : TreeInv cfg (MVStrat (K := K)) (IntSec (K := K)) (IsInt (K := K)) where
  update := by
    intro d s s' ⟨hq, hi, hp⟩ h
    have hf := secUpdate_frame h
    exact ⟨(secUpdate_quietStep h).quiet hq (secNoDust_of_isInt htol hp), by rw [hf.integer]; exact hi,
      by rw [hf.position]; exact hp⟩
  transact := by
    intro comm s q custom s' a hq ⟨hqs, hi, hp⟩ h
    rcases secTransactCore_inv h with ⟨rfl, _⟩ | ⟨oa, bo, rfl, _, _⟩
    · exact ⟨hqs, hi, hp⟩
    · exact ⟨fun hn => (by cases hn), hi, hp.add hq⟩
  allocQty := fun _ _ _ _ hs h => allocQuantity_isInt hfloor hceil hs.2.1 hs.2.2 h
  closeQty := fun _ hs => hs.2.2.neg
  capital := fun _ _ hs => hs
  weight := fun _ _ hs => hs
  adjust := fun sd a h => by unfold MVStrat at *; simpa using h
  sweight := fun _ _ h => h
  step := fun d sd kids sd' kids' hq h => by
    unfold MVStrat at *; rw [(updNode_localBal h).fixedIncome]; exact hq
  bankrupt := fun d sd c h => by unfold MVStrat at *; simpa using h

theorem AllNodes.allSecs {Q : StratData K → Prop} {I S : SecData K → Prop} (hIS : ∀ s, I s → S s) :
    (∀ n : Node K, AllNodes Q I n → AllSecs S n) ∧ (∀ l : List (Node K), AllNodesKids Q I l → AllSecsKids S l) := by
  apply Node.induct
  · intro s h; simp only [AllNodes_sec, AllSecs_sec] at *; exact hIS s h
  · intro sd kids ih h; simp only [AllNodes_strat, AllSecs_strat] at *; exact ih h.2
  · intro _; simp
  · intro k ks ihk ihks h
    simp only [AllNodesKids_cons, AllSecsKids_cons] at *
    exact ⟨ihk h.1, ihks h.2⟩

theorem IntSec.quiet_noDust {cfg : Cfg K} (htol : cfg.tol ≤ 1) {n : Node K}
    (h : AllNodes (MVStrat (K := K)) IntSec n) : Quiet n ∧ NoDust cfg n :=
  ⟨(AllNodes.allSecs (fun _ hs => hs.1)).1 n h,
   (AllNodes.allSecs (fun _ hs => secNoDust_of_isInt htol hs.2.2)).1 n h⟩

end Bt
