import Bt.Algos.Select
import Mathlib.Order.Basic
import Mathlib.Order.Defs.LinearOrder
import Mathlib.Data.List.Nodup
import Mathlib.Algebra.Order.Floor.Semiring
/-! Helper lemmas about the selection model (`Bt.Algos.Select`). -/
namespace Bt.Select
set_option linter.unusedSectionVars false
set_option linter.unusedSimpArgs false

section Basic
variable {ι : Type} [DecidableEq ι]

theorem lookup_mem {β : Type} : ∀ (cols : List ι) (row : List β) (k : ι) (x : β),
    lookup cols row k = some x → k ∈ cols
  | [], _, _, _, h => by simp [lookup] at h
  | _ :: _, [], _, _, h => by simp [lookup] at h
  | c :: cs, y :: ys, k, x, h => by
    unfold lookup at h
    by_cases hc : c = k
    · simp [hc]
    · simp only [hc, ↓reduceIte] at h
      exact List.mem_cons_of_mem _ (lookup_mem cs ys k x h)

theorem allKnown_iff (cols ks : List ι) : allKnown cols ks = true ↔ ∀ k ∈ ks, k ∈ cols := by
  simp [allKnown]

theorem allSome_eq_some {β : Type} : ∀ (l : List (Option β)) (r : List β),
    allSome l = some r → l = r.map some
  | [], r, h => by simp [allSome] at h; simp [← h]
  | none :: _, _, h => by simp [allSome] at h
  | some x :: xs, r, h => by
    unfold allSome at h
    cases hx : allSome xs with
    | none => simp [hx] at h
    | some l =>
      simp only [hx, Option.some.injEq] at h
      subst h
      simp [allSome_eq_some xs l hx]

end Basic

section Tradable
variable {ι α : Type} [DecidableEq ι] [LT α] [DecidableLT α] [OfNat α 0]

theorem tradable_iff (neg : Bool) (x : Option α) :
    tradable neg x = true ↔ ∃ p, x = some p ∧ (neg = true ∨ 0 < p) := by
  cases x with
  | none => simp [tradable]
  | some p => simp [tradable]

theorem tradableAt_iff (cols : List ι) (row : List (Option α)) (neg : Bool) (k : ι) :
    tradableAt cols row neg k = true ↔ ∃ p, lookup cols row k = some (some p) ∧ (neg = true ∨ 0 < p) := by
  unfold tradableAt
  cases h : lookup cols row k with
  | none => simp
  | some x =>
    simp only [tradable_iff, Option.some.injEq]

/-- what an accepted `tradFilter` returns -/
theorem tradFilter_ok {cols : List ι} {row : List (Option α)} {nd neg : Bool} {ks out : List ι}
    (h : tradFilter cols row nd neg ks = .ok out) :
    (nd = true ∧ out = ks) ∨
    (nd = false ∧ (∀ k ∈ ks, k ∈ cols) ∧ out = ks.filter (tradableAt cols row neg)) := by
  unfold tradFilter at h
  cases nd with
  | true => left; simp at h; exact ⟨rfl, h.symm⟩
  | false =>
    right
    by_cases hk : allKnown cols ks = true
    · simp only [Bool.false_eq_true, ↓reduceIte, hk, Except.ok.injEq] at h
      exact ⟨rfl, (allKnown_iff _ _).1 hk, h.symm⟩
    · simp [hk] at h

theorem tradFilter_error {cols : List ι} {row : List (Option α)} {nd neg : Bool} {ks : List ι} {e : SelErr}
    (h : tradFilter cols row nd neg ks = .error e) : nd = false ∧ e = .keyError ∧ ∃ k ∈ ks, k ∉ cols := by
  unfold tradFilter at h
  cases nd with
  | true => simp at h
  | false =>
    by_cases hk : allKnown cols ks = true
    · simp [hk] at h
    · simp only [Bool.false_eq_true, ↓reduceIte, hk, Except.error.injEq] at h
      refine ⟨rfl, h.symm, ?_⟩
      have := (allKnown_iff cols ks).not.1 hk
      simpa using this

theorem rowAt_eq (t : Table ι α) (now : Nat) : t.rowAt now = t.rows[now]? := by
  simp [Table.rowAt, Table.visible, List.getElem?_take]

theorem filterNow_ok {t : Table ι α} {now : Nat} {nd neg : Bool} {ks out : List ι}
    (h : filterNow t now nd neg ks = .ok out) :
    (nd = true ∧ out = ks) ∨
    (nd = false ∧ ∃ row, t.rows[now]? = some row ∧ (∀ k ∈ ks, k ∈ t.cols) ∧
      out = ks.filter (tradableAt t.cols row neg)) := by
  unfold filterNow at h
  cases nd with
  | true => left; simp at h; exact ⟨rfl, h.symm⟩
  | false =>
    right
    simp only [Bool.false_eq_true, ↓reduceIte] at h
    cases hr : t.rowAt now with
    | none => simp [hr] at h
    | some row =>
      simp only [hr] at h
      rcases tradFilter_ok h with ⟨h1, _⟩ | ⟨_, h2, h3⟩
      · cases h1
      · exact ⟨rfl, row, by rw [← rowAt_eq]; exact hr, h2, h3⟩

/-- `filterNow` succeeds whenever the current row exists and the labels are columns -/
theorem filterNow_total {t : Table ι α} {now : Nat} {row : List (Option α)} (nd neg : Bool) (ks : List ι)
    (hr : t.rows[now]? = some row) (hk : ∀ k ∈ ks, k ∈ t.cols) :
    ∃ out, filterNow t now nd neg ks = .ok out := by
  unfold filterNow
  cases nd with
  | true => exact ⟨ks, rfl⟩
  | false =>
    rw [rowAt_eq, hr]
    simp only [Bool.false_eq_true, ↓reduceIte]
    unfold tradFilter
    simp [(allKnown_iff t.cols ks).2 hk]

/-- a ticker with a present, positive price on the current row -/
def Tradable (t : Table ι α) (now : Nat) (k : ι) : Prop :=
  ∃ row p, t.rows[now]? = some row ∧ lookup t.cols row k = some (some p) ∧ 0 < p

/-- with the default flags everything `filterNow` lets through is tradable, and is a column -/
theorem filterNow_default {t : Table ι α} {now : Nat} {ks out : List ι}
    (h : filterNow t now false false ks = .ok out) :
    ∀ k ∈ out, k ∈ ks ∧ k ∈ t.cols ∧ Tradable t now k := by
  rcases filterNow_ok h with ⟨h1, _⟩ | ⟨_, row, hr, hk, ho⟩
  · cases h1
  · intro k hkout
    subst ho
    rw [List.mem_filter] at hkout
    obtain ⟨p, hp, hpos⟩ := (tradableAt_iff _ _ _ _).1 hkout.2
    refine ⟨hkout.1, hk k hkout.1, row, p, hr, hp, ?_⟩
    simpa using hpos

theorem boolIndex_ok {sel cnt out : List ι} {key : ι → Bool} (h : boolIndex sel cnt key = .ok out) :
    out = cnt.filter key := by
  unfold boolIndex at h
  split at h
  · simp only [Except.ok.injEq] at h; exact h.symm
  · cases h

/-- the IndexError of the label alignment needs a label that occurs twice -/
theorem boolIndex_error {sel cnt : List ι} {key : ι → Bool} {e : SelErr} (h : boolIndex sel cnt key = .error e)
    (hsub : ∀ k ∈ cnt, k ∈ sel) : e = .indexError ∧ ¬ sel.Nodup := by
  unfold boolIndex at h
  split at h
  · cases h
  · rename_i hc
    simp only [Except.error.injEq] at h
    refine ⟨h.symm, fun hnd => hc ?_⟩
    simp only [Bool.or_eq_true, List.all_eq_true, decide_eq_true_eq]
    left; right
    intro k hk
    exact List.count_eq_one_of_mem hnd (hsub k hk)

theorem tradableAt_false_imp_true (cols : List ι) (row : List (Option α)) (k : ι)
    (h : tradableAt cols row false k = true) : tradableAt cols row true k = true := by
  obtain ⟨p, hp, _⟩ := (tradableAt_iff _ _ _ _).1 h
  exact (tradableAt_iff _ _ _ _).2 ⟨p, hp, Or.inl rfl⟩

theorem filter_tradable_twice (cols : List ι) (row : List (Option α)) (l : List ι) :
    (l.filter (tradableAt cols row true)).filter (tradableAt cols row false) = l.filter (tradableAt cols row false) := by
  rw [List.filter_filter]
  apply List.filter_congr
  intro k _
  cases h : tradableAt cols row false k with
  | false => simp
  | true => simp [tradableAt_false_imp_true cols row k h]

/-- dropping the rows after `now` -/
def Table.truncate (t : Table ι α) (now : Nat) : Table ι α := { cols := t.cols, rows := t.rows.take (now + 1) }

theorem visible_truncate (t : Table ι α) (now : Nat) : (t.truncate now).visible now = t.visible now := by
  simp [Table.truncate, Table.visible, List.take_take]

theorem rowAt_truncate (t : Table ι α) (now : Nat) : (t.truncate now).rowAt now = t.rowAt now := by
  simp [Table.rowAt, visible_truncate]

theorem window_truncate (t : Table ι α) (now lo hi1 : Nat) :
    (t.truncate now).window now lo hi1 = t.window now lo hi1 := by
  simp [Table.window, visible_truncate]

theorem filterNow_truncate (t : Table ι α) (now : Nat) (nd neg : Bool) (ks : List ι) :
    filterNow (t.truncate now) now nd neg ks = filterNow t now nd neg ks := by
  unfold filterNow
  rw [rowAt_truncate]
  rfl

end Tradable

section Sample
variable {ι : Type} [DecidableEq ι]

theorem isSampleOf_iff (pool : List ι) (k : Nat) (out : List ι) :
    isSampleOf pool k out = true ↔ out.length = k ∧ ∀ x ∈ out, out.count x ≤ pool.count x := by
  simp [isSampleOf]

theorem isSampleOf_subset {pool : List ι} {k : Nat} {out : List ι} (h : isSampleOf pool k out = true) :
    out ⊆ pool := by
  intro x hx
  have h2 := ((isSampleOf_iff pool k out).1 h).2 x hx
  have h3 : 0 < out.count x := List.count_pos_iff.2 hx
  exact List.count_pos_iff.1 (Nat.lt_of_lt_of_le h3 h2)

end Sample

section Rank
variable {ι α : Type} [DecidableEq ι]

theorem mem_dropna {s : List (ι × Option α)} {k : ι} {x : α} : (k, x) ∈ dropna s ↔ (k, some x) ∈ s := by
  unfold dropna
  rw [List.mem_filterMap]
  constructor
  · rintro ⟨⟨k', x'⟩, hm, he⟩
    cases x' with
    | none => simp at he
    | some y =>
      simp only [Option.map_some, Option.some.injEq, Prod.mk.injEq] at he
      obtain ⟨rfl, rfl⟩ := he
      exact hm
  · intro h
    exact ⟨(k, some x), h, by simp⟩

theorem dropna_keys_sublist (s : List (ι × Option α)) : ((dropna s).map Prod.fst).Sublist (s.map Prod.fst) := by
  induction s with
  | nil => simp [dropna]
  | cons a s ih =>
    obtain ⟨k, x⟩ := a
    cases x with
    | none =>
      simp only [dropna, List.filterMap_cons, Option.map_none, List.map_cons] at ih ⊢
      exact List.Sublist.cons _ ih
    | some y =>
      simp only [dropna, List.filterMap_cons, Option.map_some, List.map_cons] at ih ⊢
      exact List.Sublist.cons_cons _ ih

theorem eligible_keys_sublist (s : List (ι × Option α)) (prior : Option (List ι)) (fs : Bool) :
    ((eligible s prior fs).map Prod.fst).Sublist (s.map Prod.fst) := by
  unfold eligible
  split
  · exact ((List.filter_sublist (l := dropna s)).map Prod.fst).trans (dropna_keys_sublist s)
  · exact dropna_keys_sublist s

theorem eligible_keys_nodup {s : List (ι × Option α)} (h : (s.map Prod.fst).Nodup) (prior : Option (List ι)) (fs : Bool) :
    ((eligible s prior fs).map Prod.fst).Nodup :=
  (eligible_keys_sublist s prior fs).nodup h

theorem mem_eligible {s : List (ι × Option α)} {prior : Option (List ι)} {fs : Bool} {k : ι} {x : α} :
    (k, x) ∈ eligible s prior fs ↔ (k, some x) ∈ s ∧ (fs = true → ∀ p, prior = some p → k ∈ p) := by
  unfold eligible
  split
  · rename_i p
    simp [List.mem_filter, mem_dropna]
  · rename_i h
    rw [mem_dropna]
    constructor
    · intro hm
      refine ⟨hm, ?_⟩
      intro hfs p hp
      subst hfs hp
      exact (h p rfl rfl).elim
    · exact fun hm => hm.1

/-- value lookup finds the value of a member when keys are unique -/
theorem valOf_of_mem : ∀ {E : List (ι × α)} {k : ι} {v : α}, (E.map Prod.fst).Nodup → (k, v) ∈ E → valOf E k = some v
  | [], _, _, _, h => by simp at h
  | (k', v') :: E, k, v, hnd, h => by
    simp only [List.map_cons, List.nodup_cons] at hnd
    unfold valOf
    simp only [List.map_cons, lookup]
    by_cases hk : k' = k
    · subst hk
      simp only [↓reduceIte, Option.some.injEq]
      rcases List.mem_cons.1 h with h | h
      · exact (Prod.mk.inj h).2.symm
      · exact absurd (List.mem_map_of_mem (f := Prod.fst) h) hnd.1
    · simp only [hk, ↓reduceIte]
      rcases List.mem_cons.1 h with h | h
      · exact absurd (Prod.mk.inj h).1.symm hk
      · exact valOf_of_mem hnd.2 h

theorem valOf_mem : ∀ {E : List (ι × α)} {k : ι} {v : α}, valOf E k = some v → (k, v) ∈ E
  | [], _, _, h => by simp [valOf, lookup] at h
  | (k', v') :: E, k, v, h => by
    unfold valOf at h
    simp only [List.map_cons, lookup] at h
    by_cases hk : k' = k
    · subst hk
      simp only [↓reduceIte, Option.some.injEq] at h
      subst h
      exact List.mem_cons_self
    · simp only [hk, ↓reduceIte] at h
      exact List.mem_cons_of_mem _ (valOf_mem h)

end Rank

section RankOrder
variable {ι α : Type} [DecidableEq ι] [LinearOrder α]

theorem leDir_iff (asc : Bool) (a b : α) : leDir asc a b = true ↔ (if asc then a ≤ b else b ≤ a) := by
  cases asc <;> simp [leDir]

theorem before_eq (asc : Bool) (a b : ι × α) : before asc a b = leDir asc a.2 b.2 := by
  cases asc <;> simp [before, leDir]

theorem before_trans (asc : Bool) (a b c : ι × α) : before asc a b = true → before asc b c = true → before asc a c = true := by
  cases asc <;> simp only [before, Bool.false_eq_true, ↓reduceIte, decide_eq_true_eq]
  · exact fun h1 h2 => le_trans h2 h1
  · exact fun h1 h2 => le_trans h1 h2

theorem before_total (asc : Bool) (a b : ι × α) : (before asc a b || before asc b a) = true := by
  cases asc <;> simp only [before, Bool.false_eq_true, ↓reduceIte, Bool.or_eq_true, decide_eq_true_eq]
  · exact le_total b.2 a.2
  · exact le_total a.2 b.2

theorem insertBy_perm {β : Type} (le : β → β → Bool) (x : β) : ∀ l : List β, (insertBy le x l).Perm (x :: l)
  | [] => List.Perm.refl _
  | y :: ys => by
    unfold insertBy
    by_cases h : le x y = true
    · simp [h]
    · simp only [h, Bool.false_eq_true, ↓reduceIte]
      exact ((insertBy_perm le x ys).cons y).trans (List.Perm.swap x y ys)

theorem sortBy_perm {β : Type} (le : β → β → Bool) : ∀ l : List β, (sortBy le l).Perm l
  | [] => List.Perm.refl _
  | x :: xs => (insertBy_perm le x _).trans ((sortBy_perm le xs).cons x)

theorem insertBy_pairwise {β : Type} {le : β → β → Bool}
    (trans : ∀ a b c, le a b = true → le b c = true → le a c = true)
    (total : ∀ a b, (le a b || le b a) = true) (x : β) :
    ∀ l : List β, l.Pairwise (fun a b => le a b = true) → (insertBy le x l).Pairwise (fun a b => le a b = true)
  | [], _ => by simp [insertBy]
  | y :: ys, h => by
    unfold insertBy
    rw [List.pairwise_cons] at h
    by_cases hxy : le x y = true
    · simp only [hxy, ↓reduceIte]
      refine List.pairwise_cons.2 ⟨?_, List.pairwise_cons.2 h⟩
      intro z hz
      rcases List.mem_cons.1 hz with rfl | hz
      · exact hxy
      · exact trans _ _ _ hxy (h.1 z hz)
    · simp only [hxy, Bool.false_eq_true, ↓reduceIte]
      have hyx : le y x = true := by
        have := total x y
        simpa [hxy] using this
      refine List.pairwise_cons.2 ⟨?_, insertBy_pairwise trans total x ys h.2⟩
      intro z hz
      rcases List.mem_cons.1 ((insertBy_perm le x ys).subset hz) with rfl | hz
      · exact hyx
      · exact h.1 z hz

theorem sortBy_pairwise {β : Type} {le : β → β → Bool}
    (trans : ∀ a b c, le a b = true → le b c = true → le a c = true)
    (total : ∀ a b, (le a b || le b a) = true) :
    ∀ l : List β, (sortBy le l).Pairwise (fun a b => le a b = true)
  | [] => List.Pairwise.nil
  | x :: xs => insertBy_pairwise trans total x _ (sortBy_pairwise trans total xs)

theorem ranked_perm (asc : Bool) (E : List (ι × α)) : (ranked asc E).Perm E := sortBy_perm _ E

theorem ranked_pairwise (asc : Bool) (E : List (ι × α)) :
    (ranked asc E).Pairwise (fun a b => before asc a b = true) :=
  sortBy_pairwise (before_trans asc) (before_total asc) E

theorem sortedDir_iff (asc : Bool) : ∀ l : List α, sortedDir asc l = true ↔ l.Pairwise (fun a b => leDir asc a b = true)
  | [] => by simp [sortedDir]
  | a :: l => by
    simp only [sortedDir, Bool.and_eq_true, List.all_eq_true, List.pairwise_cons, sortedDir_iff asc l]


theorem filterMap_valOf (E : List (ι × α)) : ∀ (P : List (ι × α)), (∀ p ∈ P, valOf E p.1 = some p.2) →
    (P.map Prod.fst).filterMap (valOf E) = P.map Prod.snd
  | [], _ => rfl
  | p :: P, h => by
    have hp := h p List.mem_cons_self
    have ih := filterMap_valOf E P (fun q hq => h q (List.mem_cons_of_mem _ hq))
    simp only [List.map_cons, List.filterMap_cons, hp, ih]

/-- the stable-sort implementation satisfies the ranking relation -/
theorem isTopK_ranked (asc : Bool) (E : List (ι × α)) (hnd : (E.map Prod.fst).Nodup) (k : Nat) :
    isTopK asc E k (((ranked asc E).take k).map Prod.fst) = true := by
  have hperm := ranked_perm asc E
  have hpw := ranked_pairwise asc E
  have hmemE : ∀ p ∈ (ranked asc E).take k, p ∈ E := fun p hp => hperm.subset (List.mem_of_mem_take hp)
  have hval : ∀ p ∈ (ranked asc E).take k, valOf E p.1 = some p.2 := fun p hp => valOf_of_mem hnd (hmemE p hp)
  unfold isTopK
  simp only [Bool.and_eq_true, decide_eq_true_eq, List.all_eq_true, Bool.or_eq_true]
  refine ⟨⟨⟨⟨?_, ?_⟩, ?_⟩, ?_⟩, ?_⟩
  · simp [List.length_take, hperm.length_eq]
  · intro o ho
    obtain ⟨p, hp, rfl⟩ := List.mem_map.1 ho
    rw [hval p hp]; rfl
  · intro o _
    have h1 := (((List.take_sublist k (ranked asc E)).map Prod.fst).count_le o)
    have h2 := (hperm.map Prod.fst).count_eq o
    omega
  · rw [filterMap_valOf E _ hval, sortedDir_iff, List.pairwise_map]
    have := hpw.sublist (List.take_sublist k _)
    exact this.imp (fun {a b} h => by rw [← before_eq]; exact h)
  · intro e he
    by_cases hin : e.1 ∈ ((ranked asc E).take k).map Prod.fst
    · left; exact hin
    · right
      intro o ho
      obtain ⟨p, hp, rfl⟩ := List.mem_map.1 ho
      rw [hval p hp]
      have heS : e ∈ ranked asc E := hperm.mem_iff.2 he
      rw [← List.take_append_drop k (ranked asc E)] at heS hpw
      have heD : e ∈ (ranked asc E).drop k := by
        rcases List.mem_append.1 heS with h | h
        · exact absurd (List.mem_map_of_mem (f := Prod.fst) h) hin
        · exact h
      have := (List.pairwise_append.1 hpw).2.2 p hp e heD
      rw [before_eq] at this
      exact this

theorem allOrNone_eq {β : Type} (aon : Bool) (k n : Nat) (sel : List β) (h : sel.length = min k n) :
    allOrNone aon k sel = if aon && decide (n < k) then [] else sel := by
  unfold allOrNone
  have : (sel.length < k) ↔ (n < k) := by omega
  simp [this]


/-- what the ranking relation means -/
theorem isTopK_sound {asc : Bool} {E : List (ι × α)} {k : Nat} {out : List ι} (h : isTopK asc E k out = true) :
    out.length = min k E.length ∧
    (∀ o ∈ out, ∃ v, (o, v) ∈ E) ∧
    (∀ o ∈ out, out.count o ≤ (E.map Prod.fst).count o) ∧
    (out.filterMap (valOf E)).Pairwise (fun a b => leDir asc a b = true) ∧
    (∀ e ∈ E, e.1 ∉ out → ∀ o ∈ out, ∀ v, valOf E o = some v → leDir asc v e.2 = true) := by
  unfold isTopK at h
  simp only [Bool.and_eq_true, decide_eq_true_eq, List.all_eq_true, Bool.or_eq_true] at h
  obtain ⟨⟨⟨⟨h1, h2⟩, h3⟩, h4⟩, h5⟩ := h
  refine ⟨h1, ?_, h3, (sortedDir_iff asc _).1 h4, ?_⟩
  · intro o ho
    have := h2 o ho
    cases hv : valOf E o with
    | none => simp [hv] at this
    | some v => exact ⟨v, valOf_mem hv⟩
  · intro e he hne o ho v hv
    rcases h5 e he with h | h
    · exact absurd h hne
    · have := h o ho
      simpa [hv] using this

end RankOrder

/-- `int(x)` for `x ≥ 0` and `float(len)` at an ordered semiring with a floor (how the theorems read `keepN`) -/
instance fieldNatFloor {K : Type} [Semiring K] [PartialOrder K] [FloorSemiring K] : HasNatFloor K := ⟨Nat.floor, Nat.cast⟩

/-- integers, for computed examples only -/
instance intNatFloor : HasNatFloor Int := ⟨Int.toNat, Int.ofNat⟩

end Bt.Select
