import Bt.Proofs.Quiet
/-! Under `Quiet` the sums of the balance-sheet identity range over ALL children; weights sum to one. -/
namespace Bt
set_option linter.unusedSectionVars false
variable {K : Type} [Field K] [LinearOrder K] [IsStrictOrderedRing K] [HasFloor K]

/-- cash plus the values of all children -/
def allV (sd' : StratData K) (kids' : List (Node K)) : K := sd'.capital + sumOf Node.value kids'
/-- sum of the absolute notionals of all children -/
def allN (kids' : List (Node K)) : K := sumOf (fun k => |k.notl|) kids'

/-- the balance sheet of one strategy, stated on the updated tree alone -/
structure LocalBalAll (cfg : Cfg K) (sd' : StratData K) (kids' : List (Node K)) : Prop where
  value : sd'.value = allV sd' kids' ∨ |sd'.value - allV sd' kids'| < cfg.tol
  notl : sd'.notl = allN kids' ∨ |sd'.notl - allN kids'| < cfg.tol
  weights : ∀ k' ∈ kids', k'.skipped = false →
    k'.weight = childWeight cfg sd'.fixedIncome (allV sd' kids') (allN kids') k'

/-- the balance sheet at every strategy of a tree -/
def BalancedAll (cfg : Cfg K) : Node K → Prop := TreeAll (LocalBalAll cfg) (fun _ => True)
def BalancedAllKids (cfg : Cfg K) : List (Node K) → Prop := TreeAllKids (LocalBalAll cfg) (fun _ => True)

/-- for quiet inputs the visited sum is the full sum -/
theorem visSum_eq_sumOf {cfg : Cfg K} {d : Nat} (f : Node K → K)
    (hf : ∀ s : SecData K, s.value = 0 → s.notl = 0 → f (.sec s) = 0) :
    ∀ (kids kids' : List (Node K)), UpdRelKids cfg d kids kids' →
      AllSecsKids (fun s => SecQuiet s ∧ SecNoDust cfg s) kids → visSum f kids kids' = sumOf f kids' := by
  intro kids
  induction kids with
  | nil =>
    intro kids' h _
    cases kids' with
    | nil => simp [visSum, sumOf]
    | cons k' ks' => simp [UpdRelKids, TreeRelKids] at h
  | cons k ks ih =>
    intro kids' h hq
    cases kids' with
    | nil => simp [UpdRelKids, TreeRelKids] at h
    | cons k' ks' =>
      simp only [UpdRelKids, TreeRelKids, AllSecsKids_cons] at h hq
      have hrest := ih ks' h.2 hq.2
      simp only [visSum, sumOf, hrest, add_left_inj]
      cases k with
      | strat sd kk => simp [Node.skipped]
      | sec s =>
        cases k' with
        | strat sd' kk' => simp [TreeRel] at h
        | sec s' =>
          have hs : QuietStep cfg s s' := by simpa [TreeRel] using h.1
          have hqs : SecQuiet s ∧ SecNoDust cfg s := by simpa using hq.1
          cases hn : s.needupdate
          · have hn' := hs.stays hqs.1 hqs.2 hn
            obtain ⟨_, hv, hnl⟩ := hs.quiet hqs.1 hqs.2 hn'
            simp [Node.skipped, hn, hf s' hv hnl]
          · simp [Node.skipped, hn]

theorem LocalBal.all {cfg : Cfg K} {d : Nat} {sd sd' : StratData K} {kids kids' : List (Node K)}
    (_h : LocalBal cfg d sd kids sd' kids') (hr : UpdRelKids cfg d kids kids')
    (hq : AllSecsKids (fun s => SecQuiet s ∧ SecNoDust cfg s) kids) :
    stratV sd' kids kids' = allV sd' kids' ∧ stratN kids kids' = allN kids' := by
  unfold stratV stratN allV allN
  rw [visSum_eq_sumOf Node.value (fun s hv _ => hv) kids kids' hr hq,
    visSum_eq_sumOf (fun k => |k.notl|) (fun s _ hn => by simp [Node.notl, hn]) kids kids' hr hq]
  exact ⟨rfl, rfl⟩

theorem LocalBal.toAll {cfg : Cfg K} {d : Nat} {sd sd' : StratData K} {kids kids' : List (Node K)}
    (h : LocalBal cfg d sd kids sd' kids') (hr : UpdRelKids cfg d kids kids')
    (hq : AllSecsKids (fun s => SecQuiet s ∧ SecNoDust cfg s) kids) : LocalBalAll cfg sd' kids' := by
  obtain ⟨hV, hN⟩ := h.all hr hq
  refine ⟨?_, ?_, ?_⟩
  · rw [← hV]; rcases h.value with h1 | ⟨_, h1⟩
    · exact Or.inl h1
    · exact Or.inr h1
  · rw [← hN]; rcases h.notl with h1 | ⟨_, h1⟩
    · exact Or.inl h1
    · exact Or.inr h1
  · rw [← hV, ← hN]; exact h.weights

theorem UpdRel.balancedAll {cfg : Cfg K} {d : Nat} :
    (∀ n n' : Node K, UpdRel cfg d n n' → AllSecs (fun s => SecQuiet s ∧ SecNoDust cfg s) n →
      BalancedAll cfg n') ∧
    (∀ l l' : List (Node K), UpdRelKids cfg d l l' → AllSecsKids (fun s => SecQuiet s ∧ SecNoDust cfg s) l →
      BalancedAllKids cfg l') := by
  apply Node.induct
  · intro s n' h _
    cases n' with
    | sec s' => simp [BalancedAll, TreeAll]
    | strat sd' kids' => simp [UpdRel, TreeRel] at h
  · intro sd kids ih n' h hq
    cases n' with
    | sec s' => simp [UpdRel, TreeRel] at h
    | strat sd' kids' =>
      simp only [UpdRel, TreeRel, AllSecs_strat] at h hq
      simp only [BalancedAll, TreeAll]
      exact ⟨h.1.toAll h.2 hq, ih _ h.2 hq⟩
  · intro l' h _
    cases l' with
    | nil => simp [BalancedAllKids, TreeAllKids]
    | cons k' ks' => simp [UpdRelKids, TreeRelKids] at h
  · intro k ks ihk ihks l' h hq
    cases l' with
    | nil => simp [UpdRelKids, TreeRelKids] at h
    | cons k' ks' =>
      simp only [UpdRelKids, TreeRelKids, AllSecsKids_cons] at h hq
      simp only [BalancedAllKids, TreeAllKids]
      exact ⟨ihk _ h.1 hq.1, ihks _ h.2 hq.2⟩

theorem updNode_balancedAll_aux {cfg : Cfg K} {d : Nat} {n n' : Node K} (h : updNode cfg d n = .ok n')
    (hq : Quiet n) (hn : NoDust cfg n) : BalancedAll cfg n' :=
  UpdRel.balancedAll.1 n n' (updNode_updRel h) (AllSecs.and.1 n hq hn)

/-! ### sums -/
theorem sumOf_congr {f g : Node K → K} : ∀ (l : List (Node K)), (∀ k ∈ l, f k = g k) → sumOf f l = sumOf g l := by
  intro l
  induction l with
  | nil => intro _; rfl
  | cons k ks ih =>
    intro h
    simp only [sumOf]
    rw [h k (List.mem_cons_self), ih (fun k' hk' => h k' (List.mem_cons_of_mem _ hk'))]

theorem sumOf_div (f : Node K → K) (V : K) : ∀ (l : List (Node K)), sumOf (fun k => f k / V) l = sumOf f l / V := by
  intro l
  induction l with
  | nil => simp [sumOf]
  | cons k ks ih => simp only [sumOf, ih]; ring

/-- children that are skipped after the update carry no value when the tree is quiet -/
theorem Quiet.skipped_value {k : Node K} (hq : Quiet k) (hs : k.skipped = true) : k.value = 0 ∧ k.notl = 0 := by
  cases k with
  | strat sd kk => simp [Node.skipped] at hs
  | sec s =>
    simp only [Node.skipped, Bool.not_eq_eq_eq_not, Bool.not_true] at hs
    have := (AllSecs_sec _ _).mp hq hs
    exact ⟨this.2.1, this.2.2⟩

/-- market-value strategy whose value equals cash + Σ children and is not `isZero`: the weights of the
    children that are not skipped, plus the cash fraction, sum to one -/
theorem weights_sum_one_aux {cfg : Cfg K} {sd' : StratData K} {kids' : List (Node K)}
    (hb : LocalBalAll cfg sd' kids') (hq : AllSecsKids SecQuiet kids') (hmv : sd'.fixedIncome = false)
    (hv : sd'.value = allV sd' kids') (hnz : isZero cfg.tol sd'.value = false) (htol : 0 < cfg.tol) :
    sumOf (fun k => if k.skipped then 0 else k.weight) kids' + sd'.capital / sd'.value = 1 := by
  have hV0 : allV sd' kids' ≠ 0 := by
    rw [← hv]
    intro h0
    rw [h0, isZero_zero htol] at hnz; cases hnz
  have hnzV : isZero cfg.tol (allV sd' kids') = false := by rw [← hv]; exact hnz
  have h1 : sumOf (fun k => if k.skipped then 0 else k.weight) kids' =
      sumOf (fun k => k.value / allV sd' kids') kids' := by
    apply sumOf_congr
    intro k hk
    cases hs : k.skipped
    · simp only [Bool.false_eq_true, ↓reduceIte]
      rw [hb.weights k hk hs, hmv]
      simp [childWeight, hnzV]
    · simp only [↓reduceIte]
      have := (Quiet.skipped_value (hq.mem k hk) hs).1
      rw [this]; simp
  rw [h1, sumOf_div, hv]
  unfold allV at hV0 ⊢
  rw [← add_div, div_eq_one_iff_eq hV0]
  ring

end Bt
