import Bt.Proofs.Causal
import Bt.Algos.Rebalance
import Bt.Props.C14
import Bt.Props.C15
/-! C04 (no look-ahead), part 7: worked instances.  `bt.algos.Rebalance` (the model `algoRebalance`) is causal
    and public; stacked under a selector (C14: `selectAll_no_lookahead`) or a lookback-window weigher with a lag
    (C15: `window_prefix_determined`) it gives algo functions that are causal in the supplied frames too. -/
set_option linter.unusedSectionVars false
namespace Bt.P04
open Bt Bt.P08

variable {K : Type} [Field K] [LinearOrder K] [IsStrictOrderedRing K] [HasFloor K]
variable {cfg : Cfg K} {t : Nat}

/-! ### `Rebalance` is a sequence of public calls -/

theorem runC_refresh {C : Nat → Prop} {w w' : World K} (h : refresh cfg w = .ok w') : RunC cfg C w w' :=
  .single (.read [] .stratRefreshing h)

theorem closeNonTargets_runC {C : Nat → Prop} (path : List Nat) (targets : List Nat) :
    ∀ (is : List Nat) (w w' : World K), closeNonTargets cfg path targets is w = .ok w' → RunC cfg C w w'
  | [], w, w', h => by rw [closeNonTargets] at h; cases h; exact .nil _
  | i :: rest, w, w', h => by
    rw [closeNonTargets] at h
    split at h
    · exact closeNonTargets_runC path targets rest w w' h
    · obtain ⟨w1, h1, h⟩ := bind_eq_ok h
      refine (runC_refresh h1).append ?_
      split at h
      · simp only at h
        have key : ∀ b : Bool, (if b = true then
              (opClose cfg w1 path i false).bind (closeNonTargets cfg path targets rest)
            else closeNonTargets cfg path targets rest w1) = .ok w' → RunC cfg C w1 w' := by
          intro b hb
          cases b with
          | false =>
            simp only [Bool.false_eq_true, ↓reduceIte] at hb
            exact closeNonTargets_runC path targets rest w1 w' hb
          | true =>
            simp only [↓reduceIte] at hb
            obtain ⟨w2, h2, hb⟩ := bind_eq_ok hb
            exact .cons (.close _ _ _ h2) (closeNonTargets_runC path targets rest w2 w' hb)
        exact key _ h
      · cases h

theorem rebalanceTargets_runC {C : Nat → Prop} (path : List Nat) (base scale : K) :
    ∀ (ts : List (Nat × K)) (w w' : World K), rebalanceTargets cfg path base scale ts w = .ok w' →
      RunC cfg C w w'
  | [], w, w', h => by rw [rebalanceTargets] at h; cases h; exact .nil _
  | (i, wt) :: rest, w, w', h => by
    rw [rebalanceTargets] at h
    obtain ⟨w1, h1, h⟩ := bind_eq_ok h
    exact .cons (.rebalance _ _ _ _ _ h1) (rebalanceTargets_runC path base scale rest w1 w' h)

/-- `Rebalance()` on a world whose clocks lie in `C`: public calls, and its closing `root.update(now)` is at a
    date in `C` -/
theorem algoRebalance_runC {C : Nat → Prop} {w w' : World K} (hw : WOK C w) {path : List Nat}
    {targets : List (Nat × K)} {cash notional : Option K}
    (h : algoRebalance cfg w path targets cash notional = .ok w') : RunC cfg C w w' := by
  unfold algoRebalance at h
  split at h
  · obtain ⟨w1, h1, h⟩ := bind_eq_ok h
    have r1 : RunC cfg C w w1 := by
      split at h1
      · cases h1; exact .nil _
      · exact runC_refresh h1
    refine r1.append ?_
    split at h
    · simp only at h
      obtain ⟨w2, h2, h⟩ := bind_eq_ok h
      have r2 := closeNonTargets_runC (C := C) _ _ _ _ _ h2
      obtain ⟨w3, h3, h⟩ := bind_eq_ok h
      have r3 := rebalanceTargets_runC (C := C) _ _ _ _ _ _ h3
      refine r2.append (r3.append ?_)
      have hw3 : WOK C w3 := r3.wok (r2.wok (r1.wok hw))
      split at h
      · rename_i d hd
        exact .single (.update d (hw3.2 d hd) h)
      · cases h
    · cases h
  · cases h

/-! ### `Rebalance` on truncated data -/

theorem closeNonTargets_trunc (path : List Nat) (targets : List Nat) :
    ∀ (is : List Nat) (w : World K), ClockLE t w →
      closeNonTargets cfg path targets is (w.trunc t) =
        (closeNonTargets cfg path targets is w).map (World.trunc t)
  | [], w, _ => by rw [closeNonTargets, closeNonTargets]; rfl
  | i :: rest, w, hw => by
    rw [closeNonTargets, closeNonTargets]
    refine ite_comm Iff.rfl (Except.map (World.trunc t)) (closeNonTargets_trunc path targets rest w hw) ?_
    refine bind_comm (World.trunc t) (World.trunc t) (refresh_trunc hw) fun w1 h1 => ?_
    have hw1 := refresh_keep h1 hw
    rw [world_trunc_root, get?_trunc, get?_trunc]
    cases hg : w1.root.get? path with
    | none => rfl
    | some n =>
      cases n with
      | sec s => rfl
      | strat sd ks =>
        cases hc : w1.root.get? (path ++ [i]) with
        | none => rfl
        | some c =>
          simp only [Option.map_some, trunc_strat, node_trunc_notl, node_trunc_value]
          refine ite_comm Iff.rfl (Except.map (World.trunc t)) ?_ (closeNonTargets_trunc path targets rest w1 hw1)
          exact bind_comm (World.trunc t) (World.trunc t) (opClose_trunc hw1 _ _ _) fun w2 h2 =>
            closeNonTargets_trunc path targets rest w2 (opClose_keep h2 hw1)

theorem rebalanceTargets_trunc (path : List Nat) (base scale : K) :
    ∀ (ts : List (Nat × K)) (w : World K), ClockLE t w →
      rebalanceTargets cfg path base scale ts (w.trunc t) =
        (rebalanceTargets cfg path base scale ts w).map (World.trunc t)
  | [], w, _ => by rw [rebalanceTargets, rebalanceTargets]; rfl
  | (i, wt) :: rest, w, hw => by
    rw [rebalanceTargets, rebalanceTargets]
    exact bind_comm (World.trunc t) (World.trunc t) (opRebalance_trunc hw _ _ _ _ _) fun w1 h1 =>
      rebalanceTargets_trunc path base scale rest w1 (opRebalance_keep h1 hw)

/-- **`Rebalance()` on data truncated after `t`, all clocks `≤ t`** -/
theorem algoRebalance_trunc {w : World K} (hw : ClockLE t w) (path : List Nat) (targets : List (Nat × K))
    (cash notional : Option K) :
    algoRebalance cfg (w.trunc t) path targets cash notional =
      (algoRebalance cfg w path targets cash notional).map (World.trunc t) := by
  unfold algoRebalance
  rw [world_trunc_root, get?_trunc]
  cases hg : w.root.get? path with
  | none => rfl
  | some n =>
    cases n with
    | sec s => rfl
    | strat sd0 kids0 =>
      simp only [Option.map_some, trunc_strat, truncL_length]
      refine bind_comm (World.trunc t) (World.trunc t) ?_ fun w1 h1 => ?_
      · exact ite_comm Iff.rfl (Except.map (World.trunc t)) rfl (refresh_trunc hw)
      · have hw1 : ClockLE t w1 := by
          split at h1
          · cases h1; exact hw
          · exact refresh_keep h1 hw
        rw [world_trunc_root, get?_trunc]
        cases hg1 : w1.root.get? path with
        | none => rfl
        | some n1 =>
          cases n1 with
          | sec s => rfl
          | strat sd ks =>
            simp only [Option.map_some, trunc_strat]
            refine bind_comm (World.trunc t) (World.trunc t) (closeNonTargets_trunc _ _ _ w1 hw1) fun w2 h2 => ?_
            have hw2 : ClockLE t w2 := (closeNonTargets_runC (C := (· ≤ t)) _ _ _ _ _ h2).wok hw1
            refine bind_comm (World.trunc t) (World.trunc t) (rebalanceTargets_trunc _ _ _ _ w2 hw2)
              fun w3 h3 => ?_
            have hw3 : ClockLE t w3 := (rebalanceTargets_runC (C := (· ≤ t)) _ _ _ _ _ _ h3).wok hw2
            rw [world_trunc_root, node_trunc_now]
            cases hn : w3.root.now with
            | none => rfl
            | some d => exact updRoot_trunc cfg (hw3.2 d hn) w3

/-- `Rebalance` with fixed targets is causal and public -/
theorem causal_algoRebalance (path : List Nat) (targets : List (Nat × K)) (cash notional : Option K) :
    Causal t (fun _ w => algoRebalance cfg w path targets cash notional) :=
  fun _ hd _ hw => algoRebalance_trunc (hw.clockLE hd) path targets cash notional

theorem runPublic_algoRebalance (path : List Nat) (targets : List (Nat × K)) (cash notional : Option K) :
    RunPublic cfg (fun _ w => algoRebalance cfg w path targets cash notional) :=
  fun _ _ _ hw h => algoRebalance_runC hw h

/-! ### SelectAll → WeighEqually → Rebalance (C14) -/

/-- two price universes (C14's tables, rows indexed by date) agree on every row `≤ t` -/
def SelAgree {ι α : Type} (t : Nat) (p p' : Select.Table ι α) : Prop := p.truncate t = p'.truncate t

theorem truncate_truncate {ι α : Type} (p : Select.Table ι α) {d t : Nat} (h : d ≤ t) :
    (p.truncate t).truncate d = p.truncate d := by
  simp only [Select.Table.truncate, List.take_take]
  rw [Nat.min_eq_left (by omega)]

/-- what a selector computes at a date `d ≤ t` is the same on two universes that agree up to `t`, once it is
    known not to look past `d` -/
theorem sel_agree {ι α X : Type} (f : Select.Table ι α → Nat → X)
    (hno : ∀ p d, f (p.truncate d) d = f p d) {p p' : Select.Table ι α} {d : Nat} (hd : d ≤ t)
    (h : SelAgree t p p') : f p' d = f p d := by
  rw [← hno p d, ← hno p' d, ← truncate_truncate p hd, ← truncate_truncate p' hd, h]

/-- what the rest of the stack does with the selector's outcome: equal weights on the selected children
    (named by their index), `Rebalance()` on the root; a selector error stops the stack (nothing is traded) -/
def selEqInner (cfg : Cfg K) (x : Except Select.SelErr (List Nat)) : RunFn K := fun _ w =>
  match x with
  | .ok sel => algoRebalance cfg w [] (Weigh.weighEqually sel) none none
  | .error _ => .ok w

/-- the stack `SelectAll(include_no_data, include_negative)`, `WeighEqually()`, `Rebalance()` -/
def selEqRebalance (cfg : Cfg K) (nd neg : Bool) (p : Select.Table Nat K) : RunFn K := fun d w =>
  selEqInner cfg (Select.selectAll p d nd neg) d w

theorem selEqInner_causal (x : Except Select.SelErr (List Nat)) : Causal t (selEqInner cfg x) := by
  cases x with
  | error e => exact fun _ _ _ _ => rfl
  | ok sel => exact causal_algoRebalance (cfg := cfg) [] _ none none

/-- **causal in the universe and in the engine's data** -/
theorem selEqRebalance_causalWith (nd neg : Bool) : CausalWith SelAgree t (selEqRebalance cfg nd neg) :=
  causalWith_of_factor (fun (p : Select.Table Nat K) d => Select.selectAll p d nd neg) (selEqInner cfg)
    (fun _ _ _ hd hE => sel_agree (fun (p : Select.Table Nat K) d => Select.selectAll p d nd neg)
      (fun p d => C14.selectAll_no_lookahead p d nd neg) hd hE)
    selEqInner_causal

theorem selEqRebalance_public (nd neg : Bool) (p : Select.Table Nat K) :
    RunPublic cfg (selEqRebalance cfg nd neg p) := fun d w w2 hw h => by
  unfold selEqRebalance selEqInner at h
  split at h
  · exact algoRebalance_runC hw h
  · cases h; exact .nil _

/-! ### SelectThese → WeighInvVol(lookback, lag) → Rebalance (C15) -/

/-- two dated frames (C15's tables, rows carrying their date) agree on every row dated `≤ t` -/
def FrameAgree {κ α : Type} (t : Nat) (p p' : Weigh.Table κ α) : Prop :=
  p.cols = p'.cols ∧ p.rows.filter (fun r => decide (r.1 ≤ (t : Int))) =
    p'.rows.filter (fun r => decide (r.1 ≤ (t : Int)))

theorem frameAgree_le {κ α : Type} {p p' : Weigh.Table κ α} {d : Nat} (hd : d ≤ t) (h : FrameAgree t p p') :
    p.rows.filter (fun r => decide (r.1 ≤ (d : Int))) = p'.rows.filter (fun r => decide (r.1 ≤ (d : Int))) := by
  have key : ∀ l : List (Int × List (Option α)),
      l.filter (fun r => decide (r.1 ≤ (d : Int))) =
        (l.filter (fun r => decide (r.1 ≤ (t : Int)))).filter (fun r => decide (r.1 ≤ (d : Int))) := by
    intro l
    rw [List.filter_filter]
    apply List.filter_congr
    intro r _
    have : (d : Int) ≤ (t : Int) := by exact_mod_cast hd
    by_cases h1 : r.1 ≤ (d : Int)
    · have h2 : r.1 ≤ (t : Int) := le_trans h1 this
      simp [h1, h2]
    · simp [h1]
  rw [key p.rows, key p'.rows, h.2]

/-- the stack `SelectThese(sel)`, `WeighInvVol(lookback, lag)`, `Rebalance()` on the root: weights from a
    trailing window of `lookback` days ending `lag` days before the date of the call -/
def invVolRebalance [Weigh.HasSqrt K] (cfg : Cfg K) (lag lookback : Int) (sel : List Nat)
    (p : Weigh.Table Nat K) : RunFn K := fun d w =>
  algoRebalance cfg w [] (Weigh.weighInvVol p (d : Int) lag lookback sel) none none

/-- **a weigher with a lookback window and a lag is causal in its price frame and in the engine's data** -/
theorem invVolRebalance_causalWith [Weigh.HasSqrt K] (lag lookback : Int) (sel : List Nat) :
    CausalWith FrameAgree t (invVolRebalance cfg lag lookback sel) :=
  causalWith_of_factor (fun p d => Weigh.weighInvVol p (d : Int) lag lookback sel)
    (fun x _ w => algoRebalance cfg w [] x none none)
    (fun p p' d hd hE =>
      ((C15.window_prefix_determined p p' (d : Int) lag lookback sel hE.1 (frameAgree_le hd hE)).2.2).symm)
    (fun x => causal_algoRebalance _ x _ _)

theorem invVolRebalance_public [Weigh.HasSqrt K] (lag lookback : Int) (sel : List Nat) (p : Weigh.Table Nat K) :
    RunPublic cfg (invVolRebalance cfg lag lookback sel p) := fun _ _ _ hw h => algoRebalance_runC hw h

end Bt.P04
