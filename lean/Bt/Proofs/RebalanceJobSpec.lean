import Bt.Proofs.RebalanceJobs
/-! C06 with costs / at any path, part 2: what a list of child jobs does to the strategy's data and children
    (pure, no worlds), and `algoRebalance` on the strategy at a path as jobs + the closing update. -/
set_option linter.unusedSectionVars false
namespace Bt.P06
open Bt Bt.Rebal

variable {K : Type} [Field K] [LinearOrder K] [IsStrictOrderedRing K] [HasFloor K]

/-- the strategy with other cash and other fees of the date -/
def withCF (sd : StratData K) (c f : K) : StratData K := { sd with capital := c, lastFee := f }

theorem withCF_self (sd : StratData K) : withCF sd sd.capital sd.lastFee = sd := rfl

theorem withCF_congr (sd : StratData K) {c c' f f' : K} (hc : c = c') (hf : f = f') :
    withCF sd c f = withCF sd c' f' := by rw [hc, hf]

/-- one child job as a relation: nothing called (`none`), or `allocNode` succeeded -/
def StepN (cfg : Cfg K) (pn : Option Nat) (comm : K → K → K) (k : Node K) (oa : Option K) (k' : Node K)
    (adjs : List (Adj K)) : Prop :=
  match oa with
  | none => k' = k ∧ adjs = []
  | some a => allocNode cfg pn comm a k = .ok (k', adjs)

theorem runJobs_ok (cfg : Cfg K) (V : K) : ∀ (J : List (Nat × Option K)) (sd sd' : StratData K)
    (ks ks' : List (Node K)), runJobs cfg V J sd ks = .ok (sd', ks') →
    sd'.fixedIncome = sd.fixedIncome ∧ sd'.now = sd.now ∧ sd'.comm = sd.comm ∧ sd'.value = sd.value ∧
    ks'.length = ks.length ∧ ∀ j, j ∉ J.map (·.1) → ks'[j]? = ks[j]?
  | [], sd, sd', ks, ks', h => by
    rw [runJobs] at h; cases h
    exact ⟨rfl, rfl, rfl, rfl, rfl, fun _ _ => rfl⟩
  | (i, act) :: rest, sd, sd', ks, ks', h => by
    rw [runJobs] at h
    obtain ⟨⟨sd1, ks1⟩, h1, h2⟩ := Except.bind_ok h
    obtain ⟨a1, a2, a3, a4, a5, a6⟩ := runJob_ok h1
    obtain ⟨b1, b2, b3, b4, b5, b6⟩ := runJobs_ok cfg V rest sd1 sd' ks1 ks' h2
    refine ⟨b1.trans a1, b2.trans a2, b3.trans a3, b4.trans a4, b5.trans a5, ?_⟩
    intro j hj
    simp only [List.map_cons, List.mem_cons, not_or] at hj
    rw [b6 j hj.2, a6 j hj.1]

theorem sum_replicate_nil (f : List (Adj K) → K) (hf : f [] = 0) (n : Nat) :
    ((List.replicate n ([] : List (Adj K))).map f).sum = 0 := by
  induction n with
  | zero => rfl
  | succ n ih => rw [List.replicate_succ, List.map_cons, List.sum_cons, ih, hf, add_zero]

theorem sum_map_set (f : List (Adj K) → K) (hf : f [] = 0) (AL : List (List (Adj K))) (i : Nat)
    (adjs : List (Adj K)) (h : AL[i]? = some []) :
    ((AL.set i adjs).map f).sum = (AL.map f).sum + f adjs := by
  rw [List.map_set, list_sum_set (AL.map f) i (f []) (f adjs) (by rw [List.getElem?_map, h]; rfl), hf]
  ring

/-- What a list of jobs on distinct children does: every listed child went through its job (`StepN`, with the
    strategy's date and commission function), the others are untouched; the strategy's cash and fees moved by
    the adjustments the children sent (`AL`: per child), nothing else of its data moved; and
    `cash + fees + Σ children (total + fees + spread paid)` is conserved. -/
theorem runJobs_spec (cfg : Cfg K) (V : K) :
    ∀ (J : List (Nat × Option K)) (sd sd' : StratData K) (ks ks' : List (Node K)),
      (J.map (·.1)).Nodup → (∀ j ∈ J, ∃ k, ks[j.1]? = some k ∧ k.synced sd.now) →
      runJobs cfg V J sd ks = .ok (sd', ks') →
      ∃ AL : List (List (Adj K)), AL.length = ks.length ∧ ks'.length = ks.length ∧
        sd' = withCF sd (sd.capital + (AL.map adjAmounts).sum) (sd.lastFee + (AL.map adjFees).sum) ∧
        (∀ i act k, (i, act) ∈ J → ks[i]? = some k → ∃ k' adjs, ks'[i]? = some k' ∧ AL[i]? = some adjs ∧
          StepN cfg sd.now sd.comm k (planN cfg V k act) k' adjs) ∧
        (∀ i, i ∉ J.map (·.1) → ks'[i]? = ks[i]? ∧ (i < ks.length → AL[i]? = some [])) ∧
        stratW sd' + ledgerWKids ks' = stratW sd + ledgerWKids ks
  | [], sd, sd', ks, ks', _, _, h => by
    rw [runJobs] at h; cases h
    refine ⟨List.replicate ks.length [], List.length_replicate, rfl, ?_, ?_, ?_, rfl⟩
    · rw [sum_replicate_nil adjAmounts rfl, sum_replicate_nil adjFees rfl, add_zero, add_zero, withCF_self]
    · intro i act k hi; cases hi
    · intro i _
      refine ⟨rfl, fun hi => ?_⟩
      rw [List.getElem?_replicate]; simp [hi]
  | (i, act) :: rest, sd, sd', ks, ks', hnd, hsy, h => by
    simp only [List.map_cons] at hnd
    have hnd' : (rest.map (·.1)).Nodup := (List.nodup_cons.1 hnd).2
    have hi : i ∉ rest.map (·.1) := (List.nodup_cons.1 hnd).1
    obtain ⟨k, hk, hks⟩ := hsy (i, act) List.mem_cons_self
    have hlt : i < ks.length := lt_of_getElem? hk
    rw [runJobs] at h
    obtain ⟨⟨sd1, ks1⟩, h1, h2⟩ := Except.bind_ok h
    unfold runJob at h1
    rw [hk] at h1
    simp only at h1
    cases hpl : planN cfg V k act with
    | none =>
      rw [hpl] at h1
      cases h1
      obtain ⟨AL, l1, l2, e, pj, pu, cons⟩ := runJobs_spec cfg V rest sd sd' ks ks' hnd'
        (fun j hj => hsy j (List.mem_cons_of_mem _ hj)) h2
      refine ⟨AL, l1, l2, e, ?_, ?_, cons⟩
      · intro i' act' k' hm hk'
        rcases List.mem_cons.1 hm with e' | hm'
        · simp only [Prod.mk.injEq] at e'
          obtain ⟨rfl, rfl⟩ := e'
          rw [hk] at hk'; cases hk'
          refine ⟨k, [], by rw [(pu i' hi).1, hk], (pu i' hi).2 hlt, ?_⟩
          rw [hpl]; exact ⟨rfl, rfl⟩
        · exact pj i' act' k' hm' hk'
      · intro j hj
        simp only [List.map_cons, List.mem_cons, not_or] at hj
        exact pu j hj.2
    | some a =>
      rw [hpl] at h1
      obtain ⟨⟨k1, adjs⟩, ha, h3⟩ := Except.map_ok h1
      simp only [Prod.mk.injEq] at h3
      obtain ⟨rfl, rfl⟩ := h3
      have hnf := allocNode_adjs_nonflow ha
      have hsd1 : adjs.foldl StratData.adjust sd =
          withCF sd (sd.capital + adjAmounts adjs) (sd.lastFee + adjFees adjs) :=
        foldl_adjust_nonflow adjs sd hnf
      obtain ⟨hW, _⟩ := allocNode_W cfg k sd.now sd.comm a k1 adjs hks ha
      obtain ⟨AL, l1, l2, e, pj, pu, cons⟩ := runJobs_spec cfg V rest _ sd' (ks.set i k1) ks' hnd'
        (by
          intro j hj
          have hne : i ≠ j.1 := fun e => hi (e ▸ List.mem_map.2 ⟨j, hj, rfl⟩)
          rw [List.getElem?_set_ne hne, foldl_adjust_now]
          exact hsy j (List.mem_cons_of_mem _ hj)) h2
      rw [List.length_set] at l1 l2
      have hALi : AL[i]? = some [] := (pu i hi).2 (by rw [List.length_set]; exact hlt)
      refine ⟨AL.set i adjs, by rw [List.length_set]; exact l1, l2, ?_, ?_, ?_, ?_⟩
      · rw [e, hsd1, sum_map_set adjAmounts rfl AL i adjs hALi, sum_map_set adjFees rfl AL i adjs hALi]
        show withCF sd _ _ = withCF sd _ _
        exact withCF_congr sd (by simp only [withCF]; ring) (by simp only [withCF]; ring)
      · intro i' act' k' hm hk'
        rcases List.mem_cons.1 hm with e' | hm'
        · simp only [Prod.mk.injEq] at e'
          obtain ⟨rfl, rfl⟩ := e'
          rw [hk] at hk'; cases hk'
          refine ⟨k1, adjs, ?_, ?_, ?_⟩
          · rw [(pu i' hi).1]; exact List.getElem?_set_self hlt
          · exact List.getElem?_set_self (by rw [l1]; exact hlt)
          · rw [hpl]; exact ha
        · have hne : i ≠ i' := fun e => hi (e ▸ List.mem_map.2 ⟨(i', act'), hm', rfl⟩)
          obtain ⟨k'', adjs', g1, g2, g3⟩ := pj i' act' k' hm' (by rw [List.getElem?_set_ne hne]; exact hk')
          refine ⟨k'', adjs', g1, by rw [List.getElem?_set_ne hne]; exact g2, ?_⟩
          rw [foldl_adjust_now, foldl_adjust_comm] at g3
          exact g3
      · intro j hj
        simp only [List.map_cons, List.mem_cons, not_or] at hj
        have hne : i ≠ j := fun e => hj.1 e.symm
        obtain ⟨g1, g2⟩ := pu j hj.2
        refine ⟨by rw [g1, List.getElem?_set_ne hne], fun hjl => ?_⟩
        rw [List.getElem?_set_ne hne]
        exact g2 (by rw [List.length_set]; exact hjl)
      · rw [cons, stratW_foldl]
        have := kidsSum_set secW stratW ks i k k1 hk
        simp only [ledgerWKids, this]
        simp only [ledgerW] at hW
        linear_combination hW

/-! ### the algo as jobs + closing update -/

/-- the jobs of `Rebalance` on a strategy with `n` children: close the children that are not targets, then
    rebalance every target to `weight × (1 − cash)` -/
def algoJobs (n : Nat) (T : List (Nat × K)) (cash : Option K) : List (Nat × Option K) :=
  closeJobs (T.map (·.1)) (List.range n) ++ targetJobs (cashScale cash) T

theorem mem_closeJobs {tg L : List Nat} {j : Nat × Option K} (h : j ∈ closeJobs (K := K) tg L) :
    j.2 = none ∧ j.1 ∈ L ∧ j.1 ∉ tg := by
  unfold closeJobs at h
  obtain ⟨i, hi, rfl⟩ := List.mem_map.1 h
  obtain ⟨h1, h2⟩ := List.mem_filter.1 hi
  exact ⟨rfl, h1, by simpa using h2⟩

theorem closeJobs_mem {tg L : List Nat} {i : Nat} (h1 : i ∈ L) (h2 : i ∉ tg) :
    (i, none) ∈ closeJobs (K := K) tg L := by
  unfold closeJobs
  exact List.mem_map.2 ⟨i, List.mem_filter.2 ⟨h1, by simpa using h2⟩, rfl⟩

theorem closeJobs_fst (tg L : List Nat) :
    (closeJobs (K := K) tg L).map (·.1) = L.filter fun i => !tg.contains i := by
  unfold closeJobs
  rw [List.map_map]
  exact List.map_id' _

theorem targetJobs_fst (scale : K) (T : List (Nat × K)) : (targetJobs scale T).map (·.1) = T.map (·.1) := by
  unfold targetJobs
  rw [List.map_map]
  rfl

theorem algoJobs_nodup (n : Nat) (T : List (Nat × K)) (cash : Option K) (hnd : (T.map (·.1)).Nodup) :
    ((algoJobs n T cash).map (·.1)).Nodup := by
  unfold algoJobs
  rw [List.map_append, closeJobs_fst, targetJobs_fst]
  refine List.Nodup.append (List.Nodup.filter _ List.nodup_range) hnd ?_
  intro i h1 h2
  have := (List.mem_filter.1 h1).2
  simp only [Bool.not_eq_eq_eq_not, Bool.not_true, List.contains_eq_mem, decide_eq_false_iff_not] at this
  exact this h2

/-- every child index is in exactly one job -/
theorem algoJobs_cover (n : Nat) (T : List (Nat × K)) (cash : Option K) (i : Nat) (hi : i < n) :
    (i ∉ T.map (·.1) ∧ (i, none) ∈ algoJobs n T cash) ∨
    (∃ wt, (i, wt) ∈ T ∧ (i, some (wt * cashScale cash)) ∈ algoJobs n T cash) := by
  unfold algoJobs
  by_cases h : i ∈ T.map (·.1)
  · right
    obtain ⟨⟨i', wt⟩, hm, rfl⟩ := List.mem_map.1 h
    exact ⟨wt, hm, List.mem_append_right _ (List.mem_map.2 ⟨(i', wt), hm, rfl⟩)⟩
  · left
    exact ⟨h, List.mem_append_left _ (closeJobs_mem (List.mem_range.2 hi) h)⟩

/-- `Rebalance` on the market-value strategy `(sd, ks)` found at `p` of a tree that is not stale, when the
    children it closes have no children of their own: the jobs run on `(sd, ks)` with base `sd.value`, then
    `root.update(now)` of the tree with only that strategy replaced. -/
theorem algoRebalance_PW (cfg : Cfg K) (d : Nat) (root : Node K) (p : List Nat) (sd : StratData K)
    (ks : List (Node K)) (T : List (Nat × K)) (cash notional : Option K) (w' : World K)
    (hv : ∃ x, root.get? p = some x) (hfi : sd.fixedIncome = false) (hnd : (T.map (·.1)).Nodup)
    (hclose : ∀ i, i < ks.length → i ∉ T.map (·.1) → ∃ k, ks[i]? = some k ∧ Leafy k)
    (htg : ∀ t ∈ T, ∃ k, ks[t.1]? = some k ∧ JobOk cfg k (some (t.2 * cashScale cash)))
    (hrn : (PW root p sd ks).root.now = some d)
    (h : algoRebalance cfg (PW root p sd ks) p T cash notional = .ok w') :
    ∃ sd3 ks3, runJobs cfg sd.value (algoJobs ks.length T cash) sd ks = .ok (sd3, ks3) ∧
      updRoot cfg d (PW root p sd3 ks3) = .ok w' := by
  unfold algoRebalance at h
  rw [PW_get root p sd ks hv] at h
  simp only [hfi, Bool.false_and, Bool.false_eq_true, ↓reduceIte] at h
  rw [refresh_fresh cfg _ rfl, ok_bind, PW_get root p sd ks hv] at h
  simp only [hfi, Bool.false_eq_true, ↓reduceIte] at h
  rw [closeNonTargets_PW cfg sd.value root p hv (T.map (·.1)) (List.range ks.length) sd ks hfi
    List.nodup_range (fun i hi ht => hclose i (List.mem_range.1 hi) (by simpa using ht))] at h
  obtain ⟨w2, hw2, h⟩ := Except.bind_ok h
  obtain ⟨⟨sd2, ks2⟩, hj1, rfl⟩ := Except.map_ok hw2
  obtain ⟨a1, a2, _, a4, a5, a6⟩ := runJobs_ok cfg sd.value _ sd sd2 ks ks2 hj1
  obtain ⟨w3, hw3, h⟩ := Except.bind_ok h
  change rebalanceTargets cfg p sd.value (cashScale cash) T _ = _ at hw3
  rw [rebalanceTargets_PW cfg sd.value (cashScale cash) root p hv T sd2 ks2 (a1.trans hfi) hnd (by
    intro t ht
    have hm : t.1 ∈ T.map (·.1) := List.mem_map.2 ⟨t, ht, rfl⟩
    rw [a6 t.1 (by
      rw [closeJobs_fst]
      intro hh
      have := (List.mem_filter.1 hh).2
      simp only [Bool.not_eq_eq_eq_not, Bool.not_true, List.contains_eq_mem, decide_eq_false_iff_not] at this
      exact this hm)]
    exact htg t ht)] at hw3
  obtain ⟨⟨sd3, ks3⟩, hj2, rfl⟩ := Except.map_ok hw3
  obtain ⟨_, b2, _, _, _, _⟩ := runJobs_ok cfg sd.value _ sd2 sd3 ks2 ks3 hj2
  have hnow3 : (PW root p sd3 ks3).root.now = some d := by
    rw [← hrn]
    exact putAt_now p root _ _ (b2.trans a2)
  simp only [hnow3] at h
  refine ⟨sd3, ks3, ?_, h⟩
  unfold algoJobs
  rw [runJobs_append, hj1]
  exact hj2

end Bt.P06
