import Bt.Proofs.Liquidate
/-! C16 (liquidation): the hypothesis on the run (`NoDustWeights`) as something one can *check* on a
    concrete world: run the liquidation with a monitor that aborts as soon as a getter refresh produces a
    weight strictly between `0` and `TOL`.  If the monitored run returns, the real run returns the same
    world, and every security is flat. -/
set_option linter.unusedSectionVars false
namespace Bt.P16
open Bt

section
variable {α : Type} [Add α] [Sub α] [Mul α] [Div α] [Neg α] [LT α] [DecidableLT α]
  [LE α] [DecidableLE α] [OfNat α 0] [OfNat α 1] [HasFloor α]

mutual
/-- no security of the tree carries a weight that `is_zero` calls zero without being zero -/
def ndwB (cfg : Cfg α) : Node α → Bool
  | .sec s => !(isZero cfg.tol s.weight) || eqA s.weight 0
  | .strat _ ks => ndwBL cfg ks
def ndwBL (cfg : Cfg α) : List (Node α) → Bool
  | [] => true
  | k :: ks => ndwB cfg k && ndwBL cfg ks
end

/-- `rf` with the monitor: the result must be free of dust weights -/
def guardRf (cfg : Cfg α) (rf : World α → Except Err (World α)) : World α → Except Err (World α) :=
  fun w => (rf w).bind fun w' => if ndwB cfg w'.root then .ok w' else .error Err.nanData
end

variable {K : Type} [Field K] [LinearOrder K] [IsStrictOrderedRing K] [HasFloor K]

theorem ndwB_sound {cfg : Cfg K} :
    (∀ n : Node K, ndwB cfg n = true → AllSecs (NDW cfg) n) ∧
    (∀ l : List (Node K), ndwBL cfg l = true → AllSecsKids (NDW cfg) l) := by
  apply Node.induct
  · intro s h
    simp only [ndwB, Bool.or_eq_true, Bool.not_eq_true'] at h
    simp only [AllSecs_sec, NDW]
    intro hz
    rcases h with h | h
    · rw [hz] at h; cases h
    · exact (eqA_iff _ _).1 h
  · intro sd ks ih h
    simp only [ndwB] at h
    simp only [AllSecs_strat]
    exact ih h
  · intro _; simp
  · intro k ks ihk ihks h
    simp only [ndwBL, Bool.and_eq_true] at h
    simp only [AllSecsKids_cons]
    exact ⟨ihk h.1, ihks h.2⟩

theorem guardRf_ok {cfg : Cfg K} {rf : World K → Except Err (World K)} {w w' : World K}
    (h : guardRf cfg rf w = .ok w') : rf w = .ok w' ∧ ndwB cfg w'.root = true := by
  unfold guardRf at h
  obtain ⟨w1, h1, h⟩ := Except.bind_eq_ok h
  split at h
  · rename_i hc
    cases h
    exact ⟨h1, hc⟩
  · cases h

/-! ### `flatten` is monotone in its getter refresh -/

section Mono
variable {cfg : Cfg K} {rf rf' : World K → Except Err (World K)}

mutual
theorem flattenAt_mono (hle : ∀ w w', rf' w = .ok w' → rf w = .ok w') :
    (n : Node K) → ∀ p w w', flattenAt cfg rf' n p w = .ok w' → flattenAt cfg rf n p w = .ok w'
  | .sec s, p, w, w', h => by rw [flattenAt.eq_1] at h; cases h
  | .strat sd0 kids, p, w, w', h => by
    rw [P08.flattenAt_strat] at h ⊢
    obtain ⟨w1, h1, h⟩ := Except.bind_eq_ok h
    rw [flattenSubs_mono hle kids p 0 w w1 h1]
    simp only [P08.bind_ok]
    split at h
    · rename_i sd ks hg
      obtain ⟨w2, h2, h⟩ := Except.bind_eq_ok h
      have h2' : (if (!sd.fixedIncome && !ks.isEmpty && w1.stale) = true then rf w1 else pure w1) = .ok w2 := by
        split at h2
        · rename_i hc; rw [if_pos hc]; exact hle _ _ h2
        · rename_i hc; rw [if_neg hc]; exact h2
      rw [h2']
      exact h
    · cases h
theorem flattenSubs_mono (hle : ∀ w w', rf' w = .ok w' → rf w = .ok w') :
    (ks : List (Node K)) → ∀ p i w w', flattenSubs cfg rf' ks p i w = .ok w' →
      flattenSubs cfg rf ks p i w = .ok w'
  | [], p, i, w, w', h => by rw [flattenSubs.eq_1] at h ⊢; exact h
  | .strat a a1 :: ks, p, i, w, w', h => by
    rw [flattenSubs.eq_2] at h ⊢
    obtain ⟨w1, h1, h⟩ := Except.bind_eq_ok h
    rw [flattenAt_mono hle (.strat a a1) (p ++ [i]) w w1 h1]
    exact flattenSubs_mono hle ks p (i + 1) w1 w' h
  | .sec a :: ks, p, i, w, w', h => by
    rw [flattenSubs.eq_3] at h ⊢
    exact flattenSubs_mono hle ks p (i + 1) w w' h
end

end Mono

/-- **Bankruptcy ⇒ everything flat, with a checkable hypothesis on the run.**  `hM`: the world the
    bankruptcy step starts from has no dust weight, and the liquidation run with the monitor returns. -/
theorem updRoot_bankrupt_monitored {cfg : Cfg K} (htol : 0 < cfg.tol) {d : Nat} {w w' : World K}
    (hpre : Liquidable cfg d w.root)
    (hM : ∀ wB, liqStart cfg d w = .ok wB → ndwB cfg wB.root = true ∧
      ∃ wF, flattenAt cfg (guardRf cfg (refreshNB cfg)) wB.root [] wB = .ok wF)
    (h : updRoot cfg d w = .ok w') (hb : w.bankrupt = false) (hb' : w'.bankrupt = true) :
    w'.root.allFlat ∧ AllNodes (Qd d) (SecLiq cfg d) w'.root := by
  obtain ⟨_, n0, hn, hc⟩ := updRoot_inv h
  rcases hc with rfl | hc
  · exfalso
    cases hr : w.root with
    | sec s => rw [hr] at hn; obtain ⟨s', _, hs'⟩ := updNode_sec_inv hn; simp [World.bankrupt, hs'] at hb'
    | strat sd ks =>
      rw [hr] at hn
      obtain ⟨sd', ks', hs', hbk⟩ := P08.updNode_strat_bankrupt hn
      simp only [World.bankrupt, hr] at hb
      simp only [World.bankrupt, hs'] at hb'
      rw [hbk, hb] at hb'
      cases hb'
  · obtain ⟨wB, wF0, hs, hfl0, rfl⟩ := bankruptTree_liqStart hc
    obtain ⟨hndB, wF, hflG⟩ := hM wB hs
    have hfl := flattenAt_mono (rf := refreshNB cfg) (fun _ _ h => (guardRf_ok h).1) _ _ _ _ hflG
    rw [hfl0] at hfl
    cases hfl
    obtain ⟨hI, _, _⟩ := liqStart_inv hpre hs (ndwB_sound.1 _ hndB)
    obtain ⟨_, hIF, _, _, m', hg', hf'⟩ :=
      flattenAt_flat (Jw := fun _ => True) htol (fun _ _ _ _ _ => trivial)
        (fun w1 w2 _ hI1 _ h12 => ⟨trivial,
          refreshNB_step' hI1 (guardRf_ok h12).1 (ndwB_sound.1 _ (guardRf_ok h12).2)⟩)
        wB.root [] wB wF0 wB.root trivial hI (Rebal.get?_nil _) (Sh.refl.1 _) hflG
    rw [Rebal.get?_nil] at hg'
    cases hg'
    obtain ⟨sdF, ksF, hrF⟩ := hIF.root
    have hpF := hIF.pre
    rw [hrF] at hpF hn
    obtain ⟨hlF, _, hFn, _⟩ := updNode_post hpF hn
    rw [← hrF] at hFn
    exact ⟨FRel.allFlat hFn hf', hlF⟩

end Bt.P16
