import Bt.Proofs.LedgerDay
import Bt.Proofs.Program
/-! C01 / C08 at the run level: the balance-sheet identity and the recorded rows at the end of every date of
    `Backtest.run` with arbitrary public algos (helpers; the property theorems are in `Bt.Props.C01_run` and
    `Bt.Props.C08_run`). -/
set_option linter.unusedSectionVars false
namespace Bt.P01R
open Bt Bt.P02
open Bt.P08 (bind_eq_ok map_eq_ok)

variable {K : Type} [Field K] [LinearOrder K] [IsStrictOrderedRing K] [HasFloor K]

/-! ### A. the recorded rows after `update(d)`, stated on the updated tree alone -/

/-- `update` never switches `needupdate` on -/
theorem secUpdate_needupdate_mono {cfg : Cfg K} {d : Nat} {s s' : SecData K} (h : secUpdate cfg d s = .ok s')
    (hn : s'.needupdate = true) : s.needupdate = true := by
  obtain ⟨s1, h1, ht⟩ := secUpdate_base h
  cases hE : secEarly d s
  · have fr := secBaseUpdate_fresh hE h1
    rw [ht.needupdate, fr.needupdate] at hn
    split at hn
    · cases hn
    · exact hn
  · rw [secBaseUpdate_early hE] at h1
    cases h1
    rw [ht.needupdate] at hn; exact hn

/-- what `update(d)` needs of a strategy's rows: long enough, and right at `d` if the strategy is already on `d`
    (nothing is asked on a new date: the totals are then always written) -/
def StratPre (d : Nat) (sd : StratData K) : Prop := (sd.now = some d → StratRowsAt d sd) ∧ StratRowsLen d sd

/-- a strategy stands on `d` and its rows at `d` hold its value, cash and notional -/
def StratEnd (d : Nat) (sd : StratData K) : Prop :=
  sd.now = some d ∧ sd.rValue[d]? = some sd.value ∧ sd.rCash[d]? = some sd.capital ∧ sd.rNotl[d]? = some sd.notl

theorem updNode_stratEnd {cfg : Cfg K} {d : Nat} {sd sd' : StratData K} {kids kids' : List (Node K)}
    (h : updNode cfg d (.strat sd kids) = .ok (.strat sd' kids')) (hp : StratPre d sd) :
    StratEnd d sd' ∧ StratRowsLen d sd' := by
  obtain ⟨kids1, acc, sd3, hk, hw, heq⟩ := updNode_strat_inv h
  injection heq with hsd hkids
  obtain ⟨f_cap, f_fi, f_now, _, f_rc, _, _, _⟩ := stratWrite_frame hw
  obtain ⟨hi, lv, ln, lc⟩ := hp
  have hnow : sd'.now = some d := by rw [hsd]; simp [f_now]
  have hc : sd'.rCash[d]? = some sd'.capital := by
    rw [hsd]; simp [f_rc, lc]
  rcases stratWrite_inv hw with ⟨p, rfl⟩ | ⟨hf, rfl, _, _⟩
  · refine ⟨⟨hnow, ?_, hc, ?_⟩, ?_, ?_, ?_⟩
    · rw [hsd]; simp [lv]
    · rw [hsd]; simp [ln]
    · rw [hsd]; simpa using lv
    · rw [hsd]; simpa using ln
    · rw [hsd]; simpa using lc
  · have hd : sd.now = some d := by
      by_contra hne
      have := (stratDateChange_newpt d sd).mpr hne
      rw [hf] at this; cases this
    obtain ⟨iv, inl⟩ := hi hd
    refine ⟨⟨hnow, ?_, hc, ?_⟩, ?_, ?_, ?_⟩
    · rw [hsd]; simpa using iv
    · rw [hsd]; simpa using inl
    · rw [hsd]; simpa using lv
    · rw [hsd]; simpa using ln
    · rw [hsd]; simpa using lc

/-- what `update(d)` needs of a security's rows -/
def SecPre (d : Nat) (s : SecData K) : Prop := SecRowsInv s ∧ SecRowsLen d s

/-- a security's rows at its own date hold its marked state; if it is live (`needupdate`) it stands on `d`
    and its rows at `d` hold its position, value and notional -/
def SecEnd (d : Nat) (s : SecData K) : Prop :=
  SecRowsInv s ∧ (s.needupdate = true →
    s.now = some d ∧ s.rPosition[d]? = some s.position ∧ s.rValue[d]? = some s.value ∧
      s.rNotl[d]? = some s.notl)

def RowsPre (d : Nat) : Node K → Prop := TreeAll (fun sd _ => StratPre d sd) (SecPre d)
/-- **the rows of `d` equal the state**, at every node of the tree -/
def RowsEnd (d : Nat) : Node K → Prop := TreeAll (fun sd _ => StratEnd d sd) (SecEnd d)

theorem TreeAll.imp {Q Q' : StratData K → List (Node K) → Prop} {S S' : SecData K → Prop}
    (hQ : ∀ sd kids, Q sd kids → Q' sd kids) (hS : ∀ s, S s → S' s) :
    (∀ n : Node K, TreeAll Q S n → TreeAll Q' S' n) ∧
    (∀ l : List (Node K), TreeAllKids Q S l → TreeAllKids Q' S' l) := by
  apply Node.induct
  · intro s h; simp only [TreeAll] at *; exact hS s h
  · intro sd kids ih h; simp only [TreeAll] at *; exact ⟨hQ _ _ h.1, ih h.2⟩
  · intro _; simp [TreeAllKids]
  · intro k ks ihk ihks h; simp only [TreeAllKids] at *; exact ⟨ihk h.1, ihks h.2⟩

theorem RowsEnd.rowsInv {d : Nat} {n : Node K} (h : RowsEnd d n) : RowsInv n :=
  (TreeAll.imp (fun _ _ hs d' hd' => by
      have e : d' = d := by rw [hs.1] at hd'; cases hd'; rfl
      subst e; exact ⟨hs.2.1, hs.2.2.2⟩) (fun _ hs => hs.1)).1 n h

theorem rowsPre_of_inv {d : Nat} {n : Node K} (hi : RowsInv n) (hl : RowsLen d n) : RowsPre d n :=
  (TreeAll.imp (Q := fun sd _ => StratRowsInv sd ∧ StratRowsLen d sd) (S := fun s => SecRowsInv s ∧ SecRowsLen d s)
    (fun _ _ hs => ⟨fun hd => hs.1 d hd, hs.2⟩) (fun _ hs => hs)).1 n (TreeAll.and.1 n hi hl)

/-- what one `update(d)` does for the rows of a strategy / of a security -/
abbrev RP (d : Nat) : StratData K → List (Node K) → StratData K → List (Node K) → Prop :=
  fun sd _ sd' _ => StratPre d sd → StratEnd d sd' ∧ StratRowsLen d sd'
abbrev RS (d : Nat) : SecData K → SecData K → Prop :=
  fun s s' => SecRowsStep d s s' ∧ (s'.needupdate = true → s.needupdate = true)

theorem upd_rowsRel {cfg : Cfg K} {d : Nat} :
    (∀ n n', updNode cfg d n = .ok n' → TreeRel (RP d) (RS d) n n') ∧
    (∀ ks newpt bo acc out, updKids cfg d newpt bo ks acc = .ok out → TreeRelKids (RP d) (RS d) ks out.1) := by
  refine updNode_treeRel (fun _ _ _ _ h hp => updNode_stratEnd h hp) (fun _ _ _ _ w h hp => h hp)
    ?_ ?_ (fun _ _ w h => ⟨⟨h.1.inv, h.1.len, h.1.fresh⟩, h.2⟩)
  · intro newpt s acc s' hs
    have st := secUpdate_rowsStep hs
    obtain ⟨w1, w2⟩ := sweepSec_rowsStep d newpt s acc
    exact ⟨⟨fun hi hl => st.inv (w1 hi) (w2 hl), fun hl => st.len (w2 hl),
      fun hi hl hn => st.fresh (w1 hi) (w2 hl) (by simpa using hn)⟩,
      fun hn => by simpa using secUpdate_needupdate_mono hs hn⟩
  · intro newpt s acc hn
    obtain ⟨w1, w2⟩ := sweepSec_rowsStep d newpt s acc
    exact ⟨⟨fun hi _ => w1 hi, w2, fun _ _ hn' => by rw [hn] at hn'; cases hn'⟩,
      fun hn' => by rw [sweepSec_needupdate, hn] at hn'; cases hn'⟩

/-- **`update(d)` writes the rows of `d`**: at every strategy value, cash and notional; at every live security
    position, value and notional -/
theorem updNode_rowsEnd {cfg : Cfg K} {d : Nat} {n n' : Node K} (h : updNode cfg d n = .ok n')
    (hp : RowsPre d n) : RowsEnd d n' ∧ RowsLen d n' := by
  have hr := upd_rowsRel.1 n n' h
  refine ⟨?_, ?_⟩
  · exact (TreeRel.transferAll (QA := StratPre d) (A := SecPre d) (QB := StratEnd d) (B := SecEnd d)
      (fun _ _ _ _ hp ha => (hp ha).1)
      (fun _ _ hs ha => ⟨hs.1.inv ha.1 ha.2, fun hn => hs.1.fresh ha.1 ha.2 (hs.2 hn)⟩)).1 n n' hr hp
  · exact (TreeRel.transferAll (QA := StratPre d) (A := SecPre d) (QB := StratRowsLen d) (B := SecRowsLen d)
      (fun _ _ _ _ hp ha => (hp ha).2) (fun _ _ hs ha => hs.1.len ha.2)).1 n n' hr hp

/-- the same for a list of children -/
theorem treeRelKids_rowsEnd {d : Nat} {ks ks' : List (Node K)} (hr : TreeRelKids (RP d) (RS d) ks ks')
    (hp : TreeAllKids (fun sd _ => StratPre d sd) (SecPre d) ks) :
    TreeAllKids (fun sd _ => StratEnd d sd) (SecEnd d) ks' ∧
      TreeAllKids (fun sd _ => StratRowsLen d sd) (SecRowsLen d) ks' :=
  ⟨(TreeRel.transferAll (QA := StratPre d) (A := SecPre d) (QB := StratEnd d) (B := SecEnd d)
      (fun _ _ _ _ hp ha => (hp ha).1)
      (fun _ _ hs ha => ⟨hs.1.inv ha.1 ha.2, fun hn => hs.1.fresh ha.1 ha.2 (hs.2 hn)⟩)).2 ks ks' hr hp,
   (TreeRel.transferAll (QA := StratPre d) (A := SecPre d) (QB := StratRowsLen d) (B := SecRowsLen d)
      (fun _ _ _ _ hp ha => (hp ha).2) (fun _ _ hs ha => hs.1.len ha.2)).2 ks ks' hr hp⟩

/-! ### the rows along public calls on a world that stands on `d` -/

/-- the rows of a security stay right (at its own date) and long enough -/
def RsRows (d : Nat) (s s' : SecData K) : Prop := SecPre d s → SecPre d s'

def SRow (d : Nat) (sd : StratData K) : Prop := StratRowsAt d sd ∧ StratRowsLen d sd

/-- a strategy on `d` stays on `d`, and its value / notional rows stay right at `d` -/
def RdRows (d : Nat) (sd sd' : StratData K) : Prop :=
  sd.now = some d → sd'.now = some d ∧ (SRow d sd → SRow d sd')

theorem secPre_congr {d : Nat} {s s' : SecData K} (h1 : s'.now = s.now) (h2 : s'.lastPos = s.lastPos)
    (h3 : s'.value = s.value) (h4 : s'.notl = s.notl) (h5 : s'.rPosition = s.rPosition)
    (h6 : s'.rValue = s.rValue) (h7 : s'.rNotl = s.rNotl) : RsRows d s s' := by
  intro ⟨hi, hl⟩
  unfold SecPre SecRowsInv SecRowsAt SecRowsLen at *
  rw [h1, h2, h3, h4, h5, h6, h7]
  exact ⟨hi, hl⟩

theorem secTransactCore_rowFields {cfg : Cfg K} {comm : K → K → K} {s : SecData K} {q : K} {custom : Option K}
    {r : SecData K × Option (Adj K)} (h : secTransactCore cfg comm s q custom = .ok r) :
    r.1.now = s.now ∧ r.1.lastPos = s.lastPos ∧ r.1.value = s.value ∧ r.1.notl = s.notl ∧
      r.1.rPosition = s.rPosition ∧ r.1.rValue = s.rValue ∧ r.1.rNotl = s.rNotl := by
  unfold secTransactCore at h
  split at h
  · cases h; exact ⟨rfl, rfl, rfl, rfl, rfl, rfl, rfl⟩
  · split at h
    · cases h
    · obtain ⟨⟨full, outlay, fee, bo⟩, _, h⟩ := bind_eq_ok h
      cases h; exact ⟨rfl, rfl, rfl, rfl, rfl, rfl, rfl⟩

theorem stratWrite_sRow {cfg : Cfg K} {d : Nat} {np : Bool} {sd sd3 : StratData K} {v n b : K}
    (h : stratWrite cfg d np sd v n b = .ok sd3) (hr : SRow d sd) : SRow d sd3 := by
  obtain ⟨⟨iv, inl⟩, lv, ln, lc⟩ := hr
  rcases stratWrite_inv h with ⟨p, rfl⟩ | ⟨_, rfl, _, _⟩
  · refine ⟨⟨?_, ?_⟩, ?_, ?_, ?_⟩
    · simp [lv]
    · simp [ln]
    · simpa using lv
    · simpa using ln
    · simpa using lc
  · exact ⟨⟨iv, inl⟩, lv, ln, lc⟩

theorem stratRows_sRow (d d' : Nat) (sd : StratData K) (hr : SRow d sd) : SRow d (stratRows d' sd) := by
  obtain ⟨⟨iv, inl⟩, lv, ln, lc⟩ := hr
  unfold stratRows; dsimp only
  split
  · exact ⟨⟨iv, inl⟩, lv, ln, by simpa using lc⟩
  · exact ⟨⟨iv, inl⟩, lv, ln, by simpa using lc⟩

/-- the one-node laws: every primitive step of every public operation executed while the clocks stand at `d`
    keeps the rows right -/
theorem rowsPre (cfg : Cfg K) (d : Nat) : P04.PreLaws cfg (· = d) (RsRows d) (RdRows d) where
  rsRefl _ h := h
  rsTrans h1 h2 h := h2 (h1 h)
  rdRefl _ h := ⟨h, id⟩
  rdTrans h1 h2 h := ⟨(h2 (h1 h).1).1, fun r => (h2 (h1 h).1).2 ((h1 h).2 r)⟩
  secUpdate {d' s s'} hC hu hp := by
    have hC' : d' = d := hC
    subst hC'
    exact ⟨(secUpdate_rowsStep hu).inv hp.1 hp.2, (secUpdate_rowsStep hu).len hp.2⟩
  secTrade hu := by
    obtain ⟨h1, h2, h3, h4, h5, h6, h7⟩ := secTransactCore_rowFields hu
    exact secPre_congr h1 h2 h3 h4 h5 h6 h7
  sweep np s acc hp := ⟨(sweepSec_rowsStep d np s acc).1 hp.1, (sweepSec_rowsStep d np s acc).2 hp.2⟩
  secWeight _ _ := secPre_congr rfl rfl rfl rfl rfl rfl rfl
  dateChange {d'} sd hC h := by
    have hC' : d' = d := hC
    subst hC'
    rw [stratDateChange_same h]
    exact ⟨rfl, id⟩
  capital _ _ h := ⟨h, id⟩
  write {d' np sd v n b sd3} hC hw h := by
    have hC' : d' = d := hC
    subst hC'
    exact ⟨by rw [stratWrite_now hw]; exact h, stratWrite_sRow hw⟩
  rows {d'} sd _ h := ⟨by rw [stratRows_now_L]; exact h, stratRows_sRow d d' sd⟩
  adjust _ _ h := ⟨h, id⟩
  stratWeight _ _ h := ⟨h, id⟩
  bankrupt _ h := ⟨h, id⟩

/-- every strategy of the tree stands on `d` -/
def StratsOn (d : Nat) : Node K → Prop := TreeAll (fun sd _ => sd.now = some d) (fun _ => True)

theorem RowsEnd.stratsOn {d : Nat} {n : Node K} (h : RowsEnd d n) : StratsOn d n :=
  (TreeAll.imp (fun _ _ hs => hs.1) (fun _ _ => trivial)).1 n h

mutual
/-- the laws, node by node: a tree whose strategies stand on `d` with right rows keeps them -/
theorem lift_rowsInv {d : Nat} : (n n' : Node K) → P04.Lift (RsRows d) (RdRows d) n n' → StratsOn d n →
    RowsInv n → RowsLen d n → RowsInv n' ∧ RowsLen d n'
  | .sec s, .sec s', h, _, hi, hl => by
    simp only [P04.lift_sec] at h
    simp only [RowsInv, RowsLen, TreeAll] at hi hl ⊢
    exact h ⟨hi, hl⟩
  | .strat sd ks, .strat sd' ks', h, hD, hi, hl => by
    simp only [P04.lift_strat] at h
    simp only [StratsOn, TreeAll] at hD
    simp only [RowsInv, RowsLen, TreeAll] at hi hl ⊢
    obtain ⟨e1, e2⟩ := h.1 hD.1
    obtain ⟨r1, r2⟩ := e2 ⟨hi.1 d hD.1, hl.1⟩
    obtain ⟨k1, k2⟩ := liftL_rowsInv ks ks' h.2 hD.2 hi.2 hl.2
    refine ⟨⟨fun d' hd' => ?_, k1⟩, r2, k2⟩
    have e : d' = d := by rw [e1] at hd'; cases hd'; rfl
    subst e; exact r1
  | .sec _, .strat _ _, h, _, _, _ => by simp at h
  | .strat _ _, .sec _, h, _, _, _ => by simp at h
theorem liftL_rowsInv {d : Nat} : (ks ks' : List (Node K)) → P04.LiftL (RsRows d) (RdRows d) ks ks' →
    TreeAllKids (fun sd _ => sd.now = some d) (fun _ => True) ks →
    TreeAllKids (fun sd _ => StratRowsInv sd) SecRowsInv ks →
    TreeAllKids (fun sd _ => StratRowsLen d sd) (SecRowsLen d) ks →
    TreeAllKids (fun sd _ => StratRowsInv sd) SecRowsInv ks' ∧
      TreeAllKids (fun sd _ => StratRowsLen d sd) (SecRowsLen d) ks'
  | [], [], _, _, _, _ => by simp [TreeAllKids]
  | k :: ks, k' :: ks', h, hD, hi, hl => by
    simp only [P04.liftL_cons] at h
    simp only [TreeAllKids] at hD hi hl ⊢
    obtain ⟨a1, a2⟩ := lift_rowsInv k k' h.1 hD.1 hi.1 hl.1
    obtain ⟨b1, b2⟩ := liftL_rowsInv ks ks' h.2 hD.2 hi.2 hl.2
    exact ⟨⟨a1, b1⟩, a2, b2⟩
  | [], _ :: _, h, _, _, _ => by simp at h
  | _ :: _, [], h, _, _, _ => by simp at h
end

theorem stripClock {C : Nat → Prop} {Rs : SecData K → SecData K → Prop} {Rd : StratData K → StratData K → Prop}
    {n n' : Node K} (h : P04.Lift (fun a b => Rs a b ∧ P04.NowS C a b) (fun a b => Rd a b ∧ P04.NowD C a b) n n') :
    P04.Lift Rs Rd n n' :=
  P04.Lift.mono (fun _ _ h => h.1) (fun _ _ h => h.1) n n' h

/-- any sequence of public calls on a world that stands on `d` keeps `RowsInv` and the row lengths -/
theorem runC_rowsInv {cfg : Cfg K} {d : Nat} {w w' : World K} (hw : P04.WOK (· = d) w) (hS : StratsOn d w.root)
    (h : P04.RunC cfg (· = d) w w') (hi : RowsInv w.root) (hl : RowsLen d w.root) :
    RowsInv w'.root ∧ RowsLen d w'.root :=
  lift_rowsInv _ _ (stripClock (h.lift (rowsPre cfg d).withClock hw).1) hS hi hl

mutual
theorem lift_stratsOn {d : Nat} : (n n' : Node K) → P04.Lift (RsRows d) (RdRows d) n n' → StratsOn d n →
    StratsOn d n'
  | .sec s, .sec s', _, _ => by simp [StratsOn, TreeAll]
  | .strat sd ks, .strat sd' ks', h, hD => by
    simp only [P04.lift_strat] at h
    simp only [StratsOn, TreeAll] at hD ⊢
    exact ⟨(h.1 hD.1).1, liftL_stratsOn ks ks' h.2 hD.2⟩
  | .sec _, .strat _ _, h, _ => by simp at h
  | .strat _ _, .sec _, h, _ => by simp at h
theorem liftL_stratsOn {d : Nat} : (ks ks' : List (Node K)) → P04.LiftL (RsRows d) (RdRows d) ks ks' →
    TreeAllKids (fun sd _ => sd.now = some d) (fun _ => True) ks →
    TreeAllKids (fun sd _ => sd.now = some d) (fun _ => True) ks'
  | [], [], _, _ => by simp [TreeAllKids]
  | k :: ks, k' :: ks', h, hD => by
    simp only [P04.liftL_cons] at h
    simp only [TreeAllKids] at hD ⊢
    exact ⟨lift_stratsOn k k' h.1 hD.1, liftL_stratsOn ks ks' h.2 hD.2⟩
  | [], _ :: _, h, _ => by simp at h
  | _ :: _, [], h, _ => by simp at h
end

theorem runC_stratsOn {cfg : Cfg K} {d : Nat} {w w' : World K} (hw : P04.WOK (· = d) w) (hS : StratsOn d w.root)
    (h : P04.RunC cfg (· = d) w w') : StratsOn d w'.root :=
  lift_stratsOn _ _ (stripClock (h.lift (rowsPre cfg d).withClock hw).1) hS

/-- the securities' half needs no clock hypothesis on the strategies: kept by `root.update(d)` from any state
    (bankruptcy step included) … -/
theorem updRoot_secPre {cfg : Cfg K} {d : Nat} {w w' : World K} (h : updRoot cfg d w = .ok w')
    (ha : AllSecs (SecPre d) w.root) : AllSecs (SecPre d) w'.root :=
  lift_allSecs (fun _ _ hr => hr) _ _ (stripClock (P04.updRoot_lift (rowsPre cfg d).withClock rfl h).1) ha

/-- … and by public calls while the clocks stand at `d` -/
theorem runC_secPre {cfg : Cfg K} {d : Nat} {w w' : World K} (hw : P04.WOK (· = d) w)
    (h : P04.RunC cfg (· = d) w w') (ha : AllSecs (SecPre d) w.root) : AllSecs (SecPre d) w'.root :=
  lift_allSecs (fun _ _ hr => hr) _ _ (stripClock (h.lift (rowsPre cfg d).withClock hw).1) ha

/-! ### `root.update`: plain update of the root, or the bankruptcy step -/

/-- `root.update(d)` is `update(d)` of the root unless it is the bankruptcy step, which takes a root that is not
    flagged to a flagged one (through the liquidated world `wF`, flagged as well) -/
theorem updRoot_cases {cfg : Cfg K} {d : Nat} {w w' : World K} (h : updRoot cfg d w = .ok w') :
    updNode cfg d w.root = .ok w'.root ∨
    (w.bankrupt = false ∧ w'.bankrupt = true ∧ ∃ wF, P08.RootBk wF ∧ updNode cfg d wF.root = .ok w'.root) := by
  obtain ⟨_, n0, hn, h0⟩ := updRoot_inv h
  rcases h0 with rfl | ⟨sd, kids, kids1, acc, wF, hroot, hk, _, hb, _, _, hF, rfl⟩
  · exact Or.inl hn
  · right
    have hB : P08.RootBk wF :=
      P08.flattenAt_inv (I := P08.RootBk) (fun _ _ h hI => P08.refreshNB_rootBk h hI)
        (fun _ _ _ h hI => P08.modify_flatF_rootBk h hI) _ _ _ _ hF ⟨_, _, rfl, rfl⟩
    refine ⟨by unfold World.bankrupt; rw [hroot]; exact hb, ?_, wF, hB, hn⟩
    obtain ⟨sdF, ksF, hrF, hbF⟩ := hB
    rw [hrF] at hn
    obtain ⟨sd', ks', e, hb'⟩ := P08.updNode_strat_bankrupt hn
    unfold World.bankrupt
    rw [e]
    simp only
    rw [hb', hbF]

/-- on a date that is not the date of the bankruptcy (the strategy is alive afterwards, or was bankrupt before)
    `root.update` is `update` of the root node -/
theorem updRoot_alive {cfg : Cfg K} {d : Nat} {w w' : World K} (h : updRoot cfg d w = .ok w')
    (ha : w'.bankrupt = false ∨ w.bankrupt = true) : updNode cfg d w.root = .ok w'.root := by
  rcases updRoot_cases h with h1 | ⟨h1, h2, _⟩
  · exact h1
  · rcases ha with ha | ha
    · rw [ha] at h2; cases h2
    · rw [ha] at h1; cases h1

mutual
/-- no operation changes the length of a row list -/
theorem frozen_rowsLen {P : Nat → Prop} {e : Nat} : (n n' : Node K) → P08.Frozen P n n' → RowsLen e n → RowsLen e n'
  | .sec s, .sec s', h, hl => by
    simp only [P08.frozen_sec] at h
    simp only [RowsLen, TreeAll, SecRowsLen] at hl ⊢
    rw [h.rPosition.1, h.rValue.1, h.rNotl.1]; exact hl
  | .strat sd ks, .strat sd' ks', h, hl => by
    simp only [P08.frozen_strat] at h
    simp only [RowsLen, TreeAll, StratRowsLen] at hl ⊢
    rw [h.1.rValue.1, h.1.rNotl.1, h.1.rCash.1]
    exact ⟨hl.1, frozenL_rowsLen ks ks' h.2 hl.2⟩
  | .sec _, .strat _ _, h, _ => by simp at h
  | .strat _ _, .sec _, h, _ => by simp at h
theorem frozenL_rowsLen {P : Nat → Prop} {e : Nat} : (ks ks' : List (Node K)) → P08.FrozenL P ks ks' →
    TreeAllKids (fun sd _ => StratRowsLen e sd) (SecRowsLen e) ks →
    TreeAllKids (fun sd _ => StratRowsLen e sd) (SecRowsLen e) ks'
  | [], [], _, _ => by simp [TreeAllKids]
  | k :: ks, k' :: ks', h, hl => by
    simp only [P08.frozenL_cons] at h
    simp only [TreeAllKids] at hl ⊢
    exact ⟨frozen_rowsLen k k' h.1 hl.1, frozenL_rowsLen ks ks' h.2 hl.2⟩
  | [], _ :: _, h, _ => by simp at h
  | _ :: _, [], h, _ => by simp at h
end

mutual
/-- on a tree none of whose strategies is on `d` yet, `update(d)` asks nothing of the strategies' rows -/
theorem rowsPre_of_fresh {d : Nat} : (n : Node K) → n.fresh d → AllSecs SecRowsInv n → RowsLen d n → RowsPre d n
  | .sec s, _, hi, hl => by
    simp only [AllSecs_sec] at hi
    simp only [RowsPre, RowsLen, TreeAll] at hl ⊢
    exact ⟨hi, hl⟩
  | .strat sd ks, hf, hi, hl => by
    rw [Node.fresh] at hf
    simp only [AllSecs_strat] at hi
    simp only [RowsPre, RowsLen, TreeAll] at hl ⊢
    exact ⟨⟨fun h => absurd h hf.1, hl.1⟩, rowsPreL_of_fresh ks hf.2 hi hl.2⟩
theorem rowsPreL_of_fresh {d : Nat} : (ks : List (Node K)) → Node.freshKids d ks → AllSecsKids SecRowsInv ks →
    TreeAllKids (fun sd _ => StratRowsLen d sd) (SecRowsLen d) ks →
    TreeAllKids (fun sd _ => StratPre d sd) (SecPre d) ks
  | [], _, _, _ => by simp [TreeAllKids]
  | k :: ks, hf, hi, hl => by
    rw [Node.freshKids] at hf
    simp only [AllSecsKids_cons] at hi
    simp only [TreeAllKids] at hl ⊢
    exact ⟨rowsPre_of_fresh k hf.1 hi.1 hl.1, rowsPreL_of_fresh ks hf.2 hi.2 hl.2⟩
end

/-- securities' halves of `RowsInv` / `RowsLen`, as one `AllSecs` -/
theorem allSecs_secPre {d : Nat} {n : Node K} (hi : AllSecs SecRowsInv n) (hl : RowsLen d n) :
    AllSecs (SecPre d) n := by
  have hl' : AllSecs (SecRowsLen d) n := (TreeAll.imp (fun _ _ _ => trivial) (fun _ h => h)).1 n hl
  exact AllSecs.and.1 n hi hl'

theorem rowsInv_allSecs {n : Node K} (h : RowsInv n) : AllSecs SecRowsInv n :=
  (TreeAll.imp (fun _ _ _ => trivial) (fun _ h => h)).1 n h

/-! ### the bankruptcy step and the rows -/

/-- the bankruptcy step up to the liquidated tree `n0`, for any family of one-node laws: the children are updated
    (`kids1`), and `n0` is related to the root after its date change over `kids1` -/
theorem bankruptTree_lift {cfg : Cfg K} {C : Nat → Prop} {Rs : SecData K → SecData K → Prop}
    {Rd : StratData K → StratData K → Prop} (L : P04.Laws cfg C Rs Rd) {d : Nat} (hC : C d) {w : World K}
    {n0 : Node K} (hb : BankruptTree cfg d w n0) :
    ∃ sd kids kids1 acc, w.root = .strat sd kids ∧
      updKids cfg d (stratDateChange d sd).2 (stratDateChange d sd).1.bidofferSet kids
        ⟨(stratDateChange d sd).1.capital, 0, 0, 0⟩ = .ok (kids1, acc) ∧
      P04.Lift Rs Rd (.strat (stratDateChange d sd).1 kids1) n0 := by
  obtain ⟨sd, kids, kids1, acc, wF, hroot, hk, _, _, _, _, hF, rfl⟩ := hb
  refine ⟨sd, kids, kids1, acc, hroot, hk, ?_⟩
  have hkn := P04.updKids_nowsEq kids _ _ _ _ _ hk
  have hB : P04.Lift Rs Rd (.strat (stratDateChange d sd).1 kids1)
      (.strat { stratPre d sd acc.coupons with bankrupt := true } kids1) := by
    simp only [P04.lift_strat]
    exact ⟨L.rdTrans (L.capital _ ((stratDateChange d sd).1.capital + acc.coupons)) (L.bankrupt _),
      P04.liftL_refl L _⟩
  have hBok : P04.WOK C
      { root := Node.strat { stratPre d sd acc.coupons with bankrupt := true } kids1, stale := false } := by
    refine P04.wok_of_nowsIn_strat (sd := _) (ks := kids1) rfl ?_
    simp only [P08.NowsIn]
    refine ⟨fun x hx => ?_, P04.nowsInL_mono (fun x hx => hx ▸ hC) _ hkn⟩
    change (stratPre d sd acc.coupons).now = some x at hx
    rw [stratPre_now] at hx; cases hx; exact hC
  have hFl := P04.flattenAt_lift L (fun _ _ hw' h' => P04.refreshNB_lift L hw' h') hBok hF
  exact P04.lift_trans L _ _ _ hB hFl.1

/-- … and from the root itself -/
theorem bankruptTree_lift_root {cfg : Cfg K} {C : Nat → Prop} {Rs : SecData K → SecData K → Prop}
    {Rd : StratData K → StratData K → Prop} (L : P04.Laws cfg C Rs Rd) {d : Nat} (hC : C d) {w : World K}
    {n0 : Node K} (hb : BankruptTree cfg d w n0) : P04.Lift Rs Rd w.root n0 := by
  obtain ⟨sd, kids, kids1, acc, hroot, hk, hl⟩ := bankruptTree_lift L hC hb
  have h0 : P04.Lift Rs Rd (.strat sd kids) (.strat (stratDateChange d sd).1 kids1) := by
    simp only [P04.lift_strat]
    exact ⟨L.dateChange sd hC, P04.updKids_lift L hC kids _ _ _ _ _ hk⟩
  rw [hroot]
  exact P04.lift_trans L _ _ _ h0 hl

/-- **a same-date `root.update`** — every strategy stands on `d` already, with right rows (the closing update
    of a date, an explicit update by the algos) — writes the rows of `d` WHETHER OR NOT it is the bankruptcy step:
    the root's value row was right at `d` before, and the redone update writes both totals or neither -/
theorem updRoot_rowsEnd_same {cfg : Cfg K} {d : Nat} {w w' : World K} (hS : StratsOn d w.root)
    (hi : RowsInv w.root) (hl : RowsLen d w.root) (h : updRoot cfg d w = .ok w') :
    RowsEnd d w'.root ∧ RowsLen d w'.root := by
  obtain ⟨_, n0, hn, h0⟩ := updRoot_inv h
  rcases h0 with rfl | hb
  · exact updNode_rowsEnd hn (rowsPre_of_inv hi hl)
  · have hlift := bankruptTree_lift_root (rowsPre cfg d).withClock rfl hb
    obtain ⟨i0, l0⟩ := lift_rowsInv _ _ (stripClock hlift) hS hi hl
    exact updNode_rowsEnd hn (rowsPre_of_inv i0 l0)

/-- the rows of `d` equal the state at every node EXCEPT the root strategy's value and notional: the root stands on
    `d` with its cash recorded, every node below satisfies `RowsEnd` -/
def RowsEndBelow (d : Nat) : Node K → Prop
  | .sec s => SecEnd d s
  | .strat sd kids => (sd.now = some d ∧ sd.rCash[d]? = some sd.capital) ∧
      TreeAllKids (fun sd _ => StratEnd d sd) (SecEnd d) kids

theorem RowsEnd.below {d : Nat} {n : Node K} (h : RowsEnd d n) : RowsEndBelow d n := by
  cases n with
  | sec s => simpa [RowsEnd, RowsEndBelow, TreeAll] using h
  | strat sd kids =>
    simp only [RowsEnd, TreeAll] at h
    exact ⟨⟨h.1.1, h.1.2.2.1⟩, h.2⟩

theorem updNode_rowsEndBelow {cfg : Cfg K} {d : Nat} {sd : StratData K} {ks : List (Node K)} {n' : Node K}
    (h : updNode cfg d (.strat sd ks) = .ok n') (hl : StratRowsLen d sd)
    (hp : TreeAllKids (fun sd _ => StratPre d sd) (SecPre d) ks) : RowsEndBelow d n' := by
  have hr := upd_rowsRel.1 _ _ h
  obtain ⟨kids1, acc, sd3, hk, hw, rfl⟩ := updNode_strat_inv h
  simp only [TreeRel] at hr
  obtain ⟨f_cap, f_fi, f_now, _, f_rc, _, _, _⟩ := stratWrite_frame hw
  refine ⟨⟨?_, ?_⟩, (treeRelKids_rowsEnd hr.2 hp).1⟩
  · simp [f_now]
  · simp [f_rc, hl.2.2]

/-- **the bankruptcy step on a NEW date** (the opening update): everything but the root's value / notional rows -/
theorem bankruptTree_rowsEndBelow {cfg : Cfg K} {d : Nat} {w : World K} {n0 n' : Node K}
    (hb : BankruptTree cfg d w n0) (hp : RowsPre d w.root) (hn : updNode cfg d n0 = .ok n') :
    RowsEndBelow d n' := by
  have hfz : P08.Frozen (· = d) w.root n0 :=
    P04.frozen_of_lift (bankruptTree_lift_root (P04.frozenLaws cfg (· = d)) rfl hb)
  obtain ⟨sd, kids, kids1, acc, hroot, hk, hlift⟩ := bankruptTree_lift (rowsPre cfg d).withClock rfl hb
  rw [hroot] at hp hfz
  simp only [RowsPre, TreeAll] at hp
  obtain ⟨e1, l1⟩ := treeRelKids_rowsEnd (upd_rowsRel.2 _ _ _ _ _ hk) hp.2
  cases n0 with
  | sec s => simp at hlift
  | strat sdF ksF =>
    have hl2 := (stripClock hlift)
    simp only [P04.lift_strat] at hl2
    simp only [P08.frozen_strat] at hfz
    have hlF : StratRowsLen d sdF := by
      obtain ⟨a, b, c⟩ := hp.1.2
      exact ⟨by rw [hfz.1.rValue.1]; exact a, by rw [hfz.1.rNotl.1]; exact b, by rw [hfz.1.rCash.1]; exact c⟩
    have hon : TreeAllKids (fun sd _ => sd.now = some d) (fun _ => True) kids1 :=
      (TreeAll.imp (fun _ _ hs => hs.1) (fun _ _ => trivial)).2 kids1 e1
    have hinv : TreeAllKids (fun sd _ => StratRowsInv sd) SecRowsInv kids1 :=
      (TreeAll.imp (fun _ _ hs d' hd' => by
        have e : d' = d := by rw [hs.1] at hd'; cases hd'; rfl
        subst e; exact ⟨hs.2.1, hs.2.2.2⟩) (fun _ hs => hs.1)).2 kids1 e1
    obtain ⟨iF, lF⟩ := liftL_rowsInv kids1 ksF hl2.2 hon hinv l1
    have hpF : TreeAllKids (fun sd _ => StratPre d sd) (SecPre d) ksF :=
      (TreeAll.imp (Q := fun sd _ => StratRowsInv sd ∧ StratRowsLen d sd)
        (S := fun s => SecRowsInv s ∧ SecRowsLen d s)
        (fun _ _ hs => ⟨fun hd => hs.1 d hd, hs.2⟩) (fun _ hs => hs)).2 ksF (TreeAll.and.2 ksF iF lF)
    exact updNode_rowsEndBelow hn hlF hpF

/-- the opening update of `d` does not take the bankruptcy step (the strategy is alive after it, or was bankrupt
    before): the only situation in which the rows of `d` may be stale is excluded -/
def OpenAlive (cfg : Cfg K) (d : Nat) (w0 : World K) : Prop :=
  ∀ w1, updRoot cfg d w0 = .ok w1 → w1.bankrupt = false ∨ w0.bankrupt = true

theorem openAlive_of_alive {cfg : Cfg K} {run : RunFn K} {d : Nat} {w0 w2 : World K}
    (h : btDay cfg run d w0 = .ok w2) (ha : w2.bankrupt = false ∨ w0.bankrupt = true) : OpenAlive cfg d w0 := by
  intro w1 h1
  rcases ha with ha | ha
  · left
    cases hb : w1.bankrupt with
    | false => rfl
    | true =>
      unfold btDay at h
      rw [h1, P08.bind_ok, hb] at h
      simp only [↓reduceIte] at h
      cases h
      rw [ha] at hb; cases hb
  · exact Or.inr ha

/-! ### F. the rows alone: no hypothesis on `TOL`, dust, marks or balance -/

mutual
/-- on a tree none of whose strategies is on `d` yet, `update(d)` asks nothing of the strategies' rows -/
theorem rowsPre_of_new {d : Nat} : (n : Node K) → P08.NowsIn (· ≠ d) n → AllSecs SecRowsInv n → RowsLen d n →
    RowsPre d n
  | .sec s, _, hi, hl => by
    simp only [AllSecs_sec] at hi
    simp only [RowsPre, RowsLen, TreeAll] at hl ⊢
    exact ⟨hi, hl⟩
  | .strat sd ks, hn, hi, hl => by
    simp only [P08.NowsIn] at hn
    simp only [AllSecs_strat] at hi
    simp only [RowsPre, RowsLen, TreeAll] at hl ⊢
    exact ⟨⟨fun h => absurd rfl (hn.1 d h), hl.1⟩, rowsPreL_of_new ks hn.2 hi hl.2⟩
theorem rowsPreL_of_new {d : Nat} : (ks : List (Node K)) → P08.NowsInL (· ≠ d) ks → AllSecsKids SecRowsInv ks →
    TreeAllKids (fun sd _ => StratRowsLen d sd) (SecRowsLen d) ks →
    TreeAllKids (fun sd _ => StratPre d sd) (SecPre d) ks
  | [], _, _, _ => by simp [TreeAllKids]
  | k :: ks, hn, hi, hl => by
    simp only [P08.NowsInL] at hn
    simp only [AllSecsKids_cons] at hi
    simp only [TreeAllKids] at hl ⊢
    exact ⟨rowsPre_of_new k hn.1 hi.1 hl.1, rowsPreL_of_new ks hn.2 hi.2 hl.2⟩
end

/-- the opening update of a date no strategy is on yet -/
theorem open_rows {cfg : Cfg K} {d : Nat} {w w1 : World K} (hn : P08.NowsIn (· ≠ d) w.root)
    (hi : AllSecs SecRowsInv w.root) (hl : RowsLen d w.root) (h : updRoot cfg d w = .ok w1) :
    AllSecs SecRowsInv w1.root ∧ RowsLen d w1.root ∧
      ((w1.bankrupt = false ∨ w.bankrupt = true) → RowsEnd d w1.root) ∧ RowsEndBelow d w1.root := by
  have hp := rowsPre_of_new _ hn hi hl
  refine ⟨(AllSecs.mono (fun _ h => h.1)).1 _ (updRoot_secPre h (allSecs_secPre hi hl)),
    frozen_rowsLen _ _ (P04.updRoot_frozen_at h).1 hl,
    fun ha => (updNode_rowsEnd (updRoot_alive h ha) hp).1, ?_⟩
  obtain ⟨_, n0, hn0, h0⟩ := updRoot_inv h
  rcases h0 with rfl | hb
  · exact (updNode_rowsEnd hn0 hp).1.below
  · exact bankruptTree_rowsEndBelow hb hp hn0

/-- **one date, the rows**, for ANY `TOL`: if the opening update is not the bankruptcy step the rows of `d` of
    every node equal the end-of-date state (a bankruptcy step at the closing update or inside the algos does no
    harm); in any case they do at every node except the root's value and notional -/
theorem btDay_rows {cfg : Cfg K} {run : RunFn K} (hpub : P04.RunPublic cfg run) {d : Nat} {w0 w2 : World K}
    (hn : P08.NowsIn (· ≠ d) w0.root) (hi : AllSecs SecRowsInv w0.root) (hl : RowsLen d w0.root)
    (h : btDay cfg run d w0 = .ok w2) :
    P04.WOK (· = d) w2 ∧ AllSecs SecRowsInv w2.root ∧ RowsLen d w2.root ∧
      (OpenAlive cfg d w0 → RowsEnd d w2.root) ∧ RowsEndBelow d w2.root := by
  unfold btDay at h
  obtain ⟨w1, h1, h⟩ := bind_eq_ok h
  obtain ⟨si1, sl1, re1, rb1⟩ := open_rows hn hi hl h1
  have hw1 := P04.updRoot_atClock h1
  split at h
  · have e : w2 = w1 := by cases h; rfl
    subst e
    exact ⟨hw1, si1, sl1, fun ha => re1 (ha w2 h1), rb1⟩
  · rename_i hb
    have hb1 : w1.bankrupt = false := by simpa using hb
    obtain ⟨wr, hr, h2⟩ := bind_eq_ok h
    have hrc := hpub d w1 wr hw1 hr
    have sp2 := updRoot_secPre h2 (runC_secPre hw1 hrc (allSecs_secPre si1 sl1))
    have r1 := re1 (Or.inl hb1)
    obtain ⟨ir, lr⟩ := runC_rowsInv hw1 r1.stratsOn hrc r1.rowsInv sl1
    obtain ⟨e2, l2⟩ := updRoot_rowsEnd_same (runC_stratsOn hw1 r1.stratsOn hrc) ir lr h2
    exact ⟨P04.updRoot_atClock h2, (AllSecs.mono (fun _ h => h.1)).1 _ sp2, l2, fun _ => e2, e2.below⟩

/-! ### B. the balance sheet, exact under `DustFree` -/

/-- the balance sheet of one strategy, exact: value = cash + Σ children's values, notional = Σ |children's
    notionals|, and every child that is not skipped carries `childWeight` of the strategy's own totals
    (market value: `value / parent value`, 0 when the parent's value is `isZero`; fixed income: the same with
    notionals) -/
structure LocalExact (cfg : Cfg K) (sd : StratData K) (kids : List (Node K)) : Prop where
  value : sd.value = sd.capital + sumOf Node.value kids
  notl : sd.notl = sumOf (fun k => |k.notl|) kids
  weights : ∀ k ∈ kids, k.skipped = false → k.weight = childWeight cfg sd.fixedIncome sd.value sd.notl k

/-- … at every strategy of the tree, at every depth -/
def BalancedExact (cfg : Cfg K) : Node K → Prop := TreeAll (LocalExact cfg) (fun _ => True)

theorem localBalAll_exact {cfg : Cfg K} (hdf : DustFree cfg) {sd : StratData K} {kids : List (Node K)}
    (h : LocalBalAll cfg sd kids) : LocalExact cfg sd kids := by
  have hv : sd.value = allV sd kids := by
    rcases h.value with h1 | h1
    · exact h1
    · exact sub_eq_zero.1 (hdf _ ((isZero_iff cfg.tol _).2 h1))
  have hn : sd.notl = allN kids := by
    rcases h.notl with h1 | h1
    · exact h1
    · exact sub_eq_zero.1 (hdf _ ((isZero_iff cfg.tol _).2 h1))
  refine ⟨hv, hn, fun k hk hs => ?_⟩
  have := h.weights k hk hs
  rw [← hv, ← hn] at this
  exact this

theorem balancedAll_exact {cfg : Cfg K} (hdf : DustFree cfg) {n : Node K} (h : BalancedAll cfg n) :
    BalancedExact cfg n :=
  (TreeAll.imp (fun _ _ hl => localBalAll_exact hdf hl) (fun _ h => h)).1 n h

theorem TreeAllKids.getElem? {Q : StratData K → List (Node K) → Prop} {S : SecData K → Prop} :
    ∀ {l : List (Node K)} {i : Nat} {k : Node K}, TreeAllKids Q S l → l[i]? = some k → TreeAll Q S k := by
  intro l
  induction l with
  | nil => intro i k _ h; simp at h
  | cons x xs ih =>
    intro i k ha h
    simp only [TreeAllKids] at ha
    cases i with
    | zero => simp only [List.getElem?_cons_zero, Option.some.injEq] at h; subst h; exact ha.1
    | succ j => simp only [List.getElem?_cons_succ] at h; exact ih ha.2 h

/-- a property of every node holds at the node at any path -/
theorem TreeAll.get? {Q : StratData K → List (Node K) → Prop} {S : SecData K → Prop} :
    ∀ (path : List Nat) {n k : Node K}, TreeAll Q S n → n.get? path = some k → TreeAll Q S k := by
  intro path
  induction path with
  | nil => intro n k ha h; cases n <;> (simp only [Node.get?] at h; cases h; exact ha)
  | cons i rest ih =>
    intro n k ha h
    cases n with
    | sec s => simp [Node.get?] at h
    | strat sd kids =>
      simp only [Node.get?] at h
      split at h
      · cases h
      · rename_i c hc
        simp only [TreeAll] at ha
        exact ih (TreeAllKids.getElem? ha.2 hc) h

/-- the strategy at any path of a balanced tree -/
theorem BalancedExact.at {cfg : Cfg K} {n : Node K} (h : BalancedExact cfg n) (path : List Nat)
    {sd : StratData K} {kids : List (Node K)} (hp : n.get? path = some (.strat sd kids)) :
    LocalExact cfg sd kids := by
  have := TreeAll.get? path h hp
  simp only [TreeAll] at this
  exact this.1

/-- market-value strategy, value not zero: the weights of the children that are not skipped, plus the cash
    fraction, sum to one -/
theorem LocalExact.weights_sum_one {cfg : Cfg K} (hdf : DustFree cfg) {sd : StratData K} {kids : List (Node K)}
    (hb : LocalExact cfg sd kids) (hq : AllSecsKids SecQuiet kids) (hmv : sd.fixedIncome = false)
    (hV0 : sd.value ≠ 0) :
    sumOf (fun k => if k.skipped then 0 else k.weight) kids + sd.capital / sd.value = 1 := by
  have hnzV : isZero cfg.tol sd.value = false := by
    cases hz : isZero cfg.tol sd.value
    · rfl
    · exact absurd (hdf _ hz) hV0
  have h1 : sumOf (fun k => if k.skipped then 0 else k.weight) kids =
      sumOf (fun k => k.value / sd.value) kids := by
    apply sumOf_congr
    intro k hk
    cases hs : k.skipped
    · simp only [Bool.false_eq_true, ↓reduceIte]
      rw [hb.weights k hk hs, hmv]
      simp [childWeight, hnzV]
    · simp only [↓reduceIte]
      have := (Quiet.skipped_value (hq.mem k hk) hs).1
      rw [this]; simp
  rw [h1, sumOf_div, ← add_div, div_eq_one_iff_eq hV0, hb.value]
  ring

/-- … over all children when the skipped ones carry weight zero -/
theorem LocalExact.weights_sum_one_all {cfg : Cfg K} (hdf : DustFree cfg) {sd : StratData K}
    {kids : List (Node K)} (hb : LocalExact cfg sd kids) (hq : AllSecsKids SecQuiet kids)
    (hmv : sd.fixedIncome = false) (hV0 : sd.value ≠ 0) (hz : ∀ k ∈ kids, k.skipped = true → k.weight = 0) :
    sumOf Node.weight kids + sd.capital / sd.value = 1 := by
  rw [← hb.weights_sum_one hdf hq hmv hV0]
  congr 1
  apply sumOf_congr
  intro k hk
  cases hs : k.skipped
  · simp
  · simp [hz k hk hs]

/-- … and are zero otherwise -/
theorem LocalExact.weights_zero {cfg : Cfg K} {sd : StratData K} {kids : List (Node K)}
    (hb : LocalExact cfg sd kids) (hmv : sd.fixedIncome = false)
    (hz : isZero cfg.tol sd.value = true ∨ sd.value = 0) :
    ∀ k ∈ kids, k.skipped = false → k.weight = 0 := by
  intro k hk hs
  rw [hb.weights k hk hs, hmv]
  rcases hz with hz | hz
  · simp [childWeight, hz]
  · simp [childWeight, hz]

/-- **after any `root.update`** of a quiet, marked tree in a dust-free configuration (bankruptcy step included):
    the exact balance sheet at every strategy, every security marked at its current position, nothing pending -/
theorem updRoot_exact {cfg : Cfg K} (hdf : DustFree cfg) {d : Nat} {w w' : World K}
    (hq : Quiet w.root) (hm : AllSecs SecMarked w.root) (h : updRoot cfg d w = .ok w') :
    BalancedExact cfg w'.root ∧ AllSecs SecMarkedPos w'.root ∧ w'.stale = false := by
  obtain ⟨hs, n0, h0, hu, _, hall, _⟩ := C01.updRoot_balanced cfg d w w' h
  have hq0 : Quiet n0 := hdf.secInv.keep_updRoot_tree hq h0
  have hm0 : AllSecs SecMarked n0 := (secInv_marked cfg).keep_updRoot_tree hm h0
  have hn0 := hdf.noDust.1 n0
  exact ⟨balancedAll_exact hdf (hall hq0 hn0).1, updNode_markedPos hu hm0 hq0 hn0, hs⟩

/-! ### C. one date of `Backtest.run` -/

/-- what is carried from the close of one date to the next: `P02.CloseInv` (the root is a strategy, every
    strategy stands on `t`, all clocks `≤ t`, `Quiet`, `SecMarked`, `value = total`) and, for the rows, that every
    security's rows at its own date hold its marked state -/
structure C01Inv (t : Nat) (w : World K) : Prop where
  close : CloseInv t w
  secRows : AllSecs SecRowsInv w.root

/-- **the balance sheet of a world at the end of date `d`** -/
structure BalancedWorld (cfg : Cfg K) (d : Nat) (w : World K) : Prop where
  /-- the root is a strategy -/
  strat : IsStrat w.root
  /-- nothing is pending -/
  notStale : w.stale = false
  /-- every strategy stands on `d`; every security stands on `d` or is exactly flat -/
  day : DayInv d w.root
  /-- every strategy, every depth: value = cash + Σ children's values, notional = Σ |children's notionals|,
      every child that is not skipped has weight `childWeight` -/
  exact : BalancedExact cfg w.root
  /-- every security: value = position × price × multiplier (0 without a price) -/
  marks : AllSecs SecMarkedPos w.root
  /-- a skipped security is flat and carries neither value nor notional -/
  quiet : Quiet w.root

/-- **one date**: `update(d); if not bankrupt: run(); update(d)` from the close of an earlier date, algos public -/
theorem btDay_close {cfg : Cfg K} (hdf : DustFree cfg) {run : RunFn K} (hpub : P04.RunPublic cfg run)
    {t d : Nat} {w0 w2 : World K} (htd : t < d) (hc : C01Inv t w0) (hl : RowsLen d w0.root)
    (h : btDay cfg run d w0 = .ok w2) :
    BalancedWorld cfg d w2 ∧ C01Inv d w2 ∧ (OpenAlive cfg d w0 → RowsEnd d w2.root) ∧
      RowsEndBelow d w2.root := by
  have hs := hc.close.strat
  have hf := hc.close.fresh htd
  obtain ⟨ops, ht⟩ := btDay_trace hpub hs hf h
  have hc2 := ht.close hdf htd hc.close
  have hn : P08.NowsIn (· ≠ d) w0.root :=
    P04.nowsIn_mono (fun x hx => by omega) _ (clocks_nowsIn _ hc.close.clocks)
  obtain ⟨_, si2, _, re, rb⟩ := btDay_rows hpub hn hc.secRows hl h
  obtain ⟨w1, h1, hd, ⟨hb, _, rfl⟩ | ⟨hb, wr, hr, hops, h2⟩⟩ := ht
  · obtain ⟨ex, mk, st⟩ := updRoot_exact hdf hc.close.quiet hc.close.marked h1
    exact ⟨⟨hc2.strat, st, hc2.day, ex, mk, hc2.quiet⟩, ⟨hc2, si2⟩, re, rb⟩
  · have hW1 := (updRoot_open hs hf h1).2
    have q1 := hdf.secInv.keep_updRoot hc.close.quiet h1
    have m1 := (secInv_marked cfg).keep_updRoot hc.close.marked h1
    have qr := runPub_allSecs hdf.secInv hW1 hd q1 hops
    have mr := runPub_allSecs (secInv_marked cfg) hW1 hd m1 hops
    obtain ⟨ex, mk, st⟩ := updRoot_exact hdf qr mr h2
    exact ⟨⟨hc2.strat, st, hc2.day, ex, mk, hc2.quiet⟩, ⟨hc2, si2⟩, re, rb⟩

/-- no date changes the length of a row list -/
theorem btDay_rowsLen {cfg : Cfg K} {run : RunFn K} (hpub : P04.RunPublic cfg run) {t d e : Nat}
    {w0 w2 : World K} (htd : t < d) (h : btDay cfg run d w0 = .ok w2) (hl : RowsLen e w0.root) :
    RowsLen e w2.root :=
  frozen_rowsLen _ _ (P04.btDay_frozen (t := t) hpub htd h) hl

/-! ### D. the loop: every date, and the rows of every date in the final world -/

/-- a later strategy `sd'` still holds at index `d` the value, cash and notional `sd` had -/
def StratKept (d : Nat) (sd sd' : StratData K) : Prop :=
  sd'.rValue[d]? = some sd.value ∧ sd'.rCash[d]? = some sd.capital ∧ sd'.rNotl[d]? = some sd.notl

/-- a later security `s'` still holds at index `d` the position, value and notional the live security `s` had -/
def SecKept (d : Nat) (s s' : SecData K) : Prop :=
  s.needupdate = true →
    s'.rPosition[d]? = some s.position ∧ s'.rValue[d]? = some s.value ∧ s'.rNotl[d]? = some s.notl

/-- **the rows at index `d` of `n'` hold the state of `n`** (same tree shape, node by node) -/
def RowsKept (d : Nat) (n n' : Node K) : Prop := P04.Lift (SecKept d) (StratKept d) n n'

mutual
theorem frozen_rowsKept {P : Nat → Prop} {d : Nat} (hd : ¬ P d) : (n n' : Node K) → P08.Frozen P n n' →
    P08.HedgeZero n → RowsEnd d n → RowsKept d n n'
  | .sec s, .sec s', h, hz, he => by
    simp only [P08.frozen_sec] at h
    simp only [P08.HedgeZero] at hz
    simp only [RowsEnd, TreeAll] at he
    simp only [RowsKept, P04.lift_sec]
    intro hn
    obtain ⟨_, e1, e2, e3⟩ := he.2 hn
    exact ⟨by rw [h.rPosition.exact (by simp) d hd]; exact e1, by rw [h.rValue.exact (by simp) d hd]; exact e2,
      by rw [h.rNotl.exact hz d hd]; exact e3⟩
  | .strat sd ks, .strat sd' ks', h, hz, he => by
    simp only [P08.frozen_strat] at h
    simp only [P08.HedgeZero] at hz
    simp only [RowsEnd, TreeAll] at he
    simp only [RowsKept, P04.lift_strat]
    obtain ⟨_, e1, e2, e3⟩ := he.1
    exact ⟨⟨by rw [h.1.rValue.exact (by simp) d hd]; exact e1, by rw [h.1.rCash.exact (by simp) d hd]; exact e2,
      by rw [h.1.rNotl.exact (by simp) d hd]; exact e3⟩, frozenL_rowsKept hd ks ks' h.2 hz he.2⟩
  | .sec _, .strat _ _, h, _, _ => by simp at h
  | .strat _ _, .sec _, h, _, _ => by simp at h
theorem frozenL_rowsKept {P : Nat → Prop} {d : Nat} (hd : ¬ P d) : (ks ks' : List (Node K)) →
    P08.FrozenL P ks ks' → P08.HedgeZeroL ks → TreeAllKids (fun sd _ => StratEnd d sd) (SecEnd d) ks →
    P04.LiftL (SecKept d) (StratKept d) ks ks'
  | [], [], _, _, _ => by simp
  | k :: ks, k' :: ks', h, hz, he => by
    simp only [P08.frozenL_cons] at h
    simp only [P08.HedgeZeroL] at hz
    simp only [TreeAllKids] at he
    simp only [P04.liftL_cons]
    exact ⟨frozen_rowsKept hd k k' h.1 hz.1 he.1, frozenL_rowsKept hd ks ks' h.2 hz.2 he.2⟩
  | [], _ :: _, h, _, _ => by simp at h
  | _ :: _, [], h, _, _ => by simp at h
end

/-- **the loop, date by date.**  For every date `d` of the loop (`ds = ds1 ++ d :: ds2`): with `wp` the world
    before and `wm` the world after the pass for `d`, `wm` is balanced; its rows at `d` hold its state — at every
    node if the opening update of `d` was not the bankruptcy step, else at every node but the root's value and
    notional; and the rest of the loop writes rows only at later indices. -/
theorem btLoop_close {cfg : Cfg K} (hdf : DustFree cfg) {run : RunFn K} (hpub : P04.RunPublic cfg run) :
    ∀ (ds : List Nat) (t : Nat) (w0 wN : World K), Increasing t ds → C01Inv t w0 →
      (∀ d ∈ ds, RowsLen d w0.root) → btLoop cfg run ds w0 = .ok wN →
      C01Inv (lastDate t ds) wN ∧
      ∀ ds1 d ds2, ds = ds1 ++ d :: ds2 → ∃ wp wm, btLoop cfg run ds1 w0 = .ok wp ∧
        btDay cfg run d wp = .ok wm ∧ btLoop cfg run ds2 wm = .ok wN ∧ BalancedWorld cfg d wm ∧
        RowsEndBelow d wm.root ∧ (OpenAlive cfg d wp → RowsEnd d wm.root) ∧
        P08.Frozen (d < ·) wm.root wN.root
  | [], t, w0, wN, _, hc, _, h => by
    rw [btLoop] at h; cases h
    exact ⟨hc, fun ds1 d ds2 he => by cases ds1 <;> cases he⟩
  | e :: es, t, w0, wN, hinc, hc, hl, h => by
    rw [btLoop] at h
    obtain ⟨w1, h1, h2⟩ := bind_eq_ok h
    rw [Increasing] at hinc
    obtain ⟨bw, hc1, re, rb⟩ := btDay_close hdf hpub hinc.1 hc (hl e (by simp)) h1
    have hl1 : ∀ d ∈ es, RowsLen d w1.root := fun d hd => btDay_rowsLen hpub hinc.1 h1 (hl d (by simp [hd]))
    obtain ⟨hcN, hsplit⟩ := btLoop_close hdf hpub es e w1 wN hinc.2 hc1 hl1 h2
    refine ⟨hcN, fun ds1 d ds2 he => ?_⟩
    cases ds1 with
    | nil =>
      simp only [List.nil_append, List.cons.injEq] at he
      obtain ⟨rfl, rfl⟩ := he
      exact ⟨w0, w1, rfl, h1, h2, bw, rb, re, P04.btLoop_frozen hpub es (increasing_lt es e hinc.2) w1 wN h2⟩
    | cons x xs =>
      simp only [List.cons_append, List.cons.injEq] at he
      obtain ⟨rfl, rfl⟩ := he
      obtain ⟨wp, wm, a1, a2, a3, a4, a5, a6, a7⟩ := hsplit xs d ds2 rfl
      refine ⟨wp, wm, ?_, a2, a3, a4, a5, a6, a7⟩
      rw [btLoop, h1]; exact a1

/-- the all-zero notional rows of hedge securities stay all-zero along the loop, so "frozen" is "equal" -/
theorem btLoop_rowsKept {cfg : Cfg K} {run : RunFn K} (hpub : P04.RunPublic cfg run) {ds1 : List Nat}
    {d : Nat} {w0 wp wm wN : World K} (hz : P08.HedgeZero w0.root) (h1 : btLoop cfg run ds1 w0 = .ok wp)
    (h2 : btDay cfg run d wp = .ok wm) (hf : P08.Frozen (d < ·) wm.root wN.root) (he : RowsEnd d wm.root) :
    RowsKept d wm.root wN.root ∧ P08.rowsAt d wN.root = P08.rowsAt d wm.root := by
  have hzm := P04.btDay_hedgeZero hpub h2 (P04.btLoop_hedgeZero hpub ds1 w0 wp h1 hz)
  exact ⟨frozen_rowsKept (Nat.lt_irrefl d) _ _ hf hzm he, hf.rowsAt_eq hzm (Nat.lt_irrefl d)⟩

mutual
theorem secRowsInv_of_noClocks : (n : Node K) → ClocksIn (fun _ => False) n → AllSecs SecRowsInv n
  | .sec s, hc => by
    rw [ClocksIn] at hc
    simp only [AllSecs_sec]
    exact fun d hd => (hc d hd).elim
  | .strat sd ks, hc => by
    rw [ClocksIn] at hc
    simp only [AllSecs_strat]
    exact secRowsInvL_of_noClocks ks hc.2
theorem secRowsInvL_of_noClocks : (ks : List (Node K)) → ClocksInL (fun _ => False) ks →
    AllSecsKids SecRowsInv ks
  | [], _ => by simp
  | k :: ks, hc => by
    rw [ClocksInL] at hc
    simp only [AllSecsKids_cons]
    exact ⟨secRowsInv_of_noClocks k hc.1, secRowsInvL_of_noClocks ks hc.2⟩
end

/-- **`Backtest.run` before the loop**: `adjust(capital)`, then the update on the first date, on a template that
    was never run (no clock set), quiet and marked -/
theorem btRun_open {cfg : Cfg K} (hdf : DustFree cfg) {run : RunFn K} {capital : K} {d0 : Nat} {ds : List Nat}
    {w0 wN : World K} (hs : IsStrat w0.root) (hcl : ClocksIn (fun _ => False) w0.root) (hq : Quiet w0.root)
    (hm : AllSecs SecMarked w0.root) (hl : ∀ d ∈ d0 :: ds, RowsLen d w0.root)
    (h : btRun cfg run capital (d0 :: ds) w0 = .ok wN) :
    ∃ wA wB, opAdjust w0 [] capital true true = .ok wA ∧ updRoot cfg d0 wA = .ok wB ∧
      btLoop cfg run ds wB = .ok wN ∧ BalancedWorld cfg d0 wB ∧ C01Inv d0 wB ∧
      ((wB.bankrupt = false ∨ wA.bankrupt = true) → RowsEnd d0 wB.root) ∧ RowsEndBelow d0 wB.root ∧
      (∀ d ∈ ds, RowsLen d wB.root) := by
  unfold btRun at h
  simp only at h
  obtain ⟨wA, hA, h⟩ := bind_eq_ok h
  obtain ⟨wB, hB, h⟩ := bind_eq_ok h
  have hw0 : P04.WOK (fun _ => False) w0 := by
    obtain ⟨sd, ks, hr⟩ := hs
    exact P04.wok_of_nowsIn_strat hr (clocks_nowsIn _ hcl)
  have hlA := P04.opAdjust_lift (P04.clockLaws cfg (fun _ => False)) hw0 hA
  have hsA := isStrat_of_lift hlA hs
  have hclA := lift_clocksIn _ _ hlA hcl
  have hqA := hdf.secInv.keep_opAdjust hq hA
  have hmA := (secInv_marked cfg).keep_opAdjust hm hA
  have hfA := fresh_of_noClocks d0 _ hclA hqA
  have hfrA : ∀ e, P08.Frozen (· = e) w0.root wA.root := fun e =>
    P04.frozen_of_lift (P04.opAdjust_lift (P04.frozenLaws cfg (· = e)) (P04.wok_mono (fun _ hx => hx.elim) hw0) hA)
  have hlenA : ∀ d ∈ d0 :: ds, RowsLen d wA.root := fun d hd => frozen_rowsLen _ _ (hfrA d) (hl d hd)
  have hnA : P08.NowsIn (· ≠ d0) wA.root := P04.nowsIn_mono (fun _ hx => hx.elim) _ (clocks_nowsIn _ hclA)
  obtain ⟨si, _, re, rb⟩ := open_rows hnA (secRowsInv_of_noClocks _ hclA) (hlenA d0 (by simp)) hB
  obtain ⟨ex, mk, st⟩ := updRoot_exact hdf hqA hmA hB
  have hcB := closeInv_of_first_update hdf hsA hfA (clocksIn_mono (fun _ hx => hx.elim) _ hclA) hqA hmA hB
  exact ⟨wA, wB, hA, hB, h, ⟨hcB.strat, st, hcB.day, ex, mk, hcB.quiet⟩, ⟨hcB, si⟩, re, rb,
    fun d hd => frozen_rowsLen _ _ (P04.updRoot_frozen_at hB).1 (hlenA d (by simp [hd]))⟩

/-- `btLoop_close` with the rows of every date read off the FINAL world -/
theorem btLoop_full {cfg : Cfg K} (hdf : DustFree cfg) {run : RunFn K} (hpub : P04.RunPublic cfg run)
    (ds : List Nat) (t : Nat) (w0 wN : World K) (hinc : Increasing t ds) (hc : C01Inv t w0)
    (hl : ∀ d ∈ ds, RowsLen d w0.root) (hz : P08.HedgeZero w0.root) (h : btLoop cfg run ds w0 = .ok wN) :
    C01Inv (lastDate t ds) wN ∧
    ∀ ds1 d ds2, ds = ds1 ++ d :: ds2 → ∃ wp wm, btLoop cfg run ds1 w0 = .ok wp ∧
      btDay cfg run d wp = .ok wm ∧ btLoop cfg run ds2 wm = .ok wN ∧ BalancedWorld cfg d wm ∧
      RowsEndBelow d wm.root ∧ (OpenAlive cfg d wp → RowsEnd d wm.root ∧ RowsKept d wm.root wN.root) := by
  obtain ⟨hcN, hsplit⟩ := btLoop_close hdf hpub ds t w0 wN hinc hc hl h
  refine ⟨hcN, fun ds1 d ds2 he => ?_⟩
  obtain ⟨wp, wm, a1, a2, a3, a4, a5, a6, a7⟩ := hsplit ds1 d ds2 he
  exact ⟨wp, wm, a1, a2, a3, a4, a5, fun ha => ⟨a6 ha, (btLoop_rowsKept hpub hz a1 a2 a7 (a6 ha)).1⟩⟩

/-- **`Backtest.run`**: the first date and every date of the loop -/
theorem btRun_full {cfg : Cfg K} (hdf : DustFree cfg) {run : RunFn K} (hpub : P04.RunPublic cfg run)
    {capital : K} {d0 : Nat} {ds : List Nat} {w0 wN : World K} (hs : IsStrat w0.root)
    (hcl : ClocksIn (fun _ => False) w0.root) (hq : Quiet w0.root) (hm : AllSecs SecMarked w0.root)
    (hinc : Increasing d0 ds) (hl : ∀ d ∈ d0 :: ds, RowsLen d w0.root) (hz : P08.HedgeZero w0.root)
    (h : btRun cfg run capital (d0 :: ds) w0 = .ok wN) :
    (∃ wA wB, opAdjust w0 [] capital true true = .ok wA ∧ updRoot cfg d0 wA = .ok wB ∧
      btLoop cfg run ds wB = .ok wN ∧ BalancedWorld cfg d0 wB ∧ RowsEndBelow d0 wB.root ∧
      ((wB.bankrupt = false ∨ wA.bankrupt = true) → RowsEnd d0 wB.root ∧ RowsKept d0 wB.root wN.root)) ∧
    (∀ ds1 d ds2, ds = ds1 ++ d :: ds2 → ∃ wp wm, btRun cfg run capital (d0 :: ds1) w0 = .ok wp ∧
      btDay cfg run d wp = .ok wm ∧ btLoop cfg run ds2 wm = .ok wN ∧ BalancedWorld cfg d wm ∧
      RowsEndBelow d wm.root ∧ (OpenAlive cfg d wp → RowsEnd d wm.root ∧ RowsKept d wm.root wN.root)) ∧
    C01Inv (lastDate d0 ds) wN := by
  obtain ⟨wA, wB, hA, hB, hL, bw, hcB, re, rb, hlB⟩ := btRun_open hdf hs hcl hq hm hl h
  have hw0 : P04.WOK (fun _ => True) w0 := PProg.wok_true w0
  have hzA : P08.HedgeZero wA.root :=
    P04.hedgeZero_of_lift (P04.opAdjust_lift (P04.hedgeLaws cfg (fun _ => True)) hw0 hA) hz
  have hzB : P08.HedgeZero wB.root := P04.updRoot_hedgeZero hB hzA
  obtain ⟨hcN, hsplit⟩ := btLoop_full hdf hpub ds d0 wB wN hinc hcB hlB hzB hL
  refine ⟨⟨wA, wB, hA, hB, hL, bw, rb, fun ha => ⟨re ha, ?_⟩⟩, fun ds1 d ds2 he => ?_, hcN⟩
  · exact frozen_rowsKept (Nat.lt_irrefl d0) _ _
      (P04.btLoop_frozen hpub ds (increasing_lt ds d0 hinc) wB wN hL) hzB (re ha)
  · obtain ⟨wp, wm, a1, a2, a3, a4, a5, a6⟩ := hsplit ds1 d ds2 he
    refine ⟨wp, wm, ?_, a2, a3, a4, a5, a6⟩
    unfold btRun
    simp only
    rw [hA, P08.bind_ok, hB, P08.bind_ok]
    exact a1

/-! ### the date of the bankruptcy -/

theorem updNode_bankrupt_eq {cfg : Cfg K} {d : Nat} {w w' : World K} (h : updNode cfg d w.root = .ok w'.root) :
    w'.bankrupt = w.bankrupt := by
  unfold World.bankrupt
  cases hr : w.root with
  | sec s =>
    rw [hr] at h
    obtain ⟨s', _, e⟩ := updNode_sec_inv h
    rw [e]
  | strat sd ks =>
    rw [hr] at h
    obtain ⟨sd', ks', e, hb⟩ := P08.updNode_strat_bankrupt h
    rw [e]; exact hb

theorem rootBk_of_bankrupt {w : World K} (h : w.bankrupt = true) : P08.RootBk w := by
  unfold World.bankrupt at h
  cases hr : w.root with
  | sec s => rw [hr] at h; cases h
  | strat sd ks => rw [hr] at h; exact ⟨sd, ks, hr, h⟩

/-- on the date on which the flag appears, the last update of the pass was `update(d)` of a flagged tree: the
    liquidated tree of the bankruptcy step, or the tree an explicit `root.update` of the algos had liquidated -/
theorem btDay_bankrupt_step {cfg : Cfg K} {run : RunFn K} {d : Nat} {w0 w2 : World K}
    (h : btDay cfg run d w0 = .ok w2) (hb0 : w0.bankrupt = false) (hb2 : w2.bankrupt = true) :
    ∃ wF, P08.RootBk wF ∧ updNode cfg d wF.root = .ok w2.root := by
  unfold btDay at h
  obtain ⟨w1, h1, h⟩ := bind_eq_ok h
  split at h
  · cases h
    rcases updRoot_cases h1 with hn | ⟨_, _, wF, hF, hn⟩
    · rw [updNode_bankrupt_eq hn, hb0] at hb2; cases hb2
    · exact ⟨wF, hF, hn⟩
  · obtain ⟨wr, _, h2⟩ := bind_eq_ok h
    rcases updRoot_cases h2 with hn | ⟨_, _, wF, hF, hn⟩
    · exact ⟨wr, rootBk_of_bankrupt (by rw [← updNode_bankrupt_eq hn]; exact hb2), hn⟩
    · exact ⟨wF, hF, hn⟩

/-! ### E. C08 at the run level: re-running the closing update, reading after the run -/

/-- `root.update(d)` a second time changes nothing — `P08.updRoot_idem_aux` with the dust hypothesis on the
    RESULT only (that of the input follows: `update` moves no position, and in the bankruptcy step the second
    call sees the liquidated tree) -/
theorem updRoot_idem_out {cfg : Cfg K} (htol : 0 < cfg.tol) {d : Nat} {w w' : World K}
    (hnd' : P08.NoDust cfg w'.root) (h : updRoot cfg d w = .ok w') : updRoot cfg d w' = .ok w' := by
  rcases updRoot_cases h with hn | ⟨_, _, wF, ⟨sdF, ksF, hrF, hbF⟩, hn⟩
  · exact P08.updRoot_idem_aux htol ((P08.updNode_noDust cfg d _ _ hn).1 hnd') hnd' h
  · have hst := P08.updRoot_stale h
    have hF : updRoot cfg d ⟨.strat sdF ksF, false⟩ = .ok w' := by
      rw [P08.updRoot_eq_updNode_of_bankrupt cfg d ksF false hbF, ← hrF, hn]
      obtain ⟨r, st⟩ := w'
      simp only at hst
      subst hst
      rfl
    refine P08.updRoot_idem_aux htol ?_ hnd' hF
    show P08.NoDust cfg (.strat sdF ksF)
    rw [← hrF]
    exact (P08.updNode_noDust cfg d _ _ hn).1 hnd'

/-- the pass for a date ends with a `root.update(d)` -/
theorem btDay_last_update {cfg : Cfg K} {run : RunFn K} {d : Nat} {w0 w2 : World K}
    (h : btDay cfg run d w0 = .ok w2) : ∃ wl, updRoot cfg d wl = .ok w2 := by
  unfold btDay at h
  obtain ⟨w1, h1, h⟩ := bind_eq_ok h
  split at h
  · cases h; exact ⟨w0, h1⟩
  · obtain ⟨wr, _, h2⟩ := bind_eq_ok h
    exact ⟨wr, h2⟩

/-- same tree shape, every strategy's data unchanged (securities arbitrary) -/
def SameStrats (n n' : Node K) : Prop := P04.Lift (fun _ _ => True) (fun sd sd' => sd' = sd) n n'

mutual
theorem sameStrats_refl : (n : Node K) → SameStrats n n
  | .sec s => by simp [SameStrats]
  | .strat sd ks => by
    simp only [SameStrats, P04.lift_strat]
    exact ⟨trivial, sameStratsL_refl ks⟩
theorem sameStratsL_refl : (ks : List (Node K)) → P04.LiftL (fun _ _ => True) (fun sd sd' => sd' = sd) ks ks
  | [] => by simp
  | k :: ks => by
    simp only [P04.liftL_cons]
    exact ⟨sameStrats_refl k, sameStratsL_refl ks⟩
end

theorem sameStratsL_set {k k' : Node K} (hk : SameStrats k k') : ∀ (ks : List (Node K)) (i : Nat),
    ks[i]? = some k → P04.LiftL (fun _ _ => True) (fun sd sd' => sd' = sd) ks (ks.set i k') := by
  intro ks
  induction ks with
  | nil => intro i h; simp at h
  | cons x xs ih =>
    intro i h
    cases i with
    | zero =>
      simp only [List.getElem?_cons_zero, Option.some.injEq] at h
      subst h
      simp only [List.set_cons_zero, P04.liftL_cons]
      exact ⟨hk, sameStratsL_refl xs⟩
    | succ j =>
      simp only [List.getElem?_cons_succ] at h
      simp only [List.set_cons_succ, P04.liftL_cons]
      exact ⟨sameStrats_refl x, ih j h⟩

/-- an operation at a path that touches no strategy, sends nothing to its parent and does not mark the root
    stale leaves every strategy of the tree as it is -/
theorem modAt_sameStrats {f : Option (StratData K) → Node K → Except Err (OpRes K)}
    (hf : ∀ par n r, f par n = .ok r → SameStrats n r.1 ∧ r.2.1 = [] ∧ r.2.2 = false) :
    ∀ (path : List Nat) (par : Option (StratData K)) (n : Node K) (r : OpRes K),
      modAt f path par n = .ok r → SameStrats n r.1 ∧ r.2.1 = [] ∧ r.2.2 = false
  | [], par, n, r, h => by rw [modAt.eq_1] at h; exact hf _ _ _ h
  | i :: rest, par, .sec s, r, h => by rw [modAt.eq_2] at h; cases h
  | i :: rest, par, .strat sd kids, r, h => by
    rw [modAt.eq_3] at h
    split at h
    · cases h
    · rename_i k hk
      obtain ⟨⟨k', adjs, st⟩, hm, rfl⟩ := map_eq_ok h
      obtain ⟨e1, e2, e3⟩ := modAt_sameStrats hf rest (some sd) k _ hm
      simp only at e2 e3
      subst e2
      subst e3
      simp only [SameStrats, P04.lift_strat]
      exact ⟨⟨rfl, sameStratsL_set e1 kids i hk⟩, trivial, trivial⟩

theorem modify_sameStrats {f : Option (StratData K) → Node K → Except Err (OpRes K)}
    (hf : ∀ par n r, f par n = .ok r → SameStrats n r.1 ∧ r.2.1 = [] ∧ r.2.2 = false)
    {w w' : World K} {path : List Nat} (h : w.modify path f = .ok w') :
    SameStrats w.root w'.root ∧ w'.stale = w.stale := by
  unfold World.modify at h
  obtain ⟨⟨r, adjs, st⟩, hm, rfl⟩ := map_eq_ok h
  obtain ⟨e1, _, e3⟩ := modAt_sameStrats hf _ _ _ _ hm
  simp only at e3
  subst e3
  exact ⟨e1, by simp⟩

theorem localF_sameStrats {cfg : Cfg K} {rootNow : Option Nat} {par : Option (StratData K)} {n : Node K}
    {r : OpRes K} (h : P04.localF cfg rootNow par n = .ok r) : SameStrats n r.1 ∧ r.2.1 = [] ∧ r.2.2 = false := by
  unfold P04.localF at h
  split at h
  · split at h
    · split at h
      · obtain ⟨s', _, rfl⟩ := map_eq_ok h
        exact ⟨by simp [SameStrats], rfl, rfl⟩
      · cases h
    · cases h; exact ⟨sameStrats_refl _, rfl, rfl⟩
  · cases h

mutual
theorem localRefreshAll_sameStrats {cfg : Cfg K} {rn : Nat} : (n : Node K) → ∀ (pn : Option Nat) (n' : Node K),
    localRefreshAll cfg rn pn n = .ok n' → SameStrats n n'
  | .sec s, pn, n', h => by
    rw [localRefreshAll.eq_1] at h
    split at h
    · obtain ⟨s', _, rfl⟩ := map_eq_ok h
      simp [SameStrats]
    · cases h; exact sameStrats_refl _
  | .strat sd ks, pn, n', h => by
    rw [localRefreshAll.eq_2] at h
    obtain ⟨ks', hk, rfl⟩ := map_eq_ok h
    simp only [SameStrats, P04.lift_strat]
    exact ⟨trivial, localRefreshKids_sameStrats ks _ _ hk⟩
theorem localRefreshKids_sameStrats {cfg : Cfg K} {rn : Nat} : (ks : List (Node K)) → ∀ (pn : Option Nat)
    (ks' : List (Node K)), localRefreshKids cfg rn pn ks = .ok ks' →
    P04.LiftL (fun _ _ => True) (fun sd sd' => sd' = sd) ks ks'
  | [], pn, ks', h => by
    rw [localRefreshKids.eq_1] at h; cases h; simp
  | k :: ks, pn, ks', h => by
    rw [localRefreshKids.eq_2] at h
    obtain ⟨k', hk, h⟩ := bind_eq_ok h
    obtain ⟨ks2, hks, rfl⟩ := map_eq_ok h
    simp only [P04.liftL_cons]
    exact ⟨localRefreshAll_sameStrats k _ _ hk, localRefreshKids_sameStrats ks _ _ hks⟩
end

/-- **reading any property of any node of a world with nothing pending** changes no strategy (a security
    getter may run the security's own local refresh) and leaves nothing pending -/
theorem opRead_sameStrats {cfg : Cfg K} {w w' : World K} {path : List Nat} {g : Getter} (hs : w.stale = false)
    (h : opRead cfg w path g = .ok w') : SameStrats w.root w'.root ∧ w'.stale = false := by
  rw [P04.opRead_eq] at h
  cases g with
  | plain => cases h; exact ⟨sameStrats_refl _, hs⟩
  | stratRefreshing =>
    rw [P08.refresh_of_fresh hs] at h
    cases h; exact ⟨sameStrats_refl _, hs⟩
  | secLocal =>
    obtain ⟨e1, e2⟩ := modify_sameStrats (fun _ _ _ hr => localF_sameStrats hr) h
    exact ⟨e1, e2.trans hs⟩
  | secSeries =>
    obtain ⟨w1, h1, h2⟩ := bind_eq_ok h
    obtain ⟨e1, e2⟩ := modify_sameStrats (fun _ _ _ hr => localF_sameStrats hr) h1
    rw [P08.refresh_of_fresh (e2.trans hs)] at h2
    cases h2
    exact ⟨e1, e2.trans hs⟩
  | stratMembers =>
    obtain ⟨w1, h1, h⟩ := bind_eq_ok h
    rw [P08.refresh_of_fresh hs] at h1
    cases h1
    split at h
    · cases h
    · obtain ⟨e1, e2⟩ := modify_sameStrats (fun par n r hr => by
        obtain ⟨n', hn, rfl⟩ := map_eq_ok hr
        exact ⟨localRefreshAll_sameStrats _ _ _ hn, rfl, rfl⟩) h
      exact ⟨e1, e2.trans hs⟩

/-- the loop keeps the shape of the tree and the length of every recorded row list, whatever the dates -/
theorem btLoop_sameRows {cfg : Cfg K} {run : RunFn K} (hpub : P04.RunPublic cfg run) :
    ∀ (ds : List Nat) (w w' : World K), btLoop cfg run ds w = .ok w' → P08.SameRows w.root w'.root
  | [], w, w', h => by cases h; exact P08.Frozen.refl _ _
  | d :: ds, w, w', h => by
    rw [btLoop] at h
    obtain ⟨w1, h1, h2⟩ := bind_eq_ok h
    refine P08.SameRows.trans ?_ (btLoop_sameRows hpub ds w1 w' h2)
    unfold btDay at h1
    obtain ⟨wa, ha, h1⟩ := bind_eq_ok h1
    split at h1
    · cases h1; exact P08.updRoot_frozen ha
    · obtain ⟨wr, hr, hb⟩ := bind_eq_ok h1
      exact (P08.updRoot_frozen ha).trans
        ((hpub.run (P04.updRoot_atClock ha) hr).sameRows.trans (P08.updRoot_frozen hb))

theorem btRun_sameRows {cfg : Cfg K} {run : RunFn K} (hpub : P04.RunPublic cfg run) {capital : K}
    {dates : List Nat} {w0 wN : World K} (h : btRun cfg run capital dates w0 = .ok wN) :
    P08.SameRows w0.root wN.root := by
  unfold btRun at h
  split at h
  · cases h
  · obtain ⟨wA, hA, h⟩ := bind_eq_ok h
    obtain ⟨wB, hB, h⟩ := bind_eq_ok h
    exact (P08.opAdjust_frozen hA).trans ((P08.updRoot_frozen hB).trans (btLoop_sameRows hpub _ _ _ h))

theorem btRun_hedgeZero {cfg : Cfg K} {run : RunFn K} (hpub : P04.RunPublic cfg run) {capital : K}
    {dates : List Nat} {w0 wN : World K} (h : btRun cfg run capital dates w0 = .ok wN)
    (hz : P08.HedgeZero w0.root) : P08.HedgeZero wN.root := by
  unfold btRun at h
  split at h
  · cases h
  · obtain ⟨wA, hA, h⟩ := bind_eq_ok h
    obtain ⟨wB, hB, h⟩ := bind_eq_ok h
    have hzA : P08.HedgeZero wA.root :=
      P04.hedgeZero_of_lift (P04.opAdjust_lift (P04.hedgeLaws cfg (fun _ => True)) (PProg.wok_true w0) hA) hz
    exact P04.btLoop_hedgeZero hpub _ _ _ h (P04.updRoot_hedgeZero hB hzA)

theorem btLoop_notStale {cfg : Cfg K} {run : RunFn K} : ∀ (ds : List Nat) (w w' : World K),
    btLoop cfg run ds w = .ok w' → w.stale = false → w'.stale = false
  | [], w, w', h, hs => by cases h; exact hs
  | d :: ds, w, w', h, _ => by
    rw [btLoop] at h
    obtain ⟨w1, h1, h2⟩ := bind_eq_ok h
    obtain ⟨wl, hl⟩ := btDay_last_update h1
    exact btLoop_notStale ds w1 w' h2 (P08.updRoot_stale hl)

/-- the loop ends with a `root.update` on its last date -/
theorem btLoop_last_update {cfg : Cfg K} {run : RunFn K} : ∀ (ds : List Nat) (t : Nat) (w w' : World K),
    btLoop cfg run ds w = .ok w' → (∃ wl, updRoot cfg t wl = .ok w) →
    ∃ wl, updRoot cfg (lastDate t ds) wl = .ok w'
  | [], t, w, w', h, hl => by cases h; exact hl
  | d :: ds, t, w, w', h, _ => by
    rw [btLoop] at h
    obtain ⟨w1, h1, h2⟩ := bind_eq_ok h
    exact btLoop_last_update ds d w1 w' h2 (btDay_last_update h1)

/-- `Backtest.run` ends with a `root.update` on the last date -/
theorem btRun_last_update {cfg : Cfg K} {run : RunFn K} {capital : K} {d0 : Nat} {ds : List Nat}
    {w0 wN : World K} (h : btRun cfg run capital (d0 :: ds) w0 = .ok wN) :
    ∃ wl, updRoot cfg (lastDate d0 ds) wl = .ok wN := by
  unfold btRun at h
  simp only at h
  obtain ⟨wA, _, h⟩ := bind_eq_ok h
  obtain ⟨wB, hB, h⟩ := bind_eq_ok h
  exact btLoop_last_update ds d0 wB wN h ⟨wA, hB⟩


/-! ### F (continued). the loop and the run, the rows alone -/

/-- **the loop, the rows of every date**, read off the world after that date and off the final world -/
theorem btLoop_rows {cfg : Cfg K} {run : RunFn K} (hpub : P04.RunPublic cfg run) :
    ∀ (ds : List Nat) (t : Nat) (w0 wN : World K), Increasing t ds → P08.NowsIn (· ≤ t) w0.root →
      AllSecs SecRowsInv w0.root → (∀ d ∈ ds, RowsLen d w0.root) → P08.HedgeZero w0.root →
      btLoop cfg run ds w0 = .ok wN →
      ∀ ds1 d ds2, ds = ds1 ++ d :: ds2 → ∃ wp wm, btLoop cfg run ds1 w0 = .ok wp ∧
        btDay cfg run d wp = .ok wm ∧ btLoop cfg run ds2 wm = .ok wN ∧ RowsEndBelow d wm.root ∧
        (OpenAlive cfg d wp → RowsEnd d wm.root ∧ RowsKept d wm.root wN.root)
  | [], t, w0, wN, _, _, _, _, _, h => fun ds1 d ds2 he => by cases ds1 <;> cases he
  | e :: es, t, w0, wN, hinc, hn, hi, hl, hz, h => by
    rw [btLoop] at h
    obtain ⟨w1, h1, h2⟩ := bind_eq_ok h
    rw [Increasing] at hinc
    have hne : P08.NowsIn (· ≠ e) w0.root := P04.nowsIn_mono (fun x hx => by omega) _ hn
    obtain ⟨hw1, si1, _, re, rb⟩ := btDay_rows hpub hne hi (hl e (by simp)) h1
    have hl1 : ∀ d ∈ es, RowsLen d w1.root := fun d hd => btDay_rowsLen hpub hinc.1 h1 (hl d (by simp [hd]))
    have hz1 := P04.btDay_hedgeZero hpub h1 hz
    have hsplit := btLoop_rows hpub es e w1 wN hinc.2 (P04.nowsIn_mono (fun x hx => le_of_eq hx) _ hw1.1) si1
      hl1 hz1 h2
    intro ds1 d ds2 he
    cases ds1 with
    | nil =>
      simp only [List.nil_append, List.cons.injEq] at he
      obtain ⟨rfl, rfl⟩ := he
      exact ⟨w0, w1, rfl, h1, h2, rb, fun ha => ⟨re ha, frozen_rowsKept (Nat.lt_irrefl e) _ _
        (P04.btLoop_frozen hpub es (increasing_lt es e hinc.2) w1 wN h2) hz1 (re ha)⟩⟩
    | cons x xs =>
      simp only [List.cons_append, List.cons.injEq] at he
      obtain ⟨rfl, rfl⟩ := he
      obtain ⟨wp, wm, a1, a2, a3, a4, a5⟩ := hsplit xs d ds2 rfl
      refine ⟨wp, wm, ?_, a2, a3, a4, a5⟩
      rw [btLoop, h1]; exact a1

/-- `adjust` at the root touches the root's own data only -/
theorem opAdjust_root {w w' : World K} {sd : StratData K} {kids : List (Node K)} {amount : K} {u fl : Bool}
    (hr : w.root = .strat sd kids) (h : opAdjust w [] amount u fl = .ok w') :
    w'.root = .strat (sd.adjust { amount := amount, fee := 0, flow := fl }) kids := by
  obtain ⟨root, st⟩ := w
  simp only at hr
  subst hr
  unfold opAdjust World.modify at h
  rw [modAt.eq_1] at h
  cases h
  rfl

/-- **`Backtest.run`, the rows of every date** — the first date and every date of the loop, for ANY `TOL` -/
theorem btRun_rows {cfg : Cfg K} {run : RunFn K} (hpub : P04.RunPublic cfg run) {capital : K} {d0 : Nat}
    {ds : List Nat} {w0 wN : World K} (hs : IsStrat w0.root) (hn : P08.NowsIn (· < d0) w0.root)
    (hi : AllSecs SecRowsInv w0.root) (hinc : Increasing d0 ds) (hl : ∀ d ∈ d0 :: ds, RowsLen d w0.root)
    (hz : P08.HedgeZero w0.root) (h : btRun cfg run capital (d0 :: ds) w0 = .ok wN) :
    (∃ wA wB, opAdjust w0 [] capital true true = .ok wA ∧ updRoot cfg d0 wA = .ok wB ∧
      btLoop cfg run ds wB = .ok wN ∧ RowsEndBelow d0 wB.root ∧
      ((wB.bankrupt = false ∨ wA.bankrupt = true) → RowsEnd d0 wB.root ∧ RowsKept d0 wB.root wN.root)) ∧
    (∀ ds1 d ds2, ds = ds1 ++ d :: ds2 → ∃ wp wm, btRun cfg run capital (d0 :: ds1) w0 = .ok wp ∧
      btDay cfg run d wp = .ok wm ∧ btLoop cfg run ds2 wm = .ok wN ∧ RowsEndBelow d wm.root ∧
      (OpenAlive cfg d wp → RowsEnd d wm.root ∧ RowsKept d wm.root wN.root)) := by
  unfold btRun at h
  simp only at h
  obtain ⟨wA, hA, h⟩ := bind_eq_ok h
  obtain ⟨wB, hB, hL⟩ := bind_eq_ok h
  obtain ⟨sd, kids, hr⟩ := hs
  have hrA := opAdjust_root hr hA
  have hnA : P08.NowsIn (· ≠ d0) wA.root := by
    rw [hr] at hn
    rw [hrA]
    simp only [P08.NowsIn] at hn ⊢
    exact ⟨fun x hx => by have := hn.1 x hx; omega, P04.nowsInL_mono (fun x hx => by omega) _ hn.2⟩
  have hiA : AllSecs SecRowsInv wA.root := by
    rw [hr] at hi; rw [hrA]; simpa using hi
  have hlA : ∀ d ∈ d0 :: ds, RowsLen d wA.root := by
    intro d hd
    have := hl d hd
    rw [hr] at this; rw [hrA]
    simpa [RowsLen, TreeAll, StratRowsLen, StratData.adjust] using this
  have hzA : P08.HedgeZero wA.root := by
    rw [hr] at hz; rw [hrA]; simpa [P08.HedgeZero] using hz
  obtain ⟨siB, _, reB, rbB⟩ := open_rows hnA hiA (hlA d0 (by simp)) hB
  have hwB := P04.updRoot_atClock hB
  have hlB : ∀ d ∈ ds, RowsLen d wB.root := fun d hd =>
    frozen_rowsLen _ _ (P04.updRoot_frozen_at hB).1 (hlA d (by simp [hd]))
  have hzB := P04.updRoot_hedgeZero hB hzA
  have hsplit := btLoop_rows hpub ds d0 wB wN hinc (P04.nowsIn_mono (fun x hx => le_of_eq hx) _ hwB.1) siB hlB
    hzB hL
  refine ⟨⟨wA, wB, hA, hB, hL, rbB, fun ha => ⟨reB ha, frozen_rowsKept (Nat.lt_irrefl d0) _ _
    (P04.btLoop_frozen hpub ds (increasing_lt ds d0 hinc) wB wN hL) hzB (reB ha)⟩⟩, fun ds1 d ds2 he => ?_⟩
  obtain ⟨wp, wm, a1, a2, a3, a4, a5⟩ := hsplit ds1 d ds2 he
  refine ⟨wp, wm, ?_, a2, a3, a4, a5⟩
  unfold btRun
  simp only
  rw [hA, P08.bind_ok, hB, P08.bind_ok]
  exact a1

end Bt.P01R
