import Bt.Proofs.ProgramR
import Bt.Proofs.ProgramXEx
/-! Concrete blotter-driven programs over `Rat` for the `example`s of `Bt.Props.C04_progr` and `Bt.Props.C18_progr`
    (fresh trees with bid/offer tracking on, four rows of data, row 0 the synthetic one). -/
namespace Bt.PProgR
open Bt Bt.Prog Bt.PProg Bt.PProgX

/-- a security with bid/offer tracking (custom-price transacts need it), zero spreads -/
def secB (nm : String) (ps : List (Option Rat)) : SecData Rat :=
  { secE nm ps with bidofferSet := true, bidoffers := [some 0, some 0, some 0, some 0] }

def stratB (nm : String) (paper : Bool) : StratData Rat := { stratE nm paper with bidofferSet := true }

/-- data set A: `x`, `y` under a blotter-driven root -/
def wRA : World Rat := ⟨.strat (stratB "root" false) [.sec (secB "x" [none, some 10, some 11, some 12]),
  .sec (secB "y" [none, some 20, some 19, some 21])], false⟩
/-- data set B: as A on rows 0-2, different on row 3 -/
def wRB : World Rat := ⟨.strat (stratB "root" false) [.sec (secB "x" [none, some 10, some 11, some 6, some 1]),
  .sec (secB "y" [none, some 20, some 19, some 42])], false⟩

/-- the data index: stamps 0 (synthetic row), 10, 20, 30 -/
def tlE : List Int := [0, 10, 20, 30]

/-- blotter A, in no particular order: 5 `x` at 11 stamped 15 (between rows 1 and 2: executed on row 2), 2 `y` at 20 stamped 10
    (row 1), sell 1 `x` at 12 stamped 30 (row 3), 1 `y` at 19 stamped 5 (before the first date, after the synthetic row: row 1),
    3 `x` stamped −5 (before the synthetic row: never executed by the backtest's own tree) -/
def progRA : ProgR Rat :=
  { timeline := tlE, rows := [(15, (0, 5, 11)), (10, (1, 2, 20)), (30, (0, -1, 12)), (5, (1, 1, 19)), (-5, (0, 3, 9))] }

/-- blotter B: the same rows stamped up to 20, in the same order; after that another trade, and one more -/
def progRB : ProgR Rat :=
  { timeline := tlE, rows := [(15, (0, 5, 11)), (25, (0, 40, 1)), (10, (1, 2, 20)), (5, (1, 1, 19)), (-5, (0, 3, 9)),
      (30, (1, -3, 50))] }

/-- the RFQ variant of A: every request filled at `price * 1001/1000` -/
def progRQ : ProgR Rat := { progRA with mult := some (1001 / 1000) }

def gtreeRA : GTree Rat := .node (progRunR cfgE progRA) [none, none]
def gtreeRB : GTree Rat := .node (progRunR cfgE progRB) [none, none]

/-- nested: an ordinary parent (`progXPar`: momentum over the sub-strategy's index and `z`, half each) over a blotter-driven
    sub-strategy -/
def gtreeParA : GTree Rat := .node (progRunX cfgE progXPar) [some gtreeRA, none]
def gtreeParB : GTree Rat := .node (progRunX cfgE progXPar) [some gtreeRB, none]

end Bt.PProgR
