import Bt.Proofs.BalancedRun
import Bt.Proofs.LedgerDayEx
import Bt.Proofs.ProgramEx
import Bt.Proofs.ProgramXEx
/-! Concrete `Rat` fixtures and their facts for the `example`s of `Bt.Props.C01_run` and `Bt.Props.C08_run`. -/
namespace Bt.REx
open Bt Bt.P02 Bt.P01R Bt.Prog Bt.PProg

/-! #### the two-level tree `DEx.w0` at the close of date 1 (root ─ a, sub ─ b) -/

theorem w0_inv : C01Inv 1 DEx.w0 where
  close := DEx.w0_close
  secRows := by
    simp only [DEx.w0, DEx.tree, AllSecs_strat, AllSecsKids_cons, AllSecs_sec, AllSecsKids_nil, SecRowsInv]
    refine ⟨fun d hd => ?_, ⟨fun d hd => ?_, trivial⟩, trivial⟩
    · cases hd; exact ⟨rfl, rfl, rfl⟩
    · cases hd; exact ⟨rfl, rfl, rfl⟩

theorem w0_len : RowsLen 2 DEx.w0.root := by
  simp only [DEx.w0, DEx.tree, RowsLen, TreeAll, TreeAllKids, StratRowsLen, SecRowsLen]
  decide

theorem w0_hedgeZero : P08.HedgeZero DEx.w0.root := by
  simp [DEx.w0, DEx.tree, DEx.sec2w, LEx.sec, LEx.sec2, P08.HedgeZero, P08.HedgeZeroL, P08.isHedge]

theorem wBroke_inv : C01Inv 1 DEx.wBroke where
  close := DEx.wBroke_close
  secRows := by
    have := w0_inv.secRows
    simpa [DEx.w0, DEx.wBroke, DEx.tree] using this

theorem wBroke_len : RowsLen 2 DEx.wBroke.root := by
  simp only [DEx.wBroke, RowsLen, TreeAll, TreeAllKids, StratRowsLen, SecRowsLen]
  decide

/-! #### fresh templates (clocks unset, all rows zero, four rows of data with a price on every row) and `TOL = 0` -/

/-- `PProg.cfgE` with `TOL = 0`: dust-free -/
def cfg0 : Cfg Rat := { PProg.cfgE with tol := 0 }

theorem cfg0_dustFree : DustFree cfg0 := by
  intro x h
  rw [isZero_iff] at h
  exact absurd h (not_lt.mpr (abs_nonneg x))

def xF : SecData Rat := secE "x" [some 10, some 10, some 11, some 12]
def yF : SecData Rat := secE "y" [some 20, some 20, some 19, some 21]
def zF : SecData Rat := secE "z" [some 50, some 50, some 50, some 55]

/-- root over the sub-strategy `sub` (over `x`, `y`) and the security `z`; programs `PProg.treeParE` -/
def wPar : World Rat :=
  ⟨.strat (stratE "root" false) [.strat (stratE "sub" true) [.sec xF, .sec yF], .sec zF], false⟩

/-- a levered program (300 % in `x` on row 1, `x` falls from 10 to 2 on row 2): bankrupt on row 2;
    programs `PProg.treeLevE` -/
def wLev : World Rat :=
  ⟨.strat (stratE "root" false) [.sec (secE "x" [some 10, some 10, some 2, some 2])], false⟩

theorem wPar_strat : IsStrat wPar.root := ⟨_, _, rfl⟩
theorem wLev_strat : IsStrat wLev.root := ⟨_, _, rfl⟩

theorem wPar_noClocks : ClocksIn (fun _ => False) wPar.root := by
  simp only [wPar, ClocksIn, ClocksInL, stratE, xF, yF, zF, secE]
  exact ⟨P04.ck_none _, ⟨P04.ck_none _, P04.ck_none _, P04.ck_none _, trivial⟩, P04.ck_none _, trivial⟩

theorem wLev_noClocks : ClocksIn (fun _ => False) wLev.root := by
  simp only [wLev, ClocksIn, ClocksInL, stratE, secE]
  exact ⟨P04.ck_none _, P04.ck_none _, trivial⟩

theorem wPar_quiet : Quiet wPar.root := by
  simp only [wPar, Quiet, AllSecs_strat, AllSecsKids_cons, AllSecs_sec, AllSecsKids_nil, SecQuiet]
  exact ⟨⟨(fun h => by cases h), (fun h => by cases h), trivial⟩, (fun h => by cases h), trivial⟩

theorem wLev_quiet : Quiet wLev.root := by
  simp only [wLev, Quiet, AllSecs_strat, AllSecsKids_cons, AllSecs_sec, AllSecsKids_nil, SecQuiet]
  exact ⟨(fun h => by cases h), trivial⟩

theorem wPar_marked : AllSecs SecMarked wPar.root := by
  simp only [wPar, AllSecs_strat, AllSecsKids_cons, AllSecs_sec, AllSecsKids_nil]
  exact ⟨⟨SecMarked.of_noPrice rfl rfl, SecMarked.of_noPrice rfl rfl, trivial⟩, SecMarked.of_noPrice rfl rfl, trivial⟩

theorem wLev_marked : AllSecs SecMarked wLev.root := by
  simp only [wLev, AllSecs_strat, AllSecsKids_cons, AllSecs_sec, AllSecsKids_nil]
  exact ⟨SecMarked.of_noPrice rfl rfl, trivial⟩

theorem wPar_len : ∀ d ∈ [0, 1, 2, 3], RowsLen d wPar.root := by
  intro d hd
  simp only [List.mem_cons, List.not_mem_nil, or_false] at hd
  simp only [wPar, RowsLen, TreeAll, TreeAllKids, StratRowsLen, SecRowsLen]
  rcases hd with rfl | rfl | rfl | rfl <;> decide

theorem wLev_len : ∀ d ∈ [0, 1, 2, 3], RowsLen d wLev.root := by
  intro d hd
  simp only [List.mem_cons, List.not_mem_nil, or_false] at hd
  simp only [wLev, RowsLen, TreeAll, TreeAllKids, StratRowsLen, SecRowsLen]
  rcases hd with rfl | rfl | rfl | rfl <;> decide

theorem wPar_hedgeZero : P08.HedgeZero wPar.root := by
  simp [wPar, xF, yF, zF, secE, P08.HedgeZero, P08.HedgeZeroL, P08.isHedge]

theorem wLev_hedgeZero : P08.HedgeZero wLev.root := by
  simp [wLev, secE, P08.HedgeZero, P08.HedgeZeroL, P08.isHedge]

/-! #### a tree of arbitrary (public) node functions on `wPar`: the root rebalances the sub-strategy to 1/2 and `z` to
    1/4 on row 1; the sub-strategy rebalances `x` to 1/2 on row 2 -/

def rootF : List Nat → RunFn Rat := fun path d w =>
  if d == 1 then (opRebalance cfg0 w path (1/2) 0 none true).bind fun w1 => opRebalance cfg0 w1 path (1/4) 1 none true
  else .ok w
def subF : List Nat → RunFn Rat := fun path d w =>
  if d == 2 then opRebalance cfg0 w path (1/2) 0 none true else .ok w
def gtreeR : GTree Rat := .node rootF [some (.node subF [none, none]), none]

theorem rootF_public (path : List Nat) : P04.RunPublic cfg0 (rootF path) := by
  intro d w w2 hw h
  unfold rootF at h
  split at h
  · exact P04.runPublic_seq (P04.runPublic_rebalance path (1/2) 0 none true)
      (P04.runPublic_rebalance path (1/4) 1 none true) d w w2 hw h
  · exact P04.runPublic_id d w w2 hw h

theorem subF_public (path : List Nat) : P04.RunPublic cfg0 (subF path) := by
  intro d w w2 hw h
  unfold subF at h
  split at h
  · exact P04.runPublic_rebalance path (1/2) 0 none true d w w2 hw h
  · exact P04.runPublic_id d w w2 hw h

theorem gtreeR_public : PProgX.AllNodes (P04.RunPublic cfg0) gtreeR [] := by
  simp only [gtreeR, PProgX.AllNodes, PProgX.AllNodesL]
  exact ⟨rootF_public _, ⟨subF_public _, trivial⟩, trivial⟩

/-! #### a decision procedure for `P08.NoDust` over `Rat` -/

mutual
def noDustB (cfg : Cfg Rat) : Node Rat → Bool
  | .sec s => !(isZero cfg.tol s.position) || s.position == 0
  | .strat _ ks => noDustLB cfg ks
def noDustLB (cfg : Cfg Rat) : List (Node Rat) → Bool
  | [] => true
  | k :: ks => noDustB cfg k && noDustLB cfg ks
end

mutual
theorem noDustB_sound (cfg : Cfg Rat) : (n : Node Rat) → noDustB cfg n = true → P08.NoDust cfg n
  | .sec s, h => by
    rw [noDustB] at h
    rw [P08.noDust_sec]
    intro hz
    simpa [hz] using h
  | .strat sd ks, h => by
    rw [noDustB] at h
    rw [P08.noDust_strat]
    exact noDustLB_sound cfg ks h
theorem noDustLB_sound (cfg : Cfg Rat) : (ks : List (Node Rat)) → noDustLB cfg ks = true → P08.NoDustL cfg ks
  | [], _ => by simp [P08.NoDustL]
  | k :: ks, h => by
    rw [noDustLB, Bool.and_eq_true] at h
    rw [P08.noDustL_cons]
    exact ⟨noDustB_sound cfg k h.1, noDustLB_sound cfg ks h.2⟩
end

/-- the day's algo of `DEx.run` with the positive `TOL` of `LEx.cfg` -/
def runL : RunFn Rat := fun _ w => (opTransact LEx.cfg w [0] 2 false none).bind fun w1 => opAdjust w1 [] 25 true true

theorem runL_public : P04.RunPublic LEx.cfg runL :=
  P04.runPublic_seq (P04.runPublic_transact [0] 2 false none) (P04.runPublic_adjust [] 25 true true)

/-! #### the nested program fixture `PProg.wParE` of C04/C09/C16 (`TOL = 1/1000`, no price on the synthetic row 0) -/

theorem wParE_strat : IsStrat PProg.wParE.root := ⟨_, _, rfl⟩

theorem wParE_nows (d0 : Nat) : P08.NowsIn (· < d0) PProg.wParE.root := by
  simp only [PProg.wParE, P08.NowsIn, P08.NowsInL]
  exact ⟨(fun d hd => by cases hd), ⟨(fun d hd => by cases hd), trivial, trivial, trivial⟩, trivial, trivial⟩

theorem wParE_secRows : AllSecs SecRowsInv PProg.wParE.root := by
  simp only [PProg.wParE, AllSecs_strat, AllSecsKids_cons, AllSecs_sec, AllSecsKids_nil, SecRowsInv]
  exact ⟨⟨(fun d hd => by cases hd), (fun d hd => by cases hd), trivial⟩, (fun d hd => by cases hd), trivial⟩

theorem wParE_len : ∀ d ∈ [0, 1, 2, 3], RowsLen d PProg.wParE.root := by
  intro d hd
  simp only [List.mem_cons, List.not_mem_nil, or_false] at hd
  simp only [PProg.wParE, RowsLen, TreeAll, TreeAllKids, StratRowsLen, SecRowsLen]
  rcases hd with rfl | rfl | rfl | rfl <;> decide

theorem wParE_hedgeZero : P08.HedgeZero PProg.wParE.root := by
  simp [PProg.wParE, PProg.xE, PProg.yE, PProg.zE, secE, P08.HedgeZero, P08.HedgeZeroL, P08.isHedge]

theorem w0_nows : P08.NowsIn (· ≠ 2) DEx.w0.root := by
  simp only [DEx.w0, DEx.tree, P08.NowsIn, P08.NowsInL]
  exact ⟨(fun d hd => by cases hd; decide), trivial, ⟨(fun d hd => by cases hd; decide), trivial, trivial⟩, trivial⟩

/-! #### an algo that ruins the strategy during the day: the closing update takes the bankruptcy step -/

def runRuin : RunFn Rat := fun _ w => opAdjust w [] (-2000) true true

theorem runRuin_public : P04.RunPublic DEx.cfg0 runRuin := P04.runPublic_adjust [] (-2000) true true

/-- the opening update of date 2 on `DEx.w0` does not take the bankruptcy step -/
theorem w0_openAlive : OpenAlive DEx.cfg0 2 DEx.w0 := by
  obtain ⟨w1, h1, hp⟩ := Ex.check_ok (x := updRoot DEx.cfg0 2 DEx.w0) (p := fun w1 => !w1.bankrupt)
    (by decide +kernel)
  intro w1' h1'
  rw [h1] at h1'
  cases h1'
  exact Or.inl (by simpa using hp)

end Bt.REx
