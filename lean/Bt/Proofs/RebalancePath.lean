import Bt.Proofs.Rebalance
/-! Helper lemmas for C06 at any depth of the tree: what `modAt` and `updNode` do to the node at a path. -/
set_option linter.unusedSectionVars false
namespace Bt.Rebal
open Bt

variable {K : Type} [Field K] [LinearOrder K] [IsStrictOrderedRing K] [HasFloor K]

theorem get?_nil (n : Node K) : n.get? [] = some n := by
  cases n <;> rfl

theorem get?_cons_strat (sd : StratData K) (kids : List (Node K)) (j : Nat) (rest : List Nat) (k : Node K)
    (h : kids[j]? = some k) : (Node.strat sd kids).get? (j :: rest) = k.get? rest := by
  rw [Node.get?]; simp only [h]

/-- the child `i` of the strategy found at `p` is the node at `p ++ [i]` -/
theorem get?_child : ∀ (p : List Nat) (n : Node K) (sd : StratData K) (ks : List (Node K)) (i : Nat),
    n.get? p = some (.strat sd ks) → n.get? (p ++ [i]) = ks[i]?
  | [], n, sd, ks, i, h => by
    rw [get?_nil] at h
    cases h
    rw [List.nil_append, Node.get?]
    cases hk : ks[i]? with
    | none => rfl
    | some k => simp only; exact get?_nil k
  | j :: rest, .sec s, sd, ks, i, h => by rw [Node.get?] at h; cases h
  | j :: rest, .strat sd0 kids, sd, ks, i, h => by
    rw [Node.get?] at h
    rw [List.cons_append, Node.get?]
    cases hk : kids[j]? with
    | none => rw [hk] at h; cases h
    | some k =>
      rw [hk] at h
      simp only at h ⊢
      exact get?_child rest k sd ks i h

/-- `modAt` at `p ++ [i]`: the operation runs on child `i` of the strategy at `p` with that strategy's data;
    afterwards the strategy at `p` has booked the adjustments and holds the new child. -/
theorem modAt_child (f : Option (StratData K) → Node K → Except Err (OpRes K)) (i : Nat) :
    ∀ (p : List Nat) (par : Option (StratData K)) (n : Node K) (r : OpRes K),
      modAt f (p ++ [i]) par n = .ok r →
      ∃ sdp ksp c c' adjs', n.get? p = some (.strat sdp ksp) ∧ ksp[i]? = some c ∧
        f (some sdp) c = .ok (c', adjs', r.2.2) ∧
        r.1.get? p = some (.strat (adjs'.foldl StratData.adjust sdp) (ksp.set i c'))
  | [], par, .sec s, r, h => by rw [List.nil_append, modAt] at h; cases h
  | [], par, .strat sd kids, r, h => by
    rw [List.nil_append, modAt] at h
    cases hk : kids[i]? with
    | none => rw [hk] at h; cases h
    | some k =>
      rw [hk] at h
      simp only at h
      obtain ⟨⟨k', adjs, st⟩, h1, h2⟩ := Except.map_ok h
      subst h2
      rw [modAt] at h1
      exact ⟨sd, kids, k, k', adjs, rfl, hk, h1, rfl⟩
  | j :: rest, par, .sec s, r, h => by rw [List.cons_append, modAt] at h; cases h
  | j :: rest, par, .strat sd kids, r, h => by
    rw [List.cons_append, modAt] at h
    cases hk : kids[j]? with
    | none => rw [hk] at h; cases h
    | some k =>
      rw [hk] at h
      simp only at h
      obtain ⟨⟨k', adjs, st⟩, h1, h2⟩ := Except.map_ok h
      subst h2
      obtain ⟨sdp, ksp, c, c', adjs', g1, g2, g3, g4⟩ := modAt_child f i rest (some sd) k _ h1
      refine ⟨sdp, ksp, c, c', adjs', ?_, g2, g3, ?_⟩
      · rw [get?_cons_strat sd kids j rest k hk]; exact g1
      · have hlt : j < kids.length := by
          rcases Nat.lt_or_ge j kids.length with hl | hl
          · exact hl
          · rw [List.getElem?_eq_none hl] at hk; cases hk
        rw [get?_cons_strat _ (kids.set j k') j rest k' (List.getElem?_set_self hlt)]
        exact g4


/-! ### what `update` does to a security child found at a path -/

theorem sweepSec_fst (newpt : Bool) (s : SecData K) (acc : Acc K) :
    (sweepSec newpt s acc).1 = s ∨ (sweepSec newpt s acc).1 = { s with capital := 0 } := by
  unfold sweepSec; cases newpt <;> simp

/-- one child of the children loop of `update`: a ready security at index `i` comes out marked -/
theorem updKids_get_sec (cfg : Cfg K) (d : Nat) (newpt bo : Bool) :
    ∀ (kids : List (Node K)) (acc : Acc K) (kids1 : List (Node K)) (acc1 : Acc K) (i : Nat) (s : SecData K),
      updKids cfg d newpt bo kids acc = .ok (kids1, acc1) → kids[i]? = some (.sec s) → UpdReady d s →
      ∃ t, kids1[i]? = some (.sec t) ∧ Marked s t
  | [], acc, kids1, acc1, i, s, _, hk, _ => by simp at hk
  | .sec s0 :: ks, acc, kids1, acc1, i, s, h, hk, hr => by
    rw [updKids] at h
    have hsw := sweepSec_fst newpt s0 acc
    rcases hsp : sweepSec newpt s0 acc with ⟨s0', acc0⟩
    rw [hsp] at h hsw
    dsimp only at h hsw
    split at h
    · rename_i hnu
      obtain ⟨⟨ks', a⟩, h1, h2⟩ := Except.map_ok h
      simp only [Prod.mk.injEq] at h2
      obtain ⟨rfl, rfl⟩ := h2
      cases i with
      | zero =>
        simp only [List.getElem?_cons_zero, Option.some.injEq, Node.sec.injEq] at hk
        subst hk
        refine ⟨s0', by simp, ?_⟩
        have hnu' : s0.needupdate = false := by
          rcases hsw with e | e <;> (rw [e] at hnu; simpa using hnu)
        obtain ⟨f1, f2⟩ := hr.flat hnu'
        rcases hsw with e | e <;> (rw [e]; exact ⟨rfl, rfl, rfl, by show s0.value = _; rw [f1, f2]; ring⟩)
      | succ j =>
        simp only [List.getElem?_cons_succ] at hk ⊢
        exact updKids_get_sec cfg d newpt bo ks acc0 ks' a j s h1 hk hr
    · obtain ⟨s1, hu, h2⟩ := Except.bind_ok h
      obtain ⟨⟨ks', a⟩, h1, h3⟩ := Except.map_ok h2
      simp only [Prod.mk.injEq] at h3
      obtain ⟨rfl, rfl⟩ := h3
      cases i with
      | zero =>
        simp only [List.getElem?_cons_zero, Option.some.injEq, Node.sec.injEq] at hk
        subst hk
        have hr' : UpdReady d s0' ∧ s0'.position = s0.position ∧ px s0' = px s0 ∧ s0'.mult = s0.mult := by
          rcases hsw with e | e <;> (rw [e]; exact ⟨⟨hr.kind, hr.now, hr.price, hr.flat, hr.val⟩, rfl, rfl, rfl⟩)
        obtain ⟨t, ht, m1, m2, m3, m4⟩ := secUpdate_ready cfg d s0' hr'.1
        rw [ht] at hu
        cases hu
        refine ⟨s1, by simp, m1.trans hr'.2.1, m2.trans hr'.2.2.1, m3.trans hr'.2.2.2, ?_⟩
        rw [m4, hr'.2.1, hr'.2.2.1, hr'.2.2.2]
      | succ j =>
        simp only [List.getElem?_cons_succ] at hk ⊢
        exact updKids_get_sec cfg d newpt bo ks _ ks' a j s h1 hk hr
  | .strat sdk kk :: ks, acc, kids1, acc1, i, s, h, hk, hr => by
    rw [updKids] at h
    obtain ⟨k1, _, h2⟩ := Except.bind_ok h
    obtain ⟨⟨ks', a⟩, h1, h3⟩ := Except.map_ok h2
    simp only [Prod.mk.injEq] at h3
    obtain ⟨rfl, rfl⟩ := h3
    cases i with
    | zero => simp at hk
    | succ j =>
      simp only [List.getElem?_cons_succ] at hk ⊢
      exact updKids_get_sec cfg d newpt bo ks _ ks' a j s h1 hk hr

/-- a sub-strategy at index `j` of the children loop is updated by `updNode` -/
theorem updKids_get_strat (cfg : Cfg K) (d : Nat) (newpt bo : Bool) :
    ∀ (kids : List (Node K)) (acc : Acc K) (kids1 : List (Node K)) (acc1 : Acc K) (j : Nat)
      (sdk : StratData K) (kk : List (Node K)),
      updKids cfg d newpt bo kids acc = .ok (kids1, acc1) → kids[j]? = some (.strat sdk kk) →
      ∃ k1, kids1[j]? = some k1 ∧ updNode cfg d (.strat sdk kk) = .ok k1
  | [], acc, kids1, acc1, j, sdk, kk, _, hk => by simp at hk
  | .sec s0 :: ks, acc, kids1, acc1, j, sdk, kk, h, hk => by
    rw [updKids] at h
    rcases hsp : sweepSec newpt s0 acc with ⟨s0', acc0⟩
    rw [hsp] at h
    dsimp only at h
    cases j with
    | zero => simp at hk
    | succ j' =>
      simp only [List.getElem?_cons_succ] at hk
      split at h
      · obtain ⟨⟨ks', a⟩, h1, h2⟩ := Except.map_ok h
        simp only [Prod.mk.injEq] at h2
        obtain ⟨rfl, rfl⟩ := h2
        simp only [List.getElem?_cons_succ]
        exact updKids_get_strat cfg d newpt bo ks acc0 ks' a j' sdk kk h1 hk
      · obtain ⟨s1, _, h2⟩ := Except.bind_ok h
        obtain ⟨⟨ks', a⟩, h1, h3⟩ := Except.map_ok h2
        simp only [Prod.mk.injEq] at h3
        obtain ⟨rfl, rfl⟩ := h3
        simp only [List.getElem?_cons_succ]
        exact updKids_get_strat cfg d newpt bo ks _ ks' a j' sdk kk h1 hk
  | .strat sd0 k0 :: ks, acc, kids1, acc1, j, sdk, kk, h, hk => by
    rw [updKids] at h
    obtain ⟨k1, hk1, h2⟩ := Except.bind_ok h
    obtain ⟨⟨ks', a⟩, h1, h3⟩ := Except.map_ok h2
    simp only [Prod.mk.injEq] at h3
    obtain ⟨rfl, rfl⟩ := h3
    cases j with
    | zero =>
      simp only [List.getElem?_cons_zero, Option.some.injEq, Node.strat.injEq] at hk
      obtain ⟨rfl, rfl⟩ := hk
      exact ⟨k1, by simp, hk1⟩
    | succ j' =>
      simp only [List.getElem?_cons_succ] at hk ⊢
      exact updKids_get_strat cfg d newpt bo ks _ ks' a j' sdk kk h1 hk


/-- after an update: the strategy at `p` holds at index `i` a security marked from `s`, whose weight (if it
    is not parked) is its share of the value `val` the strategy's children loop added up — which is the
    strategy's recorded value, up to the `TOL` write guard -/
def GoodAt (cfg : Cfg K) (n' : Node K) (p : List Nat) (i : Nat) (s : SecData K) : Prop :=
  ∃ sdp' ksp' t, n'.get? p = some (.strat sdp' ksp') ∧ ksp'[i]? = some (.sec t) ∧ Marked s t ∧
    ∃ val, (sdp'.value = val ∨ isZero cfg.tol (sdp'.value - val) = true) ∧
      (sdp'.fixedIncome = false → t.needupdate = true →
        t.weight = if isZero cfg.tol val then 0 else t.value / val)

theorem GoodAt_setWeight (cfg : Cfg K) (sd1 : StratData K) (ks1 : List (Node K)) (w : K) (p : List Nat)
    (i : Nat) (s : SecData K) (h : GoodAt cfg (.strat sd1 ks1) p i s) :
    GoodAt cfg ((Node.strat sd1 ks1).setWeight w) p i s := by
  obtain ⟨sdp', ksp', t, g1, g2, g3, val, g4, g5⟩ := h
  cases p with
  | nil =>
    rw [get?_nil] at g1
    simp only [Option.some.injEq, Node.strat.injEq] at g1
    obtain ⟨rfl, rfl⟩ := g1
    exact ⟨{ sd1 with weight := w }, ks1, t, get?_nil _, g2, g3, val, g4, g5⟩
  | cons a r =>
    refine ⟨sdp', ksp', t, ?_, g2, g3, val, g4, g5⟩
    rw [← g1]
    simp only [Node.setWeight, Node.get?]

theorem kidsWeights_get (cfg : Cfg K) (fi : Bool) (val notl : K) (kids : List (Node K)) (i : Nat) (k : Node K)
    (h : kids[i]? = some k) :
    (kidsWeights cfg fi val notl kids)[i]? =
      some (if k.skipped then k else k.setWeight (childWeight cfg fi val notl k)) := by
  unfold kidsWeights
  rw [List.getElem?_map, h]; rfl

/-- `update(d)` of any tree: a ready security child of the strategy found at `p` comes out marked at
    `position·price·mult` and weighted by its parent. -/
theorem updNode_get_sec (cfg : Cfg K) (d : Nat) :
    ∀ (p : List Nat) (n n' : Node K) (sdp : StratData K) (ksp : List (Node K)) (i : Nat) (s : SecData K),
      updNode cfg d n = .ok n' → n.get? p = some (.strat sdp ksp) → ksp[i]? = some (.sec s) → UpdReady d s →
      GoodAt cfg n' p i s
  | [], n, n', sdp, ksp, i, s, h, hg, hk, hr => by
    rw [get?_nil] at hg
    cases hg
    obtain ⟨kids1, acc, sd3, hkids, hw, rfl⟩ := updNode_strat_ok h
    obtain ⟨t1, ht1, hm⟩ := updKids_get_sec cfg d _ _ ksp _ kids1 acc i s hkids hk hr
    have hget := kidsWeights_get cfg sd3.fixedIncome (acc.val + acc.coupons) acc.notl kids1 i _ ht1
    have hsec : (if (Node.sec t1).skipped = true then Node.sec t1 else
        Node.setWeight (childWeight cfg sd3.fixedIncome (acc.val + acc.coupons) acc.notl (Node.sec t1)) (Node.sec t1))
        = Node.sec (weighSec cfg sd3.fixedIncome (acc.val + acc.coupons) acc.notl t1) := by
      simp only [Node.skipped, weighSec, Node.setWeight]
      by_cases hn : t1.needupdate = true
      · simp [hn]
      · simp [hn]
    rw [hsec] at hget
    refine ⟨stratRows d sd3, _, _, get?_nil _, hget, weighSec_marked cfg _ _ _ s t1 hm,
      acc.val + acc.coupons, ?_, ?_⟩
    · rw [stratRows_value_L]
      rcases stratWrite_ok hw with ⟨hc, rfl⟩ | ⟨hc, _⟩
      · right
        unfold stratChanged at hc
        simp only [Bool.or_eq_false_iff, Bool.not_eq_eq_eq_not, Bool.not_false] at hc
        exact hc.1.2
      · left; exact stratWrite_value hc hw
    · intro hfi hnu
      have hfi3 : sd3.fixedIncome = false := by rw [← (stratRows_base d sd3).2.2.2.2.1]; exact hfi
      rw [hfi3] at hnu ⊢
      unfold weighSec at hnu ⊢
      by_cases htn : t1.needupdate = true
      · simp only [htn, ↓reduceIte, childWeight, Bool.false_eq_true, Node.value]
        cases isZero cfg.tol (acc.val + acc.coupons) <;> simp
      · simp only [htn, Bool.false_eq_true, ↓reduceIte] at hnu
  | j :: rest, .sec s0, n', sdp, ksp, i, s, h, hg, hk, hr => by rw [Node.get?] at hg; cases hg
  | j :: rest, .strat sd kids, n', sdp, ksp, i, s, h, hg, hk, hr => by
    rw [Node.get?] at hg
    cases hkj : kids[j]? with
    | none => rw [hkj] at hg; cases hg
    | some k =>
      rw [hkj] at hg
      simp only at hg
      cases k with
      | sec s1 =>
        cases rest with
        | nil => rw [get?_nil] at hg; cases hg
        | cons a r => rw [Node.get?] at hg; cases hg
      | strat sdk kk =>
        obtain ⟨kids1, acc, sd3, hkids, hw, rfl⟩ := updNode_strat_ok h
        obtain ⟨k1, hk1, hu⟩ := updKids_get_strat cfg d _ _ kids _ kids1 acc j sdk kk hkids hkj
        have ih := updNode_get_sec cfg d rest (.strat sdk kk) k1 sdp ksp i s hu hg hk hr
        obtain ⟨kids1', acc', sd3', _, _, rfl⟩ := updNode_strat_ok hu
        have hget := kidsWeights_get cfg sd3.fixedIncome (acc.val + acc.coupons) acc.notl kids1 j _ hk1
        have hgood := GoodAt_setWeight cfg _ _
          (childWeight cfg sd3.fixedIncome (acc.val + acc.coupons) acc.notl
            (.strat (stratRows d sd3') (kidsWeights cfg sd3'.fixedIncome (acc'.val + acc'.coupons) acc'.notl kids1')))
          rest i s ih
        obtain ⟨sdp', ksp', t, g1, g2⟩ := hgood
        refine ⟨sdp', ksp', t, ?_, g2⟩
        simp only [Node.skipped, Bool.false_eq_true, ↓reduceIte] at hget
        rw [get?_cons_strat _ _ j rest _ hget]
        exact g1


theorem strat_of_get? : ∀ (p : List Nat) (n : Node K) (sd : StratData K) (ks : List (Node K)),
    n.get? p = some (.strat sd ks) → ∃ sd0 ks0, n = .strat sd0 ks0
  | [], n, sd, ks, h => by rw [get?_nil] at h; cases h; exact ⟨sd, ks, rfl⟩
  | j :: rest, .sec s, sd, ks, h => by rw [Node.get?] at h; cases h
  | j :: rest, .strat sd0 ks0, sd, ks, _ => ⟨sd0, ks0, rfl⟩

/-- `rebalance(wt, child i, base V, update=False)` of the market-value strategy found at `p` (any depth) on a
    fractional, cost-free, up-to-date security child: only that strategy's cash and that child change. -/
theorem opRebalance_at_path (cfg : Cfg K) (d : Nat) (w w1 : World K) (p : List Nat) (sd : StratData K)
    (ks : List (Node K)) (i : Nat) (s : SecData K) (wt V : K)
    (hatol : 0 ≤ cfg.atol) (htol : 0 < cfg.tol)
    (hst : w.stale = false) (hp : w.root.get? p = some (.strat sd ks)) (hk : ks[i]? = some (.sec s))
    (hn : NiceSec cfg d s) (hnow : sd.now = some d) (hfi : sd.fixedIncome = false)
    (hcomm : ∀ q x, sd.comm q x = 0) (hz : isZero cfg.tol wt = false)
    (h1 : opRebalance cfg w p wt i (some V) false = .ok w1) :
    w1.stale = false ∧
    w1.root.get? p = some (.strat (withCap sd (sd.capital - stepCash cfg s ((wt - s.weight) * V)))
      (ks.set i (.sec (stepSec cfg s ((wt - s.weight) * V))))) := by
  have hc : w.root.get? (p ++ [i]) = some (.sec s) := by rw [get?_child p _ sd ks i hp]; exact hk
  rw [opRebalance_unfold cfg w p wt i V false sd ks (.sec s) hst hz hp hc] at h1
  simp only [hfi, Bool.false_eq_true, ↓reduceIte, Node.weight] at h1
  unfold opAllocate World.modify at h1
  obtain ⟨⟨r, adjs, st⟩, h2, h3⟩ := Except.map_ok h1
  subst h3
  obtain ⟨sdp, ksp, c, c', adjs', g1, g2, g3, g4⟩ := modAt_child _ i p none w.root _ h2
  rw [hp] at g1
  simp only [Option.some.injEq, Node.strat.injEq] at g1
  obtain ⟨rfl, rfl⟩ := g1
  rw [hk] at g2
  cases g2
  simp only at g3 g4
  obtain ⟨oa, e1, e2⟩ := secAllocate_nice cfg d sd.comm s ((wt - s.weight) * V) hn hatol htol hcomm
  rw [hnow, e1] at g3
  simp only [Except.map, Except.ok.injEq, Prod.mk.injEq, Bool.false_and] at g3
  obtain ⟨rfl, rfl, rfl⟩ := g3
  refine ⟨by simp [hst], ?_⟩
  rw [g4, (e2 sd).2]

end Bt.Rebal
