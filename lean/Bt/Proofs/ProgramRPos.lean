import Bt.Proofs.ProgramR
import Bt.Proofs.Flags
import Bt.Proofs.C08Root
import Bt.Proofs.FixedIncome
/-! Positions under a flat blotter-driven strategy (`progRunR` at the root, all children securities): helper lemmas for
    `Bt.Props.C18_progr`.

    * engine side: a custom-price `transact` on child `i` adds the quantity (unless `is_zero`) to that child's position and
      to no other; `root.update` that does not liquidate leaves every position alone; one day of the loop adds exactly the
      quantities of the rows of that day's window; a loop over dates adds the sum over the days;
    * blotter side: on an increasing timeline the windows of rows `1..n` partition the rows stamped in
      `(timeline[0], timeline[n]]` (`window_disjoint`, `window_covers`): the sum over the days is the sum over those rows,
      each taken exactly once. -/
set_option linter.unusedSectionVars false
set_option linter.unusedVariables false
set_option linter.unusedSimpArgs false
namespace Bt.PProgR
open Bt Bt.P08 Bt.Prog Bt.Blotter

section pos
variable {K : Type} [Field K] [LinearOrder K] [IsStrictOrderedRing K] [HasFloor K]
variable {cfg : Cfg K}

/-- position of a node (a sub-strategy has none: 0) -/
def npos : Node K → K
  | .sec s => s.position
  | .strat _ _ => 0

/-- position of the root's `j`-th child (0 when there is none) -/
def posAt (w : World K) (j : Nat) : K :=
  match w.root with
  | .strat _ ks => ((ks[j]?).map npos).getD 0
  | .sec _ => 0

/-- the root is a strategy all of whose children are securities -/
def Flat (w : World K) : Prop := ∃ sd ks, w.root = .strat sd ks ∧ ∀ k ∈ ks, k.isSec = true

/-- what a row adds to the position of child `j`: its quantity when it names `j` and the quantity is not `is_zero` -/
def rowQ (cfg : Cfg K) (j : Nat) (r : Int × BRow K) : K :=
  if r.2.1 = j ∧ isZero cfg.tol r.2.2.1 = false then r.2.2.1 else 0

/-- … summed over a list of rows -/
def qsum (cfg : Cfg K) (j : Nat) : List (Int × BRow K) → K
  | [] => 0
  | r :: rs => rowQ cfg j r + qsum cfg j rs

/-- … and over the windows of a list of dates -/
def daysSum (cfg : Cfg K) (j : Nat) (tl : List Int) (rows : List (Int × BRow K)) : List Nat → K
  | [] => 0
  | d :: ds => qsum cfg j (select tl d rows) + daysSum cfg j tl rows ds

theorem secTransactCore_pos {comm : K → K → K} {s : SecData K} {q : K} {custom : Option K}
    {r : SecData K × Option (Adj K)} (h : secTransactCore cfg comm s q custom = .ok r) :
    r.1.position = s.position + (if isZero cfg.tol q = false then q else 0) := by
  unfold secTransactCore at h
  split at h
  · rename_i hz; cases h; simp [hz]
  · rename_i hz
    split at h
    · cases h
    · obtain ⟨⟨full, outlay, fee, bo⟩, _, h⟩ := bind_eq_ok h
      cases h; simp [hz]

theorem secTransact_pos {pn : Option Nat} {comm : K → K → K} {s : SecData K} {q : K} {custom : Option K}
    {r : SecData K × Option (Adj K)} (h : secTransact cfg pn comm s q true custom = .ok r) :
    r.1.position = s.position + (if isZero cfg.tol q = false then q else 0) := by
  unfold secTransact at h
  simp only [if_true] at h
  obtain ⟨s1, h1, h2⟩ := bind_eq_ok h
  rw [secTransactCore_pos h2, Alloc.secRefresh_position cfg pn s s1 h1]

theorem isSec_iff (k : Node K) : k.isSec = true ↔ ∃ s, k = .sec s := by
  cases k with
  | sec s => simp [Node.isSec]
  | strat sd ks => simp [Node.isSec]

theorem mem_set_isSec {ks : List (Node K)} (hs : ∀ k ∈ ks, k.isSec = true) (i : Nat) (s : SecData K) :
    ∀ k ∈ ks.set i (.sec s), k.isSec = true := by
  intro k hk
  rcases List.mem_or_eq_of_mem_set hk with h | h
  · exact hs k h
  · subst h; rfl

/-- **one row**: a custom-price transact on child `i` of a flat root -/
theorem execRow_pos {mult : Option K} {w w' : World K} {r : Int × BRow K} (hf : Flat w)
    (h : execRow cfg mult [] w r = .ok w') : Flat w' ∧ ∀ j, posAt w' j = posAt w j + rowQ cfg j r := by
  obtain ⟨sd, ks, hr, hs⟩ := hf
  obtain ⟨stamp, i, q, px⟩ := r
  simp only [execRow, opTransact, World.modify, List.nil_append] at h
  obtain ⟨⟨root', adjs, st⟩, hm, hw'⟩ := map_eq_ok h
  rw [hr] at hm
  simp only [modAt] at hm
  cases hki : ks[i]? with
  | none => rw [hki] at hm; cases hm
  | some k =>
    rw [hki] at hm
    obtain ⟨s, rfl⟩ := (isSec_iff k).1 (hs k (List.mem_of_getElem? hki))
    obtain ⟨⟨k', adjs', st'⟩, hk', hroot⟩ := map_eq_ok hm
    obtain ⟨⟨s', a⟩, hs', hk''⟩ := map_eq_ok hk'
    simp only [Prod.mk.injEq] at hk'' hroot
    obtain ⟨rfl, -, -⟩ := hk''
    obtain ⟨rfl, -, -⟩ := hroot
    have hp := secTransact_pos hs'
    subst hw'
    refine ⟨⟨_, _, rfl, mem_set_isSec hs i s'⟩, fun j => ?_⟩
    simp only [posAt, hr, rowQ]
    by_cases hij : i = j
    · subst hij
      have hlt : i < ks.length := (List.getElem?_eq_some_iff.1 hki).1
      rw [List.getElem?_set_self hlt, hki]
      simp only [Option.map_some, Option.getD_some, npos, true_and]
      rw [hp]
    · rw [List.getElem?_set_ne hij]
      simp [hij]

/-- **the rows of one call** -/
theorem execRows_pos {mult : Option K} : ∀ (rows : List (Int × BRow K)) {w w' : World K}, Flat w →
    execRows cfg mult [] rows w = .ok w' → Flat w' ∧ ∀ j, posAt w' j = posAt w j + qsum cfg j rows
  | [], w, w', hf, h => by
    rw [execRows_nil] at h; cases h
    exact ⟨hf, fun j => by simp [qsum]⟩
  | r :: rest, w, w', hf, h => by
    rw [execRows_cons] at h
    obtain ⟨w1, h1, h2⟩ := bind_eq_ok h
    obtain ⟨hf1, hp1⟩ := execRow_pos hf h1
    obtain ⟨hf2, hp2⟩ := execRows_pos rest hf1 h2
    exact ⟨hf2, fun j => by rw [hp2 j, hp1 j, qsum, add_assoc]⟩

theorem sweepSec_position (np : Bool) (s : SecData K) (acc : Acc K) : (sweepSec np s acc).1.position = s.position := by
  unfold sweepSec; cases np <;> rfl

/-- the children loop of `update` over securities: still securities, same positions -/
theorem updKids_pos {d : Nat} {newpt bo : Bool} : ∀ (ks : List (Node K)) (acc : Acc K) (ks' : List (Node K)) (acc' : Acc K),
    (∀ k ∈ ks, k.isSec = true) → updKids cfg d newpt bo ks acc = .ok (ks', acc') →
    (∀ k ∈ ks', k.isSec = true) ∧ ks'.map npos = ks.map npos
  | [], acc, ks', acc', _, h => by
    rw [updKids] at h; cases h; exact ⟨fun _ hk => (by cases hk), rfl⟩
  | .strat sd kk :: ks, acc, ks', acc', hs, h => by
    have := hs (.strat sd kk) (List.mem_cons_self ..)
    simp [Node.isSec] at this
  | .sec s :: ks, acc, ks', acc', hs, h => by
    rw [updKids_sec] at h
    have hs' : ∀ k ∈ ks, k.isSec = true := fun k hk => hs k (List.mem_cons_of_mem _ hk)
    split at h
    · obtain ⟨r, hr, he⟩ := map_eq_ok h
      cases he
      obtain ⟨ha, hb⟩ := updKids_pos ks _ r.1 r.2 hs' hr
      refine ⟨?_, ?_⟩
      · intro k hk
        rcases List.mem_cons.1 hk with rfl | hk
        · rfl
        · exact ha k hk
      · simp only [List.map_cons, npos, sweepSec_position, hb]
    · obtain ⟨s1, h1, h⟩ := bind_eq_ok h
      obtain ⟨r, hr, he⟩ := map_eq_ok h
      cases he
      obtain ⟨ha, hb⟩ := updKids_pos ks _ r.1 r.2 hs' hr
      refine ⟨?_, ?_⟩
      · intro k hk
        rcases List.mem_cons.1 hk with rfl | hk
        · rfl
        · exact ha k hk
      · simp only [List.map_cons, npos, hb]
        rw [Alloc.secUpdate_position cfg d _ s1 h1, sweepSec_position]

theorem kidsWeights_pos (fi : Bool) (val notl : K) (ks : List (Node K)) :
    (kidsWeights cfg fi val notl ks).map npos = ks.map npos ∧
      ((∀ k ∈ ks, k.isSec = true) → ∀ k ∈ kidsWeights cfg fi val notl ks, k.isSec = true) := by
  unfold kidsWeights
  refine ⟨?_, ?_⟩
  · rw [List.map_map]
    refine List.map_congr_left fun k _ => ?_
    simp only [Function.comp]
    split
    · rfl
    · cases k <;> rfl
  · intro hs k hk
    obtain ⟨k0, hk0, rfl⟩ := List.mem_map.1 hk
    have := hs k0 hk0
    split
    · exact this
    · cases k0 <;> simp [Node.setWeight, Node.isSec] at this ⊢

theorem World.bankrupt_of_root {w : World K} {sd : StratData K} {ks : List (Node K)} (h : w.root = .strat sd ks) :
    w.bankrupt = sd.bankrupt := by
  unfold World.bankrupt; rw [h]

/-- a flagged root stays flagged through `root.update` (contrapositive form) -/
theorem updRoot_not_bankrupt {d : Nat} {w w' : World K} (h : updRoot cfg d w = .ok w') (hb : w'.bankrupt = false) :
    w.bankrupt = false := by
  obtain ⟨v, hv⟩ := P16.rootTotal_of_updRoot h
  have := P16.updRoot_bankrupt hv h
  rw [hb] at this
  cases hw : w.bankrupt with
  | false => rfl
  | true => rw [hw] at this; simp at this

/-- **`root.update` that does not end flagged** (no liquidation) keeps a flat root flat and every position -/
theorem updRoot_pos {d : Nat} {w w' : World K} (hf : Flat w) (h : updRoot cfg d w = .ok w') (hb : w'.bankrupt = false) :
    Flat w' ∧ ∀ j, posAt w' j = posAt w j := by
  obtain ⟨sd, ks, hr, hs⟩ := hf
  obtain ⟨v, hv⟩ := P16.rootTotal_of_updRoot h
  have hflag := P16.updRoot_bankrupt hv h
  rw [hb] at hflag
  obtain ⟨root, st⟩ := w
  simp only at hr
  subst hr
  rw [updRoot_strat] at h
  obtain ⟨r, hk, h⟩ := bind_eq_ok h
  have hv' : v = r.2.val + r.2.coupons := by
    simp only [P16.rootTotal, hk, map_ok] at hv
    cases hv; rfl
  have hcond : bankruptCond cfg (stratDateChange d sd).1 (r.2.val + r.2.coupons) = false := by
    rw [P16.bankruptCond_eq]
    have h1 : (World.bankrupt ⟨Node.strat sd ks, st⟩ || P16.trigger cfg (World.rootFI ⟨Node.strat sd ks, st⟩) v) = false :=
      hflag.symm
    rw [Bool.or_eq_false_iff] at h1
    have hfi : (stratDateChange d sd).1.fixedIncome = sd.fixedIncome := by
      unfold stratDateChange; split
      · rfl
      · split <;> rfl
    rw [hfi, ← hv']
    have h2 : P16.trigger cfg sd.fixedIncome v = false := h1.2
    rw [h2]; simp
  rw [hcond] at h
  simp only [Bool.false_eq_true, ↓reduceIte] at h
  obtain ⟨n, hn, rfl⟩ := map_eq_ok h
  unfold stratFinish at hn
  obtain ⟨sd3, _, rfl⟩ := map_eq_ok hn
  obtain ⟨r1, r2⟩ := r
  obtain ⟨hsec, hmap⟩ := updKids_pos ks _ r1 r2 hs hk
  obtain ⟨hwm, hws⟩ := kidsWeights_pos (cfg := cfg) sd3.fixedIncome (r2.val + r2.coupons) r2.notl r1
  refine ⟨⟨_, _, rfl, hws hsec⟩, fun j => ?_⟩
  simp only [posAt]
  have e : ∀ l : List (Node K), ((l[j]?).map npos) = (l.map npos)[j]? := fun l => by rw [List.getElem?_map]
  rw [e, e, hwm, hmap]

theorem foldl_adjust_bankrupt : ∀ (l : List (Adj K)) (sd : StratData K),
    (l.foldl StratData.adjust sd).bankrupt = sd.bankrupt
  | [], _ => rfl
  | a :: l, sd => by rw [List.foldl_cons, foldl_adjust_bankrupt l]; rfl

/-- the root's flag is not touched by the row loop -/
theorem execRow_bankrupt {mult : Option K} {w w' : World K} {r : Int × BRow K} (h : execRow cfg mult [] w r = .ok w') :
    w'.bankrupt = w.bankrupt := by
  obtain ⟨stamp, i, q, px⟩ := r
  simp only [execRow, opTransact, World.modify, List.nil_append] at h
  obtain ⟨⟨root', adjs, st⟩, hm, hw'⟩ := map_eq_ok h
  subst hw'
  obtain ⟨root, stale⟩ := w
  cases root with
  | sec s => simp only [modAt] at hm; cases hm
  | strat sd ks =>
    simp only [modAt] at hm
    cases hki : ks[i]? with
    | none => rw [hki] at hm; cases hm
    | some k =>
      rw [hki] at hm
      obtain ⟨⟨k', adjs', st'⟩, hk', hroot⟩ := map_eq_ok hm
      simp only [Prod.mk.injEq] at hroot
      obtain ⟨rfl, -, -⟩ := hroot
      simp only [World.bankrupt]
      exact foldl_adjust_bankrupt adjs' sd

theorem execRows_bankrupt {mult : Option K} : ∀ (rows : List (Int × BRow K)) {w w' : World K},
    execRows cfg mult [] rows w = .ok w' → w'.bankrupt = w.bankrupt
  | [], w, w', h => by rw [execRows_nil] at h; cases h; rfl
  | r :: rest, w, w', h => by
    rw [execRows_cons] at h
    obtain ⟨w1, h1, h2⟩ := bind_eq_ok h
    rw [execRows_bankrupt rest h2, execRow_bankrupt h1]

/-- a day of the loop that ends unflagged started unflagged (whatever the algos do) -/
theorem btDay_not_bankrupt {run : RunFn K} {d : Nat} {w w' : World K} (h : btDay cfg run d w = .ok w')
    (hb : w'.bankrupt = false) : w.bankrupt = false := by
  unfold btDay at h
  obtain ⟨w1, h1, h⟩ := bind_eq_ok h
  split at h
  · rename_i hw1; cases h; rw [hb] at hw1; cases hw1
  · rename_i hw1
    exact updRoot_not_bankrupt h1 (by simpa using hw1)

theorem btLoop_not_bankrupt {run : RunFn K} : ∀ (ds : List Nat) {w w' : World K}, btLoop cfg run ds w = .ok w' →
    w'.bankrupt = false → w.bankrupt = false
  | [], w, w', h, hb => by rw [btLoop] at h; cases h; exact hb
  | d :: ds, w, w', h, hb => by
    rw [btLoop] at h
    obtain ⟨w1, h1, h2⟩ := bind_eq_ok h
    exact btDay_not_bankrupt h1 (btLoop_not_bankrupt ds h2 hb)

/-- **one day** of a backtest of a flat blotter-driven strategy that ends unflagged: every position moves by exactly the
    quantities of the rows of that day's window -/
theorem btDay_pos (p : ProgR K) {d : Nat} {w w' : World K} (hf : Flat w)
    (h : btDay cfg (progRunR cfg p []) d w = .ok w') (hb : w'.bankrupt = false) :
    Flat w' ∧ ∀ j, posAt w' j = posAt w j + qsum cfg j (select p.timeline d p.rows) := by
  unfold btDay at h
  obtain ⟨w1, h1, h⟩ := bind_eq_ok h
  split at h
  · rename_i hw1; cases h; rw [hb] at hw1; cases hw1
  · rename_i hw1
    have hb1 : w1.bankrupt = false := by simpa using hw1
    obtain ⟨w3, h3, h4⟩ := bind_eq_ok h
    simp only [progRunR] at h3
    obtain ⟨w2, h2, h3⟩ := bind_eq_ok h3
    have hb3 : w3.bankrupt = false := updRoot_not_bankrupt h4 hb
    obtain ⟨hf1, hp1⟩ := updRoot_pos hf h1 hb1
    obtain ⟨hf2, hp2⟩ := execRows_pos _ hf1 h2
    obtain ⟨hf3, hp3⟩ := updRoot_pos hf2 h3 hb3
    obtain ⟨hf4, hp4⟩ := updRoot_pos hf3 h4 hb
    exact ⟨hf4, fun j => by rw [hp4 j, hp3 j, hp2 j, hp1 j]⟩

/-- **the loop**: the sum over the days -/
theorem btLoop_pos (p : ProgR K) : ∀ (ds : List Nat) {w w' : World K}, Flat w →
    btLoop cfg (progRunR cfg p []) ds w = .ok w' → w'.bankrupt = false →
    Flat w' ∧ ∀ j, posAt w' j = posAt w j + daysSum cfg j p.timeline p.rows ds
  | [], w, w', hf, h, _ => by
    rw [btLoop] at h; cases h
    exact ⟨hf, fun j => by simp [daysSum]⟩
  | d :: ds, w, w', hf, h, hb => by
    rw [btLoop] at h
    obtain ⟨w1, h1, h2⟩ := bind_eq_ok h
    have hb1 : w1.bankrupt = false := btLoop_not_bankrupt ds h2 hb
    obtain ⟨hf1, hp1⟩ := btDay_pos p hf h1 hb1
    obtain ⟨hf2, hp2⟩ := btLoop_pos p ds hf1 h2 hb
    exact ⟨hf2, fun j => by rw [hp2 j, hp1 j, daysSum, add_assoc]⟩

/-- `adjust` on the root: positions and flatness as they were -/
theorem opAdjust_root_pos {w w' : World K} {amount : K} {u fl : Bool} (hf : Flat w)
    (h : opAdjust w [] amount u fl = .ok w') : Flat w' ∧ ∀ j, posAt w' j = posAt w j := by
  obtain ⟨sd, ks, hr, hs⟩ := hf
  simp only [opAdjust, World.modify] at h
  obtain ⟨⟨root', adjs, st⟩, hm, hw'⟩ := map_eq_ok h
  rw [hr] at hm
  simp only [modAt] at hm
  cases hm
  subst hw'
  exact ⟨⟨_, _, rfl, hs⟩, fun j => by simp [posAt, hr]⟩

/-- **the complete backtest**: initial capital, first row, loop -/
theorem btRun_pos (p : ProgR K) {capital : K} {d0 : Nat} {ds : List Nat} {w w' : World K} (hf : Flat w)
    (h : btRun cfg (progRunR cfg p []) capital (d0 :: ds) w = .ok w') (hb : w'.bankrupt = false) :
    Flat w' ∧ ∀ j, posAt w' j = posAt w j + daysSum cfg j p.timeline p.rows ds := by
  simp only [btRun] at h
  obtain ⟨w1, h1, h⟩ := bind_eq_ok h
  obtain ⟨w2, h2, h3⟩ := bind_eq_ok h
  have hb2 : w2.bankrupt = false := btLoop_not_bankrupt ds h3 hb
  obtain ⟨hf1, hp1⟩ := opAdjust_root_pos hf h1
  obtain ⟨hf2, hp2⟩ := updRoot_pos hf1 h2 hb2
  obtain ⟨hf3, hp3⟩ := btLoop_pos p ds hf2 h3 hb
  exact ⟨hf3, fun j => by rw [hp3 j, hp2 j, hp1 j]⟩

/-- **the shadow copy** of a blotter-driven sub-strategy over the clock dates `0 :: ds` (row 0 never again): updated on row 0,
    the loop body on the others - the positions move as in the stand-alone backtest of the definition -/
theorem paperLoop_pos (p : ProgR K) {ds : List Nat} {w w' : World K} (hf : Flat w) (hpos : ∀ d ∈ ds, d ≠ 0)
    (h : paperLoop cfg (progRunR cfg p []) (0 :: ds) w = .ok w') (hb : w'.bankrupt = false) :
    Flat w' ∧ ∀ j, posAt w' j = posAt w j + daysSum cfg j p.timeline p.rows ds := by
  rw [P09.paperLoop_zero_cons cfg _ ds w hpos] at h
  obtain ⟨w2, h2, h3⟩ := bind_eq_ok h
  have hb2 : w2.bankrupt = false := btLoop_not_bankrupt ds h3 hb
  obtain ⟨hf2, hp2⟩ := updRoot_pos hf h2 hb2
  obtain ⟨hf3, hp3⟩ := btLoop_pos p ds hf2 h3 hb
  exact ⟨hf3, fun j => by rw [hp3 j, hp2 j]⟩

end pos

/-! ### the windows of rows `1..n` partition the rows stamped in `(timeline[0], timeline[n]]` -/

section windows
variable {K : Type} [Field K] [LinearOrder K] [IsStrictOrderedRing K] [HasFloor K]
variable {cfg : Cfg K}

theorem qsum_select_cons (j : Nat) (tl : List Int) (d : Nat) (r : Int × BRow K) (rs : List (Int × BRow K)) :
    qsum cfg j (select tl d (r :: rs)) = (if inWindow tl d r.1 = true then rowQ cfg j r else 0) + qsum cfg j (select tl d rs) := by
  unfold select
  rw [List.filter_cons]
  split
  · rfl
  · exact (zero_add _).symm

/-- the sum over the days of what a single row contributes -/
def rowDays (cfg : Cfg K) (j : Nat) (tl : List Int) (r : Int × BRow K) : List Nat → K
  | [] => 0
  | d :: ds => (if inWindow tl d r.1 = true then rowQ cfg j r else 0) + rowDays cfg j tl r ds

theorem daysSum_nil (j : Nat) (tl : List Int) : ∀ ds : List Nat, daysSum cfg j tl ([] : List (Int × BRow K)) ds = 0
  | [] => rfl
  | d :: ds => by rw [daysSum, daysSum_nil j tl ds]; simp [select, qsum]

theorem daysSum_cons (j : Nat) (tl : List Int) (r : Int × BRow K) (rs : List (Int × BRow K)) :
    ∀ ds : List Nat, daysSum cfg j tl (r :: rs) ds = rowDays cfg j tl r ds + daysSum cfg j tl rs ds
  | [] => by simp [daysSum, rowDays]
  | d :: ds => by
    rw [daysSum, daysSum, rowDays, qsum_select_cons, daysSum_cons j tl r rs ds]
    ac_rfl

theorem rowDays_none (j : Nat) (tl : List Int) (r : Int × BRow K) :
    ∀ ds : List Nat, (∀ d ∈ ds, inWindow tl d r.1 = false) → rowDays cfg j tl r ds = 0
  | [], _ => rfl
  | d :: ds, h => by
    rw [rowDays, h d (List.mem_cons_self ..), rowDays_none j tl r ds fun x hx => h x (List.mem_cons_of_mem _ hx)]
    simp

/-- a row picked by exactly one of the (distinct) dates is counted once -/
theorem rowDays_one (j : Nat) (tl : List Int) (r : Int × BRow K) (d0 : Nat) (h0 : inWindow tl d0 r.1 = true) :
    ∀ ds : List Nat, ds.Nodup → d0 ∈ ds → (∀ d ∈ ds, d ≠ d0 → inWindow tl d r.1 = false) →
      rowDays cfg j tl r ds = rowQ cfg j r
  | [], _, hm, _ => by cases hm
  | d :: ds, hnd, hm, hoth => by
    rw [rowDays]
    rw [List.nodup_cons] at hnd
    by_cases hd : d = d0
    · subst hd
      rw [if_pos h0, rowDays_none j tl r ds fun x hx => hoth x (List.mem_cons_of_mem _ hx) (fun e => hnd.1 (e ▸ hx))]
      simp
    · have : d0 ∈ ds := by
        rcases List.mem_cons.1 hm with e | e
        · exact absurd e.symm hd
        · exact e
      rw [hoth d (List.mem_cons_self ..) hd,
        rowDays_one j tl r d0 h0 ds hnd.2 this fun x hx => hoth x (List.mem_cons_of_mem _ hx)]
      simp

theorem inWindow_lt_length {tl : List Int} {i : Nat} {s : Int} (h : inWindow tl i s = true) : i < tl.length := by
  unfold inWindow at h
  cases hi : tl[i]? with
  | none => rw [hi] at h; cases h
  | some a => exact (List.getElem?_eq_some_iff.1 hi).1

theorem inWindow_zero {tl : List Int} {s a : Int} (h0 : tl[0]? = some a) : inWindow tl 0 s = decide (s ≤ a) := by
  unfold inWindow; rw [h0]; simp

/-- on an increasing timeline `a = tl[0] < … < tl[n] = b` (length `n + 1`): the rows of the windows `1..n` are the rows
    stamped in `(a, b]`, each in exactly one window -/
theorem rowDays_range (j : Nat) (tl : List Int) (hs : tl.Pairwise (· < ·)) (n : Nat) (hlen : tl.length = n + 1)
    (a b : Int) (ha : tl[0]? = some a) (hb : tl[n]? = some b) (r : Int × BRow K) :
    rowDays cfg j tl r (List.range' 1 n) = if a < r.1 ∧ r.1 ≤ b then rowQ cfg j r else 0 := by
  by_cases hin : a < r.1 ∧ r.1 ≤ b
  · rw [if_pos hin]
    obtain ⟨d0, h0⟩ := C04.window_covers tl r.1 ⟨b, List.mem_of_getElem? hb, hin.2⟩
    have hd0lt : d0 < n + 1 := hlen ▸ inWindow_lt_length h0
    have hd0pos : d0 ≠ 0 := by
      rintro rfl
      rw [inWindow_zero ha] at h0
      have : r.1 ≤ a := by simpa using h0
      omega
    refine rowDays_one j tl r d0 h0 _ (List.nodup_range' (step := 1) (by omega)) ?_ ?_
    · rw [List.mem_range'_1]; omega
    · intro d _ hne
      rcases Nat.lt_or_gt_of_ne hne with hlt | hgt
      · cases hdw : inWindow tl d r.1 with
        | false => rfl
        | true =>
          have := C04.window_disjoint tl hs d d0 hlt r.1 hdw
          rw [h0] at this; cases this
      · exact C04.window_disjoint tl hs d0 d hgt r.1 h0
  · rw [if_neg hin]
    refine rowDays_none j tl r _ fun d hd => ?_
    rw [List.mem_range'_1] at hd
    cases hdw : inWindow tl d r.1 with
    | false => rfl
    | true =>
      exfalso
      apply hin
      have hdlt : d < tl.length := inWindow_lt_length hdw
      constructor
      · -- not in window 0 (disjoint), so `a < stamp`
        have h0f : inWindow tl 0 r.1 = false := by
          cases h0w : inWindow tl 0 r.1 with
          | false => rfl
          | true =>
            have := C04.window_disjoint tl hs 0 d (by omega) r.1 h0w
            rw [hdw] at this; cases this
        rw [inWindow_zero ha] at h0f
        have : ¬ r.1 ≤ a := by simpa using h0f
        omega
      · -- `stamp ≤ tl[d] ≤ tl[n]`
        have hle := C04.inWindow_le (List.getElem?_eq_getElem hdlt) hdw
        have hnlt : n < tl.length := by omega
        have hbn : b = tl[n] := by
          rw [List.getElem?_eq_getElem hnlt] at hb; exact (Option.some.inj hb).symm
        rcases Nat.lt_or_ge d n with hlt | hge
        · have := List.pairwise_iff_getElem.mp hs d n hdlt hnlt hlt
          omega
        · have : d = n := by omega
          subst this; omega

/-- **each row exactly once**: the sum over the windows of rows `1..n` is the sum over the rows stamped in `(a, b]` -/
theorem daysSum_range (j : Nat) (tl : List Int) (hs : tl.Pairwise (· < ·)) (n : Nat) (hlen : tl.length = n + 1)
    (a b : Int) (ha : tl[0]? = some a) (hb : tl[n]? = some b) :
    ∀ rows : List (Int × BRow K), daysSum cfg j tl rows (List.range' 1 n) =
      qsum cfg j (rows.filter fun r => decide (a < r.1 ∧ r.1 ≤ b))
  | [] => by rw [daysSum_nil]; rfl
  | r :: rs => by
    rw [daysSum_cons, rowDays_range j tl hs n hlen a b ha hb r, daysSum_range j tl hs n hlen a b ha hb rs, List.filter_cons]
    by_cases hin : a < r.1 ∧ r.1 ≤ b
    · rw [if_pos hin, if_pos (by simpa using hin), qsum]
    · rw [if_neg hin, if_neg (by simpa using hin), zero_add]

/-- … if row 0 were called too (what happened to a shadow copy before the repair of `StrategyBase.update`): the rows stamped up to `b` -/
theorem rowDays_range0 (j : Nat) (tl : List Int) (hs : tl.Pairwise (· < ·)) (n : Nat) (hlen : tl.length = n + 1)
    (a b : Int) (ha : tl[0]? = some a) (hb : tl[n]? = some b) (r : Int × BRow K) :
    rowDays cfg j tl r (List.range' 0 (n + 1)) = if r.1 ≤ b then rowQ cfg j r else 0 := by
  have hab : a ≤ b := by
    have h0 : 0 < tl.length := by omega
    have hn : n < tl.length := by omega
    rw [List.getElem?_eq_getElem h0] at ha
    rw [List.getElem?_eq_getElem hn] at hb
    cases ha; cases hb
    rcases Nat.eq_zero_or_pos n with rfl | hpos
    · exact le_refl _
    · exact le_of_lt (List.pairwise_iff_getElem.mp hs 0 n h0 hn hpos)
  rw [List.range'_succ, rowDays, rowDays_range j tl hs n hlen a b ha hb r, inWindow_zero ha]
  by_cases h1 : r.1 ≤ a
  · have h2 : ¬ (a < r.1 ∧ r.1 ≤ b) := by omega
    have h3 : r.1 ≤ b := by omega
    simp [h1, h2, h3]
  · by_cases h3 : r.1 ≤ b
    · have h2 : a < r.1 ∧ r.1 ≤ b := by omega
      simp [h1, h2, h3]
    · have h2 : ¬ (a < r.1 ∧ r.1 ≤ b) := by omega
      simp [h1, h2, h3]

theorem daysSum_range0 (j : Nat) (tl : List Int) (hs : tl.Pairwise (· < ·)) (n : Nat) (hlen : tl.length = n + 1)
    (a b : Int) (ha : tl[0]? = some a) (hb : tl[n]? = some b) :
    ∀ rows : List (Int × BRow K), daysSum cfg j tl rows (List.range' 0 (n + 1)) =
      qsum cfg j (rows.filter fun r => decide (r.1 ≤ b))
  | [] => by rw [daysSum_nil]; rfl
  | r :: rs => by
    rw [daysSum_cons, rowDays_range0 j tl hs n hlen a b ha hb r, daysSum_range0 j tl hs n hlen a b ha hb rs, List.filter_cons]
    by_cases hin : r.1 ≤ b
    · rw [if_pos hin, if_pos (by simpa using hin), qsum]
    · rw [if_neg hin, if_neg (by simpa using hin), zero_add]

/-- the plain sum of the quantities of the rows naming child `j` -/
def plainSum (j : Nat) : List (Int × BRow K) → K
  | [] => 0
  | r :: rs => (if r.2.1 = j then r.2.2.1 else 0) + plainSum j rs

/-- when no quantity is `is_zero`-small (or every such quantity is exactly 0) the effective sum is the plain sum -/
theorem qsum_eq_plainSum (j : Nat) : ∀ rows : List (Int × BRow K),
    (∀ r ∈ rows, isZero cfg.tol r.2.2.1 = true → r.2.2.1 = 0) → qsum cfg j rows = plainSum j rows
  | [], _ => rfl
  | r :: rs, h => by
    rw [qsum, plainSum, qsum_eq_plainSum j rs fun x hx => h x (List.mem_cons_of_mem _ hx)]
    congr 1
    unfold rowQ
    by_cases hj : r.2.1 = j
    · cases hz : isZero cfg.tol r.2.2.1 with
      | false => simp [hj]
      | true => simp [hj, h r (List.mem_cons_self ..) hz]
    · simp [hj]

end windows
end Bt.PProgR
