import Bt.Algos.Stack
/-!
  Helper definitions (specification vocabulary) and lemmas for C13.
  Nothing here is executed by the driver.
-/
namespace Bt.Stack

section Generic
variable {σ : Type}

def Out.state : Out σ → σ
  | .ret _ s => s
  | .raise _ s => s

/-- every algo of the list, called in order starting from `s`, returned True; `s'` is the state reached -/
def AllTrue : List (AlgoFn σ) → σ → σ → Prop
  | [], s, s' => s' = s
  | a :: rest, s, s' => ∃ s1, a.run s = .ret true s1 ∧ AllTrue rest s1 s'

/-- every algo of the list was called, in order, starting from `s`, whatever the earlier ones returned;
    `rs` are the values returned, `s'` the state reached -/
def RunsAll : List (AlgoFn σ) → σ → List Bool → σ → Prop
  | [], s, rs, s' => rs = [] ∧ s' = s
  | a :: rest, s, rs, s' => ∃ r s1 rs', a.run s = .ret r s1 ∧ RunsAll rest s1 rs' s' ∧ rs = r :: rs'

/-- call every algo of the list in order, ignore what they return, hand `b` through -/
def runEach : List (AlgoFn σ) → Bool → σ → Out σ
  | [], b, s => .ret b s
  | a :: rest, b, s =>
    match a.run s with
    | .raise e s1 => .raise e s1
    | .ret _ s1 => runEach rest b s1

/-- The property as one loop, without execution modes: algos are called in order while they return True;
    after the first False exactly the later algos whose `run_always` attribute is true are called, and the
    result is False. -/
def specLoop : List (AlgoFn σ) → σ → Out σ
  | [], s => .ret true s
  | a :: rest, s =>
    match a.run s with
    | .raise e s1 => .raise e s1
    | .ret true s1 => specLoop rest s1
    | .ret false s1 => runEach (rest.filter (fun x => x.ra.on)) false s1

theorem RA.on_has {r : RA} (h : r.on = true) : r.has = true := by
  cases r <;> simp_all [RA.on, RA.has]

theorem alwaysLoop_false (l : List (AlgoFn σ)) (s : σ) :
    alwaysLoop l false s = runEach (l.filter (fun x => x.ra.on)) false s := by
  induction l generalizing s with
  | nil => simp [alwaysLoop, runEach]
  | cons a rest ih =>
    by_cases hon : a.ra.on = true
    · have hhas := RA.on_has hon
      cases h : a.run s with
      | ret r s1 => simp [alwaysLoop, runEach, hon, hhas, h, ih]
      | raise e s1 => simp [alwaysLoop, runEach, hon, hhas, h]
    · by_cases hhas : a.ra.has = true
      · simp [alwaysLoop, hon, hhas, ih]
      · simp [alwaysLoop, hon, hhas, ih]

theorem alwaysLoop_eq_spec (l : List (AlgoFn σ)) (s : σ) : alwaysLoop l true s = specLoop l s := by
  induction l generalizing s with
  | nil => simp [alwaysLoop, specLoop]
  | cons a rest ih =>
    cases h : a.run s with
    | raise e s1 => simp [alwaysLoop, specLoop, h]
    | ret r s1 =>
      cases r with
      | true => simp [alwaysLoop, specLoop, h, ih]
      | false => simp [alwaysLoop, specLoop, h, alwaysLoop_false]

theorem filter_on_nil_of_no_attr (l : List (AlgoFn σ)) (h : ∀ a ∈ l, a.ra.has = false) :
    l.filter (fun x => x.ra.on) = [] := by
  rw [List.filter_eq_nil_iff]
  intro a ha hon
  have := RA.on_has hon
  simp [h a ha] at this

theorem plainLoop_eq_spec (l : List (AlgoFn σ)) (s : σ) (hno : ∀ a ∈ l, a.ra.on = false) :
    plainLoop l s = specLoop l s := by
  induction l generalizing s with
  | nil => simp [plainLoop, specLoop]
  | cons a rest ih =>
    have hrest : ∀ a ∈ rest, a.ra.on = false := fun x hx => hno x (List.mem_cons_of_mem _ hx)
    cases h : a.run s with
    | raise e s1 => simp [plainLoop, specLoop, h]
    | ret r s1 =>
      cases r with
      | true => simp [plainLoop, specLoop, h, ih _ hrest]
      | false =>
        have hf : rest.filter (fun x => x.ra.on) = [] := by
          rw [List.filter_eq_nil_iff]; intro x hx; simp [hrest x hx]
        simp [plainLoop, specLoop, h, hf, runEach]

theorem checkRunAlways_false (l : List (AlgoFn σ)) (h : checkRunAlways l = false) :
    ∀ a ∈ l, a.ra.has = false := by
  intro a ha
  unfold checkRunAlways at h
  rw [List.any_eq_false] at h
  simpa using h a ha

/-- the implementation with its two execution modes is the single specification loop -/
theorem stackCall_eq_spec (l : List (AlgoFn σ)) (s : σ) : stackCall l s = specLoop l s := by
  unfold stackCall
  by_cases hc : checkRunAlways l = true
  · simp [hc, alwaysLoop_eq_spec]
  · have hc' : checkRunAlways l = false := by simpa using hc
    have hno : ∀ a ∈ l, a.ra.on = false := by
      intro a ha
      have := checkRunAlways_false l hc' a ha
      cases hr : a.ra <;> simp_all [RA.on, RA.has]
    simp [hc', plainLoop_eq_spec l s hno]

theorem specLoop_append_true (pre rest : List (AlgoFn σ)) (s s1 : σ) (h : AllTrue pre s s1) :
    specLoop (pre ++ rest) s = specLoop rest s1 := by
  induction pre generalizing s with
  | nil => simp [AllTrue] at h; simp [h]
  | cons a pre ih =>
    obtain ⟨s0, h0, hrest⟩ := h
    simp [specLoop, h0, ih _ hrest]

theorem runEach_ret (l : List (AlgoFn σ)) (b r : Bool) (s s' : σ) (h : runEach l b s = .ret r s') : r = b := by
  induction l generalizing s with
  | nil => simp [runEach] at h; exact h.1.symm
  | cons a rest ih =>
    cases h1 : a.run s with
    | raise e s1 => simp [runEach, h1] at h
    | ret r1 s1 => simp [runEach, h1] at h; exact ih _ h

theorem runEach_iff (l : List (AlgoFn σ)) (b : Bool) (s s' : σ) :
    runEach l b s = .ret b s' ↔ ∃ rs, RunsAll l s rs s' := by
  induction l generalizing s with
  | nil => simp [runEach, RunsAll, eq_comm]
  | cons a rest ih =>
    cases h1 : a.run s with
    | raise e s1 => simp [runEach, RunsAll, h1]
    | ret r1 s1 =>
      simp only [runEach, h1, ih, RunsAll]
      constructor
      · rintro ⟨rs, h⟩
        exact ⟨r1 :: rs, r1, s1, rs, rfl, h, rfl⟩
      · rintro ⟨rs, r, s2, rs', heq, h, _⟩
        cases heq
        exact ⟨rs', h⟩

/-- exhaustive case split of a stack call: all True, or a first algo that returns False or raises -/
theorem stack_cases (l : List (AlgoFn σ)) (s : σ) :
    (∃ s', AllTrue l s s') ∨
    (∃ pre a post s1 s2, l = pre ++ a :: post ∧ AllTrue pre s s1 ∧
      (a.run s1 = .ret false s2 ∨ ∃ e, a.run s1 = .raise e s2)) := by
  induction l generalizing s with
  | nil => left; exact ⟨s, rfl⟩
  | cons a rest ih =>
    cases h : a.run s with
    | raise e s1 => right; exact ⟨[], a, rest, s, s1, rfl, rfl, Or.inr ⟨e, h⟩⟩
    | ret r s1 =>
      cases r with
      | false => right; exact ⟨[], a, rest, s, s1, rfl, rfl, Or.inl h⟩
      | true =>
        rcases ih s1 with ⟨s', hs'⟩ | ⟨pre, b, post, t1, t2, hl, hpre, hb⟩
        · left; exact ⟨s', s1, h, hs'⟩
        · right; exact ⟨a :: pre, b, post, t1, t2, by simp [hl], ⟨s1, h, hpre⟩, hb⟩

theorem AllTrue_unique (l : List (AlgoFn σ)) (s s1 s2 : σ) (h1 : AllTrue l s s1) (h2 : AllTrue l s s2) : s1 = s2 := by
  induction l generalizing s with
  | nil => simp [AllTrue] at h1 h2; rw [h1, h2]
  | cons a rest ih =>
    obtain ⟨t1, ha1, hr1⟩ := h1
    obtain ⟨t2, ha2, hr2⟩ := h2
    rw [ha1] at ha2
    cases ha2
    exact ih _ hr1 hr2

theorem orLoop_spec (l : List (AlgoFn σ)) (acc : Bool) (s s' : σ) (rs : List Bool) (h : RunsAll l s rs s') :
    orLoop l acc s = .ret (acc || rs.any id) s' := by
  induction l generalizing s acc rs with
  | nil => simp [RunsAll] at h; simp [orLoop, h]
  | cons a rest ih =>
    obtain ⟨r, s1, rs', ha, hrest, hrs⟩ := h
    simp [orLoop, ha, ih _ _ _ hrest, hrs, Bool.or_assoc]

theorem orLoop_ret (l : List (AlgoFn σ)) (acc r : Bool) (s s' : σ) (h : orLoop l acc s = .ret r s') :
    ∃ rs, RunsAll l s rs s' ∧ r = (acc || rs.any id) := by
  induction l generalizing s acc with
  | nil => simp [orLoop] at h; exact ⟨[], ⟨rfl, h.2.symm⟩, by simp [h.1]⟩
  | cons a rest ih =>
    cases h1 : a.run s with
    | raise e s1 => simp [orLoop, h1] at h
    | ret r1 s1 =>
      simp [orLoop, h1] at h
      obtain ⟨rs, hrs, hr⟩ := ih _ _ h
      exact ⟨r1 :: rs, ⟨r1, s1, rs, h1, hrs, rfl⟩, by simp [hr, Bool.or_assoc]⟩

theorem orLoop_raise (pre post : List (AlgoFn σ)) (a : AlgoFn σ) (acc : Bool) (s s1 s2 : σ) (rs : List Bool) (e : Err)
    (h : RunsAll pre s rs s1) (ha : a.run s1 = .raise e s2) :
    orLoop (pre ++ a :: post) acc s = .raise e s2 := by
  induction pre generalizing s acc rs with
  | nil => simp [RunsAll] at h; simp [orLoop, h.2 ▸ ha]
  | cons b pre ih =>
    obtain ⟨r, t1, rs', hb, hrest, _⟩ := h
    simp [orLoop, hb, ih _ _ _ hrest]

/-! #### a reflexive-transitive relation kept by every algo is kept by the combinators -/

theorem runEach_rel (R : σ → σ → Prop) (hrefl : ∀ s, R s s) (htrans : ∀ a b c, R a b → R b c → R a c)
    (l : List (AlgoFn σ)) (hl : ∀ a ∈ l, ∀ s, R s (a.run s).state) (b : Bool) (s : σ) :
    R s (runEach l b s).state := by
  induction l generalizing s with
  | nil => simp [runEach, Out.state, hrefl]
  | cons a rest ih =>
    have ha := hl a List.mem_cons_self s
    have hrest : ∀ x ∈ rest, ∀ s, R s (x.run s).state := fun x hx => hl x (List.mem_cons_of_mem _ hx)
    cases h : a.run s with
    | raise e s1 => simp [runEach, h, Out.state] at ha ⊢; exact ha
    | ret r s1 =>
      simp [h, Out.state] at ha
      simp only [runEach, h]
      exact htrans _ _ _ ha (ih hrest s1)

theorem specLoop_rel (R : σ → σ → Prop) (hrefl : ∀ s, R s s) (htrans : ∀ a b c, R a b → R b c → R a c)
    (l : List (AlgoFn σ)) (hl : ∀ a ∈ l, ∀ s, R s (a.run s).state) (s : σ) :
    R s (specLoop l s).state := by
  induction l generalizing s with
  | nil => simp [specLoop, Out.state, hrefl]
  | cons a rest ih =>
    have ha := hl a List.mem_cons_self s
    have hrest : ∀ x ∈ rest, ∀ s, R s (x.run s).state := fun x hx => hl x (List.mem_cons_of_mem _ hx)
    cases h : a.run s with
    | raise e s1 => simp [specLoop, h, Out.state] at ha ⊢; exact ha
    | ret r s1 =>
      simp [h, Out.state] at ha
      cases r with
      | true => simp only [specLoop, h]; exact htrans _ _ _ ha (ih hrest s1)
      | false =>
        simp only [specLoop, h]
        refine htrans _ _ _ ha (runEach_rel R hrefl htrans _ ?_ false s1)
        intro x hx
        exact hrest x (List.mem_filter.mp hx).1

theorem stackCall_rel (R : σ → σ → Prop) (hrefl : ∀ s, R s s) (htrans : ∀ a b c, R a b → R b c → R a c)
    (l : List (AlgoFn σ)) (hl : ∀ a ∈ l, ∀ s, R s (a.run s).state) (s : σ) :
    R s (stackCall l s).state := by
  rw [stackCall_eq_spec]; exact specLoop_rel R hrefl htrans l hl s

theorem orLoop_rel (R : σ → σ → Prop) (hrefl : ∀ s, R s s) (htrans : ∀ a b c, R a b → R b c → R a c)
    (l : List (AlgoFn σ)) (hl : ∀ a ∈ l, ∀ s, R s (a.run s).state) (acc : Bool) (s : σ) :
    R s (orLoop l acc s).state := by
  induction l generalizing s acc with
  | nil => simp [orLoop, Out.state, hrefl]
  | cons a rest ih =>
    have ha := hl a List.mem_cons_self s
    have hrest : ∀ x ∈ rest, ∀ s, R s (x.run s).state := fun x hx => hl x (List.mem_cons_of_mem _ hx)
    cases h : a.run s with
    | raise e s1 => simp [orLoop, h, Out.state] at ha ⊢; exact ha
    | ret r s1 =>
      simp [h, Out.state] at ha
      simp only [orLoop, h]
      exact htrans _ _ _ ha (ih hrest _ s1)

theorem notCall_rel (R : σ → σ → Prop) (a : AlgoFn σ) (ha : ∀ s, R s (a.run s).state) (s : σ) :
    R s (notCall a s).state := by
  have := ha s
  cases h : a.run s with
  | raise e s1 => simp [notCall, h, Out.state] at this ⊢; exact this
  | ret r s1 => simp [notCall, h, Out.state] at this ⊢; exact this

theorem specLoop_true_iff (l : List (AlgoFn σ)) (s s' : σ) : specLoop l s = .ret true s' ↔ AllTrue l s s' := by
  induction l generalizing s with
  | nil => simp [specLoop, AllTrue, eq_comm]
  | cons a rest ih =>
    cases h : a.run s with
    | raise e s1 => simp [specLoop, AllTrue, h]
    | ret r s1 =>
      cases r with
      | true => simp [specLoop, AllTrue, h, ih]
      | false =>
        simp only [specLoop, AllTrue, h]
        constructor
        · intro hr
          have := runEach_ret _ _ _ _ _ hr
          simp at this
        · rintro ⟨s2, h2, _⟩
          simp at h2

theorem plainLoop_true_iff (l : List (AlgoFn σ)) (s s' : σ) : plainLoop l s = .ret true s' ↔ AllTrue l s s' := by
  induction l generalizing s with
  | nil => simp [plainLoop, AllTrue, eq_comm]
  | cons a rest ih =>
    cases h : a.run s with
    | raise e s1 => simp [plainLoop, AllTrue, h]
    | ret r s1 =>
      cases r with
      | true => simp [plainLoop, AllTrue, h, ih]
      | false => simp [plainLoop, AllTrue, h]

end Generic

/-! ### Concrete state: mocks, the log, programs, trees -/

section Concrete
variable {α : Type}

/-- ids of the mocks called, in order -/
def calledIds (log : List (Ev α)) : List Nat :=
  log.filterMap (fun e => match e with | .call _ id _ _ => some id | .visit _ => none)

/-- names of the strategies whose `run` was entered, in order -/
def visitsOf (log : List (Ev α)) : List String :=
  log.filterMap (fun e => match e with | .visit n => some n | .call .. => none)

/-- a scripted mock -/
structure MockSpec (α : Type) where
  ra : RA
  id : Nat
  script : List Bool
  dflt : Bool
  wtemp : List (String × Val α)
  wperm : List (String × Val α)

def MockSpec.toAlgo (m : MockSpec α) : AlgoFn (Tgt α) :=
  ⟨m.ra, mockCall m.id m.script m.dflt m.wtemp m.wperm⟩

/-- what the mock returns when called with `log` recorded so far -/
def MockSpec.next (m : MockSpec α) (log : List (Ev α)) : Bool :=
  scriptAt m.script m.dflt (callsOf m.id log)

/-- The trace the property prescribes for a stack of mocks: the prefix up to and including the first one that
    returns False, followed by exactly the later ones whose `run_always` attribute is true. -/
def expectedCalls (log : List (Ev α)) : List (MockSpec α) → List Nat
  | [] => []
  | m :: rest =>
    if m.next log then m.id :: expectedCalls log rest
    else m.id :: (rest.filter (fun x => x.ra.on)).map (fun x => x.id)

@[simp] theorem calledIds_append (l1 l2 : List (Ev α)) : calledIds (l1 ++ l2) = calledIds l1 ++ calledIds l2 := by
  simp [calledIds]

@[simp] theorem visitsOf_append (l1 l2 : List (Ev α)) : visitsOf (l1 ++ l2) = visitsOf l1 ++ visitsOf l2 := by
  simp [visitsOf]

theorem visitsOf_no_visit (evs : List (Ev α)) (h : ∀ e ∈ evs, e.isVisit = false) : visitsOf evs = [] := by
  induction evs with
  | nil => rfl
  | cons e rest ih =>
    have he := h e List.mem_cons_self
    have hr : ∀ x ∈ rest, x.isVisit = false := fun x hx => h x (List.mem_cons_of_mem _ hx)
    cases e with
    | visit n => simp [Ev.isVisit] at he
    | call s i t p => simpa [visitsOf] using ih hr

theorem callsOf_append_other (id id' : Nat) (h : id' ≠ id) (log : List (Ev α)) (n : String) (t p : Dict α) :
    callsOf id (log ++ [Ev.call n id' t p]) = callsOf id log := by
  simp [callsOf, Ev.isCallOf, h]

theorem MockSpec.run_eq (m : MockSpec α) (tg : Tgt α) :
    m.toAlgo.run tg = .ret (m.next tg.log)
      { tg with log := tg.log ++ [Ev.call tg.name m.id tg.temp tg.perm],
                temp := dsetAll m.wtemp tg.temp, perm := dsetAll m.wperm tg.perm } := rfl

theorem next_append_other (m : MockSpec α) (id' : Nat) (h : id' ≠ m.id) (log : List (Ev α)) (n : String) (t p : Dict α) :
    m.next (log ++ [Ev.call n id' t p]) = m.next log := by
  simp [MockSpec.next, callsOf_append_other _ _ h]

theorem expectedCalls_congr (log1 log2 : List (Ev α)) (l : List (MockSpec α))
    (h : ∀ m ∈ l, m.next log1 = m.next log2) : expectedCalls log1 l = expectedCalls log2 l := by
  induction l with
  | nil => rfl
  | cons m rest ih =>
    have hm := h m List.mem_cons_self
    have hr : ∀ x ∈ rest, x.next log1 = x.next log2 := fun x hx => h x (List.mem_cons_of_mem _ hx)
    simp [expectedCalls, hm, ih hr]

theorem all_congr_mem {β : Type} (l : List β) (f g : β → Bool) (h : ∀ x ∈ l, f x = g x) : l.all f = l.all g := by
  induction l with
  | nil => rfl
  | cons a rest ih =>
    simp [List.all_cons, h a List.mem_cons_self, ih (fun x hx => h x (List.mem_cons_of_mem _ hx))]

theorem any_congr_mem {β : Type} (l : List β) (f g : β → Bool) (h : ∀ x ∈ l, f x = g x) : l.any f = l.any g := by
  induction l with
  | nil => rfl
  | cons a rest ih =>
    simp [List.any_cons, h a List.mem_cons_self, ih (fun x hx => h x (List.mem_cons_of_mem _ hx))]

theorem runEach_mocks (l : List (MockSpec α)) (b : Bool) (tg : Tgt α) :
    ∃ tg', runEach (l.map MockSpec.toAlgo) b tg = .ret b tg' ∧
      calledIds tg'.log = calledIds tg.log ++ l.map (fun x => x.id) := by
  induction l generalizing tg with
  | nil => exact ⟨tg, rfl, by simp⟩
  | cons m rest ih =>
    obtain ⟨tg', h1, h2⟩ := ih { tg with log := tg.log ++ [Ev.call tg.name m.id tg.temp tg.perm],
                                         temp := dsetAll m.wtemp tg.temp, perm := dsetAll m.wperm tg.perm }
    refine ⟨tg', ?_, ?_⟩
    · simp only [List.map_cons, runEach, MockSpec.run_eq]; exact h1
    · rw [h2]; simp [calledIds]

theorem filter_on_map (l : List (MockSpec α)) :
    (l.map MockSpec.toAlgo).filter (fun x => x.ra.on) = (l.filter (fun x => x.ra.on)).map MockSpec.toAlgo := by
  induction l with
  | nil => rfl
  | cons m rest ih =>
    by_cases h : m.ra.on = true
    · simp [MockSpec.toAlgo, h] at ih ⊢; exact ih
    · simp [MockSpec.toAlgo, h] at ih ⊢; exact ih

theorem specLoop_mocks (ms : List (MockSpec α)) (hnd : (ms.map (fun x => x.id)).Nodup) (tg : Tgt α) :
    ∃ tg', specLoop (ms.map MockSpec.toAlgo) tg = .ret (ms.all (fun m => m.next tg.log)) tg' ∧
      calledIds tg'.log = calledIds tg.log ++ expectedCalls tg.log ms := by
  induction ms generalizing tg with
  | nil => exact ⟨tg, rfl, by simp [expectedCalls]⟩
  | cons m rest ih =>
    rw [List.map_cons, List.nodup_cons] at hnd
    obtain ⟨hnot, hnd'⟩ := hnd
    have hne : ∀ x ∈ rest, m.id ≠ x.id := by
      intro x hx heq
      exact hnot (List.mem_map.mpr ⟨x, hx, heq.symm⟩)
    let tg1 : Tgt α := { tg with log := tg.log ++ [Ev.call tg.name m.id tg.temp tg.perm],
                                 temp := dsetAll m.wtemp tg.temp, perm := dsetAll m.wperm tg.perm }
    have hnext : ∀ x ∈ rest, x.next tg1.log = x.next tg.log := fun x hx => next_append_other x m.id (hne x hx) _ _ _ _
    cases hb : m.next tg.log with
    | true =>
      obtain ⟨tg', h1, h2⟩ := ih hnd' tg1
      refine ⟨tg', ?_, ?_⟩
      · simp only [List.map_cons, specLoop, MockSpec.run_eq, hb]
        rw [h1]
        simp only [List.all_cons, hb, Bool.true_and]
        rw [all_congr_mem rest _ _ hnext]
      · rw [h2, expectedCalls_congr _ _ _ hnext]
        simp [expectedCalls, hb, tg1, calledIds]
    | false =>
      obtain ⟨tg', h1, h2⟩ := runEach_mocks (rest.filter (fun x => x.ra.on)) false tg1
      refine ⟨tg', ?_, ?_⟩
      · simp only [List.map_cons, specLoop, MockSpec.run_eq, hb, filter_on_map]
        rw [h1]
        simp [hb]
      · rw [h2]
        simp [expectedCalls, hb, tg1, calledIds]

theorem runsAll_mocks (ms : List (MockSpec α)) (hnd : (ms.map (fun x => x.id)).Nodup) (tg : Tgt α) :
    ∃ tg', RunsAll (ms.map MockSpec.toAlgo) tg (ms.map (fun m => m.next tg.log)) tg' ∧
      calledIds tg'.log = calledIds tg.log ++ ms.map (fun x => x.id) := by
  induction ms generalizing tg with
  | nil => exact ⟨tg, ⟨rfl, rfl⟩, by simp⟩
  | cons m rest ih =>
    rw [List.map_cons, List.nodup_cons] at hnd
    obtain ⟨hnot, hnd'⟩ := hnd
    have hne : ∀ x ∈ rest, m.id ≠ x.id := by
      intro x hx heq
      exact hnot (List.mem_map.mpr ⟨x, hx, heq.symm⟩)
    let tg1 : Tgt α := { tg with log := tg.log ++ [Ev.call tg.name m.id tg.temp tg.perm],
                                 temp := dsetAll m.wtemp tg.temp, perm := dsetAll m.wperm tg.perm }
    have hnext : ∀ x ∈ rest, x.next tg1.log = x.next tg.log := fun x hx => next_append_other x m.id (hne x hx) _ _ _ _
    obtain ⟨tg', h1, h2⟩ := ih hnd' tg1
    refine ⟨tg', ⟨m.next tg.log, tg1, rest.map (fun m => m.next tg.log), MockSpec.run_eq m tg, ?_, by simp⟩, ?_⟩
    · have : rest.map (fun m => m.next tg1.log) = rest.map (fun m => m.next tg.log) :=
        List.map_congr_left hnext
      rw [← this]; exact h1
    · rw [h2]; simp [tg1, calledIds]

end Concrete


/-! ### Programs only ever append call events; trees -/

section Trees
variable {α : Type}

/-- what every algo of the language leaves alone: the target's name and children; the log only grows, and
    never by a `visit` event -/
def Ext (tg tg' : Tgt α) : Prop :=
  tg'.name = tg.name ∧ tg'.kids = tg.kids ∧ ∃ evs, tg'.log = tg.log ++ evs ∧ ∀ e ∈ evs, e.isVisit = false

theorem Ext.refl (tg : Tgt α) : Ext tg tg := ⟨rfl, rfl, [], by simp, by simp⟩

theorem Ext.trans (a b c : Tgt α) (h1 : Ext a b) (h2 : Ext b c) : Ext a c := by
  obtain ⟨n1, k1, e1, l1, v1⟩ := h1
  obtain ⟨n2, k2, e2, l2, v2⟩ := h2
  refine ⟨n2.trans n1, k2.trans k1, e1 ++ e2, by rw [l2, l1, List.append_assoc], ?_⟩
  intro e he
  rcases List.mem_append.mp he with h | h
  · exact v1 e h
  · exact v2 e h

mutual
def preorder : SNode α → List String
  | .sec .. => []
  | .strat d kids => d.name :: preorderL kids
def preorderL : List (SNode α) → List String
  | [] => []
  | k :: ks => preorder k ++ preorderL ks
end

mutual
/-- the same tree with every strategy's temp emptied -/
def clearTemps : SNode α → SNode α
  | .sec n w np => .sec n w np
  | .strat d kids => .strat { d with temp := [] } (clearTempsL kids)
def clearTempsL : List (SNode α) → List (SNode α)
  | [] => []
  | k :: ks => clearTemps k :: clearTempsL ks
end

theorem kid_clearTemps (t : SNode α) : (clearTemps t).kid = t.kid := by
  cases t <;> simp [clearTemps, SNode.kid]

theorem map_kid_clearTempsL (ks : List (SNode α)) : (clearTempsL ks).map SNode.kid = ks.map SNode.kid := by
  induction ks with
  | nil => rfl
  | cons k ks ih => simp [clearTempsL, kid_clearTemps, ih]

variable [Sub α] [Div α] [Neg α] [LT α] [DecidableLT α] [OfNat α 0]

theorem oobCall_ext (tol : α) (tg : Tgt α) : Ext tg (oobCall tol tg).state := by
  unfold oobCall
  cases oobVal tol tg.temp tg.kids <;> exact Ext.refl tg

mutual
theorem Prog.run_ext : (p : Prog α) → ∀ tg, Ext tg (p.run tg).state
  | .mock _ id script dflt wt wp, tg => by
    simp only [Prog.run, mockCall, Out.state]
    exact ⟨rfl, rfl, [Ev.call tg.name id tg.temp tg.perm], rfl, by simp [Ev.isVisit]⟩
  | .stack _ ps, tg => by
    simp only [Prog.run]
    exact stackCall_rel Ext Ext.refl Ext.trans _ (denoteL_ext ps) tg
  | .or _ ps, tg => by
    simp only [Prog.run, orCall]
    exact orLoop_rel Ext Ext.refl Ext.trans _ (denoteL_ext ps) false tg
  | .not _ p, tg => by
    simp only [Prog.run]
    exact notCall_rel Ext _ (Prog.run_ext p) tg
  | .require _ pred item ifNone, tg => by
    simp only [Prog.run, requireCall, Out.state]
    exact Ext.refl tg
  | .oob _ tol, tg => by
    simp only [Prog.run]
    exact oobCall_ext tol tg

theorem denoteL_ext : (ps : List (Prog α)) → ∀ a ∈ denoteL ps, ∀ tg, Ext tg (a.run tg).state
  | [] => by simp [denoteL]
  | p :: ps => by
    intro a ha
    simp only [denoteL, List.mem_cons] at ha
    rcases ha with rfl | ha
    · exact Prog.run_ext p
    · exact denoteL_ext ps a ha
end

theorem denoteL_eq_map (ps : List (Prog α)) : denoteL ps = ps.map Prog.toAlgo := by
  induction ps with
  | nil => rfl
  | cons p ps ih => simp [denoteL, Prog.toAlgo, ih]

/-- log after the own stack of a strategy: the visit, then call events only -/
theorem stack_of_strategy_ext (d : SData α) (kids : List (SNode α)) (log : List (Ev α)) :
    ∃ evs, (stackCall (denoteL d.stack) (freshTgt d kids log)).state.log = log ++ Ev.visit d.name :: evs ∧
      ∀ e ∈ evs, e.isVisit = false := by
  obtain ⟨_, _, evs, hl, hv⟩ := stackCall_rel Ext Ext.refl Ext.trans _ (denoteL_ext d.stack) (freshTgt d kids log)
  exact ⟨evs, by rw [hl]; simp [freshTgt], hv⟩

mutual
theorem runNode_visits : (t : SNode α) → ∀ log t' log', runNode t log = .done t' log' →
    (∃ evs, log' = log ++ evs) ∧ visitsOf log' = visitsOf log ++ preorder t ∧ preorder t' = preorder t
  | .sec n w np, log, t', log', h => by
    simp only [runNode, TOut.done.injEq] at h
    obtain ⟨rfl, rfl⟩ := h
    exact ⟨⟨[], by simp⟩, by simp [preorder], rfl⟩
  | .strat d kids, log, t', log', h => by
    obtain ⟨evs, hl, hv⟩ := stack_of_strategy_ext d kids log
    simp only [runNode] at h
    cases hs : stackCall (denoteL d.stack) (freshTgt d kids log) with
    | raise e tg => simp [hs] at h
    | ret r tg =>
      simp only [hs, Out.state] at h hl
      cases hk : runKids kids tg.log with
      | raise e l => simp [hk] at h
      | done kids' l =>
        simp only [hk, TOut.done.injEq] at h
        obtain ⟨rfl, rfl⟩ := h
        obtain ⟨⟨evs2, he2⟩, hv2, hp2⟩ := runKids_visits kids tg.log kids' l hk
        refine ⟨⟨Ev.visit d.name :: evs ++ evs2, by rw [he2, hl]; simp⟩, ?_, by simp [preorder, hp2]⟩
        rw [hv2, hl]
        have : visitsOf (Ev.visit d.name :: evs) = [d.name] := by
          have := visitsOf_no_visit evs hv
          simp only [visitsOf] at this ⊢
          simp [this]
        simp [this, preorder]

theorem runKids_visits : (ks : List (SNode α)) → ∀ log ks' log', runKids ks log = .done ks' log' →
    (∃ evs, log' = log ++ evs) ∧ visitsOf log' = visitsOf log ++ preorderL ks ∧ preorderL ks' = preorderL ks
  | [], log, ks', log', h => by
    simp only [runKids, TOut.done.injEq] at h
    obtain ⟨rfl, rfl⟩ := h
    exact ⟨⟨[], by simp⟩, by simp [preorderL], rfl⟩
  | k :: ks, log, ks', log', h => by
    simp only [runKids] at h
    cases hk : runNode k log with
    | raise e l => simp [hk] at h
    | done k' l =>
      simp only [hk] at h
      cases hr : runKids ks l with
      | raise e l2 => simp [hr] at h
      | done ks2 l2 =>
        simp only [hr, TOut.done.injEq] at h
        obtain ⟨rfl, rfl⟩ := h
        obtain ⟨⟨e1, he1⟩, hv1, hp1⟩ := runNode_visits k log k' l hk
        obtain ⟨⟨e2, he2⟩, hv2, hp2⟩ := runKids_visits ks l ks2 l2 hr
        refine ⟨⟨e1 ++ e2, by rw [he2, he1]; simp⟩, ?_, by simp [preorderL, hp1, hp2]⟩
        rw [hv2, hv1]; simp [preorderL]
end

mutual
theorem runNode_clearTemps : (t : SNode α) → ∀ log, runNode (clearTemps t) log = runNode t log
  | .sec n w np, log => by simp [clearTemps]
  | .strat d kids, log => by
    have hf : freshTgt { d with temp := [] } (clearTempsL kids) log = freshTgt d kids log := by
      simp [freshTgt, map_kid_clearTempsL]
    simp only [clearTemps, runNode, hf]
    cases stackCall (denoteL d.stack) (freshTgt d kids log) with
    | raise e tg => rfl
    | ret r tg => simp only [runKids_clearTemps kids tg.log]
theorem runKids_clearTemps : (ks : List (SNode α)) → ∀ log, runKids (clearTempsL ks) log = runKids ks log
  | [], log => by simp [clearTempsL]
  | k :: ks, log => by
    simp only [clearTempsL, runKids, runNode_clearTemps k log]
    cases runNode k log with
    | raise e l => rfl
    | done k' l => simp only [runKids_clearTemps ks l]
end

def TOut.logOf {β : Type} : TOut β α → List (Ev α)
  | .done _ l => l
  | .raise _ l => l

def TOut.isDone {β : Type} : TOut β α → Bool
  | .done _ _ => true
  | .raise _ _ => false

theorem TOut.done_of_isDone {β : Type} (o : TOut β α) (h : o.isDone = true) : ∃ t, o = .done t o.logOf := by
  cases o with
  | done t l => exact ⟨t, rfl⟩
  | raise e l => simp [TOut.isDone] at h

end Trees

end Bt.Stack
