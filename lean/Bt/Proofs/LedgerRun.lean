import Bt.Proofs.LedgerNode
/-! C07 (cash ledger), whole runs at a fixed clock: the ledger in path form, the `adjust` call (the only
    operation that changes a balance), runs annotated with their `adjust` calls (`LRun`) and the run law. -/
set_option linter.unusedSectionVars false
namespace Bt.P07
open Bt Bt.P08 Bt.P04

variable {K : Type} [Field K] [LinearOrder K] [IsStrictOrderedRing K] [HasFloor K]

/-! ### addressing by path -/

theorem get?_nil (n : Node K) : n.get? [] = some n := by cases n <;> rfl

theorem get?_cons_sec (s : SecData K) (i : Nat) (rest : List Nat) :
    (Node.sec s).get? (i :: rest) = none := rfl

theorem get?_cons_strat (sd : StratData K) (kids : List (Node K)) (i : Nat) (rest : List Nat) :
    (Node.strat sd kids).get? (i :: rest) = (kids[i]?).bind fun k => k.get? rest := by
  rw [Node.get?]
  cases kids[i]? <;> rfl

theorem nll_getElem? (d : Nat) : ∀ (ks ks' : List (Node K)) (i : Nat) (k : Node K),
    NLL d ks ks' → ks[i]? = some k → ∃ k', ks'[i]? = some k' ∧ NL d k k'
  | [], [], i, k, _, h => by simp at h
  | a :: ks, a' :: ks', 0, k, hn, h => by
    simp only [List.getElem?_cons_zero, Option.some.injEq] at h
    subst h
    simp only [nll_cons] at hn
    exact ⟨a', by simp, hn.1⟩
  | a :: ks, a' :: ks', i + 1, k, hn, h => by
    simp only [List.getElem?_cons_succ] at h ⊢
    simp only [nll_cons] at hn
    exact nll_getElem? d ks ks' i k hn.2 h
  | [], _ :: _, _, _, hn, _ => by simp at hn
  | _ :: _, [], _, _, hn, _ => by simp at hn

/-- `NL` descends to the node at any path -/
theorem nl_get? (d : Nat) : ∀ (p : List Nat) (n n' k : Node K),
    NL d n n' → n.get? p = some k → ∃ k', n'.get? p = some k' ∧ NL d k k'
  | [], n, n', k, h, hk => by
    rw [get?_nil] at hk; cases hk
    exact ⟨n', get?_nil n', h⟩
  | i :: rest, .sec s, n', k, _, hk => by rw [get?_cons_sec] at hk; cases hk
  | i :: rest, .strat sd ks, .sec s', k, h, _ => by simp at h
  | i :: rest, .strat sd ks, .strat sd' ks', k, h, hk => by
    rw [get?_cons_strat] at hk ⊢
    simp only [nl_strat] at h
    cases hc : ks[i]? with
    | none => rw [hc] at hk; cases hk
    | some c =>
      rw [hc] at hk
      obtain ⟨c', hc', hcc⟩ := nll_getElem? d ks ks' i c h.2.2 hc
      rw [hc']
      exact nl_get? d rest c c' k hcc hk

mutual
/-- every security of the tree is tidy -/
def TidyT : Node K → Prop
  | .sec s => Tidy s
  | .strat _ ks => TidyL ks
def TidyL : List (Node K) → Prop
  | [] => True
  | k :: ks => TidyT k ∧ TidyL ks
end

@[simp] theorem tidyT_sec (s : SecData K) : TidyT (.sec s) ↔ Tidy s := by simp [TidyT]
@[simp] theorem tidyT_strat (sd : StratData K) (ks : List (Node K)) : TidyT (.strat sd ks) ↔ TidyL ks := by
  simp [TidyT]
@[simp] theorem tidyL_nil : TidyL ([] : List (Node K)) ↔ True := by simp [TidyL]
@[simp] theorem tidyL_cons (k : Node K) (ks : List (Node K)) : TidyL (k :: ks) ↔ TidyT k ∧ TidyL ks := by
  simp [TidyL]

mutual
theorem nl_tidy (d : Nat) : (n n' : Node K) → NL d n n' → TidyT n → TidyT n'
  | .sec s, .sec s', h, ht => by simp only [nl_sec, tidyT_sec] at *; exact h.2 ht
  | .strat sd ks, .strat sd' ks', h, ht => by
    simp only [nl_strat, tidyT_strat] at *; exact nll_tidy d ks ks' h.2.2 ht
  | .sec _, .strat _ _, h, _ => by simp at h
  | .strat _ _, .sec _, h, _ => by simp at h
theorem nll_tidy (d : Nat) : (ks ks' : List (Node K)) → NLL d ks ks' → TidyL ks → TidyL ks'
  | [], [], _, _ => by simp
  | k :: ks, k' :: ks', h, ht => by
    simp only [nll_cons, tidyL_cons] at *
    exact ⟨nl_tidy d k k' h.1 ht.1, nll_tidy d ks ks' h.2 ht.2⟩
  | [], _ :: _, h, _ => by simp at h
  | _ :: _, [], h, _ => by simp at h
end

theorem tidyL_get : ∀ (ks : List (Node K)) (i : Nat) (k : Node K), TidyL ks → ks[i]? = some k → TidyT k
  | [], i, k, _, h => by simp at h
  | a :: ks, 0, k, ht, h => by
    simp only [List.getElem?_cons_zero, Option.some.injEq] at h
    subst h; simp only [tidyL_cons] at ht; exact ht.1
  | a :: ks, i + 1, k, ht, h => by
    simp only [List.getElem?_cons_succ] at h
    simp only [tidyL_cons] at ht
    exact tidyL_get ks i k ht.2 h

theorem tidyL_set {k' : Node K} (hk : TidyT k') :
    ∀ (ks : List (Node K)) (i : Nat), TidyL ks → TidyL (ks.set i k')
  | [], i, _ => by simp
  | a :: ks, 0, h => by
    simp only [tidyL_cons] at h
    simp only [List.set_cons_zero, tidyL_cons]; exact ⟨hk, h.2⟩
  | a :: ks, i + 1, h => by
    simp only [tidyL_cons] at h
    simp only [List.set_cons_succ, tidyL_cons]; exact ⟨h.1, tidyL_set hk ks i h.2⟩

/-- the ledger of a whole tree in path form: every strategy node keeps its clock and moves its balance of
    date `d` by `δ` of its path; the root's own flows move by `ρ` -/
def LedgerRel (d : Nat) (δ : List Nat → K) (ρ : K) (n n' : Node K) : Prop :=
  (∀ q sd ks, n.get? q = some (.strat sd ks) →
    ∃ sd' ks', n'.get? q = some (.strat sd' ks') ∧ sd'.now = sd.now ∧ bal d sd' ks' = bal d sd ks + δ q) ∧
  kidTerm d n' = kidTerm d n + ρ

theorem NLW.ledgerRel {d : Nat} {n n' : Node K} (h : NLW d n n') : LedgerRel d (fun _ => 0) 0 n n' := by
  refine ⟨fun q sd ks hq => ?_, by rw [h.2, add_zero]⟩
  obtain ⟨k', hk', hnl⟩ := nl_get? d q n n' _ h.1 hq
  cases k' with
  | sec s' => simp at hnl
  | strat sd' ks' =>
    simp only [nl_strat] at hnl
    exact ⟨sd', ks', hk', hnl.1, by rw [hnl.2.1, add_zero]⟩

theorem LedgerRel.trans {d : Nat} {δ δ' : List Nat → K} {ρ ρ' : K} {a b c : Node K}
    (h1 : LedgerRel d δ ρ a b) (h2 : LedgerRel d δ' ρ' b c) :
    LedgerRel d (fun q => δ q + δ' q) (ρ + ρ') a c := by
  refine ⟨fun q sd ks hq => ?_, by rw [h2.2, h1.2]; ring⟩
  obtain ⟨sd1, ks1, g1, n1, b1⟩ := h1.1 q sd ks hq
  obtain ⟨sd2, ks2, g2, n2, b2⟩ := h2.1 q sd1 ks1 g1
  exact ⟨sd2, ks2, g2, n2.trans n1, by rw [b2, b1]; ring⟩

theorem LedgerRel.congr {d : Nat} {δ δ' : List Nat → K} {ρ ρ' : K} {a b : Node K}
    (h : LedgerRel d δ ρ a b) (hδ : ∀ q, δ q = δ' q) (hρ : ρ = ρ') : LedgerRel d δ' ρ' a b := by
  have : δ = δ' := funext hδ
  subst this; subst hρ; exact h

/-! ### `adjust`: the only operation that changes a balance -/

/-- what a direct `adjust(amount, flow)` on the strategy at `target` adds to the balance of the strategy at
    `query`: the amount, if it is a non-flow and `query = target` (a non-flow receipt), or if it is a flow
    and `target` is a child of `query` (the child books a flow its parent did not pay for) -/
def adjInjAt (amount : K) (fl : Bool) : List Nat → List Nat → K
  | [], [] => if fl then 0 else amount
  | [_], [] => if fl then amount else 0
  | _ :: _ :: _, [] => 0
  | [], _ :: _ => 0
  | i :: t, j :: q => if i = j then adjInjAt amount fl t q else 0

/-- what it adds to the flows of the node at the top of the path -/
def headInj (amount : K) (fl : Bool) : List Nat → K
  | [] => if fl then amount else 0
  | _ :: _ => 0

theorem adjInjAt_cons_nil (amount : K) (fl : Bool) (i : Nat) (rest : List Nat) :
    adjInjAt amount fl (i :: rest) [] = headInj amount fl rest := by
  cases rest <;> rfl

theorem adjInjAt_cons_cons (amount : K) (fl : Bool) (i j : Nat) (t q : List Nat) :
    adjInjAt amount fl (i :: t) (j :: q) = if i = j then adjInjAt amount fl t q else 0 := by
  rw [adjInjAt]

/-- `t` addresses a child of the node `q` addresses -/
def childOf : List Nat → List Nat → Bool
  | [_], [] => true
  | i :: t, j :: q => i == j && childOf t q
  | _, _ => false

theorem childOf_iff : ∀ (t q : List Nat), childOf t q = true ↔ ∃ i, t = q ++ [i]
  | [], [] => by simp [childOf]
  | [i], [] => by simp [childOf]
  | i :: j :: t, [] => by simp [childOf]
  | [], j :: q => by simp [childOf]
  | i :: t, j :: q => by
    rw [childOf, Bool.and_eq_true, beq_iff_eq, childOf_iff t q]
    constructor
    · rintro ⟨rfl, k, rfl⟩; exact ⟨k, rfl⟩
    · rintro ⟨k, hk⟩
      simp only [List.cons_append, List.cons.injEq] at hk
      exact ⟨hk.1, k, hk.2⟩

/-- closed form of `adjInjAt` -/
theorem adjInjAt_eq (amount : K) (fl : Bool) : ∀ (t q : List Nat),
    adjInjAt amount fl t q =
      (if fl = false ∧ t = q then amount else 0) + (if fl = true ∧ childOf t q = true then amount else 0)
  | [], [] => by cases fl <;> simp [adjInjAt, childOf]
  | [i], [] => by cases fl <;> simp [adjInjAt, childOf]
  | i :: j :: t, [] => by simp [adjInjAt, childOf]
  | [], j :: q => by simp [adjInjAt, childOf]
  | i :: t, j :: q => by
    rw [adjInjAt_cons_cons, adjInjAt_eq amount fl t q]
    by_cases hij : i = j
    · subst hij; simp [childOf]
    · simp [hij, childOf]

/-- the node-level operation of `opAdjust` -/
def adjF (amount : K) (u fl : Bool) : Option (StratData K) → Node K → Except Err (OpRes K) := fun _ n =>
  match n with
  | .sec _ => throw Err.badPath
  | .strat sd kids => pure (.strat (sd.adjust { amount := amount, fee := 0, flow := fl }) kids, [], u)

theorem opAdjust_eq (w : World K) (path : List Nat) (amount : K) (u fl : Bool) :
    opAdjust w path amount u fl = w.modify path (adjF amount u fl) := rfl

theorem goodL_set (d : Nat) {k' : Node K} (hk : Good d k') :
    ∀ (ks : List (Node K)) (i : Nat), GoodL d ks → GoodL d (ks.set i k')
  | [], i, _ => by simp
  | a :: ks, 0, h => by
    simp only [goodL_cons] at h
    simp only [List.set_cons_zero, goodL_cons]; exact ⟨hk, h.2⟩
  | a :: ks, i + 1, h => by
    simp only [goodL_cons] at h
    simp only [List.set_cons_succ, goodL_cons]; exact ⟨h.1, goodL_set d hk ks i h.2⟩

theorem modAt_adjust (d : Nat) (amount : K) (u fl : Bool) :
    ∀ (path : List Nat) (par : Option (StratData K)) (n : Node K) (r : OpRes K),
      modAt (adjF amount u fl) path par n = .ok r →
      r.2.1 = [] ∧ LedgerRel d (adjInjAt amount fl path) (headInj amount fl path) n r.1 ∧
        (Good d n → Good d r.1) ∧ ((∃ sd ks, n = .strat sd ks) → ∃ sd ks, r.1 = .strat sd ks) ∧
        (TidyT n → TidyT r.1)
  | [], par, .sec s, r, h => by rw [modAt.eq_1] at h; cases h
  | [], par, .strat sd kids, r, h => by
    rw [modAt.eq_1] at h
    cases h
    refine ⟨rfl, ⟨fun q sd0 ks0 hq => ?_, ?_⟩, fun hg => ?_, fun _ => ⟨_, _, rfl⟩, fun ht => ht⟩
    · cases q with
      | nil =>
        rw [get?_nil] at hq
        simp only [Option.some.injEq, Node.strat.injEq] at hq
        obtain ⟨rfl, rfl⟩ := hq
        refine ⟨_, _, get?_nil _, rfl, ?_⟩
        cases fl <;> simp [bal, StratData.adjust, adjInjAt] <;> ring
      | cons j q' =>
        rw [get?_cons_strat] at hq
        exact ⟨sd0, ks0, by rw [get?_cons_strat]; exact hq, rfl, by simp [adjInjAt]⟩
    · cases fl <;> simp [kidTerm, StratData.adjust, headInj]
    · simp only [good_strat] at hg ⊢; exact hg
  | i :: rest, par, .sec s, r, h => by rw [modAt.eq_2] at h; cases h
  | i :: rest, par, .strat sd kids, r, h => by
    rw [modAt.eq_3] at h
    split at h
    · cases h
    · rename_i k hk
      obtain ⟨⟨k', adjs, st⟩, hm, rfl⟩ := map_eq_ok h
      obtain ⟨ha, hl, hgd, _, htd⟩ := modAt_adjust d amount u fl rest (some sd) k _ hm
      simp only at ha hl hgd htd
      subst ha
      simp only [List.foldl_nil]
      refine ⟨by first | rfl | trivial, ⟨fun q sd0 ks0 hq => ?_, ?_⟩, fun hg => ?_, fun _ => ⟨_, _, rfl⟩,
        fun ht => ?_⟩
      · cases q with
        | nil =>
          rw [get?_nil] at hq
          simp only [Option.some.injEq, Node.strat.injEq] at hq
          obtain ⟨rfl, rfl⟩ := hq
          refine ⟨_, _, get?_nil _, rfl, ?_⟩
          rw [bal_eq, bal_eq, kidsT_set d kids i hk, hl.2, adjInjAt_cons_nil]; ring
        | cons j q' =>
          rw [get?_cons_strat] at hq
          rw [adjInjAt_cons_cons]
          by_cases hij : i = j
          · subst hij
            rw [hk] at hq
            obtain ⟨sd', ks', g, hn, hb⟩ := hl.1 q' sd0 ks0 hq
            refine ⟨sd', ks', ?_, hn, by simpa using hb⟩
            rw [get?_cons_strat]
            have hlt : i < kids.length := by
              by_contra hc
              rw [List.getElem?_eq_none (Nat.le_of_not_lt hc)] at hk; cases hk
            rw [List.getElem?_set_self hlt]; exact g
          · refine ⟨sd0, ks0, ?_, rfl, by simp [hij]⟩
            rw [get?_cons_strat, List.getElem?_set_ne hij]; exact hq
      · simp [kidTerm, headInj]
      · simp only [good_strat] at hg ⊢
        exact ⟨hg.1, goodL_set d (hgd (goodL_get d kids i k hg.2 hk)) kids i hg.2⟩
      · simp only [tidyT_strat] at ht ⊢
        exact tidyL_set (htd (tidyL_get kids i k ht hk)) kids i ht

/-- **`adjust(amount, flow)` on the strategy at `path`**: the balance of that node moves by `amount` if it
    is a non-flow (a flow moves cash and flows together), the balance of its parent by `amount` if it is a
    flow, no other balance moves; the root's flows move only if the root itself is addressed -/
theorem opAdjust_ledger (d : Nat) {w w' : World K} {path : List Nat} {amount : K} {u fl : Bool}
    (h : opAdjust w path amount u fl = .ok w') :
    LedgerRel d (adjInjAt amount fl path) (headInj amount fl path) w.root w'.root ∧
      (GoodR d w.root → GoodR d w'.root) ∧ (TidyT w.root → TidyT w'.root) := by
  rw [opAdjust_eq] at h
  unfold World.modify at h
  obtain ⟨⟨r, adjs, st⟩, hm, rfl⟩ := map_eq_ok h
  obtain ⟨_, hl, hg, hs, ht⟩ := modAt_adjust d amount u fl path none w.root _ hm
  exact ⟨hl, fun hgr => ⟨hg hgr.1, hs hgr.2⟩, ht⟩

/-! ### runs at a fixed clock, annotated with their `adjust` calls -/

/-- one `adjust` call of a run -/
structure AdjCall (K : Type) where
  path : List Nat
  amount : K
  flow : Bool

/-- one call of the public API at clock `d` (an explicit `root.update` only for date `d`), with the
    `adjust` call it makes (none for every other operation) -/
inductive LStep (cfg : Cfg K) (d : Nat) : World K → List (AdjCall K) → World K → Prop
  | update {w w'} : updRoot cfg d w = .ok w' → LStep cfg d w [] w'
  | adjust {w w'} (path : List Nat) (amount : K) (u fl : Bool) :
      opAdjust w path amount u fl = .ok w' → LStep cfg d w [⟨path, amount, fl⟩] w'
  | allocate {w w'} (path : List Nat) (amount : K) (u : Bool) :
      opAllocate cfg w path amount u = .ok w' → LStep cfg d w [] w'
  | transact {w w'} (path : List Nat) (q : K) (u : Bool) (custom : Option K) :
      opTransact cfg w path q u custom = .ok w' → LStep cfg d w [] w'
  | flatten {w w'} (path : List Nat) : opFlatten cfg w path = .ok w' → LStep cfg d w [] w'
  | close {w w'} (path : List Nat) (child : Nat) (u : Bool) :
      opClose cfg w path child u = .ok w' → LStep cfg d w [] w'
  | rebalance {w w'} (path : List Nat) (weight : K) (child : Nat) (base : Option K) (u : Bool) :
      opRebalance cfg w path weight child base u = .ok w' → LStep cfg d w [] w'
  | read {w w'} (path : List Nat) (g : Getter) : opRead cfg w path g = .ok w' → LStep cfg d w [] w'

/-- any finite sequence of such calls, with the list of its `adjust` calls in order -/
inductive LRun (cfg : Cfg K) (d : Nat) : World K → List (AdjCall K) → World K → Prop
  | nil (w) : LRun cfg d w [] w
  | cons {w w' w'' T T'} : LStep cfg d w T w' → LRun cfg d w' T' w'' → LRun cfg d w (T ++ T') w''

section runs
variable {cfg : Cfg K} {d : Nat}

theorem LStep.toC {w w' : World K} {T : List (AdjCall K)} (h : LStep cfg d w T w') :
    StepC cfg (· = d) w w' := by
  cases h with
  | update h => exact .update d rfl h
  | adjust p a u f h => exact .adjust p a u f h
  | allocate p a u h => exact .allocate p a u h
  | transact p q u c h => exact .transact p q u c h
  | flatten p h => exact .flatten p h
  | close p c u h => exact .close p c u h
  | rebalance p wt c b u h => exact .rebalance p wt c b u h
  | read p g h => exact .read p g h

theorem LStep.ofC {w w' : World K} (h : StepC cfg (· = d) w w') : ∃ T, LStep cfg d w T w' := by
  cases h with
  | update d' hd h => cases hd; exact ⟨_, .update h⟩
  | adjust p a u f h => exact ⟨_, .adjust p a u f h⟩
  | allocate p a u h => exact ⟨_, .allocate p a u h⟩
  | transact p q u c h => exact ⟨_, .transact p q u c h⟩
  | flatten p h => exact ⟨_, .flatten p h⟩
  | close p c u h => exact ⟨_, .close p c u h⟩
  | rebalance p wt c b u h => exact ⟨_, .rebalance p wt c b u h⟩
  | read p g h => exact ⟨_, .read p g h⟩

theorem LRun.toC {w w' : World K} {T : List (AdjCall K)} (h : LRun cfg d w T w') :
    RunC cfg (· = d) w w' := by
  induction h with
  | nil w => exact .nil w
  | cons hs _ ih => exact .cons hs.toC ih

theorem LRun.ofC {w w' : World K} (h : RunC cfg (· = d) w w') : ∃ T, LRun cfg d w T w' := by
  induction h with
  | nil w => exact ⟨[], .nil w⟩
  | cons hs _ ih =>
    obtain ⟨T, hT⟩ := LStep.ofC hs
    obtain ⟨T', hT'⟩ := ih
    exact ⟨T ++ T', .cons hT hT'⟩

/-- a run at clock `d` is a `P08.Run` -/
theorem LRun.toPublic {w w' : World K} {T : List (AdjCall K)} (h : LRun cfg d w T w') : Run cfg w w' :=
  h.toC.toPublic

/-- what the `adjust` calls `T` add to the balance of the strategy at `q` -/
def injSum (T : List (AdjCall K)) (q : List Nat) : K :=
  (T.map fun c => adjInjAt c.amount c.flow c.path q).sum

/-- the flow adjustments of `T` made directly on the root -/
def rootFlowIn (T : List (AdjCall K)) : K := (T.map fun c => headInj c.amount c.flow c.path).sum

theorem injSum_nil (q : List Nat) : injSum ([] : List (AdjCall K)) q = 0 := rfl
theorem injSum_append (T T' : List (AdjCall K)) (q : List Nat) :
    injSum (T ++ T') q = injSum T q + injSum T' q := by simp [injSum]
theorem rootFlowIn_nil : rootFlowIn ([] : List (AdjCall K)) = 0 := rfl
theorem rootFlowIn_append (T T' : List (AdjCall K)) :
    rootFlowIn (T ++ T') = rootFlowIn T + rootFlowIn T' := by simp [rootFlowIn]

/-- **the ledger law of one public step** at clock `d` -/
theorem LStep.ledger {w w' : World K} {T : List (AdjCall K)} (hg : GoodR d w.root)
    (h : LStep cfg d w T w') :
    LedgerRel d (injSum T) (rootFlowIn T) w.root w'.root ∧ GoodR d w'.root ∧
      (TidyT w.root → TidyT w'.root) := by
  have key : ∀ {w w' : World K}, GoodR d w.root → NLW d w.root w'.root →
      LedgerRel d (injSum ([] : List (AdjCall K))) (rootFlowIn ([] : List (AdjCall K))) w.root w'.root ∧
        GoodR d w'.root ∧ (TidyT w.root → TidyT w'.root) :=
    fun hg hn => ⟨hn.ledgerRel.congr (fun _ => rfl) rfl, hn.goodR hg, nl_tidy d _ _ hn.1⟩
  cases h with
  | update h => exact key hg (updRoot_nlw hg.1 h)
  | adjust p a u f h =>
    obtain ⟨h1, h2, h3⟩ := opAdjust_ledger d h
    exact ⟨h1.congr (fun q => by simp [injSum]) (by simp [rootFlowIn]), h2 hg, h3⟩
  | allocate p a u h => exact key hg (opAllocate_nlw hg h)
  | transact p q u c h => exact key hg (opTransact_nlw hg h)
  | flatten p h => exact key hg (opFlatten_nlw hg h)
  | close p c u h => exact key hg (opClose_nlw hg h)
  | rebalance p wt c b u h => exact key hg (opRebalance_nlw hg h)
  | read p g h => exact key hg (opRead_nlw hg h)

/-- **the ledger law of a run** at clock `d` -/
theorem LRun.ledger {w w' : World K} {T : List (AdjCall K)} (hg : GoodR d w.root)
    (h : LRun cfg d w T w') :
    LedgerRel d (injSum T) (rootFlowIn T) w.root w'.root ∧ GoodR d w'.root ∧
      (TidyT w.root → TidyT w'.root) := by
  induction h with
  | nil w =>
    exact ⟨(NLW.refl d w.root).ledgerRel.congr (fun _ => rfl) rfl, hg, id⟩
  | cons hs _ ih =>
    obtain ⟨h1, g1, t1⟩ := hs.ledger hg
    obtain ⟨h2, g2, t2⟩ := ih g1
    exact ⟨(h1.trans h2).congr (fun q => (injSum_append _ _ q).symm) (rootFlowIn_append _ _).symm, g2,
      fun ht => t2 (t1 ht)⟩

end runs

end Bt.P07
