import Bt.Proofs.RebalanceJobSpec
import Bt.Proofs.FixedIncome
import Bt.Props.C05
/-! C06 with costs / at any path, part 3 (helpers of `Bt.Props.C06_costs`): what one child job does to a
    security with commission and bid/offer spread (any sizing exit), the closing update of the strategy found at
    a path, and the assembled statement for a strategy whose children are securities. -/
set_option linter.unusedSectionVars false
namespace Bt.P06
open Bt Bt.Rebal

variable {K : Type} [Field K] [LinearOrder K] [IsStrictOrderedRing K] [HasFloor K]

/-! ### a security `allocate` reaches without a refresh -/

/-- a plain security that stands on date `d`, whose position did not move since its last update, priced, whose
    value is the mark of its position; whole or fractional units, any spread -/
structure RSec (d : Nat) (s : SecData K) : Prop where
  kind : s.kind = .plain
  now : s.now = some d
  last : s.lastPos = s.position
  price : s.price = some (px s)
  val : s.value = s.position * px s * s.mult
  flat : s.needupdate = false → s.position = 0

theorem RSec.refresh {d : Nat} {s : SecData K} (cfg : Cfg K) (h : RSec d s) :
    secRefresh cfg (some d) s = .ok s := by
  unfold secRefresh
  split
  · exact secUpdate_early cfg d s h.kind h.now h.last
  · rfl

theorem RSec.ready {d : Nat} {s : SecData K} (h : RSec d s) : UpdReady d s :=
  ⟨h.kind, h.now, h.price, fun hh => ⟨h.flat hh, by rw [h.val, h.flat hh]; ring⟩, fun _ => h.val⟩

theorem NiceSec.rsec {cfg : Cfg K} {d : Nat} {s : SecData K} (h : NiceSec cfg d s) : RSec d s :=
  ⟨h.kind, h.now, h.last, h.price, h.val, h.flat⟩

/-- the spread of the date (0 when missing) -/
def boOf (s : SecData K) : K := s.bidoffer.getD 0

/-- half the spread paid on a trade of `q` -/
def spreadOf (cfg : Cfg K) (s : SecData K) (q : K) : K := |q| * cfg.half * boOf s * s.mult

/-- the commission booked for effectively trading `q` (nothing is booked when nothing is traded) -/
def feeOf (comm : K → K → K) (s : SecData K) (q : K) : K := if q = 0 then 0 else comm q (px s * s.mult)

/-- the cost booked for effectively trading `q`: half-spread + commission -/
def costOf (cfg : Cfg K) (comm : K → K → K) (s : SecData K) (q : K) : K := spreadOf cfg s q + feeOf comm s q

/-- the full outlay `outlay(q)[0]` the sizing search of `allocate` looks at -/
def outF (cfg : Cfg K) (comm : K → K → K) (s : SecData K) (q : K) : K :=
  Alloc.fullOutF cfg comm s (px s) (boOf s) q

theorem costOf_zero (cfg : Cfg K) (comm : K → K → K) (s : SecData K) : costOf cfg comm s 0 = 0 := by
  simp [costOf, spreadOf, feeOf]

theorem outF_eq (cfg : Cfg K) (comm : K → K → K) (s : SecData K) (q : K) (hq : q ≠ 0) :
    outF cfg comm s q = q * px s * s.mult + costOf cfg comm s q := by
  simp only [outF, Alloc.fullOutF, costOf, spreadOf, feeOf, hq, ↓reduceIte, Alloc.absA_eq_abs]
  ring

/-- how `allocate(a)` sized the quantity `q` it effectively traded on `s`, with `oq` what `allocQuantity`
    returned: nothing traded (no quantity, or a negligible one `transact` drops); or `q` is the quantity returned
    and it is the unchecked `q == −position` skip, or its outlay is `isclose` to the amount, or (whole units) the
    outlay brackets the amount between `q` and `q + 1` -/
def Sized (cfg : Cfg K) (comm : K → K → K) (s : SecData K) (a q : K) : Prop :=
  ∃ oq, allocQuantity cfg comm s a = .ok oq ∧
    ((q = 0 ∧ (oq = none ∨ ∃ q0, oq = some q0 ∧ isZero cfg.tol q0 = true)) ∨
     (isZero cfg.tol q = false ∧ oq = some q ∧
      ((q = -s.position ∧ allocQ0 cfg s (px s) a = -s.position) ∨
       |outF cfg comm s q - a| ≤ cfg.atol + cfg.tol * |a| ∨
       (s.integer = true ∧ outF cfg comm s q < a ∧ a < outF cfg comm s (q + 1)))))

/-- the security after effectively trading `q` on date `d`, before the next update -/
structure Moved (cfg : Cfg K) (d : Nat) (s t : SecData K) (q : K) : Prop where
  pos : t.position = s.position + q
  px : px t = px s
  mult : t.mult = s.mult
  bop : t.bidofferPaid = s.bidofferPaid + spreadOf cfg s q
  ready : UpdReady d t

theorem Moved.refl (cfg : Cfg K) {d : Nat} {s : SecData K} (h : RSec d s) : Moved cfg d s s 0 :=
  ⟨by rw [add_zero], rfl, rfl, by simp [spreadOf], h.ready⟩

/-- One `allocate(a)` pushed into a security that needs no refresh, with any commission function and spread,
    whole or fractional units, when it does not raise: the quantity `q` effectively traded (`0`: nothing) was
    sized as `Sized` says, the position moved by `q`, the spread paid grew by `½·spread·|q|·mult`, and the
    parent is debited `q·price·mult + half-spread + commission` and books the commission. -/
theorem secStep_spec (cfg : Cfg K) (d : Nat) (comm : K → K → K) (s : SecData K) (a : K) (k' : Node K)
    (adjs : List (Adj K)) (htol : 0 < cfg.tol) (hr : RSec d s)
    (h : allocNode cfg (some d) comm a (.sec s) = .ok (k', adjs)) :
    ∃ t q, k' = .sec t ∧ Sized cfg comm s a q ∧ Moved cfg d s t q ∧
      adjAmounts adjs = -(q * px s * s.mult + costOf cfg comm s q) ∧ adjFees adjs = feeOf comm s q := by
  rw [allocNode] at h
  obtain ⟨⟨s', oa⟩, h1, h2⟩ := Except.map_ok h
  simp only [Prod.mk.injEq] at h2
  obtain ⟨rfl, rfl⟩ := h2
  have hnone : ∀ oq, allocQuantity cfg comm s a = .ok oq →
      (oq = none ∨ ∃ q0, oq = some q0 ∧ isZero cfg.tol q0 = true) →
      ∃ t q, Node.sec s = .sec t ∧ Sized cfg comm s a q ∧ Moved cfg d s t q ∧
      adjAmounts (none : Option (Adj K)).toList = -(q * px s * s.mult + costOf cfg comm s q) ∧
      adjFees (none : Option (Adj K)).toList = feeOf comm s q :=
    fun oq h1 h2 => ⟨s, 0, rfl, ⟨oq, h1, Or.inl ⟨rfl, h2⟩⟩, Moved.refl cfg hr, by simp [costOf_zero],
      by simp [feeOf]⟩
  obtain ⟨s1, hrf, hcase⟩ := secAllocate_cases h1
  rw [hr.refresh cfg] at hrf
  cases hrf
  rcases hcase with ⟨hq, rfl, rfl⟩ | ⟨q, hq, ht⟩
  · exact hnone none hq (Or.inl rfl)
  · rcases _root_.Bt.secTransactCore_ok ht with ⟨hqz, rfl, rfl⟩ | ⟨hqz, full, outlay, fee, bo, ho, rfl, rfl⟩
    · exact hnone (some q) hq (Or.inr ⟨q, rfl, hqz⟩)
    · obtain ⟨p, b, hp, hb, hre⟩ := secOutlay_none_ok ho
      rw [hr.price] at hp
      cases hp
      simp only [Prod.mk.injEq] at hre
      obtain ⟨rfl, rfl, rfl, rfl⟩ := hre
      have hq0 : q ≠ 0 := ne_zero_of_isZero_false htol hqz
      have hbo : boOf s = b := by simp [boOf, hb]
      have hfo : ∀ x, Alloc.fullOut cfg comm s x = .ok (outF cfg comm s x) := by
        intro x
        rw [Alloc.fullOut_eq cfg comm s (px s) b hr.price hb x, outF, hbo]
      refine ⟨_, q, rfl, ?_, ⟨rfl, rfl, rfl, by simp only [spreadOf, hbo], ?_⟩, ?_, ?_⟩
      · refine ⟨some q, hq, Or.inr ⟨hqz, rfl, ?_⟩⟩
        rcases C05.alloc_exit_char cfg comm s a q hq with ⟨p', hp', e1, e2⟩ | ⟨full', hf, hx⟩
        · rw [hr.price] at hp'
          cases hp'
          exact Or.inl ⟨e2, e1⟩
        · rw [hfo] at hf
          cases hf
          rcases hx with hx | hx | ⟨hi, hlt, more, hm, hgt⟩
          · exact Or.inr (Or.inl ((Alloc.isClose_iff _ _ _ _).1 hx))
          · exact absurd hx hq0
          · rw [hfo] at hm
            cases hm
            exact Or.inr (Or.inr ⟨hi, hlt, hgt⟩)
      · refine ⟨hr.kind, hr.now, hr.price, fun hh => (by cases hh), fun hl => ?_⟩
        exfalso
        apply hq0
        have : s.lastPos = s.position + q := hl
        rw [hr.last] at this
        linarith
      · simp only [Option.toList, adjAmounts_cons, adjAmounts_nil, add_zero, costOf, spreadOf, feeOf, hq0,
          ↓reduceIte, hbo]
        ring
      · simp only [Option.toList, adjFees_cons, adjFees_nil, add_zero, feeOf, hq0, ↓reduceIte]

/-! ### the closing update of a strategy whose children are securities -/

theorem secUpdate_bop (cfg : Cfg K) (d : Nat) (s t : SecData K) (hn : s.now = some d)
    (h : secUpdate cfg d s = .ok t) : t.bidofferPaid = s.bidofferPaid :=
  (secUpdate_core hn h).2.2.2.2.1

/-- the children loop of a same-date `update` over ready securities (as `Rebal.updKids_flat`, also keeping the
    spread paid) -/
theorem updKids_flatC (cfg : Cfg K) (d : Nat) (bo : Bool) :
    ∀ (ss : List (SecData K)) (acc : Acc K), (∀ s ∈ ss, UpdReady d s) →
      ∃ (ss1 : List (SecData K)) (acc1 : Acc K),
        updKids cfg d false bo (ss.map Node.sec) acc = .ok (ss1.map Node.sec, acc1) ∧
        ss1.length = ss.length ∧
        (∀ (i : Nat) (s : SecData K), ss[i]? = some s → ∃ t, ss1[i]? = some t ∧ Marked s t ∧
          t.bidofferPaid = s.bidofferPaid) ∧
        acc1.val = acc.val + worthSum ss ∧ acc1.coupons = acc.coupons
  | [], acc, _ => by
    refine ⟨[], acc, ?_, rfl, ?_, ?_, rfl⟩
    · rw [List.map_nil, updKids]; rfl
    · intro i s h; simp at h
    · simp [worthSum]
  | s :: ss, acc, hr => by
    have hs : UpdReady d s := hr s List.mem_cons_self
    have hrest : ∀ x ∈ ss, UpdReady d x := fun x hx => hr x (List.mem_cons_of_mem _ hx)
    rw [List.map_cons, updKids]
    have hsw : sweepSec false s acc = (s, acc) := by unfold sweepSec; simp
    rw [hsw]
    dsimp only
    by_cases hnu : s.needupdate = true
    · obtain ⟨t, ht, hm⟩ := secUpdate_ready cfg d s hs
      have hb := secUpdate_bop cfg d s t hs.now ht
      obtain ⟨ss1, acc1, h1, h2, h3, h4, h5⟩ := updKids_flatC cfg d bo ss (accAdd bo acc (.sec t)) hrest
      refine ⟨t :: ss1, acc1, ?_, by simp [h2], ?_, ?_, ?_⟩
      · simp only [hnu, Bool.not_true, Bool.false_eq_true, ↓reduceIte, ht, Except.bind, h1, Except.map,
          List.map_cons]
      · intro i x hx
        cases i with
        | zero =>
          simp only [List.getElem?_cons_zero, Option.some.injEq] at hx
          subst hx
          exact ⟨t, by simp, hm, hb⟩
        | succ j =>
          simp only [List.getElem?_cons_succ] at hx ⊢
          exact h3 j x hx
      · rw [h4]
        simp only [accAdd, Node.value, worthSum, List.map_cons, List.sum_cons, worth]
        rw [hm.2.2.2]; ring
      · rw [h5]; rfl
    · have hnu : s.needupdate = false := by simpa using hnu
      obtain ⟨ss1, acc1, h1, h2, h3, h4, h5⟩ := updKids_flatC cfg d bo ss acc hrest
      refine ⟨s :: ss1, acc1, ?_, by simp [h2], ?_, ?_, h5⟩
      · simp only [hnu, Bool.not_false, ↓reduceIte, h1, Except.map, List.map_cons]
      · intro i x hx
        cases i with
        | zero =>
          simp only [List.getElem?_cons_zero, Option.some.injEq] at hx
          subst hx
          refine ⟨s, by simp, ⟨rfl, rfl, rfl, ?_⟩, rfl⟩
          rw [(hs.flat hnu).1, (hs.flat hnu).2]; ring
        | succ j =>
          simp only [List.getElem?_cons_succ] at hx ⊢
          exact h3 j x hx
      · rw [h4]
        simp only [worthSum, List.map_cons, List.sum_cons, worth]
        rw [(hs.flat hnu).1]; ring

/-- `update(d)` (without the root-only bankruptcy step) of a strategy that stands on `d` and whose children are
    ready securities: every child is marked at `position·price·mult` and keeps its spread paid, children that
    are not parked get `value / total` as weight, cash and fees are untouched and the strategy's value is the
    total `cash + Σ position·price·mult` (up to the `TOL` write guard). -/
theorem updNode_flatC (cfg : Cfg K) (d : Nat) (sd : StratData K) (ss : List (SecData K)) (m' : Node K)
    (hnow : sd.now = some d) (hr : ∀ s ∈ ss, UpdReady d s)
    (h : updNode cfg d (.strat sd (ss.map Node.sec)) = .ok m') :
    ∃ (sdF : StratData K) (ssF : List (SecData K)), m' = .strat sdF (ssF.map Node.sec) ∧
      ssF.length = ss.length ∧ sdF.capital = sd.capital ∧ sdF.lastFee = sd.lastFee ∧
      sdF.fixedIncome = sd.fixedIncome ∧
      (sdF.value = sd.capital + worthSum ss ∨
        (sdF.value = sd.value ∧ isZero cfg.tol (sd.value - (sd.capital + worthSum ss)) = true)) ∧
      (∀ (i : Nat) (s : SecData K), ss[i]? = some s → ∃ t, ssF[i]? = some t ∧ Marked s t ∧
        t.bidofferPaid = s.bidofferPaid ∧
        (sd.fixedIncome = false → t.needupdate = true → t.weight =
          if isZero cfg.tol (sd.capital + worthSum ss) then 0 else t.value / (sd.capital + worthSum ss))) := by
  obtain ⟨kids1, acc, sd3, hkids, hw, rfl⟩ := updNode_strat_ok h
  rw [stratDateChange_same d sd hnow] at hkids hw
  obtain ⟨ss1, acc1, h1, h2, h3, h4, h5⟩ := updKids_flatC cfg d sd.bidofferSet ss ⟨sd.capital, 0, 0, 0⟩ hr
  simp only at hkids hw
  rw [h1] at hkids
  simp only [Except.ok.injEq, Prod.mk.injEq] at hkids
  obtain ⟨hk1, hk2⟩ := hkids
  subst hk1 hk2
  simp only at h4 h5
  have hval : acc1.val + acc1.coupons = sd.capital + worthSum ss := by rw [h4, h5]; ring
  rw [hval] at hw ⊢
  have hfi3 : sd3.fixedIncome = sd.fixedIncome := (stratWrite_base hw).2.2.2.2.1
  rw [kidsWeights_flat]
  refine ⟨stratRows d sd3, _, rfl, by simp [h2], ?_, ?_, ?_, ?_, ?_⟩
  · rw [(stratRows_rows d sd3).1, (stratWrite_ledger hw).1]
    show sd.capital + acc1.coupons = _
    rw [h5]; simp
  · rw [(stratRows_rows d sd3).2.1, (stratWrite_ledger hw).2.2.1]
  · rw [(stratRows_base d sd3).2.2.2.2.1, hfi3]
  · rw [stratRows_value_L]
    rcases stratWrite_ok hw with ⟨hc, rfl⟩ | ⟨hc, _⟩
    · right
      refine ⟨rfl, ?_⟩
      unfold stratChanged at hc
      simp only [Bool.false_or, Bool.or_eq_false_iff, Bool.not_eq_eq_eq_not, Bool.not_false] at hc
      exact hc.1
    · left
      exact stratWrite_value hc hw
  · intro i s hs
    obtain ⟨t, ht, hm, hb⟩ := h3 i s hs
    refine ⟨weighSec cfg sd3.fixedIncome (sd.capital + worthSum ss) acc1.notl t, by simp [ht],
      weighSec_marked cfg _ _ _ s t hm, ?_, ?_⟩
    · unfold weighSec; split <;> exact hb
    · intro hfi hnu
      rw [hfi3, hfi] at hnu ⊢
      unfold weighSec at hnu ⊢
      by_cases htn : t.needupdate = true
      · simp only [htn, ↓reduceIte, childWeight, Bool.false_eq_true, Node.value]
        cases isZero cfg.tol (sd.capital + worthSum ss) <;> simp
      · simp only [htn, Bool.false_eq_true, ↓reduceIte] at hnu

/-- The closing `root.update(d)` seen from the strategy at `p` (standing on `d`, ready security children):
    either that strategy was updated as `updNode_flatC` says (its parent then sets its weight) and the world is
    not stale, or the root's bankruptcy step fired (the total the root added up is negative on a market-value
    root that was not bankrupt yet: the whole tree is liquidated instead). -/
theorem updRoot_PW_secs (cfg : Cfg K) (d : Nat) (root : Node K) (p : List Nat) (sd : StratData K)
    (ss : List (SecData K)) (w' : World K) (hv : ∃ x, root.get? p = some x)
    (hnow : sd.now = some d) (hr : ∀ s ∈ ss, UpdReady d s)
    (h : updRoot cfg d (PW root p sd (ss.map Node.sec)) = .ok w') :
    (w'.stale = false ∧ ∃ (sdF : StratData K) (ssF : List (SecData K)),
      w'.root.get? p = some (.strat sdF (ssF.map Node.sec)) ∧
      ssF.length = ss.length ∧ sdF.capital = sd.capital ∧ sdF.lastFee = sd.lastFee ∧
      sdF.fixedIncome = sd.fixedIncome ∧
      (sdF.value = sd.capital + worthSum ss ∨
        (sdF.value = sd.value ∧ isZero cfg.tol (sd.value - (sd.capital + worthSum ss)) = true)) ∧
      (∀ (i : Nat) (s : SecData K), ss[i]? = some s → ∃ t, ssF[i]? = some t ∧ Marked s t ∧
        t.bidofferPaid = s.bidofferPaid ∧
        (sd.fixedIncome = false → t.needupdate = true → t.weight =
          if isZero cfg.tol (sd.capital + worthSum ss) then 0 else t.value / (sd.capital + worthSum ss)))) ∨
    (∃ sdr kidsr, (PW root p sd (ss.map Node.sec)).root = .strat sdr kidsr ∧ sdr.bankrupt = false ∧
      sdr.fixedIncome = false ∧
      ∃ kids1 acc, updKids cfg d (stratDateChange d sdr).2 (stratDateChange d sdr).1.bidofferSet kidsr
        ⟨(stratDateChange d sdr).1.capital, 0, 0, 0⟩ = .ok (kids1, acc) ∧ acc.val + acc.coupons < 0) := by
  have hg := PW_get root p sd (ss.map Node.sec) hv
  obtain ⟨sdr, kidsr, hroot⟩ := strat_of_get? p _ _ _ hg
  rcases updRoot_cases hroot h with ⟨hu, hst⟩ | ⟨hb, hf, kids1, acc, hkids, hneg⟩
  · left
    refine ⟨hst, ?_⟩
    obtain ⟨sd1, kids1, wg, hu1, hg1⟩ := FI.updNode_at_path cfg d p _ _ sd (ss.map Node.sec) hu hg
    obtain ⟨sdF, ssF, e, r2, r3, r4, r5, r6, r7⟩ := updNode_flatC cfg d sd ss _ hnow hr hu1
    have e1 : sd1 = sdF := (Node.strat.inj e).1
    have e2 : kids1 = ssF.map Node.sec := (Node.strat.inj e).2
    rw [e1, e2] at hg1
    exact ⟨{ sdF with weight := wg }, ssF, hg1, r2, r3, r4, r5, r6, r7⟩
  · right
    exact ⟨sdr, kidsr, hroot, hb, hf, kids1, acc, hkids, hneg⟩

end Bt.P06
