import Bt.Proofs.C08RowsWorld
/-! C08: what `Frozen` says in terms of plain data: the list of all row lengths of a tree, and the
    list of all recorded entries at one index. -/
set_option linter.unusedSectionVars false
namespace Bt.P08
open Bt

variable {K : Type} [Field K] [LinearOrder K] [IsStrictOrderedRing K] [HasFloor K]

/-- the recorded row lists of one security / one strategy, in declaration order -/
def secRows (s : SecData K) : List (List K) :=
  [s.rValue, s.rPosition, s.rNotl, s.rOutlay, s.rBidofferPaid, s.rCoupon, s.rHolding]
def stratRowsOf (sd : StratData K) : List (List K) :=
  [sd.rPrice, sd.rValue, sd.rNotl, sd.rCash, sd.rFees, sd.rFlows, sd.rBidofferPaid]

mutual
/-- every recorded row list of the tree (pre-order) -/
def allRows : Node K → List (List K)
  | .sec s => secRows s
  | .strat sd ks => stratRowsOf sd ++ allRowsL ks
def allRowsL : List (Node K) → List (List K)
  | [] => []
  | k :: ks => allRows k ++ allRowsL ks
end

/-- lengths of all recorded rows of the tree -/
def rowLens (n : Node K) : List Nat := (allRows n).map List.length

/-- entries at index `j` of all recorded rows of the tree -/
def rowsAt (j : Nat) (n : Node K) : List (Option K) := (allRows n).map (·[j]?)

mutual
/-- every hedge security's notional row is all zero (what `HedgeSecurity.update` maintains) -/
def HedgeZero : Node K → Prop
  | .sec s => isHedge s.kind = true → ∀ x ∈ s.rNotl, x = 0
  | .strat _ ks => HedgeZeroL ks
def HedgeZeroL : List (Node K) → Prop
  | [] => True
  | k :: ks => HedgeZero k ∧ HedgeZeroL ks
end

mutual
theorem frozen_rowLens {P : Nat → Prop} : (n n' : Node K) → Frozen P n n' →
    (allRows n').map List.length = (allRows n).map List.length
  | .sec s, .sec s', h => by
    simp only [frozen_sec] at h
    simp [allRows, secRows, h.rValue.1, h.rPosition.1, h.rNotl.1, h.rOutlay.1, h.rBidofferPaid.1,
      h.rCoupon.1, h.rHolding.1]
  | .strat sd ks, .strat sd' ks', h => by
    simp only [frozen_strat] at h
    simp only [allRows, List.map_append, frozenL_rowLens ks ks' h.2]
    simp [stratRowsOf, h.1.rPrice.1, h.1.rValue.1, h.1.rNotl.1, h.1.rCash.1, h.1.rFees.1,
      h.1.rFlows.1, h.1.rBidofferPaid.1]
  | .sec _, .strat _ _, h => by simp at h
  | .strat _ _, .sec _, h => by simp at h
theorem frozenL_rowLens {P : Nat → Prop} : (ks ks' : List (Node K)) → FrozenL P ks ks' →
    (allRowsL ks').map List.length = (allRowsL ks).map List.length
  | [], [], _ => rfl
  | k :: ks, k' :: ks', h => by
    simp only [frozenL_cons] at h
    simp only [allRowsL, List.map_append, frozen_rowLens k k' h.1, frozenL_rowLens ks ks' h.2]
  | [], _ :: _, h => by simp at h
  | _ :: _, [], h => by simp at h
end

theorem Frozen.rowLens_eq {P : Nat → Prop} {n n' : Node K} (h : Frozen P n n') :
    rowLens n' = rowLens n := frozen_rowLens n n' h

mutual
theorem frozen_rowsAt {P : Nat → Prop} {j : Nat} (hj : ¬ P j) : (n n' : Node K) → Frozen P n n' →
    HedgeZero n → (allRows n').map (·[j]?) = (allRows n).map (·[j]?)
  | .sec s, .sec s', h, hz => by
    simp only [frozen_sec] at h
    simp only [HedgeZero] at hz
    simp [allRows, secRows, h.rValue.exact (by simp) j hj, h.rPosition.exact (by simp) j hj,
      h.rNotl.exact hz j hj, h.rOutlay.exact (by simp) j hj, h.rBidofferPaid.exact (by simp) j hj,
      h.rCoupon.exact (by simp) j hj, h.rHolding.exact (by simp) j hj]
  | .strat sd ks, .strat sd' ks', h, hz => by
    simp only [frozen_strat] at h
    simp only [HedgeZero] at hz
    simp only [allRows, List.map_append, frozenL_rowsAt hj ks ks' h.2 hz]
    simp [stratRowsOf, h.1.rPrice.exact (by simp) j hj, h.1.rValue.exact (by simp) j hj,
      h.1.rNotl.exact (by simp) j hj, h.1.rCash.exact (by simp) j hj, h.1.rFees.exact (by simp) j hj,
      h.1.rFlows.exact (by simp) j hj, h.1.rBidofferPaid.exact (by simp) j hj]
  | .sec _, .strat _ _, h, _ => by simp at h
  | .strat _ _, .sec _, h, _ => by simp at h
theorem frozenL_rowsAt {P : Nat → Prop} {j : Nat} (hj : ¬ P j) : (ks ks' : List (Node K)) →
    FrozenL P ks ks' → HedgeZeroL ks → (allRowsL ks').map (·[j]?) = (allRowsL ks).map (·[j]?)
  | [], [], _, _ => rfl
  | k :: ks, k' :: ks', h, hz => by
    simp only [frozenL_cons] at h
    simp only [HedgeZeroL] at hz
    simp only [allRowsL, List.map_append, frozen_rowsAt hj k k' h.1 hz.1,
      frozenL_rowsAt hj ks ks' h.2 hz.2]
  | [], _ :: _, h, _ => by simp at h
  | _ :: _, [], h, _ => by simp at h
end

theorem Frozen.rowsAt_eq {P : Nat → Prop} {n n' : Node K} (h : Frozen P n n') (hz : HedgeZero n)
    {j : Nat} (hj : ¬ P j) : rowsAt j n' = rowsAt j n := frozen_rowsAt hj n n' h hz

/-! ### the hedge invariant is maintained by `update` -/

theorem secUpdate_hedgeZero {cfg : Cfg K} {d : Nat} {s s' : SecData K} (h : secUpdate cfg d s = .ok s')
    (hk : isHedge s'.kind = true) : ∀ x ∈ s'.rNotl, x = 0 := by
  have hkind : s'.kind = s.kind := (secUpdate_frozen (P := AllIdx) trivial h).kind
  rw [hkind] at hk
  rw [secUpdate_eq] at h
  obtain ⟨s1, _, ht⟩ := bind_eq_ok h
  cases hs : s.kind with
  | plain => rw [hs] at hk; cases hk
  | fi => rw [hs] at hk; cases hk
  | coupon => rw [hs] at hk; cases hk
  | hedge =>
    rw [hs] at ht; cases ht
    intro x hx
    simp only [secHedgeTail, List.mem_map] at hx
    obtain ⟨_, _, rfl⟩ := hx; rfl
  | couponHedge =>
    rw [hs] at ht
    obtain ⟨s2, _, rfl⟩ := map_eq_ok ht
    intro x hx
    simp only [secHedgeTail, List.mem_map] at hx
    obtain ⟨_, _, rfl⟩ := hx; rfl

theorem hedgeZero_setWeight (w : K) (k : Node K) : HedgeZero (k.setWeight w) ↔ HedgeZero k := by
  cases k <;> simp [Node.setWeight, HedgeZero]

theorem hedgeZeroL_kidsWeights (cfg : Cfg K) (fi : Bool) (v n : K) :
    ∀ ks : List (Node K), HedgeZeroL (kidsWeights cfg fi v n ks) ↔ HedgeZeroL ks
  | [] => by simp [kidsWeights]
  | k :: ks => by
    rw [kidsWeights_cons]
    simp only [HedgeZeroL, hedgeZeroL_kidsWeights cfg fi v n ks]
    split
    · rfl
    · rw [hedgeZero_setWeight]

mutual
theorem updNode_hedgeZero {cfg : Cfg K} {d : Nat} :
    (n : Node K) → ∀ n', updNode cfg d n = .ok n' → HedgeZero n → HedgeZero n'
  | .sec s, n', h, _ => by
    rw [updNode.eq_1] at h
    obtain ⟨s', hs, rfl⟩ := map_eq_ok h
    simp only [HedgeZero]
    exact secUpdate_hedgeZero hs
  | .strat sd kids, n', h, hz => by
    rw [updNode_strat] at h
    obtain ⟨⟨kids1, acc⟩, hk, hf⟩ := bind_eq_ok h
    unfold stratFinish at hf
    obtain ⟨sd3, _, rfl⟩ := map_eq_ok hf
    simp only [HedgeZero] at hz ⊢
    rw [hedgeZeroL_kidsWeights]
    exact updKids_hedgeZero kids _ _ _ _ _ hk hz
theorem updKids_hedgeZero {cfg : Cfg K} {d : Nat} :
    (ks : List (Node K)) → ∀ (newpt bo : Bool) (acc : Acc K) ks' a,
      updKids cfg d newpt bo ks acc = .ok (ks', a) → HedgeZeroL ks → HedgeZeroL ks'
  | [], newpt, bo, acc, ks', a, h, _ => by
    rw [updKids.eq_1] at h; cases h; simp [HedgeZeroL]
  | .sec s :: ks, newpt, bo, acc, ks', a, h, hz => by
    rw [updKids_sec] at h
    simp only [HedgeZeroL, HedgeZero] at hz
    split at h
    · obtain ⟨⟨ks1, a1⟩, hrest, hr⟩ := map_eq_ok h
      cases hr
      simp only [HedgeZeroL, HedgeZero]
      refine ⟨?_, updKids_hedgeZero ks _ _ _ _ _ hrest hz.2⟩
      have e1 : (sweepSec newpt s acc).1.kind = s.kind := by unfold sweepSec; split <;> rfl
      have e2 : (sweepSec newpt s acc).1.rNotl = s.rNotl := by unfold sweepSec; split <;> rfl
      rw [e1, e2]; exact hz.1
    · obtain ⟨s1, hs1, h⟩ := bind_eq_ok h
      obtain ⟨⟨ks1, a1⟩, hrest, hr⟩ := map_eq_ok h
      cases hr
      simp only [HedgeZeroL, HedgeZero]
      exact ⟨secUpdate_hedgeZero hs1, updKids_hedgeZero ks _ _ _ _ _ hrest hz.2⟩
  | .strat sd kk :: ks, newpt, bo, acc, ks', a, h, hz => by
    rw [updKids_strat] at h
    obtain ⟨k1, hk1, h⟩ := bind_eq_ok h
    obtain ⟨⟨ks1, a1⟩, hrest, hr⟩ := map_eq_ok h
    cases hr
    simp only [HedgeZeroL] at hz ⊢
    exact ⟨updNode_hedgeZero (.strat sd kk) _ hk1 hz.1, updKids_hedgeZero ks _ _ _ _ _ hrest hz.2⟩
end

/-! ### any sequence of public operations -/

/-- one call of the public API on a world (every operation of `Bt.Engine.Ops`, `root.update` included) -/
inductive PublicStep (cfg : Cfg K) : World K → World K → Prop
  | update {w w'} (d : Nat) : updRoot cfg d w = .ok w' → PublicStep cfg w w'
  | adjust {w w'} (path : List Nat) (amount : K) (u fl : Bool) :
      opAdjust w path amount u fl = .ok w' → PublicStep cfg w w'
  | allocate {w w'} (path : List Nat) (amount : K) (u : Bool) :
      opAllocate cfg w path amount u = .ok w' → PublicStep cfg w w'
  | transact {w w'} (path : List Nat) (q : K) (u : Bool) (custom : Option K) :
      opTransact cfg w path q u custom = .ok w' → PublicStep cfg w w'
  | flatten {w w'} (path : List Nat) : opFlatten cfg w path = .ok w' → PublicStep cfg w w'
  | close {w w'} (path : List Nat) (child : Nat) (u : Bool) :
      opClose cfg w path child u = .ok w' → PublicStep cfg w w'
  | rebalance {w w'} (path : List Nat) (weight : K) (child : Nat) (base : Option K) (u : Bool) :
      opRebalance cfg w path weight child base u = .ok w' → PublicStep cfg w w'
  | read {w w'} (path : List Nat) (g : Getter) : opRead cfg w path g = .ok w' → PublicStep cfg w w'

/-- any finite sequence of public calls -/
inductive Run (cfg : Cfg K) : World K → World K → Prop
  | nil (w) : Run cfg w w
  | cons {w w' w''} : PublicStep cfg w w' → Run cfg w' w'' → Run cfg w w''

theorem PublicStep.sameRows {cfg : Cfg K} {w w' : World K} (h : PublicStep cfg w w') :
    SameRows w.root w'.root := by
  cases h with
  | update d h => exact updRoot_frozen h
  | adjust _ _ _ _ h => exact opAdjust_frozen h
  | allocate _ _ _ h => exact opAllocate_frozen h
  | transact _ _ _ _ h => exact opTransact_frozen h
  | flatten _ h => exact opFlatten_frozen h
  | close _ _ _ h => exact opClose_frozen h
  | rebalance _ _ _ _ _ h => exact opRebalance_frozen h
  | read _ _ h => exact opRead_frozen h

theorem Run.sameRows {cfg : Cfg K} {w w' : World K} (h : Run cfg w w') : SameRows w.root w'.root := by
  induction h with
  | nil w => exact Frozen.refl _ _
  | cons hs _ ih => exact hs.sameRows.trans ih

end Bt.P08
