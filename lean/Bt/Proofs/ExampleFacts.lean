import Bt.Proofs.IntWorld
import Bt.Proofs.Marks
import Bt.Proofs.Rows
import Bt.Proofs.Examples
/-! Facts about the concrete `Rat` instances of `Bt.Ex`, used by the `example`s of the property files. -/
namespace Bt.Ex
open Bt

theorem cfg_tol_le_one : cfg.tol ≤ 1 := by decide +kernel
theorem cfg_tol_pos : 0 < cfg.tol := by decide +kernel

theorem tree_quiet : Quiet tree := by
  simp only [Quiet, tree, kids, AllSecs_strat, AllSecsKids_cons, AllSecs_sec, AllSecsKids_nil, SecQuiet]
  exact ⟨by decide, ⟨fun _ => by decide +kernel, ⟨by decide, trivial⟩, trivial⟩⟩

theorem tree_noDust : NoDust cfg tree := by
  simp only [NoDust, tree, kids, AllSecs_strat, AllSecsKids_cons, AllSecs_sec, AllSecsKids_nil]
  exact ⟨secNoDust_of_isInt cfg_tol_le_one ⟨3, by decide +kernel⟩,
    secNoDust_of_isInt cfg_tol_le_one ⟨0, by decide +kernel⟩,
    ⟨secNoDust_of_isInt cfg_tol_le_one ⟨1, by decide +kernel⟩, trivial⟩, trivial⟩

theorem tree_rowsInv : RowsInv tree := by
  simp only [RowsInv, tree, kids, TreeAll, TreeAllKids, StratRowsInv, SecRowsInv]
  refine ⟨?_, ?_, ?_, ⟨?_, ?_, trivial⟩, trivial⟩ <;> intro d hd <;> cases hd

theorem tree_rowsLen : RowsLen 1 tree := by
  simp only [RowsLen, tree, kids, TreeAll, TreeAllKids, StratRowsLen, SecRowsLen]
  decide

theorem tree_marked : AllSecs SecMarked tree := by
  simp only [tree, kids, AllSecs_strat, AllSecsKids_cons, AllSecs_sec, AllSecsKids_nil]
  exact ⟨SecMarked.of_noPrice rfl (by decide +kernel), SecMarked.of_noPrice rfl (by decide +kernel),
    ⟨SecMarked.of_noPrice rfl (by decide +kernel), trivial⟩, trivial⟩

theorem treeInt_allNodes : AllNodes (MVStrat (K := Rat)) IntSec treeInt := by
  simp only [treeInt, AllNodes_strat, AllNodesKids_cons, AllNodes_sec, AllNodesKids_nil, MVStrat, IntSec, SecQuiet]
  exact ⟨rfl, ⟨by decide, rfl, 3, by decide +kernel⟩, ⟨fun _ => by decide +kernel, rfl, 0, by decide +kernel⟩,
    ⟨rfl, ⟨by decide, rfl, 1, by decide +kernel⟩, trivial⟩, trivial⟩

theorem flagged_quiet : Quiet flaggedWorld.root := by
  have := tree_quiet
  simpa [Quiet, tree, flaggedWorld] using this

theorem flagged_noDust : NoDust cfg flaggedWorld.root := by
  have := tree_noDust
  simpa [NoDust, tree, flaggedWorld] using this

/-- the operations of the example run -/
def ops : List (Op Rat) :=
  [.update 0, .allocate [0] 20 true, .rebalance [] (1/2) 0 none true, .close [] 0 true, .flatten [], .update 1]

theorem ops_ok : ∀ op ∈ ops, OpOK (IsInt (K := Rat)) op := by
  intro op h
  simp only [ops, List.mem_cons, List.not_mem_nil, or_false] at h
  rcases h with rfl | rfl | rfl | rfl | rfl | rfl <;> trivial

theorem floor_isInt (x : Rat) : IsInt (floorA x) := ⟨x.floor, rfl⟩
theorem ceil_isInt (x : Rat) : IsInt (ceilA x) := ⟨x.ceil, rfl⟩

theorem cfg0_dustFree : DustFree cfg0 := by
  intro x h
  rw [isZero_iff] at h
  exact absurd h (not_lt.mpr (abs_nonneg x))

/-- the root updated at date 0 (it succeeds) -/
theorem tree_upd0 : ∃ n', updNode cfg 0 tree = .ok n' :=
  let ⟨n', h, _⟩ := check_ok (x := updNode cfg 0 tree) (p := fun _ => true) (by decide +kernel)
  ⟨n', h⟩

end Bt.Ex
