import Bt.Proofs.C01Defs
/-! The balance-sheet identity established by one `update`, and its recursive form `Balanced`. -/
namespace Bt
set_option linter.unusedSectionVars false
variable {K : Type} [Field K] [LinearOrder K] [IsStrictOrderedRing K] [HasFloor K]

/-- cash plus the values of the visited children (`kids` before, `kids'` after the update) -/
def stratV (sd' : StratData K) (kids kids' : List (Node K)) : K := sd'.capital + visSum Node.value kids kids'
/-- sum of the absolute notionals of the visited children -/
def stratN (kids kids' : List (Node K)) : K := visSum (fun k => |k.notl|) kids kids'

/-- What `StrategyBase.update(d)` establishes at one strategy (`sd`,`kids` before; `sd'`,`kids'` after). -/
structure LocalBal (cfg : Cfg K) (d : Nat) (sd : StratData K) (kids : List (Node K))
    (sd' : StratData K) (kids' : List (Node K)) : Prop where
  /-- value = cash + Σ visited children's values; exactly on a new date, else possibly within `TOL`
      (the code skips the write when neither total moved by `TOL`) -/
  value : sd'.value = stratV sd' kids kids' ∨
    (sd.now = some d ∧ |sd'.value - stratV sd' kids kids'| < cfg.tol)
  notl : sd'.notl = stratN kids kids' ∨ (sd.now = some d ∧ |sd'.notl - stratN kids kids'| < cfg.tol)
  /-- both totals are written together or not at all -/
  both : (sd'.value = stratV sd' kids kids' ∧ sd'.notl = stratN kids kids') ∨
    (sd.now = some d ∧ sd'.value = sd.value ∧ sd'.notl = sd.notl)
  /-- every child that is not skipped afterwards carries `childWeight` of the computed totals -/
  weights : ∀ k' ∈ kids', k'.skipped = false →
    k'.weight = childWeight cfg sd'.fixedIncome (stratV sd' kids kids') (stratN kids kids') k'
  /-- cash: unchanged, plus the cash parked on the security children when the date is new -/
  cash : sd'.capital = sd.capital + (if sd.now = some d then 0 else parkedCash kids)
  len : kids'.length = kids.length
  fixedIncome : sd'.fixedIncome = sd.fixedIncome
  now : sd'.now = some d

theorem visSum_map_congr (f : Node K → K) (g : Node K → Node K) (hg : ∀ k, f (g k) = f k) :
    ∀ (ks ks' : List (Node K)), visSum f ks (ks'.map g) = visSum f ks ks' := by
  intro ks
  induction ks with
  | nil => intro ks'; cases ks' <;> simp [visSum]
  | cons k ks ih =>
    intro ks'
    cases ks' with
    | nil => simp [visSum]
    | cons k' ks' => simp [visSum, hg, ih]

theorem updNode_localBal {cfg : Cfg K} {d : Nat} {sd sd' : StratData K} {kids kids' : List (Node K)}
    (h : updNode cfg d (.strat sd kids) = .ok (.strat sd' kids')) : LocalBal cfg d sd kids sd' kids' := by
  obtain ⟨kids1, acc, sd3, hk, hw, heq⟩ := updNode_strat_inv h
  injection heq with hsd hkids
  obtain ⟨hl, hv, hn, _, hc⟩ := updKids_acc_aux _ _ _ _ hk
  obtain ⟨f_cap, f_fi, f_now, _, _, _, _, _⟩ := stratWrite_frame hw
  have hcap : sd'.capital = sd.capital + acc.coupons := by rw [hsd]; simp [f_cap]
  have hfi : sd'.fixedIncome = sd3.fixedIncome := by rw [hsd]; simp
  have hVs : visSum Node.value kids kids' = visSum Node.value kids kids1 := by
    rw [hkids, kidsWeights_eq_map]; exact visSum_map_congr _ _ (fun k => reweigh_value ..) _ _
  have hNs : visSum (fun k => |k.notl|) kids kids' = visSum (fun k => |k.notl|) kids kids1 := by
    rw [hkids, kidsWeights_eq_map]
    exact visSum_map_congr _ _ (fun k => by simp only [reweigh_notl]) _ _
  have hV : stratV sd' kids kids' = acc.val + acc.coupons := by
    unfold stratV; rw [hcap, hVs, hv]; simp only [stratDateChange_capital]; ring
  have hN : stratN kids kids' = acc.notl := by
    unfold stratN; rw [hNs, hn]; simp
  have hnew : (stratDateChange d sd).2 = false → sd.now = some d := by
    intro hf
    by_contra hne
    have := (stratDateChange_newpt d sd).mpr hne
    rw [hf] at this; cases this
  have hval : sd'.value = sd3.value := by rw [hsd]; simp
  have hnotl : sd'.notl = sd3.notl := by rw [hsd]; simp
  refine ⟨?_, ?_, ?_, ?_, ?_, ?_, ?_, ?_⟩
  · rw [hV, hval]
    rcases stratWrite_inv hw with ⟨p, rfl⟩ | ⟨hf, rfl, h1, h2⟩
    · left; simp
    · right; exact ⟨hnew hf, by simpa using h1⟩
  · rw [hN, hnotl]
    rcases stratWrite_inv hw with ⟨p, rfl⟩ | ⟨hf, rfl, h1, h2⟩
    · left; simp
    · right; exact ⟨hnew hf, by simpa using h2⟩
  · rw [hV, hN, hval, hnotl]
    rcases stratWrite_inv hw with ⟨p, rfl⟩ | ⟨hf, rfl, h1, h2⟩
    · left; simp
    · right; exact ⟨hnew hf, by simp, by simp⟩
  · intro k' hk' hs
    rw [hV, hN, hfi]
    rw [hkids, kidsWeights_eq_map, List.mem_map] at hk'
    obtain ⟨k1, _, rfl⟩ := hk'
    rw [reweigh_skipped] at hs
    exact reweigh_weight _ _ _ _ _ hs
  · rw [hcap, hc]
    by_cases hd : sd.now = some d
    · have : (stratDateChange d sd).2 = false := by
        cases hb : (stratDateChange d sd).2
        · rfl
        · exact absurd hd ((stratDateChange_newpt d sd).mp hb)
      simp [hd, this]
    · have := (stratDateChange_newpt d sd).mpr hd
      simp [hd, this]
  · rw [hkids]; simp [kidsWeights_eq_map, hl]
  · rw [hfi, f_fi]; simp
  · rw [hsd]; simp [f_now]

/-- the balance-sheet identity at every strategy of the tree -/
def Balanced (cfg : Cfg K) (d : Nat) : Node K → Node K → Prop :=
  TreeRel (LocalBal cfg d) (fun _ _ => True)

theorem LocalBal.setWeight {cfg : Cfg K} {d : Nat} {sd sd' : StratData K} {kids kids' : List (Node K)} (w : K)
    (h : LocalBal cfg d sd kids sd' kids') : LocalBal cfg d sd kids { sd' with weight := w } kids' :=
  ⟨h.value, h.notl, h.both, h.weights, h.cash, h.len, h.fixedIncome, h.now⟩

theorem updNode_balanced_aux {cfg : Cfg K} {d : Nat} {n n' : Node K} (h : updNode cfg d n = .ok n') :
    Balanced cfg d n n' :=
  (updNode_treeRel (P := LocalBal cfg d) (S := fun _ _ => True)
    (fun _ _ _ _ h => updNode_localBal h) (fun _ _ _ _ w h => h.setWeight w)
    (fun _ _ _ _ _ => trivial) (fun _ _ _ _ => trivial) (fun _ _ _ _ => trivial)).1 n n' h

end Bt
