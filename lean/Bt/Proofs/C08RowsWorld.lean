import Bt.Proofs.C08RowsOps
/-! C08: no public operation changes the shape of the tree or the length of any recorded row list. -/
set_option linter.unusedSectionVars false
namespace Bt.P08
open Bt

variable {K : Type} [Field K] [LinearOrder K] [IsStrictOrderedRing K] [HasFloor K]

/-- every index -/
abbrev AllIdx : Nat → Prop := fun _ => True

/-- same shape, all row lists keep their length -/
abbrev SameRows (n n' : Node K) : Prop := Frozen AllIdx n n'

theorem SameRows.trans {n n' n'' : Node K} (h1 : SameRows n n') (h2 : SameRows n' n'') : SameRows n n'' :=
  Frozen.trans _ _ _ h1 h2

/-! ### flatten of one level -/

theorem flattenKidsMV_frozen {cfg : Cfg K} :
    ∀ (ks : List (Node K)) (sd sd' : StratData K) (ks' : List (Node K)),
      flattenKidsMV cfg ks sd = .ok (sd', ks') → StratFrozen AllIdx sd sd' ∧ FrozenL AllIdx ks ks'
  | [], sd, sd', ks', h => by
    rw [flattenKidsMV] at h; cases h; exact ⟨.refl _ _, by simp⟩
  | k :: ks, sd, sd', ks', h => by
    rw [flattenKidsMV] at h
    split at h
    · obtain ⟨⟨sd2, ks2⟩, h2, hr⟩ := map_eq_ok h
      cases hr
      obtain ⟨h1, h3⟩ := flattenKidsMV_frozen ks sd _ _ h2
      exact ⟨h1, by simp only [frozenL_cons]; exact ⟨Frozen.refl _ k, h3⟩⟩
    · obtain ⟨⟨k', adjs⟩, hk, h⟩ := bind_eq_ok h
      obtain ⟨⟨sd2, ks2⟩, h2, hr⟩ := map_eq_ok h
      cases hr
      obtain ⟨h1, h3⟩ := flattenKidsMV_frozen ks _ _ _ h2
      have hk' := allocNode_frozen (P := AllIdx) k _ _ _ _ (fun _ _ => trivial)
        (nowsIn_all (fun _ => trivial) k) hk
      exact ⟨(foldl_adjust_frozen _ adjs sd).trans h1, by simp only [frozenL_cons]; exact ⟨hk', h3⟩⟩

theorem flattenKidsFI_frozen {cfg : Cfg K} :
    ∀ (ks : List (Node K)) (sd sd' : StratData K) (ks' : List (Node K)),
      flattenKidsFI cfg ks sd = .ok (sd', ks') → StratFrozen AllIdx sd sd' ∧ FrozenL AllIdx ks ks'
  | [], sd, sd', ks', h => by
    rw [flattenKidsFI] at h; cases h; exact ⟨.refl _ _, by simp⟩
  | .strat _ _ :: ks, sd, sd', ks', h => by
    rw [flattenKidsFI] at h; cases h
  | .sec s :: ks, sd, sd', ks', h => by
    rw [flattenKidsFI] at h
    split at h
    · obtain ⟨⟨sd2, ks2⟩, h2, hr⟩ := map_eq_ok h
      cases hr
      obtain ⟨h1, h3⟩ := flattenKidsFI_frozen ks sd _ _ h2
      exact ⟨h1, by simp only [frozenL_cons]; exact ⟨Frozen.refl _ _, h3⟩⟩
    · obtain ⟨⟨s', adj⟩, hk, h⟩ := bind_eq_ok h
      obtain ⟨⟨sd2, ks2⟩, h2, hr⟩ := map_eq_ok h
      cases hr
      obtain ⟨h1, h3⟩ := flattenKidsFI_frozen ks _ _ _ h2
      have hk' := secTransact_frozen (P := AllIdx) (fun _ _ => trivial) hk
      exact ⟨(foldl_adjust_frozen _ _ sd).trans h1,
        by simp only [frozenL_cons, frozen_sec]; exact ⟨hk', h3⟩⟩

theorem flattenStrat_frozen {cfg : Cfg K} {sd sd' : StratData K} {ks ks' : List (Node K)}
    (h : flattenStrat cfg sd ks = .ok (sd', ks')) : StratFrozen AllIdx sd sd' ∧ FrozenL AllIdx ks ks' := by
  unfold flattenStrat at h
  split at h
  · exact flattenKidsFI_frozen _ _ _ _ h
  · exact flattenKidsMV_frozen _ _ _ _ h

theorem flatF_frozen {cfg : Cfg K} {par : Option (StratData K)} {n : Node K} {r : OpRes K}
    (h : flatF cfg par n = .ok r) : SameRows n r.1 := by
  cases n with
  | sec s => cases h
  | strat sd ks =>
    simp only [flatF] at h
    obtain ⟨⟨sd', ks'⟩, hfl, rfl⟩ := map_eq_ok h
    simpa using flattenStrat_frozen hfl

/-! ### operations addressed by a path -/

theorem frozenL_set {P : Nat → Prop} {k k' : Node K} (hk : Frozen P k k') :
    ∀ (ks : List (Node K)) (i : Nat), ks[i]? = some k → FrozenL P ks (ks.set i k')
  | [], i, h => by simp at h
  | a :: ks, 0, h => by
    simp only [List.getElem?_cons_zero, Option.some.injEq] at h
    subst h
    simp only [List.set_cons_zero, frozenL_cons]
    exact ⟨hk, FrozenL.refl P ks⟩
  | a :: ks, i + 1, h => by
    simp only [List.getElem?_cons_succ] at h
    simp only [List.set_cons_succ, frozenL_cons]
    exact ⟨Frozen.refl P a, frozenL_set hk ks i h⟩

theorem modAt_frozen {P : Nat → Prop} {f : Option (StratData K) → Node K → Except Err (OpRes K)}
    (hf : ∀ par n r, f par n = .ok r → Frozen P n r.1) :
    ∀ (path : List Nat) (par : Option (StratData K)) (n : Node K) (r : OpRes K),
      modAt f path par n = .ok r → Frozen P n r.1
  | [], par, n, r, h => by rw [modAt.eq_1] at h; exact hf _ _ _ h
  | i :: rest, par, .sec s, r, h => by rw [modAt.eq_2] at h; cases h
  | i :: rest, par, .strat sd kids, r, h => by
    rw [modAt.eq_3] at h
    split at h
    · cases h
    · rename_i k hk
      obtain ⟨⟨k', adjs, st⟩, hm, rfl⟩ := map_eq_ok h
      have := modAt_frozen hf rest _ _ _ hm
      simp only [frozen_strat]
      exact ⟨foldl_adjust_frozen P adjs sd, frozenL_set this kids i hk⟩

theorem modify_frozen {P : Nat → Prop} {f : Option (StratData K) → Node K → Except Err (OpRes K)}
    (hf : ∀ par n r, f par n = .ok r → Frozen P n r.1) {w w' : World K} {path : List Nat}
    (h : w.modify path f = .ok w') : Frozen P w.root w'.root := by
  unfold World.modify at h
  obtain ⟨⟨r, adjs, st⟩, hm, rfl⟩ := map_eq_ok h
  exact modAt_frozen hf _ _ _ _ hm

/-! ### `root.update`, refresh, recursive flatten -/

theorem stratFinish_frozen {P : Nat → Prop} {cfg : Cfg K} {d : Nat} (hP : P d) {np : Bool}
    {sd1 : StratData K} {r : List (Node K) × Acc K} {n' : Node K}
    (h : stratFinish cfg d np sd1 r = .ok n') : Frozen P (.strat sd1 r.1) n' := by
  unfold stratFinish at h
  obtain ⟨sd3, hw, rfl⟩ := map_eq_ok h
  simp only [frozen_strat]
  exact ⟨(capital_frozen P _ _).trans <| (stratWrite_frozen hP hw).trans (stratRows_frozen hP _),
    kidsWeights_frozen P ..⟩

theorem refreshNB_frozen {cfg : Cfg K} {w w' : World K} (h : refreshNB cfg w = .ok w') :
    SameRows w.root w'.root := by
  unfold refreshNB at h
  split at h
  · obtain ⟨n, hn, rfl⟩ := map_eq_ok h
    exact updNode_frozen (P := AllIdx) trivial _ _ hn
  · cases h

/-- recursive `flatten` with any getter refresh that keeps shapes and lengths -/
theorem flattenAt_frozen {cfg : Cfg K} {rf : World K → Except Err (World K)}
    (hrf : ∀ w w', rf w = .ok w' → SameRows w.root w'.root) {n : Node K} {path : List Nat} {w w' : World K}
    (h : flattenAt cfg rf n path w = .ok w') : SameRows w.root w'.root :=
  flattenAt_inv (I := fun x => SameRows w.root x.root)
    (fun _ _ h1 hI => hI.trans (hrf _ _ h1))
    (fun _ _ _ h1 hI => hI.trans (modify_frozen (fun _ _ _ => flatF_frozen) h1))
    n path w w' h (Frozen.refl _ _)

theorem updRoot_frozen {cfg : Cfg K} {d : Nat} {w w' : World K} (h : updRoot cfg d w = .ok w') :
    SameRows w.root w'.root := by
  obtain ⟨root, st⟩ := w
  cases root with
  | sec s => cases h
  | strat sd kids =>
    rw [updRoot_strat] at h
    obtain ⟨⟨kids1, acc⟩, hk, h⟩ := bind_eq_ok h
    have hkids := updKids_frozen (P := AllIdx) trivial kids _ _ _ _ _ hk
    have h0 : SameRows (.strat sd kids) (.strat (stratDateChange d sd).1 kids1) := by
      simp only [SameRows, frozen_strat]; exact ⟨stratDateChange_frozen _ d sd, hkids⟩
    refine h0.trans ?_
    split at h
    · obtain ⟨wF, hfl, h⟩ := bind_eq_ok h
      obtain ⟨n, hn, rfl⟩ := map_eq_ok h
      have hB : SameRows (.strat (stratDateChange d sd).1 kids1)
          (bankruptWorld (stratDateChange d sd).1 (kids1, acc)).root := by
        simp only [SameRows, bankruptWorld, frozen_strat]
        exact ⟨by constructor <;> simp, FrozenL.refl _ _⟩
      exact hB.trans <| (flattenAt_frozen (fun _ _ => refreshNB_frozen) hfl).trans
        (updNode_frozen (P := AllIdx) trivial _ _ hn)
    · obtain ⟨n, hf, rfl⟩ := map_eq_ok h
      exact stratFinish_frozen (P := AllIdx) trivial hf

theorem refresh_frozen {cfg : Cfg K} {w w' : World K} (h : refresh cfg w = .ok w') :
    SameRows w.root w'.root := by
  unfold refresh at h
  split at h
  · split at h
    · exact updRoot_frozen h
    · cases h
  · cases h; exact Frozen.refl _ _

/-! ### the public operations -/

theorem opAdjust_frozen {w w' : World K} {path : List Nat} {amount : K} {u fl : Bool}
    (h : opAdjust w path amount u fl = .ok w') : SameRows w.root w'.root := by
  unfold opAdjust at h
  refine modify_frozen (fun par n r hr => ?_) h
  cases n with
  | sec s => cases hr
  | strat sd kids =>
    cases hr
    simp only [frozen_strat]
    exact ⟨adjust_frozen _ sd _, FrozenL.refl _ _⟩

theorem opAllocate_frozen {cfg : Cfg K} {w w' : World K} {path : List Nat} {amount : K} {u : Bool}
    (h : opAllocate cfg w path amount u = .ok w') : SameRows w.root w'.root := by
  unfold opAllocate at h
  refine modify_frozen (fun par n r hr => ?_) h
  cases n with
  | sec s =>
    cases par with
    | none => cases hr
    | some p =>
      simp only at hr
      obtain ⟨⟨s', a⟩, hs, rfl⟩ := map_eq_ok hr
      simpa using secAllocate_frozen (P := AllIdx) (fun _ _ => trivial) hs
  | strat sd kids =>
    cases par with
    | none =>
      simp only at hr
      obtain ⟨⟨sd2, kids2⟩, hk, rfl⟩ := map_eq_ok hr
      obtain ⟨h1, -, h3⟩ := allocKids_frozen (P := AllIdx) kids amount _ _ _ (fun _ _ => trivial)
        (nowsInL_all (fun _ => trivial) kids) hk
      simp only [frozen_strat]
      exact ⟨(adjust_frozen _ sd _).trans <| (adjust_frozen _ _ _).trans h1, h3⟩
    | some p =>
      simp only at hr
      obtain ⟨⟨n', adjs⟩, hk, rfl⟩ := map_eq_ok hr
      exact allocNode_frozen (P := AllIdx) _ _ _ _ _ (fun _ _ => trivial)
        (nowsIn_all (fun _ => trivial) _) hk

theorem opTransact_frozen {cfg : Cfg K} {w w' : World K} {path : List Nat} {q : K} {u : Bool}
    {custom : Option K} (h : opTransact cfg w path q u custom = .ok w') : SameRows w.root w'.root := by
  unfold opTransact at h
  refine modify_frozen (fun par n r hr => ?_) h
  cases n with
  | sec s =>
    cases par with
    | none => cases hr
    | some p =>
      simp only at hr
      obtain ⟨⟨s', a⟩, hs, rfl⟩ := map_eq_ok hr
      simpa using secTransact_frozen (P := AllIdx) (fun _ _ => trivial) hs
  | strat sd kids =>
    have hr' : (transKids cfg q kids sd).map (fun x : StratData K × List (Node K) =>
        ((Node.strat x.1 x.2, [], u) : OpRes K)) = .ok r := by
      cases par <;> exact hr
    obtain ⟨⟨sd2, kids2⟩, hk, rfl⟩ := map_eq_ok hr'
    obtain ⟨h1, -, h3⟩ := transKids_frozen (P := AllIdx) kids q _ _ _ (fun _ _ => trivial)
      (nowsInL_all (fun _ => trivial) kids) hk
    simp only [frozen_strat]
    exact ⟨h1, h3⟩

theorem opFlatten_frozen {cfg : Cfg K} {w w' : World K} {path : List Nat}
    (h : opFlatten cfg w path = .ok w') : SameRows w.root w'.root := by
  unfold opFlatten at h
  split at h
  · exact flattenAt_frozen (fun _ _ => refresh_frozen) h
  · cases h

theorem opClose_frozen {cfg : Cfg K} {w w' : World K} {path : List Nat} {child : Nat} {u : Bool}
    (h : opClose cfg w path child u = .ok w') : SameRows w.root w'.root := by
  unfold opClose at h
  split at h
  · obtain ⟨w1, h1, h⟩ := bind_eq_ok h
    have hw1 : SameRows w.root w1.root := by
      split at h1
      · split at h1
        · exact opFlatten_frozen h1
        · cases h1; exact Frozen.refl _ _
      · simp only [Bool.false_eq_true, ↓reduceIte] at h1
        cases h1; exact Frozen.refl _ _
    refine hw1.trans ?_
    split at h
    · split at h
      · cases h
      · split at h
        · split at h
          · exact opTransact_frozen h
          · cases h; exact Frozen.refl _ _
        · cases h
    · obtain ⟨w2, h2, h⟩ := bind_eq_ok h
      refine (refresh_frozen h2).trans ?_
      split at h
      · split at h
        · exact opAllocate_frozen h
        · cases h; exact Frozen.refl _ _
      · cases h
  · cases h

theorem opRebalance_frozen {cfg : Cfg K} {w w' : World K} {path : List Nat} {weight : K} {child : Nat}
    {base : Option K} {u : Bool}
    (h : opRebalance cfg w path weight child base u = .ok w') : SameRows w.root w'.root := by
  unfold opRebalance at h
  split at h
  · exact opClose_frozen h
  · obtain ⟨w1, h1, h⟩ := bind_eq_ok h
    have hw1 : SameRows w.root w1.root := by
      split at h1
      · exact refresh_frozen h1
      · cases h1; exact Frozen.refl _ _
    obtain ⟨w2, h2, h⟩ := bind_eq_ok h
    refine hw1.trans <| (refresh_frozen h2).trans ?_
    split at h
    · simp only at h
      split at h
      · split at h
        · exact opTransact_frozen h
        · exact opAllocate_frozen h
      · exact opAllocate_frozen h
    · cases h

mutual
theorem localRefreshAll_frozen {cfg : Cfg K} {rootNow : Nat} :
    (n : Node K) → ∀ (pnow : Option Nat) n', localRefreshAll cfg rootNow pnow n = .ok n' → SameRows n n'
  | .sec s, pnow, n', h => by
    rw [localRefreshAll.eq_1] at h
    split at h
    · obtain ⟨s', hs, rfl⟩ := map_eq_ok h
      simpa using secUpdate_frozen (P := AllIdx) trivial hs
    · cases h; exact Frozen.refl _ _
  | .strat sd kids, pnow, n', h => by
    rw [localRefreshAll.eq_2] at h
    obtain ⟨ks, hk, rfl⟩ := map_eq_ok h
    simp only [SameRows, frozen_strat]
    exact ⟨.refl _ _, localRefreshKids_frozen kids _ _ hk⟩
theorem localRefreshKids_frozen {cfg : Cfg K} {rootNow : Nat} :
    (ks : List (Node K)) → ∀ (pnow : Option Nat) ks', localRefreshKids cfg rootNow pnow ks = .ok ks' →
      FrozenL AllIdx ks ks'
  | [], pnow, ks', h => by rw [localRefreshKids.eq_1] at h; cases h; simp
  | k :: ks, pnow, ks', h => by
    rw [localRefreshKids.eq_2] at h
    obtain ⟨k', hk, h⟩ := bind_eq_ok h
    obtain ⟨ks1, hks, rfl⟩ := map_eq_ok h
    simp only [frozenL_cons]
    exact ⟨localRefreshAll_frozen k _ _ hk, localRefreshKids_frozen ks _ _ hks⟩
end

theorem opRead_frozen {cfg : Cfg K} {w w' : World K} {path : List Nat} {g : Getter}
    (h : opRead cfg w path g = .ok w') : SameRows w.root w'.root := by
  have hloc : ∀ (w0 w1 w2 : World K), (w1.modify path fun par n =>
      match par, n with
      | some p, .sec s =>
        if s.needupdate || s.now != p.now then
          match w0.root.now with
          | some d => (secUpdate cfg d s).map fun s' => ((Node.sec s', [], false) : OpRes K)
          | none => throw Err.badPath
        else pure (n, [], false)
      | _, _ => throw Err.badPath) = .ok w2 → SameRows w1.root w2.root := by
    intro w0 w1 w2 h
    refine modify_frozen (fun par n r hr => ?_) h
    split at hr
    · split at hr
      · split at hr
        · obtain ⟨s', hs, rfl⟩ := map_eq_ok hr
          simpa using secUpdate_frozen (P := AllIdx) trivial hs
        · cases hr
      · cases hr; exact Frozen.refl _ _
    · cases hr
  unfold opRead at h
  cases g with
  | plain => cases h; exact Frozen.refl _ _
  | stratRefreshing => exact refresh_frozen h
  | secLocal => exact hloc w w w' h
  | secSeries =>
    obtain ⟨w1, h1, h2⟩ := bind_eq_ok h
    exact (hloc w w w1 h1).trans (refresh_frozen h2)
  | stratMembers =>
    obtain ⟨w1, h1, h⟩ := bind_eq_ok h
    refine (refresh_frozen h1).trans ?_
    split at h
    · cases h
    · refine modify_frozen (fun par n r hr => ?_) h
      obtain ⟨n', hn, rfl⟩ := map_eq_ok hr
      exact localRefreshAll_frozen _ _ _ hn

end Bt.P08
