import Bt.Proofs.Terminal
/-! C16 (terminal part), run level: once the root is flagged, `Backtest.run` is a sequence of plain
    `update`s; on a `DeadSettled` tree they change nothing but the rows of the dates they visit. -/
set_option linter.unusedSectionVars false
namespace Bt.P16
open Bt

variable {K : Type} [Field K] [LinearOrder K] [IsStrictOrderedRing K] [HasFloor K]

/-! ### accessors of the root strategy -/

/-- `strategy.capital` of the root -/
def rootCash (w : World K) : K :=
  match w.root with
  | .strat sd _ => sd.capital
  | .sec _ => 0

/-- the root's children -/
def rootKids (w : World K) : List (Node K) :=
  match w.root with
  | .strat _ kids => kids
  | .sec _ => []

/-- the recorded cash series of the root (`strategy.cash`) -/
def rootRCash (w : World K) : List K :=
  match w.root with
  | .strat sd _ => sd.rCash
  | .sec _ => []

/-- the recorded value series of the root (`strategy.values`) -/
def rootRValue (w : World K) : List K :=
  match w.root with
  | .strat sd _ => sd.rValue
  | .sec _ => []

theorem bankrupt_root {w : World K} (hb : w.bankrupt = true) :
    ∃ sd kids st, w = ⟨.strat sd kids, st⟩ ∧ sd.bankrupt = true := by
  obtain ⟨root, st⟩ := w
  cases root with
  | sec s => cases hb
  | strat sd kids => exact ⟨sd, kids, st, rfl, hb⟩

/-! ### the flag is absorbing and switches the algos off -/

/-- with the flag set `root.update` is `update` of the root node -/
theorem updRoot_of_bankrupt (cfg : Cfg K) (d : Nat) {w : World K} (hb : w.bankrupt = true) :
    updRoot cfg d w = (updNode cfg d w.root).map fun n => { root := n, stale := false } := by
  obtain ⟨sd, kids, st, rfl, hb⟩ := bankrupt_root hb
  exact P08.updRoot_eq_updNode_of_bankrupt cfg d kids st hb

theorem updRoot_bankrupt_inv {cfg : Cfg K} {d : Nat} {w w' : World K} (hb : w.bankrupt = true)
    (h : updRoot cfg d w = .ok w') : updNode cfg d w.root = .ok w'.root ∧ w'.stale = false := by
  rw [updRoot_of_bankrupt cfg d hb] at h
  obtain ⟨n, hn, rfl⟩ := Except.map_eq_ok h
  exact ⟨hn, rfl⟩

/-- the flag, once set, survives every `root.update` -/
theorem updRoot_bankrupt_mono {cfg : Cfg K} {d : Nat} {w w' : World K} (hb : w.bankrupt = true)
    (h : updRoot cfg d w = .ok w') : w'.bankrupt = true := by
  obtain ⟨hn, -⟩ := updRoot_bankrupt_inv hb h
  obtain ⟨sd, kids, st, rfl, hb⟩ := bankrupt_root hb
  obtain ⟨sd', ks', hr, hb'⟩ := P08.updNode_strat_bankrupt hn
  obtain ⟨root', st'⟩ := w'
  simp only at hr
  subst hr
  exact hb'.trans hb

/-- if the first `update` of the day returns a flagged root, the algos are not run and there is no second
    `update`: the day's result does not depend on `run` -/
theorem btDay_of_flagged {cfg : Cfg K} (run : RunFn K) {d : Nat} {w w1 : World K}
    (h : updRoot cfg d w = .ok w1) (hb1 : w1.bankrupt = true) : btDay cfg run d w = .ok w1 := by
  unfold btDay
  rw [h]
  show (if w1.bankrupt = true then pure w1 else _) = _
  rw [if_pos hb1]; rfl

/-- on a flagged root a whole day of `Backtest.run` is one `root.update` -/
theorem btDay_bankrupt {cfg : Cfg K} (run : RunFn K) (d : Nat) {w : World K} (hb : w.bankrupt = true) :
    btDay cfg run d w = updRoot cfg d w := by
  cases h : updRoot cfg d w with
  | error e => unfold btDay; rw [h]; rfl
  | ok w1 => exact btDay_of_flagged run h (updRoot_bankrupt_mono hb h)

/-- the loop of `Backtest.run` without the algos -/
def updLoop (cfg : Cfg K) : List Nat → World K → Except Err (World K)
  | [], w => pure w
  | d :: ds, w => (updRoot cfg d w).bind fun w' => updLoop cfg ds w'

theorem btLoop_bankrupt {cfg : Cfg K} (run : RunFn K) :
    ∀ (ds : List Nat) {w : World K}, w.bankrupt = true → btLoop cfg run ds w = updLoop cfg ds w
  | [], _, _ => rfl
  | d :: ds, w, hb => by
    rw [btLoop, updLoop, btDay_bankrupt run d hb]
    cases h : updRoot cfg d w with
    | error e => rfl
    | ok w1 => exact btLoop_bankrupt run ds (updRoot_bankrupt_mono hb h)

/-- from a flagged root on, the rest of the backtest does not depend on the strategy's algos at all -/
theorem btLoop_run_irrelevant {cfg : Cfg K} (run run' : RunFn K) (ds : List Nat) {w : World K}
    (hb : w.bankrupt = true) : btLoop cfg run ds w = btLoop cfg run' ds w := by
  rw [btLoop_bankrupt run ds hb, btLoop_bankrupt run' ds hb]

theorem updLoop_bankrupt_mono {cfg : Cfg K} :
    ∀ (ds : List Nat) {w w' : World K}, w.bankrupt = true → updLoop cfg ds w = .ok w' → w'.bankrupt = true
  | [], w, w', hb, h => by cases h; exact hb
  | d :: ds, w, w', hb, h => by
    rw [updLoop] at h
    obtain ⟨w1, h1, h⟩ := Except.bind_eq_ok h
    exact updLoop_bankrupt_mono ds (updRoot_bankrupt_mono hb h1) h

/-! ### one `root.update` on a flagged, liquidated, settled tree -/

theorem rootCash_eq_head (w : World K) (hb : w.bankrupt = true) : (capitals w.root).head? = some (rootCash w) := by
  obtain ⟨sd, kids, st, rfl, -⟩ := bankrupt_root hb
  simp [capitals, rootCash]

/-- the flag stays, the tree stays liquidated and settled, no strategy's cash moves, the value stays -/
theorem updRoot_dead {cfg : Cfg K} {d : Nat} {w w' : World K} (hb : w.bankrupt = true)
    (hd : DeadSettled w.root) (h : updRoot cfg d w = .ok w') :
    w'.bankrupt = true ∧ DeadSettled w'.root ∧ capitals w'.root = capitals w.root ∧
      rootCash w' = rootCash w ∧ w'.root.value = w.root.value := by
  have hb' := updRoot_bankrupt_mono hb h
  obtain ⟨hn, -⟩ := updRoot_bankrupt_inv hb h
  obtain ⟨h1, h2⟩ := updNode_deadSettled hd hn
  have hcash : rootCash w' = rootCash w := by
    have e1 := rootCash_eq_head w hb
    have e2 := rootCash_eq_head w' hb'
    rw [h2, e1] at e2
    exact (Option.some.inj e2).symm
  refine ⟨hb', h1, h2, hcash, ?_⟩
  obtain ⟨sd, kids, st, rfl, -⟩ := bankrupt_root hb
  exact updNode_deadSettled_value hd hn

/-- … for the rest of the run -/
theorem updLoop_dead {cfg : Cfg K} :
    ∀ (ds : List Nat) {w w' : World K}, w.bankrupt = true → DeadSettled w.root → updLoop cfg ds w = .ok w' →
      w'.bankrupt = true ∧ DeadSettled w'.root ∧ capitals w'.root = capitals w.root ∧
        rootCash w' = rootCash w ∧ w'.root.value = w.root.value
  | [], w, w', hb, hd, h => by cases h; exact ⟨hb, hd, rfl, rfl, rfl⟩
  | d :: ds, w, w', hb, hd, h => by
    rw [updLoop] at h
    obtain ⟨w1, h1, h⟩ := Except.bind_eq_ok h
    obtain ⟨a1, a2, a3, a4, a5⟩ := updRoot_dead hb hd h1
    obtain ⟨b1, b2, b3, b4, b5⟩ := updLoop_dead ds a1 a2 h
    exact ⟨b1, b2, b3.trans a3, b4.trans a4, b5.trans a5⟩

/-! ### the rows -/

/-- what any `update(d)` writes into the cash and value series of the strategy it is called on: the cash row
    always, the value row unless the date is not new and neither total moved by `TOL` -/
theorem updNode_root_rows {cfg : Cfg K} {d : Nat} {sd sd' : StratData K} {kids kids' : List (Node K)}
    (h : updNode cfg d (.strat sd kids) = .ok (.strat sd' kids')) :
    sd'.rCash = sd.rCash.set d sd'.capital ∧
      (sd'.rValue = sd.rValue.set d sd'.value ∨ (sd.now = some d ∧ sd'.rValue = sd.rValue)) := by
  obtain ⟨kids1, acc, sd3, hk, hw, heq⟩ := updNode_strat_inv h
  injection heq with hsd hkids
  subst hsd
  obtain ⟨-, -, -, -, f_rc, -⟩ := stratWrite_frame hw
  refine ⟨by simp [f_rc], ?_⟩
  rcases stratWrite_inv hw with ⟨p, rfl⟩ | ⟨hf, rfl, -⟩
  · left; simp
  · right
    refine ⟨?_, by simp⟩
    by_contra hne
    rw [(stratDateChange_newpt d sd).2 hne] at hf
    cases hf

theorem updRoot_rows {cfg : Cfg K} {d : Nat} {w w' : World K} (hb : w.bankrupt = true)
    (h : updRoot cfg d w = .ok w') :
    rootRCash w' = (rootRCash w).set d (rootCash w') ∧
      (rootRValue w' = (rootRValue w).set d w'.root.value ∨
        (w.root.now = some d ∧ rootRValue w' = rootRValue w)) := by
  have hb' := updRoot_bankrupt_mono hb h
  obtain ⟨hn, -⟩ := updRoot_bankrupt_inv hb h
  obtain ⟨sd, kids, st, rfl, -⟩ := bankrupt_root hb
  obtain ⟨sd', kids', st', rfl, -⟩ := bankrupt_root hb'
  exact updNode_root_rows hn

theorem getElem?_set_const {l : List K} {c : K} {i : Nat} (d : Nat) (h : l[i]? = some c) :
    (l.set d c)[i]? = some c := by
  rw [List.getElem?_set]
  split
  · rename_i hdi
    subst hdi
    have : d < l.length := by
      by_contra hlt
      rw [List.getElem?_eq_none (by omega)] at h
      cases h
    simp [this]
  · exact h

/-- dates each of which differs from the one before (the first from the clock `now`): each is a new date
    for the root when the loop reaches it -/
def FreshDates : Option Nat → List Nat → Prop
  | _, [] => True
  | now, d :: ds => now ≠ some d ∧ FreshDates (some d) ds

instance : ∀ (now : Option Nat) (ds : List Nat), Decidable (FreshDates now ds)
  | _, [] => isTrue trivial
  | now, d :: ds =>
    have := instDecidableFreshDates (some d) ds
    inferInstanceAs (Decidable (now ≠ some d ∧ FreshDates (some d) ds))

theorem updRoot_now {cfg : Cfg K} {d : Nat} {w w' : World K} (hb : w.bankrupt = true)
    (h : updRoot cfg d w = .ok w') : w'.root.now = some d := by
  have hb' := updRoot_bankrupt_mono hb h
  obtain ⟨hn, -⟩ := updRoot_bankrupt_inv hb h
  obtain ⟨sd, kids, st, rfl, -⟩ := bankrupt_root hb
  obtain ⟨sd', kids', st', rfl, -⟩ := bankrupt_root hb'
  exact (updNode_localBal hn).now

/-- entries of the root's cash / value series that already hold the (constant) cash / value keep it, and the
    series keep their length -/
theorem updLoop_dead_keeps {cfg : Cfg K} :
    ∀ (ds : List Nat) {w w' : World K}, w.bankrupt = true → DeadSettled w.root → updLoop cfg ds w = .ok w' →
      (rootRCash w').length = (rootRCash w).length ∧ (rootRValue w').length = (rootRValue w).length ∧
      (∀ i : Nat, (rootRCash w)[i]? = some (rootCash w) → (rootRCash w')[i]? = some (rootCash w)) ∧
      (∀ i : Nat, (rootRValue w)[i]? = some w.root.value → (rootRValue w')[i]? = some w.root.value)
  | [], w, w', hb, hd, h => by cases h; exact ⟨rfl, rfl, fun _ h => h, fun _ h => h⟩
  | d :: ds, w, w', hb, hd, h => by
    rw [updLoop] at h
    obtain ⟨w1, h1, h⟩ := Except.bind_eq_ok h
    obtain ⟨a1, a2, -, a4, a5⟩ := updRoot_dead hb hd h1
    obtain ⟨r1, r2⟩ := updRoot_rows hb h1
    obtain ⟨b1, b2, b3, b4⟩ := updLoop_dead_keeps ds a1 a2 h
    rw [a4] at r1 b3
    rw [a5] at r2 b4
    refine ⟨?_, ?_, ?_, ?_⟩
    · rw [b1, r1, List.length_set]
    · rw [b2]; rcases r2 with r2 | ⟨-, r2⟩ <;> simp [r2]
    · intro i hi
      apply b3
      rw [r1]; exact getElem?_set_const d hi
    · intro i hi
      apply b4
      rcases r2 with r2 | ⟨-, r2⟩
      · rw [r2]; exact getElem?_set_const d hi
      · rw [r2]; exact hi

/-- **the rows of the dates the loop visits hold the constants:** the cash row of every visited date holds the
    root's (constant) cash; the value row holds the (constant) value provided each date is new when the loop
    reaches it (`FreshDates`; the code skips the value write on a repeated date) -/
theorem updLoop_dead_rows {cfg : Cfg K} :
    ∀ (ds : List Nat) {w w' : World K}, w.bankrupt = true → DeadSettled w.root → updLoop cfg ds w = .ok w' →
      ∀ d ∈ ds, (d < (rootRCash w).length → (rootRCash w')[d]? = some (rootCash w)) ∧
        (FreshDates w.root.now ds → d < (rootRValue w).length → (rootRValue w')[d]? = some w.root.value)
  | [], _, _, _, _, _ => fun d hd => by cases hd
  | d0 :: ds, w, w', hb, hd, h => by
    rw [updLoop] at h
    obtain ⟨w1, h1, h⟩ := Except.bind_eq_ok h
    obtain ⟨a1, a2, -, a4, a5⟩ := updRoot_dead hb hd h1
    obtain ⟨r1, r2⟩ := updRoot_rows hb h1
    obtain ⟨-, -, k3, k4⟩ := updLoop_dead_keeps ds a1 a2 h
    have ih := updLoop_dead_rows ds a1 a2 h
    have hl1 : (rootRCash w1).length = (rootRCash w).length := by rw [r1, List.length_set]
    have hl2 : (rootRValue w1).length = (rootRValue w).length := by
      rcases r2 with r2 | ⟨-, r2⟩ <;> simp [r2]
    have hnow := updRoot_now hb h1
    rw [a4] at k3 ih
    rw [a5] at k4 ih
    rw [a4] at r1
    rw [a5] at r2
    intro d hmem
    rcases List.mem_cons.1 hmem with rfl | hmem
    · refine ⟨fun hlt => k3 _ ?_, fun hfr hlt => k4 _ ?_⟩
      · rw [r1]; simp [hlt]
      · rcases r2 with r2 | ⟨hn, -⟩
        · rw [r2]; simp [hlt]
        · exact absurd hn hfr.1
    · refine ⟨fun hlt => (ih d hmem).1 (by rw [hl1]; exact hlt), fun hfr hlt => ?_⟩
      exact (ih d hmem).2 (by rw [hnow]; exact hfr.2) (by rw [hl2]; exact hlt)

/-! ### the position rows of the securities -/

/-- flat, and no entry of the position series at an index in `I` is non-zero -/
def PosRowsZero (I : Nat → Prop) : Node K → Prop :=
  AllSecs (fun s => s.position = 0 ∧ ∀ i, I i → ∀ x, s.rPosition[i]? = some x → x = 0)

theorem set_zero_entries {l : List K} {I : Nat → Prop} (d : Nat)
    (h : ∀ i, I i → ∀ x, l[i]? = some x → x = 0) : ∀ i, I i → ∀ x, (l.set d 0)[i]? = some x → x = 0 := by
  intro i hi x hx
  rw [List.getElem?_set] at hx
  split at hx
  · split at hx
    · exact (Option.some.inj hx).symm
    · cases hx
  · exact h i hi x hx

/-- `update` on any date records no non-zero position anywhere in a flat tree -/
theorem updNode_posRowsZero {cfg : Cfg K} {d : Nat} {I : Nat → Prop} {n n' : Node K}
    (hz : PosRowsZero I n) (h : updNode cfg d n = .ok n') : PosRowsZero I n' := by
  have hrel := (updNode_treeRel (cfg := cfg) (d := d) (P := fun _ _ _ _ => True)
    (S := fun s s' => s.position = 0 →
      s'.position = 0 ∧ (s'.rPosition = s.rPosition ∨ s'.rPosition = s.rPosition.set d 0))
    (fun _ _ _ _ _ => trivial) (fun _ _ _ _ _ _ => trivial)
    (fun newpt s acc s' hs hp => by
      have st := secUpdate_flat (s := (sweepSec newpt s acc).1) (by simpa using hp) hs
      exact ⟨st.position, by simpa using st.rPosition⟩)
    (fun newpt s acc _ hp => ⟨by simpa using hp, .inl (by simp)⟩)
    (fun _ _ _ h => h)).1 n n' h
  refine (TreeRel.transfer (A := fun s => s.position = 0 ∧ ∀ i, I i → ∀ x, s.rPosition[i]? = some x → x = 0)
    (B := fun s => s.position = 0 ∧ ∀ i, I i → ∀ x, s.rPosition[i]? = some x → x = 0) ?_).1 n n' hrel hz
  intro s s' hS ha
  obtain ⟨hp, hr⟩ := hS ha.1
  refine ⟨hp, ?_⟩
  rcases hr with hr | hr
  · rw [hr]; exact ha.2
  · rw [hr]; exact set_zero_entries d ha.2

theorem updLoop_posRowsZero {cfg : Cfg K} {I : Nat → Prop} :
    ∀ (ds : List Nat) {w w' : World K}, w.bankrupt = true → PosRowsZero I w.root →
      updLoop cfg ds w = .ok w' → PosRowsZero I w'.root
  | [], w, w', _, hz, h => by cases h; exact hz
  | d :: ds, w, w', hb, hz, h => by
    rw [updLoop] at h
    obtain ⟨w1, h1, h⟩ := Except.bind_eq_ok h
    exact updLoop_posRowsZero ds (updRoot_bankrupt_mono hb h1)
      (updNode_posRowsZero hz (updRoot_bankrupt_inv hb h1).1) h

/-! ### the first later date after a liquidation -/

/-- `root.update` on a date that is new for every node of a flagged flat tree: the parked cash is swept,
    everything is rewritten, and the tree is `DeadSettled` -/
theorem updRoot_settle {cfg : Cfg K} {d : Nat} {w w' : World K} (hb : w.bankrupt = true)
    (hf : allFlat w.root) (hfr : Fresh d w.root) (h : updRoot cfg d w = .ok w') :
    w'.bankrupt = true ∧ DeadSettled w'.root ∧ w'.root.value = cashBelow w.root ∧
      rootCash w' = rootCash w + parkedCash (rootKids w) := by
  have hb' := updRoot_bankrupt_mono hb h
  obtain ⟨hn, -⟩ := updRoot_bankrupt_inv hb h
  obtain ⟨sd, kids, st, rfl, -⟩ := bankrupt_root hb
  obtain ⟨h1, h2, h3⟩ := updNode_settle hf hfr hn
  refine ⟨hb', h1, h2, ?_⟩
  have e := rootCash_eq_head w' hb'
  rw [h3] at e
  exact (Option.some.inj e).symm

/-- a flagged flat tree from the first later date on: that date's `update` sweeps the parked cash and settles
    the tree, the later ones change nothing; the rows of all those dates hold the final constants -/
theorem updLoop_settle {cfg : Cfg K} {d1 : Nat} {ds : List Nat} {w w' : World K} (hb : w.bankrupt = true)
    (hf : allFlat w.root) (hfr : Fresh d1 w.root) (h : updLoop cfg (d1 :: ds) w = .ok w') :
    w'.bankrupt = true ∧ DeadSettled w'.root ∧
      rootCash w' = rootCash w + parkedCash (rootKids w) ∧ w'.root.value = cashBelow w.root ∧
      ∀ d ∈ d1 :: ds,
        (d < (rootRCash w).length → (rootRCash w')[d]? = some (rootCash w + parkedCash (rootKids w))) ∧
        (FreshDates (some d1) ds → d < (rootRValue w).length →
          (rootRValue w')[d]? = some (cashBelow w.root)) := by
  rw [updLoop] at h
  obtain ⟨w2, h1, h⟩ := Except.bind_eq_ok h
  obtain ⟨a1, a2, a3, a4⟩ := updRoot_settle hb hf hfr h1
  obtain ⟨b1, b2, -, b4, b5⟩ := updLoop_dead ds a1 a2 h
  obtain ⟨r1, r2⟩ := updRoot_rows hb h1
  obtain ⟨-, -, k3, k4⟩ := updLoop_dead_keeps ds a1 a2 h
  have rows := updLoop_dead_rows ds a1 a2 h
  have hnow := updRoot_now hb h1
  have hl1 : (rootRCash w2).length = (rootRCash w).length := by rw [r1, List.length_set]
  have hl2 : (rootRValue w2).length = (rootRValue w).length := by
    rcases r2 with r2 | ⟨-, r2⟩ <;> simp [r2]
  have hnew : w.root.now ≠ some d1 := by
    obtain ⟨sd, kids, st, rfl, -⟩ := bankrupt_root hb
    simp only [Fresh, treeAll_strat] at hfr
    exact hfr.1
  rw [a4] at k3 rows r1
  rw [a3] at k4 rows r2
  refine ⟨b1, b2, b4.trans a4, b5.trans a3, ?_⟩
  intro d hmem
  rcases List.mem_cons.1 hmem with rfl | hmem
  · refine ⟨fun hlt => k3 _ ?_, fun _ hlt => k4 _ ?_⟩
    · rw [r1]; simp [hlt]
    · rcases r2 with r2 | ⟨hn, -⟩
      · rw [r2]; simp [hlt]
      · exact absurd hn hnew
  · refine ⟨fun hlt => (rows d hmem).1 (by rw [hl1]; exact hlt), fun hfd hlt => ?_⟩
    exact (rows d hmem).2 (by rw [hnow]; exact hfd) (by rw [hl2]; exact hlt)

end Bt.P16
