import Bt.Algos.ProgramS
import Bt.Proofs.ProgramW
/-! Helper lemmas for `Bt.Props.C06_progs`: programs whose algo objects remember (`Bt/Algos/ProgramS.lean`:
    `run_always(RebalanceOverTime(n))`, `GTreeS`, `simRunGS`).  (1) the memoryless programs are an instance: lifting every node
    of a `GTree` (`liftTree`) and running the tree with memories gives the worlds of `treeRunG` / `simRunG` and hands the lifted
    tree back; (2) the stack up to its last algo (`stackWeights`) is what `progRunX` computes before `Rebalance`;
    (3) the countdown of `RebalanceOverTime`. -/
set_option linter.unusedSectionVars false
namespace Bt.PProgS
open Bt Bt.P08 Bt.P04 Bt.Prog Bt.PProg Bt.PProgX Bt.PProgW Bt.Select Bt.Weigh

section eqs
variable {α : Type}

theorem treeRunGS_node (f : List Nat → RunFnS α) (m : Mem α) (kids : List (Option (GTreeS α))) (path : List Nat)
    (d : Nat) (w : World α) :
    treeRunGS (.node f m kids) path d w =
      (f path d m w).bind fun r => (kidsRunGS kids path 0 d r.2).map fun q => (.node f r.1 q.1, q.2) := by
  rw [treeRunGS]

theorem kidsRunGS_nil (path : List Nat) (i d : Nat) (w : World α) :
    kidsRunGS ([] : List (Option (GTreeS α))) path i d w = .ok ([], w) := by
  rw [kidsRunGS]; rfl

theorem kidsRunGS_none (ks : List (Option (GTreeS α))) (path : List Nat) (i d : Nat) (w : World α) :
    kidsRunGS (none :: ks) path i d w = (kidsRunGS ks path (i + 1) d w).map fun q => (none :: q.1, q.2) := by
  rw [kidsRunGS]

theorem kidsRunGS_some (t : GTreeS α) (ks : List (Option (GTreeS α))) (path : List Nat) (i d : Nat) (w : World α) :
    kidsRunGS (some t :: ks) path i d w =
      (treeRunGS t (path ++ [i]) d w).bind fun r =>
        (kidsRunGS ks path (i + 1) d r.2).map fun q => (some r.1 :: q.1, q.2) := by
  rw [kidsRunGS]

mutual
/-- every node of a memoryless tree lifted, all memories empty -/
def liftTree : GTree α → GTreeS α
  | .node f kids => .node (liftS f) none (liftTreeL kids)
def liftTreeL : List (Option (GTree α)) → List (Option (GTreeS α))
  | [] => []
  | none :: ks => none :: liftTreeL ks
  | some t :: ks => some (liftTree t) :: liftTreeL ks
end

theorem liftTree_node (f : List Nat → RunFn α) (kids : List (Option (GTree α))) :
    liftTree (.node f kids) = .node (liftS f) none (liftTreeL kids) := by rw [liftTree]
theorem liftTreeL_nil : liftTreeL ([] : List (Option (GTree α))) = [] := by rw [liftTreeL]
theorem liftTreeL_none (ks : List (Option (GTree α))) : liftTreeL (none :: ks) = none :: liftTreeL ks := by
  rw [liftTreeL]
theorem liftTreeL_some (t : GTree α) (ks : List (Option (GTree α))) :
    liftTreeL (some t :: ks) = some (liftTree t) :: liftTreeL ks := by rw [liftTreeL]

mutual
def liftSim : SimG α → SimGS α
  | .mk w t papers => .mk w (liftTree t) (liftPapers papers)
def liftPapers : List (List Nat × SimG α) → List (List Nat × SimGS α)
  | [] => []
  | (q, s) :: rest => (q, liftSim s) :: liftPapers rest
end

theorem liftSim_mk (w : World α) (t : GTree α) (papers : List (List Nat × SimG α)) :
    liftSim (.mk w t papers) = .mk w (liftTree t) (liftPapers papers) := by rw [liftSim]
theorem liftPapers_nil : liftPapers ([] : List (List Nat × SimG α)) = [] := by rw [liftPapers]
theorem liftPapers_cons (q : List Nat) (s : SimG α) (rest : List (List Nat × SimG α)) :
    liftPapers ((q, s) :: rest) = (q, liftSim s) :: liftPapers rest := by rw [liftPapers]

theorem liftSim_world (s : SimG α) : (liftSim s).world = s.world := by
  obtain ⟨w, t, papers⟩ := s
  rw [liftSim_mk]; rfl

end eqs

section lift
variable {K : Type} [Field K] [LinearOrder K] [IsStrictOrderedRing K] [HasFloor K]
variable {cfg : Cfg K}

theorem map_bind'' {ε α β γ : Type} (x : Except ε α) (f : α → β) (g : β → Except ε γ) :
    (x.map f).bind g = x.bind fun a => g (f a) := by cases x <;> rfl

mutual
/-- **memoryless trees are an instance**: running the lifted tree gives the world of `treeRunG` and hands the lifted tree back -/
theorem treeRunGS_lift : (t : GTree K) → ∀ (path : List Nat) (d : Nat) (w : World K),
    treeRunGS (liftTree t) path d w = (treeRunG t path d w).map fun w' => (liftTree t, w')
  | .node f kids, path, d, w => by
    rw [liftTree_node, treeRunGS_node, treeRunG_node]
    unfold liftS
    rw [map_bind'', PProgX.bind_map']
    refine P09.bind_congr' _ fun w1 _ => ?_
    rw [kidsRunGS_lift kids path 0 d w1, PProgX.map_map']
theorem kidsRunGS_lift : (ks : List (Option (GTree K))) → ∀ (path : List Nat) (i d : Nat) (w : World K),
    kidsRunGS (liftTreeL ks) path i d w = (kidsRunG ks path i d w).map fun w' => (liftTreeL ks, w')
  | [], path, i, d, w => by rw [liftTreeL_nil, kidsRunGS_nil, kidsRunG_nil]; rfl
  | none :: ks, path, i, d, w => by
    rw [liftTreeL_none, kidsRunGS_none, kidsRunG_none, kidsRunGS_lift ks path (i + 1) d w, PProgX.map_map']
  | some t :: ks, path, i, d, w => by
    rw [liftTreeL_some, kidsRunGS_some, kidsRunG_some, treeRunGS_lift t, map_bind'', PProgX.bind_map']
    refine P09.bind_congr' _ fun w1 _ => ?_
    rw [kidsRunGS_lift ks path (i + 1) d w1, PProgX.map_map']
end

theorem btDayS_lift (t : GTree K) (d : Nat) (w : World K) :
    btDayS cfg (liftTree t) d w = (btDay cfg (treeRunG t []) d w).map fun w' => (liftTree t, w') := by
  unfold btDayS btDay
  rw [PProgX.bind_map']
  refine P09.bind_congr' _ fun w1 _ => ?_
  split
  · rfl
  · rw [treeRunGS_lift, map_bind'', PProgX.bind_map']

theorem simDayGS_mk (d : Nat) (w : World K) (t : GTreeS K) (papers : List (List Nat × SimGS K)) :
    simDayGS cfg d (.mk w t papers) =
      (simPapersGS cfg d papers w).bind fun r =>
        (btDayS cfg t d r.2).map fun q => SimGS.mk q.2 q.1 r.1 := by
  rw [simDayGS]

theorem simPapersGS_nil (d : Nat) (w : World K) : simPapersGS cfg d [] w = .ok ([], w) := by
  rw [simPapersGS]; rfl

theorem simPapersGS_cons (d : Nat) (path : List Nat) (s : SimGS K) (rest : List (List Nat × SimGS K)) (w : World K) :
    simPapersGS cfg d ((path, s) :: rest) w =
      (simDayGS cfg d s).bind fun s' =>
        (simPapersGS cfg d rest { w with root := setPaperPx s'.world.price path w.root }).map fun r =>
          ((path, s') :: r.1, r.2) := by
  rw [simPapersGS]

theorem simLoopGS_cons (d : Nat) (ds : List Nat) (s : SimGS K) :
    simLoopGS cfg (d :: ds) s = (simDayGS cfg d s).bind (simLoopGS cfg ds) := rfl

theorem simDayGS0_mk (d : Nat) (w : World K) (t : GTreeS K) (papers : List (List Nat × SimGS K)) :
    simDayGS0 cfg d (.mk w t papers) =
      (simPapersGS0 cfg d papers w).bind fun r =>
        (updRoot cfg d r.2).map fun w2 => SimGS.mk w2 t r.1 := by
  rw [simDayGS0]

theorem simPapersGS0_nil (d : Nat) (w : World K) : simPapersGS0 cfg d [] w = .ok ([], w) := by
  rw [simPapersGS0]; rfl

theorem simPapersGS0_cons (d : Nat) (path : List Nat) (s : SimGS K) (rest : List (List Nat × SimGS K)) (w : World K) :
    simPapersGS0 cfg d ((path, s) :: rest) w =
      (simDayGS0 cfg d s).bind fun s' =>
        (simPapersGS0 cfg d rest { w with root := setPaperPx s'.world.price path w.root }).map fun r =>
          ((path, s') :: r.1, r.2) := by
  rw [simPapersGS0]

theorem simRunGS_mk (c : K) (d0 : Nat) (ds : List Nat) (w0 : World K) (t : GTreeS K)
    (papers : List (List Nat × SimGS K)) :
    simRunGS cfg c (d0 :: ds) (.mk w0 t papers) =
      (opAdjust w0 [] c true true).bind fun w1 =>
      (simPapersGS0 cfg d0 papers w1).bind fun r =>
      (updRoot cfg d0 r.2).bind fun w3 => simLoopGS cfg ds (.mk w3 t r.1) := rfl

mutual
/-- one date of a nested backtest: stepping the lifted `SimG` is the lifting of the stepped `SimG` -/
theorem simDayGS_lift (d : Nat) : (s : SimG K) → simDayGS cfg d (liftSim s) = (simDayG cfg d s).map liftSim
  | .mk w t papers => by
    rw [liftSim_mk, simDayGS_mk, simDayG_mk, simPapersGS_lift d papers w, map_bind'', PProgX.bind_map']
    refine P09.bind_congr' _ fun r _ => ?_
    rw [btDayS_lift, PProgX.map_map', PProgX.map_map']
    simp only [liftSim_mk]
theorem simPapersGS_lift (d : Nat) : (ps : List (List Nat × SimG K)) → ∀ (w : World K),
    simPapersGS cfg d (liftPapers ps) w = (simPapersG cfg d ps w).map fun r => (liftPapers r.1, r.2)
  | [], w => by rw [liftPapers_nil, simPapersGS_nil, simPapersG_nil]; rfl
  | (q, s) :: rest, w => by
    rw [liftPapers_cons, simPapersGS_cons, simPapersG_cons, simDayGS_lift d s, map_bind'', PProgX.bind_map']
    refine P09.bind_congr' _ fun s' _ => ?_
    rw [liftSim_world, simPapersGS_lift d rest, PProgX.map_map', PProgX.map_map']
    simp only [liftPapers_cons]
end

mutual
/-- the first date: updating the lifted `SimG` (and its shadow copies) is the lifting of the updated `SimG` -/
theorem simDayGS0_lift (d : Nat) : (s : SimG K) → simDayGS0 cfg d (liftSim s) = (simDayG0 cfg d s).map liftSim
  | .mk w t papers => by
    rw [liftSim_mk, simDayGS0_mk, simDayG0_mk, simPapersGS0_lift d papers w, map_bind'', PProgX.bind_map']
    refine P09.bind_congr' _ fun r _ => ?_
    rw [PProgX.map_map']
    simp only [liftSim_mk]
theorem simPapersGS0_lift (d : Nat) : (ps : List (List Nat × SimG K)) → ∀ (w : World K),
    simPapersGS0 cfg d (liftPapers ps) w = (simPapersG0 cfg d ps w).map fun r => (liftPapers r.1, r.2)
  | [], w => by rw [liftPapers_nil, simPapersGS0_nil, simPapersG0_nil]; rfl
  | (q, s) :: rest, w => by
    rw [liftPapers_cons, simPapersGS0_cons, simPapersG0_cons, simDayGS0_lift d s, map_bind'', PProgX.bind_map']
    refine P09.bind_congr' _ fun s' _ => ?_
    rw [liftSim_world, simPapersGS0_lift d rest, PProgX.map_map', PProgX.map_map']
    simp only [liftPapers_cons]
end

theorem simLoopGS_lift : ∀ (ds : List Nat) (s : SimG K),
    simLoopGS cfg ds (liftSim s) = (simLoopG cfg ds s).map liftSim
  | [], s => rfl
  | d :: ds, s => by
    rw [simLoopGS_cons, simLoopG_cons, simDayGS_lift, map_bind'', PProgX.bind_map']
    exact P09.bind_congr' _ fun s1 _ => simLoopGS_lift ds s1

/-- **`Backtest.run` of a nested tree without memories**: the run with memories (`simRunGS`, what the driver executes for
    `wholeruns`) of the lifted backtest is the lifting of `simRunG` -/
theorem simRunGS_lift (c : K) (dates : List Nat) (s : SimG K) :
    simRunGS cfg c dates (liftSim s) = (simRunG cfg c dates s).map liftSim := by
  obtain ⟨w0, t, papers⟩ := s
  cases dates with
  | nil => rw [liftSim_mk]; rfl
  | cons d0 ds =>
    rw [liftSim_mk, simRunGS_mk, simRunG_mk, PProgX.bind_map']
    refine P09.bind_congr' _ fun w1 _ => ?_
    rw [simPapersGS0_lift, map_bind'', PProgX.bind_map']
    refine P09.bind_congr' _ fun r _ => ?_
    rw [PProgX.bind_map']
    refine P09.bind_congr' _ fun w3 _ => ?_
    rw [← simLoopGS_lift, liftSim_mk]

end lift

section stack
variable {K : Type} [Field K] [LinearOrder K] [IsStrictOrderedRing K] [HasFloor K] [HasNatFloor K]
variable {cfg : Cfg K}

/-- what a stack does once it is through: `Rebalance` on the weights (`progRunX`'s last algo) -/
def finishX (cfg : Cfg K) (p : ProgX K) (path : List Nat) (w : World K) :
    Option (World K × List (Nat × K)) → Except Err (World K)
  | none => pure w
  | some s => algoRebalance cfg s.1 path s.2 p.cash none

/-- **`stackWeights` is `progRunX` without its last algo** -/
theorem progRunX_eq_stackWeights (p : ProgX K) (path : List Nat) (d : Nat) (w : World K) :
    progRunX cfg p path d w = (stackWeights cfg p path d w).bind (finishX cfg p path w) := by
  unfold progRunX stackWeights
  cases hg : p.gate.getD d false with
  | false => rfl
  | true =>
    simp only [↓reduceIte]
    cases hn : w.root.get? path with
    | none => rfl
    | some n =>
      cases n with
      | sec s => rfl
      | strat sd kids =>
        simp only
        cases hs : selSteps (tableOf p.ucols kids d) d p.sels none with
        | error e => rfl
        | ok r =>
          cases r with
          | none => rfl
          | some sel =>
            simp only
            cases hwx : weigherX p d sel with
            | error e => rfl
            | ok r =>
              cases r with
              | none => rfl
              | some ws0 => show _ = ((postSteps cfg path p.post (w, ws0)).map some).bind (finishX cfg p path w); rw [map_bind'']; rfl

/-! ### the countdown -/

theorem memAfter_one (tw : List (Nat × K)) : memAfter tw (1 : K) = none := by
  unfold memAfter isZeroExact
  simp

theorem memAfter_ne_one (tw : List (Nat × K)) (left : K) (h : left ≠ 1) : memAfter tw left = some (tw, left - 1) := by
  unfold memAfter isZeroExact
  have : left - 1 ≠ 0 := sub_ne_zero.mpr h
  rcases lt_or_gt_of_ne this with h1 | h1
  · simp [h1]
  · simp [h1, not_lt.mpr h1.le]

/-- `k + 1` calls after being armed with `k + 1` periods the object is disarmed; before that it still holds the target
    with the remaining number of periods -/
def countdown (tw : List (Nat × K)) : Nat → Mem K → Mem K
  | 0, m => m
  | j + 1, m => countdown tw j (m.bind fun s => memAfter s.1 s.2)

theorem countdown_armed (tw : List (Nat × K)) : ∀ (j k : Nat), j ≤ k →
    countdown tw j (some (tw, ((k + 1 : Nat) : K))) = some (tw, ((k + 1 - j : Nat) : K))
  | 0, k, _ => rfl
  | j + 1, k, h => by
    have hk : 1 ≤ k := by omega
    have hne : ((k + 1 : Nat) : K) ≠ 1 := by
      have : (k + 1 : Nat) ≠ 1 := by omega
      exact_mod_cast this
    have e : ((k + 1 : Nat) : K) - 1 = ((k - 1 + 1 : Nat) : K) := by
      have : k - 1 + 1 = k := by omega
      rw [this]; push_cast; ring
    rw [countdown]
    simp only [Option.bind_some]
    rw [memAfter_ne_one tw _ hne, e, countdown_armed tw j (k - 1) (by omega)]
    congr 3
    omega

theorem countdown_disarms (tw : List (Nat × K)) (k : Nat) :
    countdown tw (k + 1) (some (tw, ((k + 1 : Nat) : K))) = none := by
  have h := countdown_armed tw k k (le_refl k)
  have e : ∀ (j : Nat) (m : Mem K), countdown tw (j + 1) m = (countdown tw j m).bind fun s => memAfter s.1 s.2 := by
    intro j
    induction j with
    | zero => intro m; rfl
    | succ i ih => intro m; rw [countdown, ih]; rfl
  rw [e, h]
  have : ((k + 1 - k : Nat) : K) = 1 := by
    have : k + 1 - k = 1 := by omega
    rw [this]; simp
  simp only [Option.bind_some, this]
  exact memAfter_one tw

end stack

end Bt.PProgS

/-! ### a concrete program with memory for the `example`s of `Bt.Props.C06_progs` -/
namespace Bt.PProgS
open Bt Bt.Prog Bt.PProg Bt.PProgX Bt.PProgW Bt.Select Bt.Weigh

/-- `[RunPeriod (row 1 only), SelectAll, WeighSpecified(70/20/10), run_always(RebalanceOverTime(2))]` over `x`, `y`, `z` -/
def progWS : ProgX Rat :=
  { gate := [false, true, false, false], ucols := [0, 1, 2], sels := [.all false false], wgh := .specified wsW }

def gtreeWS : GTreeS Rat := .node (progRunXS cfgE progWS 2) none [none, none, none]
def simWS : SimGS Rat := .mk wXA gtreeWS []

/-- the memory of the root's algo object -/
def SimGS.rootMem : SimGS Rat → Mem Rat
  | .mk _ (.node _ m _) _ => m

end Bt.PProgS
