import Bt.Algos.Risk
import Bt.Proofs.Basic
import Mathlib.Algebra.Order.Field.Basic
import Mathlib.Tactic.Ring
import Mathlib.Tactic.Linarith
/-! Helper lemmas for C20 (risk, hedges, close, roll): dicts, NaN arithmetic, the risk pass over a tree,
    linear exposure, transactions on the children, the lifecycle passes. -/
set_option linter.unusedSectionVars false
set_option linter.unusedSimpArgs false
set_option linter.unusedVariables false
namespace Bt.Risk
open Bt

/-! ### dicts -/
section Dict
variable {β : Type}

@[simp] theorem dget_nil (k : Nat) : dget ([] : Dict β) k = none := rfl

theorem dget_cons (k' : Nat) (v : β) (t : Dict β) (k : Nat) :
    dget ((k', v) :: t) k = if k' = k then some v else dget t k := rfl

theorem dget_dset_same (d : Dict β) (k : Nat) (v : β) : dget (dset d k v) k = some v := by
  induction d with
  | nil => simp [dset, dget_cons]
  | cons p t ih =>
    obtain ⟨k', v'⟩ := p
    by_cases h : k' = k
    · simp [dset, h, dget_cons]
    · simp [dset, h, dget_cons, ih]

theorem dget_dset_other (d : Dict β) (k k2 : Nat) (v : β) (h : k ≠ k2) : dget (dset d k v) k2 = dget d k2 := by
  induction d with
  | nil => simp [dset, dget_cons, h]
  | cons p t ih =>
    obtain ⟨k', v'⟩ := p
    by_cases h1 : k' = k
    · subst h1; simp [dset, dget_cons, h]
    · simp only [dset, h1, ↓reduceIte, dget_cons, ih]

theorem lookup_eq_dget (d : Dict β) (k : Nat) : d.lookup k = dget d k := by
  induction d with
  | nil => rfl
  | cons p t ih =>
    obtain ⟨k', v⟩ := p
    by_cases h : k' = k
    · subst h; simp [List.lookup, dget_cons]
    · have h' : (k == k') = false := by simpa using fun e => h e.symm
      simp [List.lookup, dget_cons, h, h', ih]

theorem mem_addName (l : List Nat) (n x : Nat) : x ∈ addName l n ↔ x ∈ l ∨ x = n := by
  unfold addName
  split
  · rename_i h
    have hn : n ∈ l := by simpa using h
    constructor
    · exact Or.inl
    · rintro (h | rfl); exact h; exact hn
  · simp

theorem subset_addName (l : List Nat) (n : Nat) : ∀ x ∈ l, x ∈ addName l n := fun x hx =>
  (mem_addName l n x).2 (Or.inl hx)

end Dict

/-! ### numbers that may be NaN -/
section ONum
variable {K : Type} [Field K] [LinearOrder K] [IsStrictOrderedRing K]

@[simp] theorem oadd_some (x y : K) : oadd (some x) (some y) = some (x + y) := rfl
@[simp] theorem oadd_none_left (y : Option K) : oadd none y = none := by cases y <;> rfl
@[simp] theorem oadd_none_right (x : Option K) : oadd x none = none := by cases x <;> rfl
@[simp] theorem omul_some (x y : K) : omul (some x) (some y) = some (x * y) := rfl
@[simp] theorem oneg_some (x : K) : oneg (some x) = some (-x) := rfl

theorem oadd_assoc (a b c : Option K) : oadd (oadd a b) c = oadd a (oadd b c) := by
  cases a <;> cases b <;> cases c <;> simp [add_assoc]

theorem oadd_comm (a b : Option K) : oadd a b = oadd b a := by
  cases a <;> cases b <;> simp [add_comm]

@[simp] theorem oadd_zero_left (a : Option K) : oadd (some 0) a = a := by cases a <;> simp
@[simp] theorem oadd_zero_right (a : Option K) : oadd a (some 0) = a := by cases a <;> simp

/-- NaN-propagating sum of a list. -/
def osum : List (Option K) → Option K
  | [] => some 0
  | a :: t => oadd a (osum t)

@[simp] theorem osum_nil : osum ([] : List (Option K)) = some 0 := rfl
@[simp] theorem osum_cons (a : Option K) (t : List (Option K)) : osum (a :: t) = oadd a (osum t) := rfl

theorem osum_append (l1 l2 : List (Option K)) : osum (l1 ++ l2) = oadd (osum l1) (osum l2) := by
  induction l1 with
  | nil => simp
  | cons a t ih => simp [ih, oadd_assoc]

theorem osum_map_some (l : List K) : osum (l.map some) = some l.sum := by
  induction l with
  | nil => rfl
  | cons a t ih => simp [ih]

end ONum

/-! ### induction over a tree and its child lists -/
theorem Node.induct {α : Type} {motive : Node α → Prop} {motiveL : List (Node α) → Prop}
    (sec : ∀ s, motive (.sec s))
    (strat : ∀ d kids, motiveL kids → motive (.strat d kids))
    (nil : motiveL [])
    (cons : ∀ k ks, motive k → motiveL ks → motiveL (k :: ks)) :
    (∀ n, motive n) ∧ (∀ l, motiveL l) := by
  constructor
  · intro n
    exact Node.rec (motive_1 := motive) (motive_2 := motiveL) sec strat nil cons n
  · intro l
    exact Node.rec_1 (motive_1 := motive) (motive_2 := motiveL) sec strat nil cons l

/-! ### addressing nodes, leaves -/
section Paths
variable {α : Type}

/-- the node at a path of child indices -/
def nodeAt : List Nat → Node α → Option (Node α)
  | [], n => some n
  | i :: p, n => (n.kids[i]?).bind (nodeAt p)

mutual
/-- all securities below a node, depth first in child order -/
def leaves : Node α → List (SecD α)
  | .sec s => [s]
  | .strat _ kids => leavesL kids
def leavesL : List (Node α) → List (SecD α)
  | [] => []
  | k :: ks => leaves k ++ leavesL ks
end

@[simp] theorem nodeAt_nil (n : Node α) : nodeAt [] n = some n := rfl
theorem nodeAt_cons (i : Nat) (p : List Nat) (n : Node α) : nodeAt (i :: p) n = (n.kids[i]?).bind (nodeAt p) := rfl

end Paths

/-! ### the attribute bookkeeping of UpdateRisk -/
section Attrs
variable {K : Type} [Field K] [LinearOrder K] [IsStrictOrderedRing K]

theorem setupRisk_risks_false (a : Attrs K) : (setupRisk false a).risks = a.risks := by
  unfold setupRisk; split <;> simp

theorem setupMeasure_risks_false {m : Nat} {a a' : Attrs K} (h : setupMeasure m false a = .ok a') :
    a'.risks = a.risks := by
  unfold setupMeasure at h
  split at h
  · cases h; rfl
  · simp at h; cases h; rfl

theorem prepAttrs_risks_false {m : Nat} {a a' : Attrs K} (h : prepAttrs m false a = .ok a') : a'.risks = a.risks := by
  unfold prepAttrs at h
  rw [setupMeasure_risks_false h]
  simp [ensureRisks, setupRisk_risks_false]

/-- the set-up never raises, and with history the frame exists afterwards -/
theorem prepAttrs_total (m : Nat) (b : Bool) (a : Attrs K) :
    ∃ a', prepAttrs m b a = .ok a' ∧ (b = true → a'.risks.isSome = true) := by
  unfold prepAttrs setupMeasure
  cases b with
  | false =>
    simp only [ensureRisks, Bool.false_eq_true, ↓reduceIte]
    split
    · exact ⟨_, rfl, fun h => by cases h⟩
    · exact ⟨_, rfl, fun h => by cases h⟩
  | true =>
    have hs : ∃ fr, (ensureRisks true (setupRisk true a)).risks = some fr := by
      unfold ensureRisks
      simp only [↓reduceIte]
      split
      · rename_i fr hfr; exact ⟨fr, hfr⟩
      · exact ⟨[], rfl⟩
    obtain ⟨fr, hfr⟩ := hs
    split
    · exact ⟨_, rfl, fun _ => by rw [hfr]; rfl⟩
    · simp only [↓reduceIte, hfr]
      exact ⟨_, rfl, fun _ => rfl⟩

theorem storeRisk_total (m : Nat) (b : Bool) (now : Nat) (v : Option K) (a : Attrs K) (h : b = true → a.risks.isSome = true) :
    ∃ a', storeRisk m b now v a = .ok a' := by
  unfold storeRisk
  cases b with
  | false => exact ⟨_, rfl⟩
  | true =>
    simp only [↓reduceIte]
    cases hr : a.risks with
    | none => rw [hr] at h; simp at h
    | some fr => exact ⟨_, rfl⟩

/-- `risks.loc[d, m]` of an attribute record -/
def histA (a : Attrs K) (m d : Nat) : Option K := ((((a.risks.getD []).lookup m).getD []).lookup d).join

theorem prepAttrs_known_rows {m : Nat} {b : Bool} {a a' : Attrs K} (hk : (dget (a.risk.getD []) m).isSome = true)
    (h : prepAttrs m b a = .ok a') : ∀ m2 d, histA a' m2 d = histA a m2 d := by
  have hr : ∃ r, a.risk = some r := by
    cases hr : a.risk with
    | none => rw [hr] at hk; simp at hk
    | some r => exact ⟨r, rfl⟩
  obtain ⟨r, hr⟩ := hr
  have h1 : setupRisk b a = a := by unfold setupRisk; rw [hr]
  unfold prepAttrs at h
  rw [h1] at h
  have h2 : (ensureRisks b a).risk = a.risk := by
    unfold ensureRisks; split
    · split <;> rfl
    · rfl
  unfold setupMeasure at h
  rw [h2, hk] at h
  simp only [↓reduceIte] at h
  cases h
  intro m2 d
  unfold histA ensureRisks
  split
  · split
    · rfl
    · rename_i hn; simp [hn]
  · rfl

theorem storeRisk_other_rows {m now : Nat} {b : Bool} {v : Option K} {a a' : Attrs K}
    (h : storeRisk m b now v a = .ok a') (d : Nat) (hd : d ≠ now) : histA a' m d = histA a m d := by
  unfold storeRisk at h
  split at h
  · split at h
    · cases h
    · rename_i fr hfr
      cases h
      unfold histA
      simp only [hfr, Option.getD_some, lookup_eq_dget, dget_dset_same, dget_dset_other _ _ _ _ (Ne.symm hd)]
  · cases h; rfl

theorem storeRisk_risks_false {m now : Nat} {v : Option K} {a a' : Attrs K}
    (h : storeRisk m false now v a = .ok a') : a'.risks = a.risks := by
  unfold storeRisk at h; simp at h; cases h; rfl

theorem storeRisk_risk {m now : Nat} {hist : Bool} {v : Option K} {a a' : Attrs K}
    (h : storeRisk m hist now v a = .ok a') : ((a'.risk.getD []).lookup m).join = v := by
  unfold storeRisk at h
  split at h
  · split at h
    · cases h
    · cases h; simp [lookup_eq_dget, dget_dset_same]
  · cases h; simp [lookup_eq_dget, dget_dset_same]

theorem storeRisk_hist {m now : Nat} {v : Option K} {a a' : Attrs K}
    (h : storeRisk m true now v a = .ok a') :
    ((((a'.risks.getD []).lookup m).getD []).lookup now).join = v := by
  unfold storeRisk at h
  simp only [↓reduceIte] at h
  split at h
  · cases h
  · cases h; simp [lookup_eq_dget, dget_dset_same]

end Attrs

/-! ### the risk pass -/
section Pass
variable {K : Type} [Field K] [LinearOrder K] [IsStrictOrderedRing K]

theorem setRisk_sec (tol : K) (m history : Nat) (f : Frame K) (rootNow depth : Nat) (s : SecD K) :
    setRisk tol m history f rootNow depth (.sec s) =
      (prepAttrs m (decide (depth < history)) s.attrs).bind fun a1 =>
      (unitRisk f rootNow s.name).bind fun u =>
      (storeRisk m (decide (depth < history)) rootNow (secRisk tol u s.pos s.mult) a1).map fun a2 =>
      .sec { s with attrs := a2 } := by
  rw [setRisk]

theorem setRisk_strat (tol : K) (m history : Nat) (f : Frame K) (rootNow depth : Nat) (d : StratD K) (kids : List (Node K)) :
    setRisk tol m history f rootNow depth (.strat d kids) =
      (prepAttrs m (decide (depth < history)) d.attrs).bind fun a1 =>
      (setRiskKids tol m history f rootNow (depth + 1) kids (some 0)).bind fun r =>
      (storeRisk m (decide (depth < history)) rootNow r.2 a1).map fun a2 =>
      .strat { d with attrs := a2 } r.1 := by
  rw [setRisk]

theorem setRiskKids_nil (tol : K) (m history : Nat) (f : Frame K) (rootNow depth : Nat) (acc : Option K) :
    setRiskKids tol m history f rootNow depth [] acc = .ok ([], acc) := by
  rw [setRiskKids]

theorem setRiskKids_cons (tol : K) (m history : Nat) (f : Frame K) (rootNow depth : Nat) (k : Node K)
    (ks : List (Node K)) (acc : Option K) :
    setRiskKids tol m history f rootNow depth (k :: ks) acc =
      (setRisk tol m history f rootNow depth k).bind fun k' =>
      (setRiskKids tol m history f rootNow depth ks (oadd acc (riskOf m k'))).map fun r => (k' :: r.1, r.2) := by
  rw [setRiskKids]

/-- inversion of one security's pass -/
theorem setRisk_sec_inv {tol : K} {m history : Nat} {f : Frame K} {rootNow depth : Nat} {s : SecD K} {n' : Node K}
    (h : setRisk tol m history f rootNow depth (.sec s) = .ok n') :
    ∃ a1 u a2, prepAttrs m (decide (depth < history)) s.attrs = .ok a1 ∧
      unitRisk f rootNow s.name = .ok u ∧
      storeRisk m (decide (depth < history)) rootNow (secRisk tol u s.pos s.mult) a1 = .ok a2 ∧
      n' = .sec { s with attrs := a2 } := by
  rw [setRisk_sec] at h
  obtain ⟨a1, h1, h⟩ := Except.bind_eq_ok h
  obtain ⟨u, h2, h⟩ := Except.bind_eq_ok h
  obtain ⟨a2, h3, h4⟩ := Except.map_eq_ok h
  exact ⟨a1, u, a2, h1, h2, h3, h4.symm⟩

/-- inversion of one strategy's pass -/
theorem setRisk_strat_inv {tol : K} {m history : Nat} {f : Frame K} {rootNow depth : Nat} {d : StratD K}
    {kids : List (Node K)} {n' : Node K}
    (h : setRisk tol m history f rootNow depth (.strat d kids) = .ok n') :
    ∃ a1 kids' total a2, prepAttrs m (decide (depth < history)) d.attrs = .ok a1 ∧
      setRiskKids tol m history f rootNow (depth + 1) kids (some 0) = .ok (kids', total) ∧
      storeRisk m (decide (depth < history)) rootNow total a1 = .ok a2 ∧
      n' = .strat { d with attrs := a2 } kids' := by
  rw [setRisk_strat] at h
  obtain ⟨a1, h1, h⟩ := Except.bind_eq_ok h
  obtain ⟨⟨kids', total⟩, h2, h⟩ := Except.bind_eq_ok h
  obtain ⟨a2, h3, h4⟩ := Except.map_eq_ok h
  exact ⟨a1, kids', total, a2, h1, h2, h3, h4.symm⟩

theorem setRiskKids_cons_inv {tol : K} {m history : Nat} {f : Frame K} {rootNow depth : Nat} {k : Node K}
    {ks : List (Node K)} {acc : Option K} {out : List (Node K) × Option K}
    (h : setRiskKids tol m history f rootNow depth (k :: ks) acc = .ok out) :
    ∃ k' ks' total, setRisk tol m history f rootNow depth k = .ok k' ∧
      setRiskKids tol m history f rootNow depth ks (oadd acc (riskOf m k')) = .ok (ks', total) ∧
      out = (k' :: ks', total) := by
  rw [setRiskKids_cons] at h
  obtain ⟨k', h1, h⟩ := Except.bind_eq_ok h
  obtain ⟨⟨ks', total⟩, h2, h3⟩ := Except.map_eq_ok h
  exact ⟨k', ks', total, h1, h2, h3.symm⟩

/-- the loop over the children adds up what it has just stored on each child -/
theorem setRiskKids_total {tol : K} {m history : Nat} {f : Frame K} {rootNow depth : Nat} :
    ∀ (ks : List (Node K)) (acc : Option K) (ks' : List (Node K)) (total : Option K),
      setRiskKids tol m history f rootNow depth ks acc = .ok (ks', total) →
      total = oadd acc (osum (ks'.map (riskOf m))) ∧ ks'.length = ks.length := by
  intro ks
  induction ks with
  | nil =>
    intro acc ks' total h
    rw [setRiskKids_nil] at h
    cases h
    simp
  | cons k ks ih =>
    intro acc ks' total h
    obtain ⟨k', ks1, t1, _, h2, h3⟩ := setRiskKids_cons_inv h
    cases h3
    obtain ⟨e, l⟩ := ih _ _ _ h2
    refine ⟨?_, by simp [l]⟩
    rw [e]; simp [oadd_assoc]

theorem riskOf_sec_stored {m now : Nat} {hist : Bool} {v : Option K} {s : SecD K} {a1 a2 : Attrs K}
    (h : storeRisk m hist now v a1 = .ok a2) : riskOf m (.sec { s with attrs := a2 }) = v := by
  unfold riskOf; simpa [Node.attrs] using storeRisk_risk h

theorem riskOf_strat_stored {m now : Nat} {hist : Bool} {v : Option K} {d : StratD K} {ks : List (Node K)}
    {a1 a2 : Attrs K} (h : storeRisk m hist now v a1 = .ok a2) :
    riskOf m (.strat { d with attrs := a2 } ks) = v := by
  unfold riskOf; simpa [Node.attrs] using storeRisk_risk h

/-- the value the pass stores, as a function of the tree alone -/
def leafRisk (tol : K) (cols : List Nat) (row : List (Option K)) (s : SecD K) : Option K :=
  secRisk tol (unitRiskRow cols row s.name) s.pos s.mult

theorem unitRisk_of_row {f : Frame K} {date : Nat} {row : List (Option K)} (h : f.rowAt date = .ok row) (name : Nat) :
    unitRisk f date name = .ok (unitRiskRow f.cols row name) := by
  unfold unitRisk; rw [h]; rfl

theorem unitRisk_ok_row {f : Frame K} {date name : Nat} {u : Option K} (h : unitRisk f date name = .ok u) :
    ∃ row, f.rowAt date = .ok row ∧ u = unitRiskRow f.cols row name := by
  unfold unitRisk at h
  obtain ⟨row, h1, h2⟩ := Except.map_eq_ok h
  exact ⟨row, h1, h2.symm⟩

/-- tree induction: every node ends up with the sum over all securities below it -/
theorem setRisk_sum_aux {tol : K} {m history : Nat} {f : Frame K} {rootNow : Nat} {row : List (Option K)}
    (hrow : f.rowAt rootNow = .ok row) :
    (∀ (n : Node K) (depth : Nat) (n' : Node K), setRisk tol m history f rootNow depth n = .ok n' →
        riskOf m n' = osum ((leaves n).map (leafRisk tol f.cols row))) ∧
    (∀ (ks : List (Node K)) (depth : Nat) (acc : Option K) (ks' : List (Node K)) (total : Option K),
        setRiskKids tol m history f rootNow depth ks acc = .ok (ks', total) →
        total = oadd acc (osum ((leavesL ks).map (leafRisk tol f.cols row)))) := by
  apply Node.induct
  · intro s depth n' h
    obtain ⟨a1, u, a2, _, h2, h3, rfl⟩ := setRisk_sec_inv h
    rw [riskOf_sec_stored h3]
    rw [unitRisk_of_row hrow] at h2
    cases h2
    simp [leaves, leafRisk]
  · intro d kids ih depth n' h
    obtain ⟨a1, kids', total, a2, _, h2, h3, rfl⟩ := setRisk_strat_inv h
    rw [riskOf_strat_stored h3, ih _ _ _ _ h2]
    simp [leaves]
  · intro depth acc ks' total h
    rw [setRiskKids_nil] at h
    cases h
    simp [leavesL]
  · intro k ks ihk ihks depth acc ks' total h
    obtain ⟨k', ks1, t1, h1, h2, h3⟩ := setRiskKids_cons_inv h
    cases h3
    rw [ihks _ _ _ _ h2, ihk _ _ h1]
    simp [leavesL, osum_append, oadd_assoc]

/-- a tree without securities never looks at the frame -/
theorem setRisk_noleaves_aux {tol : K} {m history : Nat} {f : Frame K} {rootNow : Nat} :
    (∀ (n : Node K) (depth : Nat) (n' : Node K), leaves n = [] → setRisk tol m history f rootNow depth n = .ok n' →
        riskOf m n' = some 0) ∧
    (∀ (ks : List (Node K)) (depth : Nat) (acc : Option K) (ks' : List (Node K)) (total : Option K), leavesL ks = [] →
        setRiskKids tol m history f rootNow depth ks acc = .ok (ks', total) → total = acc) := by
  apply Node.induct
  · intro s depth n' hl; simp [leaves] at hl
  · intro d kids ih depth n' hl h
    obtain ⟨a1, kids', total, a2, _, h2, h3, rfl⟩ := setRisk_strat_inv h
    rw [riskOf_strat_stored h3]
    exact ih _ _ _ _ (by simpa [leaves] using hl) h2
  · intro depth acc ks' total _ h
    rw [setRiskKids_nil] at h; cases h; rfl
  · intro k ks ihk ihks depth acc ks' total hl h
    obtain ⟨k', ks1, t1, h1, h2, h3⟩ := setRiskKids_cons_inv h
    cases h3
    simp only [leavesL, List.append_eq_nil_iff] at hl
    rw [ihks _ _ _ _ hl.2 h2, ihk _ _ hl.1 h1]; simp

/-- locality: the sub-tree at a path of the result is the result of the pass on the sub-tree, at that depth -/
theorem setRisk_nodeAt {tol : K} {m history : Nat} {f : Frame K} {rootNow : Nat} :
    ∀ (path : List Nat) (n : Node K) (depth : Nat) (n' : Node K), setRisk tol m history f rootNow depth n = .ok n' →
      ∀ x', nodeAt path n' = some x' →
        ∃ x, nodeAt path n = some x ∧ setRisk tol m history f rootNow (depth + path.length) x = .ok x' := by
  intro path
  induction path with
  | nil =>
    intro n depth n' h x' hx
    simp only [nodeAt_nil, Option.some.injEq] at hx
    subst hx
    exact ⟨n, rfl, by simpa using h⟩
  | cons i p ih =>
    intro n depth n' h x' hx
    cases n with
    | sec s =>
      obtain ⟨a1, u, a2, _, _, _, rfl⟩ := setRisk_sec_inv h
      simp [nodeAt_cons, Node.kids] at hx
    | strat d kids =>
      obtain ⟨a1, kids', total, a2, _, h2, _, rfl⟩ := setRisk_strat_inv h
      simp only [nodeAt_cons, Node.kids] at hx ⊢
      -- the i-th child of the result is the pass on the i-th child
      have key : ∀ (ks : List (Node K)) (acc : Option K) (ks' : List (Node K)) (t : Option K) (i : Nat) (c' : Node K),
          setRiskKids tol m history f rootNow (depth + 1) ks acc = .ok (ks', t) → ks'[i]? = some c' →
          ∃ c, ks[i]? = some c ∧ setRisk tol m history f rootNow (depth + 1) c = .ok c' := by
        intro ks
        induction ks with
        | nil =>
          intro acc ks' t i c' hk hc
          rw [setRiskKids_nil] at hk; cases hk; simp at hc
        | cons k ks ihk =>
          intro acc ks' t i c' hk hc
          obtain ⟨k', ks1, t1, h1, h2', h3⟩ := setRiskKids_cons_inv hk
          cases h3
          cases i with
          | zero => simp at hc; subst hc; exact ⟨k, by simp, h1⟩
          | succ j =>
            simp at hc
            obtain ⟨c, hc1, hc2⟩ := ihk _ _ _ j c' h2' hc
            exact ⟨c, by simpa using hc1, hc2⟩
      cases hki : kids'[i]? with
      | none => simp [hki] at hx
      | some c' =>
        simp only [hki, Option.bind_some] at hx
        obtain ⟨c, hc1, hc2⟩ := key _ _ _ _ i c' h2 hki
        obtain ⟨x, hx1, hx2⟩ := ih c (depth + 1) c' hc2 x' hx
        refine ⟨x, by simp [hc1, hx1], ?_⟩
        have : depth + (p.length + 1) = depth + 1 + p.length := by omega
        simpa [this] using hx2

/-- what one node's own step does to its history: within the depth the value just stored is in the row of the
    current date; beyond it the frame is not touched; a measure the node already knew keeps every other row -/
theorem setRisk_hist_here {tol : K} {m history : Nat} {f : Frame K} {rootNow depth : Nat} {n n' : Node K}
    (h : setRisk tol m history f rootNow depth n = .ok n') :
    n'.now = n.now ∧
    (depth < history → histOf m rootNow n' = riskOf m n') ∧
    (history ≤ depth → n'.attrs.risks = n.attrs.risks) ∧
    ((dget (n.attrs.risk.getD []) m).isSome = true → ∀ d, d ≠ rootNow → histOf m d n' = histOf m d n) := by
  cases n with
  | sec s =>
    obtain ⟨a1, u, a2, h1, _, h3, rfl⟩ := setRisk_sec_inv h
    refine ⟨rfl, ?_, ?_, ?_⟩
    · intro hd
      have hd' : decide (depth < history) = true := by simpa using hd
      rw [hd'] at h3
      rw [riskOf_sec_stored h3]
      unfold histOf; simpa [Node.attrs] using storeRisk_hist h3
    · intro hd
      have hd' : decide (depth < history) = false := by simpa using hd
      rw [hd'] at h1 h3
      simp only [Node.attrs]
      rw [storeRisk_risks_false h3, prepAttrs_risks_false h1]
    · intro hk d hd
      have e1 := storeRisk_other_rows h3 d hd
      have e2 := prepAttrs_known_rows hk h1 m d
      simpa [histOf, histA, Node.attrs] using e1.trans e2
  | strat d kids =>
    obtain ⟨a1, kids', total, a2, h1, _, h3, rfl⟩ := setRisk_strat_inv h
    refine ⟨rfl, ?_, ?_, ?_⟩
    · intro hd
      have hd' : decide (depth < history) = true := by simpa using hd
      rw [hd'] at h3
      rw [riskOf_strat_stored h3]
      unfold histOf; simpa [Node.attrs] using storeRisk_hist h3
    · intro hd
      have hd' : decide (depth < history) = false := by simpa using hd
      rw [hd'] at h1 h3
      simp only [Node.attrs]
      rw [storeRisk_risks_false h3, prepAttrs_risks_false h1]
    · intro hk dd hd
      have e1 := storeRisk_other_rows h3 dd hd
      have e2 := prepAttrs_known_rows hk h1 m dd
      simpa [histOf, histA, Node.attrs] using e1.trans e2

/-- the pass can only fail on the date lookup: whatever attributes earlier calls (of any depth) left behind,
    `UpdateRisk` succeeds as soon as the date is a row of the table -/
theorem setRisk_total_aux {tol : K} {m history : Nat} {f : Frame K} {rootNow : Nat} {row : List (Option K)}
    (hrow : f.rowAt rootNow = .ok row) :
    (∀ (n : Node K) (depth : Nat), ∃ n', setRisk tol m history f rootNow depth n = .ok n') ∧
    (∀ (ks : List (Node K)) (depth : Nat) (acc : Option K), ∃ r, setRiskKids tol m history f rootNow depth ks acc = .ok r) := by
  apply Node.induct
  · intro s depth
    rw [setRisk_sec]
    obtain ⟨a1, h1, hs⟩ := prepAttrs_total m (decide (depth < history)) s.attrs
    obtain ⟨a2, h2⟩ := storeRisk_total m (decide (depth < history)) rootNow
      (secRisk tol (unitRiskRow f.cols row s.name) s.pos s.mult) a1 hs
    exact ⟨_, by rw [h1, unitRisk_of_row hrow]; simp only [Except.bind]; rw [h2]; rfl⟩
  · intro d kids ih depth
    rw [setRisk_strat]
    obtain ⟨a1, h1, hs⟩ := prepAttrs_total m (decide (depth < history)) d.attrs
    obtain ⟨r, hr⟩ := ih (depth + 1) (some 0)
    obtain ⟨a2, h2⟩ := storeRisk_total m (decide (depth < history)) rootNow r.2 a1 hs
    exact ⟨_, by rw [h1]; simp only [Except.bind]; rw [hr]; simp only; rw [h2]; rfl⟩
  · intro depth acc
    exact ⟨_, setRiskKids_nil ..⟩
  · intro k ks ihk ihks depth acc
    obtain ⟨k', hk⟩ := ihk depth
    obtain ⟨r, hr⟩ := ihks depth (oadd acc (riskOf m k'))
    exact ⟨_, by rw [setRiskKids_cons, hk]; simp only [Except.bind]; rw [hr]; rfl⟩

end Pass

/-! ### linear exposure -/
section Lin
variable {K : Type} [Field K] [LinearOrder K] [IsStrictOrderedRing K]

/-- `unit × position × multiplier` summed over all securities below a node (no NaN, no `is_zero` shortcut) -/
def linExpo (u : Nat → K) (n : Node K) : K := ((leaves n).map fun s => u s.name * s.pos * s.mult).sum
def linExpoL (u : Nat → K) (ks : List (Node K)) : K := ((leavesL ks).map fun s => u s.name * s.pos * s.mult).sum

/-- no security holds a non-zero position below `TOL` (`is_zero(position) → position = 0`) -/
def NoDust (tol : K) (n : Node K) : Prop := ∀ s ∈ leaves n, isZero tol s.pos = true → s.pos = 0
def NoDustL (tol : K) (ks : List (Node K)) : Prop := ∀ s ∈ leavesL ks, isZero tol s.pos = true → s.pos = 0

theorem linExpo_strat (u : Nat → K) (d : StratD K) (ks : List (Node K)) : linExpo u (.strat d ks) = linExpoL u ks := by
  simp [linExpo, linExpoL, leaves]

@[simp] theorem linExpoL_nil (u : Nat → K) : linExpoL u ([] : List (Node K)) = 0 := by simp [linExpoL, leavesL]

theorem linExpoL_cons (u : Nat → K) (k : Node K) (ks : List (Node K)) :
    linExpoL u (k :: ks) = linExpo u k + linExpoL u ks := by
  simp [linExpo, linExpoL, leavesL]

theorem linExpo_sec (u : Nat → K) (s : SecD K) : linExpo u (.sec s) = u s.name * s.pos * s.mult := by
  simp [linExpo, leaves]

theorem leafRisk_finite {tol : K} {cols : List Nat} {row : List (Option K)} {u : Nat → K} {s : SecD K}
    (hu : ∀ name, unitRiskRow cols row name = some (u name)) (hd : isZero tol s.pos = true → s.pos = 0) :
    leafRisk tol cols row s = some (u s.name * s.pos * s.mult) := by
  unfold leafRisk secRisk
  rw [hu]
  split
  · rename_i hz; rw [hd hz]; simp
  · rfl

/-- with finite unit risks and no dust the pass stores the linear exposure -/
theorem setRisk_linExpo {tol : K} {m history : Nat} {f : Frame K} {rootNow depth : Nat} {row : List (Option K)}
    {u : Nat → K} {n n' : Node K} (hrow : f.rowAt rootNow = .ok row)
    (hu : ∀ name, unitRiskRow f.cols row name = some (u name)) (hnd : NoDust tol n)
    (h : setRisk tol m history f rootNow depth n = .ok n') : riskOf m n' = some (linExpo u n) := by
  rw [(setRisk_sum_aux hrow).1 n depth n' h]
  have : (leaves n).map (leafRisk tol f.cols row) = ((leaves n).map fun s => u s.name * s.pos * s.mult).map some := by
    rw [List.map_map]
    apply List.map_congr_left
    intro s hs
    exact leafRisk_finite hu (hnd s hs)
  rw [this, osum_map_some]; rfl

end Lin

/-! ### transactions on the children -/
section Trans
variable {K : Type} [Field K] [LinearOrder K] [IsStrictOrderedRing K]

/-- multiplier of the child called `name`: the existing security's, else the lazy child's, else 1 -/
def multOf (env : Env K) : List (Node K) → Nat → K
  | [], name => (dget env.lazy name).getD 1
  | .sec s :: ks, name => if s.name = name then s.mult else multOf env ks name
  | .strat _ _ :: ks, name => multOf env ks name

/-- position of the child security called `name` (0 when there is none) -/
def posOf : List (Node K) → Nat → K
  | [], _ => 0
  | .sec s :: ks, name => if s.name = name then s.pos else posOf ks name
  | .strat _ _ :: ks, name => posOf ks name

/-- `name` is a child security -/
def isKid : List (Node K) → Nat → Bool
  | [], _ => false
  | .sec s :: ks, name => if s.name = name then true else isKid ks name
  | .strat _ _ :: ks, name => isKid ks name

/-- the quantity `SecurityBase.transact` really books -/
def effQ (tol : K) (q : Option K) : K :=
  match q with
  | none => 0
  | some x => if isZero tol x then 0 else x

theorem transactSec_pos (tol : K) (q : Option K) (s : SecD K) : (transactSec tol q s).pos = s.pos + effQ tol q := by
  cases q with
  | none => simp [transactSec, effQ]
  | some x =>
    simp only [transactSec, effQ]
    split <;> simp

theorem transactSec_name (tol : K) (q : Option K) (s : SecD K) : (transactSec tol q s).name = s.name := by
  unfold transactSec; cases q with
  | none => rfl
  | some x => simp only; split <;> rfl

theorem transactSec_mult (tol : K) (q : Option K) (s : SecD K) : (transactSec tol q s).mult = s.mult := by
  unfold transactSec; cases q with
  | none => rfl
  | some x => simp only; split <;> rfl

theorem effQ_some {tol x : K} (h : isZero tol x = true → x = 0) : effQ tol (some x) = x := by
  unfold effQ; simp only; split
  · rename_i hz; exact (h hz).symm
  · rfl

theorem transactKid_nil (env : Env K) (pnow : Nat) (q : Option K) (name : Nat) :
    transactKid env pnow q name [] = .ok [.sec (transactSec env.tol q (mkChild env pnow name))] := by
  rw [transactKid]

theorem transactKid_sec (env : Env K) (pnow : Nat) (q : Option K) (name : Nat) (s : SecD K) (ks : List (Node K)) :
    transactKid env pnow q name (.sec s :: ks) =
      if s.name = name then .ok (.sec (transactSec env.tol q s) :: ks)
      else (transactKid env pnow q name ks).map fun ks' => .sec s :: ks' := by
  rw [transactKid]

theorem transactKid_strat (env : Env K) (pnow : Nat) (q : Option K) (name : Nat) (d : StratD K) (sub ks : List (Node K)) :
    transactKid env pnow q name (.strat d sub :: ks) =
      if d.name = name then .error .notASecurity
      else (transactKid env pnow q name ks).map fun ks' => .strat d sub :: ks' := by
  rw [transactKid]

/-- one transaction moves the linear exposure by `q × unit × multiplier`, the position of that child by `q`,
    and nothing else -/
theorem transactKid_effect (env : Env K) (pnow : Nat) (q : Option K) (name : Nat) (u : Nat → K) :
    ∀ (ks ks' : List (Node K)), transactKid env pnow q name ks = .ok ks' →
      linExpoL u ks' = linExpoL u ks + effQ env.tol q * u name * multOf env ks name ∧
      (∀ n2, multOf env ks' n2 = multOf env ks n2) ∧
      posOf ks' name = posOf ks name + effQ env.tol q ∧
      (∀ n2, n2 ≠ name → posOf ks' n2 = posOf ks n2) ∧
      isKid ks' name = true ∧ (∀ n2, isKid ks n2 = true → isKid ks' n2 = true) := by
  intro ks
  induction ks with
  | nil =>
    intro ks' h
    rw [transactKid_nil] at h; cases h
    refine ⟨?_, ?_, ?_, ?_, ?_, ?_⟩
    · simp only [linExpoL_cons, linExpo_sec, transactSec_pos, transactSec_name, transactSec_mult, mkChild, multOf,
        linExpoL_nil]
      ring
    · intro n2
      simp only [multOf, transactSec_name, transactSec_mult, mkChild]
      split
      · rename_i e; subst e; rfl
      · rfl
    · simp [posOf, transactSec_name, transactSec_pos, mkChild]
    · intro n2 hn; simp [posOf, transactSec_name, mkChild, Ne.symm hn]
    · simp [isKid, transactSec_name, mkChild]
    · intro n2 h2; simp [isKid] at h2
  | cons k ks ih =>
    intro ks' h
    cases k with
    | sec s =>
      rw [transactKid_sec] at h
      by_cases hn : s.name = name
      · simp only [hn, ↓reduceIte] at h; cases h
        refine ⟨?_, ?_, ?_, ?_, ?_, ?_⟩
        · simp [linExpoL_cons, linExpo_sec, transactSec_pos, transactSec_name, transactSec_mult, multOf, hn]; ring
        · intro n2; simp [multOf, transactSec_name, transactSec_mult]
        · simp [posOf, transactSec_name, transactSec_pos, hn]
        · intro n2 h2; simp [posOf, transactSec_name, hn, Ne.symm h2]
        · simp [isKid, transactSec_name, hn]
        · intro n2 h2; simpa [isKid, transactSec_name] using h2
      · simp only [hn, ↓reduceIte] at h
        obtain ⟨ks1, h1, rfl⟩ := Except.map_eq_ok h
        obtain ⟨e1, e2, e3, e4, e5, e6⟩ := ih ks1 h1
        refine ⟨?_, ?_, ?_, ?_, ?_, ?_⟩
        · simp [linExpoL_cons, e1, multOf, hn]; ring
        · intro n2; simp [multOf, e2]
        · simp [posOf, hn, e3]
        · intro n2 h2; simp only [posOf]; split
          · rfl
          · exact e4 n2 h2
        · simp [isKid, hn, e5]
        · intro n2 h2; simp only [isKid] at h2 ⊢; split
          · rfl
          · rename_i hne; simp only [hne, ↓reduceIte] at h2; exact e6 n2 h2
    | strat d sub =>
      rw [transactKid_strat] at h
      by_cases hn : d.name = name
      · simp [hn] at h
      · simp only [hn, ↓reduceIte] at h
        obtain ⟨ks1, h1, rfl⟩ := Except.map_eq_ok h
        obtain ⟨e1, e2, e3, e4, e5, e6⟩ := ih ks1 h1
        refine ⟨?_, ?_, ?_, ?_, ?_, ?_⟩
        · simp [linExpoL_cons, e1, multOf]; ring
        · intro n2; simp [multOf, e2]
        · simp [posOf, e3]
        · intro n2 h2; simp [posOf, e4 n2 h2]
        · simp [isKid, e5]
        · intro n2 h2; simpa [isKid] using e6 n2 (by simpa [isKid] using h2)

theorem hedgeLoop_nil (env : Env K) (tn : Bool) (pnow : Nat) (ks : List (Node K)) :
    hedgeLoop env tn pnow [] ks = .ok ks := by rw [hedgeLoop]

theorem hedgeLoop_cons (env : Env K) (tn : Bool) (pnow : Nat) (q : Option K) (s : Nat) (rest : List (Option K × Nat))
    (ks : List (Node K)) :
    hedgeLoop env tn pnow ((q, s) :: rest) ks =
      if q.isNone && tn then .error .nanNotional
      else (transactKid env pnow q s ks).bind fun ks' => hedgeLoop env tn pnow rest ks' := by
  rw [hedgeLoop]

/-- the hedging loop with finite notionals: the exposure moves by the sum of `q × unit × multiplier` -/
theorem hedgeLoop_linExpo (env : Env K) (tn : Bool) (pnow : Nat) (u : Nat → K) :
    ∀ (l : List (K × Nat)) (ks ks' : List (Node K)),
      (∀ p ∈ l, isZero env.tol p.1 = true → p.1 = 0) →
      hedgeLoop env tn pnow (l.map fun p => (some p.1, p.2)) ks = .ok ks' →
      linExpoL u ks' = linExpoL u ks + (l.map fun p => p.1 * u p.2 * multOf env ks p.2).sum ∧
      (∀ n2, multOf env ks' n2 = multOf env ks n2) := by
  intro l
  induction l with
  | nil =>
    intro ks ks' _ h
    simp only [List.map_nil] at h
    rw [hedgeLoop_nil] at h; cases h
    simp
  | cons p l ih =>
    intro ks ks' hd h
    obtain ⟨q, s⟩ := p
    simp only [List.map_cons] at h
    rw [hedgeLoop_cons] at h
    simp only [Option.isNone_some, Bool.false_and, Bool.false_eq_true, ↓reduceIte] at h
    obtain ⟨ks1, h1, h2⟩ := Except.bind_eq_ok h
    obtain ⟨e1, e2, -⟩ := transactKid_effect env pnow (some q) s u ks ks1 h1
    obtain ⟨e3, e4⟩ := ih ks1 ks' (fun p hp => hd p (List.mem_cons_of_mem _ hp)) h2
    rw [effQ_some (hd (q, s) (List.mem_cons_self ..))] at e1
    refine ⟨?_, fun n2 => by rw [e4, e2]⟩
    rw [e3, e1]
    simp only [List.map_cons, List.sum_cons]
    have : (l.map fun p => p.1 * u p.2 * multOf env ks1 p.2) = (l.map fun p => p.1 * u p.2 * multOf env ks p.2) := by
      apply List.map_congr_left; intro p _; rw [e2]
    rw [this]; ring

end Trans
end Bt.Risk
