import Bt.Proofs.RebalanceChild
import Bt.Proofs.C08Root
/-! C06 with costs / at any path, part 8: sub-strategies as targets (fractional, no costs) at any path, and the
    refreshing read at the head of the algo on a stale world. -/
set_option linter.unusedSectionVars false
namespace Bt.P06
open Bt Bt.Rebal

variable {K : Type} [Field K] [LinearOrder K] [IsStrictOrderedRing K] [HasFloor K]

/-! ### from a stale world -/

theorem refresh_not_stale (cfg : Cfg K) (w w1 : World K) (h : refresh cfg w = .ok w1) : w1.stale = false := by
  unfold refresh at h
  by_cases hs : w.stale = true
  · simp only [hs, ↓reduceIte] at h
    cases hn : w.root.now with
    | none => rw [hn] at h; cases h
    | some d => rw [hn] at h; exact P08.updRoot_stale h
  · simp only [hs, Bool.false_eq_true, ↓reduceIte, pure, Except.pure, Except.ok.injEq] at h
    subst h
    simpa using hs

/-- `Rebalance` starts with a refreshing read: on any world (stale or not) it is `Rebalance` on the refreshed
    world, as long as the refresh keeps a market-value strategy with as many children at `p`. -/
theorem algoRebalance_stale (cfg : Cfg K) (w w1 : World K) (p : List Nat) (T : List (Nat × K))
    (cash notional : Option K) (sd0 sd1 : StratData K) (ks0 ks1 : List (Node K))
    (hp : w.root.get? p = some (.strat sd0 ks0)) (hf0 : sd0.fixedIncome = false)
    (hr : refresh cfg w = .ok w1) (hp1 : w1.root.get? p = some (.strat sd1 ks1))
    (hf1 : sd1.fixedIncome = false) (hlen : ks1.length = ks0.length) :
    algoRebalance cfg w p T cash notional = algoRebalance cfg w1 p T cash notional := by
  have hst := refresh_not_stale cfg w w1 hr
  unfold algoRebalance
  rw [hp, hp1]
  simp only [hf0, hf1, Bool.false_and, Bool.false_eq_true, ↓reduceIte]
  rw [hr, refresh_fresh cfg w1 hst, ok_bind, ok_bind, hp1, hlen]

/-! ### sub-strategies as targets -/

/-- a sub-strategy standing on `d`, without commission, whose children are fractional, cost-free, up-to-date
    securities -/
structure NiceSub (cfg : Cfg K) (d : Nat) (sdc : StratData K) (cs : List (SecData K)) : Prop where
  now : sdc.now = some d
  comm : ∀ q x, sdc.comm q x = 0
  kids : ∀ c ∈ cs, NiceSec cfg d c

theorem pair_unique {T : List (Nat × K)} (hnd : (T.map (·.1)).Nodup) {i : Nat} {a b : K}
    (h1 : (i, a) ∈ T) (h2 : (i, b) ∈ T) : a = b := by
  induction T with
  | nil => cases h1
  | cons x L ih =>
    simp only [List.map_cons] at hnd
    obtain ⟨hx, hn'⟩ := List.nodup_cons.1 hnd
    rcases List.mem_cons.1 h1 with e1 | m1
    · rcases List.mem_cons.1 h2 with e2 | m2
      · rw [← e1] at e2; exact (Prod.mk.inj e2).2.symm
      · exact absurd (List.mem_map.2 ⟨(i, b), m2, by rw [← e1]⟩) hx
    · rcases List.mem_cons.1 h2 with e2 | m2
      · exact absurd (List.mem_map.2 ⟨(i, a), m1, by rw [← e2]⟩) hx
      · exact ih hn' m1 m2

theorem syncedKids_secs (pn : Option Nat) : ∀ (cs : List (SecData K)), (∀ c ∈ cs, c.now = pn) →
    Node.syncedKids pn (cs.map Node.sec)
  | [], _ => by rw [List.map_nil, Node.syncedKids]; trivial
  | c :: cs, h => by
    rw [List.map_cons, Node.syncedKids, Node.synced]
    exact ⟨h c List.mem_cons_self, syncedKids_secs pn cs (fun x hx => h x (List.mem_cons_of_mem _ hx))⟩

/-- `allocate(A)` pushed into a sub-strategy with nice security children: explicit result -/
theorem allocNode_niceSub (cfg : Cfg K) (d : Nat) (pn : Option Nat) (comm : K → K → K) (A : K)
    (sdc : StratData K) (cs : List (SecData K)) (hatol : 0 ≤ cfg.atol) (htol : 0 < cfg.tol)
    (hs : NiceSub cfg d sdc cs) :
    allocNode cfg pn comm A (.strat sdc (cs.map Node.sec)) =
      .ok (.strat (withCap (sdc.adjust { amount := A, fee := 0, flow := true })
              (sdc.capital + A - (cs.map fun c => stepCash cfg c (A * c.weight)).sum))
            ((cs.map fun c => stepSec cfg c (A * c.weight)).map Node.sec),
           [{ amount := -A, fee := 0, flow := false }]) := by
  have h := allocKids_flat_nice cfg d A hatol htol cs
    (sdc.adjust { amount := A, fee := 0, flow := true }) hs.now hs.comm hs.kids
  rw [allocNode, h]
  rfl

/-- what `Rebalance` did to a targeted sub-strategy `(sdc, cs)` that received `A`: `(sdF, csF)` after the
    closing update -/
structure SubOut (cfg : Cfg K) (A : K) (sdc : StratData K) (cs : List (SecData K)) (sdF : StratData K)
    (csF : List (SecData K)) : Prop where
  len : csF.length = cs.length
  cash : sdF.capital = sdc.capital + A - (cs.map fun c => stepCash cfg c (A * c.weight)).sum
  value : sdF.value = sdc.capital + worthSum cs + A ∨
    (sdF.value = sdc.value ∧ isZero cfg.tol (sdc.value - (sdc.capital + worthSum cs + A)) = true)
  kids : ∀ (j : Nat) (c : SecData K), cs[j]? = some c → ∃ t, csF[j]? = some t ∧
    t.value = c.value + stepCash cfg c (A * c.weight) ∧ t.value = t.position * px t * t.mult ∧
    px t = px c ∧ t.mult = c.mult

theorem worthSum_stepSec (cfg : Cfg K) (A : K) : ∀ (cs : List (SecData K)),
    worthSum (cs.map fun c => stepSec cfg c (A * c.weight)) =
      worthSum cs + (cs.map fun c => stepCash cfg c (A * c.weight)).sum
  | [] => by simp [worthSum]
  | c :: cs => by
    have ih := worthSum_stepSec cfg A cs
    simp only [worthSum, List.map_cons, List.sum_cons] at ih ⊢
    rw [ih, worth_stepSec]; ring

/-- **Sub-strategies as targets, at any path (fractional units, no costs).**  The market-value strategy
    `(sd, ks)` found at `p` of a tree that is not stale, standing on `d` like the root, without commission; every
    child is either a fractional, cost-free, up-to-date security, or a sub-strategy with such children
    (`NiceSub`) that is a target with a non-negligible scaled weight.  If the algo does not raise, the final
    world is `root.update(d)` of the tree with only that strategy replaced, and unless the root's bankruptcy
    step fires: every targeted sub-strategy received `A = (weight × (1 − cash) − its weight) × sd.value` like a
    security and spread `A × child weight` over its children (`SubOut`); every targeted security whose trade
    is not swallowed by `TOL` ends with value exactly `weight × (1 − cash) × sd.value`. -/
theorem rebalance_subs_final (cfg : Cfg K) (d : Nat) (root : Node K) (p : List Nat) (sd : StratData K)
    (ks : List (Node K)) (T : List (Nat × K)) (cash notional : Option K) (w' : World K)
    (hatol : 0 ≤ cfg.atol) (htol : 0 < cfg.tol) (hv : ∃ x, root.get? p = some x)
    (hrn : (PW root p sd ks).root.now = some d)
    (hnow : sd.now = some d) (hfi : sd.fixedIncome = false) (hcomm : ∀ q x, sd.comm q x = 0)
    (hnd : (T.map (·.1)).Nodup) (hin : ∀ i ∈ T.map (·.1), i < ks.length)
    (hkids : ∀ (i : Nat) (k : Node K), ks[i]? = some k →
      (∃ s, k = .sec s ∧ NiceSec cfg d s) ∨
      (∃ sdc cs wt, k = .strat sdc (cs.map Node.sec) ∧ NiceSub cfg d sdc cs ∧ (i, wt) ∈ T ∧
        isZero cfg.tol (wt * cashScale cash) = false))
    (h : algoRebalance cfg (PW root p sd ks) p T cash notional = .ok w') :
    ∃ (sd3 : StratData K) (ks3 : List (Node K)), updRoot cfg d (PW root p sd3 ks3) = .ok w' ∧
      (BankruptStep cfg d (PW root p sd3 ks3) ∨
       (w'.stale = false ∧
        (∀ (i : Nat) (wt : K) (sdc : StratData K) (cs : List (SecData K)), (i, wt) ∈ T →
          ks[i]? = some (.strat sdc (cs.map Node.sec)) →
          ∃ sdF csF, w'.root.get? (p ++ [i]) = some (.strat sdF (csF.map Node.sec)) ∧
            SubOut cfg ((wt * cashScale cash - sdc.weight) * sd.value) sdc cs sdF csF) ∧
        (∀ (i : Nat) (wt : K) (s : SecData K), (i, wt) ∈ T → ks[i]? = some (.sec s) →
          s.weight * sd.value = s.value → TargetExact cfg sd.value s (wt * cashScale cash) →
          ∃ sdp' ksp' t, w'.root.get? p = some (.strat sdp' ksp') ∧ ksp'[i]? = some (.sec t) ∧
            t.value = wt * cashScale cash * sd.value ∧ t.value = t.position * px t * t.mult ∧
            px t = px s ∧ t.mult = s.mult))) := by
  obtain ⟨sd3, ks3, hjobs, hupd⟩ := algoRebalance_PW cfg d root p sd ks T cash notional w' hv hfi hnd
    (by
      intro i hi hni
      have hk : ks[i]? = some ks[i] := List.getElem?_eq_getElem hi
      refine ⟨_, hk, ?_⟩
      rcases hkids i _ hk with ⟨s, e, _⟩ | ⟨sdc, cs, wt, _, _, hm, _⟩
      · rw [e]; trivial
      · exact absurd (List.mem_map.2 ⟨(i, wt), hm, rfl⟩) hni)
    (by
      intro t ht
      have hi := hin t.1 (List.mem_map.2 ⟨t, ht, rfl⟩)
      have hk : ks[t.1]? = some ks[t.1] := List.getElem?_eq_getElem hi
      refine ⟨_, hk, ?_⟩
      intro hz
      rcases hkids t.1 _ hk with ⟨s, e, _⟩ | ⟨sdc, cs, wt, _, _, hm, hnz⟩
      · rw [e]; trivial
      · have : t.2 = wt := pair_unique hnd (show (t.1, t.2) ∈ T from ht) hm
        rw [this, hnz] at hz; cases hz)
    hrn h
  obtain ⟨AL, _, l2, e3, pj, _, _⟩ := runJobs_spec cfg sd.value (algoJobs ks.length T cash) sd sd3 ks ks3
    (algoJobs_nodup ks.length T cash hnd)
    (by
      intro j hj
      have hlt : j.1 < ks.length := by
        unfold algoJobs at hj
        rcases List.mem_append.1 hj with hj | hj
        · exact List.mem_range.1 (mem_closeJobs hj).2.1
        · obtain ⟨t, ht, rfl⟩ := List.mem_map.1 hj
          exact hin t.1 (List.mem_map.2 ⟨t, ht, rfl⟩)
      have hk : ks[j.1]? = some ks[j.1] := List.getElem?_eq_getElem hlt
      refine ⟨_, hk, ?_⟩
      rcases hkids j.1 _ hk with ⟨s, e, hn⟩ | ⟨sdc, cs, wt, e, hs, _, _⟩
      · rw [e, Node.synced, hn.now, hnow]
      · rw [e, Node.synced]
        exact syncedKids_secs _ cs (fun c hc => by rw [(hs.kids c hc).now, hs.now]))
    hjobs
  refine ⟨sd3, ks3, hupd, ?_⟩
  have hg3 := PW_get root p sd3 ks3 hv
  obtain ⟨sdr, kidsr, hroot⟩ := strat_of_get? p _ _ _ hg3
  rcases updRoot_cases hroot hupd with ⟨hu, hst⟩ | ⟨hb, hf, kids1, acc, hkk, hneg⟩
  · right
    refine ⟨hst, ?_, ?_⟩
    · intro i wt sdc cs hi hk
      have hlt : i < ks.length := lt_of_getElem? hk
      rcases hkids i _ hk with ⟨s, e, _⟩ | ⟨sdc', cs', wt', e, hs, hm, hnz⟩
      · cases e
      · have e1 : sdc = sdc' := (Node.strat.inj e).1
        have e2 : cs = cs' :=
          (List.map_injective_iff.2 (fun a b hab => by cases hab; rfl)) (Node.strat.inj e).2
        have hwt : wt = wt' := pair_unique hnd hi hm
        rw [← e1, ← e2] at hs
        rw [← hwt] at hnz
        clear e e1 e2 hwt hm
        have hjob : (i, some (wt * cashScale cash)) ∈ algoJobs (K := K) ks.length T cash := by
          unfold algoJobs
          exact List.mem_append_right _ (List.mem_map.2 ⟨(i, wt), hi, rfl⟩)
        obtain ⟨k', adjs, g1, _, g3⟩ := pj i _ _ hjob hk
        simp only [planN, hnz, Bool.false_eq_true, ↓reduceIte, Node.weight, StepN] at g3
        generalize hA : (wt * cashScale cash - sdc.weight) * sd.value = A at g3 ⊢
        rw [allocNode_niceSub cfg d sd.now sd.comm A sdc cs hatol htol hs] at g3
        simp only [Except.ok.injEq, Prod.mk.injEq] at g3
        obtain ⟨rfl, _⟩ := g3
        have hgc := (PW_get_child root p sd3 ks3 hv i).trans g1
        obtain ⟨sd1, kids1, wg, hu1, hg1⟩ := FI.updNode_at_path cfg d (p ++ [i]) _ _ _ _ hu hgc
        obtain ⟨sdF, csF, e, r2, r3, _, _, r6, r7⟩ := updNode_flatC cfg d
          (withCap (sdc.adjust { amount := A, fee := 0, flow := true })
            (sdc.capital + A - (cs.map fun c => stepCash cfg c (A * c.weight)).sum))
          (cs.map fun c => stepSec cfg c (A * c.weight)) _ hs.now
          (by
            intro x hx
            obtain ⟨c, hc, rfl⟩ := List.mem_map.1 hx
            exact doSec_ready (hs.kids c hc) (some (A * c.weight))) hu1
        have e1 : sd1 = sdF := (Node.strat.inj e).1
        have e2' : kids1 = csF.map Node.sec := (Node.strat.inj e).2
        rw [e1, e2'] at hg1
        rw [List.length_map] at r2
        refine ⟨{ sdF with weight := wg }, csF, hg1, ⟨r2, ?_, ?_, ?_⟩⟩
        · show sdF.capital = _
          rw [r3]; rfl
        · show sdF.value = _ ∨ (sdF.value = _ ∧ _)
          rw [withCap_capital, worthSum_stepSec] at r6
          have : sdc.capital + A - (cs.map fun c => stepCash cfg c (A * c.weight)).sum +
              (worthSum cs + (cs.map fun c => stepCash cfg c (A * c.weight)).sum) =
              sdc.capital + worthSum cs + A := by ring
          rw [this] at r6
          exact r6
        · intro j c hc
          obtain ⟨t, ht, hm, _⟩ := r7 j (stepSec cfg c (A * c.weight)) (by rw [List.getElem?_map, hc]; rfl)
          have hnc := hs.kids c (List.mem_of_getElem? hc)
          have hpx : px (stepSec cfg c (A * c.weight)) = px c ∧ (stepSec cfg c (A * c.weight)).mult = c.mult := by
            simp only [stepSec]
            cases niceQ cfg c (px c) (A * c.weight) <;> exact ⟨rfl, rfl⟩
          refine ⟨t, ht, ?_, hm.value_eq, hm.2.1.trans hpx.1, hm.2.2.1.trans hpx.2⟩
          have hw := worth_stepSec cfg c (A * c.weight)
          unfold worth at hw
          rw [hm.2.2.2, hw, hnc.val]
    · intro i wt s hi hk hw hx
      have hlt : i < ks.length := lt_of_getElem? hk
      rcases hkids i _ hk with ⟨s', e, hn⟩ | ⟨_, _, _, e, _⟩
      · cases e
        have hjob : (i, some (wt * cashScale cash)) ∈ algoJobs (K := K) ks.length T cash := by
          unfold algoJobs
          exact List.mem_append_right _ (List.mem_map.2 ⟨(i, wt), hi, rfl⟩)
        obtain ⟨k', adjs, g1, _, g3⟩ := pj i _ _ hjob hk
        rw [hnow] at g3
        obtain ⟨t3, q, rfl, hmv, hps, _, _⟩ := child_outcome cfg d sd.comm sd.value s _ k' adjs htol (NiceSec.rsec hn) g3
        obtain ⟨e1, _⟩ := target_exact_nocost cfg sd.comm d sd.value s _ q hatol htol hn hcomm hw hx hps
        obtain ⟨sdp', ksp', t, q1, q2, hm, _⟩ := updNode_get_sec cfg d p _ _ sd3 ks3 i t3 hu hg3 g1 hmv.ready
        refine ⟨sdp', ksp', t, q1, q2, ?_, hm.value_eq, hm.2.1.trans hmv.px, hm.2.2.1.trans hmv.mult⟩
        rw [hm.2.2.2, hmv.pos, hmv.px, hmv.mult]
        exact e1
      · cases e
  · left
    exact ⟨sdr, kidsr, hroot, hb, hf, kids1, acc, hkk, hneg⟩

end Bt.P06
