import Bt.Proofs.LedgerRun
/-! C07 (cash ledger), whole days: the opening update of a new date (`OpenRel`: coupons swept, accumulators
    reset, nothing else), what an update leaves recorded (`Closed`), one day of `Backtest.run`
    (`btDay`) and the whole loop. -/
set_option linter.unusedSectionVars false
namespace Bt.P07
open Bt Bt.P08 Bt.P04

variable {K : Type} [Field K] [LinearOrder K] [IsStrictOrderedRing K] [HasFloor K]

/-! ### the first `update` of a new date -/

mutual
/-- the tree stands on an earlier date: every strategy has a clock, none at `d`; every security has a row
    `d` for outlays -/
def Prev (d : Nat) : Node K → Prop
  | .sec s => d < s.rOutlay.length
  | .strat sd ks => (∃ m, sd.now = some m ∧ m ≠ d) ∧ PrevL d ks
def PrevL (d : Nat) : List (Node K) → Prop
  | [] => True
  | k :: ks => Prev d k ∧ PrevL d ks
end

mutual
/-- **what the opening update of date `d` does to the ledger**: a strategy's cash grows by exactly the
    cash parked on its own security children, its fee and flow accumulators are zero, its clock is `d`;
    a security keeps its position and its outlay total for `d` (row plus accumulator) -/
def OpenRel (d : Nat) : Node K → Node K → Prop
  | .sec s, .sec s' => SecL s s' ∧ secOutlayTot d s' = secOutlayTot d s ∧ s'.position = s.position
  | .strat sd ks, .strat sd' ks' =>
    sd'.now = some d ∧ sd'.capital = sd.capital + parkedKids ks ∧ sd'.lastFee = 0 ∧ sd'.netFlows = 0 ∧
      OpenRelL d ks ks'
  | _, _ => False
def OpenRelL (d : Nat) : List (Node K) → List (Node K) → Prop
  | [], [] => True
  | k :: ks, k' :: ks' => OpenRel d k k' ∧ OpenRelL d ks ks'
  | _, _ => False
end

section opensimp
variable (d : Nat)
@[simp] theorem prev_sec (s : SecData K) : Prev d (.sec s) ↔ d < s.rOutlay.length := by simp [Prev]
@[simp] theorem prev_strat (sd : StratData K) (ks : List (Node K)) :
    Prev d (.strat sd ks) ↔ (∃ m, sd.now = some m ∧ m ≠ d) ∧ PrevL d ks := by simp [Prev]
@[simp] theorem prevL_nil : PrevL d ([] : List (Node K)) ↔ True := by simp [PrevL]
@[simp] theorem prevL_cons (k : Node K) (ks : List (Node K)) :
    PrevL d (k :: ks) ↔ Prev d k ∧ PrevL d ks := by simp [PrevL]
@[simp] theorem openRel_sec (s s' : SecData K) : OpenRel d (.sec s) (.sec s') ↔
    SecL s s' ∧ secOutlayTot d s' = secOutlayTot d s ∧ s'.position = s.position := by simp [OpenRel]
@[simp] theorem openRel_strat (sd sd' : StratData K) (ks ks' : List (Node K)) :
    OpenRel d (.strat sd ks) (.strat sd' ks') ↔
      sd'.now = some d ∧ sd'.capital = sd.capital + parkedKids ks ∧ sd'.lastFee = 0 ∧ sd'.netFlows = 0 ∧
        OpenRelL d ks ks' := by simp [OpenRel]
@[simp] theorem openRel_sec_strat (s : SecData K) (sd' : StratData K) (ks') :
    OpenRel d (.sec s) (.strat sd' ks') ↔ False := by simp [OpenRel]
@[simp] theorem openRel_strat_sec (sd : StratData K) (ks) (s' : SecData K) :
    OpenRel d (.strat sd ks) (.sec s') ↔ False := by simp [OpenRel]
@[simp] theorem openRelL_nil : OpenRelL d ([] : List (Node K)) [] ↔ True := by simp [OpenRelL]
@[simp] theorem openRelL_cons (k k' : Node K) (ks ks' : List (Node K)) :
    OpenRelL d (k :: ks) (k' :: ks') ↔ OpenRel d k k' ∧ OpenRelL d ks ks' := by simp [OpenRelL]
@[simp] theorem openRelL_nil_cons (k' : Node K) (ks' : List (Node K)) :
    OpenRelL d [] (k' :: ks') ↔ False := by simp [OpenRelL]
@[simp] theorem openRelL_cons_nil (k : Node K) (ks : List (Node K)) :
    OpenRelL d (k :: ks) [] ↔ False := by simp [OpenRelL]
end opensimp

section opening
variable {cfg : Cfg K} {d : Nat}

/-- the resets of a date change (l.676-685) -/
def newDay (d : Nat) (sd : StratData K) : StratData K :=
  { sd with netFlows := 0, lastPrice := sd.price, lastValue := sd.value, lastNotl := sd.notl,
            lastFee := 0, now := some d }

theorem stratDateChange_new {sd : StratData K} {m : Nat} (h : sd.now = some m) (hne : m ≠ d) :
    stratDateChange d sd = (newDay d sd, true) := by
  unfold stratDateChange newDay; simp [h, hne]

theorem sweepSec_secL (np : Bool) (s : SecData K) (acc : Acc K) :
    SecL s (sweepSec np s acc).1 ∧ secOutlayTot d (sweepSec np s acc).1 = secOutlayTot d s ∧
      (sweepSec np s acc).1.position = s.position ∧ (sweepSec np s acc).1.rOutlay = s.rOutlay := by
  unfold sweepSec; cases np
  · exact ⟨SecL.refl s, rfl, rfl, rfl⟩
  · exact ⟨⟨rfl, id⟩, rfl, rfl, rfl⟩

theorem secUpdate_position {s s' : SecData K} (h : secUpdate cfg d s = .ok s') : s'.position = s.position := by
  rw [secUpdate_eq] at h
  obtain ⟨s1, hb, ht⟩ := bind_eq_ok h
  obtain ⟨-, -, hpos, -⟩ := secTail_proj ht
  rw [hpos, (secBaseUpdate_kind_position hb).2]

theorem openRel_setWeight (w : K) : ∀ (k k1 : Node K), OpenRel d k k1 → OpenRel d k (k1.setWeight w)
  | .sec s, .sec s1, h => by
    rw [openRel_sec] at h
    show OpenRel d (.sec s) (.sec { s1 with weight := w })
    rw [openRel_sec]; exact h
  | .strat sd ks, .strat sd1 ks1, h => by
    simp only [openRel_strat] at h
    show OpenRel d (.strat sd ks) (.strat { sd1 with weight := w } ks1)
    rw [openRel_strat]; exact h
  | .sec _, .strat _ _, h => by simp at h
  | .strat _ _, .sec _, h => by simp at h

theorem openRelL_kidsWeights (fi : Bool) (v n : K) : ∀ (ks ks1 : List (Node K)),
    OpenRelL d ks ks1 → OpenRelL d ks (kidsWeights cfg fi v n ks1)
  | [], [], _ => by simp [kidsWeights]
  | k :: ks, k1 :: ks1, h => by
    simp only [openRelL_cons] at h
    rw [kidsWeights_cons, openRelL_cons]
    refine ⟨?_, openRelL_kidsWeights fi v n ks ks1 h.2⟩
    split
    · exact h.1
    · exact openRel_setWeight _ k k1 h.1
  | [], _ :: _, h => by simp at h
  | _ :: _, [], h => by simp at h

/-- `stratFinish` with the children it returns made explicit -/
theorem stratFinish_shape {np : Bool} {sd1 : StratData K} {r : List (Node K) × Acc K} {n' : Node K}
    (h : stratFinish cfg d np sd1 r = .ok n') :
    ∃ sd' fi v nn, n' = .strat sd' (kidsWeights cfg fi v nn r.1) ∧ sd'.now = sd1.now ∧
      sd'.capital = sd1.capital + r.2.coupons ∧ sd'.lastFee = sd1.lastFee ∧ sd'.netFlows = sd1.netFlows := by
  unfold stratFinish at h
  obtain ⟨sd3, hw, rfl⟩ := map_eq_ok h
  obtain ⟨c1, c2, c3, -, -, -⟩ := stratWrite_ledger hw
  obtain ⟨r1, r2, r3, -, -, -⟩ := stratRows_rows d sd3
  refine ⟨_, _, _, _, rfl, ?_, ?_, ?_, ?_⟩
  · rw [P08.stratRows_now, (stratWrite_proj hw).1]
  · rw [r1, c1]
  · rw [r2, c3]
  · rw [r3, c2]

/-- the children loop and the strategy's own part of an opening update -/
theorem open_strat {sd : StratData K} {kids kids1 : List (Node K)} {acc : Acc K} {n' : Node K}
    (hk : updKids cfg d true (newDay d sd).bidofferSet kids
        ⟨sd.capital, 0, 0, 0⟩ = .ok (kids1, acc))
    (hko : OpenRelL d kids kids1)
    (hf : stratFinish cfg d true (newDay d sd) (kids1, acc) = .ok n') :
    OpenRel d (.strat sd kids) n' := by
  have hc := updKids_coupons kids hk
  simp only [↓reduceIte, zero_add] at hc
  obtain ⟨sd', fi, v, nn, rfl, f1, f2, f3, f4⟩ := stratFinish_shape hf
  simp only at f1 f2 f3 f4
  rw [openRel_strat]
  exact ⟨f1, by rw [f2, hc]; rfl, f3, f4, openRelL_kidsWeights fi v nn kids kids1 hko⟩

mutual
theorem updNode_open : (n : Node K) → ∀ n', Prev d n → updNode cfg d n = .ok n' → OpenRel d n n'
  | .sec s, n', hp, h => by
    rw [updNode.eq_1] at h
    obtain ⟨s', hs, rfl⟩ := map_eq_ok h
    simp only [prev_sec] at hp
    obtain ⟨a, b⟩ := secUpdate_secL hp hs
    simp only [openRel_sec]
    exact ⟨a, b, secUpdate_position hs⟩
  | .strat sd kids, n', hp, h => by
    rw [updNode_strat] at h
    simp only [prev_strat] at hp
    obtain ⟨⟨m, hm, hne⟩, hpk⟩ := hp
    rw [stratDateChange_new hm hne] at h
    obtain ⟨⟨kids1, acc⟩, hk, hf⟩ := bind_eq_ok h
    exact open_strat hk (updKids_open kids _ _ _ _ hpk hk) hf
theorem updKids_open : (ks : List (Node K)) → ∀ (bo : Bool) (acc : Acc K) ks' a,
    PrevL d ks → updKids cfg d true bo ks acc = .ok (ks', a) → OpenRelL d ks ks'
  | [], bo, acc, ks', a, _, h => by
    rw [updKids.eq_1] at h; cases h; simp
  | .sec s :: ks, bo, acc, ks', a, hp, h => by
    rw [updKids_sec] at h
    simp only [prevL_cons, prev_sec] at hp
    obtain ⟨h0, h1, h2, h3⟩ := sweepSec_secL (d := d) true s acc
    generalize (sweepSec true s acc).1 = s0 at h h0 h1 h2 h3
    generalize (sweepSec true s acc).2 = acc0 at h
    split at h
    · obtain ⟨⟨ks1, a1⟩, hrest, hr⟩ := map_eq_ok h
      cases hr
      rw [openRelL_cons, openRel_sec]
      exact ⟨⟨h0, h1, h2⟩, updKids_open ks _ _ _ _ hp.2 hrest⟩
    · obtain ⟨s1, hs1, h⟩ := bind_eq_ok h
      obtain ⟨⟨ks1, a1⟩, hrest, hr⟩ := map_eq_ok h
      cases hr
      obtain ⟨a, b⟩ := secUpdate_secL (s := s0) (by rw [h3]; exact hp.1) hs1
      rw [openRelL_cons, openRel_sec]
      exact ⟨⟨h0.trans a, b.trans h1, (secUpdate_position hs1).trans h2⟩, updKids_open ks _ _ _ _ hp.2 hrest⟩
  | .strat sd kk :: ks, bo, acc, ks', a, hp, h => by
    rw [updKids_strat] at h
    obtain ⟨k1, hk1, h⟩ := bind_eq_ok h
    obtain ⟨⟨ks1, a1⟩, hrest, hr⟩ := map_eq_ok h
    cases hr
    simp only [prevL_cons] at hp
    simp only [openRelL_cons]
    exact ⟨updNode_open (.strat sd kk) _ hp.1 hk1, updKids_open ks _ _ _ _ hp.2 hrest⟩
end

mutual
theorem openRel_good : (n n' : Node K) → OpenRel d n n' → Prev d n → Good d n'
  | .sec s, .sec s', h, hp => by
    simp only [openRel_sec, prev_sec, good_sec] at *; rw [h.1.1]; exact hp
  | .strat sd ks, .strat sd' ks', h, hp => by
    simp only [openRel_strat, prev_strat, good_strat] at *
    exact ⟨h.1, openRelL_good ks ks' h.2.2.2.2 hp.2⟩
  | .sec _, .strat _ _, h, _ => by simp at h
  | .strat _ _, .sec _, h, _ => by simp at h
theorem openRelL_good : (ks ks' : List (Node K)) → OpenRelL d ks ks' → PrevL d ks → GoodL d ks'
  | [], [], _, _ => by simp
  | k :: ks, k' :: ks', h, hp => by
    simp only [openRelL_cons, prevL_cons, goodL_cons] at *
    exact ⟨openRel_good k k' h.1 hp.1, openRelL_good ks ks' h.2 hp.2⟩
  | [], _ :: _, h, _ => by simp at h
  | _ :: _, [], h, _ => by simp at h
end

mutual
theorem openRel_tidy : (n n' : Node K) → OpenRel d n n' → TidyT n → TidyT n'
  | .sec s, .sec s', h, ht => by simp only [openRel_sec, tidyT_sec] at *; exact h.1.2 ht
  | .strat sd ks, .strat sd' ks', h, ht => by
    simp only [openRel_strat, tidyT_strat] at *; exact openRelL_tidy ks ks' h.2.2.2.2 ht
  | .sec _, .strat _ _, h, _ => by simp at h
  | .strat _ _, .sec _, h, _ => by simp at h
theorem openRelL_tidy : (ks ks' : List (Node K)) → OpenRelL d ks ks' → TidyL ks → TidyL ks'
  | [], [], _, _ => by simp
  | k :: ks, k' :: ks', h, ht => by
    simp only [openRelL_cons, tidyL_cons] at *
    exact ⟨openRel_tidy k k' h.1 ht.1, openRelL_tidy ks ks' h.2 ht.2⟩
  | [], _ :: _, h, _ => by simp at h
  | _ :: _, [], h, _ => by simp at h
end

/-- the children's ledger terms right after the opening: the outlay totals carried by the securities, no
    flows yet on the sub-strategies -/
theorem openRelL_kids : ∀ (ks ks' : List (Node K)), OpenRelL d ks ks' →
    outlayKids d ks' = outlayKids d ks ∧ passedDown ks' = 0
  | [], [], _ => by simp [outlayKids, passedDown]
  | .sec s :: ks, .sec s' :: ks', h => by
    simp only [openRelL_cons, openRel_sec] at h
    obtain ⟨a, b⟩ := openRelL_kids ks ks' h.2
    simp only [outlayKids, passedDown, a, b, h.1.2.1, and_self]
  | .strat sd kk :: ks, .strat sd' kk' :: ks', h => by
    simp only [openRelL_cons, openRel_strat] at h
    obtain ⟨a, b⟩ := openRelL_kids ks ks' h.2
    simp only [outlayKids, passedDown, a, b, h.1.2.2.2.1, add_zero, and_self]
  | .sec _ :: _, .strat _ _ :: _, h => by simp at h
  | .strat _ _ :: _, .sec _ :: _, h => by simp at h
  | [], _ :: _, h => by simp at h
  | _ :: _, [], h => by simp at h

theorem openRelL_getElem? : ∀ (ks ks' : List (Node K)) (i : Nat) (k : Node K),
    OpenRelL d ks ks' → ks[i]? = some k → ∃ k', ks'[i]? = some k' ∧ OpenRel d k k'
  | [], [], i, k, _, h => by simp at h
  | a :: ks, a' :: ks', 0, k, hn, h => by
    simp only [List.getElem?_cons_zero, Option.some.injEq] at h
    subst h
    simp only [openRelL_cons] at hn
    exact ⟨a', by simp, hn.1⟩
  | a :: ks, a' :: ks', i + 1, k, hn, h => by
    simp only [List.getElem?_cons_succ] at h ⊢
    simp only [openRelL_cons] at hn
    exact openRelL_getElem? ks ks' i k hn.2 h
  | [], _ :: _, _, _, hn, _ => by simp at hn
  | _ :: _, [], _, _, hn, _ => by simp at hn

theorem openRel_get? : ∀ (p : List Nat) (n n' k : Node K),
    OpenRel d n n' → n.get? p = some k → ∃ k', n'.get? p = some k' ∧ OpenRel d k k'
  | [], n, n', k, h, hk => by
    rw [get?_nil] at hk; cases hk
    exact ⟨n', get?_nil n', h⟩
  | i :: rest, .sec s, n', k, _, hk => by rw [get?_cons_sec] at hk; cases hk
  | i :: rest, .strat sd ks, .sec s', k, h, _ => by simp at h
  | i :: rest, .strat sd ks, .strat sd' ks', k, h, hk => by
    rw [get?_cons_strat] at hk ⊢
    simp only [openRel_strat] at h
    cases hc : ks[i]? with
    | none => rw [hc] at hk; cases hk
    | some c =>
      rw [hc] at hk
      obtain ⟨c', hc', hcc⟩ := openRelL_getElem? ks ks' i c h.2.2.2.2 hc
      rw [hc']
      exact openRel_get? rest c c' k hcc hk

/-- **`root.update(d)` on a world standing on an earlier date**: either the pure opening, or — if the
    root's value came out negative — the opening followed by the liquidation of the whole tree and a
    same-date update, which keep every balance -/
theorem updRoot_open {w w' : World K} (hp : Prev d w.root) (h : updRoot cfg d w = .ok w') :
    OpenRel d w.root w'.root ∨
      (w.bankrupt = false ∧ w'.bankrupt = true ∧ ∃ nO, OpenRel d w.root nO ∧ NLW d nO w'.root) := by
  obtain ⟨root, st⟩ := w
  cases root with
  | sec s => cases h
  | strat sd kids =>
    rw [updRoot_strat] at h
    simp only [prev_strat] at hp
    obtain ⟨⟨m, hm, hne⟩, hpk⟩ := hp
    rw [stratDateChange_new hm hne] at h
    obtain ⟨⟨kids1, acc⟩, hk, h⟩ := bind_eq_ok h
    have hko := updKids_open kids _ _ _ _ hpk hk
    split at h
    · rename_i hb
      right
      obtain ⟨wF, hfl, h⟩ := bind_eq_ok h
      obtain ⟨n, hn, rfl⟩ := map_eq_ok h
      have hc := updKids_coupons kids hk
      simp only [↓reduceIte, zero_add] at hc
      have hB : OpenRel d (.strat sd kids) (bankruptWorld (newDay d sd) (kids1, acc)).root := by
        simp only [bankruptWorld, openRel_strat]
        exact ⟨rfl, by show (newDay d sd).capital + acc.coupons = sd.capital + parkedKids kids; rw [hc]; rfl,
          rfl, rfl, hko⟩
      have hBg : GoodR d (bankruptWorld (newDay d sd) (kids1, acc)).root :=
        ⟨openRel_good _ _ hB (by simp only [prev_strat]; exact ⟨⟨m, hm, hne⟩, hpk⟩), _, _, rfl⟩
      obtain ⟨hF, hFg⟩ := flattenAt_nlw (fun _ _ hg' hr => refreshNB_nlw hg' hr) hBg hfl
      have hU := updNode_nlw _ _ hFg.1 hn
      have hsd : sd.bankrupt = false := by
        simp only [bankruptCond, Bool.and_eq_true, Bool.not_eq_true'] at hb
        exact hb.1.1.2
      have hsk : n.skel = (bankruptWorld (newDay d sd) (kids1, acc)).root.skel :=
        (P16.updNode_skel _ _ hn).trans (P16.flattenAt_skel (fun _ _ hr => P16.refreshNB_skel hr) hfl)
      refine ⟨by simp only [World.bankrupt]; exact hsd, ?_, _, hB, hF.trans hU⟩
      have := P16.bankrupt_of_skel (w := bankruptWorld (newDay d sd) (kids1, acc)) (w' := { root := n, stale := false }) hsk
      rw [this]; rfl
    · left
      obtain ⟨n, hf, rfl⟩ := map_eq_ok h
      exact open_strat hk hko hf

end opening

/-! ### what an update leaves recorded -/

mutual
/-- after `update(d)`: the cash / fees / flows rows of `d` hold the accumulators of every strategy, and a
    tidy security has nothing pending (its whole outlay of the date is in the row) -/
def Closed (d : Nat) : Node K → Prop
  | .sec s => Tidy s → s.outlayAcc = 0
  | .strat sd ks =>
    (d < sd.rCash.length → sd.rCash[d]? = some sd.capital) ∧
    (d < sd.rFees.length → sd.rFees[d]? = some sd.lastFee) ∧
    (d < sd.rFlows.length → sd.rFlows[d]? = some sd.netFlows) ∧ ClosedL d ks
def ClosedL (d : Nat) : List (Node K) → Prop
  | [] => True
  | k :: ks => Closed d k ∧ ClosedL d ks
end

@[simp] theorem closed_sec (d : Nat) (s : SecData K) : Closed d (.sec s) ↔ (Tidy s → s.outlayAcc = 0) := by
  simp [Closed]
@[simp] theorem closed_strat (d : Nat) (sd : StratData K) (ks : List (Node K)) :
    Closed d (.strat sd ks) ↔
      (d < sd.rCash.length → sd.rCash[d]? = some sd.capital) ∧
      (d < sd.rFees.length → sd.rFees[d]? = some sd.lastFee) ∧
      (d < sd.rFlows.length → sd.rFlows[d]? = some sd.netFlows) ∧ ClosedL d ks := by simp [Closed]
@[simp] theorem closedL_nil (d : Nat) : ClosedL d ([] : List (Node K)) ↔ True := by simp [ClosedL]
@[simp] theorem closedL_cons (d : Nat) (k : Node K) (ks : List (Node K)) :
    ClosedL d (k :: ks) ↔ Closed d k ∧ ClosedL d ks := by simp [ClosedL]

section closed
variable {cfg : Cfg K} {d : Nat}

theorem closed_setWeight (w : K) : ∀ k : Node K, Closed d k → Closed d (k.setWeight w)
  | .sec s, h => by
    rw [closed_sec] at h
    show Closed d (.sec { s with weight := w })
    rw [closed_sec]; exact h
  | .strat sd ks, h => by
    rw [closed_strat] at h
    show Closed d (.strat { sd with weight := w } ks)
    rw [closed_strat]; exact h

theorem closedL_kidsWeights (fi : Bool) (v n : K) : ∀ ks : List (Node K),
    ClosedL d ks → ClosedL d (kidsWeights cfg fi v n ks)
  | [], _ => by simp [kidsWeights]
  | k :: ks, h => by
    simp only [closedL_cons] at h
    rw [kidsWeights_cons, closedL_cons]
    refine ⟨?_, closedL_kidsWeights fi v n ks h.2⟩
    split
    · exact h.1
    · exact closed_setWeight _ k h.1

theorem set_getElem?_self (l : List K) (x : K) (h : d < (l.set d x).length) : (l.set d x)[d]? = some x := by
  rw [List.length_set] at h
  exact List.getElem?_set_self h

theorem stratFinish_closed {np : Bool} {sd1 : StratData K} {r : List (Node K) × Acc K} {n' : Node K}
    (h : stratFinish cfg d np sd1 r = .ok n') (hk : ClosedL d r.1) : Closed d n' := by
  unfold stratFinish at h
  obtain ⟨sd3, hw, rfl⟩ := map_eq_ok h
  obtain ⟨r1, r2, r3, r4, r5, r6⟩ := stratRows_rows d sd3
  rw [closed_strat, r1, r2, r3, r4, r5, r6]
  exact ⟨set_getElem?_self _ _, set_getElem?_self _ _, set_getElem?_self _ _, closedL_kidsWeights _ _ _ _ hk⟩

mutual
theorem updNode_closed : (n : Node K) → ∀ n', updNode cfg d n = .ok n' → Closed d n'
  | .sec s, n', h => by
    rw [updNode.eq_1] at h
    obtain ⟨s', hs, rfl⟩ := map_eq_ok h
    rw [closed_sec]
    intro ht
    exact ht.2 (secUpdate_flushed hs).1
  | .strat sd kids, n', h => by
    rw [updNode_strat] at h
    obtain ⟨⟨kids1, acc⟩, hk, hf⟩ := bind_eq_ok h
    exact stratFinish_closed hf (updKids_closed kids _ _ _ _ _ hk)
theorem updKids_closed : (ks : List (Node K)) → ∀ (np bo : Bool) (acc : Acc K) ks' a,
    updKids cfg d np bo ks acc = .ok (ks', a) → ClosedL d ks'
  | [], np, bo, acc, ks', a, h => by
    rw [updKids.eq_1] at h; cases h; simp
  | .sec s :: ks, np, bo, acc, ks', a, h => by
    rw [updKids_sec] at h
    split at h
    · rename_i hnu
      obtain ⟨⟨ks1, a1⟩, hrest, hr⟩ := map_eq_ok h
      cases hr
      rw [closedL_cons, closed_sec]
      refine ⟨fun ht => ?_, updKids_closed ks _ _ _ _ _ hrest⟩
      have hn : (sweepSec np s acc).1.needupdate = false := by simpa using hnu
      exact ht.2 (ht.1 hn)
    · obtain ⟨s1, hs1, h⟩ := bind_eq_ok h
      obtain ⟨⟨ks1, a1⟩, hrest, hr⟩ := map_eq_ok h
      cases hr
      rw [closedL_cons, closed_sec]
      exact ⟨fun ht => ht.2 (secUpdate_flushed hs1).1, updKids_closed ks _ _ _ _ _ hrest⟩
  | .strat sd kk :: ks, np, bo, acc, ks', a, h => by
    rw [updKids_strat] at h
    obtain ⟨k1, hk1, h⟩ := bind_eq_ok h
    obtain ⟨⟨ks1, a1⟩, hrest, hr⟩ := map_eq_ok h
    cases hr
    rw [closedL_cons]
    exact ⟨updNode_closed (.strat sd kk) _ hk1, updKids_closed ks _ _ _ _ _ hrest⟩
end

theorem updRoot_closed {w w' : World K} (h : updRoot cfg d w = .ok w') : Closed d w'.root := by
  obtain ⟨root, st⟩ := w
  cases root with
  | sec s => cases h
  | strat sd kids =>
    rw [updRoot_strat] at h
    obtain ⟨⟨kids1, acc⟩, hk, h⟩ := bind_eq_ok h
    split at h
    · obtain ⟨wF, hfl, h⟩ := bind_eq_ok h
      obtain ⟨n, hn, rfl⟩ := map_eq_ok h
      exact updNode_closed _ _ hn
    · obtain ⟨n, hf, rfl⟩ := map_eq_ok h
      exact stratFinish_closed hf (updKids_closed kids _ _ _ _ _ hk)

end closed

/-! ### rows long enough, rows still empty, nothing pending -/

mutual
/-- every recorded row the ledger reads has an entry for date `d` -/
def RowsLong (d : Nat) : Node K → Prop
  | .sec s => d < s.rOutlay.length
  | .strat sd ks => d < sd.rCash.length ∧ d < sd.rFees.length ∧ d < sd.rFlows.length ∧ RowsLongL d ks
def RowsLongL (d : Nat) : List (Node K) → Prop
  | [] => True
  | k :: ks => RowsLong d k ∧ RowsLongL d ks
end

mutual
/-- every strategy's clock stands at `m` -/
def Clocked (m : Nat) : Node K → Prop
  | .sec _ => True
  | .strat sd ks => sd.now = some m ∧ ClockedL m ks
def ClockedL (m : Nat) : List (Node K) → Prop
  | [] => True
  | k :: ks => Clocked m k ∧ ClockedL m ks
end

mutual
/-- no security has an outlay recorded for date `d` yet, nor anything pending -/
def Fresh (d : Nat) : Node K → Prop
  | .sec s => s.rOutlay.getD d 0 = 0 ∧ s.outlayAcc = 0
  | .strat _ ks => FreshL d ks
def FreshL (d : Nat) : List (Node K) → Prop
  | [] => True
  | k :: ks => Fresh d k ∧ FreshL d ks
end

section rowsimp
variable (d : Nat)
@[simp] theorem rowsLong_sec (s : SecData K) : RowsLong d (.sec s) ↔ d < s.rOutlay.length := by
  simp [RowsLong]
@[simp] theorem rowsLong_strat (sd : StratData K) (ks : List (Node K)) : RowsLong d (.strat sd ks) ↔
    d < sd.rCash.length ∧ d < sd.rFees.length ∧ d < sd.rFlows.length ∧ RowsLongL d ks := by
  simp [RowsLong]
@[simp] theorem rowsLongL_nil : RowsLongL d ([] : List (Node K)) ↔ True := by simp [RowsLongL]
@[simp] theorem rowsLongL_cons (k : Node K) (ks : List (Node K)) :
    RowsLongL d (k :: ks) ↔ RowsLong d k ∧ RowsLongL d ks := by simp [RowsLongL]
@[simp] theorem clocked_sec (s : SecData K) : Clocked d (.sec s) ↔ True := by simp [Clocked]
@[simp] theorem clocked_strat (sd : StratData K) (ks : List (Node K)) :
    Clocked d (.strat sd ks) ↔ sd.now = some d ∧ ClockedL d ks := by simp [Clocked]
@[simp] theorem clockedL_nil : ClockedL d ([] : List (Node K)) ↔ True := by simp [ClockedL]
@[simp] theorem clockedL_cons (k : Node K) (ks : List (Node K)) :
    ClockedL d (k :: ks) ↔ Clocked d k ∧ ClockedL d ks := by simp [ClockedL]
@[simp] theorem fresh_sec (s : SecData K) :
    Fresh d (.sec s) ↔ s.rOutlay.getD d 0 = 0 ∧ s.outlayAcc = 0 := by simp [Fresh]
@[simp] theorem fresh_strat (sd : StratData K) (ks : List (Node K)) :
    Fresh d (.strat sd ks) ↔ FreshL d ks := by simp [Fresh]
@[simp] theorem freshL_nil : FreshL d ([] : List (Node K)) ↔ True := by simp [FreshL]
@[simp] theorem freshL_cons (k : Node K) (ks : List (Node K)) :
    FreshL d (k :: ks) ↔ Fresh d k ∧ FreshL d ks := by simp [FreshL]
end rowsimp

mutual
theorem frozen_rowsLong {P : Nat → Prop} (d : Nat) : (n n' : Node K) → Frozen P n n' → RowsLong d n → RowsLong d n'
  | .sec s, .sec s', h, hr => by
    simp only [frozen_sec, rowsLong_sec] at *
    rw [h.rOutlay.1]; exact hr
  | .strat sd ks, .strat sd' ks', h, hr => by
    simp only [frozen_strat, rowsLong_strat] at *
    rw [h.1.rCash.1, h.1.rFees.1, h.1.rFlows.1]
    exact ⟨hr.1, hr.2.1, hr.2.2.1, frozenL_rowsLong d ks ks' h.2 hr.2.2.2⟩
  | .sec _, .strat _ _, h, _ => by simp at h
  | .strat _ _, .sec _, h, _ => by simp at h
theorem frozenL_rowsLong {P : Nat → Prop} (d : Nat) :
    (ks ks' : List (Node K)) → FrozenL P ks ks' → RowsLongL d ks → RowsLongL d ks'
  | [], [], _, _ => by simp
  | k :: ks, k' :: ks', h, hr => by
    simp only [frozenL_cons, rowsLongL_cons] at *
    exact ⟨frozen_rowsLong d k k' h.1 hr.1, frozenL_rowsLong d ks ks' h.2 hr.2⟩
  | [], _ :: _, h, _ => by simp at h
  | _ :: _, [], h, _ => by simp at h
end

mutual
/-- a tree whose securities are tidy and which has just been updated has nothing pending; an outlay row
    not written since is still empty -/
theorem frozen_fresh {P : Nat → Prop} {d d2 : Nat} (hne : ¬ P d2) :
    (n n' : Node K) → Frozen P n n' → Fresh d2 n → Closed d n' → TidyT n' → Fresh d2 n'
  | .sec s, .sec s', h, hf, hc, ht => by
    simp only [frozen_sec, fresh_sec, closed_sec, tidyT_sec] at *
    refine ⟨?_, hc ht⟩
    rw [List.getD_eq_getElem?_getD, h.rOutlay.exact (by simp) d2 hne, ← List.getD_eq_getElem?_getD]
    exact hf.1
  | .strat sd ks, .strat sd' ks', h, hf, hc, ht => by
    simp only [frozen_strat, fresh_strat, closed_strat, tidyT_strat] at *
    exact frozenL_fresh hne ks ks' h.2 hf hc.2.2.2 ht
  | .sec _, .strat _ _, h, _, _, _ => by simp at h
  | .strat _ _, .sec _, h, _, _, _ => by simp at h
theorem frozenL_fresh {P : Nat → Prop} {d d2 : Nat} (hne : ¬ P d2) :
    (ks ks' : List (Node K)) → FrozenL P ks ks' → FreshL d2 ks → ClosedL d ks' → TidyL ks' → FreshL d2 ks'
  | [], [], _, _, _, _ => by simp
  | k :: ks, k' :: ks', h, hf, hc, ht => by
    simp only [frozenL_cons, freshL_cons, closedL_cons, tidyL_cons] at *
    exact ⟨frozen_fresh hne k k' h.1 hf.1 hc.1 ht.1, frozenL_fresh hne ks ks' h.2 hf.2 hc.2 ht.2⟩
  | [], _ :: _, h, _, _, _ => by simp at h
  | _ :: _, [], h, _, _, _ => by simp at h
end

mutual
theorem good_clocked (d : Nat) : (n : Node K) → Good d n → Clocked d n
  | .sec s, _ => by simp
  | .strat sd ks, h => by
    simp only [good_strat, clocked_strat] at *; exact ⟨h.1, goodL_clocked d ks h.2⟩
theorem goodL_clocked (d : Nat) : (ks : List (Node K)) → GoodL d ks → ClockedL d ks
  | [], _ => by simp
  | k :: ks, h => by
    simp only [goodL_cons, clockedL_cons] at *; exact ⟨good_clocked d k h.1, goodL_clocked d ks h.2⟩
end

mutual
theorem prev_of_clocked {m d : Nat} (hne : m ≠ d) : (n : Node K) → Clocked m n → RowsLong d n → Prev d n
  | .sec s, _, hr => by simp only [rowsLong_sec, prev_sec] at *; exact hr
  | .strat sd ks, hc, hr => by
    simp only [clocked_strat, rowsLong_strat, prev_strat] at *
    exact ⟨⟨m, hc.1, hne⟩, prevL_of_clocked hne ks hc.2 hr.2.2.2⟩
theorem prevL_of_clocked {m d : Nat} (hne : m ≠ d) :
    (ks : List (Node K)) → ClockedL m ks → RowsLongL d ks → PrevL d ks
  | [], _, _ => by simp
  | k :: ks, hc, hr => by
    simp only [clockedL_cons, rowsLongL_cons, prevL_cons] at *
    exact ⟨prev_of_clocked hne k hc.1 hr.1, prevL_of_clocked hne ks hc.2 hr.2⟩
end

/-! ### descending along a path -/

theorem tidyT_get? : ∀ (p : List Nat) (n k : Node K), TidyT n → n.get? p = some k → TidyT k
  | [], n, k, h, hk => by rw [get?_nil] at hk; cases hk; exact h
  | i :: rest, .sec s, k, _, hk => by rw [get?_cons_sec] at hk; cases hk
  | i :: rest, .strat sd ks, k, h, hk => by
    rw [get?_cons_strat] at hk
    simp only [tidyT_strat] at h
    cases hc : ks[i]? with
    | none => rw [hc] at hk; cases hk
    | some c =>
      rw [hc] at hk
      exact tidyT_get? rest c k (tidyL_get ks i c h hc) hk

theorem closedL_get (d : Nat) : ∀ (ks : List (Node K)) (i : Nat) (k : Node K),
    ClosedL d ks → ks[i]? = some k → Closed d k
  | [], i, k, _, h => by simp at h
  | a :: ks, 0, k, hc, h => by
    simp only [List.getElem?_cons_zero, Option.some.injEq] at h
    subst h; simp only [closedL_cons] at hc; exact hc.1
  | a :: ks, i + 1, k, hc, h => by
    simp only [List.getElem?_cons_succ] at h
    simp only [closedL_cons] at hc
    exact closedL_get d ks i k hc.2 h

theorem closed_get? (d : Nat) : ∀ (p : List Nat) (n k : Node K), Closed d n → n.get? p = some k → Closed d k
  | [], n, k, h, hk => by rw [get?_nil] at hk; cases hk; exact h
  | i :: rest, .sec s, k, _, hk => by rw [get?_cons_sec] at hk; cases hk
  | i :: rest, .strat sd ks, k, h, hk => by
    rw [get?_cons_strat] at hk
    simp only [closed_strat] at h
    cases hc : ks[i]? with
    | none => rw [hc] at hk; cases hk
    | some c =>
      rw [hc] at hk
      exact closed_get? d rest c k (closedL_get d ks i c h.2.2.2 hc) hk

theorem rowsLongL_get (d : Nat) : ∀ (ks : List (Node K)) (i : Nat) (k : Node K),
    RowsLongL d ks → ks[i]? = some k → RowsLong d k
  | [], i, k, _, h => by simp at h
  | a :: ks, 0, k, hc, h => by
    simp only [List.getElem?_cons_zero, Option.some.injEq] at h
    subst h; simp only [rowsLongL_cons] at hc; exact hc.1
  | a :: ks, i + 1, k, hc, h => by
    simp only [List.getElem?_cons_succ] at h
    simp only [rowsLongL_cons] at hc
    exact rowsLongL_get d ks i k hc.2 h

theorem rowsLong_get? (d : Nat) : ∀ (p : List Nat) (n k : Node K),
    RowsLong d n → n.get? p = some k → RowsLong d k
  | [], n, k, h, hk => by rw [get?_nil] at hk; cases hk; exact h
  | i :: rest, .sec s, k, _, hk => by rw [get?_cons_sec] at hk; cases hk
  | i :: rest, .strat sd ks, k, h, hk => by
    rw [get?_cons_strat] at hk
    simp only [rowsLong_strat] at h
    cases hc : ks[i]? with
    | none => rw [hc] at hk; cases hk
    | some c =>
      rw [hc] at hk
      exact rowsLong_get? d rest c k (rowsLongL_get d ks i c h.2.2.2 hc) hk

theorem freshL_get (d : Nat) : ∀ (ks : List (Node K)) (i : Nat) (k : Node K),
    FreshL d ks → ks[i]? = some k → Fresh d k
  | [], i, k, _, h => by simp at h
  | a :: ks, 0, k, hc, h => by
    simp only [List.getElem?_cons_zero, Option.some.injEq] at h
    subst h; simp only [freshL_cons] at hc; exact hc.1
  | a :: ks, i + 1, k, hc, h => by
    simp only [List.getElem?_cons_succ] at h
    simp only [freshL_cons] at hc
    exact freshL_get d ks i k hc.2 h

theorem fresh_get? (d : Nat) : ∀ (p : List Nat) (n k : Node K), Fresh d n → n.get? p = some k → Fresh d k
  | [], n, k, h, hk => by rw [get?_nil] at hk; cases hk; exact h
  | i :: rest, .sec s, k, _, hk => by rw [get?_cons_sec] at hk; cases hk
  | i :: rest, .strat sd ks, k, h, hk => by
    rw [get?_cons_strat] at hk
    simp only [fresh_strat] at h
    cases hc : ks[i]? with
    | none => rw [hc] at hk; cases hk
    | some c =>
      rw [hc] at hk
      exact fresh_get? d rest c k (freshL_get d ks i c h hc) hk

/-! ### the recorded rows of the children -/

/-- `Σ outlays[d]` over the direct security children -/
def rowOutlays (d : Nat) : List (Node K) → K
  | [] => 0
  | .sec s :: ks => s.rOutlay.getD d 0 + rowOutlays d ks
  | .strat _ _ :: ks => rowOutlays d ks

/-- `Σ flows[d]` over the direct sub-strategy children -/
def rowFlows (d : Nat) : List (Node K) → K
  | [] => 0
  | .sec _ :: ks => rowFlows d ks
  | .strat sd _ :: ks => sd.rFlows.getD d 0 + rowFlows d ks

theorem outlayKids_rows (d : Nat) : ∀ ks : List (Node K), ClosedL d ks → TidyL ks →
    outlayKids d ks = rowOutlays d ks
  | [], _, _ => rfl
  | .sec s :: ks, hc, ht => by
    simp only [closedL_cons, closed_sec, tidyL_cons, tidyT_sec] at hc ht
    simp only [outlayKids, rowOutlays, secOutlayTot, hc.1 ht.1, add_zero, outlayKids_rows d ks hc.2 ht.2]
  | .strat sd kk :: ks, hc, ht => by
    simp only [closedL_cons, tidyL_cons] at hc ht
    simp only [outlayKids, rowOutlays, outlayKids_rows d ks hc.2 ht.2]

theorem passedDown_rows (d : Nat) : ∀ ks : List (Node K), ClosedL d ks → RowsLongL d ks →
    passedDown ks = rowFlows d ks
  | [], _, _ => rfl
  | .sec s :: ks, hc, hr => by
    simp only [closedL_cons, rowsLongL_cons] at hc hr
    simp only [passedDown, rowFlows, passedDown_rows d ks hc.2 hr.2]
  | .strat sd kk :: ks, hc, hr => by
    simp only [closedL_cons, closed_strat, rowsLongL_cons, rowsLong_strat] at hc hr
    simp only [passedDown, rowFlows, passedDown_rows d ks hc.2 hr.2, List.getD_eq_getElem?_getD,
      hc.1.2.2.1 hr.1.2.2.1, Option.getD_some]

theorem outlayKids_fresh (d : Nat) : ∀ ks : List (Node K), FreshL d ks → outlayKids d ks = 0
  | [], _ => rfl
  | .sec s :: ks, hf => by
    simp only [freshL_cons, fresh_sec] at hf
    simp only [outlayKids, secOutlayTot, hf.1.1, hf.1.2, outlayKids_fresh d ks hf.2, add_zero]
  | .strat sd kk :: ks, hf => by
    simp only [freshL_cons] at hf
    simp only [outlayKids, outlayKids_fresh d ks hf.2]

/-! ### one day of `Backtest.run` -/

section day
variable {cfg : Cfg K} {run : RunFn K} {d : Nat}

/-- how `btDay` ran: the opening update; then either the root is bankrupt and nothing else happens, or the
    algos run — a sequence of public calls at clock `d` whose `adjust` calls are `T` — and the closing update -/
def DayTrace (cfg : Cfg K) (run : RunFn K) (d : Nat) (w : World K) (T : List (AdjCall K)) (w' : World K) : Prop :=
  ∃ w1, updRoot cfg d w = .ok w1 ∧
    ((w1.bankrupt = true ∧ w' = w1 ∧ T = []) ∨
     (w1.bankrupt = false ∧ ∃ w2, run d w1 = .ok w2 ∧ LRun cfg d w1 T w2 ∧ updRoot cfg d w2 = .ok w'))

/-- the ledger of a whole day: the pure opening (`OpenRel`) followed by steps that move the balances only
    by the `adjust` calls `T` -/
def DayRel (d : Nat) (T : List (AdjCall K)) (n n' : Node K) : Prop :=
  ∃ nO, OpenRel d n nO ∧ LedgerRel d (injSum T) (rootFlowIn T) nO n'

theorem openRel_isStrat {n n' : Node K} (h : OpenRel d n n') (hs : ∃ sd ks, n = .strat sd ks) :
    ∃ sd ks, n' = .strat sd ks := by
  obtain ⟨sd, ks, rfl⟩ := hs
  cases n' with
  | sec s => simp at h
  | strat sd' ks' => exact ⟨_, _, rfl⟩

theorem updRoot_isStrat {w w' : World K} (h : updRoot cfg d w = .ok w') : ∃ sd ks, w.root = .strat sd ks := by
  obtain ⟨root, st⟩ := w
  cases root with
  | sec s => cases h
  | strat sd ks => exact ⟨_, _, rfl⟩

theorem btDay_core (hrun : P04.RunPublic cfg run) {w w' : World K} (hp : Prev d w.root)
    (h : btDay cfg run d w = .ok w') :
    ∃ T, DayTrace cfg run d w T w' ∧ DayRel d T w.root w'.root ∧ GoodR d w'.root ∧
      (TidyT w.root → TidyT w'.root) ∧ Closed d w'.root ∧ Frozen (· = d) w.root w'.root := by
  unfold btDay at h
  obtain ⟨w1, h1, h⟩ := bind_eq_ok h
  have hs := updRoot_isStrat h1
  have hf1 := updRoot_frozen_at h1
  obtain ⟨nO, ho, hn, g1, t1⟩ : ∃ nO, OpenRel d w.root nO ∧ NLW d nO w1.root ∧ GoodR d w1.root ∧
      (TidyT w.root → TidyT w1.root) := by
    rcases updRoot_open hp h1 with ho | ⟨_, _, nO, ho, hn⟩
    · exact ⟨_, ho, NLW.refl d _, ⟨openRel_good _ _ ho hp, openRel_isStrat ho hs⟩, openRel_tidy _ _ ho⟩
    · exact ⟨nO, ho, hn, hn.goodR ⟨openRel_good _ _ ho hp, openRel_isStrat ho hs⟩,
        fun ht => nl_tidy d _ _ hn.1 (openRel_tidy _ _ ho ht)⟩
  split at h
  · rename_i hb
    obtain rfl : w1 = w' := by cases h; rfl
    exact ⟨[], ⟨w1, h1, .inl ⟨hb, rfl, rfl⟩⟩, ⟨nO, ho, hn.ledgerRel.congr (fun _ => rfl) rfl⟩, g1, t1,
      updRoot_closed h1, hf1.1⟩
  · rename_i hb
    have hb' : w1.bankrupt = false := by simpa using hb
    obtain ⟨w2, h2, h3⟩ := bind_eq_ok h
    have hr := hrun d w1 w2 hf1.2 h2
    obtain ⟨T, hT⟩ := LRun.ofC hr
    obtain ⟨l, g2, t2⟩ := hT.ledger g1
    have h3n := updRoot_nlw g2.1 h3
    refine ⟨T, ⟨w1, h1, .inr ⟨hb', w2, h2, hT, h3⟩⟩, ⟨nO, ho, ?_⟩, h3n.goodR g2,
      fun ht => nl_tidy d _ _ h3n.1 (t2 (t1 ht)), updRoot_closed h3, ?_⟩
    · exact ((hn.ledgerRel.trans l).trans h3n.ledgerRel).congr (fun q => by ring) (by ring)
    · exact Frozen.trans _ _ _ hf1.1 (Frozen.trans _ _ _ (hr.frozen hf1.2) (updRoot_frozen_at h3).1)

/-- the opening update alone, liquidation or not, as a day without `adjust` calls -/
theorem updRoot_dayRel {w w' : World K} (hp : Prev d w.root) (h : updRoot cfg d w = .ok w') :
    DayRel d [] w.root w'.root := by
  rcases updRoot_open hp h with ho | ⟨_, _, nO, ho, hn⟩
  · exact ⟨_, ho, (NLW.refl d _).ledgerRel.congr (fun _ => rfl) rfl⟩
  · exact ⟨nO, ho, hn.ledgerRel.congr (fun _ => rfl) rfl⟩

/-- on a day whose opening update leaves the root bankrupt nothing else happens -/
theorem btDay_bankrupt {w w1 : World K} (h1 : updRoot cfg d w = .ok w1) (hb : w1.bankrupt = true) :
    btDay cfg run d w = .ok w1 := by
  unfold btDay
  rw [h1, bind_ok, if_pos hb]; rfl

/-- the day ledger in path form -/
theorem DayRel.path {T : List (AdjCall K)} {n n' : Node K} (h : DayRel d T n n') :
    ∀ q sd ks, n.get? q = some (.strat sd ks) →
      ∃ sd' ks', n'.get? q = some (.strat sd' ks') ∧ sd'.now = some d ∧
        bal d sd' ks' = sd.capital + parkedKids ks + outlayKids d ks + injSum T q := by
  obtain ⟨nO, ho, hl⟩ := h
  intro q sd ks hq
  obtain ⟨kO, hkO, hko⟩ := openRel_get? q n nO _ ho hq
  cases kO with
  | sec s => simp at hko
  | strat sdO ksO =>
    simp only [openRel_strat] at hko
    obtain ⟨sd', ks', g, hn, hb⟩ := hl.1 q sdO ksO hkO
    refine ⟨sd', ks', g, hn.trans hko.1, ?_⟩
    obtain ⟨a, b⟩ := openRelL_kids _ _ hko.2.2.2.2
    rw [hb, bal, hko.2.1, hko.2.2.1, hko.2.2.2.1, a, b]; ring

/-- the root's flows of the day are exactly the flow adjustments made directly on it -/
theorem DayRel.rootFlows {T : List (AdjCall K)} {n n' : Node K} (h : DayRel d T n n')
    {sd : StratData K} {ks : List (Node K)} (hn : n = .strat sd ks) :
    ∃ sd' ks', n' = .strat sd' ks' ∧ sd'.netFlows = rootFlowIn T := by
  obtain ⟨sd', ks', g, -, -⟩ := h.path [] sd ks (by rw [hn, get?_nil])
  rw [get?_nil] at g
  simp only [Option.some.injEq] at g
  obtain ⟨nO, ho, hl⟩ := h
  subst hn; subst g
  cases nO with
  | sec s => simp at ho
  | strat sdO ksO =>
    simp only [openRel_strat] at ho
    have := hl.2
    simp only [kidTerm, ho.2.2.2.1, zero_add] at this
    exact ⟨_, _, rfl, this⟩

end day

/-! ### the loop over the dates -/

section loop
variable {cfg : Cfg K} {run : RunFn K}

theorem btLoop_append (pre post : List Nat) (w wa w' : World K) (h1 : btLoop cfg run pre w = .ok wa)
    (h2 : btLoop cfg run post wa = .ok w') : btLoop cfg run (pre ++ post) w = .ok w' := by
  induction pre generalizing w with
  | nil => rw [btLoop] at h1; cases h1; exact h2
  | cons d pre ih =>
    rw [btLoop] at h1
    obtain ⟨w1, hd, hrest⟩ := bind_eq_ok h1
    rw [List.cons_append, btLoop, hd]
    exact ih w1 hrest

/-- every day of the loop starts from a world that stands on the previous date of the list, with rows long
    enough — and, if the initial world was tidy and had empty outlay rows for the dates to come, still
    tidy, with nothing recorded yet for the new date -/
theorem btLoop_days (hrun : P04.RunPublic cfg run) : ∀ (ds : List Nat) (m : Nat) (w w' : World K),
    Clocked m w.root → (m :: ds).Nodup → (∀ x ∈ ds, RowsLong x w.root) → btLoop cfg run ds w = .ok w' →
    ∀ pre d post, ds = pre ++ d :: post →
      ∃ wa wb, btLoop cfg run pre w = .ok wa ∧ btDay cfg run d wa = .ok wb ∧
        btLoop cfg run post wb = .ok w' ∧ Prev d wa.root ∧ RowsLong d wa.root ∧
        (TidyT w.root → TidyT wa.root) ∧
        (TidyT w.root → (∀ x ∈ ds, Fresh x w.root) → Fresh d wa.root)
  | [], m, w, w', _, _, _, _, pre, d, post, hsplit => by
    cases pre <;> cases hsplit
  | d0 :: rest, m, w, w', hc, hnd, hrows, h, pre, d, post, hsplit => by
    rw [btLoop] at h
    obtain ⟨w1, hday, hrest⟩ := bind_eq_ok h
    have hm0 : m ≠ d0 := fun e => by
      have := (List.nodup_cons.1 hnd).1
      exact this (e ▸ List.mem_cons_self ..)
    have hp0 : Prev d0 w.root := prev_of_clocked hm0 _ hc (hrows d0 (List.mem_cons_self ..))
    cases pre with
    | nil =>
      simp only [List.nil_append, List.cons.injEq] at hsplit
      obtain ⟨rfl, rfl⟩ := hsplit
      exact ⟨w, w1, rfl, hday, hrest, hp0, hrows d0 (List.mem_cons_self ..), id,
        fun _ hf => hf d0 (List.mem_cons_self ..)⟩
    | cons p0 pre' =>
      simp only [List.cons_append, List.cons.injEq] at hsplit
      obtain ⟨rfl, rfl⟩ := hsplit
      obtain ⟨T, _, _, g1, t1, c1, f1⟩ := btDay_core hrun hp0 hday
      have hnd' : (d0 :: (pre' ++ d :: post)).Nodup := (List.nodup_cons.1 hnd).2
      have hrows' : ∀ x ∈ pre' ++ d :: post, RowsLong x w1.root := fun x hx =>
        frozen_rowsLong x _ _ f1 (hrows x (List.mem_cons_of_mem _ hx))
      obtain ⟨wa, wb, e1, e2, e3, e4, e5, e6, e7⟩ :=
        btLoop_days hrun (pre' ++ d :: post) d0 w1 w' (good_clocked d0 _ g1.1) hnd' hrows' hrest pre' d post rfl
      refine ⟨wa, wb, ?_, e2, e3, e4, e5, fun ht => e6 (t1 ht), fun ht hf => e7 (t1 ht) fun x hx => ?_⟩
      · rw [btLoop, hday]; exact e1
      · have hx0 : x ≠ d0 := fun e => by
          have := (List.nodup_cons.1 hnd').1
          exact this (e ▸ hx)
        exact frozen_fresh (d := d0) (P := (· = d0)) hx0 _ _ f1 (hf x (List.mem_cons_of_mem _ hx)) c1 (t1 ht)

/-! ### `Backtest.run`: after `adjust(initial_capital)` and `update(dates[0])` the tree stands on `dates[0]` -/

theorem clocked_setWeight (d : Nat) (w : K) : ∀ k : Node K, Clocked d k → Clocked d (k.setWeight w)
  | .sec s, _ => by simp [Node.setWeight]
  | .strat sd ks, h => by
    rw [clocked_strat] at h
    show Clocked d (.strat { sd with weight := w } ks)
    rw [clocked_strat]; exact h

theorem clockedL_kidsWeights (d : Nat) (fi : Bool) (v n : K) : ∀ ks : List (Node K),
    ClockedL d ks → ClockedL d (kidsWeights cfg fi v n ks)
  | [], _ => by simp [kidsWeights]
  | k :: ks, h => by
    simp only [clockedL_cons] at h
    rw [kidsWeights_cons, clockedL_cons]
    refine ⟨?_, clockedL_kidsWeights d fi v n ks h.2⟩
    split
    · exact h.1
    · exact clocked_setWeight d _ k h.1

theorem stratFinish_clocked {d : Nat} {np : Bool} {sd1 : StratData K} {r : List (Node K) × Acc K} {n' : Node K}
    (hn : sd1.now = some d) (h : stratFinish cfg d np sd1 r = .ok n') (hk : ClockedL d r.1) : Clocked d n' := by
  obtain ⟨sd', fi, v, nn, rfl, f1, -, -, -⟩ := stratFinish_shape h
  rw [clocked_strat]
  exact ⟨f1.trans hn, clockedL_kidsWeights d fi v nn _ hk⟩

mutual
theorem updNode_clocked {d : Nat} : (n : Node K) → ∀ n', updNode cfg d n = .ok n' → Clocked d n'
  | .sec s, n', h => by
    rw [updNode.eq_1] at h
    obtain ⟨s', _, rfl⟩ := map_eq_ok h
    simp
  | .strat sd kids, n', h => by
    rw [updNode_strat] at h
    obtain ⟨⟨kids1, acc⟩, hk, hf⟩ := bind_eq_ok h
    exact stratFinish_clocked (P08.stratDateChange_now d sd) hf (updKids_clocked kids _ _ _ _ _ hk)
theorem updKids_clocked {d : Nat} : (ks : List (Node K)) → ∀ (np bo : Bool) (acc : Acc K) ks' a,
    updKids cfg d np bo ks acc = .ok (ks', a) → ClockedL d ks'
  | [], np, bo, acc, ks', a, h => by
    rw [updKids.eq_1] at h; cases h; simp
  | .sec s :: ks, np, bo, acc, ks', a, h => by
    rw [updKids_sec] at h
    split at h
    · obtain ⟨⟨ks1, a1⟩, hrest, hr⟩ := map_eq_ok h
      cases hr
      rw [clockedL_cons]
      exact ⟨by simp, updKids_clocked ks _ _ _ _ _ hrest⟩
    · obtain ⟨s1, _, h⟩ := bind_eq_ok h
      obtain ⟨⟨ks1, a1⟩, hrest, hr⟩ := map_eq_ok h
      cases hr
      rw [clockedL_cons]
      exact ⟨by simp, updKids_clocked ks _ _ _ _ _ hrest⟩
  | .strat sd kk :: ks, np, bo, acc, ks', a, h => by
    rw [updKids_strat] at h
    obtain ⟨k1, hk1, h⟩ := bind_eq_ok h
    obtain ⟨⟨ks1, a1⟩, hrest, hr⟩ := map_eq_ok h
    cases hr
    rw [clockedL_cons]
    exact ⟨updNode_clocked (.strat sd kk) _ hk1, updKids_clocked ks _ _ _ _ _ hrest⟩
end

/-- after `root.update(d)`, whatever the clocks were, every strategy stands on `d` -/
theorem updRoot_clocked {d : Nat} {w w' : World K} (h : updRoot cfg d w = .ok w') : Clocked d w'.root := by
  obtain ⟨root, st⟩ := w
  cases root with
  | sec s => cases h
  | strat sd kids =>
    rw [updRoot_strat] at h
    obtain ⟨⟨kids1, acc⟩, hk, h⟩ := bind_eq_ok h
    split at h
    · obtain ⟨wF, hfl, h⟩ := bind_eq_ok h
      obtain ⟨n, hn, rfl⟩ := map_eq_ok h
      exact updNode_clocked _ _ hn
    · obtain ⟨n, hf, rfl⟩ := map_eq_ok h
      exact stratFinish_clocked (P08.stratDateChange_now d sd) hf (updKids_clocked kids _ _ _ _ _ hk)

/-- the world `Backtest.run` enters its loop with -/
theorem btRun_loop {c : K} {d0 : Nat} {ds : List Nat} {w0 w' : World K}
    (hrows : ∀ x ∈ ds, RowsLong x w0.root) (h : btRun cfg run c (d0 :: ds) w0 = .ok w') :
    ∃ w2, btLoop cfg run ds w2 = .ok w' ∧ Clocked d0 w2.root ∧ ∀ x ∈ ds, RowsLong x w2.root := by
  unfold btRun at h
  simp only at h
  obtain ⟨w1, h1, h⟩ := bind_eq_ok h
  obtain ⟨w2, h2, h3⟩ := bind_eq_ok h
  exact ⟨w2, h3, updRoot_clocked h2, fun x hx =>
    frozen_rowsLong x _ _ (updRoot_frozen h2) (frozen_rowsLong x _ _ (opAdjust_frozen h1) (hrows x hx))⟩

end loop

/-! ### readable form of what the `adjust` calls of a run add to a balance -/

/-- non-flow adjustments made directly on the strategy at `q` -/
def nonflowIn (T : List (AdjCall K)) (q : List Nat) : K :=
  ((T.filter fun c => !c.flow && decide (c.path = q)).map (·.amount)).sum
/-- flow adjustments made directly on the strategy at `q` -/
def flowIn (T : List (AdjCall K)) (q : List Nat) : K :=
  ((T.filter fun c => c.flow && decide (c.path = q)).map (·.amount)).sum
/-- flow adjustments made directly on the sub-strategy children of the strategy at `q`
    (flows those children book without their parent having paid for them) -/
def flowInKids (T : List (AdjCall K)) (q : List Nat) : K :=
  ((T.filter fun c => c.flow && childOf c.path q).map (·.amount)).sum

theorem injSum_eq (T : List (AdjCall K)) (q : List Nat) : injSum T q = nonflowIn T q + flowInKids T q := by
  induction T with
  | nil => simp [injSum, nonflowIn, flowInKids]
  | cons c T ih =>
    have h1 : injSum (c :: T) q = adjInjAt c.amount c.flow c.path q + injSum T q := by simp [injSum]
    have h2 : nonflowIn (c :: T) q =
        (if c.flow = false ∧ c.path = q then c.amount else 0) + nonflowIn T q := by
      simp only [nonflowIn, List.filter_cons]
      cases hf : c.flow <;> by_cases hp : c.path = q <;> simp [hp]
    have h3 : flowInKids (c :: T) q =
        (if c.flow = true ∧ childOf c.path q = true then c.amount else 0) + flowInKids T q := by
      simp only [flowInKids, List.filter_cons]
      cases hf : c.flow <;> cases hc : childOf c.path q <;> simp
    rw [h1, h2, h3, ih, adjInjAt_eq]; ring

theorem headInj_eq (amount : K) (fl : Bool) (path : List Nat) :
    headInj amount fl path = if fl = true ∧ path = [] then amount else 0 := by
  cases path <;> cases fl <;> simp [headInj]

theorem rootFlowIn_eq (T : List (AdjCall K)) : rootFlowIn T = flowIn T [] := by
  induction T with
  | nil => simp [rootFlowIn, flowIn]
  | cons c T ih =>
    have h1 : rootFlowIn (c :: T) = headInj c.amount c.flow c.path + rootFlowIn T := by simp [rootFlowIn]
    have h2 : flowIn (c :: T) [] = (if c.flow = true ∧ c.path = [] then c.amount else 0) + flowIn T [] := by
      simp only [flowIn, List.filter_cons]
      cases hf : c.flow <;> by_cases hp : c.path = [] <;> simp [hp]
    rw [h1, h2, ih, headInj_eq]

/-! ### recorded rows along a path -/

theorem frozenL_getElem? {P : Nat → Prop} : ∀ (ks ks' : List (Node K)) (i : Nat) (k : Node K),
    FrozenL P ks ks' → ks[i]? = some k → ∃ k', ks'[i]? = some k' ∧ Frozen P k k'
  | [], [], i, k, _, h => by simp at h
  | a :: ks, a' :: ks', 0, k, hn, h => by
    simp only [List.getElem?_cons_zero, Option.some.injEq] at h
    subst h
    simp only [frozenL_cons] at hn
    exact ⟨a', by simp, hn.1⟩
  | a :: ks, a' :: ks', i + 1, k, hn, h => by
    simp only [List.getElem?_cons_succ] at h ⊢
    simp only [frozenL_cons] at hn
    exact frozenL_getElem? ks ks' i k hn.2 h
  | [], _ :: _, _, _, hn, _ => by simp at hn
  | _ :: _, [], _, _, hn, _ => by simp at hn

theorem frozen_get? {P : Nat → Prop} : ∀ (p : List Nat) (n n' k : Node K),
    Frozen P n n' → n.get? p = some k → ∃ k', n'.get? p = some k' ∧ Frozen P k k'
  | [], n, n', k, h, hk => by
    rw [get?_nil] at hk; cases hk
    exact ⟨n', get?_nil n', h⟩
  | i :: rest, .sec s, n', k, _, hk => by rw [get?_cons_sec] at hk; cases hk
  | i :: rest, .strat sd ks, .sec s', k, h, _ => by simp at h
  | i :: rest, .strat sd ks, .strat sd' ks', k, h, hk => by
    rw [get?_cons_strat] at hk ⊢
    simp only [frozen_strat] at h
    cases hc : ks[i]? with
    | none => rw [hc] at hk; cases hk
    | some c =>
      rw [hc] at hk
      obtain ⟨c', hc', hcc⟩ := frozenL_getElem? ks ks' i c h.2 hc
      rw [hc']
      exact frozen_get? rest c c' k hcc hk

/-! ### the day ledger, state form and recorded-rows form -/

section dayledger
variable {cfg : Cfg K} {run : RunFn K} {d : Nat}

/-- **one day of `Backtest.run`, every strategy node** (state form) -/
theorem btDay_state (hrun : P04.RunPublic cfg run) {w w' : World K} (hp : Prev d w.root)
    (h : btDay cfg run d w = .ok w') :
    ∃ T, DayTrace cfg run d w T w' ∧ GoodR d w'.root ∧
      ∀ q sd ks, w.root.get? q = some (.strat sd ks) →
        ∃ sd' ks', w'.root.get? q = some (.strat sd' ks') ∧ sd'.now = some d ∧
          sd'.capital - sd.capital =
            parkedKids ks + sd'.netFlows + (nonflowIn T q + flowInKids T q)
              - (outlayKids d ks' - outlayKids d ks) - sd'.lastFee - passedDown ks' ∧
          (q = [] → sd'.netFlows = flowIn T []) := by
  obtain ⟨T, htr, hrel, hg, _, _, _⟩ := btDay_core hrun hp h
  refine ⟨T, htr, hg, fun q sd ks hq => ?_⟩
  obtain ⟨sd', ks', g, hn, hb⟩ := hrel.path q sd ks hq
  refine ⟨sd', ks', g, hn, ?_, fun hq0 => ?_⟩
  · rw [injSum_eq] at hb
    rw [bal] at hb
    linear_combination hb
  · subst hq0
    rw [get?_nil] at hq
    simp only [Option.some.injEq] at hq
    obtain ⟨sd2, ks2, e, hfl⟩ := hrel.rootFlows hq
    rw [get?_nil, e] at g
    simp only [Option.some.injEq, Node.strat.injEq] at g
    obtain ⟨rfl, rfl⟩ := g
    rw [hfl, rootFlowIn_eq]

/-- **one day of `Backtest.run`, every strategy node** (recorded rows of date `d` after the closing update):
    for a tidy tree with rows long enough and nothing yet recorded for `d` -/
theorem btDay_rows (hrun : P04.RunPublic cfg run) {w w' : World K} (hp : Prev d w.root)
    (hrows : RowsLong d w.root) (ht : TidyT w.root) (hf : Fresh d w.root)
    (h : btDay cfg run d w = .ok w') :
    ∃ T, DayTrace cfg run d w T w' ∧
      ∀ q sd ks, w.root.get? q = some (.strat sd ks) →
        ∃ sd' ks', w'.root.get? q = some (.strat sd' ks') ∧
          sd'.rCash[d]? = some sd'.capital ∧ sd'.rFees[d]? = some sd'.lastFee ∧
          sd'.rFlows[d]? = some sd'.netFlows ∧
          outlayKids d ks' = rowOutlays d ks' ∧ passedDown ks' = rowFlows d ks' ∧
          (∀ m, m ≠ d → sd'.rCash[m]? = sd.rCash[m]?) ∧
          sd'.rCash.getD d 0 - sd.capital =
            parkedKids ks + sd'.rFlows.getD d 0 + (nonflowIn T q + flowInKids T q)
              - rowOutlays d ks' - sd'.rFees.getD d 0 - rowFlows d ks' := by
  obtain ⟨T, htr, hrel, hg, htd, hcl, hfr⟩ := btDay_core hrun hp h
  refine ⟨T, htr, fun q sd ks hq => ?_⟩
  obtain ⟨sd', ks', g, hn, hb⟩ := hrel.path q sd ks hq
  have hc := closed_get? d q _ _ hcl g
  have hr := rowsLong_get? d q _ _ (frozen_rowsLong d _ _ hfr hrows) g
  have htq := tidyT_get? q _ _ (htd ht) g
  have hfq := fresh_get? d q _ _ hf hq
  simp only [closed_strat, rowsLong_strat, tidyT_strat, fresh_strat] at hc hr htq hfq
  obtain ⟨k', gk, hfk⟩ := frozen_get? q _ _ _ hfr hq
  rw [g] at gk
  simp only [Option.some.injEq] at gk
  subst gk
  simp only [frozen_strat] at hfk
  have e1 := hc.1 hr.1
  have e2 := hc.2.1 hr.2.1
  have e3 := hc.2.2.1 hr.2.2.1
  have o1 := outlayKids_rows d ks' hc.2.2.2 htq
  have o2 := passedDown_rows d ks' hc.2.2.2 hr.2.2.2
  have o3 := outlayKids_fresh d ks hfq
  refine ⟨sd', ks', g, e1, e2, e3, o1, o2, fun m hm => hfk.1.rCash.exact (by simp) m hm, ?_⟩
  rw [List.getD_eq_getElem?_getD, List.getD_eq_getElem?_getD, List.getD_eq_getElem?_getD, e1, e2, e3]
  simp only [Option.getD_some]
  rw [injSum_eq, bal, o1, o2, o3] at hb
  linear_combination hb

end dayledger

end Bt.P07
