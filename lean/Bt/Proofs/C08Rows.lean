import Bt.Proofs.C08Root
/-! C08: recorded rows.  `Frozen P n n'`: same tree shape, every recorded row list keeps its length
    and its entries outside the index set `P` (zero-filling allowed for the notional row of hedges). -/
set_option linter.unusedSectionVars false
namespace Bt.P08
open Bt

variable {K : Type} [Field K] [LinearOrder K] [IsStrictOrderedRing K] [HasFloor K]

/-! ### one row list -/

/-- `l'` has the length of `l` and agrees with it at every index outside `P`
    (with `z`, an entry may instead have been overwritten by `0`). -/
def RowOK (P : Nat → Prop) (z : Bool) (l l' : List K) : Prop :=
  l'.length = l.length ∧ ∀ j, ¬ P j → l'[j]? = l[j]? ∨ (z = true ∧ l'[j]? = some 0)

@[simp] theorem RowOK.refl (P : Nat → Prop) (z : Bool) (l : List K) : RowOK P z l l :=
  ⟨rfl, fun _ _ => .inl rfl⟩

theorem RowOK.trans {P : Nat → Prop} {z : Bool} {l l' l'' : List K}
    (h1 : RowOK P z l l') (h2 : RowOK P z l' l'') : RowOK P z l l'' := by
  refine ⟨h2.1.trans h1.1, fun j hj => ?_⟩
  rcases h2.2 j hj with h | h
  · rcases h1.2 j hj with h' | h'
    · exact .inl (h.trans h')
    · exact .inr ⟨h'.1, h.trans h'.2⟩
  · exact .inr h

theorem RowOK.mono {P Q : Nat → Prop} {z : Bool} {l l' : List K} (hPQ : ∀ j, P j → Q j)
    (h : RowOK P z l l') : RowOK Q z l l' :=
  ⟨h.1, fun j hj => h.2 j fun hp => hj (hPQ j hp)⟩

theorem RowOK.set {P : Nat → Prop} {d : Nat} (hP : P d) (z : Bool) (l : List K) (x : K) :
    RowOK P z l (l.set d x) := by
  refine ⟨List.length_set, fun j hj => .inl ?_⟩
  have : d ≠ j := fun h => hj (h ▸ hP)
  rw [List.getElem?_set_ne this]

theorem RowOK.zero (P : Nat → Prop) (l : List K) : RowOK P true l (l.map fun _ => (0 : K)) := by
  refine ⟨List.length_map _, fun j _ => ?_⟩
  rw [List.getElem?_map]
  cases l[j]? with
  | none => exact .inl rfl
  | some x => exact .inr ⟨rfl, rfl⟩

/-- without zero-filling, or on a row that is all zero anyway, nothing outside `P` changed -/
theorem RowOK.exact {P : Nat → Prop} {z : Bool} {l l' : List K} (h : RowOK P z l l')
    (hz : z = true → ∀ x ∈ l, x = 0) : ∀ j, ¬ P j → l'[j]? = l[j]? := by
  intro j hj
  rcases h.2 j hj with h' | ⟨hz', h'⟩
  · exact h'
  · rw [h']
    have hlt : j < l.length := by
      rw [← h.1]
      by_contra hc
      rw [List.getElem?_eq_none (Nat.le_of_not_lt hc)] at h'
      cases h'
    rw [List.getElem?_eq_getElem hlt, hz hz' _ (List.getElem_mem hlt)]

/-! ### one node -/

def isHedge : SecKind → Bool
  | .hedge | .couponHedge => true
  | _ => false

/-- rows of a security: only indices in `P` may change (`rNotl` of the two hedge kinds may be zero-filled) -/
structure SecFrozen (P : Nat → Prop) (s s' : SecData K) : Prop where
  kind : s'.kind = s.kind
  rValue : RowOK P false s.rValue s'.rValue
  rPosition : RowOK P false s.rPosition s'.rPosition
  rNotl : RowOK P (isHedge s.kind) s.rNotl s'.rNotl
  rOutlay : RowOK P false s.rOutlay s'.rOutlay
  rBidofferPaid : RowOK P false s.rBidofferPaid s'.rBidofferPaid
  rCoupon : RowOK P false s.rCoupon s'.rCoupon
  rHolding : RowOK P false s.rHolding s'.rHolding

/-- rows of a strategy: only indices in `P` may change -/
structure StratFrozen (P : Nat → Prop) (sd sd' : StratData K) : Prop where
  rPrice : RowOK P false sd.rPrice sd'.rPrice
  rValue : RowOK P false sd.rValue sd'.rValue
  rNotl : RowOK P false sd.rNotl sd'.rNotl
  rCash : RowOK P false sd.rCash sd'.rCash
  rFees : RowOK P false sd.rFees sd'.rFees
  rFlows : RowOK P false sd.rFlows sd'.rFlows
  rBidofferPaid : RowOK P false sd.rBidofferPaid sd'.rBidofferPaid

theorem SecFrozen.refl (P : Nat → Prop) (s : SecData K) : SecFrozen P s s := by
  constructor <;> simp

theorem SecFrozen.trans {P : Nat → Prop} {s s' s'' : SecData K}
    (h1 : SecFrozen P s s') (h2 : SecFrozen P s' s'') : SecFrozen P s s'' := by
  have hk := h2.rNotl
  rw [h1.kind] at hk
  exact ⟨h2.kind.trans h1.kind, h1.rValue.trans h2.rValue, h1.rPosition.trans h2.rPosition,
    h1.rNotl.trans hk, h1.rOutlay.trans h2.rOutlay, h1.rBidofferPaid.trans h2.rBidofferPaid,
    h1.rCoupon.trans h2.rCoupon, h1.rHolding.trans h2.rHolding⟩

theorem SecFrozen.mono {P Q : Nat → Prop} {s s' : SecData K} (hPQ : ∀ j, P j → Q j)
    (h : SecFrozen P s s') : SecFrozen Q s s' :=
  ⟨h.kind, h.rValue.mono hPQ, h.rPosition.mono hPQ, h.rNotl.mono hPQ, h.rOutlay.mono hPQ,
    h.rBidofferPaid.mono hPQ, h.rCoupon.mono hPQ, h.rHolding.mono hPQ⟩

/-- same rows (any other field may differ) -/
theorem SecFrozen.of_rows {P : Nat → Prop} {s s' : SecData K} (hk : s'.kind = s.kind)
    (h1 : s'.rValue = s.rValue) (h2 : s'.rPosition = s.rPosition) (h3 : s'.rNotl = s.rNotl)
    (h4 : s'.rOutlay = s.rOutlay) (h5 : s'.rBidofferPaid = s.rBidofferPaid)
    (h6 : s'.rCoupon = s.rCoupon) (h7 : s'.rHolding = s.rHolding) : SecFrozen P s s' := by
  constructor <;> simp [*]

theorem StratFrozen.refl (P : Nat → Prop) (sd : StratData K) : StratFrozen P sd sd := by
  constructor <;> simp

theorem StratFrozen.trans {P : Nat → Prop} {s s' s'' : StratData K}
    (h1 : StratFrozen P s s') (h2 : StratFrozen P s' s'') : StratFrozen P s s'' :=
  ⟨h1.rPrice.trans h2.rPrice, h1.rValue.trans h2.rValue, h1.rNotl.trans h2.rNotl,
    h1.rCash.trans h2.rCash, h1.rFees.trans h2.rFees, h1.rFlows.trans h2.rFlows,
    h1.rBidofferPaid.trans h2.rBidofferPaid⟩

theorem StratFrozen.mono {P Q : Nat → Prop} {s s' : StratData K} (hPQ : ∀ j, P j → Q j)
    (h : StratFrozen P s s') : StratFrozen Q s s' :=
  ⟨h.rPrice.mono hPQ, h.rValue.mono hPQ, h.rNotl.mono hPQ, h.rCash.mono hPQ, h.rFees.mono hPQ,
    h.rFlows.mono hPQ, h.rBidofferPaid.mono hPQ⟩

theorem StratFrozen.of_rows {P : Nat → Prop} {s s' : StratData K}
    (h1 : s'.rPrice = s.rPrice) (h2 : s'.rValue = s.rValue) (h3 : s'.rNotl = s.rNotl)
    (h4 : s'.rCash = s.rCash) (h5 : s'.rFees = s.rFees) (h6 : s'.rFlows = s.rFlows)
    (h7 : s'.rBidofferPaid = s.rBidofferPaid) : StratFrozen P s s' := by
  constructor <;> simp [*]

/-! ### trees -/

mutual
/-- same shape, and every node's rows changed at most at indices in `P` -/
def Frozen (P : Nat → Prop) : Node K → Node K → Prop
  | .sec s, .sec s' => SecFrozen P s s'
  | .strat sd ks, .strat sd' ks' => StratFrozen P sd sd' ∧ FrozenL P ks ks'
  | _, _ => False
def FrozenL (P : Nat → Prop) : List (Node K) → List (Node K) → Prop
  | [], [] => True
  | k :: ks, k' :: ks' => Frozen P k k' ∧ FrozenL P ks ks'
  | _, _ => False
end

@[simp] theorem frozen_sec (P : Nat → Prop) (s s' : SecData K) :
    Frozen P (.sec s) (.sec s') ↔ SecFrozen P s s' := by simp [Frozen]
@[simp] theorem frozen_strat (P : Nat → Prop) (sd sd' : StratData K) (ks ks' : List (Node K)) :
    Frozen P (.strat sd ks) (.strat sd' ks') ↔ StratFrozen P sd sd' ∧ FrozenL P ks ks' := by
  simp [Frozen]
@[simp] theorem frozen_sec_strat (P : Nat → Prop) (s : SecData K) (sd' : StratData K) (ks') :
    Frozen P (.sec s) (.strat sd' ks') ↔ False := by simp [Frozen]
@[simp] theorem frozen_strat_sec (P : Nat → Prop) (sd : StratData K) (ks) (s' : SecData K) :
    Frozen P (.strat sd ks) (.sec s') ↔ False := by simp [Frozen]
@[simp] theorem frozenL_nil (P : Nat → Prop) : FrozenL P ([] : List (Node K)) [] ↔ True := by
  simp [FrozenL]
@[simp] theorem frozenL_cons (P : Nat → Prop) (k k' : Node K) (ks ks' : List (Node K)) :
    FrozenL P (k :: ks) (k' :: ks') ↔ Frozen P k k' ∧ FrozenL P ks ks' := by simp [FrozenL]
@[simp] theorem frozenL_nil_cons (P : Nat → Prop) (k' : Node K) (ks' : List (Node K)) :
    FrozenL P [] (k' :: ks') ↔ False := by simp [FrozenL]
@[simp] theorem frozenL_cons_nil (P : Nat → Prop) (k : Node K) (ks : List (Node K)) :
    FrozenL P (k :: ks) [] ↔ False := by simp [FrozenL]

mutual
theorem Frozen.refl (P : Nat → Prop) : (n : Node K) → Frozen P n n
  | .sec s => by simp [SecFrozen.refl]
  | .strat sd ks => by simp [StratFrozen.refl, FrozenL.refl P ks]
theorem FrozenL.refl (P : Nat → Prop) : (ks : List (Node K)) → FrozenL P ks ks
  | [] => by simp
  | k :: ks => by simp [Frozen.refl P k, FrozenL.refl P ks]
end

mutual
theorem Frozen.trans {P : Nat → Prop} :
    (n n' n'' : Node K) → Frozen P n n' → Frozen P n' n'' → Frozen P n n''
  | .sec s, .sec s', .sec s'', h1, h2 => by
    simp only [frozen_sec] at *; exact h1.trans h2
  | .strat sd ks, .strat sd' ks', .strat sd'' ks'', h1, h2 => by
    simp only [frozen_strat] at *
    exact ⟨h1.1.trans h2.1, FrozenL.trans ks ks' ks'' h1.2 h2.2⟩
  | .sec _, .strat _ _, _, h1, _ => by simp at h1
  | .strat _ _, .sec _, _, h1, _ => by simp at h1
  | .sec _, .sec _, .strat _ _, _, h2 => by simp at h2
  | .strat _ _, .strat _ _, .sec _, _, h2 => by simp at h2
theorem FrozenL.trans {P : Nat → Prop} :
    (ks ks' ks'' : List (Node K)) → FrozenL P ks ks' → FrozenL P ks' ks'' → FrozenL P ks ks''
  | [], [], [], _, _ => by simp
  | k :: ks, k' :: ks', k'' :: ks'', h1, h2 => by
    simp only [frozenL_cons] at *
    exact ⟨Frozen.trans k k' k'' h1.1 h2.1, FrozenL.trans ks ks' ks'' h1.2 h2.2⟩
  | [], _ :: _, _, h1, _ => by simp at h1
  | _ :: _, [], _, h1, _ => by simp at h1
  | [], [], _ :: _, _, h2 => by simp at h2
  | _ :: _, _ :: _, [], _, h2 => by simp at h2
end

mutual
theorem Frozen.mono {P Q : Nat → Prop} (hPQ : ∀ j, P j → Q j) :
    (n n' : Node K) → Frozen P n n' → Frozen Q n n'
  | .sec s, .sec s', h => by simp only [frozen_sec] at *; exact h.mono hPQ
  | .strat sd ks, .strat sd' ks', h => by
    simp only [frozen_strat] at *
    exact ⟨h.1.mono hPQ, FrozenL.mono hPQ ks ks' h.2⟩
  | .sec _, .strat _ _, h => by simp at h
  | .strat _ _, .sec _, h => by simp at h
theorem FrozenL.mono {P Q : Nat → Prop} (hPQ : ∀ j, P j → Q j) :
    (ks ks' : List (Node K)) → FrozenL P ks ks' → FrozenL Q ks ks'
  | [], [], _ => by simp
  | k :: ks, k' :: ks', h => by
    simp only [frozenL_cons] at *
    exact ⟨Frozen.mono hPQ k k' h.1, FrozenL.mono hPQ ks ks' h.2⟩
  | [], _ :: _, h => by simp at h
  | _ :: _, [], h => by simp at h
end

theorem FrozenL.length {P : Nat → Prop} :
    ∀ (ks ks' : List (Node K)), FrozenL P ks ks' → ks'.length = ks.length
  | [], [], _ => rfl
  | k :: ks, k' :: ks', h => by
    simp only [frozenL_cons] at h
    simp [FrozenL.length ks ks' h.2]
  | [], _ :: _, h => by simp at h
  | _ :: _, [], h => by simp at h

end Bt.P08
