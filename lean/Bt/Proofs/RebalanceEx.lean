import Bt.Proofs.Rebalance
import Bt.Proofs.RebalanceInt
import Bt.Proofs.RebalancePath
/-! Concrete `Rat` fixtures for the satisfiability examples and witnesses of C06. -/
namespace Bt.RebalEx
open Bt Bt.Rebal Bt.Alloc

/-- a plain fractional security on date 1, zero spread, up to date -/
def mkS (name : String) (mult : Rat) (price : Option Rat) (position weight : Rat) (needupdate : Bool) :
    SecData Rat :=
  { name := name, kind := .plain, fixedIncome := false, integer := false, bidofferSet := false,
    mult := mult, now := some 1, price := price, value := position * price.getD 0 * mult,
    notl := position * price.getD 0 * mult, weight := weight,
    position := position, lastPos := position, outlayAcc := 0, bidoffer := some 0, bidofferPaid := 0,
    capital := 0, coupon := 0, holdingCost := 0, needupdate := needupdate,
    prices := [none, price, price], bidoffers := [], coupons := [], costLong := none, costShort := none,
    rValue := [0, 0, 0], rPosition := [0, 0, 0], rNotl := [0, 0, 0], rOutlay := [0, 0, 0],
    rBidofferPaid := [0, 0, 0], rCoupon := [0, 0, 0], rHolding := [0, 0, 0] }

/-- a market-value strategy on date 1 without commission -/
def mkD (capital value weight : Rat) : StratData Rat :=
  { name := "s", fixedIncome := false, bidofferSet := false, paperTrade := false, paperPx := 0,
    comm := fun _ _ => 0, now := some 1, capital := capital, price := 100, value := value, notl := 0,
    weight := weight, netFlows := 0, lastValue := value, lastNotl := 0, lastPrice := 100, lastFee := 0,
    bidofferPaid := 0, bankrupt := false,
    rPrice := [100, 100, 0], rValue := [0, value, 0], rNotl := [0, 0, 0], rCash := [0, capital, 0],
    rFees := [0, 0, 0], rFlows := [0, 0, 0], rBidofferPaid := [0, 0, 0] }

/-- 1000 of value: 300 in `a` (30 × 10), 200 in `b` (10 × 20 — not a target below), nothing in `c`, 500 cash -/
def secs : List (SecData Rat) :=
  [mkS "a" 1 (some 10) 30 (3/10) true, mkS "b" 1 (some 20) 10 (1/5) true, mkS "c" 2 (some 5) 0 0 false]

def strat : StratData Rat := mkD 500 1000 1

/-- comparable view of a flat world: (cash, value, [(position, value, weight)]) -/
def nodeView : Node Rat → Rat × Rat × Rat
  | .sec s => (s.position, s.value, s.weight)
  | .strat d _ => (d.capital, d.value, d.weight)

def view (w : World Rat) : Rat × Rat × List (Rat × Rat × Rat) :=
  match w.root with
  | .strat d ks => (d.capital, d.value, ks.map nodeView)
  | .sec s => (0, s.value, [])


theorem mkS_nice (name : String) (mult p pos w : Rat) (nu : Bool) (hp : isZero cfgQ.tol p = false)
    (hm : p * mult ≠ 0) (hflat : nu = false → pos = 0) :
    NiceSec cfgQ 1 (mkS name mult (some p) pos w nu) :=
  ⟨rfl, rfl, rfl, rfl, rfl, hp, hm, rfl, rfl, hflat⟩

theorem secs_nice : ∀ x ∈ secs, NiceSec cfgQ 1 x := by
  intro x hx
  simp only [secs, List.mem_cons, List.not_mem_nil, or_false] at hx
  rcases hx with rfl | rfl | rfl
  · exact mkS_nice _ _ _ _ _ _ (by decide +kernel) (by decide +kernel) (by decide)
  · exact mkS_nice _ _ _ _ _ _ (by decide +kernel) (by decide +kernel) (by decide)
  · exact mkS_nice _ _ _ _ _ _ (by decide +kernel) (by decide +kernel) (by decide)


/-- position of the security at a path -/
def posAt (w : World Rat) (path : List Nat) : Option Rat :=
  match w.root.get? path with
  | some (.sec s) => some s.position
  | _ => none

/-- a security priced at exactly 0 that still holds 5 units: value 0 -/
def zeroPriced : SecData Rat := mkS "z" 1 (some 0) 5 0 true

/-- a sub-strategy with 50 of cash and a short position worth −50 (−5 × 10): value exactly 0 -/
def zeroSub : Node Rat :=
  .strat { mkD 50 0 0 with name := "sub" } [.sec (mkS "y" 1 (some 10) (-5) 0 true)]


/-- whole-unit variant of `mkS` -/
def mkI (name : String) (mult : Rat) (price : Option Rat) (position weight : Rat) (needupdate : Bool) :
    SecData Rat :=
  { mkS name mult price position weight needupdate with integer := true }

/-- 1000 of value: 90 in whole-unit `i` (3 × 30), 200 in `b`, 710 cash -/
def secsI : List (SecData Rat) :=
  [mkI "i" 1 (some 30) 3 (9/100) true, mkS "b" 1 (some 20) 10 (1/5) true]

def stratI : StratData Rat := mkD 710 1000 1

theorem mkI_int (name : String) (mult p w : Rat) (z : ℤ) (nu : Bool) (hp : isZero cfgQ.tol p = false)
    (hm : 0 < p * mult) : IntSec cfgQ 1 (mkI name mult (some p) z w nu) :=
  ⟨rfl, rfl, rfl, rfl, rfl, hp, hm, rfl, rfl, ⟨z, rfl⟩⟩

theorem secsI_ready : ∀ x ∈ secsI, UpdReady 1 x := by
  intro x hx
  simp only [secsI, List.mem_cons, List.not_mem_nil, or_false] at hx
  rcases hx with rfl | rfl
  · exact ⟨rfl, rfl, rfl, fun h => (by cases h), fun _ => rfl⟩
  · exact ⟨rfl, rfl, rfl, fun h => (by cases h), fun _ => rfl⟩


/-- (position | cash, value, weight) of the node at a path -/
def valAt (w : World Rat) (path : List Nat) : Option (Rat × Rat × Rat) := (w.root.get? path).map nodeView

/-- the flat strategy `strat`/`secs` as the only child (weight 1) of a root holding no cash -/
def nested : World Rat :=
  { root := .strat { mkD 0 1000 1 with name := "root" } [.strat strat (secs.map Node.sec)], stale := false }

end Bt.RebalEx
