import Bt.Engine.Ops
import Bt.Proofs.Alloc
import Mathlib.Algebra.Order.Field.Basic
import Mathlib.Tactic.Ring
import Mathlib.Tactic.Linarith
/-! Helper lemmas for C10 (well-formed runs complete, ill-formed states raise). -/
set_option linter.unusedSectionVars false
set_option linter.unusedSimpArgs false
namespace Bt.Raises
open Bt Bt.Alloc

/-! ### `Except` plumbing -/
section exc
variable {ε α β : Type}

@[simp] theorem pure_ok (a : α) : (pure a : Except ε α) = .ok a := rfl
@[simp] theorem throw_err (e : ε) : (throw e : Except ε α) = .error e := rfl
@[simp] theorem bind_ok (a : α) (f : α → Except ε β) : (Except.ok a : Except ε α).bind f = f a := rfl
@[simp] theorem bind_err (e : ε) (f : α → Except ε β) :
    (Except.error e : Except ε α).bind f = .error e := rfl
@[simp] theorem map_ok (a : α) (f : α → β) : (Except.ok a : Except ε α).map f = .ok (f a) := rfl
@[simp] theorem map_err (e : ε) (f : α → β) : (Except.error e : Except ε α).map f = .error e := rfl

theorem map_ok_of {x : Except ε α} (f : α → β) (h : ∃ a, x = .ok a) : ∃ b, x.map f = .ok b := by
  obtain ⟨a, rfl⟩ := h; exact ⟨_, rfl⟩

end exc

/-! ### projections of the small steps of `SecurityBase.update` -/
section proj
variable {K : Type} [Field K] [LinearOrder K] [IsStrictOrderedRing K] [HasFloor K]

theorem secDateChange_price (d : Nat) (s : SecData K) :
    (secDateChange d s).price = if s.now = some d then s.price else cell s.prices d := by
  unfold secDateChange
  by_cases h : s.now = some d <;> simp [h]

@[simp] theorem secDateChange_kind (d : Nat) (s : SecData K) : (secDateChange d s).kind = s.kind := by
  unfold secDateChange; split <;> rfl
@[simp] theorem secDateChange_coupons (d : Nat) (s : SecData K) :
    (secDateChange d s).coupons = s.coupons := by
  unfold secDateChange; split <;> rfl
@[simp] theorem secDateChange_costLong (d : Nat) (s : SecData K) :
    (secDateChange d s).costLong = s.costLong := by
  unfold secDateChange; split <;> rfl
@[simp] theorem secDateChange_costShort (d : Nat) (s : SecData K) :
    (secDateChange d s).costShort = s.costShort := by
  unfold secDateChange; split <;> rfl
@[simp] theorem secDateChange_bidofferSet (d : Nat) (s : SecData K) :
    (secDateChange d s).bidofferSet = s.bidofferSet := by
  unfold secDateChange; split <;> rfl

/-- the part of a security that decides whether `update` raises and what it reads from the data -/
structure SameInputs (s t : SecData K) : Prop where
  kind : t.kind = s.kind
  position : t.position = s.position
  coupons : t.coupons = s.coupons
  costLong : t.costLong = s.costLong
  costShort : t.costShort = s.costShort
  bidofferSet : t.bidofferSet = s.bidofferSet

theorem SameInputs.refl (s : SecData K) : SameInputs s s := ⟨rfl, rfl, rfl, rfl, rfl, rfl⟩
theorem SameInputs.trans {s t u : SecData K} (h1 : SameInputs s t) (h2 : SameInputs t u) :
    SameInputs s u :=
  ⟨h2.kind.trans h1.kind, h2.position.trans h1.position, h2.coupons.trans h1.coupons,
   h2.costLong.trans h1.costLong, h2.costShort.trans h1.costShort,
   h2.bidofferSet.trans h1.bidofferSet⟩

theorem secDateChange_same (d : Nat) (s : SecData K) : SameInputs s (secDateChange d s) := by
  unfold secDateChange; split
  · exact ⟨rfl, rfl, rfl, rfl, rfl, rfl⟩
  · exact SameInputs.refl s
theorem secQuiet_same (cfg : Cfg K) (s : SecData K) : SameInputs s (secQuiet cfg s) := by
  unfold secQuiet; split
  · exact ⟨rfl, rfl, rfl, rfl, rfl, rfl⟩
  · exact SameInputs.refl s
theorem secFlushOutlay_same (d : Nat) (s : SecData K) : SameInputs s (secFlushOutlay d s) := by
  unfold secFlushOutlay; split
  · exact ⟨rfl, rfl, rfl, rfl, rfl, rfl⟩
  · exact SameInputs.refl s
theorem secRowBidoffer_same (d : Nat) (s : SecData K) : SameInputs s (secRowBidoffer d s) := by
  unfold secRowBidoffer; split
  · exact ⟨rfl, rfl, rfl, rfl, rfl, rfl⟩
  · exact SameInputs.refl s
theorem secRecordPos_same (d : Nat) (s : SecData K) : SameInputs s (secRecordPos d s) :=
  ⟨rfl, rfl, rfl, rfl, rfl, rfl⟩
theorem secSetValue_same (d : Nat) (v : K) (s : SecData K) : SameInputs s (secSetValue d v s) :=
  ⟨rfl, rfl, rfl, rfl, rfl, rfl⟩
theorem secFiTail_same (d : Nat) (s : SecData K) : SameInputs s (secFiTail d s) :=
  ⟨rfl, rfl, rfl, rfl, rfl, rfl⟩
theorem secHedgeTail_same (s : SecData K) : SameInputs s (secHedgeTail s) :=
  ⟨rfl, rfl, rfl, rfl, rfl, rfl⟩

end proj

/-! ### `SecurityBase.update`: when it raises, when it does not -/
section secupd
variable {K : Type} [Field K] [LinearOrder K] [IsStrictOrderedRing K] [HasFloor K]

theorem secMarkValue_none_open (cfg : Cfg K) (s : SecData K)
    (hp : s.price = none) (hz : isZero cfg.tol s.position = false) :
    secMarkValue cfg s = .error Err.nanPriceOpenPosition := by
  unfold secMarkValue; simp [hp, hz]

theorem secMarkValue_ok_of (cfg : Cfg K) (s : SecData K)
    (h : (∃ p, s.price = some p) ∨ isZero cfg.tol s.position = true) :
    ∃ v, secMarkValue cfg s = .ok v := by
  unfold secMarkValue
  cases hp : s.price with
  | some p => exact ⟨_, rfl⟩
  | none =>
    rcases h with ⟨p, h⟩ | h
    · rw [hp] at h; cases h
    · simp [h]

/-- the base update raises exactly the NaN-price error when it is not the early return, the price it
    reads is missing and the position is open -/
theorem secBaseUpdate_nan_open (cfg : Cfg K) (d : Nat) (s : SecData K)
    (he : secEarly d s = false) (hp : (secDateChange d s).price = none)
    (hz : isZero cfg.tol s.position = false) :
    secBaseUpdate cfg d s = .error Err.nanPriceOpenPosition := by
  unfold secBaseUpdate
  simp only [he, Bool.false_eq_true, ↓reduceIte]
  rw [secMarkValue_none_open cfg (secRecordPos d (secDateChange d s)) hp (by simpa using hz)]
  rfl

theorem secBaseUpdate_ok_of (cfg : Cfg K) (d : Nat) (s : SecData K)
    (h : secEarly d s = true ∨ (∃ p, (secDateChange d s).price = some p) ∨
      isZero cfg.tol s.position = true) :
    ∃ s1, secBaseUpdate cfg d s = .ok s1 ∧ SameInputs s s1 := by
  unfold secBaseUpdate
  by_cases he : secEarly d s = true
  · simp only [he, ↓reduceIte]; exact ⟨s, rfl, SameInputs.refl s⟩
  · simp only [he, Bool.false_eq_true, ↓reduceIte]
    have h' : (∃ p, (secRecordPos d (secDateChange d s)).price = some p) ∨
        isZero cfg.tol (secRecordPos d (secDateChange d s)).position = true := by
      rcases h with h | h | h
      · exact absurd h he
      · exact Or.inl h
      · exact Or.inr (by simpa using h)
    obtain ⟨v, hv⟩ := secMarkValue_ok_of cfg _ h'
    rw [hv]
    refine ⟨_, rfl, ?_⟩
    exact (((((secDateChange_same d s).trans (secRecordPos_same d _)).trans
      (secSetValue_same d v _)).trans (secQuiet_same cfg _)).trans (secFlushOutlay_same d _)).trans
      (secRowBidoffer_same d _)

/-- any successful base update leaves the inputs of the tails untouched -/
theorem secBaseUpdate_same (cfg : Cfg K) (d : Nat) (s s1 : SecData K)
    (h : secBaseUpdate cfg d s = .ok s1) : SameInputs s s1 := by
  unfold secBaseUpdate at h
  split at h
  · cases h; exact SameInputs.refl s
  · dsimp only at h
    cases hv : secMarkValue cfg (secRecordPos d (secDateChange d s)) with
    | error e => rw [hv] at h; cases h
    | ok v =>
      rw [hv] at h; cases h
      exact (((((secDateChange_same d s).trans (secRecordPos_same d _)).trans
        (secSetValue_same d v _)).trans (secQuiet_same cfg _)).trans (secFlushOutlay_same d _)).trans
        (secRowBidoffer_same d _)

end secupd

/-! ### coupon tail -/
section coupon
variable {K : Type} [Field K] [LinearOrder K] [IsStrictOrderedRing K] [HasFloor K]

theorem secCouponTail_nan_open (cfg : Cfg K) (d : Nat) (s : SecData K)
    (hc : cell s.coupons d = none) (hz : isZero cfg.tol s.position = false) :
    secCouponTail cfg d s = .error Err.nanCouponOpenPosition := by
  unfold secCouponTail; simp [hc, hz]

/-- the holding-cost cells the coupon tail will read are present -/
def CostOK (d : Nat) (s : SecData K) : Prop :=
  (0 < s.position → ∀ col, s.costLong = some col → ∃ c, cell col d = some c) ∧
  (s.position < 0 → ∀ col, s.costShort = some col → ∃ c, cell col d = some c)

/-- the coupon cell is present, or the position is flat -/
def CouponCellOK (cfg : Cfg K) (d : Nat) (s : SecData K) : Prop :=
  (∃ c, cell s.coupons d = some c) ∨ isZero cfg.tol s.position = true

/-- the coupon amount the tail computes -/
def couponAmt (cfg : Cfg K) (d : Nat) (s : SecData K) : Except Err K :=
  match cell s.coupons d with
  | none => if isZero cfg.tol s.position then pure 0 else throw Err.nanCouponOpenPosition
  | some c => pure (s.position * c)

/-- the holding cost the tail computes -/
def holdCost (d : Nat) (s : SecData K) : Except Err K :=
  if 0 < s.position && s.costLong.isSome then
    match cell (s.costLong.getD []) d with
    | none => throw Err.nanData
    | some c => pure (s.position * c)
  else if s.position < 0 && s.costShort.isSome then
    match cell (s.costShort.getD []) d with
    | none => throw Err.nanData
    | some c => pure (-s.position * c)
  else pure 0

theorem secCouponTail_eq (cfg : Cfg K) (d : Nat) (s : SecData K) :
    secCouponTail cfg d s =
      (couponAmt cfg d s).bind fun cpn => (holdCost d s).bind fun hc =>
        .ok { s with coupon := cpn, holdingCost := hc, capital := cpn - hc,
                     rCoupon := s.rCoupon.set d cpn, rHolding := s.rHolding.set d hc } := rfl

theorem couponAmt_ok_of (cfg : Cfg K) (d : Nat) (s : SecData K) (hc : CouponCellOK cfg d s) :
    ∃ c, couponAmt cfg d s = .ok c := by
  unfold couponAmt
  rcases hc with ⟨c, hc⟩ | hz
  · rw [hc]; exact ⟨_, rfl⟩
  · cases hcc : cell s.coupons d with
    | some c => exact ⟨_, rfl⟩
    | none => simp [hz]

theorem holdCost_ok_of (d : Nat) (s : SecData K) (hk : CostOK d s) :
    ∃ c, holdCost d s = .ok c := by
  unfold holdCost
  by_cases hpos : 0 < s.position
  · cases hl : s.costLong with
    | none =>
      have : ¬ s.position < 0 := not_lt.2 (le_of_lt hpos)
      simp [hpos, this]
    | some col =>
      obtain ⟨c, hc⟩ := hk.1 hpos col hl
      simp [hpos, hc]
  · by_cases hneg : s.position < 0
    · cases hs : s.costShort with
      | none => simp [hpos, hneg]
      | some col =>
        obtain ⟨c, hc⟩ := hk.2 hneg col hs
        simp [hpos, hneg, hc]
    · simp [hpos, hneg]

theorem secCouponTail_ok_of (cfg : Cfg K) (d : Nat) (s : SecData K)
    (hc : CouponCellOK cfg d s) (hk : CostOK d s) :
    ∃ s', secCouponTail cfg d s = .ok s' ∧ SameInputs s s' := by
  obtain ⟨c, h1⟩ := couponAmt_ok_of cfg d s hc
  obtain ⟨h, h2⟩ := holdCost_ok_of d s hk
  rw [secCouponTail_eq, h1, h2]
  exact ⟨_, rfl, ⟨rfl, rfl, rfl, rfl, rfl, rfl⟩⟩

theorem secCouponTail_same (cfg : Cfg K) (d : Nat) (s s' : SecData K)
    (h : secCouponTail cfg d s = .ok s') : SameInputs s s' := by
  rw [secCouponTail_eq] at h
  cases h1 : couponAmt cfg d s with
  | error e => rw [h1] at h; cases h
  | ok c =>
    cases h2 : holdCost d s with
    | error e => rw [h1, h2] at h; cases h
    | ok hc => rw [h1, h2] at h; cases h; exact ⟨rfl, rfl, rfl, rfl, rfl, rfl⟩

theorem secCouponTail_cost_missing_long (cfg : Cfg K) (d : Nat) (s : SecData K) (col : List (Option K))
    (hc : CouponCellOK cfg d s) (hpos : 0 < s.position) (hl : s.costLong = some col)
    (hcell : cell col d = none) :
    secCouponTail cfg d s = .error Err.nanData := by
  obtain ⟨c, h1⟩ := couponAmt_ok_of cfg d s hc
  have h2 : holdCost d s = .error Err.nanData := by
    unfold holdCost; simp [hpos, hl, hcell]
  rw [secCouponTail_eq, h1, h2]; rfl

theorem secCouponTail_cost_missing_short (cfg : Cfg K) (d : Nat) (s : SecData K) (col : List (Option K))
    (hc : CouponCellOK cfg d s) (hneg : s.position < 0) (hl : s.costShort = some col)
    (hcell : cell col d = none) :
    secCouponTail cfg d s = .error Err.nanData := by
  obtain ⟨c, h1⟩ := couponAmt_ok_of cfg d s hc
  have hpos : ¬ 0 < s.position := not_lt.2 (le_of_lt hneg)
  have h2 : holdCost d s = .error Err.nanData := by
    unfold holdCost; simp [hpos, hneg, hl, hcell]
  rw [secCouponTail_eq, h1, h2]; rfl

end coupon

/-! ### `update` as dispatched on the class -/
section secUpdate
variable {K : Type} [Field K] [LinearOrder K] [IsStrictOrderedRing K] [HasFloor K]

theorem secUpdate_nan_open (cfg : Cfg K) (d : Nat) (s : SecData K)
    (he : secEarly d s = false) (hp : (secDateChange d s).price = none)
    (hz : isZero cfg.tol s.position = false) :
    secUpdate cfg d s = .error Err.nanPriceOpenPosition := by
  unfold secUpdate; rw [secBaseUpdate_nan_open cfg d s he hp hz]; rfl

theorem secUpdate_nan_coupon (cfg : Cfg K) (d : Nat) (s s1 : SecData K)
    (hb : secBaseUpdate cfg d s = .ok s1) (hk : s.kind.isCoupon = true)
    (hc : cell s.coupons d = none) (hz : isZero cfg.tol s.position = false) :
    secUpdate cfg d s = .error Err.nanCouponOpenPosition := by
  have hs := secBaseUpdate_same cfg d s s1 hb
  have hs2 := hs.trans (secFiTail_same d s1)
  have ht : secCouponTail cfg d (secFiTail d s1) = .error Err.nanCouponOpenPosition :=
    secCouponTail_nan_open cfg d _ (by rw [hs2.coupons]; exact hc) (by rw [hs2.position]; exact hz)
  unfold secUpdate; rw [hb]
  cases hkk : s.kind <;> rw [hkk] at hk <;> simp [SecKind.isCoupon] at hk
  · simp only [bind_ok]; exact ht
  · simp only [bind_ok, ht, map_err]

/-- what a well-formed security looks like to `update(d)` -/
structure SecOK (cfg : Cfg K) (d : Nat) (s : SecData K) : Prop where
  price : secEarly d s = true ∨ (∃ p, (secDateChange d s).price = some p) ∨
    isZero cfg.tol s.position = true
  coupon : s.kind.isCoupon = true → CouponCellOK cfg d s ∧ CostOK d s

theorem secUpdate_ok_of (cfg : Cfg K) (d : Nat) (s : SecData K) (h : SecOK cfg d s) :
    ∃ s', secUpdate cfg d s = .ok s' ∧ SameInputs s s' := by
  obtain ⟨s1, hb, hs⟩ := secBaseUpdate_ok_of cfg d s h.price
  have hs2 := hs.trans (secFiTail_same d s1)
  unfold secUpdate; rw [hb]; simp only [bind_ok]
  cases hk : s.kind
  · exact ⟨_, rfl, hs⟩
  · exact ⟨_, rfl, hs2⟩
  · obtain ⟨hc, hcost⟩ := h.coupon (by rw [hk]; rfl)
    have hc' : CouponCellOK cfg d (secFiTail d s1) := by
      unfold CouponCellOK; rw [hs2.coupons, hs2.position]; exact hc
    have hk' : CostOK d (secFiTail d s1) := by
      unfold CostOK; rw [hs2.costLong, hs2.costShort, hs2.position]; exact hcost
    obtain ⟨s', h', hs3⟩ := secCouponTail_ok_of cfg d _ hc' hk'
    exact ⟨s', h', hs2.trans hs3⟩
  · exact ⟨_, rfl, hs.trans (secHedgeTail_same s1)⟩
  · obtain ⟨hc, hcost⟩ := h.coupon (by rw [hk]; rfl)
    have hc' : CouponCellOK cfg d (secFiTail d s1) := by
      unfold CouponCellOK; rw [hs2.coupons, hs2.position]; exact hc
    have hk' : CostOK d (secFiTail d s1) := by
      unfold CostOK; rw [hs2.costLong, hs2.costShort, hs2.position]; exact hcost
    obtain ⟨s', h', hs3⟩ := secCouponTail_ok_of cfg d _ hc' hk'
    rw [h']
    exact ⟨_, rfl, (hs2.trans hs3).trans (secHedgeTail_same s')⟩

end secUpdate

/-! ### the index write of `StrategyBase.update` -/
section write
variable {K : Type} [Field K] [LinearOrder K] [IsStrictOrderedRing K] [HasFloor K]

theorem mvReturn_zero_base (cfg : Cfg K) (sd : StratData K)
    (hb : isZero cfg.tol (sd.lastValue + sd.netFlows) = true) (hv : isZero cfg.tol sd.value = false) :
    mvReturn cfg sd = .error Err.zeroBaseReturn := by
  unfold mvReturn; simp [hb, hv]

theorem fiReturn_zero_base (cfg : Cfg K) (sd : StratData K)
    (hl : isZero cfg.tol sd.lastNotl = true) (hn : isZero cfg.tol sd.notl = true)
    (hv : isZero cfg.tol (sd.value - (sd.lastValue + sd.netFlows)) = false) :
    fiReturn cfg sd = .error Err.zeroBaseReturn := by
  unfold fiReturn; simp [hl, hn, hv]

theorem mvReturn_ok_iff (cfg : Cfg K) (sd : StratData K) :
    (∃ r, mvReturn cfg sd = .ok r) ↔
      (isZero cfg.tol (sd.lastValue + sd.netFlows) = false ∨ isZero cfg.tol sd.value = true) := by
  unfold mvReturn
  cases hb : isZero cfg.tol (sd.lastValue + sd.netFlows) <;> cases hv : isZero cfg.tol sd.value <;>
    simp [hb, hv]

theorem fiReturn_ok_iff (cfg : Cfg K) (sd : StratData K) :
    (∃ r, fiReturn cfg sd = .ok r) ↔
      (isZero cfg.tol sd.lastNotl = false ∨ isZero cfg.tol sd.notl = false ∨
        isZero cfg.tol (sd.value - (sd.lastValue + sd.netFlows)) = true) := by
  unfold fiReturn
  cases hl : isZero cfg.tol sd.lastNotl <;> cases hn : isZero cfg.tol sd.notl <;>
    cases hv : isZero cfg.tol (sd.value - (sd.lastValue + sd.netFlows)) <;> simp [hl, hn, hv]

theorem mvReturn_error (cfg : Cfg K) (sd : StratData K) (e : Err) (h : mvReturn cfg sd = .error e) :
    e = Err.zeroBaseReturn := by
  unfold mvReturn at h
  dsimp only at h
  split at h
  · cases h
  · split at h
    · cases h
    · cases h; rfl

theorem fiReturn_error (cfg : Cfg K) (sd : StratData K) (e : Err) (h : fiReturn cfg sd = .error e) :
    e = Err.zeroBaseReturn := by
  unfold fiReturn at h
  dsimp only at h
  split at h
  · cases h
  · split at h
    · cases h
    · split at h
      · cases h
      · cases h; rfl

@[simp] theorem stratSetTotals_fixedIncome (d : Nat) (sd : StratData K) (val notl bo : K) :
    (stratSetTotals d sd val notl bo).fixedIncome = sd.fixedIncome := by
  unfold stratSetTotals; dsimp only; split <;> rfl
@[simp] theorem stratSetTotals_lastValue (d : Nat) (sd : StratData K) (val notl bo : K) :
    (stratSetTotals d sd val notl bo).lastValue = sd.lastValue := by
  unfold stratSetTotals; dsimp only; split <;> rfl
@[simp] theorem stratSetTotals_netFlows (d : Nat) (sd : StratData K) (val notl bo : K) :
    (stratSetTotals d sd val notl bo).netFlows = sd.netFlows := by
  unfold stratSetTotals; dsimp only; split <;> rfl
@[simp] theorem stratSetTotals_lastNotl (d : Nat) (sd : StratData K) (val notl bo : K) :
    (stratSetTotals d sd val notl bo).lastNotl = sd.lastNotl := by
  unfold stratSetTotals; dsimp only; split <;> rfl
@[simp] theorem stratSetTotals_value (d : Nat) (sd : StratData K) (val notl bo : K) :
    (stratSetTotals d sd val notl bo).value = val := by
  unfold stratSetTotals; dsimp only; split <;> rfl
@[simp] theorem stratSetTotals_notl (d : Nat) (sd : StratData K) (val notl bo : K) :
    (stratSetTotals d sd val notl bo).notl = notl := by
  unfold stratSetTotals; dsimp only; split <;> rfl

/-- The exact condition under which the value / index write of `update` does not raise: either nothing
    is written, or the return formula of the strategy's kind has a usable base (or a zero numerator). -/
def WriteOK (cfg : Cfg K) (newpt : Bool) (sd : StratData K) (val notl : K) : Prop :=
  stratChanged cfg newpt sd val notl = true →
    (sd.fixedIncome = false →
      isZero cfg.tol (sd.lastValue + sd.netFlows) = false ∨ isZero cfg.tol val = true) ∧
    (sd.fixedIncome = true →
      isZero cfg.tol sd.lastNotl = false ∨ isZero cfg.tol notl = false ∨
        isZero cfg.tol (val - (sd.lastValue + sd.netFlows)) = true)

theorem stratWrite_ok_iff (cfg : Cfg K) (d : Nat) (newpt : Bool) (sd : StratData K) (val notl bo : K) :
    (∃ sd', stratWrite cfg d newpt sd val notl bo = .ok sd') ↔ WriteOK cfg newpt sd val notl := by
  unfold stratWrite WriteOK
  cases hc : stratChanged cfg newpt sd val notl
  · simp
  · simp only [↓reduceIte, stratSetTotals_fixedIncome, forall_const]
    cases hf : sd.fixedIncome
    · simp only [Bool.false_eq_true, ↓reduceIte, forall_const, IsEmpty.forall_iff, and_true]
      have key := mvReturn_ok_iff cfg (stratSetTotals d sd val notl bo)
      simp only [stratSetTotals_lastValue, stratSetTotals_netFlows, stratSetTotals_value] at key
      rw [← key]
      constructor
      · rintro ⟨sd', h⟩
        cases hr : mvReturn cfg (stratSetTotals d sd val notl bo) with
        | error e => rw [hr] at h; cases h
        | ok r => exact ⟨r, rfl⟩
      · rintro ⟨r, h⟩; rw [h]; exact ⟨_, rfl⟩
    · simp only [↓reduceIte, Bool.true_eq_false, IsEmpty.forall_iff, forall_const, true_and]
      have key := fiReturn_ok_iff cfg (stratSetTotals d sd val notl bo)
      simp only [stratSetTotals_lastValue, stratSetTotals_netFlows, stratSetTotals_value,
        stratSetTotals_lastNotl, stratSetTotals_notl] at key
      rw [← key]
      constructor
      · rintro ⟨sd', h⟩
        cases hr : fiReturn cfg (stratSetTotals d sd val notl bo) with
        | error e => rw [hr] at h; cases h
        | ok r => exact ⟨r, rfl⟩
      · rintro ⟨r, h⟩; rw [h]; exact ⟨_, rfl⟩

theorem stratWrite_error (cfg : Cfg K) (d : Nat) (newpt : Bool) (sd : StratData K) (val notl bo : K)
    (e : Err) (h : stratWrite cfg d newpt sd val notl bo = .error e) : e = Err.zeroBaseReturn := by
  unfold stratWrite at h
  split at h
  · dsimp only at h
    split at h
    · cases hr : fiReturn cfg (stratSetTotals d sd val notl bo) with
      | error e' => rw [hr] at h; cases h; exact fiReturn_error cfg _ _ hr
      | ok r => rw [hr] at h; cases h
    · cases hr : mvReturn cfg (stratSetTotals d sd val notl bo) with
      | error e' => rw [hr] at h; cases h; exact mvReturn_error cfg _ _ hr
      | ok r => rw [hr] at h; cases h
  · cases h

theorem stratWrite_raises_iff (cfg : Cfg K) (d : Nat) (newpt : Bool) (sd : StratData K) (val notl bo : K) :
    stratWrite cfg d newpt sd val notl bo = .error Err.zeroBaseReturn ↔ ¬ WriteOK cfg newpt sd val notl := by
  rw [← stratWrite_ok_iff cfg d newpt sd val notl bo]
  cases h : stratWrite cfg d newpt sd val notl bo with
  | ok sd' => simp
  | error e => rw [stratWrite_error cfg d newpt sd val notl bo e h]; simp

end write

/-! ### the children loop and the tree -/
section tree
variable {K : Type} [Field K] [LinearOrder K] [IsStrictOrderedRing K] [HasFloor K]

/-- what the children loop of `update` does with one child: new child, new accumulators -/
def kidStep (cfg : Cfg K) (d : Nat) (newpt bo : Bool) : Node K → Acc K → Except Err (Node K × Acc K)
  | .sec s, acc =>
    if !(sweepSec newpt s acc).1.needupdate then .ok (.sec (sweepSec newpt s acc).1, (sweepSec newpt s acc).2)
    else (secUpdate cfg d (sweepSec newpt s acc).1).map fun s1 =>
      (.sec s1, accAdd bo (sweepSec newpt s acc).2 (.sec s1))
  | .strat sd ks, acc => (updNode cfg d (.strat sd ks)).map fun k1 => (k1, accAdd bo acc k1)

theorem kidStep_sec (cfg : Cfg K) (d : Nat) (newpt bo : Bool) (s : SecData K) (acc : Acc K) :
    kidStep cfg d newpt bo (.sec s) acc =
      if !(sweepSec newpt s acc).1.needupdate then
        .ok (.sec (sweepSec newpt s acc).1, (sweepSec newpt s acc).2)
      else (secUpdate cfg d (sweepSec newpt s acc).1).map fun s1 =>
        (.sec s1, accAdd bo (sweepSec newpt s acc).2 (.sec s1)) := rfl

theorem kidStep_strat (cfg : Cfg K) (d : Nat) (newpt bo : Bool) (sd : StratData K)
    (ks : List (Node K)) (acc : Acc K) :
    kidStep cfg d newpt bo (.strat sd ks) acc =
      (updNode cfg d (.strat sd ks)).map fun k1 => (k1, accAdd bo acc k1) := rfl

theorem updKids_nil (cfg : Cfg K) (d : Nat) (newpt bo : Bool) (acc : Acc K) :
    updKids cfg d newpt bo [] acc = .ok ([], acc) := by
  rw [updKids]; rfl

theorem updKids_cons (cfg : Cfg K) (d : Nat) (newpt bo : Bool) (k : Node K) (ks : List (Node K))
    (acc : Acc K) :
    updKids cfg d newpt bo (k :: ks) acc =
      (kidStep cfg d newpt bo k acc).bind fun r =>
        (updKids cfg d newpt bo ks r.2).map fun r2 => (r.1 :: r2.1, r2.2) := by
  cases k with
  | sec s =>
    rw [updKids, kidStep_sec]
    dsimp only
    split
    · rfl
    · cases secUpdate cfg d (sweepSec newpt s acc).1 <;> rfl
  | strat sd kk =>
    rw [updKids, kidStep_strat]
    cases updNode cfg d (.strat sd kk) <;> rfl

theorem updKids_append (cfg : Cfg K) (d : Nat) (newpt bo : Bool) (pre post : List (Node K)) :
    ∀ acc : Acc K, updKids cfg d newpt bo (pre ++ post) acc =
      (updKids cfg d newpt bo pre acc).bind fun r =>
        (updKids cfg d newpt bo post r.2).map fun r2 => (r.1 ++ r2.1, r2.2) := by
  induction pre with
  | nil =>
    intro acc
    rw [updKids_nil]; simp only [List.nil_append, bind_ok]
    cases updKids cfg d newpt bo post acc <;> rfl
  | cons k ks ih =>
    intro acc
    rw [List.cons_append, updKids_cons, updKids_cons]
    cases hk : kidStep cfg d newpt bo k acc with
    | error e => rfl
    | ok r =>
      simp only [bind_ok]
      rw [ih]
      cases h1 : updKids cfg d newpt bo ks r.2 with
      | error e => rfl
      | ok r1 =>
        simp only [bind_ok, map_ok]
        cases h2 : updKids cfg d newpt bo post r1.2 with
        | error e => rfl
        | ok r2 => rfl

/-- Error propagation through the children loop: if the children before `k` update normally and `k`
    raises `e` at its turn, the loop raises `e` (whatever comes after). -/
theorem updKids_error_of_child_error (cfg : Cfg K) (d : Nat) (newpt bo : Bool)
    (pre post : List (Node K)) (k : Node K) (acc : Acc K) (r : List (Node K) × Acc K) (e : Err)
    (hpre : updKids cfg d newpt bo pre acc = .ok r)
    (hk : kidStep cfg d newpt bo k r.2 = .error e) :
    updKids cfg d newpt bo (pre ++ k :: post) acc = .error e := by
  rw [updKids_append, hpre, bind_ok, updKids_cons, hk]; rfl

/-- the swept coupon cash is added to the strategy's capital (l.720) -/
def addCap (c : K) (sd : StratData K) : StratData K := { sd with capital := sd.capital + c }

theorem WriteOK_addCap (cfg : Cfg K) (newpt : Bool) (c : K) (sd : StratData K) (val notl : K) :
    WriteOK cfg newpt (addCap c sd) val notl ↔ WriteOK cfg newpt sd val notl := Iff.rfl

theorem updNode_strat (cfg : Cfg K) (d : Nat) (sd : StratData K) (kids : List (Node K)) :
    updNode cfg d (.strat sd kids) =
      (updKids cfg d (stratDateChange d sd).2 (stratDateChange d sd).1.bidofferSet kids
          ⟨(stratDateChange d sd).1.capital, 0, 0, 0⟩).bind fun r =>
        (stratWrite cfg d (stratDateChange d sd).2 (addCap r.2.coupons (stratDateChange d sd).1)
            (r.2.val + r.2.coupons) r.2.notl r.2.bo).map fun sd3 =>
          .strat (stratRows d sd3) (kidsWeights cfg sd3.fixedIncome (r.2.val + r.2.coupons) r.2.notl r.1) := by
  rw [updNode]; rfl

theorem updNode_sec (cfg : Cfg K) (d : Nat) (s : SecData K) :
    updNode cfg d (.sec s) = (secUpdate cfg d s).map Node.sec := by
  rw [updNode]

/-- the part of `root.update` before the bankruptcy test is the children loop of `updNode` -/
theorem updRoot_error_of_kids_error (cfg : Cfg K) (d : Nat) (sd : StratData K) (kids : List (Node K))
    (st : Bool) (e : Err)
    (h : updKids cfg d (stratDateChange d sd).2 (stratDateChange d sd).1.bidofferSet kids
          ⟨(stratDateChange d sd).1.capital, 0, 0, 0⟩ = .error e) :
    updRoot cfg d { root := .strat sd kids, stale := st } = .error e := by
  unfold updRoot
  dsimp only
  rw [h]; rfl

theorem updNode_error_of_kids_error (cfg : Cfg K) (d : Nat) (sd : StratData K) (kids : List (Node K))
    (e : Err)
    (h : updKids cfg d (stratDateChange d sd).2 (stratDateChange d sd).1.bidofferSet kids
          ⟨(stratDateChange d sd).1.capital, 0, 0, 0⟩ = .error e) :
    updNode cfg d (.strat sd kids) = .error e := by
  rw [updNode_strat, h]; rfl

end tree

/-! ### the coupon sweep does not influence whether a security's update raises -/
section sweep
variable {K : Type} [Field K] [LinearOrder K] [IsStrictOrderedRing K] [HasFloor K]

/-- `s.capital := c` (what the parent's coupon sweep does with `c = 0`) -/
def setCap (c : K) (s : SecData K) : SecData K := { s with capital := c }

theorem secDateChange_setCap (d : Nat) (c : K) (s : SecData K) :
    secDateChange d (setCap c s) = setCap c (secDateChange d s) := by
  unfold secDateChange setCap; dsimp only; split <;> rfl
theorem secQuiet_setCap (cfg : Cfg K) (c : K) (s : SecData K) :
    secQuiet cfg (setCap c s) = setCap c (secQuiet cfg s) := by
  unfold secQuiet setCap; dsimp only; split <;> rfl
theorem secFlushOutlay_setCap (d : Nat) (c : K) (s : SecData K) :
    secFlushOutlay d (setCap c s) = setCap c (secFlushOutlay d s) := by
  unfold secFlushOutlay setCap; dsimp only; split <;> rfl
theorem secRowBidoffer_setCap (d : Nat) (c : K) (s : SecData K) :
    secRowBidoffer d (setCap c s) = setCap c (secRowBidoffer d s) := by
  unfold secRowBidoffer setCap; dsimp only; split <;> rfl

theorem secBaseUpdate_setCap (cfg : Cfg K) (d : Nat) (c : K) (s : SecData K) :
    secBaseUpdate cfg d (setCap c s) = (secBaseUpdate cfg d s).map (setCap c) := by
  unfold secBaseUpdate
  have he : secEarly d (setCap c s) = secEarly d s := rfl
  rw [he]
  split
  · rfl
  · dsimp only
    rw [secDateChange_setCap]
    have hm : secMarkValue cfg (secRecordPos d (setCap c (secDateChange d s))) =
        secMarkValue cfg (secRecordPos d (secDateChange d s)) := rfl
    rw [hm]
    cases secMarkValue cfg (secRecordPos d (secDateChange d s)) with
    | error e => rfl
    | ok v =>
      simp only [map_ok]
      have h1 : secSetValue d v (secRecordPos d (setCap c (secDateChange d s))) =
          setCap c (secSetValue d v (secRecordPos d (secDateChange d s))) := rfl
      rw [h1, secQuiet_setCap, secFlushOutlay_setCap, secRowBidoffer_setCap]

theorem secCouponTail_setCap (cfg : Cfg K) (d : Nat) (c : K) (s : SecData K) :
    secCouponTail cfg d (setCap c s) = secCouponTail cfg d s := rfl

/-- whether (and with what) `update` raises does not depend on the coupon cash parked on the security -/
theorem secUpdate_setCap_error (cfg : Cfg K) (d : Nat) (c : K) (s : SecData K) (e : Err) :
    secUpdate cfg d (setCap c s) = .error e ↔ secUpdate cfg d s = .error e := by
  unfold secUpdate
  rw [secBaseUpdate_setCap]
  have hk : (setCap c s).kind = s.kind := rfl
  rw [hk]
  cases secBaseUpdate cfg d s with
  | error e' => exact Iff.rfl
  | ok s1 =>
    simp only [map_ok, bind_ok]
    cases s.kind
    · simp
    · simp
    · have : secFiTail d (setCap c s1) = setCap c (secFiTail d s1) := rfl
      rw [this, secCouponTail_setCap]
    · simp
    · have : secFiTail d (setCap c s1) = setCap c (secFiTail d s1) := rfl
      rw [this, secCouponTail_setCap]

theorem sweepSec_fst (newpt : Bool) (s : SecData K) (acc : Acc K) :
    (sweepSec newpt s acc).1 = if newpt then setCap 0 s else s := by
  unfold sweepSec; split <;> rfl

@[simp] theorem sweepSec_needupdate (newpt : Bool) (s : SecData K) (acc : Acc K) :
    (sweepSec newpt s acc).1.needupdate = s.needupdate := by
  unfold sweepSec; split <;> rfl

theorem secUpdate_sweep_error (cfg : Cfg K) (d : Nat) (newpt : Bool) (s : SecData K) (acc : Acc K)
    (e : Err) :
    secUpdate cfg d (sweepSec newpt s acc).1 = .error e ↔ secUpdate cfg d s = .error e := by
  rw [sweepSec_fst]
  cases newpt
  · exact Iff.rfl
  · exact secUpdate_setCap_error cfg d 0 s e

theorem secUpdate_sweep_ok (cfg : Cfg K) (d : Nat) (newpt : Bool) (s : SecData K) (acc : Acc K) :
    (∃ s', secUpdate cfg d (sweepSec newpt s acc).1 = .ok s') ↔ ∃ s', secUpdate cfg d s = .ok s' := by
  have h := secUpdate_sweep_error cfg d newpt s acc
  constructor
  · rintro ⟨s', h1⟩
    cases h2 : secUpdate cfg d s with
    | ok s'' => exact ⟨_, rfl⟩
    | error e => rw [(h e).2 h2] at h1; cases h1
  · rintro ⟨s', h1⟩
    cases h2 : secUpdate cfg d (sweepSec newpt s acc).1 with
    | ok s'' => exact ⟨_, rfl⟩
    | error e => rw [(h e).1 h2] at h1; cases h1

/-- a visited security whose own update raises makes its turn in the children loop raise -/
theorem kidStep_sec_error (cfg : Cfg K) (d : Nat) (newpt bo : Bool) (s : SecData K) (acc : Acc K)
    (e : Err) (hn : s.needupdate = true) (h : secUpdate cfg d s = .error e) :
    kidStep cfg d newpt bo (.sec s) acc = .error e := by
  rw [kidStep_sec, sweepSec_needupdate, hn, (secUpdate_sweep_error cfg d newpt s acc e).2 h]; rfl

theorem kidStep_sec_ok (cfg : Cfg K) (d : Nat) (newpt bo : Bool) (s : SecData K) (acc : Acc K)
    (h : s.needupdate = true → ∃ s', secUpdate cfg d s = .ok s') :
    ∃ r, kidStep cfg d newpt bo (.sec s) acc = .ok r := by
  rw [kidStep_sec, sweepSec_needupdate]
  cases hn : s.needupdate
  · exact ⟨_, rfl⟩
  · obtain ⟨s', h'⟩ := (secUpdate_sweep_ok cfg d newpt s acc).2 (h hn)
    simp only [Bool.not_true, Bool.false_eq_true, ↓reduceIte, h']
    exact ⟨_, rfl⟩

theorem kidStep_strat_error (cfg : Cfg K) (d : Nat) (newpt bo : Bool) (sd : StratData K)
    (ks : List (Node K)) (acc : Acc K) (e : Err) (h : updNode cfg d (.strat sd ks) = .error e) :
    kidStep cfg d newpt bo (.strat sd ks) acc = .error e := by
  rw [kidStep_strat, h]; rfl

theorem kidStep_strat_ok (cfg : Cfg K) (d : Nat) (newpt bo : Bool) (sd : StratData K)
    (ks : List (Node K)) (acc : Acc K) (h : ∃ n', updNode cfg d (.strat sd ks) = .ok n') :
    ∃ r, kidStep cfg d newpt bo (.strat sd ks) acc = .ok r := by
  obtain ⟨n', h⟩ := h
  rw [kidStep_strat, h]; exact ⟨_, rfl⟩

theorem updKids_ok_of (cfg : Cfg K) (d : Nat) (newpt bo : Bool) (kids : List (Node K))
    (h : ∀ k ∈ kids, ∀ acc, ∃ r, kidStep cfg d newpt bo k acc = .ok r) :
    ∀ acc, ∃ r, updKids cfg d newpt bo kids acc = .ok r := by
  induction kids with
  | nil => intro acc; exact ⟨_, updKids_nil cfg d newpt bo acc⟩
  | cons k ks ih =>
    intro acc
    obtain ⟨r, hr⟩ := h k (List.mem_cons_self) acc
    obtain ⟨r2, hr2⟩ := ih (fun k' hk' => h k' (List.mem_cons_of_mem _ hk')) r.2
    rw [updKids_cons, hr, bind_ok, hr2]
    exact ⟨_, rfl⟩

end sweep

/-! ### raise certificates and well-formed trees -/
section cert
variable {K : Type} [Field K] [LinearOrder K] [IsStrictOrderedRing K] [HasFloor K]

/-- A certificate that `update(d)` of a node raises `e`: a path from the node down to the place that
    raises (a visited security's own update, or a strategy's index write) such that at every level the
    children before the one on the path update normally. -/
inductive RaisesAt (cfg : Cfg K) (d : Nat) (e : Err) : Node K → Prop
  | sec (s : SecData K) : secUpdate cfg d s = .error e → RaisesAt cfg d e (.sec s)
  | child (sd : StratData K) (pre post : List (Node K)) (k : Node K) (r : List (Node K) × Acc K) :
      updKids cfg d (stratDateChange d sd).2 (stratDateChange d sd).1.bidofferSet pre
        ⟨(stratDateChange d sd).1.capital, 0, 0, 0⟩ = .ok r →
      k.skipped = false → RaisesAt cfg d e k →
      RaisesAt cfg d e (.strat sd (pre ++ k :: post))
  | write (sd : StratData K) (kids : List (Node K)) (r : List (Node K) × Acc K) :
      updKids cfg d (stratDateChange d sd).2 (stratDateChange d sd).1.bidofferSet kids
        ⟨(stratDateChange d sd).1.capital, 0, 0, 0⟩ = .ok r →
      ¬ WriteOK cfg (stratDateChange d sd).2 (stratDateChange d sd).1 (r.2.val + r.2.coupons) r.2.notl →
      e = Err.zeroBaseReturn →
      RaisesAt cfg d e (.strat sd kids)

theorem updNode_error_of_raisesAt (cfg : Cfg K) (d : Nat) (e : Err) (n : Node K)
    (h : RaisesAt cfg d e n) : updNode cfg d n = .error e := by
  induction h with
  | sec s hs => rw [updNode_sec, hs]; rfl
  | child sd pre post k r hpre hsk _ ih =>
    apply updNode_error_of_kids_error
    apply updKids_error_of_child_error _ _ _ _ _ _ _ _ _ _ hpre
    cases k with
    | sec s =>
      rw [updNode_sec] at ih
      have hs : secUpdate cfg d s = .error e := by
        cases h : secUpdate cfg d s with
        | ok s' => rw [h] at ih; cases ih
        | error e' => rw [h] at ih; cases ih; rfl
      exact kidStep_sec_error cfg d _ _ s _ e (by simpa [Node.skipped] using hsk) hs
    | strat sd' ks' => exact kidStep_strat_error cfg d _ _ sd' ks' _ e ih
  | write sd kids r hk hw he =>
    subst he
    rw [updNode_strat, hk, bind_ok]
    have : stratWrite cfg d (stratDateChange d sd).2 (addCap r.2.coupons (stratDateChange d sd).1)
        (r.2.val + r.2.coupons) r.2.notl r.2.bo = .error Err.zeroBaseReturn :=
      (stratWrite_raises_iff cfg d _ _ _ _ _).2 ((WriteOK_addCap cfg _ _ _ _ _).not.2 hw)
    rw [this]; rfl

/-- A tree every visited node of which `update(d)` can process: securities have the cells they need,
    and at each strategy the index write will find a usable base for the totals the children produce. -/
inductive WF (cfg : Cfg K) (d : Nat) : Node K → Prop
  | sec (s : SecData K) : SecOK cfg d s → WF cfg d (.sec s)
  | strat (sd : StratData K) (kids : List (Node K)) :
      (∀ k ∈ kids, k.skipped = false → WF cfg d k) →
      (∀ r, updKids cfg d (stratDateChange d sd).2 (stratDateChange d sd).1.bidofferSet kids
          ⟨(stratDateChange d sd).1.capital, 0, 0, 0⟩ = .ok r →
        WriteOK cfg (stratDateChange d sd).2 (stratDateChange d sd).1 (r.2.val + r.2.coupons) r.2.notl) →
      WF cfg d (.strat sd kids)

theorem updNode_ok_of_WF (cfg : Cfg K) (d : Nat) (n : Node K) (h : WF cfg d n) :
    ∃ n', updNode cfg d n = .ok n' := by
  induction h with
  | sec s hs =>
    obtain ⟨s', h', _⟩ := secUpdate_ok_of cfg d s hs
    rw [updNode_sec, h']; exact ⟨_, rfl⟩
  | strat sd kids hk hw ih =>
    have hkids := updKids_ok_of cfg d (stratDateChange d sd).2 (stratDateChange d sd).1.bidofferSet kids
      (fun k hmem acc => by
        cases k with
        | sec s =>
          apply kidStep_sec_ok
          intro hn
          have hsk : (Node.sec s : Node K).skipped = false := by simp [Node.skipped, hn]
          have := hk _ hmem hsk
          cases this with
          | sec _ hs =>
            obtain ⟨s', h', _⟩ := secUpdate_ok_of cfg d s hs
            exact ⟨s', h'⟩
        | strat sd' ks' => exact kidStep_strat_ok cfg d _ _ sd' ks' acc (ih _ hmem rfl))
      ⟨(stratDateChange d sd).1.capital, 0, 0, 0⟩
    obtain ⟨r, hr⟩ := hkids
    have hw' := hw r hr
    obtain ⟨sd3, h3⟩ := (stratWrite_ok_iff cfg d (stratDateChange d sd).2
      (addCap r.2.coupons (stratDateChange d sd).1)
      (r.2.val + r.2.coupons) r.2.notl r.2.bo).2 ((WriteOK_addCap cfg _ _ _ _ _).2 hw')
    rw [updNode_strat, hr, bind_ok, h3]
    exact ⟨_, rfl⟩

end cert

/-! ### strategies whose children are all skipped (cash only) -/
section cash
variable {K : Type} [Field K] [LinearOrder K] [IsStrictOrderedRing K] [HasFloor K]

/-- coupon cash the parent sweeps from skipped securities on a new date -/
def sweptCoupons (newpt : Bool) : List (Node K) → K
  | [] => 0
  | .sec s :: ks => (if newpt then s.capital else 0) + sweptCoupons newpt ks
  | .strat _ _ :: ks => sweptCoupons newpt ks

theorem updKids_all_skipped (cfg : Cfg K) (d : Nat) (newpt bo : Bool) (kids : List (Node K))
    (hs : ∀ k ∈ kids, k.skipped = true) :
    ∀ acc : Acc K, ∃ r, updKids cfg d newpt bo kids acc = .ok r ∧ r.2.val = acc.val ∧
      r.2.notl = acc.notl ∧ r.2.bo = acc.bo ∧ r.2.coupons = acc.coupons + sweptCoupons newpt kids := by
  induction kids with
  | nil =>
    intro acc
    exact ⟨_, updKids_nil cfg d newpt bo acc, rfl, rfl, rfl, by simp [sweptCoupons]⟩
  | cons k ks ih =>
    intro acc
    have hk := hs k List.mem_cons_self
    cases k with
    | strat sd' ks' => simp [Node.skipped] at hk
    | sec s =>
      have hn : s.needupdate = false := by simpa [Node.skipped] using hk
      obtain ⟨r, hr, h1, h2, h3, h4⟩ :=
        ih (fun k' hk' => hs k' (List.mem_cons_of_mem _ hk')) (sweepSec newpt s acc).2
      refine ⟨(.sec (sweepSec newpt s acc).1 :: r.1, r.2), ?_, ?_, ?_, ?_, ?_⟩
      · rw [updKids_cons, kidStep_sec, sweepSec_needupdate, hn]
        simp only [Bool.not_false, ↓reduceIte, bind_ok, hr, map_ok]
      · rw [h1]; unfold sweepSec; split <;> rfl
      · rw [h2]; unfold sweepSec; split <;> rfl
      · rw [h3]; unfold sweepSec; split <;> rfl
      · have hsw : sweptCoupons newpt (Node.sec s :: ks) =
            (if newpt then s.capital else 0) + sweptCoupons newpt ks := rfl
        rw [h4, hsw]; unfold sweepSec
        cases newpt
        · simp
        · simp [add_assoc]

theorem stratDateChange_new (d n : Nat) (sd : StratData K) (hn : sd.now = some n) (hd : n ≠ d) :
    stratDateChange d sd =
      ({ sd with netFlows := 0, lastPrice := sd.price, lastValue := sd.value,
                 lastNotl := sd.notl, lastFee := 0, now := some d }, true) := by
  unfold stratDateChange; rw [hn]; simp [hd]

theorem stratDateChange_same (d : Nat) (sd : StratData K) (hn : sd.now = some d) :
    stratDateChange d sd = ({ sd with now := some d }, false) := by
  unfold stratDateChange; rw [hn]; simp

theorem stratDateChange_first (d : Nat) (sd : StratData K) (hn : sd.now = none) :
    stratDateChange d sd = ({ sd with now := some d }, true) := by
  unfold stratDateChange; rw [hn]

@[simp] theorem stratDateChange_fixedIncome (d : Nat) (sd : StratData K) :
    (stratDateChange d sd).1.fixedIncome = sd.fixedIncome := by
  unfold stratDateChange; split
  · rfl
  · split <;> rfl

@[simp] theorem stratDateChange_capital (d : Nat) (sd : StratData K) :
    (stratDateChange d sd).1.capital = sd.capital := by
  unfold stratDateChange; split
  · rfl
  · split <;> rfl

@[simp] theorem stratDateChange_bankrupt (d : Nat) (sd : StratData K) :
    (stratDateChange d sd).1.bankrupt = sd.bankrupt := by
  unfold stratDateChange; split
  · rfl
  · split <;> rfl

/-- the value a strategy with only skipped children sees: its cash plus the swept coupon cash -/
def cashValue (d : Nat) (sd : StratData K) (kids : List (Node K)) : K :=
  sd.capital + sweptCoupons (stratDateChange d sd).2 kids

theorem updNode_all_skipped_iff (cfg : Cfg K) (d : Nat) (sd : StratData K) (kids : List (Node K))
    (hs : ∀ k ∈ kids, k.skipped = true) :
    ((∃ n', updNode cfg d (.strat sd kids) = .ok n') ↔
      WriteOK cfg (stratDateChange d sd).2 (stratDateChange d sd).1 (cashValue d sd kids) 0) ∧
    (updNode cfg d (.strat sd kids) = .error Err.zeroBaseReturn ↔
      ¬ WriteOK cfg (stratDateChange d sd).2 (stratDateChange d sd).1 (cashValue d sd kids) 0) := by
  obtain ⟨r, hr, h1, h2, _, h4⟩ := updKids_all_skipped cfg d (stratDateChange d sd).2
    (stratDateChange d sd).1.bidofferSet kids hs ⟨(stratDateChange d sd).1.capital, 0, 0, 0⟩
  have hval : r.2.val + r.2.coupons = cashValue d sd kids := by
    rw [h1, h4]; unfold cashValue; simp
  have hnotl : r.2.notl = 0 := h2
  rw [updNode_strat, hr, bind_ok, hval, hnotl]
  have hok := stratWrite_ok_iff cfg d (stratDateChange d sd).2
    (addCap r.2.coupons (stratDateChange d sd).1) (cashValue d sd kids) 0 r.2.bo
  have herr := stratWrite_raises_iff cfg d (stratDateChange d sd).2
    (addCap r.2.coupons (stratDateChange d sd).1) (cashValue d sd kids) 0 r.2.bo
  rw [WriteOK_addCap] at hok herr
  rw [← hok] at herr ⊢
  rw [← herr]
  cases stratWrite cfg d (stratDateChange d sd).2
    (addCap r.2.coupons (stratDateChange d sd).1) (cashValue d sd kids) 0 r.2.bo with
  | ok sd3 => simp
  | error e => simp

/-- static guard: the base of the strategy's return formula is not negligible -/
def BaseOK (cfg : Cfg K) (d : Nat) (sd : StratData K) : Prop :=
  (sd.fixedIncome = false →
    isZero cfg.tol ((stratDateChange d sd).1.lastValue + (stratDateChange d sd).1.netFlows) = false) ∧
  (sd.fixedIncome = true → isZero cfg.tol (stratDateChange d sd).1.lastNotl = false)

theorem WriteOK_of_BaseOK (cfg : Cfg K) (d : Nat) (sd : StratData K) (h : BaseOK cfg d sd) (val notl : K) :
    WriteOK cfg (stratDateChange d sd).2 (stratDateChange d sd).1 val notl := by
  intro _
  rw [stratDateChange_fixedIncome]
  exact ⟨fun hf => Or.inl (h.1 hf), fun hf => Or.inl (h.2 hf)⟩

end cash

/-! ### `root.update` -/
section root
variable {K : Type} [Field K] [LinearOrder K] [IsStrictOrderedRing K] [HasFloor K]

/-- When the bankruptcy step does not trigger, `root.update` is `updNode` on the root. -/
theorem updRoot_eq_updNode_of_solvent (cfg : Cfg K) (d : Nat) (sd : StratData K) (kids : List (Node K))
    (st : Bool) (r : List (Node K) × Acc K)
    (hr : updKids cfg d (stratDateChange d sd).2 (stratDateChange d sd).1.bidofferSet kids
          ⟨(stratDateChange d sd).1.capital, 0, 0, 0⟩ = .ok r)
    (hsolv : (decide (r.2.val + r.2.coupons < 0) && !sd.bankrupt && !sd.fixedIncome &&
      !(isZero cfg.tol (r.2.val + r.2.coupons))) = false) :
    updRoot cfg d { root := .strat sd kids, stale := st } =
      (updNode cfg d (.strat sd kids)).map fun n => { root := n, stale := false } := by
  unfold updRoot
  dsimp only
  rw [updNode_strat, hr]
  simp only [bind_ok]
  split
  · rename_i h
    exfalso
    simp only [stratDateChange_bankrupt, stratDateChange_fixedIncome] at h
    rw [hsolv] at h; cases h
  · have key : ∀ w : Except Err (StratData K),
        (w.map fun sd3 => World.mk (Node.strat (stratRows d sd3)
            (kidsWeights cfg sd3.fixedIncome (r.2.val + r.2.coupons) r.2.notl r.1)) false) =
        (w.map fun sd3 => Node.strat (stratRows d sd3)
            (kidsWeights cfg sd3.fixedIncome (r.2.val + r.2.coupons) r.2.notl r.1)).map
          fun n => { root := n, stale := false } := by
      intro w; cases w <;> rfl
    exact key _

end root

/-! ### transact / allocate -/
section trade
variable {K : Type} [Field K] [LinearOrder K] [IsStrictOrderedRing K] [HasFloor K]

theorem secTransactCore_custom_no_bidoffer (cfg : Cfg K) (comm : K → K → K) (s : SecData K) (q p : K)
    (hq : isZero cfg.tol q = false) (hb : s.bidofferSet = false) :
    secTransactCore cfg comm s q (some p) = .error Err.customPriceNoBidOffer := by
  unfold secTransactCore; simp [hq, hb]

theorem secOutlay_price_none (cfg : Cfg K) (comm : K → K → K) (s : SecData K) (q : K)
    (custom : Option K) (hp : s.price = none) :
    secOutlay cfg comm s q custom = .error Err.nanData := by
  unfold secOutlay; rw [hp]; rfl

theorem secOutlay_bidoffer_none (cfg : Cfg K) (comm : K → K → K) (s : SecData K) (q : K)
    (hb : s.bidoffer = none) :
    secOutlay cfg comm s q none = .error Err.nanData := by
  unfold secOutlay
  cases hp : s.price with
  | none => rfl
  | some p => simp only [hb]; rfl

theorem secTransactCore_price_none (cfg : Cfg K) (comm : K → K → K) (s : SecData K) (q : K)
    (custom : Option K) (hq : isZero cfg.tol q = false)
    (hc : custom.isSome = true → s.bidofferSet = true) (hp : s.price = none) :
    secTransactCore cfg comm s q custom = .error Err.nanData := by
  unfold secTransactCore
  have hg : (custom.isSome && !s.bidofferSet) = false := by
    cases h : custom.isSome
    · rfl
    · simp [hc h]
  simp only [hq, hg, Bool.false_eq_true, ↓reduceIte]
  rw [secOutlay_price_none cfg comm _ q custom (by exact hp)]; rfl

theorem secTransactCore_bidoffer_none (cfg : Cfg K) (comm : K → K → K) (s : SecData K) (q : K)
    (hq : isZero cfg.tol q = false) (hb : s.bidoffer = none) :
    secTransactCore cfg comm s q none = .error Err.nanData := by
  unfold secTransactCore
  simp only [hq, Bool.false_eq_true, ↓reduceIte, Option.isSome_none, Bool.false_and]
  rw [secOutlay_bidoffer_none cfg comm _ q (by exact hb)]; rfl

/-- `outlay` succeeds when the price is present and, unless a custom price is given, the bid/offer too -/
theorem secOutlay_ok_of (cfg : Cfg K) (comm : K → K → K) (s : SecData K) (q price : K)
    (custom : Option K) (hp : s.price = some price)
    (hb : custom = none → ∃ bo, s.bidoffer = some bo) :
    ∃ r, secOutlay cfg comm s q custom = .ok r := by
  unfold secOutlay
  rw [hp]
  cases custom with
  | some p => exact ⟨_, rfl⟩
  | none =>
    obtain ⟨bo, hb⟩ := hb rfl
    simp only [hb]; exact ⟨_, rfl⟩

theorem secTransactCore_ok_of (cfg : Cfg K) (comm : K → K → K) (s : SecData K) (q price : K)
    (custom : Option K) (hp : s.price = some price)
    (hb : custom = none → ∃ bo, s.bidoffer = some bo)
    (hc : custom.isSome = true → s.bidofferSet = true) :
    ∃ r, secTransactCore cfg comm s q custom = .ok r ∧
      (isZero cfg.tol q = true → r = (s, none)) ∧
      (isZero cfg.tol q = false → r.1.position = s.position + q ∧ r.2.isSome = true) := by
  by_cases hq : isZero cfg.tol q = true
  · have e : secTransactCore cfg comm s q custom = .ok (s, none) := by
      unfold secTransactCore; simp [hq]
    exact ⟨_, e, fun _ => rfl, fun h => by rw [hq] at h; cases h⟩
  · have hq' : isZero cfg.tol q = false := by simpa using hq
    have hg : (custom.isSome && !s.bidofferSet) = false := by
      cases h : custom.isSome
      · rfl
      · simp [hc h]
    obtain ⟨r, hr⟩ := secOutlay_ok_of cfg comm
      { s with needupdate := true, position := s.position + q } q price custom hp hb
    have e : secTransactCore cfg comm s q custom =
        .ok ({ s with needupdate := true, position := s.position + q,
                      outlayAcc := s.outlayAcc + r.2.1, bidofferPaid := s.bidofferPaid + r.2.2.2 },
             some { amount := -r.1, fee := r.2.2.1, flow := false }) := by
      unfold secTransactCore
      simp only [hq', hg, Bool.false_eq_true, ↓reduceIte]
      rw [hr]; rfl
    exact ⟨_, e, (fun h => by rw [hq'] at h; cases h), fun _ => ⟨rfl, rfl⟩⟩

/-- the refresh is a no-op on an up-to-date security -/
theorem secRefresh_noop (cfg : Cfg K) (pn : Option Nat) (s : SecData K)
    (hn : s.needupdate = false) (hnow : s.now = pn) : secRefresh cfg pn s = .ok s := by
  unfold secRefresh; simp [hn, hnow]

theorem secRefresh_same (cfg : Cfg K) (pn : Option Nat) (s s1 : SecData K)
    (h : secRefresh cfg pn s = .ok s1) : SameInputs s s1 := by
  unfold secRefresh at h
  split at h
  · cases pn with
    | none => cases h
    | some d =>
      dsimp only at h
      unfold secUpdate at h
      cases hb : secBaseUpdate cfg d s with
      | error e => rw [hb] at h; cases h
      | ok s0 =>
        have h0 := secBaseUpdate_same cfg d s s0 hb
        have h0f := h0.trans (secFiTail_same d s0)
        rw [hb] at h
        simp only [bind_ok] at h
        cases hk : s.kind <;> rw [hk] at h <;> simp only at h
        · cases h; exact h0
        · cases h; exact h0f
        · exact h0f.trans (secCouponTail_same cfg d _ _ h)
        · cases h; exact h0.trans (secHedgeTail_same s0)
        · cases hc : secCouponTail cfg d (secFiTail d s0) with
          | error e => rw [hc] at h; cases h
          | ok s2 =>
            rw [hc] at h; cases h
            exact (h0f.trans (secCouponTail_same cfg d _ _ hc)).trans (secHedgeTail_same s2)
  · cases h; exact SameInputs.refl s

theorem allocQuantity_bad_price (cfg : Cfg K) (comm : K → K → K) (s : SecData K) (amount : K)
    (ha : isZero cfg.tol amount = false)
    (hp : s.price = none ∨ ∃ p, s.price = some p ∧ isZero cfg.tol p = true) :
    allocQuantity cfg comm s amount = .error Err.allocateBadPrice := by
  unfold allocQuantity
  rcases hp with hp | ⟨p, hp, hz⟩
  · simp [ha, hp]
  · simp [ha, hp, hz]

theorem secAllocate_bad_price (cfg : Cfg K) (pn : Option Nat) (comm : K → K → K) (s s1 : SecData K)
    (amount : K) (hr : secRefresh cfg pn s = .ok s1) (ha : isZero cfg.tol amount = false)
    (hp : s1.price = none ∨ ∃ p, s1.price = some p ∧ isZero cfg.tol p = true) :
    secAllocate cfg pn comm s amount = .error Err.allocateBadPrice := by
  unfold secAllocate
  rw [hr, bind_ok, allocQuantity_bad_price cfg comm s1 amount ha hp]; rfl

theorem secAllocate_refresh_error (cfg : Cfg K) (pn : Option Nat) (comm : K → K → K) (s : SecData K)
    (amount : K) (e : Err) (hr : secRefresh cfg pn s = .error e) :
    secAllocate cfg pn comm s amount = .error e := by
  unfold secAllocate; rw [hr]; rfl

theorem secAllocate_ok_of (cfg : Cfg K) (pn : Option Nat) (comm : K → K → K) (s s1 : SecData K)
    (amount p bo : K) (oq : Option K) (hr : secRefresh cfg pn s = .ok s1)
    (hq : allocQuantity cfg comm s1 amount = .ok oq)
    (hp : s1.price = some p) (hb : s1.bidoffer = some bo) :
    ∃ r, secAllocate cfg pn comm s amount = .ok r := by
  unfold secAllocate
  rw [hr, bind_ok, hq, bind_ok]
  cases oq with
  | none => exact ⟨_, rfl⟩
  | some q =>
    obtain ⟨r, h, _⟩ := secTransactCore_ok_of cfg comm s1 q p none hp (fun _ => ⟨bo, hb⟩)
      (fun h => by cases h)
    exact ⟨r, h⟩

theorem secTransact_of_refresh (cfg : Cfg K) (pn : Option Nat) (comm : K → K → K) (s s1 : SecData K)
    (q : K) (custom : Option K) (hr : secRefresh cfg pn s = .ok s1) :
    secTransact cfg pn comm s q true custom = secTransactCore cfg comm s1 q custom := by
  unfold secTransact; simp only [↓reduceIte, hr, bind_ok]

end trade

/-! ### derived constructors, static well-formedness, closure of the error set -/
section derived
variable {K : Type} [Field K] [LinearOrder K] [IsStrictOrderedRing K] [HasFloor K]

theorem isOk_iff {ε α : Type} (x : Except ε α) : x.toBool = true ↔ ∃ a, x = .ok a := by
  cases x with
  | ok a => exact ⟨fun _ => ⟨a, rfl⟩, fun _ => rfl⟩
  | error e => exact ⟨(fun h => by cases h), (fun ⟨a, h⟩ => by cases h)⟩

/-- children that are well-formed all update normally, whatever the accumulators -/
theorem updKids_ok_of_WF (cfg : Cfg K) (d : Nat) (newpt bo : Bool) (kids : List (Node K))
    (h : ∀ k ∈ kids, k.skipped = false → WF cfg d k) :
    ∀ acc, ∃ r, updKids cfg d newpt bo kids acc = .ok r := by
  apply updKids_ok_of
  intro k hmem acc
  cases k with
  | sec s =>
    apply kidStep_sec_ok
    intro hn
    have hsk : (Node.sec s : Node K).skipped = false := by simp [Node.skipped, hn]
    have := h _ hmem hsk
    cases this with
    | sec _ hs =>
      obtain ⟨s', h', _⟩ := secUpdate_ok_of cfg d s hs
      exact ⟨s', h'⟩
  | strat sd' ks' => exact kidStep_strat_ok cfg d _ _ sd' ks' acc (updNode_ok_of_WF cfg d _ (h _ hmem rfl))

/-- `RaisesAt.child` with the "earlier siblings update normally" premise discharged statically -/
theorem RaisesAt.child_of_WF (cfg : Cfg K) (d : Nat) (e : Err) (sd : StratData K)
    (pre post : List (Node K)) (k : Node K)
    (hpre : ∀ k' ∈ pre, k'.skipped = false → WF cfg d k')
    (hsk : k.skipped = false) (hk : RaisesAt cfg d e k) :
    RaisesAt cfg d e (.strat sd (pre ++ k :: post)) := by
  obtain ⟨r, hr⟩ := updKids_ok_of_WF cfg d (stratDateChange d sd).2 (stratDateChange d sd).1.bidofferSet
    pre hpre ⟨(stratDateChange d sd).1.capital, 0, 0, 0⟩
  exact RaisesAt.child sd pre post k r hr hsk hk

/-- well-formedness with the static guard `BaseOK` at every strategy -/
inductive WFS (cfg : Cfg K) (d : Nat) : Node K → Prop
  | sec (s : SecData K) : SecOK cfg d s → WFS cfg d (.sec s)
  | strat (sd : StratData K) (kids : List (Node K)) :
      (∀ k ∈ kids, k.skipped = false → WFS cfg d k) → BaseOK cfg d sd → WFS cfg d (.strat sd kids)

theorem WF_of_WFS (cfg : Cfg K) (d : Nat) (n : Node K) (h : WFS cfg d n) : WF cfg d n := by
  induction h with
  | sec s hs => exact WF.sec s hs
  | strat sd kids _ hb ih =>
    exact WF.strat sd kids ih (fun r _ => WriteOK_of_BaseOK cfg d sd hb _ _)

/-- the errors `update` can raise at all -/
def UpdateErr (e : Err) : Prop :=
  e = Err.nanPriceOpenPosition ∨ e = Err.nanCouponOpenPosition ∨ e = Err.nanData ∨
    e = Err.zeroBaseReturn

theorem secMarkValue_error (cfg : Cfg K) (s : SecData K) (e : Err)
    (h : secMarkValue cfg s = .error e) : e = Err.nanPriceOpenPosition := by
  unfold secMarkValue at h
  split at h
  · split at h
    · cases h
    · cases h; rfl
  · cases h

theorem secBaseUpdate_error (cfg : Cfg K) (d : Nat) (s : SecData K) (e : Err)
    (h : secBaseUpdate cfg d s = .error e) : e = Err.nanPriceOpenPosition := by
  unfold secBaseUpdate at h
  split at h
  · cases h
  · dsimp only at h
    cases hv : secMarkValue cfg (secRecordPos d (secDateChange d s)) with
    | error e' => rw [hv] at h; cases h; exact secMarkValue_error cfg _ _ hv
    | ok v => rw [hv] at h; cases h

theorem secCouponTail_error (cfg : Cfg K) (d : Nat) (s : SecData K) (e : Err)
    (h : secCouponTail cfg d s = .error e) : e = Err.nanCouponOpenPosition ∨ e = Err.nanData := by
  rw [secCouponTail_eq] at h
  cases h1 : couponAmt cfg d s with
  | error e' =>
    rw [h1] at h; cases h
    left
    unfold couponAmt at h1
    split at h1
    · split at h1
      · cases h1
      · cases h1; rfl
    · cases h1
  | ok c =>
    rw [h1, bind_ok] at h
    cases h2 : holdCost d s with
    | ok hc => rw [h2] at h; cases h
    | error e' =>
      rw [h2] at h; cases h
      right
      unfold holdCost at h2
      split at h2
      · split at h2
        · cases h2; rfl
        · cases h2
      · split at h2
        · split at h2
          · cases h2; rfl
          · cases h2
        · cases h2

theorem secUpdate_error (cfg : Cfg K) (d : Nat) (s : SecData K) (e : Err)
    (h : secUpdate cfg d s = .error e) : UpdateErr e := by
  unfold secUpdate at h
  cases hb : secBaseUpdate cfg d s with
  | error e' =>
    rw [hb] at h; cases h
    exact Or.inl (secBaseUpdate_error cfg d s _ hb)
  | ok s1 =>
    rw [hb, bind_ok] at h
    cases hk : s.kind <;> rw [hk] at h <;> simp only at h
    · cases h
    · cases h
    · rcases secCouponTail_error cfg d _ _ h with h' | h'
      · exact Or.inr (Or.inl h')
      · exact Or.inr (Or.inr (Or.inl h'))
    · cases h
    · cases hc : secCouponTail cfg d (secFiTail d s1) with
      | ok s2 => rw [hc] at h; cases h
      | error e' =>
        rw [hc] at h; cases h
        rcases secCouponTail_error cfg d _ _ hc with h' | h'
        · exact Or.inr (Or.inl h')
        · exact Or.inr (Or.inr (Or.inl h'))

/-- Closure: whatever the tree, `update` either completes or raises one of four errors. -/
theorem updNode_error (cfg : Cfg K) (d : Nat) (n : Node K) :
    ∀ e, updNode cfg d n = .error e → UpdateErr e := by
  refine Node.rec
    (motive_1 := fun n => ∀ e, updNode cfg d n = .error e → UpdateErr e)
    (motive_2 := fun ks => ∀ newpt bo acc e, updKids cfg d newpt bo ks acc = .error e → UpdateErr e)
    ?_ ?_ ?_ ?_ n
  · intro s e h
    rw [updNode_sec] at h
    cases hs : secUpdate cfg d s with
    | ok s' => rw [hs] at h; cases h
    | error e' => rw [hs] at h; cases h; exact secUpdate_error cfg d s _ hs
  · intro sd kids ih e h
    rw [updNode_strat] at h
    cases hk : updKids cfg d (stratDateChange d sd).2 (stratDateChange d sd).1.bidofferSet kids
        ⟨(stratDateChange d sd).1.capital, 0, 0, 0⟩ with
    | error e' => rw [hk] at h; cases h; exact ih _ _ _ _ hk
    | ok r =>
      rw [hk, bind_ok] at h
      cases hw : stratWrite cfg d (stratDateChange d sd).2 (addCap r.2.coupons (stratDateChange d sd).1)
          (r.2.val + r.2.coupons) r.2.notl r.2.bo with
      | ok sd3 => rw [hw] at h; cases h
      | error e' =>
        rw [hw] at h; cases h
        exact Or.inr (Or.inr (Or.inr (stratWrite_error cfg d _ _ _ _ _ _ hw)))
  · intro newpt bo acc e h
    rw [updKids_nil] at h; cases h
  · intro k ks ihk ihks newpt bo acc e h
    rw [updKids_cons] at h
    cases hk : kidStep cfg d newpt bo k acc with
    | error e' =>
      rw [hk] at h; cases h
      cases k with
      | sec s =>
        rw [kidStep_sec] at hk
        split at hk
        · cases hk
        · cases hs : secUpdate cfg d (sweepSec newpt s acc).1 with
          | ok s' => rw [hs] at hk; cases hk
          | error e' => rw [hs] at hk; cases hk; exact secUpdate_error cfg d _ _ hs
      | strat sd' ks' =>
        rw [kidStep_strat] at hk
        cases hn : updNode cfg d (.strat sd' ks') with
        | ok n' => rw [hn] at hk; cases hk
        | error e' => rw [hn] at hk; cases hk; exact ihk _ hn
    | ok r =>
      rw [hk, bind_ok] at h
      cases hr : updKids cfg d newpt bo ks r.2 with
      | ok r2 => rw [hr] at h; cases h
      | error e' => rw [hr] at h; cases h; exact ihks _ _ _ _ hr

end derived

/-! ### exact characterisations: `update` completes iff the node is well-formed -/
section exact
variable {K : Type} [Field K] [LinearOrder K] [IsStrictOrderedRing K] [HasFloor K]

theorem couponAmt_ok_iff (cfg : Cfg K) (d : Nat) (s : SecData K) :
    (∃ c, couponAmt cfg d s = .ok c) ↔ CouponCellOK cfg d s := by
  refine ⟨fun ⟨c, h⟩ => ?_, couponAmt_ok_of cfg d s⟩
  unfold couponAmt at h
  unfold CouponCellOK
  cases hc : cell s.coupons d with
  | some c' => exact Or.inl ⟨c', rfl⟩
  | none =>
    rw [hc] at h
    right
    by_cases hz : isZero cfg.tol s.position = true
    · exact hz
    · simp [hz] at h

theorem holdCost_ok_iff (d : Nat) (s : SecData K) :
    (∃ c, holdCost d s = .ok c) ↔ CostOK d s := by
  refine ⟨fun ⟨c, h⟩ => ?_, holdCost_ok_of d s⟩
  unfold holdCost at h
  constructor
  · intro hpos col hl
    cases hc : cell col d with
    | some c' => exact ⟨c', rfl⟩
    | none => simp [hpos, hl, hc] at h
  · intro hneg col hl
    have hpos : ¬ 0 < s.position := not_lt.2 (le_of_lt hneg)
    cases hc : cell col d with
    | some c' => exact ⟨c', rfl⟩
    | none => simp [hpos, hneg, hl, hc] at h

theorem secCouponTail_ok_iff (cfg : Cfg K) (d : Nat) (s : SecData K) :
    (∃ s', secCouponTail cfg d s = .ok s') ↔ CouponCellOK cfg d s ∧ CostOK d s := by
  constructor
  · rintro ⟨s', h⟩
    rw [secCouponTail_eq] at h
    cases h1 : couponAmt cfg d s with
    | error e => rw [h1] at h; cases h
    | ok c =>
      cases h2 : holdCost d s with
      | error e => rw [h1, h2] at h; cases h
      | ok hc => exact ⟨(couponAmt_ok_iff cfg d s).1 ⟨c, h1⟩, (holdCost_ok_iff d s).1 ⟨hc, h2⟩⟩
  · rintro ⟨h1, h2⟩
    obtain ⟨s', h, _⟩ := secCouponTail_ok_of cfg d s h1 h2
    exact ⟨s', h⟩

/-- `SecurityBase.update` (all five classes) completes exactly on `SecOK` securities. -/
theorem secUpdate_ok_iff (cfg : Cfg K) (d : Nat) (s : SecData K) :
    (∃ s', secUpdate cfg d s = .ok s') ↔ SecOK cfg d s := by
  constructor
  · rintro ⟨s', h⟩
    have hprice : secEarly d s = true ∨ (∃ p, (secDateChange d s).price = some p) ∨
        isZero cfg.tol s.position = true := by
      by_contra hcon
      have h1 : ¬ secEarly d s = true := fun h => hcon (Or.inl h)
      have h2 : ∀ p, ¬ (secDateChange d s).price = some p := fun p h => hcon (Or.inr (Or.inl ⟨p, h⟩))
      have h3 : ¬ isZero cfg.tol s.position = true := fun h => hcon (Or.inr (Or.inr h))
      have hp : (secDateChange d s).price = none := by
        cases hp : (secDateChange d s).price with
        | none => rfl
        | some p => exact absurd hp (h2 p)
      rw [secUpdate_nan_open cfg d s (by simpa using h1) hp (by simpa using h3)] at h
      cases h
    refine ⟨hprice, fun hk => ?_⟩
    obtain ⟨s1, hb, hs⟩ := secBaseUpdate_ok_of cfg d s hprice
    have hs2 := hs.trans (secFiTail_same d s1)
    have htail : ∃ s2, secCouponTail cfg d (secFiTail d s1) = .ok s2 := by
      unfold secUpdate at h
      rw [hb, bind_ok] at h
      cases hkk : s.kind <;> rw [hkk] at hk <;> simp [SecKind.isCoupon] at hk
      · rw [hkk] at h; exact ⟨s', h⟩
      · rw [hkk] at h
        simp only at h
        cases hc : secCouponTail cfg d (secFiTail d s1) with
        | ok s2 => exact ⟨s2, rfl⟩
        | error e => rw [hc] at h; cases h
    obtain ⟨h1, h2⟩ := (secCouponTail_ok_iff cfg d _).1 htail
    constructor
    · unfold CouponCellOK at h1 ⊢; rw [hs2.coupons, hs2.position] at h1; exact h1
    · unfold CostOK at h2 ⊢; rw [hs2.costLong, hs2.costShort, hs2.position] at h2; exact h2
  · intro h
    obtain ⟨s', h', _⟩ := secUpdate_ok_of cfg d s h
    exact ⟨s', h'⟩

/-- if the children loop completes, every child's turn completed (at the accumulators it met) -/
theorem kidStep_ok_of_updKids_ok (cfg : Cfg K) (d : Nat) (newpt bo : Bool) (kids : List (Node K)) :
    ∀ acc r, updKids cfg d newpt bo kids acc = .ok r →
      ∀ k ∈ kids, ∃ acc' r', kidStep cfg d newpt bo k acc' = .ok r' := by
  induction kids with
  | nil => intro _ _ _ k hk; cases hk
  | cons k0 ks ih =>
    intro acc r h k hk
    rw [updKids_cons] at h
    cases h0 : kidStep cfg d newpt bo k0 acc with
    | error e => rw [h0] at h; cases h
    | ok r0 =>
      rw [h0, bind_ok] at h
      rcases List.mem_cons.1 hk with rfl | hk'
      · exact ⟨acc, r0, h0⟩
      · cases h1 : updKids cfg d newpt bo ks r0.2 with
        | error e => rw [h1] at h; cases h
        | ok r1 => exact ih _ _ h1 k hk'

/-- `update` of a tree completes exactly on well-formed trees (`WF`). -/
theorem updNode_ok_iff_WF (cfg : Cfg K) (d : Nat) (n : Node K) :
    (∃ n', updNode cfg d n = .ok n') ↔ WF cfg d n := by
  refine ⟨?_, updNode_ok_of_WF cfg d n⟩
  refine Node.rec
    (motive_1 := fun n => (∃ n', updNode cfg d n = .ok n') → WF cfg d n)
    (motive_2 := fun ks => ∀ k ∈ ks, (∃ n', updNode cfg d k = .ok n') → WF cfg d k)
    ?_ ?_ ?_ ?_ n
  · rintro s ⟨n', h⟩
    rw [updNode_sec] at h
    apply WF.sec
    rw [← secUpdate_ok_iff]
    cases hs : secUpdate cfg d s with
    | ok s' => exact ⟨s', rfl⟩
    | error e => rw [hs] at h; cases h
  · rintro sd kids ih ⟨n', h⟩
    rw [updNode_strat] at h
    cases hk : updKids cfg d (stratDateChange d sd).2 (stratDateChange d sd).1.bidofferSet kids
        ⟨(stratDateChange d sd).1.capital, 0, 0, 0⟩ with
    | error e => rw [hk] at h; cases h
    | ok r =>
      rw [hk, bind_ok] at h
      apply WF.strat
      · intro k hmem hsk
        obtain ⟨acc', r', hr'⟩ := kidStep_ok_of_updKids_ok cfg d _ _ kids _ _ hk k hmem
        apply ih k hmem
        cases k with
        | sec s =>
          rw [kidStep_sec, sweepSec_needupdate] at hr'
          have hn : s.needupdate = true := by simpa [Node.skipped] using hsk
          rw [hn] at hr'
          simp only [Bool.not_true, Bool.false_eq_true, ↓reduceIte] at hr'
          have : ∃ s', secUpdate cfg d (sweepSec (stratDateChange d sd).2 s acc').1 = .ok s' := by
            cases hs : secUpdate cfg d (sweepSec (stratDateChange d sd).2 s acc').1 with
            | ok s' => exact ⟨s', rfl⟩
            | error e => rw [hs] at hr'; cases hr'
          obtain ⟨s', hs'⟩ := (secUpdate_sweep_ok cfg d _ s acc').1 this
          rw [updNode_sec, hs']; exact ⟨_, rfl⟩
        | strat sd' ks' =>
          rw [kidStep_strat] at hr'
          cases hn : updNode cfg d (.strat sd' ks') with
          | ok n'' => exact ⟨n'', rfl⟩
          | error e => rw [hn] at hr'; cases hr'
      · intro r2 hr2
        rw [hk] at hr2; cases hr2
        rw [← WriteOK_addCap cfg _ r.2.coupons, ← stratWrite_ok_iff cfg d _ _ _ _ r.2.bo]
        cases hw : stratWrite cfg d (stratDateChange d sd).2 (addCap r.2.coupons (stratDateChange d sd).1)
            (r.2.val + r.2.coupons) r.2.notl r.2.bo with
        | ok sd3 => exact ⟨sd3, rfl⟩
        | error e => rw [hw] at h; cases h
  · intro k hk; cases hk
  · intro k ks ihk ihks k' hk'
    rcases List.mem_cons.1 hk' with rfl | h
    · exact ihk
    · exact ihks k' h

end exact

/-! ### completeness of the raise certificates -/
section complete
variable {K : Type} [Field K] [LinearOrder K] [IsStrictOrderedRing K] [HasFloor K]

/-- a failing children loop has a first failing child -/
theorem updKids_error_split (cfg : Cfg K) (d : Nat) (newpt bo : Bool) (kids : List (Node K)) :
    ∀ acc e, updKids cfg d newpt bo kids acc = .error e →
      ∃ pre k post r, kids = pre ++ k :: post ∧ updKids cfg d newpt bo pre acc = .ok r ∧
        kidStep cfg d newpt bo k r.2 = .error e := by
  induction kids with
  | nil => intro acc e h; rw [updKids_nil] at h; cases h
  | cons k0 ks ih =>
    intro acc e h
    rw [updKids_cons] at h
    cases h0 : kidStep cfg d newpt bo k0 acc with
    | error e' =>
      rw [h0] at h; cases h
      exact ⟨[], k0, ks, ([], acc), rfl, updKids_nil cfg d newpt bo acc, h0⟩
    | ok r0 =>
      rw [h0, bind_ok] at h
      cases h1 : updKids cfg d newpt bo ks r0.2 with
      | ok r1 => rw [h1] at h; cases h
      | error e' =>
        rw [h1] at h; cases h
        obtain ⟨pre, k, post, r, hsplit, hpre, hk⟩ := ih r0.2 _ h1
        refine ⟨k0 :: pre, k, post, (r0.1 :: r.1, r.2), by rw [hsplit]; rfl, ?_, hk⟩
        rw [updKids_cons, h0, bind_ok, hpre]; rfl

/-- Every raise of `update` has a certificate: `RaisesAt` is sound (`updNode_error_of_raisesAt`) and
    complete. -/
theorem raisesAt_of_updNode_error (cfg : Cfg K) (d : Nat) (n : Node K) :
    ∀ e, updNode cfg d n = .error e → RaisesAt cfg d e n := by
  refine Node.rec
    (motive_1 := fun n => ∀ e, updNode cfg d n = .error e → RaisesAt cfg d e n)
    (motive_2 := fun ks => ∀ k ∈ ks, ∀ e, updNode cfg d k = .error e → RaisesAt cfg d e k)
    ?_ ?_ ?_ ?_ n
  · intro s e h
    rw [updNode_sec] at h
    apply RaisesAt.sec
    cases hs : secUpdate cfg d s with
    | ok s' => rw [hs] at h; cases h
    | error e' => rw [hs] at h; cases h; rfl
  · intro sd kids ih e h
    rw [updNode_strat] at h
    cases hk : updKids cfg d (stratDateChange d sd).2 (stratDateChange d sd).1.bidofferSet kids
        ⟨(stratDateChange d sd).1.capital, 0, 0, 0⟩ with
    | error e' =>
      rw [hk] at h; cases h
      obtain ⟨pre, k, post, r, hsplit, hpre, hkid⟩ := updKids_error_split cfg d _ _ kids _ _ hk
      subst hsplit
      have hmem : k ∈ pre ++ k :: post := by simp
      cases k with
      | sec s =>
        rw [kidStep_sec, sweepSec_needupdate] at hkid
        cases hn : s.needupdate with
        | false => rw [hn] at hkid; cases hkid
        | true =>
          rw [hn] at hkid
          simp only [Bool.not_true, Bool.false_eq_true, ↓reduceIte] at hkid
          have hs : secUpdate cfg d (sweepSec (stratDateChange d sd).2 s r.2).1 = .error e := by
            cases hs : secUpdate cfg d (sweepSec (stratDateChange d sd).2 s r.2).1 with
            | ok s' => rw [hs] at hkid; cases hkid
            | error e' => rw [hs] at hkid; cases hkid; rfl
          exact RaisesAt.child sd pre post _ r hpre (by simp [Node.skipped, hn])
            (RaisesAt.sec s ((secUpdate_sweep_error cfg d _ s r.2 e).1 hs))
      | strat sd' ks' =>
        rw [kidStep_strat] at hkid
        have hn : updNode cfg d (.strat sd' ks') = .error e := by
          cases hn : updNode cfg d (.strat sd' ks') with
          | ok n' => rw [hn] at hkid; cases hkid
          | error e' => rw [hn] at hkid; cases hkid; rfl
        exact RaisesAt.child sd pre post _ r hpre rfl (ih _ hmem e hn)
    | ok r =>
      rw [hk, bind_ok] at h
      cases hw : stratWrite cfg d (stratDateChange d sd).2 (addCap r.2.coupons (stratDateChange d sd).1)
          (r.2.val + r.2.coupons) r.2.notl r.2.bo with
      | ok sd3 => rw [hw] at h; cases h
      | error e' =>
        rw [hw] at h; cases h
        have he := stratWrite_error cfg d _ _ _ _ _ _ hw
        subst he
        exact RaisesAt.write sd kids r hk
          ((WriteOK_addCap cfg _ _ _ _ _).not.1 ((stratWrite_raises_iff cfg d _ _ _ _ _).1 hw)) rfl
  · intro k hk; cases hk
  · intro k ks ihk ihks k' hk'
    rcases List.mem_cons.1 hk' with rfl | h
    · exact ihk
    · exact ihks k' h

theorem updNode_error_iff_raisesAt (cfg : Cfg K) (d : Nat) (n : Node K) (e : Err) :
    updNode cfg d n = .error e ↔ RaisesAt cfg d e n :=
  ⟨raisesAt_of_updNode_error cfg d n e, updNode_error_of_raisesAt cfg d e n⟩

end complete

/-! ### fractional units: `allocate` with per-unit costs -/
section fractional
variable {K : Type} [Field K] [LinearOrder K] [IsStrictOrderedRing K] [HasFloor K]

/-- Fractional units, commission `k·|q|` plus half the spread, together `κ` per unit with
    `0 ≤ κ < price·mult` and `(κ/(price·mult))^(iterCap+1) ≤ TOL`: the sizing of `allocate` returns. -/
theorem allocQuantity_frac_ok (cfg : Cfg K) (comm : K → K → K) (s : SecData K)
    (amount p bo k : K) (hatol : 0 ≤ cfg.atol) (htol : 0 < cfg.tol)
    (hint : s.integer = false) (hp : s.price = some p) (hpz : isZero cfg.tol p = false)
    (hb : s.bidoffer = some bo) (hcomm : ∀ q, comm q (p * s.mult) = k * |q|)
    (hP : 0 < p * s.mult) (hκ0 : 0 ≤ k + cfg.half * bo * s.mult)
    (hκ : k + cfg.half * bo * s.mult < p * s.mult)
    (hrate : ((k + cfg.half * bo * s.mult) / (p * s.mult)) ^ (cfg.iterCap + 1) ≤ cfg.tol) :
    ∃ oq, allocQuantity cfg comm s amount = .ok oq := by
  by_cases hz : isZero cfg.tol amount = true
  · exact ⟨none, by unfold allocQuantity; simp [hz]⟩
  have hz : isZero cfg.tol amount = false := by simpa using hz
  by_cases hq : isZero cfg.tol (allocQ0 cfg s p amount) = true
  · exact ⟨_, allocQuantity_q0_zero cfg comm s amount p hz hp hpz hq⟩
  have hq : isZero cfg.tol (allocQ0 cfg s p amount) = false := by simpa using hq
  by_cases he : allocQ0 cfg s p amount = -s.position
  · exact ⟨_, allocQuantity_skip cfg comm s amount p hz hp hpz hq he⟩
  have hA : amount ≠ 0 := by
    intro h0
    have : isZero cfg.tol amount = true := by rw [h0, isZero_iff, abs_zero]; exact htol
    rw [this] at hz; cases hz
  have hq0 : allocQ0 cfg s p amount = amount / (p * s.mult) := by
    by_cases hc : isZero cfg.tol (amount + s.value) = true
    · exfalso; apply he; unfold allocQ0; simp [hc]
    · unfold allocQ0; simp [hc, hint]
  have hf : ∀ q, fullOutF cfg comm s p bo q
      = q * (p * s.mult) + |q| * (k + cfg.half * bo * s.mult) := fun q => by
    unfold fullOutF; rw [hcomm, absA_eq_abs]; ring
  obtain ⟨q', _, _, hl⟩ := sizeLoop_frac_perunit cfg (fullOutF cfg comm s p bo) (p * s.mult)
    (k + cfg.half * bo * s.mult) amount hatol hP hκ0 hκ hf hA hrate
  refine ⟨some q', ?_⟩
  rw [allocQuantity_loop cfg comm s amount p hz hp hpz hq he, hq0,
    fullOut_funext cfg comm s p bo hp hb, hint]
  simp only [Except.bind]
  rw [hl]; rfl

end fractional

/-! Concrete data over `ℚ` for the satisfiability examples. -/
section concrete

/-- a whole-unit security on date 0 with its data columns -/
def secQ (kind : SecKind) (price : Option Rat) (position : Rat) (needupdate bidofferSet : Bool)
    (prices coupons : List (Option Rat)) (costLong : Option (List (Option Rat))) : SecData Rat :=
  { name := "a", kind := kind, fixedIncome := kind != .plain, integer := true, bidofferSet := bidofferSet,
    mult := 1, now := some 0, price := price, value := 0, notl := 0, weight := 0,
    position := position, lastPos := position, outlayAcc := 0, bidoffer := some 0, bidofferPaid := 0,
    capital := 0, coupon := 0, holdingCost := 0, needupdate := needupdate,
    prices := prices, bidoffers := [some 0, some 0, some 0], coupons := coupons, costLong := costLong,
    costShort := none,
    rValue := [0, 0, 0], rPosition := [0, 0, 0], rNotl := [0, 0, 0], rOutlay := [0, 0, 0],
    rBidofferPaid := [0, 0, 0], rCoupon := [0, 0, 0], rHolding := [0, 0, 0] }

/-- a strategy on date 0 -/
def stratQ (fi : Bool) (capital value lastValue netFlows : Rat) : StratData Rat :=
  { name := "s", fixedIncome := fi, bidofferSet := false, paperTrade := false, paperPx := 100,
    comm := fun _ _ => 0, now := some 0, capital := capital, price := 100, value := value, notl := 0,
    weight := 0, netFlows := netFlows, lastValue := lastValue, lastNotl := 0, lastPrice := 100,
    lastFee := 0, bidofferPaid := 0, bankrupt := false,
    rPrice := [100, 100, 100], rValue := [0, 0, 0], rNotl := [0, 0, 0], rCash := [0, 0, 0],
    rFees := [0, 0, 0], rFlows := [0, 0, 0], rBidofferPaid := [0, 0, 0] }

/-- a healthy security: 20 units, prices 10, 11, 12 -/
def goodSec : SecData Rat := secQ .plain (some 10) 20 true false [some 10, some 11, some 12] [] none
/-- 5 units held, price missing on date 1 -/
def nanSec : SecData Rat := secQ .plain (some 10) 5 true false [some 10, none, some 12] [] none
/-- flat, price missing on date 1 -/
def flatNanSec : SecData Rat := secQ .plain (some 10) 0 true false [some 10, none, some 12] [] none
/-- a bond: 3 units, coupon missing on date 1 -/
def nanCpnSec : SecData Rat :=
  secQ .coupon (some 100) 3 true false [some 100, some 100, some 100] [some 1, none, some 1] none
/-- a bond with all its cells, funding cost on the long side -/
def goodCpnSec : SecData Rat :=
  secQ .coupon (some 100) 3 true false [some 100, some 100, some 100] [some 1, some 1, some 1]
    (some [some (1/10), some (1/10), some (1/10)])

/-- projection of an error for comparison (`SecData` / `Node` carry functions and have no decidable
    equality) -/
def errOf {α : Type} (x : Except Err α) : Option Err :=
  match x with
  | .ok _ => none
  | .error e => some e

end concrete

end Bt.Raises
