import Bt.Engine.Backtest
import Bt.Proofs.C08RowsRead
/-! C04 (no look-ahead), part 1: truncating the supplied data columns after row `t` commutes with every
    security-level operation executed at a date `d ≤ t`. -/
set_option linter.unusedSectionVars false
namespace Bt.P04
open Bt Bt.P08

variable {K : Type} [Field K] [LinearOrder K] [IsStrictOrderedRing K] [HasFloor K]

/-! ### Except plumbing -/

section plumbing
variable {ε α β α' β' : Type}

theorem throw_eq_error (e : ε) : (throw e : Except ε α) = .error e := rfl

theorem map_error (f : α → β) (e : ε) : Except.map f (.error e : Except ε α) = .error e := rfl
theorem bind_error (f : α → Except ε β) (e : ε) : Except.bind (.error e : Except ε α) f = .error e := rfl

theorem map_id' (x : Except ε α) : x.map (fun a => a) = x := by cases x <;> rfl

theorem map_map' (x : Except ε α) (f : α → β) (g : β → β') : (x.map f).map g = x.map fun a => g (f a) := by
  cases x <;> rfl

/-- a `bind` commutes with a pair of maps when its two halves do -/
theorem bind_comm {x : Except ε α} {x' : Except ε α'} {f : α → Except ε β} {f' : α' → Except ε β'}
    (m : α → α') (m2 : β → β') (hx : x' = x.map m) (hf : ∀ a, x = .ok a → f' (m a) = (f a).map m2) :
    x'.bind f' = (x.bind f).map m2 := by
  subst hx
  cases x with
  | error e => rfl
  | ok a => exact hf a rfl

theorem map_comm {x : Except ε α} {x' : Except ε α'} {g : α → β} {g' : α' → β'}
    (m : α → α') (m2 : β → β') (hx : x' = x.map m) (hg : ∀ a, x = .ok a → g' (m a) = m2 (g a)) :
    x'.map g' = (x.map g).map m2 := by
  subst hx
  cases x with
  | error e => rfl
  | ok a => simp only [map_ok]; rw [hg a rfl]

/-- the same computation on both sides -/
theorem bind_comm_same {x : Except ε α} {f : α → Except ε β} {f' : α → Except ε β'}
    (m2 : β → β') (hf : ∀ a, x = .ok a → f' a = (f a).map m2) :
    x.bind f' = (x.bind f).map m2 := by
  cases x with
  | error e => rfl
  | ok a => exact hf a rfl

/-- an `if` commutes with a map when its branches do (the two tests being the same proposition) -/
theorem ite_comm {c c' : Prop} [Decidable c] [Decidable c'] (hcc : c' ↔ c) {a b : α} {a' b' : α'}
    (m : α → α') (ha : a' = m a) (hb : b' = m b) :
    (if c' then a' else b') = m (if c then a else b) := by
  by_cases h : c
  · rw [if_pos h, if_pos (hcc.2 h)]; exact ha
  · rw [if_neg h, if_neg (fun h' => h (hcc.1 h'))]; exact hb

end plumbing

/-! ### lists -/

theorem cell_take (l : List (Option K)) {d t : Nat} (h : d ≤ t) : cell (l.take (t + 1)) d = cell l d := by
  unfold cell
  rw [List.getElem?_take_of_lt (by omega)]

theorem cell_optTake (o : Option (List (Option K))) {d t : Nat} (h : d ≤ t) :
    cell ((o.map (·.take (t + 1))).getD []) d = cell (o.getD []) d := by
  cases o with
  | none => rfl
  | some l => exact cell_take l h

/-! ### fields of a truncated security -/

section fields
variable (t : Nat) (s : SecData K)
@[simp] theorem trunc_name : (s.trunc t).name = s.name := rfl
@[simp] theorem trunc_kind : (s.trunc t).kind = s.kind := rfl
@[simp] theorem trunc_fixedIncome : (s.trunc t).fixedIncome = s.fixedIncome := rfl
@[simp] theorem trunc_integer : (s.trunc t).integer = s.integer := rfl
@[simp] theorem trunc_bidofferSet : (s.trunc t).bidofferSet = s.bidofferSet := rfl
@[simp] theorem trunc_mult : (s.trunc t).mult = s.mult := rfl
@[simp] theorem trunc_now : (s.trunc t).now = s.now := rfl
@[simp] theorem trunc_price : (s.trunc t).price = s.price := rfl
@[simp] theorem trunc_value : (s.trunc t).value = s.value := rfl
@[simp] theorem trunc_notl : (s.trunc t).notl = s.notl := rfl
@[simp] theorem trunc_weight : (s.trunc t).weight = s.weight := rfl
@[simp] theorem trunc_position : (s.trunc t).position = s.position := rfl
@[simp] theorem trunc_lastPos : (s.trunc t).lastPos = s.lastPos := rfl
@[simp] theorem trunc_outlayAcc : (s.trunc t).outlayAcc = s.outlayAcc := rfl
@[simp] theorem trunc_bidoffer : (s.trunc t).bidoffer = s.bidoffer := rfl
@[simp] theorem trunc_bidofferPaid : (s.trunc t).bidofferPaid = s.bidofferPaid := rfl
@[simp] theorem trunc_capital : (s.trunc t).capital = s.capital := rfl
@[simp] theorem trunc_coupon : (s.trunc t).coupon = s.coupon := rfl
@[simp] theorem trunc_holdingCost : (s.trunc t).holdingCost = s.holdingCost := rfl
@[simp] theorem trunc_needupdate : (s.trunc t).needupdate = s.needupdate := rfl
@[simp] theorem trunc_prices : (s.trunc t).prices = s.prices.take (t + 1) := rfl
@[simp] theorem trunc_bidoffers : (s.trunc t).bidoffers = s.bidoffers.take (t + 1) := rfl
@[simp] theorem trunc_coupons : (s.trunc t).coupons = s.coupons.take (t + 1) := rfl
@[simp] theorem trunc_costLong : (s.trunc t).costLong = s.costLong.map (·.take (t + 1)) := rfl
@[simp] theorem trunc_costShort : (s.trunc t).costShort = s.costShort.map (·.take (t + 1)) := rfl
@[simp] theorem trunc_rValue : (s.trunc t).rValue = s.rValue := rfl
@[simp] theorem trunc_rPosition : (s.trunc t).rPosition = s.rPosition := rfl
@[simp] theorem trunc_rNotl : (s.trunc t).rNotl = s.rNotl := rfl
@[simp] theorem trunc_rOutlay : (s.trunc t).rOutlay = s.rOutlay := rfl
@[simp] theorem trunc_rBidofferPaid : (s.trunc t).rBidofferPaid = s.rBidofferPaid := rfl
@[simp] theorem trunc_rCoupon : (s.trunc t).rCoupon = s.rCoupon := rfl
@[simp] theorem trunc_rHolding : (s.trunc t).rHolding = s.rHolding := rfl
end fields

/-- truncating twice at the same row -/
theorem trunc_trunc (t : Nat) (s : SecData K) : (s.trunc t).trunc t = s.trunc t := by
  cases s
  simp only [SecData.trunc, List.take_take, Nat.min_self, Option.map_map]
  congr 1 <;> (rename_i cl cs _ _ _ _ _ _ _; first | (cases cl <;> simp [List.take_take]) | (cases cs <;> simp [List.take_take]))

/-! ### the steps of `SecurityBase.update` -/

section steps
variable {t d : Nat} (cfg : Cfg K) (s : SecData K)

theorem secDateChange_trunc (h : d ≤ t) : secDateChange d (s.trunc t) = (secDateChange d s).trunc t := by
  unfold secDateChange
  refine ite_comm Iff.rfl (SecData.trunc t) ?_ rfl
  simp only [trunc_prices, trunc_bidoffers, cell_take _ h]
  rfl

theorem secRecordPos_trunc : secRecordPos d (s.trunc t) = (secRecordPos d s).trunc t := rfl

theorem secMarkValue_trunc : secMarkValue cfg (s.trunc t) = secMarkValue cfg s := rfl

theorem secSetValue_trunc (v : K) : secSetValue d v (s.trunc t) = (secSetValue d v s).trunc t := rfl

theorem secQuiet_trunc : secQuiet cfg (s.trunc t) = (secQuiet cfg s).trunc t := by
  unfold secQuiet
  exact ite_comm Iff.rfl (SecData.trunc t) rfl rfl

theorem secFlushOutlay_trunc : secFlushOutlay d (s.trunc t) = (secFlushOutlay d s).trunc t := by
  unfold secFlushOutlay
  exact ite_comm Iff.rfl (SecData.trunc t) rfl rfl

theorem secRowBidoffer_trunc : secRowBidoffer d (s.trunc t) = (secRowBidoffer d s).trunc t := by
  unfold secRowBidoffer
  exact ite_comm Iff.rfl (SecData.trunc t) rfl rfl

theorem secEarly_trunc : secEarly d (s.trunc t) = secEarly d s := rfl

theorem secBaseUpdate_trunc (h : d ≤ t) :
    secBaseUpdate cfg d (s.trunc t) = (secBaseUpdate cfg d s).map (·.trunc t) := by
  unfold secBaseUpdate
  refine ite_comm Iff.rfl (Except.map (SecData.trunc t)) rfl ?_
  simp only [secDateChange_trunc s h, secRecordPos_trunc, secMarkValue_trunc, map_map']
  congr 1
  funext v
  rw [secSetValue_trunc, secQuiet_trunc, secFlushOutlay_trunc, secRowBidoffer_trunc]

theorem secFiTail_trunc : secFiTail d (s.trunc t) = (secFiTail d s).trunc t := rfl

theorem secHedgeTail_trunc : secHedgeTail (s.trunc t) = (secHedgeTail s).trunc t := rfl

theorem cpnE_trunc (h : d ≤ t) (pos : K) (c : List (Option K)) :
    cpnE cfg d pos (c.take (t + 1)) = cpnE cfg d pos c := by
  unfold cpnE; rw [cell_take _ h]

theorem hcE_trunc (h : d ≤ t) (pos : K) (cl cs : Option (List (Option K))) :
    hcE d pos (cl.map (·.take (t + 1))) (cs.map (·.take (t + 1))) = hcE d pos cl cs := by
  unfold hcE
  simp only [Option.isSome_map, cell_optTake _ h]

theorem secCouponTail_trunc (h : d ≤ t) :
    secCouponTail cfg d (s.trunc t) = (secCouponTail cfg d s).map (·.trunc t) := by
  rw [secCouponTail_eq, secCouponTail_eq]
  simp only [trunc_position, trunc_coupons, trunc_costLong, trunc_costShort, cpnE_trunc cfg h, hcE_trunc h]
  cases cpnE cfg d s.position s.coupons with
  | error e => rfl
  | ok c =>
    simp only [bind_ok]
    cases hcE d s.position s.costLong s.costShort with
    | error e => rfl
    | ok hc => rfl

theorem secTail_trunc (h : d ≤ t) (k : SecKind) :
    secTail cfg d k (s.trunc t) = (secTail cfg d k s).map (·.trunc t) := by
  cases k with
  | plain => rfl
  | fi => rfl
  | hedge => rfl
  | coupon =>
    show secCouponTail cfg d (secFiTail d (s.trunc t)) = _
    rw [secFiTail_trunc, secCouponTail_trunc cfg _ h]; rfl
  | couponHedge =>
    show (secCouponTail cfg d (secFiTail d (s.trunc t))).map secHedgeTail = _
    rw [secFiTail_trunc, secCouponTail_trunc cfg _ h]
    show _ = ((secCouponTail cfg d (secFiTail d s)).map secHedgeTail).map _
    rw [map_map', map_map']; rfl

/-- **`SecurityBase.update(d)` (any subclass) on truncated data, `d ≤ t`** -/
theorem secUpdate_trunc (h : d ≤ t) :
    secUpdate cfg d (s.trunc t) = (secUpdate cfg d s).map (·.trunc t) := by
  rw [secUpdate_eq, secUpdate_eq, trunc_kind]
  exact bind_comm (SecData.trunc t) (SecData.trunc t) (secBaseUpdate_trunc cfg s h) fun s1 _ => secTail_trunc cfg s1 h _

end steps

/-- a clock that is unset or not after `t` -/
def NowLE (t : Nat) (now : Option Nat) : Prop := ∀ d, now = some d → d ≤ t

theorem nowLE_none (t : Nat) : NowLE t none := fun _ h => by cases h
theorem nowLE_some {t d : Nat} (h : d ≤ t) : NowLE t (some d) := fun _ h' => by cases h'; exact h

/-! ### refresh, transact, allocate of one security -/

section trade
variable {t : Nat} (cfg : Cfg K) (comm : K → K → K) (s : SecData K)

theorem secRefresh_trunc {pnow : Option Nat} (hp : NowLE t pnow) :
    secRefresh cfg pnow (s.trunc t) = (secRefresh cfg pnow s).map (·.trunc t) := by
  unfold secRefresh
  refine ite_comm Iff.rfl (Except.map (SecData.trunc t)) ?_ rfl
  cases pnow with
  | none => rfl
  | some d => exact secUpdate_trunc cfg s (hp d rfl)

theorem secOutlay_trunc (q : K) (custom : Option K) :
    secOutlay cfg comm (s.trunc t) q custom = secOutlay cfg comm s q custom := rfl

/-- the pair a security-level trade returns, truncated -/
def truncPair (t : Nat) {β : Type} (r : SecData K × β) : SecData K × β := (r.1.trunc t, r.2)

theorem secTransactCore_trunc (q : K) (custom : Option K) :
    secTransactCore cfg comm (s.trunc t) q custom =
      (secTransactCore cfg comm s q custom).map (truncPair t) := by
  unfold secTransactCore
  refine ite_comm Iff.rfl (Except.map (truncPair t)) rfl ?_
  refine ite_comm Iff.rfl (Except.map (truncPair t)) rfl ?_
  exact bind_comm_same (truncPair t) fun r _ => rfl

theorem secTransact_trunc {pnow : Option Nat} (hp : NowLE t pnow) (q : K) (u : Bool) (custom : Option K) :
    secTransact cfg pnow comm (s.trunc t) q u custom =
      (secTransact cfg pnow comm s q u custom).map (truncPair t) := by
  unfold secTransact
  refine bind_comm (SecData.trunc t) (truncPair t) ?_ fun s1 _ => secTransactCore_trunc cfg comm s1 q custom
  exact ite_comm Iff.rfl (Except.map (SecData.trunc t)) (secRefresh_trunc cfg s hp) rfl

theorem allocQuantity_trunc (amount : K) :
    allocQuantity cfg comm (s.trunc t) amount = allocQuantity cfg comm s amount := rfl

theorem secAllocate_trunc {pnow : Option Nat} (hp : NowLE t pnow) (amount : K) :
    secAllocate cfg pnow comm (s.trunc t) amount =
      (secAllocate cfg pnow comm s amount).map (truncPair t) := by
  unfold secAllocate
  refine bind_comm (SecData.trunc t) (truncPair t) (secRefresh_trunc cfg s hp) fun s1 _ => ?_
  rw [allocQuantity_trunc]
  refine bind_comm_same (truncPair t) fun oq _ => ?_
  cases oq with
  | none => rfl
  | some q => exact secTransactCore_trunc cfg comm s1 q none

end trade

end Bt.P04
