import Bt.Proofs.RebalanceNested
/-! C06 with costs / at any path, part 9: the outcome theorems in the shape the property file uses — at a path
    and at the root (flat world), with the statement about each child left as a parameter `Q` that the caller
    derives from `ChildOut`. -/
set_option linter.unusedSectionVars false
namespace Bt.P06
open Bt Bt.Rebal

variable {K : Type} [Field K] [LinearOrder K] [IsStrictOrderedRing K] [HasFloor K]

/-- `Rebalance` on the market-value strategy `(sd, ss)` at `p` (security children reached without a refresh,
    any costs): frame, and unless the root's bankruptcy step fires, the ledger of the call and a statement `Q`
    about every child that follows from `ChildOut`. -/
theorem secs_final_at (cfg : Cfg K) (d : Nat) (root : Node K) (p : List Nat) (sd : StratData K)
    (ss : List (SecData K)) (T : List (Nat × K)) (cash notional : Option K) (w' : World K)
    (htol : 0 < cfg.tol) (hv : ∃ x, root.get? p = some x)
    (hrn : (PW root p sd (ss.map Node.sec)).root.now = some d)
    (hnow : sd.now = some d) (hfi : sd.fixedIncome = false) (hsec : ∀ s ∈ ss, RSec d s)
    (hnd : (T.map (·.1)).Nodup) (hin : ∀ i ∈ T.map (·.1), i < ss.length)
    (h : algoRebalance cfg (PW root p sd (ss.map Node.sec)) p T cash notional = .ok w')
    (Q : Nat → SecData K → SecData K → K → Prop)
    (hQ : ∀ (tot : K) (i : Nat) (s t : SecData K) (q : K), ss[i]? = some s →
      ChildOut cfg sd.comm sd.value T cash tot i s t q → Q i s t tot) :
    ∃ (sd3 : StratData K) (ss3 : List (SecData K)),
      updRoot cfg d (PW root p sd3 (ss3.map Node.sec)) = .ok w' ∧ sd3 = withCF sd sd3.capital sd3.lastFee ∧
      ss3.length = ss.length ∧
      (BankruptStep cfg d (PW root p sd3 (ss3.map Node.sec)) ∨
       (w'.stale = false ∧ ∃ (sdF : StratData K) (ssF : List (SecData K)),
        w'.root.get? p = some (.strat sdF (ssF.map Node.sec)) ∧ ssF.length = ss.length ∧
        sdF.lastFee = sd.lastFee + (List.zipWith (feeBetween sd.comm) ss ssF).sum ∧
        sdF.capital + (ssF.map (·.value)).sum =
          sd.capital + worthSum ss - ((sdF.lastFee - sd.lastFee) + (boSumL ssF - boSumL ss)) ∧
        (sdF.value = sdF.capital + (ssF.map (·.value)).sum ∨
          (sdF.value = sd.value ∧
            isZero cfg.tol (sd.value - (sdF.capital + (ssF.map (·.value)).sum)) = true)) ∧
        (∀ (i : Nat) (s : SecData K), ss[i]? = some s → ∃ t, ssF[i]? = some t ∧
          Q i s t (sdF.capital + (ssF.map (·.value)).sum)))) := by
  obtain ⟨sd3, ss3, hupd, e3, l3, _, hcase⟩ := rebalance_secs_final cfg d root p sd ss T cash notional w' htol hv
    hrn hnow hfi hsec hnd hin h
  refine ⟨sd3, ss3, hupd, e3, l3, ?_⟩
  rcases hcase with hb | ⟨hst, sdF, ssF, g, r2, r3, r4, r5, r6⟩
  · exact Or.inl hb
  · refine Or.inr ⟨hst, sdF, ssF, g, r2, r3, by linear_combination r4, r5, ?_⟩
    intro i s hs
    obtain ⟨t, q, ht, hc⟩ := r6 i s hs
    exact ⟨t, ht, hQ _ i s t q hs hc⟩

/-- the same for the root strategy of a flat world -/
theorem secs_final_root (cfg : Cfg K) (d : Nat) (sd : StratData K) (ss : List (SecData K))
    (T : List (Nat × K)) (cash notional : Option K) (w' : World K)
    (htol : 0 < cfg.tol) (hnow : sd.now = some d) (hfi : sd.fixedIncome = false) (hsec : ∀ s ∈ ss, RSec d s)
    (hnd : (T.map (·.1)).Nodup) (hin : ∀ i ∈ T.map (·.1), i < ss.length)
    (h : algoRebalance cfg (flatW sd ss) [] T cash notional = .ok w')
    (Q : Nat → SecData K → SecData K → K → Prop)
    (hQ : ∀ (tot : K) (i : Nat) (s t : SecData K) (q : K), ss[i]? = some s →
      ChildOut cfg sd.comm sd.value T cash tot i s t q → Q i s t tot) :
    (∃ (sd3 : StratData K) (ss3 : List (SecData K)), updRoot cfg d (flatW sd3 ss3) = .ok w' ∧
      sd3.capital + worthSum ss3 < 0 ∧ sd3.bankrupt = false) ∨
    ∃ (sdF : StratData K) (ssF : List (SecData K)), w' = flatW sdF ssF ∧ ssF.length = ss.length ∧
      sdF.lastFee = sd.lastFee + (List.zipWith (feeBetween sd.comm) ss ssF).sum ∧
      sdF.capital + (ssF.map (·.value)).sum =
        sd.capital + worthSum ss - ((sdF.lastFee - sd.lastFee) + (boSumL ssF - boSumL ss)) ∧
      (sdF.value = sdF.capital + (ssF.map (·.value)).sum ∨
        (sdF.value = sd.value ∧
          isZero cfg.tol (sd.value - (sdF.capital + (ssF.map (·.value)).sum)) = true)) ∧
      (∀ (i : Nat) (s : SecData K), ss[i]? = some s → ∃ t, ssF[i]? = some t ∧
        Q i s t (sdF.capital + (ssF.map (·.value)).sum)) := by
  rw [flatW_eq_PW (.strat sd (ss.map Node.sec)) sd ss] at h
  obtain ⟨sd3, ss3, hupd, e3, l3, hr3, hcase⟩ := rebalance_secs_final cfg d (.strat sd (ss.map Node.sec)) [] sd ss T
    cash notional w' htol ⟨_, get?_nil _⟩ (by simp only [PW, putAt_nil]; exact hnow) hnow hfi hsec hnd hin h
  rw [← flatW_eq_PW] at hupd hcase
  rcases hcase with hb | ⟨hst, sdF, ssF, g, r2, r3, r4, r5, r6⟩
  · left
    have hnow3 : sd3.now = some d := by rw [e3]; exact hnow
    exact ⟨sd3, ss3, hupd, bankruptStep_flat cfg d sd3 ss3 hnow3 hr3 hb⟩
  · right
    refine ⟨sdF, ssF, world_eq_flatW w' sdF ssF hst g, r2, r3, by linear_combination r4, r5, ?_⟩
    intro i s hs
    obtain ⟨t, q, ht, hc⟩ := r6 i s hs
    exact ⟨t, ht, hQ _ i s t q hs hc⟩

/-- half-spread and commission are non-negative when the commission function and `½·spread·mult` are -/
theorem costOf_nonneg (cfg : Cfg K) (comm : K → K → K) (s : SecData K) (q : K) (hfee : ∀ q x, 0 ≤ comm q x)
    (hsp : 0 ≤ cfg.half * boOf s * s.mult) : 0 ≤ costOf cfg comm s q := by
  unfold costOf spreadOf feeOf
  have h1 : 0 ≤ |q| * cfg.half * boOf s * s.mult := by
    have : |q| * cfg.half * boOf s * s.mult = |q| * (cfg.half * boOf s * s.mult) := by ring
    rw [this]
    exact mul_nonneg (abs_nonneg q) hsp
  have h2 : 0 ≤ (if q = 0 then 0 else comm q (px s * s.mult)) := by
    split
    · exact le_refl _
    · exact hfee _ _
  linarith

/-- **Strategy level, fractional units with non-negative costs** (root strategy of a flat world): unless the
    bankruptcy step fires, the new total is the old total less the costs booked in the call, these are
    non-negative, and — if every target was traded by the sizing search (position moved, not closed out) — the
    targets' distances to their target values add up to at most the costs booked plus `isclose`'s tolerance on
    each amount. -/
theorem costs_total_root (cfg : Cfg K) (d : Nat) (sd : StratData K) (ss : List (SecData K))
    (T : List (Nat × K)) (cash notional : Option K) (w' : World K)
    (htol : 0 < cfg.tol) (hnow : sd.now = some d) (hfi : sd.fixedIncome = false) (hsec : ∀ s ∈ ss, RSec d s)
    (hfrac : ∀ s ∈ ss, s.integer = false)
    (hnd : (T.map (·.1)).Nodup) (hin : ∀ i ∈ T.map (·.1), i < ss.length)
    (hwts : ∀ s ∈ ss, s.weight * sd.value = s.value)
    (hfee : ∀ q x, 0 ≤ sd.comm q x) (hsp : ∀ s ∈ ss, 0 ≤ cfg.half * boOf s * s.mult)
    (h : algoRebalance cfg (flatW sd ss) [] T cash notional = .ok w') :
    (∃ (sd3 : StratData K) (ss3 : List (SecData K)), updRoot cfg d (flatW sd3 ss3) = .ok w' ∧
      sd3.capital + worthSum ss3 < 0 ∧ sd3.bankrupt = false) ∨
    ∃ (sdF : StratData K) (ssF : List (SecData K)), w' = flatW sdF ssF ∧ ssF.length = ss.length ∧
      sdF.capital + (ssF.map (·.value)).sum =
        sd.capital + worthSum ss - ((sdF.lastFee - sd.lastFee) + (boSumL ssF - boSumL ss)) ∧
      0 ≤ (sdF.lastFee - sd.lastFee) + (boSumL ssF - boSumL ss) ∧
      ((∀ (i : Nat) (wt : K) (s t : SecData K), (i, wt) ∈ T → ss[i]? = some s → ssF[i]? = some t →
          isZero cfg.tol (wt * cashScale cash) = false ∧ t.position ≠ s.position ∧ t.position ≠ 0) →
        (T.map (devT ssF sd.value (cashScale cash))).sum ≤
          (sdF.lastFee - sd.lastFee) + (boSumL ssF - boSumL ss) +
            (T.map (tolT cfg ss sd.value (cashScale cash))).sum) := by
  rcases secs_final_root cfg d sd ss T cash notional w' htol hnow hfi hsec hnd hin h
    (fun i s t _ => 0 ≤ childCost sd.comm s t ∧ ∀ wt, (i, wt) ∈ T →
      isZero cfg.tol (wt * cashScale cash) = false → t.position ≠ s.position → t.position ≠ 0 →
      |t.value - wt * cashScale cash * sd.value + childCost sd.comm s t|
        ≤ cfg.atol + cfg.tol * |wt * cashScale cash * sd.value - s.value|)
    (by
      intro tot i s t q hs hc
      have hm := List.mem_of_getElem? hs
      refine ⟨by rw [hc.cost]; exact costOf_nonneg cfg sd.comm s q hfee (hsp s hm), ?_⟩
      intro wt hi hz h1 h2
      rcases hc.frac_target d htol (hsec s hm) (hfrac s hm) hnd wt hi hz (hwts s hm) with
        ⟨e, _⟩ | ⟨e, _⟩ | ⟨_, hb⟩
      · exact absurd e h1
      · exact absurd e h2
      · exact hb) with hb | ⟨sdF, ssF, e, r2, r3, r4, _, r6⟩
  · exact Or.inl hb
  · right
    have hzs : (List.zipWith (childCost sd.comm) ss ssF).sum =
        (sdF.lastFee - sd.lastFee) + (boSumL ssF - boSumL ss) := by
      rw [zipWith_childCost_sum sd.comm ss ssF r2, r3]; ring
    have hc0 : ∀ (i : Nat) (s t : SecData K), ss[i]? = some s → ssF[i]? = some t → 0 ≤ childCost sd.comm s t := by
      intro i s t hs ht
      obtain ⟨t', ht', h0, _⟩ := r6 i s hs
      rw [ht'] at ht; cases ht
      exact h0
    refine ⟨sdF, ssF, e, r2, r4, ?_, ?_⟩
    · rw [← hzs]
      apply List.sum_nonneg
      intro x hx
      obtain ⟨i, hi⟩ := List.mem_iff_getElem?.1 hx
      have hlt : i < ss.length := by
        rw [← zipWith_length' (childCost sd.comm) ss ssF r2]; exact lt_of_getElem? hi
      have hlt' : i < ssF.length := by rw [r2]; exact hlt
      rw [zipWith_get _ ss ssF i _ _ (List.getElem?_eq_getElem hlt) (List.getElem?_eq_getElem hlt')] at hi
      cases hi
      exact hc0 i _ _ (List.getElem?_eq_getElem hlt) (List.getElem?_eq_getElem hlt')
    · intro hall
      have := sum_dev_le cfg sd.comm sd.value (cashScale cash) T ss ssF r2 hnd hin hc0 (by
        intro i wt s t hi hs ht
        obtain ⟨t', ht', _, hb⟩ := r6 i s hs
        obtain ⟨a1, a2, a3⟩ := hall i wt s t' hi hs ht'
        have htt : t' = t := by rw [ht'] at ht; exact Option.some.inj ht
        rw [← htt]
        exact hb wt hi a1 a2 a3)
      have hf : sdF.lastFee - sd.lastFee = (List.zipWith (feeBetween sd.comm) ss ssF).sum := by
        rw [r3]; ring
      rw [hf]
      linarith

end Bt.P06
