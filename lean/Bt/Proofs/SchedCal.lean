import Bt.Algos.SchedCal
/-! Calendar laws of the forward civil calendar `Bt.Cal` (helper lemmas for C12). -/
namespace Bt.Cal

theorem leapDay_cases (b : Bool) : leapDay b = 0 ∨ leapDay b = 1 := by
  cases b <;> simp [leapDay]

theorem yearLen_cases (y : Int) : yearLen y = 365 ∨ yearLen y = 366 := by
  unfold yearLen; rcases leapDay_cases (isLeap y) with h | h <;> omega

/-- consecutive years are `yearLen` apart -/
theorem isLeap_iff (y : Int) : isLeap y = true ↔ (y % 4 = 0 ∧ (y % 100 ≠ 0 ∨ y % 400 = 0)) := by
  simp [isLeap]

theorem div_pred_of_dvd4 (a : Int) (h : a % 4 = 0) : (a - 1) / 4 = a / 4 - 1 := by omega
theorem div_pred_of_ndvd4 (a : Int) (h : a % 4 ≠ 0) : (a - 1) / 4 = a / 4 := by omega
theorem div_pred_of_dvd25 (a : Int) (h : a % 25 = 0) : (a - 1) / 25 = a / 25 - 1 := by omega
theorem div_pred_of_ndvd25 (a : Int) (h : a % 25 ≠ 0) : (a - 1) / 25 = a / 25 := by omega
theorem div_pred_of_dvd100 (a : Int) (h : a % 100 = 0) : (a - 1) / 100 = a / 100 - 1 := by omega
theorem div_pred_of_ndvd100 (a : Int) (h : a % 100 ≠ 0) : (a - 1) / 100 = a / 100 := by omega
theorem mod100_iff (y : Int) (h : y % 4 = 0) : y % 100 = 0 ↔ (y / 4) % 25 = 0 := by omega
theorem mod400_iff (y : Int) (h : y % 4 = 0) : y % 400 = 0 ↔ (y / 4) % 100 = 0 := by omega
theorem mod100_of_mod25 (v : Int) (h : v % 25 ≠ 0) : v % 100 ≠ 0 := by omega
theorem div100_nest (y : Int) : y / 100 = y / 4 / 25 := by omega
theorem div400_nest (y : Int) : y / 400 = y / 4 / 100 := by omega

theorem leapDay_true : leapDay true = 1 := rfl
theorem leapDay_false : leapDay false = 0 := rfl
theorem isLeap_false_of {y : Int} (h : ¬ (y % 4 = 0 ∧ (y % 100 ≠ 0 ∨ y % 400 = 0))) : isLeap y = false := by
  cases hb : isLeap y
  · rfl
  · exact absurd ((isLeap_iff y).1 hb) h

theorem leaps_succ (y : Int) : leapsThrough y = leapsThrough (y - 1) + leapDay (isLeap y) := by
  unfold leapsThrough
  rw [div100_nest y, div400_nest y, div100_nest (y - 1), div400_nest (y - 1)]
  by_cases h4 : y % 4 = 0
  · rw [div_pred_of_dvd4 y h4]
    by_cases h25 : (y / 4) % 25 = 0
    · rw [div_pred_of_dvd25 _ h25]
      by_cases h100 : (y / 4) % 100 = 0
      · rw [div_pred_of_dvd100 _ h100, (isLeap_iff y).2 ⟨h4, Or.inr ((mod400_iff y h4).2 h100)⟩]
        rw [leapDay_true]; omega
      · rw [div_pred_of_ndvd100 _ h100, isLeap_false_of (y := y) (by
          rintro ⟨_, h | h⟩
          · exact h ((mod100_iff y h4).2 h25)
          · exact h100 ((mod400_iff y h4).1 h))]
        rw [leapDay_false]; omega
    · rw [div_pred_of_ndvd25 _ h25, div_pred_of_ndvd100 _ (mod100_of_mod25 _ h25),
        (isLeap_iff y).2 ⟨h4, Or.inl (fun h => h25 ((mod100_iff y h4).1 h))⟩]
      rw [leapDay_true]; omega
  · rw [div_pred_of_ndvd4 y h4, isLeap_false_of (y := y) (fun h => h4 h.1)]
    simp [leapDay]
/-- consecutive years are `yearLen` apart -/
theorem jan1_succ (y : Int) : jan1 (y + 1) = jan1 y + yearLen y := by
  unfold jan1 yearLen
  have := leaps_succ y
  rw [show y + 1 - 1 = y by omega]
  omega

theorem jan1_lt_succ (y : Int) : jan1 y + 365 ≤ jan1 (y + 1) := by
  rw [jan1_succ]; rcases yearLen_cases y with h | h <;> omega

/-- `jan1` is strictly increasing, by at least 365 days per year -/
theorem jan1_add (y : Int) (n : Nat) : jan1 y + 365 * n ≤ jan1 (y + n) := by
  induction n with
  | zero => simp
  | succ k ih =>
    have h := jan1_lt_succ (y + k)
    have e : y + ((k + 1 : Nat) : Int) = y + k + 1 := by omega
    rw [e]; omega

theorem jan1_mono {y y' : Int} (h : y ≤ y') : jan1 y + 365 * (y' - y) ≤ jan1 y' := by
  obtain ⟨n, hn⟩ := Int.le.dest h
  have := jan1_add y n
  rw [← hn]; omega

theorem jan1_strict {y y' : Int} (h : y < y') : jan1 (y + 1) ≤ jan1 y' := by
  have := jan1_mono (show y + 1 ≤ y' by omega); omega

/-- the year is determined by any day inside it -/
theorem year_unique {y y' t : Int} (h1 : jan1 y ≤ t) (h2 : t < jan1 (y + 1))
    (h1' : jan1 y' ≤ t) (h2' : t < jan1 (y' + 1)) : y = y' := by
  rcases Int.lt_trichotomy y y' with h | h | h
  · have := jan1_strict h; omega
  · exact h
  · have := jan1_strict h; omega

theorem daysBeforeMonth_one (l : Bool) : daysBeforeMonth l 1 = 0 := by simp [daysBeforeMonth]

theorem daysBeforeMonth_13 (l : Bool) : daysBeforeMonth l 13 = 365 + leapDay l := by
  simp [daysBeforeMonth]

theorem daysBeforeMonth_mono (l : Bool) {m m' : Int} (h1 : 1 ≤ m) (h : m ≤ m') :
    daysBeforeMonth l m ≤ daysBeforeMonth l m' := by
  unfold daysBeforeMonth
  rcases leapDay_cases l with e | e <;> rw [e] <;> split <;> split <;> omega

theorem daysInMonth_pos (l : Bool) {m : Int} (h1 : 1 ≤ m) (h2 : m ≤ 12) : 28 ≤ daysInMonth l m := by
  unfold daysInMonth daysBeforeMonth
  rcases leapDay_cases l with e | e <;> rw [e] <;> split <;> split <;> omega

namespace Stamp

theorem valid_iff (s : Stamp) : s.valid = true ↔
    (1 ≤ s.month ∧ s.month ≤ 12 ∧ 1 ≤ s.day ∧ s.day ≤ daysInMonth (isLeap s.year) s.month ∧
      0 ≤ s.tod ∧ s.tod < nsPerDay) := by
  simp [valid]

/-- a valid date lies inside its calendar year -/
theorem dayNo_in_year {s : Stamp} (h : s.valid = true) :
    jan1 s.year ≤ s.dayNo ∧ s.dayNo < jan1 (s.year + 1) := by
  rw [valid_iff] at h
  obtain ⟨h1, h2, h3, h4, _, _⟩ := h
  have a := daysBeforeMonth_mono (isLeap s.year) (show (1 : Int) ≤ 1 by omega) h1
  have b := daysBeforeMonth_mono (isLeap s.year) (show (1 : Int) ≤ s.month + 1 by omega) (show s.month + 1 ≤ 13 by omega)
  rw [daysBeforeMonth_one] at a
  rw [daysBeforeMonth_13] at b
  unfold daysInMonth at h4
  rw [jan1_succ]
  unfold dayNo daysFromCivil yearLen
  omega

/-- later (year, month) means later day number -/
theorem dayNo_lt_of_month_lt {a b : Stamp} (ha : a.valid = true) (hb : b.valid = true)
    (h : a.year < b.year ∨ (a.year = b.year ∧ a.month < b.month)) : a.dayNo < b.dayNo := by
  rcases h with h | ⟨hy, hm⟩
  · have := dayNo_in_year ha
    have := dayNo_in_year hb
    have := jan1_strict h
    omega
  · rw [valid_iff] at ha hb
    obtain ⟨a1, a2, a3, a4, _, _⟩ := ha
    obtain ⟨b1, b2, b3, b4, _, _⟩ := hb
    have m := daysBeforeMonth_mono (isLeap b.year) (show 1 ≤ a.month + 1 by omega) (show a.month + 1 ≤ b.month by omega)
    unfold daysInMonth at a4
    unfold dayNo daysFromCivil
    rw [hy] at a4 ⊢
    omega

theorem dayNo_lt_of_lex {a b : Stamp} (ha : a.valid = true) (hb : b.valid = true)
    (h : a.year < b.year ∨ (a.year = b.year ∧ (a.month < b.month ∨ (a.month = b.month ∧ a.day < b.day)))) :
    a.dayNo < b.dayNo := by
  rcases h with h | ⟨hy, hm | ⟨hm, hd⟩⟩
  · exact dayNo_lt_of_month_lt ha hb (Or.inl h)
  · exact dayNo_lt_of_month_lt ha hb (Or.inr ⟨hy, hm⟩)
  · unfold dayNo daysFromCivil; rw [hy, hm]; omega

/-- the day number determines the civil date -/
theorem civil_eq_of_dayNo_eq {a b : Stamp} (ha : a.valid = true) (hb : b.valid = true)
    (h : a.dayNo = b.dayNo) : a.year = b.year ∧ a.month = b.month ∧ a.day = b.day := by
  have lt1 := fun hh => dayNo_lt_of_lex ha hb hh
  have lt2 := fun hh => dayNo_lt_of_lex hb ha hh
  refine ⟨?_, ?_, ?_⟩
  · rcases Int.lt_trichotomy a.year b.year with h1 | h1 | h1
    · have := lt1 (Or.inl h1); omega
    · exact h1
    · have := lt2 (Or.inl h1); omega
  · rcases Int.lt_trichotomy a.year b.year with h1 | h1 | h1
    · have := lt1 (Or.inl h1); omega
    · rcases Int.lt_trichotomy a.month b.month with h2 | h2 | h2
      · have := lt1 (Or.inr ⟨h1, Or.inl h2⟩); omega
      · exact h2
      · have := lt2 (Or.inr ⟨h1.symm, Or.inl h2⟩); omega
    · have := lt2 (Or.inl h1); omega
  · rcases Int.lt_trichotomy a.year b.year with h1 | h1 | h1
    · have := lt1 (Or.inl h1); omega
    · rcases Int.lt_trichotomy a.month b.month with h2 | h2 | h2
      · have := lt1 (Or.inr ⟨h1, Or.inl h2⟩); omega
      · rcases Int.lt_trichotomy a.day b.day with h3 | h3 | h3
        · have := lt1 (Or.inr ⟨h1, Or.inr ⟨h2, h3⟩⟩); omega
        · exact h3
        · have := lt2 (Or.inr ⟨h1.symm, Or.inr ⟨h2.symm, h3⟩⟩); omega
      · have := lt2 (Or.inr ⟨h1.symm, Or.inl h2⟩); omega
    · have := lt2 (Or.inl h1); omega

/-- time order refines day order -/
theorem dayNo_le_of_ns_le {a b : Stamp} (ha : a.valid = true) (hb : b.valid = true)
    (h : a.ns ≤ b.ns) : a.dayNo ≤ b.dayNo := by
  rw [valid_iff] at ha hb
  unfold ns nsPerDay at h
  unfold nsPerDay at ha hb
  omega

theorem year_le_of_dayNo_le {a b : Stamp} (ha : a.valid = true) (hb : b.valid = true)
    (h : a.dayNo ≤ b.dayNo) : a.year ≤ b.year := by
  by_cases c : b.year < a.year
  · have := dayNo_lt_of_month_lt hb ha (Or.inl c); omega
  · omega

/-- (year, month) is monotone in time: `12·year + month` never decreases -/
theorem monthId_le_of_dayNo_le {a b : Stamp} (ha : a.valid = true) (hb : b.valid = true)
    (h : a.dayNo ≤ b.dayNo) : 12 * a.year + a.month ≤ 12 * b.year + b.month := by
  have hy := year_le_of_dayNo_le ha hb h
  have va := (valid_iff a).1 ha
  have vb := (valid_iff b).1 hb
  by_cases c : a.year = b.year
  · by_cases d : b.month < a.month
    · have := dayNo_lt_of_month_lt hb ha (Or.inr ⟨c.symm, d⟩); omega
    · omega
  · omega

theorem quarter_range {s : Stamp} (h : s.valid = true) : 1 ≤ s.quarter ∧ s.quarter ≤ 4 := by
  rw [valid_iff] at h; unfold quarter; omega

/-- the ISO year is the calendar year containing the Thursday of the week -/
theorem isoYear_spec {s : Stamp} (h : s.valid = true) :
    jan1 s.isoYear ≤ s.thursday ∧ s.thursday < jan1 (s.isoYear + 1) := by
  have hy := dayNo_in_year h
  have e0 : jan1 (s.year - 1 + 1) = jan1 (s.year - 1) + yearLen (s.year - 1) := jan1_succ (s.year - 1)
  have e1 : jan1 (s.year + 1) = jan1 s.year + yearLen s.year := jan1_succ s.year
  have e2 : jan1 (s.year + 1 + 1) = jan1 (s.year + 1) + yearLen (s.year + 1) := jan1_succ (s.year + 1)
  rw [show s.year - 1 + 1 = s.year by omega] at e0
  rcases yearLen_cases (s.year - 1) with l0 | l0 <;> rcases yearLen_cases s.year with l1 | l1 <;>
    rcases yearLen_cases (s.year + 1) with l2 | l2 <;>
  · unfold isoYear
    have ht : s.thursday = 7 * ((s.dayNo + 3) / 7) := rfl
    split
    · rw [show s.year - 1 + 1 = s.year by omega]; omega
    · split
      · omega
      · omega

/-- (ISO year, ISO week) identifies the Monday-to-Sunday week -/
theorem iso_eq_iff_mondayWeek_eq {a b : Stamp} (ha : a.valid = true) (hb : b.valid = true) :
    (a.isoYear = b.isoYear ∧ a.week = b.week) ↔ a.mondayWeek = b.mondayWeek := by
  have sa := isoYear_spec ha
  have sb := isoYear_spec hb
  constructor
  · rintro ⟨hy, hw⟩
    unfold week at hw
    rw [hy] at hw sa
    unfold thursday at hw sa sb
    omega
  · intro hw
    have ht : a.thursday = b.thursday := by unfold thursday; rw [hw]
    have hy : a.isoYear = b.isoYear := by
      rw [ht] at sa
      exact year_unique sa.1 sa.2 sb.1 sb.2
    refine ⟨hy, ?_⟩
    unfold week; rw [ht, hy]

theorem mondayWeek_le_of_dayNo_le {a b : Stamp} (h : a.dayNo ≤ b.dayNo) : a.mondayWeek ≤ b.mondayWeek := by
  unfold mondayWeek; omega

end Stamp
end Bt.Cal
