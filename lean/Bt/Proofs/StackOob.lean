import Bt.Algos.Stack
import Mathlib.Algebra.Order.Field.Basic
import Mathlib.Tactic.Linarith
import Mathlib.Tactic.NormNum
/-! Helper lemmas for `RunIfOutOfBounds` over a linearly ordered field (C13). -/
namespace Bt.Stack

variable {K : Type} [Field K] [LinearOrder K] [IsStrictOrderedRing K]

theorem absA_eq_abs (x : K) : absA x = |x| := by
  unfold absA
  split
  · rename_i h; rw [abs_of_neg h]
  · rename_i h; rw [abs_of_nonneg (not_lt.mp h)]

theorem eqZ_iff (t : K) : eqZ t = true ↔ t = 0 := by
  unfold eqZ
  simp only [Bool.and_eq_true, Bool.not_eq_eq_eq_not, Bool.not_true, decide_eq_false_iff_not, not_lt]
  constructor
  · rintro ⟨h1, h2⟩; exact le_antisymm h2 h1
  · rintro rfl; exact ⟨le_refl _, le_refl _⟩

/-- the relative deviation the property speaks of -/
def relDev (w t : K) : K := |w - t| / |t|

theorem deviates_nonzero (tol : K) (ieee : Bool) (w t : K) (ht : t ≠ 0) :
    deviates tol ieee w t = .ok (decide (tol < relDev w t)) := by
  have hz : eqZ t = false := by
    cases h : eqZ t with
    | false => rfl
    | true => exact absurd ((eqZ_iff t).mp h) ht
  simp only [deviates, hz, Bool.false_eq_true, ↓reduceIte, absA_eq_abs, abs_div, relDev]
  congr

/-- some child named in the targets is off by more than the tolerance -/
def SomeOff (tol : K) (targets : List (String × K)) (kids : List (Kid K)) : Prop :=
  ∃ k ∈ kids, ∃ t, wget k.name targets = some t ∧ tol < relDev k.weight t

/-- no target of a held child is zero -/
def TargetsNonzero (targets : List (String × K)) (kids : List (Kid K)) : Prop :=
  ∀ k ∈ kids, ∀ t, wget k.name targets = some t → t ≠ 0

theorem oobKids_spec (tol : K) (np : Bool) (targets : List (String × K)) (kids : List (Kid K))
    (hnz : TargetsNonzero targets kids) :
    ∃ b, oobKids tol np targets kids = .ok b ∧ (b = true ↔ SomeOff tol targets kids) := by
  induction kids with
  | nil => exact ⟨false, rfl, by simp [SomeOff]⟩
  | cons k ks ih =>
    have hnz' : TargetsNonzero targets ks := fun x hx => hnz x (List.mem_cons_of_mem _ hx)
    obtain ⟨b, hb, hiff⟩ := ih hnz'
    cases hw : wget k.name targets with
    | none =>
      refine ⟨b, by simp [oobKids, hw, hb], ?_⟩
      rw [hiff]
      constructor
      · rintro ⟨x, hx, t, ht, hd⟩; exact ⟨x, List.mem_cons_of_mem _ hx, t, ht, hd⟩
      · rintro ⟨x, hx, t, ht, hd⟩
        rcases List.mem_cons.mp hx with rfl | hx
        · rw [hw] at ht; cases ht
        · exact ⟨x, hx, t, ht, hd⟩
    | some t =>
      have ht0 := hnz k List.mem_cons_self t hw
      by_cases hd : tol < relDev k.weight t
      · refine ⟨true, by simp [oobKids, hw, deviates_nonzero _ _ _ _ ht0, hd], ?_⟩
        simp only [true_iff]
        exact ⟨k, List.mem_cons_self, t, hw, hd⟩
      · refine ⟨b, by simp [oobKids, hw, deviates_nonzero _ _ _ _ ht0, hd, hb], ?_⟩
        rw [hiff]
        constructor
        · rintro ⟨x, hx, t', ht', hd'⟩; exact ⟨x, List.mem_cons_of_mem _ hx, t', ht', hd'⟩
        · rintro ⟨x, hx, t', ht', hd'⟩
          rcases List.mem_cons.mp hx with rfl | hx
          · rw [hw] at ht'; cases ht'; exact absurd hd' hd
          · exact ⟨x, hx, t', ht', hd'⟩

/-! a concrete input over ℚ used by the non-vacuity examples and the finding's witness -/
namespace OobExample
def exTemp : Dict ℚ := [("weights", .dict false [("a", 1 / 2)])]
def exKids : List (Kid ℚ) := [⟨"a", 3 / 5, true⟩, ⟨"b", 1 / 5, true⟩]

theorem exTemp_entries : dget "weights" exTemp = some (.dict false [("a", 1 / 2)]) ∧ dget "cash" exTemp = none := by
  simp [exTemp, dget]

theorem exKids_nonzero : TargetsNonzero [("a", (1 / 2 : ℚ))] exKids := by
  intro k hk t ht
  simp only [exKids, List.mem_cons, List.not_mem_nil, or_false] at hk
  rcases hk with rfl | rfl <;> simp [wget] at ht
  subst ht; norm_num

theorem exKids_off : SomeOff (1 / 10 : ℚ) [("a", 1 / 2)] exKids :=
  ⟨⟨"a", 3 / 5, true⟩, by simp [exKids], 1 / 2, by simp [wget], by norm_num [relDev]⟩

theorem exKids_not_off : ¬ SomeOff (1 / 2 : ℚ) [("a", 1 / 2)] exKids := by
  rintro ⟨k, hk, t, ht, hd⟩
  simp only [exKids, List.mem_cons, List.not_mem_nil, or_false] at hk
  rcases hk with rfl | rfl <;> simp [wget] at ht
  subst ht; norm_num [relDev] at hd
end OobExample

end Bt.Stack
