import Bt.Proofs.Program
import Bt.Props.C08
import Bt.Proofs.FlagsEval
/-! Concrete programs over `Rat` for the `example`s of `Bt.Props.C04_prog`, `C09_prog`, `C16_prog`:
    fresh trees as `setup` leaves them (clocks unset, price = PAR, all rows zero), four rows of data
    (row 0 the synthetic one), gates `[false, true, false, true]` (a scheduler that is silent on the synthetic row
    and fires on rows 1 and 3). -/
namespace Bt.PProg
open Bt Bt.Prog

abbrev cfgE : Cfg Rat := Bt.C08.cfgQ

/-- a plain security over four rows with the given price column -/
def secE (nm : String) (ps : List (Option Rat)) : SecData Rat :=
  { name := nm, kind := .plain, fixedIncome := false, integer := false, bidofferSet := false, mult := 1,
    now := none, price := none, value := 0, notl := 0, weight := 0, position := 0, lastPos := 0,
    outlayAcc := 0, bidoffer := some 0, bidofferPaid := 0, capital := 0, coupon := 0, holdingCost := 0,
    needupdate := true, prices := ps, bidoffers := [], coupons := [], costLong := none, costShort := none,
    rValue := [0, 0, 0, 0], rPosition := [0, 0, 0, 0], rNotl := [0, 0, 0, 0], rOutlay := [0, 0, 0, 0],
    rBidofferPaid := [0, 0, 0, 0], rCoupon := [0, 0, 0, 0], rHolding := [0, 0, 0, 0] }

/-- a strategy fresh from `setup` -/
def stratE (nm : String) (paper : Bool) : StratData Rat :=
  { name := nm, fixedIncome := false, bidofferSet := false, paperTrade := paper, paperPx := 100,
    comm := fun _ _ => 0, now := none, capital := 0, price := 100, value := 0, notl := 0, weight := 0,
    netFlows := 0, lastValue := 0, lastNotl := 0, lastPrice := 100, lastFee := 0, bidofferPaid := 0,
    bankrupt := false, rPrice := [0, 0, 0, 0], rValue := [0, 0, 0, 0], rNotl := [0, 0, 0, 0],
    rCash := [0, 0, 0, 0], rFees := [0, 0, 0, 0], rFlows := [0, 0, 0, 0], rBidofferPaid := [0, 0, 0, 0] }

/-! #### a flat program: root over `x`, `y`; `[RunPeriod, SelectAll, WeighEqually, Rebalance]` -/

def xE : SecData Rat := secE "x" [none, some 10, some 11, some 12]
def yE : SecData Rat := secE "y" [none, some 20, some 19, some 21]

/-- data set A -/
def wEA : World Rat := ⟨.strat (stratE "root" false) [.sec xE, .sec yE], false⟩
/-- data set B: as A on rows 0-2, different on row 3 (and one row longer) -/
def wEB : World Rat :=
  ⟨.strat (stratE "root" false) [.sec (secE "x" [none, some 10, some 11, some 6, some 1]),
    .sec (secE "y" [none, some 20, some 19, some 42])], false⟩

def progE : Prog Rat :=
  { gate := [false, true, false, true], ucols := [0, 1], sel := .all false false, wgh := .equally }

def treeE : ProgTree Rat := .node progE [none, none]

/-! #### a nested program: root over the sub-strategy `sub` (over `x`, `y`) and the security `z` -/

def zE : SecData Rat := secE "z" [none, some 50, some 50, some 55]

/-- the sub-strategy's definition as its own root: its shadow copy after `setup`, before funding -/
def wSubE : World Rat := ⟨.strat (stratE "sub" false) [.sec xE, .sec yE], false⟩

/-- the parent tree: the real child is paper-traded (its price is the shadow copy's) -/
def wParE : World Rat :=
  ⟨.strat (stratE "root" false) [.strat (stratE "sub" true) [.sec xE, .sec yE], .sec zE], false⟩

/-- the sub-strategy: `SelectThese [y, x]`, `WeighSpecified {x: 1/4, y: 3/4}` -/
def progSubE : Prog Rat :=
  { gate := [false, true, false, true], ucols := [0, 1], sel := .these [1, 0] false false,
    wgh := .specified [(0, 1/4), (1, 3/4)] }

def treeSubE : ProgTree Rat := .node progSubE [none, none]

/-- the parent: `SelectAll` over (sub, z), `WeighEqually`, on rows 1 and 3 -/
def progParE : Prog Rat :=
  { gate := [false, true, false, true], ucols := [0, 1], sel := .all false false, wgh := .equally }

def treeParE : ProgTree Rat := .node progParE [some treeSubE, none]

/-- the sub-strategy's shadow copy as `setup` leaves it: the definition `wSubE`, funded with the code's 1 000 000 -/
def wSubF : World Rat :=
  match opAdjust wSubE [] 1000000 true true with
  | .ok w => w
  | .error _ => wSubE

theorem wSubF_funded : opAdjust wSubE [] 1000000 true true = .ok wSubF := rfl

/-- the stand-alone backtest of the sub-strategy's definition -/
def simSubE : Sim Rat := .mk wSubE treeSubE []

/-- the parent's backtest after `setup`: its tree, its programs, and the funded shadow copy of `sub` at path `[0]` -/
def simParE : Sim Rat := .mk wParE treeParE [([0], .mk wSubF treeSubE [])]

/-- recorded price series of the strategy at `path` -/
def rPriceAt (w : World Rat) (path : List Nat) : List Rat :=
  match w.root.get? path with
  | some (.strat sd _) => sd.rPrice
  | _ => []

/-! #### a levered program that goes bankrupt: 300 % of the portfolio in `x` on row 1, `x` falls from 10 to 2 on row 2 -/

def wLevE : World Rat :=
  ⟨.strat (stratE "root" false) [.sec (secE "x" [none, some 10, some 2, some 2])], false⟩

def progLevE : Prog Rat :=
  { gate := [false, true, false, true], ucols := [0], sel := .these [0] false false, wgh := .specified [(0, 3)] }

def treeLevE : ProgTree Rat := .node progLevE [none]

/-- a program that would raise whenever its gate opens (it addresses a path that is no strategy) -/
def treeBadE : ProgTree Rat := .node progLevE [some (.node progE [])]

/-! #### reading off evaluated results -/

/-- `x` raised `e` -/
def raisedE {α : Type} (x : Except Err α) (e : Err) : Bool :=
  match x with
  | .error e' => e' == e
  | .ok _ => false

theorem raisedE_sound {α : Type} {x : Except Err α} {e : Err} (h : raisedE x e = true) : x = .error e := by
  cases x with
  | error e' => simp only [raisedE] at h; rw [eq_of_beq h]
  | ok a => cases h

end Bt.PProg
