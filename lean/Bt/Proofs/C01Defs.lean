import Bt.Proofs.UpdInv
import Bt.Proofs.StratLemmas
/-! Definitions used in the statements of the C01 theorems. -/
namespace Bt
set_option linter.unusedSectionVars false
variable {K : Type} [Field K] [LinearOrder K] [IsStrictOrderedRing K] [HasFloor K]

/-- `Σ f(k')` over the updated children `k'` whose input child `k` was visited by the loop of
    `StrategyBase.update` (a security with `needupdate = false` is skipped). -/
def visSum (f : Node K → K) : List (Node K) → List (Node K) → K
  | k :: ks, k' :: ks' => (if k.skipped then 0 else f k') + visSum f ks ks'
  | _, _ => 0

/-- plain sum over a child list -/
def sumOf (f : Node K → K) : List (Node K) → K
  | [] => 0
  | k :: ks => f k + sumOf f ks

/-- the cash parked on the security children (coupons less holding costs), swept on a new date -/
def parkedCash : List (Node K) → K
  | [] => 0
  | .sec s :: ks => s.capital + parkedCash ks
  | .strat _ _ :: ks => parkedCash ks

theorem KidStep.acc_eq {cfg : Cfg K} {d : Nat} {newpt bo : Bool} {k k' : Node K} {acc acc1 : Acc K}
    (h : KidStep cfg d newpt bo k acc k' acc1) :
    acc1.val = acc.val + (if k.skipped then 0 else k'.value) ∧
    acc1.notl = acc.notl + (if k.skipped then 0 else |k'.notl|) ∧
    acc1.bo = (if bo then acc.bo + (if k.skipped then 0 else k'.bidofferPaid) else acc.bo) ∧
    acc1.coupons = acc.coupons + (if newpt then parkedCash [k] else 0) := by
  cases h with
  | skip s acc hn =>
    simp [Node.skipped, hn, sweepSec_coupons, parkedCash]
  | sec s acc s1 hn hs =>
    simp [Node.skipped, hn, sweepSec_coupons, parkedCash, accAdd, absA_eq, Node.value, Node.notl,
      Node.bidofferPaid]
  | strat sd kk acc k1 hk =>
    simp [Node.skipped, parkedCash, accAdd, absA_eq]

theorem parkedCash_cons (k : Node K) (ks : List (Node K)) :
    parkedCash (k :: ks) = parkedCash [k] + parkedCash ks := by
  cases k <;> simp [parkedCash]

theorem updKids_acc_aux {cfg : Cfg K} {d : Nat} {newpt bo : Bool} :
    ∀ (kids : List (Node K)) (acc : Acc K) (kids' : List (Node K)) (acc' : Acc K),
    updKids cfg d newpt bo kids acc = .ok (kids', acc') →
    kids'.length = kids.length ∧
    acc'.val = acc.val + visSum Node.value kids kids' ∧
    acc'.notl = acc.notl + visSum (fun k => |k.notl|) kids kids' ∧
    acc'.bo = (if bo then acc.bo + visSum Node.bidofferPaid kids kids' else acc.bo) ∧
    acc'.coupons = acc.coupons + (if newpt then parkedCash kids else 0) := by
  intro kids
  induction kids with
  | nil =>
    intro acc kids' acc' h
    have := updKids_nil_inv h
    cases this
    simp [visSum, parkedCash]
  | cons k ks ih =>
    intro acc kids' acc' h
    obtain ⟨k', ks', acc1, hout, hrest, hstep⟩ := updKids_cons_inv h
    simp only at hout hrest
    subst hout
    obtain ⟨hl, hv, hn, hb, hc⟩ := ih acc1 ks' acc' hrest
    obtain ⟨sv, sn, sb, sc⟩ := hstep.acc_eq
    refine ⟨by simp [hl], ?_, ?_, ?_, ?_⟩
    · rw [hv, sv]; simp only [visSum]; ring
    · rw [hn, sn]; simp only [visSum]; ring
    · rw [hb, sb]; cases bo <;> simp [visSum]; ring
    · rw [hc, sc, parkedCash_cons k ks]; cases newpt <;> simp; ring

/-! ### relations between the tree before and after an update, node by node -/
mutual
/-- `P` holds between every strategy and its updated self (with both child lists), `S` between every
    security and its updated self; the two trees have the same shape. -/
def TreeRel (P : StratData K → List (Node K) → StratData K → List (Node K) → Prop)
    (S : SecData K → SecData K → Prop) : Node K → Node K → Prop
  | .strat sd kids, .strat sd' kids' => P sd kids sd' kids' ∧ TreeRelKids P S kids kids'
  | .sec s, .sec s' => S s s'
  | _, _ => False
def TreeRelKids (P : StratData K → List (Node K) → StratData K → List (Node K) → Prop)
    (S : SecData K → SecData K → Prop) : List (Node K) → List (Node K) → Prop
  | k :: ks, k' :: ks' => TreeRel P S k k' ∧ TreeRelKids P S ks ks'
  | [], [] => True
  | _, _ => False
end

section TreeRel
variable {P : StratData K → List (Node K) → StratData K → List (Node K) → Prop}
  {S : SecData K → SecData K → Prop}

theorem TreeRel.reweigh (hPw : ∀ sd kids sd' kids' w, P sd kids sd' kids' → P sd kids { sd' with weight := w } kids')
    (hSw : ∀ s s' w, S s s' → S s { s' with weight := w })
    (cfg : Cfg K) (fi : Bool) (val notl : K) {k k' : Node K} (h : TreeRel P S k k') :
    TreeRel P S k (reweigh cfg fi val notl k') := by
  unfold Bt.reweigh
  split
  · exact h
  · cases k with
    | sec s =>
      cases k' with
      | sec s' => simp only [TreeRel, Node.setWeight] at h ⊢; exact hSw _ _ _ h
      | strat sd' kids' => simp [TreeRel] at h
    | strat sd kids =>
      cases k' with
      | sec s' => simp [TreeRel] at h
      | strat sd' kids' =>
        simp only [TreeRel, Node.setWeight] at h ⊢
        exact ⟨hPw _ _ _ _ _ h.1, h.2⟩

theorem TreeRelKids.reweigh (hPw : ∀ sd kids sd' kids' w, P sd kids sd' kids' → P sd kids { sd' with weight := w } kids')
    (hSw : ∀ s s' w, S s s' → S s { s' with weight := w })
    (cfg : Cfg K) (fi : Bool) (val notl : K) :
    ∀ (ks ks' : List (Node K)), TreeRelKids P S ks ks' → TreeRelKids P S ks (kidsWeights cfg fi val notl ks') := by
  intro ks
  induction ks with
  | nil =>
    intro ks' h
    cases ks' with
    | nil => simp [kidsWeights, TreeRelKids]
    | cons k' ks' => simp [TreeRelKids] at h
  | cons k ks ih =>
    intro ks' h
    cases ks' with
    | nil => simp [TreeRelKids] at h
    | cons k' ks' =>
      rw [kidsWeights_eq_map, List.map_cons]
      simp only [TreeRelKids] at h ⊢
      exact ⟨TreeRel.reweigh hPw hSw cfg fi val notl h.1, ih ks' h.2⟩

/-- The one induction over `updNode` / `updKids`: whatever one call of `update` establishes at a strategy
    (`hP`) and at a security (`hSv` visited, `hSk` skipped) holds at every node of the tree. -/
theorem updNode_treeRel {cfg : Cfg K} {d : Nat}
    (hP : ∀ sd kids sd' kids', updNode cfg d (.strat sd kids) = .ok (.strat sd' kids') → P sd kids sd' kids')
    (hPw : ∀ sd kids sd' kids' w, P sd kids sd' kids' → P sd kids { sd' with weight := w } kids')
    (hSv : ∀ newpt s acc s', secUpdate cfg d (sweepSec newpt s acc).1 = .ok s' → S s s')
    (hSk : ∀ newpt s acc, s.needupdate = false → S s (sweepSec newpt s acc).1)
    (hSw : ∀ s s' w, S s s' → S s { s' with weight := w }) :
    (∀ n n', updNode cfg d n = .ok n' → TreeRel P S n n') ∧
    (∀ ks newpt bo acc out, updKids cfg d newpt bo ks acc = .ok out → TreeRelKids P S ks out.1) := by
  apply Node.induct
  · intro s n' h
    obtain ⟨s', hs, rfl⟩ := updNode_sec_inv h
    simp only [TreeRel]
    exact hSv false s ⟨0, 0, 0, 0⟩ s' hs
  · intro sd kids ih n' h
    obtain ⟨kids1, acc, sd3, hk, hw, rfl⟩ := updNode_strat_inv h
    simp only [TreeRel]
    exact ⟨hP _ _ _ _ h, TreeRelKids.reweigh hPw hSw _ _ _ _ _ _ (ih _ _ _ _ hk)⟩
  · intro newpt bo acc out h
    cases updKids_nil_inv h
    simp [TreeRelKids]
  · intro k ks ihk ihks newpt bo acc out h
    obtain ⟨k', ks', acc1, hout, hrest, hstep⟩ := updKids_cons_inv h
    rw [hout]
    simp only [TreeRelKids]
    refine ⟨?_, ihks _ _ _ _ hrest⟩
    cases hstep with
    | skip s acc hn => simp only [TreeRel]; exact hSk _ _ _ hn
    | sec s acc s1 hn hs => simp only [TreeRel]; exact hSv _ _ _ _ hs
    | strat sd kk acc k1 hk => exact ihk _ hk

end TreeRel

end Bt
