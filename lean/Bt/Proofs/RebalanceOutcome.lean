import Bt.Proofs.RebalanceBounds
/-! C06 with costs / at any path, part 6: the outcome of `Rebalance` after the closing update, for a strategy
    (at any path of any tree) whose children are securities. -/
set_option linter.unusedSectionVars false
namespace Bt.P06
open Bt Bt.Rebal

variable {K : Type} [Field K] [LinearOrder K] [IsStrictOrderedRing K] [HasFloor K]

/-- the root's bankruptcy step fires in `root.update(d)` of `w3`: a market-value root that is not bankrupt yet
    adds up a negative total (the whole tree is then liquidated) -/
def BankruptStep (cfg : Cfg K) (d : Nat) (w3 : World K) : Prop :=
  ∃ sdr kidsr, w3.root = .strat sdr kidsr ∧ sdr.bankrupt = false ∧ sdr.fixedIncome = false ∧
    ∃ kids1 acc, updKids cfg d (stratDateChange d sdr).2 (stratDateChange d sdr).1.bidofferSet kidsr
      ⟨(stratDateChange d sdr).1.capital, 0, 0, 0⟩ = .ok (kids1, acc) ∧ acc.val + acc.coupons < 0

/-- the cost booked in the call for the trade that took child `s` to `t`: growth of the spread paid on the
    security + the commission booked on the strategy -/
def childCost (comm : K → K → K) (s t : SecData K) : K :=
  (t.bidofferPaid - s.bidofferPaid) + feeBetween comm s t

/-- what `Rebalance` did to child `i` (`s` before, `t` after the closing update, `q` the quantity effectively
    traded, `tot` the total the strategy's closing update added up) -/
structure ChildOut (cfg : Cfg K) (comm : K → K → K) (V : K) (T : List (Nat × K)) (cash : Option K) (tot : K)
    (i : Nat) (s t : SecData K) (q : K) : Prop where
  pos : t.position = s.position + q
  pxe : Rebal.px t = Rebal.px s
  mult : t.mult = s.mult
  val : t.value = t.position * px t * t.mult
  bop : t.bidofferPaid = s.bidofferPaid + spreadOf cfg s q
  wgt : t.needupdate = true → t.weight = if isZero cfg.tol tot then 0 else t.value / tot
  job : (i ∉ T.map (·.1) ∧ PlanSized cfg comm V s none q) ∨
    ∃ wt, (i, wt) ∈ T ∧ PlanSized cfg comm V s (some (wt * cashScale cash)) q

theorem ChildOut.value_eq {cfg : Cfg K} {comm : K → K → K} {V : K} {T : List (Nat × K)} {cash : Option K}
    {tot : K} {i : Nat} {s t : SecData K} {q : K} (h : ChildOut cfg comm V T cash tot i s t q) :
    t.value = (s.position + q) * px s * s.mult := by
  rw [h.val, h.pos, h.pxe, h.mult]

theorem ChildOut.cost {cfg : Cfg K} {comm : K → K → K} {V : K} {T : List (Nat × K)} {cash : Option K}
    {tot : K} {i : Nat} {s t : SecData K} {q : K} (h : ChildOut cfg comm V T cash tot i s t q) :
    childCost comm s t = costOf cfg comm s q := by
  unfold childCost costOf feeBetween
  rw [h.bop, h.pos]
  have : s.position + q - s.position = q := by ring
  rw [this]; ring

/-- the job of a target is the rebalancing one -/
theorem ChildOut.target_job {cfg : Cfg K} {comm : K → K → K} {V : K} {T : List (Nat × K)} {cash : Option K}
    {tot : K} {i : Nat} {s t : SecData K} {q : K} (h : ChildOut cfg comm V T cash tot i s t q)
    (hnd : (T.map (·.1)).Nodup) (wt : K) (hi : (i, wt) ∈ T) :
    PlanSized cfg comm V s (some (wt * cashScale cash)) q := by
  rcases h.job with ⟨hni, _⟩ | ⟨wt', hi', hp⟩
  · exact absurd (List.mem_map.2 ⟨(i, wt), hi, rfl⟩) hni
  · have : wt' = wt := by
      by_contra hne
      -- two different pairs with the same index
      have key : ∀ (L : List (Nat × K)), (L.map (·.1)).Nodup → (i, wt) ∈ L → (i, wt') ∈ L → wt' = wt := by
        intro L
        induction L with
        | nil => intro _ h1; cases h1
        | cons x L ih =>
          intro hn h1 h2
          simp only [List.map_cons] at hn
          obtain ⟨hx, hn'⟩ := List.nodup_cons.1 hn
          rcases List.mem_cons.1 h1 with e1 | m1
          · rcases List.mem_cons.1 h2 with e2 | m2
            · rw [← e1] at e2; exact (Prod.mk.inj e2).2
            · exact absurd (List.mem_map.2 ⟨(i, wt'), m2, by rw [← e1]⟩) hx
          · rcases List.mem_cons.1 h2 with e2 | m2
            · exact absurd (List.mem_map.2 ⟨(i, wt), m1, by rw [← e2]⟩) hx
            · exact ih hn' m1 m2
      exact hne (key T hnd hi hi')
    rw [← this]; exact hp

/-- **`Rebalance` with costs, at any path: the outcome.**  The market-value strategy `(sd, ss)` found at `p`
    of a tree that is not stale, standing on `d` like the root, whose children are securities `allocate`
    reaches without a refresh (`RSec`; whole or fractional units, any spread, any commission function), distinct
    target indices.  If the algo does not raise: the final world is `root.update(d)` of the tree with only that
    strategy replaced (`PW root p sd3 ss3`: the rest of the tree is untouched before the closing update, which
    then refreshes the ancestors' cached totals), and unless the root's bankruptcy step fires in that update,
    * the world is not stale and the strategy at `p` still has security children, one for one;
    * the fees of the date grew by the children's commissions;
    * `cash + Σ child values + fees booked + spread booked = cash + Σ position·price·mult` before: the total is
      the old total less the costs booked in the call;
    * the strategy's value is that total (up to the `TOL` write guard);
    * every child is described by `ChildOut`. -/
theorem rebalance_secs_final (cfg : Cfg K) (d : Nat) (root : Node K) (p : List Nat) (sd : StratData K)
    (ss : List (SecData K)) (T : List (Nat × K)) (cash notional : Option K) (w' : World K)
    (htol : 0 < cfg.tol) (hv : ∃ x, root.get? p = some x)
    (hrn : (PW root p sd (ss.map Node.sec)).root.now = some d)
    (hnow : sd.now = some d) (hfi : sd.fixedIncome = false) (hsec : ∀ s ∈ ss, RSec d s)
    (hnd : (T.map (·.1)).Nodup) (hin : ∀ i ∈ T.map (·.1), i < ss.length)
    (h : algoRebalance cfg (PW root p sd (ss.map Node.sec)) p T cash notional = .ok w') :
    ∃ (sd3 : StratData K) (ss3 : List (SecData K)),
      updRoot cfg d (PW root p sd3 (ss3.map Node.sec)) = .ok w' ∧ sd3 = withCF sd sd3.capital sd3.lastFee ∧
      ss3.length = ss.length ∧ (∀ t ∈ ss3, UpdReady d t) ∧
      (BankruptStep cfg d (PW root p sd3 (ss3.map Node.sec)) ∨
       (w'.stale = false ∧ ∃ (sdF : StratData K) (ssF : List (SecData K)),
        w'.root.get? p = some (.strat sdF (ssF.map Node.sec)) ∧ ssF.length = ss.length ∧
        sdF.lastFee = sd.lastFee + (List.zipWith (feeBetween sd.comm) ss ssF).sum ∧
        sdF.capital + (ssF.map (·.value)).sum + (sdF.lastFee - sd.lastFee) + (boSumL ssF - boSumL ss) =
          sd.capital + worthSum ss ∧
        (sdF.value = sdF.capital + (ssF.map (·.value)).sum ∨
          (sdF.value = sd.value ∧
            isZero cfg.tol (sd.value - (sdF.capital + (ssF.map (·.value)).sum)) = true)) ∧
        (∀ (i : Nat) (s : SecData K), ss[i]? = some s → ∃ t q, ssF[i]? = some t ∧
          ChildOut cfg sd.comm sd.value T cash (sdF.capital + (ssF.map (·.value)).sum) i s t q))) := by
  obtain ⟨sd3, ss3, hupd, l3, e3, hfee, hcons, hch⟩ := algoRebalance_secs cfg d root p sd ss T cash notional w'
    htol hv hrn hnow hfi hsec hnd hin h
  have hr3 : ∀ t ∈ ss3, UpdReady d t := by
    intro t ht
    obtain ⟨i, hi⟩ := List.mem_iff_getElem?.1 ht
    have hlt : i < ss.length := by rw [← l3]; exact lt_of_getElem? hi
    obtain ⟨t', _, g, hmv, _⟩ := hch i ss[i] (List.getElem?_eq_getElem hlt)
    rw [g] at hi; cases hi
    exact hmv.ready
  refine ⟨sd3, ss3, hupd, e3, l3, hr3, ?_⟩
  have hnow3 : sd3.now = some d := by rw [e3]; exact hnow
  have hfi3 : sd3.fixedIncome = false := by rw [e3]; exact hfi
  have hval3 : sd3.value = sd.value := by rw [e3]; rfl
  rcases updRoot_PW_secs cfg d root p sd3 ss3 w' hv hnow3 hr3 hupd with
    ⟨hst, sdF, ssF, g, r2, r3, r4, r5, r6, r7⟩ | hb
  · right
    have hvals : (ssF.map (·.value)).sum = worthSum ss3 := by
      unfold worthSum
      exact sum_map_congr_idx worth (·.value) ss3 ssF r2 (fun i a ha => by
        obtain ⟨t, ht, hm, _⟩ := r7 i a ha
        exact ⟨t, ht, hm.2.2.2⟩)
    have hbos : boSumL ssF = boSumL ss3 := by
      unfold boSumL
      exact sum_map_congr_idx (·.bidofferPaid) (·.bidofferPaid) ss3 ssF r2 (fun i a ha => by
        obtain ⟨t, ht, _, hb, _⟩ := r7 i a ha
        exact ⟨t, ht, hb⟩)
    have hzip : List.zipWith (feeBetween sd.comm) ss ss3 = List.zipWith (feeBetween sd.comm) ss ssF := by
      apply list_eq_zipWith
      · exact zipWith_length' _ ss ss3 l3
      · rw [r2, l3]
      · intro i s t hs ht
        have hlt : i < ss3.length := by rw [l3]; exact lt_of_getElem? hs
        obtain ⟨t', ht', hm, _⟩ := r7 i ss3[i] (List.getElem?_eq_getElem hlt)
        rw [ht'] at ht; cases ht
        rw [zipWith_get _ ss ss3 i s ss3[i] hs (List.getElem?_eq_getElem hlt)]
        simp only [feeBetween, hm.1]
    have htot : sd3.capital + worthSum ss3 = sdF.capital + (ssF.map (·.value)).sum := by rw [r3, hvals]
    refine ⟨hst, sdF, ssF, g, by rw [r2, l3], ?_, ?_, ?_, ?_⟩
    · rw [r4, hfee, hzip]
    · rw [r3, r4, hvals, hbos]; linear_combination hcons
    · rw [← htot, ← hval3]; exact r6
    · intro i s hs
      obtain ⟨t3, q, g3, hmv, hjob⟩ := hch i s hs
      obtain ⟨t, ht, hm, hb, hw⟩ := r7 i t3 g3
      refine ⟨t, q, ht, ⟨by rw [hm.1, hmv.pos], hm.2.1.trans hmv.px, hm.2.2.1.trans hmv.mult, hm.value_eq,
        by rw [hb, hmv.bop], ?_, hjob⟩⟩
      intro hnu
      rw [← htot]
      exact hw hfi3 hnu
  · left
    exact hb

end Bt.P06
