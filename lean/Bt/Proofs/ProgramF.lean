import Bt.Algos.ProgramF
import Bt.Algos.ProgramX
import Bt.Proofs.SecUpdate
import Bt.Proofs.Program
import Bt.Props.C14
/-! Helper lemmas for the frame-driven pieces of the extended whole-program model (`Bt/Algos/ProgramF.lean`):
    `CloseDead` (`closeDeadLoop` / `closeDead`) is a sequence of public calls, commutes with truncating the data after `t`
    at a clock `≤ t`, keeps every price column; the selection steps `SelectWhere`, `SetStat + SelectN`. -/
set_option linter.unusedSectionVars false
set_option linter.unusedVariables false
namespace Bt.PProgF
open Bt Bt.P08 Bt.P04 Bt.Prog Bt.PProg Bt.Select

section dead
variable {K : Type} [Field K] [LinearOrder K] [IsStrictOrderedRing K] [HasFloor K]
variable {cfg : Cfg K}

/-- the world part of a (world, weights) state, truncated -/
def truncFst (t : Nat) (s : World K × List (Nat × K)) : World K × List (Nat × K) := (s.1.trunc t, s.2)

theorem closeDeadLoop_nil (path : List Nat) (r : Nat) (s : World K × List (Nat × K)) :
    closeDeadLoop cfg path r [] s = .ok s := by
  rw [closeDeadLoop]; rfl

theorem closeDeadLoop_cons (path : List Nat) (r i : Nat) (rest : List Nat) (w : World K) (ws : List (Nat × K)) :
    closeDeadLoop cfg path r (i :: rest) (w, ws) =
      match w.root.get? (path ++ [i]) with
      | some k =>
        if isDead (uniPrice r k) then
          (opClose cfg w path i true).bind fun w1 => closeDeadLoop cfg path r rest (w1, dropKey i ws)
        else closeDeadLoop cfg path r rest (w, ws)
      | none => throw Err.badPath := by
  rw [closeDeadLoop]
  cases w.root.get? (path ++ [i]) <;> rfl

/-- `CloseDead` touches the tree through `target.close(c)` only: a sequence of public calls -/
theorem closeDeadLoop_runC {C : Nat → Prop} (path : List Nat) (r : Nat) :
    ∀ (is : List Nat) (w : World K) (ws : List (Nat × K)) (w' : World K) (ws' : List (Nat × K)),
      closeDeadLoop cfg path r is (w, ws) = .ok (w', ws') → RunC cfg C w w'
  | [], w, ws, w', ws', h => by rw [closeDeadLoop_nil] at h; cases h; exact .nil _
  | i :: rest, w, ws, w', ws', h => by
    rw [closeDeadLoop_cons] at h
    split at h
    · split at h
      · obtain ⟨w1, h1, h⟩ := bind_eq_ok h
        exact .cons (.close _ _ _ h1) (closeDeadLoop_runC path r rest w1 _ w' ws' h)
      · exact closeDeadLoop_runC path r rest w ws w' ws' h
    · cases h

theorem closeDead_runC {C : Nat → Prop} {path : List Nat} {w w' : World K} {ws ws' : List (Nat × K)}
    (h : closeDead cfg path w ws = .ok (w', ws')) : RunC cfg C w w' := by
  unfold closeDead at h
  split at h
  · split at h
    · exact closeDeadLoop_runC path _ _ w ws w' ws' h
    · cases h
  · cases h

/-- the universe price of a child at a row `r ≤ t` is the same on the data truncated after `t` -/
theorem uniPrice_trunc {r t : Nat} (hr : r ≤ t) (k : Node K) : uniPrice r (k.trunc t) = uniPrice r k := by
  cases k with
  | sec s => exact cell_take s.prices hr
  | strat sd ks => rfl

theorem closeDeadLoop_trunc (path : List Nat) {r t : Nat} (hr : r ≤ t) :
    ∀ (is : List Nat) (w : World K), ClockLE t w → ∀ (ws : List (Nat × K)),
      closeDeadLoop cfg path r is (w.trunc t, ws) = (closeDeadLoop cfg path r is (w, ws)).map (truncFst t)
  | [], w, _, ws => by rw [closeDeadLoop_nil, closeDeadLoop_nil]; rfl
  | i :: rest, w, hw, ws => by
    rw [closeDeadLoop_cons, closeDeadLoop_cons, world_trunc_root, get?_trunc]
    cases hc : w.root.get? (path ++ [i]) with
    | none => rfl
    | some k =>
      simp only [Option.map_some, uniPrice_trunc hr]
      refine ite_comm Iff.rfl (Except.map (truncFst t)) ?_ (closeDeadLoop_trunc path hr rest w hw ws)
      exact bind_comm (World.trunc t) (truncFst t) (opClose_trunc hw _ _ _) fun w1 h1 =>
        closeDeadLoop_trunc path hr rest w1 (opClose_keep h1 hw) _

/-- the clock of the strategy found at `path` lies where all clocks of the tree lie -/
theorem nowsIn_get? {P : Nat → Prop} : ∀ (path : List Nat) (n : Node K) (sd : StratData K) (ks : List (Node K)),
    NowsIn P n → n.get? path = some (.strat sd ks) → ∀ d, sd.now = some d → P d
  | [], n, sd, ks, hn, h => by
    rw [Rebal.get?_nil] at h
    cases h
    simp only [NowsIn] at hn
    exact hn.1
  | i :: rest, .sec s, sd, ks, hn, h => by rw [get?_sec_cons] at h; cases h
  | i :: rest, .strat sdn kk, sd, ks, hn, h => by
    rw [get?_strat_cons] at h
    simp only [NowsIn] at hn
    cases hk : kk[i]? with
    | none => rw [hk] at h; cases h
    | some k =>
      rw [hk] at h
      exact nowsIn_get? rest k sd ks (nowsInL_getElem? kk i k hn.2 hk) h

/-- **`CloseDead` on data truncated after `t`, all clocks `≤ t`**: the price it tests is the one of row `target.now ≤ t` -/
theorem closeDead_trunc {t : Nat} (path : List Nat) {w : World K} (hw : ClockLE t w) (ws : List (Nat × K)) :
    closeDead cfg path (w.trunc t) ws = (closeDead cfg path w ws).map (truncFst t) := by
  unfold closeDead
  rw [world_trunc_root, get?_trunc]
  cases hg : w.root.get? path with
  | none => rfl
  | some n =>
    cases n with
    | sec s => rfl
    | strat sd kids =>
      simp only [Option.map_some, trunc_strat, truncL_length]
      cases hn : sd.now with
      | none => rfl
      | some r =>
        simp only
        exact closeDeadLoop_trunc path (nowsIn_get? path w.root sd kids hw.1 hg r hn) _ w hw ws

end dead
end Bt.PProgF

/-! ### `CloseDead`: which names leave `temp['weights']`, and what happens to the tree -/
namespace Bt.PProgF
open Bt Bt.P08 Bt.P04 Bt.Prog Bt.PProg Bt.Select

section prices
variable {K : Type} [Field K] [LinearOrder K] [IsStrictOrderedRing K] [HasFloor K]
variable {cfg : Cfg K}

/-- price columns are data: no step of the engine writes them -/
def SamePx (s s' : SecData K) : Prop := s'.prices = s.prices

theorem secTransactCore_prices {comm : K → K → K} {s : SecData K} {q : K} {custom : Option K}
    {r : SecData K × Option (Adj K)} (h : secTransactCore cfg comm s q custom = .ok r) : r.1.prices = s.prices := by
  unfold secTransactCore at h
  split at h
  · cases h; rfl
  · split at h
    · cases h
    · obtain ⟨⟨full, outlay, fee, bo⟩, _, h⟩ := bind_eq_ok h
      cases h; rfl

theorem pricePre (cfg : Cfg K) (C : Nat → Prop) : PreLaws cfg C SamePx (fun _ _ => True) where
  rsRefl _ := rfl
  rsTrans h1 h2 := Eq.trans h2 h1
  rdRefl _ := trivial
  rdTrans _ _ := trivial
  secUpdate _ h := (Bt.secUpdate_frame h).prices
  secTrade h := secTransactCore_prices h
  sweep np s acc := by unfold SamePx sweepSec; cases np <;> rfl
  secWeight _ _ := rfl
  dateChange _ _ := trivial
  capital _ _ := trivial
  write _ _ := trivial
  rows _ _ := trivial
  adjust _ _ := trivial
  stratWeight _ _ := trivial
  bankrupt _ := trivial

theorem priceLaws (cfg : Cfg K) (C : Nat → Prop) :
    Laws cfg C (fun a b => SamePx a b ∧ NowS C a b) (fun a b => True ∧ NowD C a b) :=
  (pricePre cfg C).withClock

/-- a relation lifted over the tree holds between the nodes found at the same path -/
theorem lift_get? {Rs : SecData K → SecData K → Prop} {Rd : StratData K → StratData K → Prop} :
    ∀ (p : List Nat) (n n' : Node K), Lift Rs Rd n n' → ∀ (m : Node K), n.get? p = some m →
      ∃ m', n'.get? p = some m' ∧ Lift Rs Rd m m'
  | [], n, n', hl, m, h => by
    rw [Rebal.get?_nil] at h
    cases h
    exact ⟨n', Rebal.get?_nil _, hl⟩
  | i :: rest, .sec s, n', hl, m, h => by rw [get?_sec_cons] at h; cases h
  | i :: rest, .strat sdn ks, .sec s', hl, m, h => by simp at hl
  | i :: rest, .strat sdn ks, .strat sdn' ks', hl, m, h => by
    simp only [lift_strat] at hl
    rw [get?_strat_cons] at h ⊢
    cases hk : ks[i]? with
    | none => rw [hk] at h; cases h
    | some k =>
      rw [hk] at h
      obtain ⟨k', hk', hlk⟩ := liftL_getElem? ks ks' i k hl.2 hk
      rw [hk']
      exact lift_get? rest k k' hlk m h

/-- **public calls keep the price column of every security** (found at the same place in the tree afterwards) -/
theorem runC_keeps_prices {w w' : World K} (h : RunC cfg (fun _ => True) w w') {p : List Nat} {s : SecData K}
    (hs : w.root.get? p = some (.sec s)) : ∃ s', w'.root.get? p = some (.sec s') ∧ s'.prices = s.prices := by
  have hl := (h.lift (priceLaws cfg _) (wok_true w)).1
  obtain ⟨m', hm', hlm⟩ := lift_get? p _ _ hl _ hs
  cases m' with
  | sec s' => simp only [lift_sec] at hlm; exact ⟨s', hm', hlm.1⟩
  | strat sd ks => simp at hlm

theorem opClose_keeps_prices {w w' : World K} {path : List Nat} {i : Nat} {u : Bool}
    (h : opClose cfg w path i u = .ok w') {p : List Nat} {s : SecData K} (hs : w.root.get? p = some (.sec s)) :
    ∃ s', w'.root.get? p = some (.sec s') ∧ s'.prices = s.prices :=
  runC_keeps_prices (.single (.close _ _ _ h)) hs

end prices

section weights
variable {K : Type} [Field K] [LinearOrder K] [IsStrictOrderedRing K] [HasFloor K]
variable {cfg : Cfg K}

theorem mem_dropKey {i : Nat} {ws : List (Nat × K)} {q : Nat × K} : q ∈ dropKey i ws ↔ q ∈ ws ∧ q.1 ≠ i := by
  unfold dropKey
  simp [List.mem_filter]

theorem dictGet_none_of_no_key : ∀ (ws : List (Nat × K)) (i : Nat), (∀ q ∈ ws, q.1 ≠ i) → Weigh.dictGet ws i = none
  | [], i, _ => rfl
  | (k, v) :: t, i, h => by
    have hk : k ≠ i := h (k, v) List.mem_cons_self
    simp only [Weigh.dictGet, hk, ↓reduceIte]
    exact dictGet_none_of_no_key t i fun q hq => h q (List.mem_cons_of_mem _ hq)

/-- **the loop of `CloseDead`**: (1) no security child of the list whose price at row `r` is `<= 0` keeps a weight;
    (2) nothing enters the weights; (3) a security child whose price is not `<= 0` keeps its entry -/
theorem closeDeadLoop_weights (path : List Nat) (r : Nat) :
    ∀ (is : List Nat) (w : World K) (ws : List (Nat × K)) (w' : World K) (ws' : List (Nat × K)),
      closeDeadLoop cfg path r is (w, ws) = .ok (w', ws') →
      (∀ i ∈ is, ∀ s, w.root.get? (path ++ [i]) = some (.sec s) → isDead (cell s.prices r) = true →
        Weigh.dictGet ws' i = none) ∧
      (∀ q ∈ ws', q ∈ ws) ∧
      (∀ q ∈ ws, ∀ s, w.root.get? (path ++ [q.1]) = some (.sec s) → isDead (cell s.prices r) = false → q ∈ ws')
  | [], w, ws, w', ws', h => by
    rw [closeDeadLoop_nil] at h
    cases h
    exact ⟨fun i hi => absurd hi List.not_mem_nil, fun q hq => hq, fun q hq _ _ _ => hq⟩
  | i :: rest, w, ws, w', ws', h => by
    rw [closeDeadLoop_cons] at h
    cases hk : w.root.get? (path ++ [i]) with
    | none => rw [hk] at h; cases h
    | some k =>
      rw [hk] at h
      simp only at h
      by_cases hd : isDead (uniPrice r k) = true
      · simp only [hd, ↓reduceIte] at h
        obtain ⟨w1, h1, h⟩ := bind_eq_ok h
        obtain ⟨ih1, ih2, ih3⟩ := closeDeadLoop_weights path r rest w1 _ w' ws' h
        refine ⟨?_, fun q hq => (mem_dropKey.1 (ih2 q hq)).1, ?_⟩
        · intro j hj s hs hds
          rcases List.mem_cons.1 hj with rfl | hjr
          · exact dictGet_none_of_no_key ws' j fun q hq => (mem_dropKey.1 (ih2 q hq)).2
          · obtain ⟨s1, hs1, hp1⟩ := opClose_keeps_prices h1 hs
            exact ih1 j hjr s1 hs1 (by rw [hp1]; exact hds)
        · intro q hq s hs hlive
          have hne : q.1 ≠ i := by
            intro e
            rw [e, hk] at hs
            cases hs
            simp only [uniPrice] at hd
            rw [hd] at hlive
            cases hlive
          obtain ⟨s1, hs1, hp1⟩ := opClose_keeps_prices h1 hs
          exact ih3 q (mem_dropKey.2 ⟨hq, hne⟩) s1 hs1 (by rw [hp1]; exact hlive)
      · simp only [hd, Bool.false_eq_true, ↓reduceIte] at h
        obtain ⟨ih1, ih2, ih3⟩ := closeDeadLoop_weights path r rest w ws w' ws' h
        refine ⟨?_, ih2, ih3⟩
        intro j hj s hs hds
        rcases List.mem_cons.1 hj with rfl | hjr
        · rw [hk] at hs
          cases hs
          exact absurd hds hd
        · exact ih1 j hjr s hs hds

/-- `target.close(c)` for the listed children, in order -/
def closeList (cfg : Cfg K) (path : List Nat) : List Nat → World K → Except Err (World K)
  | [], w => pure w
  | i :: rest, w => (opClose cfg w path i true).bind (closeList cfg path rest)

/-- child `i` of the strategy at `path` is a security whose price at row `r` is `<= 0` -/
def deadSec (w : World K) (path : List Nat) (r i : Nat) : Bool :=
  match w.root.get? (path ++ [i]) with
  | some (.sec s) => isDead (cell s.prices r)
  | _ => false

theorem deadSec_of_close {w w1 : World K} {path : List Nat} {j : Nat} (r : Nat)
    (h1 : opClose cfg w path j true = .ok w1) {i : Nat} {s : SecData K}
    (hs : w.root.get? (path ++ [i]) = some (.sec s)) : deadSec w1 path r i = deadSec w path r i := by
  obtain ⟨s1, hs1, hp1⟩ := opClose_keeps_prices h1 hs
  unfold deadSec
  rw [hs, hs1]
  simp only [hp1]

/-- **over security children the loop of `CloseDead` is `target.close(c)` for exactly the children whose price at row `r`
    is `<= 0`, in child order** (and nothing else touches the tree) -/
theorem closeDeadLoop_closes (path : List Nat) (r : Nat) :
    ∀ (is : List Nat) (w : World K) (ws : List (Nat × K)) (w' : World K) (ws' : List (Nat × K)),
      (∀ i ∈ is, ∃ s, w.root.get? (path ++ [i]) = some (.sec s)) →
      closeDeadLoop cfg path r is (w, ws) = .ok (w', ws') →
      closeList cfg path (is.filter (deadSec w path r)) w = .ok w'
  | [], w, ws, w', ws', _, h => by
    rw [closeDeadLoop_nil] at h
    cases h
    rfl
  | i :: rest, w, ws, w', ws', hall, h => by
    rw [closeDeadLoop_cons] at h
    obtain ⟨s, hs⟩ := hall i List.mem_cons_self
    rw [hs] at h
    simp only [uniPrice] at h
    have hall' : ∀ j ∈ rest, ∃ s, w.root.get? (path ++ [j]) = some (.sec s) :=
      fun j hj => hall j (List.mem_cons_of_mem _ hj)
    have hdi : deadSec w path r i = isDead (cell s.prices r) := by unfold deadSec; rw [hs]
    by_cases hd : isDead (cell s.prices r) = true
    · simp only [hd, ↓reduceIte] at h
      obtain ⟨w1, h1, h⟩ := bind_eq_ok h
      rw [List.filter_cons, hdi, hd]
      simp only [↓reduceIte]
      rw [closeList, h1]
      show closeList cfg path (rest.filter (deadSec w path r)) w1 = .ok w'
      have hf : rest.filter (deadSec w path r) = rest.filter (deadSec w1 path r) :=
        List.filter_congr fun j hj => by
          obtain ⟨sj, hsj⟩ := hall' j hj
          exact (deadSec_of_close r h1 hsj).symm
      rw [hf]
      refine closeDeadLoop_closes path r rest w1 _ w' ws' ?_ h
      intro j hj
      obtain ⟨sj, hsj⟩ := hall' j hj
      obtain ⟨s1, hs1, _⟩ := opClose_keeps_prices h1 hsj
      exact ⟨s1, hs1⟩
    · simp only [hd, Bool.false_eq_true, ↓reduceIte] at h
      rw [List.filter_cons, hdi]
      simp only [hd, Bool.false_eq_true, ↓reduceIte]
      exact closeDeadLoop_closes path r rest w ws w' ws' hall' h

end weights
end Bt.PProgF

/-! ### the rows a program carries: only those up to the current row are read -/
namespace Bt.PProgF
open Bt Bt.P08 Bt.P04 Bt.Prog Bt.PProg Bt.Select

section rows
variable {α : Type}

/-- a selection step with its per-row data (windows of `SelectHasData` / `SelectMomentum`, signal rows of `SelectWhere`,
    statistic rows of `SetStat`) cut after row `t` -/
def truncSel (t : Nat) : SelStep α → SelStep α
  | .hasData lo mc nd neg => .hasData (lo.take (t + 1)) mc nd neg
  | .momentum win n asc aon => .momentum (win.take (t + 1)) n asc aon
  | .where_ scols rows nd neg => .where_ scols (rows.take (t + 1)) nd neg
  | .statN scols rows n asc aon fs => .statN scols (rows.take (t + 1)) n asc aon fs
  | s => s

/-- a program with everything it carries per row of the index - the scheduler's answers, the selection steps' rows, the
    rows of the `WeighTarget` frame - cut after row `t` -/
def truncProg (t : Nat) (p : ProgX α) : ProgX α :=
  { p with gate := p.gate.take (t + 1), sels := p.sels.map (truncSel t), target := p.target.map (·.take (t + 1)) }

theorem getD_take {β : Type} (l : List β) {d t : Nat} (h : d ≤ t) (x : β) : (l.take (t + 1)).getD d x = l.getD d x := by
  rw [List.getD_eq_getElem?_getD, List.getD_eq_getElem?_getD, List.getElem?_take_of_lt (by omega)]

end rows

section rowsK
variable {K : Type} [Field K] [LinearOrder K] [IsStrictOrderedRing K] [HasFloor K] [HasNatFloor K]
variable {cfg : Cfg K}

/-- a selection step at row `d ≤ t` reads its own rows up to `t` only -/
theorem selStep_truncSel {d t : Nat} (h : d ≤ t) (T : Table Nat K) (prior : Option (List Nat)) (s : SelStep K) :
    selStep T d prior (truncSel t s) = selStep T d prior s := by
  cases s with
  | all nd neg => rfl
  | these idx nd neg => rfl
  | hasData lo mc nd neg => simp only [truncSel, selStep, getD_take _ h]
  | momentum win n asc aon => simp only [truncSel, selStep, getD_take _ h]
  | where_ scols rows nd neg => simp only [truncSel, selStep, getD_take _ h]
  | statN scols rows n asc aon fs => simp only [truncSel, selStep, getD_take _ h]
  | require ifNone => rfl
  | regex ok => rfl
  | types kids incl excl => rfl

theorem selSteps_truncSel {d t : Nat} (h : d ≤ t) (T : Table Nat K) : ∀ (ss : List (SelStep K)) (prior : Option (List Nat)),
    selSteps T d (ss.map (truncSel t)) prior = selSteps T d ss prior
  | [], prior => rfl
  | s :: rest, prior => by
    simp only [List.map_cons, selSteps, selStep_truncSel h]
    cases selStep T d prior s with
    | error e => rfl
    | ok r =>
      cases r with
      | none => rfl
      | some sel => exact selSteps_truncSel h T rest sel

theorem weigherX_truncProg {d t : Nat} (h : d ≤ t) (p : ProgX K) (sel : Option (List Nat)) :
    weigherX (truncProg t p) d sel = weigherX p d sel := by
  unfold weigherX truncProg
  cases p.target with
  | none => rfl
  | some rows => simp only [Option.map_some, getD_take _ h]

/-- **a stack at row `d ≤ t` reads what it carries per row up to `t` only**: the scheduler's answer for the row, the rows
    its frame-driven algos (`SelectWhere`, `SetStat`, `WeighTarget`) hit on that row, the windows resolved for that row -/
theorem progRunX_truncProg (p : ProgX K) (path : List Nat) {d t : Nat} (h : d ≤ t) (w : World K) :
    progRunX cfg (truncProg t p) path d w = progRunX cfg p path d w := by
  unfold progRunX
  have hg : (truncProg t p).gate.getD d false = p.gate.getD d false := getD_take _ h _
  rw [hg]
  split
  · cases w.root.get? path with
    | none => rfl
    | some n =>
      cases n with
      | sec s => rfl
      | strat sd kids =>
        simp only
        have hs : selSteps (tableOf (truncProg t p).ucols kids d) d (truncProg t p).sels none =
            selSteps (tableOf p.ucols kids d) d p.sels none := selSteps_truncSel h _ p.sels none
        rw [hs]
        cases selSteps (tableOf p.ucols kids d) d p.sels none with
        | error e => rfl
        | ok r =>
          cases r with
          | none => rfl
          | some sel =>
            simp only [weigherX_truncProg h]
            rfl
  · rfl

/-- two programs that carry the same rows up to `t` do the same on every row `d ≤ t` -/
theorem progRunX_rows_agree {p p' : ProgX K} {t : Nat} (hpp : truncProg t p = truncProg t p') (path : List Nat) {d : Nat}
    (h : d ≤ t) (w : World K) : progRunX cfg p path d w = progRunX cfg p' path d w := by
  rw [← progRunX_truncProg p path h, ← progRunX_truncProg p' path h, hpp]

end rowsK
end Bt.PProgF

/-! ### the selection part: what its last step leaves in `temp['selected']` -/
namespace Bt.PProgF
open Bt Bt.P08 Bt.P04 Bt.Prog Bt.PProg Bt.Select

section selK
variable {K : Type} [Field K] [LinearOrder K] [IsStrictOrderedRing K] [HasFloor K] [HasNatFloor K]

/-- what a selection step passes on: nothing when it answered False, otherwise the continuation on its selection -/
def selThen (f : Option (List Nat) → Except SelErr (Option (Option (List Nat)))) :
    Option (Option (List Nat)) → Except SelErr (Option (Option (List Nat)))
  | none => .ok none
  | some sel => f sel

theorem selSteps_nil (T : Table Nat K) (d : Nat) (prior : Option (List Nat)) : selSteps T d [] prior = .ok (some prior) := rfl

theorem selSteps_cons (T : Table Nat K) (d : Nat) (s : SelStep K) (rest : List (SelStep K)) (prior : Option (List Nat)) :
    selSteps T d (s :: rest) prior = (selStep T d prior s).bind (selThen (selSteps T d rest)) := by
  rw [selSteps]
  cases selStep T d prior s with
  | error e => rfl
  | ok r => cases r <;> rfl

theorem selSteps_single (T : Table Nat K) (d : Nat) (s : SelStep K) (prior : Option (List Nat)) :
    selSteps T d [s] prior = selStep T d prior s := by
  rw [selSteps_cons]
  cases selStep T d prior s with
  | error e => rfl
  | ok r => cases r <;> rfl

theorem selSteps_append (T : Table Nat K) (d : Nat) : ∀ (a b : List (SelStep K)) (prior : Option (List Nat)),
    selSteps T d (a ++ b) prior = (selSteps T d a prior).bind (selThen (selSteps T d b))
  | [], b, prior => rfl
  | s :: rest, b, prior => by
    rw [List.cons_append, selSteps_cons, selSteps_cons]
    cases selStep T d prior s with
    | error e => rfl
    | ok r =>
      cases r with
      | none => rfl
      | some sel => exact selSteps_append T d rest b sel

/-- the selection part `pre ++ [s]`, the steps of `pre` leaving `temp['selected'] = prior`: it is `s` on `prior` -/
theorem selSteps_snoc {T : Table Nat K} {d : Nat} {pre : List (SelStep K)} {prior : Option (List Nat)}
    (hpre : selSteps T d pre none = .ok (some prior)) (s : SelStep K) :
    selSteps T d (pre ++ [s]) none = selStep T d prior s := by
  rw [selSteps_append, hpre]
  exact selSteps_single T d s prior

/-- the current row of the universe table of a strategy -/
theorem tableOf_row (ucols : List Nat) (kids : List (Node K)) (d : Nat) :
    (tableOf ucols kids d).rows[d]? = some (ucols.map fun i => match kids[i]? with
      | some k => colCell d d k
      | none => none) := by
  simp only [tableOf, List.getElem?_map, List.getElem?_range (Nat.lt_succ_self d), Option.map_some, Option.some.injEq]
  refine List.map_congr_left fun a _ => ?_
  cases kids[a]? <;> rfl

theorem zip_fst_sublist {β γ : Type} : ∀ (a : List β) (b : List γ), ((a.zip b).map Prod.fst).Sublist a
  | [], _ => by simp
  | x :: a, [] => by simp
  | x :: a, y :: b => by
    simp only [List.zip_cons_cons, List.map_cons]
    exact (zip_fst_sublist a b).cons₂ x

theorem zip_fst_nodup {β γ : Type} {a : List β} (h : a.Nodup) (b : List γ) : ((a.zip b).map Prod.fst).Nodup :=
  h.sublist (zip_fst_sublist a b)

/-- `selectStatN` on a frame that has a row: `SelectN` on that row paired with the frame's columns -/
theorem selectStatN_some (scols : List Nat) (r : List (Option K)) (prior : Option (List Nat)) (n : NSpec K)
    (asc aon fs : Bool) :
    selectStatN scols (some r) prior n asc aon fs = (selectN (some (scols.zip r)) prior n asc aon fs).map some := rfl

theorem selectStatN_none (scols : List Nat) (prior : Option (List Nat)) (n : NSpec K) (asc aon fs : Bool) :
    selectStatN scols (none : Option (List (Option K))) prior n asc aon fs = .ok none := rfl

end selK
end Bt.PProgF
