import Bt.Proofs.LedgerTrade
import Bt.Proofs.FlagsEval
/-! Concrete `Rat` fixtures for the `example`s of `Bt.Props.C07_day`: a nested tree (root over a
    sub-strategy holding `a`, its own security `b` with a bid/offer spread, and a coupon-paying security `c`
    with a coupon parked on it), algos that adjust, allocate into the sub-strategy and trade, and a root
    that goes bankrupt.  Everything is evaluated by the kernel through the fuelled clones of `update`. -/
set_option linter.unusedSectionVars false
namespace Bt.LDx
open Bt Bt.P08 Bt.P04 Bt.P07

def cfgN : Cfg Rat := { tol := 1/1000000, par := 100, atol := 1/100000000, half := 1/2, one := 1, iterCap := 10000 }

/-- proportional + fixed commission of the root -/
def commR : Rat → Rat → Rat := fun q p => (if q < 0 then -q else q) * p / 1000 + 1
/-- flat commission of the sub-strategy -/
def commT : Rat → Rat → Rat := fun _ _ => 1

/-- `a`: plain, no spread data, held by the sub-strategy with weight 1 -/
def secA : SecData Rat := {
  name := "a", kind := .plain, fixedIncome := false, integer := false, bidofferSet := false,
  mult := 1, now := some 0, price := some 10, value := 0, notl := 0, weight := 1, position := 0, lastPos := 0,
  outlayAcc := 0, bidoffer := some 0, bidofferPaid := 0, capital := 0, coupon := 0, holdingCost := 0,
  needupdate := false,
  prices := [some 10, some 10, some 11], bidoffers := [], coupons := [],
  costLong := none, costShort := none,
  rValue := [0, 0, 0], rPosition := [0, 0, 0], rNotl := [0, 0, 0], rOutlay := [0, 0, 0],
  rBidofferPaid := [0, 0, 0], rCoupon := [0, 0, 0], rHolding := [0, 0, 0] }

/-- `b`: plain, multiplier 2, bid/offer spread 1/10 -/
def secB : SecData Rat := {
  name := "b", kind := .plain, fixedIncome := false, integer := false, bidofferSet := true,
  mult := 2, now := some 0, price := some 20, value := 0, notl := 0, weight := 0, position := 0, lastPos := 0,
  outlayAcc := 0, bidoffer := some (1/10), bidofferPaid := 0, capital := 0, coupon := 0, holdingCost := 0,
  needupdate := false,
  prices := [some 20, some 20, some 22], bidoffers := [some (1/10), some (1/10), some (1/10)], coupons := [],
  costLong := none, costShort := none,
  rValue := [0, 0, 0], rPosition := [0, 0, 0], rNotl := [0, 0, 0], rOutlay := [0, 0, 0],
  rBidofferPaid := [0, 0, 0], rCoupon := [0, 0, 0], rHolding := [0, 0, 0] }

/-- `c`: coupon-paying, long 5, with the coupon of date 0 (7) parked on it -/
def secC : SecData Rat := {
  name := "c", kind := .coupon, fixedIncome := true, integer := false, bidofferSet := false,
  mult := 1, now := some 0, price := some 100, value := 500, notl := 5, weight := 1/3, position := 5, lastPos := 5,
  outlayAcc := 0, bidoffer := some 0, bidofferPaid := 0, capital := 7, coupon := 7, holdingCost := 0,
  needupdate := true,
  prices := [some 100, some 101, some 102], bidoffers := [], coupons := [some (7/5), some 1, some 1],
  costLong := none, costShort := none,
  rValue := [500, 0, 0], rPosition := [5, 0, 0], rNotl := [5, 0, 0], rOutlay := [0, 0, 0],
  rBidofferPaid := [0, 0, 0], rCoupon := [7, 0, 0], rHolding := [0, 0, 0] }

def subT : StratData Rat := {
  name := "t", fixedIncome := false, bidofferSet := false, paperTrade := false, paperPx := 0, comm := commT,
  now := some 0, capital := 0, price := 100, value := 0, notl := 0, weight := 0,
  netFlows := 0, lastValue := 0, lastNotl := 0, lastPrice := 100, lastFee := 0, bidofferPaid := 0,
  bankrupt := false,
  rPrice := [100, 0, 0], rValue := [0, 0, 0], rNotl := [0, 0, 0], rCash := [0, 0, 0],
  rFees := [0, 0, 0], rFlows := [0, 0, 0], rBidofferPaid := [0, 0, 0] }

def rootR : StratData Rat := {
  name := "r", fixedIncome := false, bidofferSet := true, paperTrade := false, paperPx := 0, comm := commR,
  now := some 0, capital := 1000, price := 100, value := 1500, notl := 5, weight := 1,
  netFlows := 1500, lastValue := 0, lastNotl := 0, lastPrice := 100, lastFee := 0, bidofferPaid := 0,
  bankrupt := false,
  rPrice := [100, 0, 0], rValue := [1500, 0, 0], rNotl := [5, 0, 0], rCash := [1000, 0, 0],
  rFees := [0, 0, 0], rFlows := [1500, 0, 0], rBidofferPaid := [0, 0, 0] }

/-- the tree at the end of date 0 -/
def wN : World Rat := ⟨.strat rootR [.strat subT [.sec secA], .sec secB, .sec secC], false⟩

/-- the same tree with a root 2000 in debt: the opening update of date 1 finds it bankrupt -/
def wBk : World Rat :=
  ⟨.strat { rootR with capital := -2000 } [.strat subT [.sec secA], .sec secB, .sec secC], false⟩

/-- the algos of a date: a non-flow adjustment of 50 on the root, a flow adjustment of 30 made directly on
    the sub-strategy, 200 allocated to the sub-strategy (which buys `a`), 3 units of `b` bought -/
def runN : RunFn Rat := fun _ w =>
  (opAdjust w [] 50 false false).bind fun w =>
  (opAdjust w [0] 30 false true).bind fun w =>
  (opAllocate cfgN w [0] 200 false).bind fun w =>
  opTransact cfgN w [1] 3 false none

theorem runN_public : P04.RunPublic cfgN runN := by
  intro d w w2 _ h
  unfold runN at h
  obtain ⟨w1, h1, h⟩ := bind_eq_ok h
  obtain ⟨w2', h2, h⟩ := bind_eq_ok h
  obtain ⟨w3, h3, h4⟩ := bind_eq_ok h
  exact .cons (.adjust _ _ _ _ h1) (.cons (.adjust _ _ _ _ h2)
    (.cons (.allocate _ _ _ h3) (.cons (.transact _ _ _ _ h4) (.nil _))))

/-- the `adjust` calls of `runN` -/
def traceN : List (AdjCall Rat) := [⟨[], 50, false⟩, ⟨[0], 30, true⟩]

theorem runN_lrun {d : Nat} {w w' : World Rat} (h : runN d w = .ok w') : LRun cfgN d w traceN w' := by
  unfold runN at h
  obtain ⟨w1, h1, h⟩ := bind_eq_ok h
  obtain ⟨w2', h2, h⟩ := bind_eq_ok h
  obtain ⟨w3, h3, h4⟩ := bind_eq_ok h
  exact .cons (.adjust _ _ _ _ h1) (.cons (.adjust _ _ _ _ h2)
    (.cons (.allocate _ _ _ h3) (.cons (.transact _ _ _ _ h4) (.nil _))))

/-! ### the hypotheses of the day theorems on `wN` -/

theorem tidy_secA : Tidy secA := ⟨fun _ => rfl, fun _ => rfl⟩
theorem tidy_secB : Tidy secB := ⟨fun _ => rfl, fun _ => rfl⟩
theorem tidy_secC : Tidy secC := ⟨fun _ => rfl, fun _ => rfl⟩

theorem wN_goodR : GoodR 0 wN.root := by
  refine ⟨?_, _, _, rfl⟩
  simp [wN, rootR, subT, secA, secB, secC]

theorem wN_clocked : Clocked 0 wN.root := good_clocked 0 _ wN_goodR.1

theorem wN_rows (d : Nat) (hd : d < 3) : RowsLong d wN.root := by
  simp only [wN, rowsLong_strat, rowsLongL_cons, rowsLong_sec, rowsLongL_nil, rootR, subT, secA, secB, secC,
    List.length_cons, List.length_nil, and_true]
  omega

theorem wN_prev (d : Nat) (hd : d < 3) (hne : 0 ≠ d) : Prev d wN.root :=
  prev_of_clocked hne _ wN_clocked (wN_rows d hd)

theorem wN_tidy : TidyT wN.root := by
  simp only [wN, tidyT_strat, tidyL_cons, tidyT_sec, tidyL_nil, and_true]
  exact ⟨tidy_secA, tidy_secB, tidy_secC⟩

theorem wN_fresh (d : Nat) : Fresh d wN.root := by
  simp only [wN, fresh_strat, freshL_cons, fresh_sec, freshL_nil, secA, secB, secC]
  have : ([0, 0, 0] : List Rat)[d]?.getD 0 = 0 := by
    rcases d with _ | _ | _ | d <;> rfl
  simp [this]

theorem wBk_prev : Prev 1 wBk.root := by
  simp [wBk, rootR, subT, secA, secB, secC]

/-! ### evaluated instances -/

/-- cash / fees / flows of the strategy at `p` -/
def ledgerAt (w : World Rat) (p : List Nat) : Option (Rat × Rat × Rat) :=
  match w.root.get? p with
  | some (.strat sd _) => some (sd.capital, sd.lastFee, sd.netFlows)
  | _ => none

/-- recorded cash / fees / flows of date 1 of the strategy at `p` -/
def rowsAtN (w : World Rat) (p : List Nat) : Option (Rat × Rat × Rat) :=
  match w.root.get? p with
  | some (.strat sd _) => some (sd.rCash.getD 1 0, sd.rFees.getD 1 0, sd.rFlows.getD 1 0)
  | _ => none

/-- recorded outlay of date 1 and pending accumulator of the security at `p` -/
def outlaysAt (w : World Rat) (p : List Nat) : Option (Rat × Rat) :=
  match w.root.get? p with
  | some (.sec s) => some (s.rOutlay.getD 1 0, s.outlayAcc)
  | _ => none

/-- day 1 on `wN`: root cash 1000 → 735.58 = 1000 + 7 (coupon swept) + 0 (flows) + 50 + 30 (adjustments)
    − 120.3 (outlay of `b`) − 1.12 (fee) − 230 (flows of the sub-strategy);
    sub-strategy cash 0 → 30 = 230 (flows) − 199 (outlay of `a`) − 1 (fee) -/
theorem day1_eval :
    (btDayF cfgN runN 3 1 wN).toOption.map (fun w => (ledgerAt w [], ledgerAt w [0], w.bankrupt)) =
    some (some (36779/50, 28/25, 0), some (30, 1, 230), false) := by
  decide +kernel

/-- the outlays recorded for date 1 by `b` (child of the root) and `a` (child of the sub-strategy); nothing
    is left pending -/
theorem day1_outlays :
    (btDayF cfgN runN 3 1 wN).toOption.map (fun w => (outlaysAt w [1], outlaysAt w [0, 0])) =
    some (some (1203/10, 0), some (199, 0)) := by
  decide +kernel

theorem day1_ok : ∃ w', btDay cfgN runN 1 wN = .ok w' ∧
    ledgerAt w' [] = some (36779/50, 28/25, 0) ∧ ledgerAt w' [0] = some (30, 1, 230) := by
  obtain ⟨w', h, he⟩ := P16.exists_of_toOption_map day1_eval
  simp only [Prod.mk.injEq] at he
  exact ⟨w', btDayF_sound h, he.1, he.2.1⟩

/-- the rows of date 1 after the day -/
theorem day1_rows :
    (btDayF cfgN runN 3 1 wN).toOption.map (fun w => (rowsAtN w [], rowsAtN w [0])) =
    some (some (36779/50, 28/25, 0), some (30, 1, 230)) := by
  decide +kernel

/-- two days of the loop -/
theorem loop12_eval :
    (btLoopF cfgN runN 3 [1, 2] wN).toOption.map (fun w => (ledgerAt w [], ledgerAt w [0])) =
    some (some (114287/250, 283/250, 0), some (209340/2489, 1, 230)) := by
  decide +kernel

theorem loop12_ok : ∃ w', btLoop cfgN runN [1, 2] wN = .ok w' := by
  obtain ⟨w', h, _⟩ := P16.exists_of_toOption_map loop12_eval
  exact ⟨w', btLoopF_sound _ _ _ h⟩

/-- the opening update of date 1 alone: the coupon of 7 is swept into the root's cash, accumulators reset -/
theorem open1_eval :
    (updRootF cfgN 1 3 wN).toOption.map (fun w => (ledgerAt w [], ledgerAt w [0], w.bankrupt)) =
    some (some (1007, 0, 0), some (0, 0, 0), false) := by
  decide +kernel

theorem open1_ok : ∃ w', updRoot cfgN 1 wN = .ok w' ∧ w'.bankrupt = wN.bankrupt := by
  obtain ⟨w', h, he⟩ := P16.exists_of_toOption_map open1_eval
  simp only [Prod.mk.injEq] at he
  exact ⟨w', updRootF_sound h, he.2.2⟩

/-- single public calls on `wN` (clock 0) -/
theorem alloc0_ok : ∃ w', opAllocate cfgN wN [0] 200 false = .ok w' := by
  have h0 : (opAllocate cfgN wN [0] 200 false).toOption.isSome = true := by decide +kernel
  cases h : opAllocate cfgN wN [0] 200 false with
  | error e => rw [h] at h0; cases h0
  | ok w' => exact ⟨w', rfl⟩

theorem trans1_ok : ∃ w', opTransact cfgN wN [1] 3 false none = .ok w' := by
  have h0 : (opTransact cfgN wN [1] 3 false none).toOption.isSome = true := by decide +kernel
  cases h : opTransact cfgN wN [1] 3 false none with
  | error e => rw [h] at h0; cases h0
  | ok w' => exact ⟨w', rfl⟩

theorem run0_ok : ∃ w', runN 0 wN = .ok w' := by
  have h0 : (runN 0 wN).toOption.isSome = true := by decide +kernel
  cases h : runN 0 wN with
  | error e => rw [h] at h0; cases h0
  | ok w' => exact ⟨w', rfl⟩

/-- the bankrupt day: the opening update of date 1 on `wBk` liquidates `c` (the only open position):
    root cash −2000 → −1489.505 = −2000 + 7 (coupon) + 505 (proceeds of 5 `c` at 101) − 1.505 (fee) -/
theorem bk_eval :
    (P16.btDayE cfgN runN 3 1 wBk).toOption.map (fun w => (ledgerAt w [], outlaysAt w [2], w.bankrupt)) =
    some (some (-297901/200, 301/200, 0), some (-505, 0), true) := by
  decide +kernel

theorem bk_ok : ∃ w', btDay cfgN runN 1 wBk = .ok w' ∧ w'.bankrupt = true ∧
    ledgerAt w' [] = some (-297901/200, 301/200, 0) := by
  obtain ⟨w', h, he⟩ := P16.exists_of_toOption_map bk_eval
  simp only [Prod.mk.injEq] at he
  exact ⟨w', P16.btDayE_sound h, he.2.2, he.1⟩

end Bt.LDx
