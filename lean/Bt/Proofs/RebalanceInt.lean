import Bt.Proofs.Rebalance
/-! Helper lemmas for C06 with whole-unit positions and no costs. -/
set_option linter.unusedSectionVars false
namespace Bt.Rebal
open Bt

variable {K : Type} [Field K] [LinearOrder K] [IsStrictOrderedRing K] [HasFloor K] [FloorRing K]

/-- Whole units, no commission, zero spread, once the search is entered: `allocate` trades its starting
    quantity (whose cost is `isclose` to the amount) or `⌊a/(price·mult)⌋`, whose cost is `isclose` to the
    amount or brackets it within one unit. -/
theorem allocQuantity_loop_int_nocost (hfloor : ∀ x : K, floorA x = (⌊x⌋ : K))
    (cfg : Cfg K) (comm : K → K → K) (s : SecData K) (a p : K)
    (hatol : 0 ≤ cfg.atol) (htol : 0 < cfg.tol) (hcap : 1 ≤ cfg.iterCap)
    (hint : s.integer = true) (hp : s.price = some p) (hpz : isZero cfg.tol p = false)
    (hb : s.bidoffer = some 0) (hcomm : ∀ q x, comm q x = 0) (hP : 0 < p * s.mult)
    (hz : isZero cfg.tol a = false) (hq : isZero cfg.tol (allocQ0 cfg s p a) = false)
    (he : allocQ0 cfg s p a ≠ -s.position) :
    (allocQuantity cfg comm s a = .ok (some (allocQ0 cfg s p a)) ∧
      isClose cfg.atol cfg.tol (allocQ0 cfg s p a * (p * s.mult)) a = true) ∨
    (allocQuantity cfg comm s a = .ok (some ((⌊a / (p * s.mult)⌋ : ℤ) : K)) ∧
      (isClose cfg.atol cfg.tol (((⌊a / (p * s.mult)⌋ : ℤ) : K) * (p * s.mult)) a = true ∨
        (((⌊a / (p * s.mult)⌋ : ℤ) : K) * (p * s.mult) < a ∧
          a < (((⌊a / (p * s.mult)⌋ : ℤ) : K) + 1) * (p * s.mult)))) := by
  rw [Alloc.allocQuantity_loop cfg comm s a p hz hp hpz hq he,
    Alloc.fullOut_funext cfg comm s p 0 hp hb, hint]
  simp only [Except.bind]
  set q0 : K := allocQ0 cfg s p a with hq0
  have hq0ne : q0 ≠ 0 := by
    intro h0; rw [h0, isZero_zero cfg htol] at hq; cases hq
  rw [fullOutF_nocost cfg comm s p hcomm]
  by_cases h0 : (isClose cfg.atol cfg.tol (q0 * (p * s.mult)) a || eqA q0 0) = true
  · left
    refine ⟨?_, ?_⟩
    · rw [Alloc.sizeLoop_head cfg _ _ _ _ _ _ _ _ _ _ h0]; rfl
    · rcases Bool.or_eq_true_iff.1 h0 with h | h
      · exact h
      · exact absurd ((Alloc.eqA_iff _ _).1 h) hq0ne
  have h0 : (isClose cfg.atol cfg.tol (q0 * (p * s.mult)) a || eqA q0 0) = false := by simpa using h0
  right
  set m : K := ((⌊a / (p * s.mult)⌋ : ℤ) : K) with hm
  have hq1 : q0 - (q0 * (p * s.mult) - a) / (p * s.mult) = a / (p * s.mult) := by
    rw [sub_div, mul_div_cancel_right₀ _ (ne_of_gt hP)]; ring
  have hfl : floorA (q0 - (q0 * (p * s.mult) - a) / (p * s.mult)) = m := by rw [hq1, hfloor]
  have hle : m * (p * s.mult) ≤ a := (le_div_iff₀ hP).1 (Int.floor_le (a / (p * s.mult)))
  have hlt : a < (m + 1) * (p * s.mult) := (div_lt_iff₀ hP).1 (Int.lt_floor_add_one (a / (p * s.mult)))
  have hclose_self : ∀ x : K, isClose cfg.atol cfg.tol x x = true := by
    intro x
    rw [Alloc.isClose_iff, sub_self, abs_zero]
    have := abs_nonneg x
    have := le_of_lt htol
    positivity
  by_cases hlt' : m * (p * s.mult) < a
  · refine ⟨?_, Or.inr ⟨hlt', hlt⟩⟩
    rw [Alloc.sizeLoop_break_int cfg (Alloc.fullOutF cfg comm s p 0) _ _ _ _ _ _ _ _ h0]
    · rw [hfl]; rfl
    · rw [hfl, fullOutF_nocost cfg comm s p hcomm]; exact hlt'
    · rw [hfl, fullOutF_nocost cfg comm s p hcomm]; exact hlt
  · have heq : m * (p * s.mult) = a := le_antisymm hle (not_lt.1 hlt')
    refine ⟨?_, Or.inl (by rw [heq]; exact hclose_self _)⟩
    rw [Alloc.sizeLoop_step_int cfg (Alloc.fullOutF cfg comm s p 0) _ _ _ _ _ _ _ _ h0]
    · rw [hfl, fullOutF_nocost cfg comm s p hcomm, heq]
      rw [Alloc.sizeLoop_head cfg _ _ _ _ _ _ _ _ _ _ (by rw [hclose_self]; rfl)]; rfl
    · rw [hfl, fullOutF_nocost cfg comm s p hcomm]; exact fun h => hlt' h.1
    · omega
    · rw [hfl]
      intro h
      rw [h, heq, hclose_self] at h0
      simp at h0
    · rw [hfl, fullOutF_nocost cfg comm s p hcomm, heq, sub_self, Alloc.absA_eq_abs, Alloc.absA_eq_abs,
        abs_zero]
      exact not_lt.2 (abs_nonneg _)


/-- how far the worth bought by a whole quantity `q` is from the amount `a` asked for: less than one unit's
    value, or within `np.isclose`'s tolerance, or below `TOL` (amount not traded / close-out shortcut) -/
def IntBound (cfg : Cfg K) (pm a q : K) : Prop :=
  |q * pm - a| < pm ∨ |q * pm - a| ≤ cfg.atol + cfg.tol * |a| ∨ |q * pm - a| < cfg.tol

theorem int_cast_isZero (cfg : Cfg K) (htol1 : cfg.tol ≤ 1) (z : ℤ) (h : isZero cfg.tol (z : K) = true) :
    z = 0 := by
  rw [Alloc.isZero_iff] at h
  have h1 : |(z : K)| < 1 := lt_of_lt_of_le h htol1
  have h2 : ((|z| : ℤ) : K) < ((1 : ℤ) : K) := by rw [Int.cast_abs, Int.cast_one]; exact h1
  have h3 : |z| < 1 := by exact_mod_cast h2
  exact Int.abs_lt_one_iff.1 h3

/-- Whole units, no costs: `allocate(a)` never raises, and the whole quantity `q` it effectively trades
    (`0` when it trades nothing) buys a worth within one unit's value of `a` (`IntBound`). -/
theorem allocQuantity_int_bound (hfloor : ∀ x : K, floorA x = (⌊x⌋ : K)) (hceil : ∀ x : K, ceilA x = (⌈x⌉ : K))
    (cfg : Cfg K) (comm : K → K → K) (s : SecData K) (a p : K)
    (hatol : 0 ≤ cfg.atol) (htol : 0 < cfg.tol) (htol1 : cfg.tol ≤ 1) (hcap : 1 ≤ cfg.iterCap)
    (hint : s.integer = true) (hp : s.price = some p) (hpz : isZero cfg.tol p = false)
    (hb : s.bidoffer = some 0) (hcomm : ∀ q x, comm q x = 0) (hP : 0 < p * s.mult)
    (hwhole : ∃ z : ℤ, s.position = (z : K)) (hval : s.value = s.position * p * s.mult) :
    ∃ oq q, allocQuantity cfg comm s a = .ok oq ∧ IntBound cfg (p * s.mult) a q ∧
      ((oq = none ∧ q = 0) ∨ (oq = some q ∧ (isZero cfg.tol q = false ∨ q = 0))) := by
  have hPne : p * s.mult ≠ 0 := ne_of_gt hP
  by_cases hz : isZero cfg.tol a = true
  · refine ⟨none, 0, ?_, Or.inr (Or.inr ?_), Or.inl ⟨rfl, rfl⟩⟩
    · unfold allocQuantity; simp [hz]; rfl
    · rw [zero_mul, zero_sub, abs_neg]; exact (Alloc.isZero_iff _ _).1 hz
  have hz : isZero cfg.tol a = false := by simpa using hz
  by_cases hc : isZero cfg.tol (a + s.value) = true
  · have hq0 : allocQ0 cfg s p a = -s.position := by unfold allocQ0; simp [hc]
    by_cases hpos : isZero cfg.tol s.position = true
    · exfalso
      obtain ⟨z, hzp⟩ := hwhole
      rw [hzp] at hpos
      have := int_cast_isZero cfg htol1 z hpos
      rw [this, Int.cast_zero] at hzp
      rw [hval, hzp, zero_mul, zero_mul, add_zero, hz] at hc
      cases hc
    · have hpos : isZero cfg.tol s.position = false := by simpa using hpos
      have hqz : isZero cfg.tol (allocQ0 cfg s p a) = false := by rw [hq0, Alloc.isZero_neg]; exact hpos
      refine ⟨some (-s.position), -s.position,
        Alloc.allocQuantity_skip cfg comm s a p hz hp hpz hqz hq0, Or.inr (Or.inr ?_),
        Or.inr ⟨rfl, Or.inl (by rw [Alloc.isZero_neg]; exact hpos)⟩⟩
      have : -s.position * (p * s.mult) - a = -(a + s.value) := by rw [hval]; ring
      rw [this, abs_neg]; exact (Alloc.isZero_iff _ _).1 hc
  have hc : isZero cfg.tol (a + s.value) = false := by simpa using hc
  -- the starting quantity is the floor or the ceiling of `a / (price·mult)`
  have hq0 : (∃ n : ℤ, allocQ0 cfg s p a = (n : K)) ∧ |allocQ0 cfg s p a - a / (p * s.mult)| < 1 := by
    unfold allocQ0
    simp only [hc, Bool.false_eq_true, ↓reduceIte, hint]
    split
    · rw [hfloor]
      refine ⟨⟨_, rfl⟩, ?_⟩
      have h1 := Int.floor_le (a / (p * s.mult))
      have h2 := Int.lt_floor_add_one (a / (p * s.mult))
      rw [abs_lt]; constructor <;> linarith
    · rw [hceil]
      refine ⟨⟨_, rfl⟩, ?_⟩
      have h1 := Int.le_ceil (a / (p * s.mult))
      have h2 := Int.ceil_lt_add_one (a / (p * s.mult))
      rw [abs_lt]; constructor <;> linarith
  obtain ⟨⟨n, hn⟩, hnear⟩ := hq0
  have hbound0 : |allocQ0 cfg s p a * (p * s.mult) - a| < p * s.mult := by
    have : allocQ0 cfg s p a * (p * s.mult) - a = (allocQ0 cfg s p a - a / (p * s.mult)) * (p * s.mult) := by
      rw [sub_mul, div_mul_cancel₀ _ hPne]
    rw [this, abs_mul, abs_of_pos hP]
    calc _ < 1 * (p * s.mult) := mul_lt_mul_of_pos_right hnear hP
      _ = _ := one_mul _
  by_cases hq : isZero cfg.tol (allocQ0 cfg s p a) = true
  · refine ⟨none, 0, Alloc.allocQuantity_q0_zero cfg comm s a p hz hp hpz hq, Or.inl ?_, Or.inl ⟨rfl, rfl⟩⟩
    rw [hn] at hq
    have hn0 := int_cast_isZero cfg htol1 n hq
    rw [hn, hn0, Int.cast_zero] at hbound0
    exact hbound0
  have hq : isZero cfg.tol (allocQ0 cfg s p a) = false := by simpa using hq
  by_cases he : allocQ0 cfg s p a = -s.position
  · refine ⟨some (allocQ0 cfg s p a), allocQ0 cfg s p a, ?_, Or.inl hbound0, Or.inr ⟨rfl, Or.inl hq⟩⟩
    rw [Alloc.allocQuantity_skip cfg comm s a p hz hp hpz hq he, he]
  rcases allocQuantity_loop_int_nocost hfloor cfg comm s a p hatol htol hcap hint hp hpz hb hcomm hP hz hq he
    with ⟨h1, h2⟩ | ⟨h1, h2⟩
  · exact ⟨_, _, h1, Or.inr (Or.inl ((Alloc.isClose_iff _ _ _ _).1 h2)), Or.inr ⟨rfl, Or.inl hq⟩⟩
  · refine ⟨_, _, h1, ?_, Or.inr ⟨rfl, ?_⟩⟩
    · rcases h2 with h2 | ⟨h2, h3⟩
      · exact Or.inr (Or.inl ((Alloc.isClose_iff _ _ _ _).1 h2))
      · left
        rw [abs_lt]; constructor <;> linarith
    · by_cases hm : isZero cfg.tol (((⌊a / (p * s.mult)⌋ : ℤ) : K)) = true
      · right
        rw [int_cast_isZero cfg htol1 _ hm, Int.cast_zero]
      · left; simpa using hm


/-- a plain whole-unit security that is up to date on `d`, priced, zero spread, holding a whole number of
    units -/
structure IntSec (cfg : Cfg K) (d : Nat) (s : SecData K) : Prop where
  kind : s.kind = .plain
  int : s.integer = true
  now : s.now = some d
  last : s.lastPos = s.position
  price : s.price = some (px s)
  pnz : isZero cfg.tol (px s) = false
  ppos : 0 < px s * s.mult
  bo : s.bidoffer = some 0
  val : s.value = s.position * px s * s.mult
  whole : ∃ z : ℤ, s.position = (z : K)

theorem secTraded_ready' {cfg : Cfg K} {d : Nat} {s : SecData K} (hk : s.kind = .plain) (hn : s.now = some d)
    (hp : s.price = some (px s)) (hl : s.lastPos = s.position) (hv : s.value = s.position * px s * s.mult)
    (q : K) : UpdReady d (secTraded cfg s (px s) q) := by
  refine ⟨hk, hn, hp, fun hh => (by cases hh), fun hl' => ?_⟩
  have hq : q = 0 := by
    have : s.lastPos = s.position + q := hl'
    rw [hl] at this
    linarith
  subst hq
  show s.value = (s.position + 0) * px s * s.mult
  rw [hv]; ring

theorem adjust_tradeAdj (cfg : Cfg K) (sd : StratData K) (s : SecData K) (q : K) :
    sd.adjust (tradeAdj cfg s (px s) q) = withCap sd (sd.capital - q * px s * s.mult) := by
  unfold StratData.adjust withCap
  simp only [tradeAdj, Bool.false_eq_true, ↓reduceIte, add_zero, mul_zero, zero_mul]
  rw [← sub_eq_add_neg]

/-- `allocate(a)` on an up-to-date whole-unit security without costs: it succeeds; the position moves by a
    whole quantity `q` within one unit of the amount, the parent pays `q·price·mult`. -/
theorem secAllocate_int (hfloor : ∀ x : K, floorA x = (⌊x⌋ : K)) (hceil : ∀ x : K, ceilA x = (⌈x⌉ : K))
    (cfg : Cfg K) (d : Nat) (comm : K → K → K) (s : SecData K) (a : K) (h : IntSec cfg d s)
    (hatol : 0 ≤ cfg.atol) (htol : 0 < cfg.tol) (htol1 : cfg.tol ≤ 1) (hcap : 1 ≤ cfg.iterCap)
    (hcomm : ∀ q x, comm q x = 0) :
    ∃ q s' oa, IntBound cfg (px s * s.mult) a q ∧ secAllocate cfg (some d) comm s a = .ok (s', oa) ∧
      (s' = s ∧ q = 0 ∨ s' = secTraded cfg s (px s) q) ∧
      ∀ sd : StratData K, oa.toList.foldl StratData.adjust sd = withCap sd (sd.capital - q * px s * s.mult) := by
  have hr : secRefresh cfg (some d) s = .ok s := by
    unfold secRefresh
    split
    · exact secUpdate_early cfg d s h.kind h.now h.last
    · rfl
  obtain ⟨oq, q, hq, hb, hcase⟩ := allocQuantity_int_bound hfloor hceil cfg comm s a (px s) hatol htol htol1
    hcap h.int h.price h.pnz h.bo hcomm h.ppos h.whole h.val
  have hnone : ∀ sd : StratData K, sd = withCap sd (sd.capital - 0 * px s * s.mult) := by
    intro sd; rw [zero_mul, zero_mul, sub_zero, withCap_self]
  rcases hcase with ⟨rfl, rfl⟩ | ⟨rfl, hqz | rfl⟩
  · refine ⟨0, s, none, hb, ?_, Or.inl ⟨rfl, rfl⟩, fun sd => ?_⟩
    · unfold secAllocate; rw [hr]; simp only [Except.bind, hq]; rfl
    · simpa using hnone sd
  · refine ⟨q, secTraded cfg s (px s) q, some (tradeAdj cfg s (px s) q), hb, ?_, Or.inr rfl, fun sd => ?_⟩
    · unfold secAllocate; rw [hr]; simp only [Except.bind, hq]
      exact secTransactCore_nocost cfg comm s (px s) q h.price h.bo hcomm hqz
    · simp only [Option.toList, List.foldl_cons, List.foldl_nil, adjust_tradeAdj]
  · refine ⟨0, s, none, hb, ?_, Or.inl ⟨rfl, rfl⟩, fun sd => ?_⟩
    · unfold secAllocate; rw [hr]; simp only [Except.bind, hq]
      unfold secTransactCore
      simp only [isZero_zero cfg htol, ↓reduceIte]; rfl
    · simpa using hnone sd


/-- one `rebalance(wt, child i, base V, update=False)` followed by `root.update(now)` on a flat strategy
    whose child `i` is a whole-unit security without costs -/
theorem opRebalance_updRoot_flat_int (hfloor : ∀ x : K, floorA x = (⌊x⌋ : K))
    (hceil : ∀ x : K, ceilA x = (⌈x⌉ : K)) (cfg : Cfg K) (d : Nat) (sd : StratData K)
    (ss : List (SecData K)) (i : Nat) (s : SecData K) (wt V : K) (w1 w2 : World K)
    (hatol : 0 ≤ cfg.atol) (htol : 0 < cfg.tol) (htol1 : cfg.tol ≤ 1) (hcap : 1 ≤ cfg.iterCap)
    (hnow : sd.now = some d) (hfi : sd.fixedIncome = false) (hcomm : ∀ q x, sd.comm q x = 0)
    (hready : ∀ x ∈ ss, UpdReady d x) (hs : ss[i]? = some s) (hi : IntSec cfg d s)
    (hwt : isZero cfg.tol wt = false)
    (hpos : 0 ≤ sd.capital + worthSum ss)
    (h1 : opRebalance cfg (flatW sd ss) [] wt i (some V) false = .ok w1)
    (h2 : updRoot cfg d w1 = .ok w2) :
    ∃ (sdF : StratData K) (ssF : List (SecData K)) (t : SecData K) (q : K),
      w2 = flatW sdF ssF ∧ ssF.length = ss.length ∧ ssF[i]? = some t ∧
      IntBound cfg (px s * s.mult) ((wt - s.weight) * V) q ∧
      t.position = s.position + q ∧ px t = px s ∧ t.mult = s.mult ∧
      t.value = t.position * px t * t.mult ∧
      sdF.capital = sd.capital - q * px s * s.mult ∧
      sdF.capital + worthSum ssF = sd.capital + worthSum ss ∧
      (sdF.value = sd.capital + worthSum ss ∨
        (sdF.value = sd.value ∧ isZero cfg.tol (sd.value - (sd.capital + worthSum ss)) = true)) := by
  rw [opRebalance_unfold cfg (flatW sd ss) [] wt i V false sd (ss.map Node.sec) (.sec s) rfl hwt
    (flat_get_root sd ss) (flat_get_child sd ss i s hs)] at h1
  simp only [hfi, Bool.false_eq_true, ↓reduceIte, Node.weight] at h1
  obtain ⟨q, s', oa, hb, ha, hcase, hsd⟩ := secAllocate_int hfloor hceil cfg d sd.comm s ((wt - s.weight) * V) hi
    hatol htol htol1 hcap hcomm
  rw [← hnow] at ha
  rw [opAllocate_flat cfg sd ss i s _ hs, ha] at h1
  simp only [Except.map, hsd sd] at h1
  cases h1
  have hs'pos : s'.position = s.position + q ∧ px s' = px s ∧ s'.mult = s.mult := by
    rcases hcase with ⟨rfl, rfl⟩ | rfl
    · exact ⟨by rw [add_zero], rfl, rfl⟩
    · exact ⟨rfl, rfl, rfl⟩
  have hworth : worth s' = worth s + q * px s * s.mult := by
    unfold worth; rw [hs'pos.1, hs'pos.2.1, hs'pos.2.2]; ring
  have hcons : (sd.capital - q * px s * s.mult) + worthSum (ss.set i s') = sd.capital + worthSum ss := by
    rw [worthSum_set ss i s s' hs, hworth]; ring
  have hready' : ∀ x ∈ ss.set i s', UpdReady d x := by
    intro x hx
    rcases List.mem_or_eq_of_mem_set hx with hx | rfl
    · exact hready x hx
    · rcases hcase with ⟨rfl, _⟩ | rfl
      · exact hready _ (List.mem_of_getElem? hs)
      · exact secTraded_ready' hi.kind hi.now hi.price hi.last hi.val q
  obtain ⟨sdF, ssF, r1, r2, r3, r4, r5⟩ := updRoot_flat cfg d
    (withCap sd (sd.capital - q * px s * s.mult)) (ss.set i s') w2 hnow hfi hready'
    (by rw [withCap_capital, hcons]; exact hpos) h2
  rw [withCap_capital, hcons] at r4
  rw [withCap_capital] at r3
  obtain ⟨t, ht, hm, _⟩ := r5 i s' (getElem?_set_same _ _ _ _ hs)
  refine ⟨sdF, ssF, t, q, r1, by rw [r2, List.length_set], ht, hb, by rw [hm.1, hs'pos.1],
    hm.2.1.trans hs'pos.2.1, hm.2.2.1.trans hs'pos.2.2, hm.value_eq, r3, ?_, r4⟩
  rw [r3, ← hcons]
  congr 1
  exact worthSum_congr _ ssF r2 (fun j x hx => by
    obtain ⟨u, hu, hmu, _⟩ := r5 j x hx
    exact ⟨u, hu, hmu.worth⟩)

end Bt.Rebal
