import Bt.Proofs.RebalanceExact
/-! C06 with costs / at any path, part 11: the vocabulary of `Bt.Props.C06_costs` — what is said about one child
    `s` (before the call) and `t` (after the closing update) — and the child lemmas restated with it. -/
set_option linter.unusedSectionVars false
namespace Bt.P06
open Bt Bt.Rebal

variable {K : Type} [Field K] [LinearOrder K] [IsStrictOrderedRing K] [HasFloor K]

/-- the child after the call is the same security, marked at `position·price·mult` at the same price -/
def Kept (s t : SecData K) : Prop :=
  t.value = t.position * px t * t.mult ∧ px t = px s ∧ t.mult = s.mult

/-- a child that is not parked carries `value / total` as weight (`0` if the total is negligible) -/
def WeightIs (cfg : Cfg K) (tot : K) (t : SecData K) : Prop :=
  t.needupdate = true → t.weight = if isZero cfg.tol tot then 0 else t.value / tot

/-- **fractional units, with costs**: the child is untouched (nothing traded, nothing booked for it); or it was
    closed through the close-out shortcut because its target value is below `TOL`; or it was traded and its
    value misses the target by exactly the cost booked for its trade in this call (`childCost`: growth of the
    spread paid + commission), up to `np.isclose`'s tolerance `atol + TOL·|amount|` on the amount allocated -/
def ReachedUpToCosts (cfg : Cfg K) (comm : K → K → K) (target : K) (s t : SecData K) : Prop :=
  (t.position = s.position ∧ childCost comm s t = 0) ∨
  (t.position = 0 ∧ |target| < cfg.tol) ∨
  (t.position ≠ s.position ∧
    |t.value - target + childCost comm s t| ≤ cfg.atol + cfg.tol * |target - s.value|)

/-- **whole units, with costs**: untouched; or closed through the unchecked `q == −position` skip (target below
    `TOL`, or `−position` is the rounded quantity: within one unit's value, costs not counted); or the outlay was
    `isclose` to the amount (as for fractional units); or a whole quantity was traded whose full outlay is below
    the amount while one more unit is above it: value plus cost booked is below the target by less than the full
    outlay of one more unit (`unitOutlay` = its value + its half-spread + the change of the commission) -/
def WithinUnit (cfg : Cfg K) (comm : K → K → K) (target : K) (s t : SecData K) : Prop :=
  (t.position = s.position ∧ childCost comm s t = 0) ∨
  (t.position = 0 ∧ (|target| < cfg.tol ∨ |t.value - target| < |px s * s.mult|)) ∨
  (t.position ≠ s.position ∧
    |t.value - target + childCost comm s t| ≤ cfg.atol + cfg.tol * |target - s.value|) ∨
  (t.position ≠ s.position ∧ (∃ n : ℤ, t.position - s.position = (n : K)) ∧
    outF cfg comm s (t.position - s.position) < target - s.value ∧
    target - s.value < outF cfg comm s (t.position - s.position + 1) ∧
    -unitOutlay cfg comm s (t.position - s.position) < t.value - target + childCost comm s t ∧
    t.value - target + childCost comm s t < 0)

/-- a child that is not a target (or whose scaled target weight is negligible): closed exactly when its value
    and position were above `TOL`, untouched (nothing booked) otherwise -/
def ClosedOrUntouched (cfg : Cfg K) (comm : K → K → K) (s t : SecData K) : Prop :=
  (isZero cfg.tol s.value = false → isZero cfg.tol s.position = false → t.position = 0 ∧ t.value = 0) ∧
  (isZero cfg.tol s.value = true ∨ isZero cfg.tol s.position = true →
    t.position = s.position ∧ t.value = s.value ∧ childCost comm s t = 0)

/-- child `i` is not a target, or its scaled target weight is negligible -/
def NotTargeted (cfg : Cfg K) (T : List (Nat × K)) (cash : Option K) (i : Nat) : Prop :=
  i ∉ T.map (·.1) ∨ ∃ wt, (i, wt) ∈ T ∧ isZero cfg.tol (wt * cashScale cash) = true

section child
variable {cfg : Cfg K} {comm : K → K → K} {V : K} {T : List (Nat × K)} {cash : Option K} {tot : K} {i : Nat}
  {s t : SecData K} {q : K}

theorem ChildOut.kept (h : ChildOut cfg comm V T cash tot i s t q) : Kept s t := ⟨h.val, h.pxe, h.mult⟩

theorem ChildOut.weightIs (h : ChildOut cfg comm V T cash tot i s t q) : WeightIs cfg tot t := h.wgt

theorem ChildOut.reached (h : ChildOut cfg comm V T cash tot i s t q) (d : Nat) (htol : 0 < cfg.tol)
    (hr : RSec d s) (hint : s.integer = false) (hnd : (T.map (·.1)).Nodup) (hw : s.weight * V = s.value)
    (wt : K) (hi : (i, wt) ∈ T) (hz : isZero cfg.tol (wt * cashScale cash) = false) :
    ReachedUpToCosts cfg comm (wt * cashScale cash * V) s t :=
  h.frac_target d htol hr hint hnd wt hi hz hw

theorem ChildOut.withinUnit [FloorRing K] (hfloor : ∀ x : K, floorA x = (⌊x⌋ : K))
    (hceil : ∀ x : K, ceilA x = (⌈x⌉ : K)) (h : ChildOut cfg comm V T cash tot i s t q) (d : Nat)
    (htol : 0 < cfg.tol) (hr : RSec d s) (hint : s.integer = true) (hwhole : ∃ z : ℤ, s.position = (z : K))
    (hnd : (T.map (·.1)).Nodup) (hw : s.weight * V = s.value)
    (wt : K) (hi : (i, wt) ∈ T) (hz : isZero cfg.tol (wt * cashScale cash) = false) :
    WithinUnit cfg comm (wt * cashScale cash * V) s t :=
  h.int_target hfloor hceil d htol hr hint hwhole hnd wt hi hz hw

theorem ChildOut.closedOr (h : ChildOut cfg comm V T cash tot i s t q) (d : Nat) (htol : 0 < cfg.tol)
    (hr : RSec d s) (hnd : (T.map (·.1)).Nodup) (hc : NotTargeted cfg T cash i) :
    ClosedOrUntouched cfg comm s t :=
  h.closed d htol hr hnd hc

end child

/-- "within one trading unit plus costs": a whole-unit child that was traded ends within the cost booked for its
    trade plus the largest of one unit's value, the full outlay of one more unit, `TOL`, and `isclose`'s
    tolerance, of its target -/
theorem WithinUnit.bound {cfg : Cfg K} {comm : K → K → K} {target : K} {s t : SecData K}
    (h : WithinUnit cfg comm target s t) (hk : Kept s t) (hmoved : t.position ≠ s.position)
    (hcost : 0 ≤ childCost comm s t) :
    |t.value - target| ≤ childCost comm s t +
      max (max |px s * s.mult| (unitOutlay cfg comm s (t.position - s.position)))
        (max cfg.tol (cfg.atol + cfg.tol * |target - s.value|)) := by
  have m1 : |px s * s.mult| ≤ max (max |px s * s.mult| (unitOutlay cfg comm s (t.position - s.position)))
      (max cfg.tol (cfg.atol + cfg.tol * |target - s.value|)) :=
    le_trans (le_max_left _ _) (le_max_left _ _)
  have m2 : unitOutlay cfg comm s (t.position - s.position) ≤
      max (max |px s * s.mult| (unitOutlay cfg comm s (t.position - s.position)))
        (max cfg.tol (cfg.atol + cfg.tol * |target - s.value|)) :=
    le_trans (le_max_right _ _) (le_max_left _ _)
  have m3 : cfg.tol ≤ max (max |px s * s.mult| (unitOutlay cfg comm s (t.position - s.position)))
      (max cfg.tol (cfg.atol + cfg.tol * |target - s.value|)) :=
    le_trans (le_max_left _ _) (le_max_right _ _)
  have m4 : cfg.atol + cfg.tol * |target - s.value| ≤
      max (max |px s * s.mult| (unitOutlay cfg comm s (t.position - s.position)))
        (max cfg.tol (cfg.atol + cfg.tol * |target - s.value|)) :=
    le_trans (le_max_right _ _) (le_max_right _ _)
  rcases h with ⟨e, _⟩ | ⟨e, h1 | h1⟩ | ⟨_, h1⟩ | ⟨_, _, _, _, h1, h2⟩
  · exact absurd e hmoved
  · have hv : t.value = 0 := by rw [hk.1, e]; ring
    rw [hv, zero_sub, abs_neg]
    linarith
  · linarith
  · have := abs_le.1 h1
    rw [abs_le]; constructor <;> linarith
  · rw [abs_le]; constructor <;> linarith

end Bt.P06
