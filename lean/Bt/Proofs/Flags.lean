import Bt.Proofs.C08RowsRead
import Bt.Engine.Backtest
/-! C16 (flags): which operations can touch a `bankrupt` flag.

  `Node.skel` projects a tree onto what no operation may change: the shape, and per node its kind, name and
  `fixedIncome`, and per strategy its `bankrupt` flag.  Every operation of the model except `updRoot` keeps
  the whole skeleton; `updRoot` keeps everything but the flag of the root, which becomes
  `old || trigger`, `trigger` being the model's test on the total (`rootTotal`) it has just computed. -/
set_option linter.unusedSectionVars false
namespace Bt.P16
open Bt Bt.P08

variable {K : Type} [Field K] [LinearOrder K] [IsStrictOrderedRing K] [HasFloor K]

/-! ### the projection -/

/-- what must never change on a security -/
structure SecTag where
  name : String
  kind : SecKind
  fixedIncome : Bool
  deriving DecidableEq, Repr

/-- what must never change on a strategy — except, for the root only, `bankrupt` -/
structure StratTag where
  name : String
  fixedIncome : Bool
  bankrupt : Bool
  deriving DecidableEq, Repr

/-- the skeleton of a tree -/
inductive Skel where
  | sec : SecTag → Skel
  | strat : StratTag → List Skel → Skel

def secTag (s : SecData K) : SecTag := ⟨s.name, s.kind, s.fixedIncome⟩
def stratTag (sd : StratData K) : StratTag := ⟨sd.name, sd.fixedIncome, sd.bankrupt⟩

mutual
def _root_.Bt.Node.skel : Node K → Skel
  | .sec s => .sec (secTag s)
  | .strat sd ks => .strat (stratTag sd) (skelL ks)
def skelL : List (Node K) → List Skel
  | [] => []
  | k :: ks => k.skel :: skelL ks
end

@[simp] theorem skel_sec (s : SecData K) : (Node.sec s).skel = .sec (secTag s) := by simp [Node.skel]
@[simp] theorem skel_strat (sd : StratData K) (ks : List (Node K)) :
    (Node.strat sd ks).skel = .strat (stratTag sd) (skelL ks) := by simp [Node.skel]
@[simp] theorem skelL_nil : skelL ([] : List (Node K)) = [] := by simp [skelL]
@[simp] theorem skelL_cons (k : Node K) (ks : List (Node K)) : skelL (k :: ks) = k.skel :: skelL ks := by
  simp [skelL]

theorem skelL_eq_map : ∀ ks : List (Node K), skelL ks = ks.map Node.skel
  | [] => by simp
  | k :: ks => by simp [skelL_eq_map ks]

/-- the skeleton with the flag of the root erased: everything `updRoot` keeps -/
def Skel.noRootFlag : Skel → Skel
  | .sec t => .sec t
  | .strat t ks => .strat { t with bankrupt := false } ks

/-- the flag of the root (`false` on a security, as `World.bankrupt`) -/
def Skel.rootFlag : Skel → Bool
  | .sec _ => false
  | .strat t _ => t.bankrupt

/-- `fixedIncome` of the root -/
def Skel.rootFI : Skel → Bool
  | .sec t => t.fixedIncome
  | .strat t _ => t.fixedIncome

def _root_.Bt.Node.subSkel (n : Node K) : Skel := n.skel.noRootFlag

mutual
/-- the `bankrupt` flags of all strategies of a tree, pre-order -/
def _root_.Bt.Node.flags : Node K → List Bool
  | .sec _ => []
  | .strat sd ks => sd.bankrupt :: flagsL ks
def flagsL : List (Node K) → List Bool
  | [] => []
  | k :: ks => k.flags ++ flagsL ks
end

/-- the flags of all strategies strictly below the root -/
def _root_.Bt.Node.subFlags : Node K → List Bool
  | .sec _ => []
  | .strat _ ks => flagsL ks

mutual
/-- `fixedIncome` of all nodes of a tree, pre-order -/
def _root_.Bt.Node.fis : Node K → List Bool
  | .sec s => [s.fixedIncome]
  | .strat sd ks => sd.fixedIncome :: fisL ks
def fisL : List (Node K) → List Bool
  | [] => []
  | k :: ks => k.fis ++ fisL ks
end

mutual
/-- number of nodes and of children of every node, pre-order (the shape of the tree) -/
def _root_.Bt.Node.shape : Node K → List (Option Nat)
  | .sec _ => [none]
  | .strat _ ks => some ks.length :: shapeL ks
def shapeL : List (Node K) → List (Option Nat)
  | [] => []
  | k :: ks => k.shape ++ shapeL ks
end

mutual
theorem flags_of_skel : (n n' : Node K) → n'.skel = n.skel → n'.flags = n.flags
  | .sec _, .sec _, _ => by simp [Node.flags]
  | .strat sd ks, .strat sd' ks', h => by
    simp only [skel_strat, Skel.strat.injEq] at h
    have hb : sd'.bankrupt = sd.bankrupt := congrArg StratTag.bankrupt h.1
    simp only [Node.flags, hb, flagsL_of_skelL ks ks' h.2]
  | .sec _, .strat _ _, h => by simp at h
  | .strat _ _, .sec _, h => by simp at h
theorem flagsL_of_skelL : (ks ks' : List (Node K)) → skelL ks' = skelL ks → flagsL ks' = flagsL ks
  | [], [], _ => rfl
  | k :: ks, k' :: ks', h => by
    simp only [skelL_cons, List.cons.injEq] at h
    simp only [flagsL, flags_of_skel k k' h.1, flagsL_of_skelL ks ks' h.2]
  | [], _ :: _, h => by simp at h
  | _ :: _, [], h => by simp at h
end

mutual
theorem fis_of_skel : (n n' : Node K) → n'.skel = n.skel → n'.fis = n.fis
  | .sec s, .sec s', h => by
    simp only [skel_sec, Skel.sec.injEq] at h
    have hb : s'.fixedIncome = s.fixedIncome := congrArg SecTag.fixedIncome h
    simp [Node.fis, hb]
  | .strat sd ks, .strat sd' ks', h => by
    simp only [skel_strat, Skel.strat.injEq] at h
    have hb : sd'.fixedIncome = sd.fixedIncome := congrArg StratTag.fixedIncome h.1
    simp only [Node.fis, hb, fisL_of_skelL ks ks' h.2]
  | .sec _, .strat _ _, h => by simp at h
  | .strat _ _, .sec _, h => by simp at h
theorem fisL_of_skelL : (ks ks' : List (Node K)) → skelL ks' = skelL ks → fisL ks' = fisL ks
  | [], [], _ => rfl
  | k :: ks, k' :: ks', h => by
    simp only [skelL_cons, List.cons.injEq] at h
    simp only [fisL, fis_of_skel k k' h.1, fisL_of_skelL ks ks' h.2]
  | [], _ :: _, h => by simp at h
  | _ :: _, [], h => by simp at h
end

theorem skelL_length : ∀ ks : List (Node K), (skelL ks).length = ks.length
  | [] => by simp
  | k :: ks => by simp [skelL_length ks]

mutual
theorem shape_of_skel : (n n' : Node K) → n'.skel = n.skel → n'.shape = n.shape
  | .sec _, .sec _, _ => by simp [Node.shape]
  | .strat sd ks, .strat sd' ks', h => by
    simp only [skel_strat, Skel.strat.injEq] at h
    have hl : ks'.length = ks.length := by rw [← skelL_length ks', h.2, skelL_length]
    simp only [Node.shape, hl, shapeL_of_skelL ks ks' h.2]
  | .sec _, .strat _ _, h => by simp at h
  | .strat _ _, .sec _, h => by simp at h
theorem shapeL_of_skelL : (ks ks' : List (Node K)) → skelL ks' = skelL ks → shapeL ks' = shapeL ks
  | [], [], _ => rfl
  | k :: ks, k' :: ks', h => by
    simp only [skelL_cons, List.cons.injEq] at h
    simp only [shapeL, shape_of_skel k k' h.1, shapeL_of_skelL ks ks' h.2]
  | [], _ :: _, h => by simp at h
  | _ :: _, [], h => by simp at h
end

/-- equal skeletons below the root flag: equal sub-strategy flags, equal `fixedIncome` everywhere,
    equal shape -/
theorem of_subSkel {n n' : Node K} (h : n'.subSkel = n.subSkel) :
    n'.subFlags = n.subFlags ∧ n'.fis = n.fis ∧ n'.shape = n.shape := by
  cases n with
  | sec s =>
    cases n' with
    | sec s' =>
      have h' : (Node.sec s').skel = (Node.sec s).skel := by
        simpa [Node.subSkel, Skel.noRootFlag] using h
      exact ⟨rfl, fis_of_skel _ _ h', shape_of_skel _ _ h'⟩
    | strat sd' ks' => simp [Node.subSkel, Skel.noRootFlag] at h
  | strat sd ks =>
    cases n' with
    | sec s' => simp [Node.subSkel, Skel.noRootFlag] at h
    | strat sd' ks' =>
      simp only [Node.subSkel, skel_strat, Skel.noRootFlag, Skel.strat.injEq, StratTag.mk.injEq,
        and_true] at h
      obtain ⟨⟨-, hfi⟩, hks⟩ := h
      have hfi' : sd'.fixedIncome = sd.fixedIncome := hfi
      have hl : ks'.length = ks.length := by rw [← skelL_length ks', hks, skelL_length]
      refine ⟨flagsL_of_skelL _ _ hks, ?_, ?_⟩
      · simp only [Node.fis, hfi', fisL_of_skelL _ _ hks]
      · simp only [Node.shape, hl, shapeL_of_skelL _ _ hks]

theorem subSkel_of_skel {n n' : Node K} (h : n'.skel = n.skel) : n'.subSkel = n.subSkel := by
  simp only [Node.subSkel, h]

theorem bankrupt_eq_rootFlag (w : World K) : w.bankrupt = w.root.skel.rootFlag := by
  unfold World.bankrupt
  cases w.root <;> simp [Skel.rootFlag, stratTag]

/-- `fixedIncome` of the root of a world -/
def _root_.Bt.World.rootFI (w : World K) : Bool := w.root.fixedIncome

theorem rootFI_eq (w : World K) : w.rootFI = w.root.skel.noRootFlag.rootFI := by
  unfold World.rootFI
  cases w.root <;> simp [Skel.rootFI, Skel.noRootFlag, stratTag, secTag, Node.fixedIncome]

theorem bankrupt_of_skel {w w' : World K} (h : w'.root.skel = w.root.skel) : w'.bankrupt = w.bankrupt := by
  rw [bankrupt_eq_rootFlag, bankrupt_eq_rootFlag, h]

theorem rootFI_of_subSkel {w w' : World K} (h : w'.root.subSkel = w.root.subSkel) : w'.rootFI = w.rootFI := by
  rw [rootFI_eq, rootFI_eq]; exact congrArg Skel.rootFI h

/-- the subtree at every path keeps its skeleton -/
theorem skel_get? : ∀ (p : List Nat) (n n' : Node K), n'.skel = n.skel →
    (n'.get? p).map Node.skel = (n.get? p).map Node.skel
  | [], n, n', h => by
    cases n <;> cases n' <;> simp [Node.get?, h]
  | i :: rest, .sec s, .sec s', _ => by simp [Node.get?]
  | i :: rest, .strat sd ks, .strat sd' ks', h => by
    simp only [skel_strat, Skel.strat.injEq] at h
    have hk : (ks'[i]?).map Node.skel = (ks[i]?).map Node.skel := by
      rw [← List.getElem?_map, ← List.getElem?_map, ← skelL_eq_map, ← skelL_eq_map, h.2]
    simp only [Node.get?]
    cases hi : ks[i]? with
    | none =>
      rw [hi] at hk
      cases hi' : ks'[i]? with
      | none => rfl
      | some k' => rw [hi'] at hk; cases hk
    | some k =>
      rw [hi] at hk
      cases hi' : ks'[i]? with
      | none => rw [hi'] at hk; cases hk
      | some k' =>
        rw [hi'] at hk
        simp only [Option.map_some, Option.some.injEq] at hk
        exact skel_get? rest k k' hk
  | i :: rest, .sec _, .strat _ _, h => by simp at h
  | i :: rest, .strat _ _, .sec _, h => by simp at h

/-- equal skeletons below the root flag: the subtree at every path other than the root keeps its whole
    skeleton (flags included) -/
theorem subSkel_get? {n n' : Node K} (h : n'.subSkel = n.subSkel) (i : Nat) (rest : List Nat) :
    (n'.get? (i :: rest)).map Node.skel = (n.get? (i :: rest)).map Node.skel := by
  cases n with
  | sec s =>
    cases n' with
    | sec s' => simp [Node.get?]
    | strat sd' ks' => simp [Node.subSkel, Skel.noRootFlag] at h
  | strat sd ks =>
    cases n' with
    | sec s' => simp [Node.subSkel, Skel.noRootFlag] at h
    | strat sd' ks' =>
      simp only [Node.subSkel, skel_strat, Skel.noRootFlag, Skel.strat.injEq] at h
      have h' : (Node.strat sd ks').skel = (Node.strat sd ks).skel := by simp [h.2]
      have := skel_get? (i :: rest) _ _ h'
      simpa [Node.get?] using this

/-! ### securities: no step touches `name`, `kind`, `fixedIncome` -/

theorem secDateChange_tag (d : Nat) (s : SecData K) : secTag (secDateChange d s) = secTag s := by
  unfold secDateChange; split <;> rfl
theorem secRecordPos_tag (d : Nat) (s : SecData K) : secTag (secRecordPos d s) = secTag s := rfl
theorem secSetValue_tag (d : Nat) (v : K) (s : SecData K) : secTag (secSetValue d v s) = secTag s := rfl
theorem secQuiet_tag (cfg : Cfg K) (s : SecData K) : secTag (secQuiet cfg s) = secTag s := by
  unfold secQuiet; split <;> rfl
theorem secFlushOutlay_tag (d : Nat) (s : SecData K) : secTag (secFlushOutlay d s) = secTag s := by
  unfold secFlushOutlay; split <;> rfl
theorem secRowBidoffer_tag (d : Nat) (s : SecData K) : secTag (secRowBidoffer d s) = secTag s := by
  unfold secRowBidoffer; split <;> rfl
theorem secFiTail_tag (d : Nat) (s : SecData K) : secTag (secFiTail d s) = secTag s := rfl
theorem secHedgeTail_tag (s : SecData K) : secTag (secHedgeTail s) = secTag s := rfl
theorem withCoupon_tag (d : Nat) (s : SecData K) (c hc : K) : secTag (withCoupon d s c hc) = secTag s := rfl

theorem secBaseUpdate_tag {cfg : Cfg K} {d : Nat} {s s1 : SecData K}
    (h : secBaseUpdate cfg d s = .ok s1) : secTag s1 = secTag s := by
  rcases secBaseUpdate_cases h with ⟨_, rfl⟩ | ⟨_, v, _, rfl⟩
  · rfl
  · rw [secRowBidoffer_tag, secFlushOutlay_tag, secQuiet_tag, secSetValue_tag, secRecordPos_tag,
      secDateChange_tag]

theorem secTail_tag {cfg : Cfg K} {d : Nat} {k : SecKind} {s1 s' : SecData K}
    (h : secTail cfg d k s1 = .ok s') : secTag s' = secTag s1 := by
  cases k with
  | plain => cases h; rfl
  | fi => cases h; rfl
  | hedge => cases h; rfl
  | coupon =>
    obtain ⟨c, hc, _, _, rfl⟩ := secCouponTail_ok h
    rfl
  | couponHedge =>
    obtain ⟨s2, h', rfl⟩ := map_eq_ok h
    obtain ⟨c, hc, _, _, rfl⟩ := secCouponTail_ok h'
    rfl

/-- `SecurityBase.update` (any subclass) -/
theorem secUpdate_tag {cfg : Cfg K} {d : Nat} {s s' : SecData K}
    (h : secUpdate cfg d s = .ok s') : secTag s' = secTag s := by
  rw [secUpdate_eq] at h
  obtain ⟨s1, hb, ht⟩ := bind_eq_ok h
  exact (secTail_tag ht).trans (secBaseUpdate_tag hb)

theorem secRefresh_tag {cfg : Cfg K} {pnow : Option Nat} {s s' : SecData K}
    (h : secRefresh cfg pnow s = .ok s') : secTag s' = secTag s := by
  unfold secRefresh at h
  split at h
  · cases pnow with
    | none => cases h
    | some d => exact secUpdate_tag h
  · cases h; rfl

theorem secTransactCore_tag {cfg : Cfg K} {comm : K → K → K} {s : SecData K} {q : K}
    {custom : Option K} {r : SecData K × Option (Adj K)}
    (h : secTransactCore cfg comm s q custom = .ok r) : secTag r.1 = secTag s := by
  unfold secTransactCore at h
  split at h
  · cases h; rfl
  · split at h
    · cases h
    · obtain ⟨⟨full, outlay, fee, bo⟩, _, h⟩ := bind_eq_ok h
      cases h; rfl

theorem secTransact_tag {cfg : Cfg K} {pnow : Option Nat} {comm : K → K → K}
    {s : SecData K} {q : K} {u : Bool} {custom : Option K} {r : SecData K × Option (Adj K)}
    (h : secTransact cfg pnow comm s q u custom = .ok r) : secTag r.1 = secTag s := by
  unfold secTransact at h
  obtain ⟨s1, h1, h2⟩ := bind_eq_ok h
  refine (secTransactCore_tag h2).trans ?_
  split at h1
  · exact secRefresh_tag h1
  · cases h1; rfl

theorem secAllocate_tag {cfg : Cfg K} {pnow : Option Nat} {comm : K → K → K}
    {s : SecData K} {amount : K} {r : SecData K × Option (Adj K)}
    (h : secAllocate cfg pnow comm s amount = .ok r) : secTag r.1 = secTag s := by
  unfold secAllocate at h
  obtain ⟨s1, h1, h⟩ := bind_eq_ok h
  obtain ⟨oq, _, h⟩ := bind_eq_ok h
  refine Eq.trans ?_ (secRefresh_tag h1)
  cases oq with
  | none => cases h; rfl
  | some q => exact secTransactCore_tag h

theorem sweepSec_tag (np : Bool) (s : SecData K) (acc : Acc K) : secTag (sweepSec np s acc).1 = secTag s := by
  unfold sweepSec; split <;> rfl

/-! ### strategies: no step of `update` / `adjust` touches `name`, `fixedIncome`, `bankrupt` -/

theorem adjust_tag (sd : StratData K) (a : Adj K) : stratTag (sd.adjust a) = stratTag sd := rfl

theorem foldl_adjust_tag (adjs : List (Adj K)) (sd : StratData K) :
    stratTag (adjs.foldl StratData.adjust sd) = stratTag sd := by
  induction adjs generalizing sd with
  | nil => rfl
  | cons a as ih => rw [List.foldl_cons, ih, adjust_tag]

theorem stratDateChange_tag (d : Nat) (sd : StratData K) : stratTag (stratDateChange d sd).1 = stratTag sd := by
  unfold stratDateChange; split
  · rfl
  · split <;> rfl

theorem stratSetTotals_tag (d : Nat) (sd : StratData K) (v n b : K) :
    stratTag (stratSetTotals d sd v n b) = stratTag sd := by
  unfold stratSetTotals; simp only; split <;> rfl

theorem stratSetPrice_tag (d : Nat) (sd : StratData K) (p : K) : stratTag (stratSetPrice d sd p) = stratTag sd :=
  rfl

theorem stratWrite_tag {cfg : Cfg K} {d : Nat} {np : Bool} {sd sd3 : StratData K} {v n b : K}
    (h : stratWrite cfg d np sd v n b = .ok sd3) : stratTag sd3 = stratTag sd := by
  rcases stratWrite_cases h with ⟨_, rfl⟩ | ⟨_, p, rfl⟩
  · rfl
  · rw [stratSetPrice_tag, stratSetTotals_tag]

theorem stratRows_tag (d : Nat) (sd : StratData K) : stratTag (stratRows d sd) = stratTag sd := by
  unfold stratRows; simp only; split <;> rfl

theorem capital_tag (sd : StratData K) (c : K) : stratTag { sd with capital := c } = stratTag sd := rfl

/-! ### weights -/

theorem setWeight_skel (w : K) (k : Node K) : (k.setWeight w).skel = k.skel := by
  cases k <;> simp [Node.setWeight, secTag, stratTag]

theorem kidsWeights_skelL (cfg : Cfg K) (fi : Bool) (v n : K) :
    ∀ ks : List (Node K), skelL (kidsWeights cfg fi v n ks) = skelL ks
  | [] => by simp [kidsWeights]
  | k :: ks => by
    rw [kidsWeights_cons, skelL_cons, skelL_cons, kidsWeights_skelL cfg fi v n ks]
    split
    · rfl
    · rw [setWeight_skel]

/-! ### `update` of any node -/

theorem stratFinish_skel {cfg : Cfg K} {d : Nat} {np : Bool} {sd1 : StratData K}
    {r : List (Node K) × Acc K} {n' : Node K}
    (h : stratFinish cfg d np sd1 r = .ok n') : n'.skel = (Node.strat sd1 r.1).skel := by
  unfold stratFinish at h
  obtain ⟨sd3, hw, rfl⟩ := map_eq_ok h
  rw [skel_strat, skel_strat, kidsWeights_skelL, stratRows_tag, stratWrite_tag hw, capital_tag]

mutual
/-- `update(d)` of a node changes no flag, no `fixedIncome`, no name, no shape -/
theorem updNode_skel {cfg : Cfg K} {d : Nat} :
    (n : Node K) → ∀ n', updNode cfg d n = .ok n' → n'.skel = n.skel
  | .sec s, n', h => by
    rw [updNode.eq_1] at h
    obtain ⟨s', hs, rfl⟩ := map_eq_ok h
    rw [skel_sec, skel_sec, secUpdate_tag hs]
  | .strat sd kids, n', h => by
    rw [updNode_strat] at h
    obtain ⟨⟨kids1, acc⟩, hk, hf⟩ := bind_eq_ok h
    rw [stratFinish_skel hf, skel_strat, skel_strat, stratDateChange_tag,
      updKids_skelL kids _ _ _ _ _ hk]

theorem updKids_skelL {cfg : Cfg K} {d : Nat} :
    (ks : List (Node K)) → ∀ (newpt bo : Bool) (acc : Acc K) ks' a,
      updKids cfg d newpt bo ks acc = .ok (ks', a) → skelL ks' = skelL ks
  | [], newpt, bo, acc, ks', a, h => by
    rw [updKids.eq_1] at h; cases h; rfl
  | .sec s :: ks, newpt, bo, acc, ks', a, h => by
    rw [updKids_sec] at h
    split at h
    · obtain ⟨⟨ks1, a1⟩, hrest, hr⟩ := map_eq_ok h
      cases hr
      rw [skelL_cons, skelL_cons, skel_sec, skel_sec, sweepSec_tag, updKids_skelL ks _ _ _ _ _ hrest]
    · obtain ⟨s1, hs1, h⟩ := bind_eq_ok h
      obtain ⟨⟨ks1, a1⟩, hrest, hr⟩ := map_eq_ok h
      cases hr
      rw [skelL_cons, skelL_cons, skel_sec, skel_sec, secUpdate_tag hs1, sweepSec_tag,
        updKids_skelL ks _ _ _ _ _ hrest]
  | .strat sd kk :: ks, newpt, bo, acc, ks', a, h => by
    rw [updKids_strat] at h
    obtain ⟨k1, hk1, h⟩ := bind_eq_ok h
    obtain ⟨⟨ks1, a1⟩, hrest, hr⟩ := map_eq_ok h
    cases hr
    rw [skelL_cons, skelL_cons, updNode_skel (.strat sd kk) _ hk1, updKids_skelL ks _ _ _ _ _ hrest]
end

/-! ### `allocate` / `transact` pushed down a tree -/

mutual
theorem allocNode_skel {cfg : Cfg K} :
    (n : Node K) → ∀ (pnow : Option Nat) (comm : K → K → K) (amount : K) r,
      allocNode cfg pnow comm amount n = .ok r → r.1.skel = n.skel
  | .sec s, pnow, comm, amount, r, h => by
    rw [allocNode.eq_1] at h
    obtain ⟨⟨s', a⟩, hs, rfl⟩ := map_eq_ok h
    rw [skel_sec, skel_sec]; exact congrArg _ (secAllocate_tag hs)
  | .strat sd kids, pnow, comm, amount, r, h => by
    rw [allocNode.eq_2] at h
    obtain ⟨⟨sd2, kids2⟩, hk, rfl⟩ := map_eq_ok h
    obtain ⟨h1, h3⟩ := allocKids_skel kids amount (sd.adjust _) _ _ hk
    rw [skel_strat, skel_strat, h1, h3, adjust_tag]

theorem allocKids_skel {cfg : Cfg K} :
    (ks : List (Node K)) → ∀ (amount : K) (sd sd' : StratData K) ks',
      allocKids cfg amount ks sd = .ok (sd', ks') → stratTag sd' = stratTag sd ∧ skelL ks' = skelL ks
  | [], amount, sd, sd', ks', h => by
    rw [allocKids.eq_1] at h; cases h
    exact ⟨rfl, rfl⟩
  | k :: ks, amount, sd, sd', ks', h => by
    rw [allocKids.eq_2] at h
    obtain ⟨⟨k', adjs⟩, hk, h⟩ := bind_eq_ok h
    obtain ⟨⟨sd2, ks2⟩, hrest, hr⟩ := map_eq_ok h
    cases hr
    have hk' := allocNode_skel k _ _ _ _ hk
    obtain ⟨h1, h3⟩ := allocKids_skel ks amount _ _ _ hrest
    refine ⟨h1.trans (foldl_adjust_tag adjs sd), ?_⟩
    rw [skelL_cons, skelL_cons, h3]; exact congrArg (· :: _) hk'
end

mutual
theorem transNode_skel {cfg : Cfg K} :
    (n : Node K) → ∀ (pnow : Option Nat) (comm : K → K → K) (q : K) (custom : Option K) r,
      transNode cfg pnow comm q custom n = .ok r → r.1.skel = n.skel
  | .sec s, pnow, comm, q, custom, r, h => by
    rw [transNode.eq_1] at h
    obtain ⟨⟨s', a⟩, hs, rfl⟩ := map_eq_ok h
    rw [skel_sec, skel_sec]; exact congrArg _ (secTransact_tag hs)
  | .strat sd kids, pnow, comm, q, custom, r, h => by
    rw [transNode.eq_2] at h
    obtain ⟨⟨sd2, kids2⟩, hk, rfl⟩ := map_eq_ok h
    obtain ⟨h1, h3⟩ := transKids_skel kids q _ _ _ hk
    rw [skel_strat, skel_strat, h1, h3]

theorem transKids_skel {cfg : Cfg K} :
    (ks : List (Node K)) → ∀ (q : K) (sd sd' : StratData K) ks',
      transKids cfg q ks sd = .ok (sd', ks') → stratTag sd' = stratTag sd ∧ skelL ks' = skelL ks
  | [], q, sd, sd', ks', h => by
    rw [transKids.eq_1] at h; cases h
    exact ⟨rfl, rfl⟩
  | k :: ks, q, sd, sd', ks', h => by
    rw [transKids.eq_2] at h
    obtain ⟨⟨k', adjs⟩, hk, h⟩ := bind_eq_ok h
    obtain ⟨⟨sd2, ks2⟩, hrest, hr⟩ := map_eq_ok h
    cases hr
    have hk' := transNode_skel k _ _ _ _ _ hk
    obtain ⟨h1, h3⟩ := transKids_skel ks q _ _ _ hrest
    refine ⟨h1.trans (foldl_adjust_tag adjs sd), ?_⟩
    rw [skelL_cons, skelL_cons, h3]; exact congrArg (· :: _) hk'
end

/-! ### `flatten` of one level -/

theorem flattenKidsMV_skel {cfg : Cfg K} :
    ∀ (ks : List (Node K)) (sd sd' : StratData K) (ks' : List (Node K)),
      flattenKidsMV cfg ks sd = .ok (sd', ks') → stratTag sd' = stratTag sd ∧ skelL ks' = skelL ks
  | [], sd, sd', ks', h => by
    rw [flattenKidsMV] at h; cases h; exact ⟨rfl, rfl⟩
  | k :: ks, sd, sd', ks', h => by
    rw [flattenKidsMV] at h
    split at h
    · obtain ⟨⟨sd2, ks2⟩, h2, hr⟩ := map_eq_ok h
      cases hr
      obtain ⟨h1, h3⟩ := flattenKidsMV_skel ks sd _ _ h2
      exact ⟨h1, by rw [skelL_cons, skelL_cons, h3]⟩
    · obtain ⟨⟨k', adjs⟩, hk, h⟩ := bind_eq_ok h
      obtain ⟨⟨sd2, ks2⟩, h2, hr⟩ := map_eq_ok h
      cases hr
      obtain ⟨h1, h3⟩ := flattenKidsMV_skel ks _ _ _ h2
      have hk' := allocNode_skel k _ _ _ _ hk
      refine ⟨h1.trans (foldl_adjust_tag adjs sd), ?_⟩
      rw [skelL_cons, skelL_cons, h3]; exact congrArg (· :: _) hk'

theorem flattenKidsFI_skel {cfg : Cfg K} :
    ∀ (ks : List (Node K)) (sd sd' : StratData K) (ks' : List (Node K)),
      flattenKidsFI cfg ks sd = .ok (sd', ks') → stratTag sd' = stratTag sd ∧ skelL ks' = skelL ks
  | [], sd, sd', ks', h => by
    rw [flattenKidsFI] at h; cases h; exact ⟨rfl, rfl⟩
  | .strat _ _ :: ks, sd, sd', ks', h => by
    rw [flattenKidsFI] at h; cases h
  | .sec s :: ks, sd, sd', ks', h => by
    rw [flattenKidsFI] at h
    split at h
    · obtain ⟨⟨sd2, ks2⟩, h2, hr⟩ := map_eq_ok h
      cases hr
      obtain ⟨h1, h3⟩ := flattenKidsFI_skel ks sd _ _ h2
      exact ⟨h1, by rw [skelL_cons, skelL_cons, h3]⟩
    · obtain ⟨⟨s', adj⟩, hk, h⟩ := bind_eq_ok h
      obtain ⟨⟨sd2, ks2⟩, h2, hr⟩ := map_eq_ok h
      cases hr
      obtain ⟨h1, h3⟩ := flattenKidsFI_skel ks _ _ _ h2
      have hk' : secTag s' = secTag s := secTransact_tag hk
      refine ⟨h1.trans (foldl_adjust_tag _ sd), ?_⟩
      rw [skelL_cons, skelL_cons, h3, skel_sec, skel_sec, hk']

theorem flattenStrat_skel {cfg : Cfg K} {sd sd' : StratData K} {ks ks' : List (Node K)}
    (h : flattenStrat cfg sd ks = .ok (sd', ks')) : stratTag sd' = stratTag sd ∧ skelL ks' = skelL ks := by
  unfold flattenStrat at h
  split at h
  · exact flattenKidsFI_skel _ _ _ _ h
  · exact flattenKidsMV_skel _ _ _ _ h

theorem flatF_skel {cfg : Cfg K} {par : Option (StratData K)} {n : Node K} {r : OpRes K}
    (h : flatF cfg par n = .ok r) : r.1.skel = n.skel := by
  cases n with
  | sec s => cases h
  | strat sd ks =>
    simp only [flatF] at h
    obtain ⟨⟨sd', ks'⟩, hfl, rfl⟩ := map_eq_ok h
    obtain ⟨h1, h2⟩ := flattenStrat_skel hfl
    rw [skel_strat, skel_strat, h1, h2]

/-! ### operations addressed by a path -/

theorem skelL_set {k k' : Node K} (hk : k'.skel = k.skel) :
    ∀ (ks : List (Node K)) (i : Nat), ks[i]? = some k → skelL (ks.set i k') = skelL ks
  | [], i, h => by simp at h
  | a :: ks, 0, h => by
    simp only [List.getElem?_cons_zero, Option.some.injEq] at h
    subst h
    simp only [List.set_cons_zero, skelL_cons, hk]
  | a :: ks, i + 1, h => by
    simp only [List.getElem?_cons_succ] at h
    simp only [List.set_cons_succ, skelL_cons, skelL_set hk ks i h]

/-- `modAt` with any `f` that keeps the skeleton of the node it is applied to -/
theorem modAt_skel {f : Option (StratData K) → Node K → Except Err (OpRes K)}
    (hf : ∀ par n r, f par n = .ok r → r.1.skel = n.skel) :
    ∀ (path : List Nat) (par : Option (StratData K)) (n : Node K) (r : OpRes K),
      modAt f path par n = .ok r → r.1.skel = n.skel
  | [], par, n, r, h => by rw [modAt.eq_1] at h; exact hf _ _ _ h
  | i :: rest, par, .sec s, r, h => by rw [modAt.eq_2] at h; cases h
  | i :: rest, par, .strat sd kids, r, h => by
    rw [modAt.eq_3] at h
    split at h
    · cases h
    · rename_i k hk
      obtain ⟨⟨k', adjs, st⟩, hm, rfl⟩ := map_eq_ok h
      have := modAt_skel hf rest _ _ _ hm
      rw [skel_strat, skel_strat, foldl_adjust_tag, skelL_set this kids i hk]

theorem modify_skel {f : Option (StratData K) → Node K → Except Err (OpRes K)}
    (hf : ∀ par n r, f par n = .ok r → r.1.skel = n.skel) {w w' : World K} {path : List Nat}
    (h : w.modify path f = .ok w') : w'.root.skel = w.root.skel := by
  unfold World.modify at h
  obtain ⟨⟨r, adjs, st⟩, hm, rfl⟩ := map_eq_ok h
  exact modAt_skel hf _ _ _ _ hm

/-! ### recursive `flatten`, the refresh inside the bankruptcy step -/

theorem refreshNB_skel {cfg : Cfg K} {w w' : World K} (h : refreshNB cfg w = .ok w') :
    w'.root.skel = w.root.skel := by
  unfold refreshNB at h
  split at h
  · obtain ⟨n, hn, rfl⟩ := map_eq_ok h
    exact updNode_skel _ _ hn
  · cases h

/-- recursive `flatten` with any getter refresh `rf` that keeps the skeleton -/
theorem flattenAt_skel {cfg : Cfg K} {rf : World K → Except Err (World K)}
    (hrf : ∀ w w', rf w = .ok w' → w'.root.skel = w.root.skel) {n : Node K} {path : List Nat} {w w' : World K}
    (h : flattenAt cfg rf n path w = .ok w') : w'.root.skel = w.root.skel :=
  flattenAt_inv (I := fun x => x.root.skel = w.root.skel)
    (fun _ _ h1 hI => (hrf _ _ h1).trans hI)
    (fun _ _ _ h1 hI => (modify_skel (fun _ _ _ => flatF_skel) h1).trans hI)
    n path w w' h rfl

theorem flattenSubs_skel {cfg : Cfg K} {rf : World K → Except Err (World K)}
    (hrf : ∀ w w', rf w = .ok w' → w'.root.skel = w.root.skel) {ks : List (Node K)} {path : List Nat} {i : Nat}
    {w w' : World K} (h : flattenSubs cfg rf ks path i w = .ok w') : w'.root.skel = w.root.skel :=
  flattenSubs_inv (I := fun x => x.root.skel = w.root.skel)
    (fun _ _ h1 hI => (hrf _ _ h1).trans hI)
    (fun _ _ _ h1 hI => (modify_skel (fun _ _ _ => flatF_skel) h1).trans hI)
    ks path i w w' h rfl

/-- … and with any getter refresh that keeps everything but the root's flag -/
theorem flattenAt_subSkel {cfg : Cfg K} {rf : World K → Except Err (World K)}
    (hrf : ∀ w w', rf w = .ok w' → w'.root.subSkel = w.root.subSkel) {n : Node K} {path : List Nat}
    {w w' : World K} (h : flattenAt cfg rf n path w = .ok w') : w'.root.subSkel = w.root.subSkel :=
  flattenAt_inv (I := fun x => x.root.subSkel = w.root.subSkel)
    (fun _ _ h1 hI => (hrf _ _ h1).trans hI)
    (fun _ _ _ h1 hI => (subSkel_of_skel (modify_skel (fun _ _ _ => flatF_skel) h1)).trans hI)
    n path w w' h rfl

theorem flattenSubs_subSkel {cfg : Cfg K} {rf : World K → Except Err (World K)}
    (hrf : ∀ w w', rf w = .ok w' → w'.root.subSkel = w.root.subSkel) {ks : List (Node K)} {path : List Nat}
    {i : Nat} {w w' : World K} (h : flattenSubs cfg rf ks path i w = .ok w') :
    w'.root.subSkel = w.root.subSkel :=
  flattenSubs_inv (I := fun x => x.root.subSkel = w.root.subSkel)
    (fun _ _ h1 hI => (hrf _ _ h1).trans hI)
    (fun _ _ _ h1 hI => (subSkel_of_skel (modify_skel (fun _ _ _ => flatF_skel) h1)).trans hI)
    ks path i w w' h rfl

/-! ### `root.update`: the only place a flag is written -/

section
variable {α : Type} [Add α] [Sub α] [Mul α] [Div α] [Neg α] [LT α] [DecidableLT α]
  [LE α] [DecidableLE α] [OfNat α 0] [OfNat α 1] [HasFloor α]

/-- the total (`val` of l.719: cash + children's values + swept coupons) `root.update(d)` computes before its
    bankruptcy test: `updRoot` unfolded up to the test -/
def rootTotal (cfg : Cfg α) (d : Nat) (w : World α) : Except Err α :=
  match w.root with
  | .sec _ => throw Err.badPath
  | .strat sd kids =>
    (updKids cfg d (stratDateChange d sd).2 (stratDateChange d sd).1.bidofferSet kids
      ⟨(stratDateChange d sd).1.capital, 0, 0, 0⟩).map fun r => r.2.val + r.2.coupons

/-- the model's bankruptcy test (l.723) without its `not self.bankrupt` conjunct -/
def trigger (cfg : Cfg α) (fi : Bool) (v : α) : Bool :=
  decide (v < 0) && !fi && !(isZero cfg.tol v)
end

theorem bankruptCond_eq (cfg : Cfg K) (sd1 : StratData K) (v : K) :
    bankruptCond cfg sd1 v = (!sd1.bankrupt && trigger cfg sd1.fixedIncome v) := by
  unfold bankruptCond trigger
  cases sd1.bankrupt <;> cases decide (v < 0) <;> simp

/-- `updRoot` succeeds only if the total can be computed -/
theorem rootTotal_of_updRoot {cfg : Cfg K} {d : Nat} {w w' : World K} (h : updRoot cfg d w = .ok w') :
    ∃ v, rootTotal cfg d w = .ok v := by
  obtain ⟨root, st⟩ := w
  cases root with
  | sec s => cases h
  | strat sd kids =>
    rw [updRoot_strat] at h
    obtain ⟨r, hk, -⟩ := bind_eq_ok h
    exact ⟨r.2.val + r.2.coupons, by simp only [rootTotal, hk, map_ok]⟩

/-- what `root.update(d)` does to the skeleton: nothing below the root, nothing to the root's name and
    `fixedIncome`; the root's flag becomes `old || trigger total` -/
theorem updRoot_skel {cfg : Cfg K} {d : Nat} {sd : StratData K} {kids : List (Node K)} {st : Bool}
    {w' : World K} {v : K} (hv : rootTotal cfg d ⟨.strat sd kids, st⟩ = .ok v)
    (h : updRoot cfg d ⟨.strat sd kids, st⟩ = .ok w') :
    w'.root.skel = .strat ⟨sd.name, sd.fixedIncome, sd.bankrupt || trigger cfg sd.fixedIncome v⟩ (skelL kids) := by
  rw [updRoot_strat] at h
  obtain ⟨⟨kids1, acc⟩, hk, h⟩ := bind_eq_ok h
  simp only [rootTotal, hk, map_ok, Except.ok.injEq] at hv
  have hkids := updKids_skelL kids _ _ _ _ _ hk
  have htag := stratDateChange_tag d sd
  have hfi : (stratDateChange d sd).1.fixedIncome = sd.fixedIncome := congrArg StratTag.fixedIncome htag
  have hbk : (stratDateChange d sd).1.bankrupt = sd.bankrupt := congrArg StratTag.bankrupt htag
  have hnm : (stratDateChange d sd).1.name = sd.name := congrArg StratTag.name htag
  rw [bankruptCond_eq, hfi, hbk, hv] at h
  split at h
  · rename_i hc
    obtain ⟨wF, hfl, h⟩ := bind_eq_ok h
    obtain ⟨n, hn, rfl⟩ := map_eq_ok h
    have h1 := flattenAt_skel (fun _ _ => refreshNB_skel) hfl
    have h2 := updNode_skel _ _ hn
    simp only [Bool.and_eq_true, Bool.not_eq_true'] at hc
    rw [h2, h1]
    simp only [bankruptWorld, skel_strat, stratTag, hnm, hfi, hkids, hc.2, Bool.or_true]
  · rename_i hc
    obtain ⟨n, hf, rfl⟩ := map_eq_ok h
    rw [stratFinish_skel hf, skel_strat, htag, hkids]
    have : (sd.bankrupt || trigger cfg sd.fixedIncome v) = sd.bankrupt := by
      cases hb : sd.bankrupt
      · simpa [hb] using hc
      · rfl
    rw [this]; rfl

/-- `root.update` keeps every sub-strategy flag, every `fixedIncome`, the shape -/
theorem updRoot_subSkel {cfg : Cfg K} {d : Nat} {w w' : World K} (h : updRoot cfg d w = .ok w') :
    w'.root.subSkel = w.root.subSkel := by
  obtain ⟨v, hv⟩ := rootTotal_of_updRoot h
  obtain ⟨root, st⟩ := w
  cases root with
  | sec s => cases h
  | strat sd kids =>
    simp only [Node.subSkel, updRoot_skel hv h, skel_strat, Skel.noRootFlag, stratTag]

/-- the root's flag after `root.update(d)` -/
theorem updRoot_bankrupt {cfg : Cfg K} {d : Nat} {w w' : World K} {v : K}
    (hv : rootTotal cfg d w = .ok v) (h : updRoot cfg d w = .ok w') :
    w'.bankrupt = (w.bankrupt || trigger cfg w.rootFI v) := by
  obtain ⟨root, st⟩ := w
  cases root with
  | sec s => cases h
  | strat sd kids =>
    rw [bankrupt_eq_rootFlag, updRoot_skel hv h]
    rfl

/-- a root already flagged, or fixed-income, or with a total that does not trigger: `root.update` keeps the
    whole skeleton -/
theorem updRoot_skel_of_not_trigger {cfg : Cfg K} {d : Nat} {w w' : World K} {v : K}
    (hv : rootTotal cfg d w = .ok v) (h : updRoot cfg d w = .ok w')
    (hn : w.bankrupt = true ∨ trigger cfg w.rootFI v = false) : w'.root.skel = w.root.skel := by
  obtain ⟨root, st⟩ := w
  cases root with
  | sec s => cases h
  | strat sd kids =>
    rw [updRoot_skel hv h, skel_strat]
    have : (sd.bankrupt || trigger cfg sd.fixedIncome v) = sd.bankrupt := by
      rcases hn with hn | hn
      · have : sd.bankrupt = true := hn
        simp [this]
      · have : trigger cfg sd.fixedIncome v = false := hn
        simp [this]
    rw [this]; rfl

/-! ### traces: a run cut into genuine `root.update` calls and skeleton-preserving steps -/

/-- one executed `root.update(date)`: the world it ran on and the total it computed -/
structure UpdRec (K : Type) where
  date : Nat
  before : World K
  total : K

/-- did this `root.update` compute a triggering total (negative, not `is_zero`, root not fixed-income) -/
def UpdRec.trigger (cfg : Cfg K) (u : UpdRec K) : Bool := P16.trigger cfg u.before.rootFI u.total

/-- `Trace cfg w us w'`: `w'` is reached from `w` by steps each of which is either an execution of
    `updRoot cfg d` on the current world (recorded in `us`, in order, with the total it computed) or a step
    that keeps the whole skeleton of the tree, flags included. -/
inductive Trace (cfg : Cfg K) : World K → List (UpdRec K) → World K → Prop
  | nil (w) : Trace cfg w [] w
  | keep {w w1 w' us} : w1.root.skel = w.root.skel → Trace cfg w1 us w' → Trace cfg w us w'
  | upd {w w1 w' us} (d : Nat) (v : K) : updRoot cfg d w = .ok w1 → rootTotal cfg d w = .ok v →
      Trace cfg w1 us w' → Trace cfg w (⟨d, w, v⟩ :: us) w'

theorem Trace.of_skel {cfg : Cfg K} {w w' : World K} (h : w'.root.skel = w.root.skel) : Trace cfg w [] w' :=
  .keep h (.nil _)

theorem Trace.of_updRoot {cfg : Cfg K} {d : Nat} {w w' : World K} (h : updRoot cfg d w = .ok w') :
    ∃ v, rootTotal cfg d w = .ok v ∧ Trace cfg w [⟨d, w, v⟩] w' := by
  obtain ⟨v, hv⟩ := rootTotal_of_updRoot h
  exact ⟨v, hv, .upd d v h hv (.nil _)⟩

theorem Trace.append {cfg : Cfg K} {w w1 w2 : World K} {us us' : List (UpdRec K)}
    (h1 : Trace cfg w us w1) (h2 : Trace cfg w1 us' w2) : Trace cfg w (us ++ us') w2 := by
  induction h1 with
  | nil w => exact h2
  | keep hs _ ih => exact .keep hs (ih h2)
  | upd d v hu hv _ ih => exact .upd d v hu hv (ih h2)

/-- "some trace": the form in which the operations are shown to decompose -/
def Traced (cfg : Cfg K) (w w' : World K) : Prop := ∃ us, Trace cfg w us w'

theorem Traced.refl (cfg : Cfg K) (w : World K) : Traced cfg w w := ⟨[], .nil w⟩
theorem Traced.trans {cfg : Cfg K} {w w1 w2 : World K} (h1 : Traced cfg w w1) (h2 : Traced cfg w1 w2) :
    Traced cfg w w2 := by
  obtain ⟨us, h1⟩ := h1; obtain ⟨us', h2⟩ := h2; exact ⟨_, h1.append h2⟩
theorem Traced.of_skel {cfg : Cfg K} {w w' : World K} (h : w'.root.skel = w.root.skel) : Traced cfg w w' :=
  ⟨[], .of_skel h⟩
theorem Traced.of_updRoot {cfg : Cfg K} {d : Nat} {w w' : World K} (h : updRoot cfg d w = .ok w') :
    Traced cfg w w' := by
  obtain ⟨v, _, ht⟩ := Trace.of_updRoot h; exact ⟨_, ht⟩

/-- along a trace nothing below the root's flag changes -/
theorem Trace.subSkel {cfg : Cfg K} {w w' : World K} {us : List (UpdRec K)} (h : Trace cfg w us w') :
    w'.root.subSkel = w.root.subSkel := by
  induction h with
  | nil w => rfl
  | keep hs _ ih => exact ih.trans (subSkel_of_skel hs)
  | upd d v hu _ _ ih => exact ih.trans (updRoot_subSkel hu)

/-- every recorded update ran on a world with the `fixedIncome` of the initial root -/
theorem Trace.rootFI {cfg : Cfg K} {w w' : World K} {us : List (UpdRec K)} (h : Trace cfg w us w') :
    ∀ u ∈ us, u.before.rootFI = w.rootFI := by
  induction h with
  | nil w => intro u hu; cases hu
  | keep hs _ ih => intro u hu; rw [ih u hu, rootFI_of_subSkel (subSkel_of_skel hs)]
  | upd d v hu _ _ ih =>
    intro u hm
    rcases List.mem_cons.1 hm with rfl | hm
    · rfl
    · rw [ih u hm, rootFI_of_subSkel (updRoot_subSkel hu)]

/-- the root's flag at the end of a trace: set at the start, or set by one of the recorded updates -/
theorem Trace.bankrupt {cfg : Cfg K} {w w' : World K} {us : List (UpdRec K)} (h : Trace cfg w us w') :
    w'.bankrupt = (w.bankrupt || us.any (UpdRec.trigger cfg)) := by
  induction h with
  | nil w => simp
  | keep hs _ ih => rw [ih, bankrupt_of_skel hs]
  | upd d v hu hv _ ih =>
    rw [ih, updRoot_bankrupt hv hu, List.any_cons, Bool.or_assoc]
    rfl

theorem Trace.flag_iff {cfg : Cfg K} {w w' : World K} {us : List (UpdRec K)} (h : Trace cfg w us w') :
    w'.bankrupt = true ↔ w.bankrupt = true ∨ ∃ u ∈ us, u.trigger cfg = true := by
  rw [h.bankrupt, Bool.or_eq_true, List.any_eq_true]

theorem Trace.mono {cfg : Cfg K} {w w' : World K} {us : List (UpdRec K)} (h : Trace cfg w us w')
    (hb : w.bankrupt = true) : w'.bankrupt = true := h.flag_iff.2 (.inl hb)

theorem trigger_false_of_fi (cfg : Cfg K) (v : K) : trigger cfg true v = false := by simp [trigger]

theorem trigger_false_of_nonneg (cfg : Cfg K) (fi : Bool) {v : K} (hv : 0 ≤ v) : trigger cfg fi v = false := by
  simp [trigger, not_lt.2 hv]

theorem trigger_true (cfg : Cfg K) {v : K} (hv : v < 0) (hz : isZero cfg.tol v = false) :
    trigger cfg false v = true := by
  simp [trigger, hv, hz]

/-- a fixed-income root is never flagged -/
theorem Trace.fi {cfg : Cfg K} {w w' : World K} {us : List (UpdRec K)} (h : Trace cfg w us w')
    (hfi : w.rootFI = true) : w'.bankrupt = w.bankrupt := by
  rw [h.bankrupt]
  have : us.any (UpdRec.trigger cfg) = false := by
    rw [List.any_eq_false]
    intro u hu
    simp only [UpdRec.trigger, h.rootFI u hu, hfi, trigger_false_of_fi]
    simp
  rw [this, Bool.or_false]

/-- if no recorded update computed a negative total the flag is what it was -/
theorem Trace.nonneg {cfg : Cfg K} {w w' : World K} {us : List (UpdRec K)} (h : Trace cfg w us w')
    (hnn : ∀ u ∈ us, 0 ≤ u.total) : w'.bankrupt = w.bankrupt := by
  rw [h.bankrupt]
  have : us.any (UpdRec.trigger cfg) = false := by
    rw [List.any_eq_false]
    intro u hu
    simp only [UpdRec.trigger, trigger_false_of_nonneg cfg _ (hnn u hu)]
    simp
  rw [this, Bool.or_false]

/-! ### the public operations -/

theorem refresh_traced {cfg : Cfg K} {w w' : World K} (h : refresh cfg w = .ok w') : Traced cfg w w' := by
  unfold refresh at h
  split at h
  · split at h
    · exact .of_updRoot h
    · cases h
  · cases h; exact .refl _ _

/-- without pending changes the refresh is the identity -/
theorem refresh_skel_of_fresh {cfg : Cfg K} {w w' : World K} (hs : w.stale = false)
    (h : refresh cfg w = .ok w') : w'.root.skel = w.root.skel := by
  unfold refresh at h
  simp only [hs, Bool.false_eq_true, ↓reduceIte] at h
  cases h; rfl

theorem opAdjust_skel {w w' : World K} {path : List Nat} {amount : K} {u fl : Bool}
    (h : opAdjust w path amount u fl = .ok w') : w'.root.skel = w.root.skel := by
  unfold opAdjust at h
  refine modify_skel (fun par n r hr => ?_) h
  cases n with
  | sec s => cases hr
  | strat sd kids =>
    cases hr
    rw [skel_strat, skel_strat, adjust_tag]

theorem opAllocate_skel {cfg : Cfg K} {w w' : World K} {path : List Nat} {amount : K} {u : Bool}
    (h : opAllocate cfg w path amount u = .ok w') : w'.root.skel = w.root.skel := by
  unfold opAllocate at h
  refine modify_skel (fun par n r hr => ?_) h
  cases n with
  | sec s =>
    cases par with
    | none => cases hr
    | some p =>
      simp only at hr
      obtain ⟨⟨s', a⟩, hs, rfl⟩ := map_eq_ok hr
      rw [skel_sec, skel_sec]; exact congrArg _ (secAllocate_tag hs)
  | strat sd kids =>
    cases par with
    | none =>
      simp only at hr
      obtain ⟨⟨sd2, kids2⟩, hk, rfl⟩ := map_eq_ok hr
      obtain ⟨h1, h3⟩ := allocKids_skel kids amount _ _ _ hk
      rw [skel_strat, skel_strat, h1, h3, adjust_tag, adjust_tag]
    | some p =>
      simp only at hr
      obtain ⟨⟨n', adjs⟩, hk, rfl⟩ := map_eq_ok hr
      exact allocNode_skel _ _ _ _ _ hk

theorem opTransact_skel {cfg : Cfg K} {w w' : World K} {path : List Nat} {q : K} {u : Bool}
    {custom : Option K} (h : opTransact cfg w path q u custom = .ok w') : w'.root.skel = w.root.skel := by
  unfold opTransact at h
  refine modify_skel (fun par n r hr => ?_) h
  cases n with
  | sec s =>
    cases par with
    | none => cases hr
    | some p =>
      simp only at hr
      obtain ⟨⟨s', a⟩, hs, rfl⟩ := map_eq_ok hr
      rw [skel_sec, skel_sec]; exact congrArg _ (secTransact_tag hs)
  | strat sd kids =>
    have hr' : (transKids cfg q kids sd).map (fun x : StratData K × List (Node K) =>
        ((Node.strat x.1 x.2, [], u) : OpRes K)) = .ok r := by
      cases par <;> exact hr
    obtain ⟨⟨sd2, kids2⟩, hk, rfl⟩ := map_eq_ok hr'
    obtain ⟨h1, h3⟩ := transKids_skel kids q _ _ _ hk
    rw [skel_strat, skel_strat, h1, h3]

/-- recursive `flatten` with any getter refresh that decomposes into a trace -/
theorem flattenAt_traced {cfg : Cfg K} {rf : World K → Except Err (World K)}
    (hrf : ∀ w w', rf w = .ok w' → Traced cfg w w') {n : Node K} {path : List Nat} {w w' : World K}
    (h : flattenAt cfg rf n path w = .ok w') : Traced cfg w w' :=
  flattenAt_inv (I := fun x => Traced cfg w x)
    (fun _ _ h1 hI => hI.trans (hrf _ _ h1))
    (fun _ _ _ h1 hI => hI.trans (.of_skel (modify_skel (fun _ _ _ => flatF_skel) h1)))
    n path w w' h (.refl _ _)

theorem opFlatten_traced {cfg : Cfg K} {w w' : World K} {path : List Nat}
    (h : opFlatten cfg w path = .ok w') : Traced cfg w w' := by
  unfold opFlatten at h
  split at h
  · exact flattenAt_traced (fun _ _ => refresh_traced) h
  · cases h

theorem opClose_traced {cfg : Cfg K} {w w' : World K} {path : List Nat} {child : Nat} {u : Bool}
    (h : opClose cfg w path child u = .ok w') : Traced cfg w w' := by
  unfold opClose at h
  split at h
  · obtain ⟨w1, h1, h⟩ := bind_eq_ok h
    have hw1 : Traced cfg w w1 := by
      split at h1
      · split at h1
        · exact opFlatten_traced h1
        · cases h1; exact .refl _ _
      · simp only [Bool.false_eq_true, ↓reduceIte] at h1
        cases h1; exact .refl _ _
    refine hw1.trans ?_
    split at h
    · split at h
      · cases h
      · split at h
        · split at h
          · exact .of_skel (opTransact_skel h)
          · cases h; exact .refl _ _
        · cases h
    · obtain ⟨w2, h2, h⟩ := bind_eq_ok h
      refine (refresh_traced h2).trans ?_
      split at h
      · split at h
        · exact .of_skel (opAllocate_skel h)
        · cases h; exact .refl _ _
      · cases h
  · cases h

theorem opRebalance_traced {cfg : Cfg K} {w w' : World K} {path : List Nat} {weight : K} {child : Nat}
    {base : Option K} {u : Bool}
    (h : opRebalance cfg w path weight child base u = .ok w') : Traced cfg w w' := by
  unfold opRebalance at h
  split at h
  · exact opClose_traced h
  · obtain ⟨w1, h1, h⟩ := bind_eq_ok h
    have hw1 : Traced cfg w w1 := by
      split at h1
      · exact refresh_traced h1
      · cases h1; exact .refl _ _
    obtain ⟨w2, h2, h⟩ := bind_eq_ok h
    refine hw1.trans <| (refresh_traced h2).trans ?_
    split at h
    · simp only at h
      split at h
      · split at h
        · exact .of_skel (opTransact_skel h)
        · exact .of_skel (opAllocate_skel h)
      · exact .of_skel (opAllocate_skel h)
    · cases h

mutual
theorem localRefreshAll_skel {cfg : Cfg K} {rootNow : Nat} :
    (n : Node K) → ∀ (pnow : Option Nat) n', localRefreshAll cfg rootNow pnow n = .ok n' → n'.skel = n.skel
  | .sec s, pnow, n', h => by
    rw [localRefreshAll.eq_1] at h
    split at h
    · obtain ⟨s', hs, rfl⟩ := map_eq_ok h
      rw [skel_sec, skel_sec, secUpdate_tag hs]
    · cases h; rfl
  | .strat sd kids, pnow, n', h => by
    rw [localRefreshAll.eq_2] at h
    obtain ⟨ks, hk, rfl⟩ := map_eq_ok h
    rw [skel_strat, skel_strat, localRefreshKids_skel kids _ _ hk]
theorem localRefreshKids_skel {cfg : Cfg K} {rootNow : Nat} :
    (ks : List (Node K)) → ∀ (pnow : Option Nat) ks', localRefreshKids cfg rootNow pnow ks = .ok ks' →
      skelL ks' = skelL ks
  | [], pnow, ks', h => by rw [localRefreshKids.eq_1] at h; cases h; rfl
  | k :: ks, pnow, ks', h => by
    rw [localRefreshKids.eq_2] at h
    obtain ⟨k', hk, h⟩ := bind_eq_ok h
    obtain ⟨ks1, hks, rfl⟩ := map_eq_ok h
    rw [skelL_cons, skelL_cons, localRefreshAll_skel k _ _ hk, localRefreshKids_skel ks _ _ hks]
end

/-- the local refresh of the security getters -/
theorem localRefresh_skel {cfg : Cfg K} {path : List Nat} (w0 w1 w2 : World K)
    (h : (w1.modify path fun par n =>
      match par, n with
      | some p, .sec s =>
        if s.needupdate || s.now != p.now then
          match w0.root.now with
          | some d => (secUpdate cfg d s).map fun s' => ((Node.sec s', [], false) : OpRes K)
          | none => throw Err.badPath
        else pure (n, [], false)
      | _, _ => throw Err.badPath) = .ok w2) : w2.root.skel = w1.root.skel := by
  refine modify_skel (fun par n r hr => ?_) h
  split at hr
  · split at hr
    · split at hr
      · obtain ⟨s', hs, rfl⟩ := map_eq_ok hr
        rw [skel_sec, skel_sec, secUpdate_tag hs]
      · cases hr
    · cases hr; rfl
  · cases hr

theorem opRead_traced {cfg : Cfg K} {w w' : World K} {path : List Nat} {g : Getter}
    (h : opRead cfg w path g = .ok w') : Traced cfg w w' := by
  unfold opRead at h
  cases g with
  | plain => cases h; exact .refl _ _
  | stratRefreshing => exact refresh_traced h
  | secLocal => exact .of_skel (localRefresh_skel w w w' h)
  | secSeries =>
    obtain ⟨w1, h1, h2⟩ := bind_eq_ok h
    exact (Traced.of_skel (localRefresh_skel w w w1 h1)).trans (refresh_traced h2)
  | stratMembers =>
    obtain ⟨w1, h1, h⟩ := bind_eq_ok h
    refine (refresh_traced h1).trans ?_
    split at h
    · cases h
    · refine .of_skel (modify_skel (fun par n r hr => ?_) h)
      obtain ⟨n', hn, rfl⟩ := map_eq_ok hr
      exact localRefreshAll_skel _ _ _ hn

/-- getters that never reach `root.update` keep the root's flag -/
theorem opRead_skel_of_local {cfg : Cfg K} {w w' : World K} {path : List Nat} {g : Getter}
    (hg : g = .plain ∨ g = .secLocal) (h : opRead cfg w path g = .ok w') : w'.root.skel = w.root.skel := by
  unfold opRead at h
  rcases hg with rfl | rfl
  · cases h; rfl
  · exact localRefresh_skel w w w' h

/-- every public call decomposes into `root.update` executions and skeleton-preserving steps -/
theorem publicStep_traced {cfg : Cfg K} {w w' : World K} (h : PublicStep cfg w w') : Traced cfg w w' := by
  cases h with
  | update d h => exact .of_updRoot h
  | adjust _ _ _ _ h => exact .of_skel (opAdjust_skel h)
  | allocate _ _ _ h => exact .of_skel (opAllocate_skel h)
  | transact _ _ _ _ h => exact .of_skel (opTransact_skel h)
  | flatten _ h => exact opFlatten_traced h
  | close _ _ _ h => exact opClose_traced h
  | rebalance _ _ _ _ _ h => exact opRebalance_traced h
  | read _ _ h => exact opRead_traced h

theorem run_traced {cfg : Cfg K} {w w' : World K} (h : Run cfg w w') : Traced cfg w w' := by
  induction h with
  | nil w => exact .refl _ _
  | cons hs _ ih => exact (publicStep_traced hs).trans ih

/-! ### run level -/

/-- the algos of the strategy only issue public calls -/
def RunPublic (cfg : Cfg K) (run : RunFn K) : Prop := ∀ d w w', run d w = .ok w' → Run cfg w w'

theorem btDay_traced {cfg : Cfg K} {run : RunFn K} (hrun : RunPublic cfg run) {d : Nat} {w w' : World K}
    (h : btDay cfg run d w = .ok w') : Traced cfg w w' := by
  unfold btDay at h
  obtain ⟨w1, h1, h⟩ := bind_eq_ok h
  refine (Traced.of_updRoot h1).trans ?_
  split at h
  · cases h; exact .refl _ _
  · obtain ⟨w2, h2, h⟩ := bind_eq_ok h
    exact (run_traced (hrun _ _ _ h2)).trans (.of_updRoot h)

theorem btLoop_traced {cfg : Cfg K} {run : RunFn K} (hrun : RunPublic cfg run) :
    ∀ (ds : List Nat) (w w' : World K), btLoop cfg run ds w = .ok w' → Traced cfg w w'
  | [], w, w', h => by rw [btLoop] at h; cases h; exact .refl _ _
  | d :: ds, w, w', h => by
    rw [btLoop] at h
    obtain ⟨w1, h1, h⟩ := bind_eq_ok h
    exact (btDay_traced hrun h1).trans (btLoop_traced hrun ds _ _ h)

theorem btRun_traced {cfg : Cfg K} {run : RunFn K} (hrun : RunPublic cfg run) {capital : K}
    {dates : List Nat} {w w' : World K} (h : btRun cfg run capital dates w = .ok w') : Traced cfg w w' := by
  unfold btRun at h
  cases dates with
  | nil => cases h
  | cons d0 ds =>
    simp only at h
    obtain ⟨w1, h1, h⟩ := bind_eq_ok h
    obtain ⟨w2, h2, h⟩ := bind_eq_ok h
    exact (Traced.of_skel (opAdjust_skel h1)).trans <| (Traced.of_updRoot h2).trans (btLoop_traced hrun ds _ _ h)

/-- the day on which the total is found negative: the first `update` of the day sets the flag and the day's
    `run()` is skipped -/
theorem btDay_flags_on_date {cfg : Cfg K} {run : RunFn K} {d : Nat} {w w' : World K} {v : K}
    (h : btDay cfg run d w = .ok w') (hv : rootTotal cfg d w = .ok v)
    (ht : trigger cfg w.rootFI v = true) : w'.bankrupt = true ∧ updRoot cfg d w = .ok w' := by
  unfold btDay at h
  obtain ⟨w1, h1, h⟩ := bind_eq_ok h
  have hb : w1.bankrupt = true := by rw [updRoot_bankrupt hv h1, ht, Bool.or_true]
  simp only [hb, ↓reduceIte] at h
  cases h
  exact ⟨hb, h1⟩

/-! ### corollaries in terms of flags -/

theorem skel_of_subSkel_rootFlag {n n' : Node K} (h : n'.subSkel = n.subSkel)
    (hb : n'.skel.rootFlag = n.skel.rootFlag) : n'.skel = n.skel := by
  unfold Node.subSkel at h
  generalize n.skel = a at h hb
  generalize n'.skel = b at h hb
  cases a with
  | sec t => cases b <;> simp_all [Skel.noRootFlag]
  | strat t ks =>
    cases b with
    | sec t' => simp [Skel.noRootFlag] at h
    | strat t' ks' =>
      obtain ⟨n1, f1, b1⟩ := t
      obtain ⟨n2, f2, b2⟩ := t'
      simp only [Skel.noRootFlag, Skel.strat.injEq, StratTag.mk.injEq, and_true] at h
      simp only [Skel.rootFlag] at hb
      simp [h.1.1, h.1.2, h.2, hb]

theorem Traced.subSkel {cfg : Cfg K} {w w' : World K} (h : Traced cfg w w') :
    w'.root.subSkel = w.root.subSkel := by
  obtain ⟨us, h⟩ := h; exact h.subSkel

theorem Traced.mono {cfg : Cfg K} {w w' : World K} (h : Traced cfg w w') (hb : w.bankrupt = true) :
    w'.bankrupt = true := by
  obtain ⟨us, h⟩ := h; exact h.mono hb

theorem Traced.fi {cfg : Cfg K} {w w' : World K} (h : Traced cfg w w') (hfi : w.rootFI = true) :
    w'.bankrupt = w.bankrupt := by
  obtain ⟨us, h⟩ := h; exact h.fi hfi

/-- on a root already flagged, or fixed-income, a traced step keeps the whole skeleton -/
theorem Traced.skel_of {cfg : Cfg K} {w w' : World K} (h : Traced cfg w w')
    (hw : w.bankrupt = true ∨ w.rootFI = true) : w'.root.skel = w.root.skel := by
  refine skel_of_subSkel_rootFlag h.subSkel ?_
  rw [← bankrupt_eq_rootFlag, ← bankrupt_eq_rootFlag]
  rcases hw with hb | hfi
  · rw [h.mono hb, hb]
  · exact h.fi hfi

/-- sub-strategy flags, all `fixedIncome` fields and the shape survive any traced step -/
theorem Traced.sub {cfg : Cfg K} {w w' : World K} (h : Traced cfg w w') :
    w'.root.subFlags = w.root.subFlags ∧ w'.root.fis = w.root.fis ∧ w'.root.shape = w.root.shape :=
  of_subSkel h.subSkel

/-- … and so does the whole skeleton (flags included) of the subtree at every path below the root -/
theorem Traced.get? {cfg : Cfg K} {w w' : World K} (h : Traced cfg w w') (i : Nat) (rest : List Nat) :
    (w'.root.get? (i :: rest)).map Node.skel = (w.root.get? (i :: rest)).map Node.skel :=
  subSkel_get? h.subSkel i rest

/-- a sub-strategy (any strategy at a path other than the root) keeps its flag, `fixedIncome` and name -/
theorem Traced.sub_strat {cfg : Cfg K} {w w' : World K} (h : Traced cfg w w') {i : Nat} {rest : List Nat}
    {sd : StratData K} {ks : List (Node K)} (hg : w.root.get? (i :: rest) = some (.strat sd ks)) :
    ∃ sd' ks', w'.root.get? (i :: rest) = some (.strat sd' ks') ∧ sd'.bankrupt = sd.bankrupt ∧
      sd'.fixedIncome = sd.fixedIncome ∧ sd'.name = sd.name := by
  have := h.get? i rest
  rw [hg] at this
  cases hg' : w'.root.get? (i :: rest) with
  | none => rw [hg'] at this; cases this
  | some n' =>
    rw [hg'] at this
    simp only [Option.map_some, Option.some.injEq, skel_strat] at this
    cases n' with
    | sec s' => simp at this
    | strat sd' ks' =>
      simp only [skel_strat, Skel.strat.injEq] at this
      exact ⟨sd', ks', rfl, congrArg StratTag.bankrupt this.1, congrArg StratTag.fixedIncome this.1,
        congrArg StratTag.name this.1⟩

/-! ### the total and the value -/

theorem stratDateChange_value' (d : Nat) (sd : StratData K) : (stratDateChange d sd).1.value = sd.value := by
  unfold stratDateChange; split
  · rfl
  · split <;> rfl

/-- when the bankruptcy step is not taken, the total becomes the root's value (or the old value is kept, the
    total being `is_zero`-close to it and the date not new) -/
theorem updRoot_value {cfg : Cfg K} {d : Nat} {sd : StratData K} {kids : List (Node K)} {st : Bool}
    {w' : World K} {v : K} (hv : rootTotal cfg d ⟨.strat sd kids, st⟩ = .ok v)
    (h : updRoot cfg d ⟨.strat sd kids, st⟩ = .ok w')
    (hn : sd.bankrupt = true ∨ trigger cfg sd.fixedIncome v = false) :
    w'.root.value = v ∨ (isZero cfg.tol (sd.value - v) = true ∧ w'.root.value = sd.value) := by
  rw [updRoot_strat] at h
  obtain ⟨⟨kids1, acc⟩, hk, h⟩ := bind_eq_ok h
  simp only [rootTotal, hk, map_ok, Except.ok.injEq] at hv
  have htag := stratDateChange_tag d sd
  have hfi : (stratDateChange d sd).1.fixedIncome = sd.fixedIncome := congrArg StratTag.fixedIncome htag
  have hbk : (stratDateChange d sd).1.bankrupt = sd.bankrupt := congrArg StratTag.bankrupt htag
  rw [bankruptCond_eq, hfi, hbk, hv] at h
  have hc : (!sd.bankrupt && trigger cfg sd.fixedIncome v) = false := by
    rcases hn with hn | hn <;> simp [hn]
  simp only [hc, Bool.false_eq_true, ↓reduceIte] at h
  obtain ⟨n, hf, rfl⟩ := map_eq_ok h
  unfold stratFinish at hf
  obtain ⟨sd3, hw, rfl⟩ := map_eq_ok hf
  simp only [hv] at hw
  rcases stratWrite_cases hw with ⟨hch, rfl⟩ | ⟨_, p, rfl⟩
  · right
    simp only [stratChanged, Bool.or_eq_false_iff, Bool.not_eq_false'] at hch
    refine ⟨?_, ?_⟩
    · have := hch.1.2
      simpa [stratDateChange_value'] using this
    · simp [Node.value, stratDateChange_value']
  · left
    simp [Node.value, stratSetPrice]

end Bt.P16
