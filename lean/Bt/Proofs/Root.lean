import Bt.Proofs.BalancedAll
import Bt.Proofs.QuietOps
import Bt.Proofs.Rows
/-! `updRoot` and `refresh` are `updNode` of some tree: the root itself, or — in the bankruptcy step — the
    liquidated tree. -/
namespace Bt
set_option linter.unusedSectionVars false
variable {K : Type} [Field K] [LinearOrder K] [IsStrictOrderedRing K] [HasFloor K]

/-- `n0` is the liquidated tree of the root's bankruptcy step at `d`: the children have been updated, the
    total is negative (and not `isZero`), the strategy is market-value and not yet flagged; the flag is
    set and the whole tree flattened. -/
def BankruptTree (cfg : Cfg K) (d : Nat) (w : World K) (n0 : Node K) : Prop :=
  ∃ sd kids kids1 acc wF, w.root = .strat sd kids ∧
    updKids cfg d (stratDateChange d sd).2 (stratDateChange d sd).1.bidofferSet kids
      ⟨(stratDateChange d sd).1.capital, 0, 0, 0⟩ = .ok (kids1, acc) ∧
    acc.val + acc.coupons < 0 ∧ sd.bankrupt = false ∧ sd.fixedIncome = false ∧
    isZero cfg.tol (acc.val + acc.coupons) = false ∧
    flattenAt cfg (refreshNB cfg) (.strat { stratPre d sd acc.coupons with bankrupt := true } kids1) []
      { root := .strat { stratPre d sd acc.coupons with bankrupt := true } kids1, stale := false } = .ok wF ∧
    n0 = wF.root

theorem updRoot_inv {cfg : Cfg K} {d : Nat} {w w' : World K} (h : updRoot cfg d w = .ok w') :
    w'.stale = false ∧ ∃ n0, updNode cfg d n0 = .ok w'.root ∧ (n0 = w.root ∨ BankruptTree cfg d w n0) := by
  obtain ⟨root, st⟩ := w
  cases root with
  | sec s => simp only [updRoot] at h; cases h
  | strat sd kids =>
    simp only [updRoot] at h
    obtain ⟨⟨kids1, acc⟩, hk, h⟩ := Except.bind_eq_ok h
    simp only at h
    split at h
    · rename_i hc
      obtain ⟨wF, hF, h⟩ := Except.bind_eq_ok h
      obtain ⟨n, hn, rfl⟩ := Except.map_eq_ok h
      refine ⟨rfl, wF.root, hn, Or.inr ?_⟩
      simp only [Bool.and_eq_true, decide_eq_true_eq, Bool.not_eq_true'] at hc
      obtain ⟨⟨⟨c1, c2⟩, c3⟩, c4⟩ := hc
      exact ⟨sd, kids, kids1, acc, wF, rfl, hk, c1, by simpa using c2, by simpa using c3, c4, hF, rfl⟩
    · obtain ⟨sd3, hw, rfl⟩ := Except.map_eq_ok h
      refine ⟨rfl, .strat sd kids, ?_, Or.inl rfl⟩
      rw [updNode]
      simp only [hk, Except.bind]
      simp only [hw, Except.map]

theorem refresh_inv {cfg : Cfg K} {w w' : World K} (h : refresh cfg w = .ok w') :
    (w.stale = false ∧ w' = w) ∨
    (w.stale = true ∧ ∃ d, w.root.now = some d ∧ updRoot cfg d w = .ok w') := by
  unfold refresh at h
  split at h
  · rename_i hs
    right
    cases hd : w.root.now with
    | none => simp only [hd] at h; cases h
    | some d => simp only [hd] at h; exact ⟨hs, d, rfl, h⟩
  · rename_i hs
    left; exact ⟨by simpa using hs, (Except.pure_eq_ok h).symm⟩

end Bt
