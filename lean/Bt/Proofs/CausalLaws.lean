import Bt.Proofs.CausalLift
/-! C04 (no look-ahead), part 4: three instances of the generic pass of `CausalLift`.

    * `clockLaws C`  — clocks that lie in `C` stay in `C`;
    * `frozenLaws P` — recorded rows are written only at indices in `P` (`P08.Frozen P`), for *every* public
      operation executed while the clocks lie in `P` (C08 proves this for `update`/`allocate`/`transact`
      pushed down a tree, and only `Frozen AllIdx` for the operations on a world);
    * `hedgeLaws`    — the all-zero notional rows of hedge securities (`P08.HedgeZero`) stay all-zero. -/
set_option linter.unusedSectionVars false
namespace Bt.P04
open Bt Bt.P08

variable {K : Type} [Field K] [LinearOrder K] [IsStrictOrderedRing K] [HasFloor K]

/-- the laws without the two clock clauses -/
structure PreLaws (cfg : Cfg K) (C : Nat → Prop) (Rs : SecData K → SecData K → Prop)
    (Rd : StratData K → StratData K → Prop) : Prop where
  rsRefl : ∀ s, Rs s s
  rsTrans : ∀ {a b c}, Rs a b → Rs b c → Rs a c
  rdRefl : ∀ sd, Rd sd sd
  rdTrans : ∀ {a b c}, Rd a b → Rd b c → Rd a c
  secUpdate : ∀ {d s s'}, C d → Bt.secUpdate cfg d s = .ok s' → Rs s s'
  secTrade : ∀ {comm s q custom r}, secTransactCore cfg comm s q custom = .ok r → Rs s r.1
  sweep : ∀ np s (acc : Acc K), Rs s (sweepSec np s acc).1
  secWeight : ∀ s (w : K), Rs s { s with weight := w }
  dateChange : ∀ {d} sd, C d → Rd sd (stratDateChange d sd).1
  capital : ∀ sd (c : K), Rd sd { sd with capital := c }
  write : ∀ {d np sd v n b sd3}, C d → stratWrite cfg d np sd v n b = .ok sd3 → Rd sd sd3
  rows : ∀ {d} sd, C d → Rd sd (stratRows d sd)
  adjust : ∀ sd (a : Adj K), Rd sd (sd.adjust a)
  stratWeight : ∀ sd (w : K), Rd sd { sd with weight := w }
  bankrupt : ∀ sd, Rd sd { sd with bankrupt := true }

/-- "a clock in `C` stays in `C`", for one security / one strategy -/
def NowS (C : Nat → Prop) (s s' : SecData K) : Prop := Ck C s.now → Ck C s'.now
def NowD (C : Nat → Prop) (sd sd' : StratData K) : Prop := Ck C sd.now → Ck C sd'.now

section
variable {cfg : Cfg K} {C : Nat → Prop}

theorem secUpdate_now {d : Nat} {s s' : SecData K} (h : secUpdate cfg d s = .ok s') : s'.now = some d :=
  ((secEarly_iff d s').1 (secUpdate_early h)).1

theorem secTransactCore_fields {comm : K → K → K} {s : SecData K} {q : K} {custom : Option K}
    {r : SecData K × Option (Adj K)} (h : secTransactCore cfg comm s q custom = .ok r) :
    r.1.now = s.now ∧ r.1.kind = s.kind ∧ r.1.rNotl = s.rNotl := by
  unfold secTransactCore at h
  split at h
  · cases h; exact ⟨rfl, rfl, rfl⟩
  · split at h
    · cases h
    · obtain ⟨⟨full, outlay, fee, bo⟩, _, h⟩ := bind_eq_ok h
      cases h; exact ⟨rfl, rfl, rfl⟩

theorem sweepSec_fields (np : Bool) (s : SecData K) (acc : Acc K) :
    (sweepSec np s acc).1.now = s.now ∧ (sweepSec np s acc).1.kind = s.kind ∧
      (sweepSec np s acc).1.rNotl = s.rNotl := by
  unfold sweepSec; cases np <;> exact ⟨rfl, rfl, rfl⟩

/-- **clocks**: every step keeps a clock inside `C` -/
theorem clockPre (cfg : Cfg K) (C : Nat → Prop) : PreLaws cfg C (NowS C) (NowD C) where
  rsRefl _ h := h
  rsTrans h1 h2 h := h2 (h1 h)
  rdRefl _ h := h
  rdTrans h1 h2 h := h2 (h1 h)
  secUpdate hC h _ := by rw [secUpdate_now h]; exact ck_some hC
  secTrade h hn := by rw [(secTransactCore_fields h).1]; exact hn
  sweep np s acc hn := by rw [(sweepSec_fields np s acc).1]; exact hn
  secWeight _ _ hn := hn
  dateChange sd hC _ := by rw [stratDateChange_now]; exact ck_some hC
  capital _ _ hn := hn
  write _ h hn := by rw [(stratWrite_proj h).1]; exact hn
  rows sd _ hn := by rw [stratRows_now]; exact hn
  adjust _ _ hn := hn
  stratWeight _ _ hn := hn
  bankrupt _ hn := hn

theorem PreLaws.toLaws {Rs : SecData K → SecData K → Prop} {Rd : StratData K → StratData K → Prop}
    (h : PreLaws cfg C Rs Rd) (hs : ∀ {s s'}, Rs s s' → Ck C s.now → Ck C s'.now)
    (hd : ∀ {sd sd'}, Rd sd sd' → Ck C sd.now → Ck C sd'.now) : Laws cfg C Rs Rd :=
  { rsRefl := h.rsRefl, rsTrans := h.rsTrans, rdRefl := h.rdRefl, rdTrans := h.rdTrans,
    secUpdate := h.secUpdate, secTrade := h.secTrade, sweep := h.sweep, secWeight := h.secWeight,
    dateChange := h.dateChange, capital := h.capital, write := h.write, rows := h.rows,
    adjust := h.adjust, stratWeight := h.stratWeight, bankrupt := h.bankrupt, secNow := hs, stratNow := hd }

/-- conjunction of two families of relations -/
theorem PreLaws.and {Rs Rs' : SecData K → SecData K → Prop} {Rd Rd' : StratData K → StratData K → Prop}
    (h : PreLaws cfg C Rs Rd) (h' : PreLaws cfg C Rs' Rd') :
    PreLaws cfg C (fun a b => Rs a b ∧ Rs' a b) (fun a b => Rd a b ∧ Rd' a b) where
  rsRefl s := ⟨h.rsRefl s, h'.rsRefl s⟩
  rsTrans h1 h2 := ⟨h.rsTrans h1.1 h2.1, h'.rsTrans h1.2 h2.2⟩
  rdRefl s := ⟨h.rdRefl s, h'.rdRefl s⟩
  rdTrans h1 h2 := ⟨h.rdTrans h1.1 h2.1, h'.rdTrans h1.2 h2.2⟩
  secUpdate hC hu := ⟨h.secUpdate hC hu, h'.secUpdate hC hu⟩
  secTrade hu := ⟨h.secTrade hu, h'.secTrade hu⟩
  sweep np s acc := ⟨h.sweep np s acc, h'.sweep np s acc⟩
  secWeight s w := ⟨h.secWeight s w, h'.secWeight s w⟩
  dateChange sd hC := ⟨h.dateChange sd hC, h'.dateChange sd hC⟩
  capital sd c := ⟨h.capital sd c, h'.capital sd c⟩
  write hC hw := ⟨h.write hC hw, h'.write hC hw⟩
  rows sd hC := ⟨h.rows sd hC, h'.rows sd hC⟩
  adjust sd a := ⟨h.adjust sd a, h'.adjust sd a⟩
  stratWeight sd w := ⟨h.stratWeight sd w, h'.stratWeight sd w⟩
  bankrupt sd := ⟨h.bankrupt sd, h'.bankrupt sd⟩

/-- any family of relations, with the clock clauses added -/
theorem PreLaws.withClock {Rs : SecData K → SecData K → Prop} {Rd : StratData K → StratData K → Prop}
    (h : PreLaws cfg C Rs Rd) :
    Laws cfg C (fun a b => Rs a b ∧ NowS C a b) (fun a b => Rd a b ∧ NowD C a b) :=
  (h.and (clockPre cfg C)).toLaws (fun h => h.2) (fun h => h.2)

theorem clockLaws (cfg : Cfg K) (C : Nat → Prop) : Laws cfg C (NowS C) (NowD C) :=
  (clockPre cfg C).toLaws (fun h => h) (fun h => h)

/-- **rows**: the one-node facts of C08 -/
theorem frozenPre (cfg : Cfg K) (P : Nat → Prop) : PreLaws cfg P (SecFrozen P) (StratFrozen P) where
  rsRefl := SecFrozen.refl P
  rsTrans := SecFrozen.trans
  rdRefl := StratFrozen.refl P
  rdTrans := StratFrozen.trans
  secUpdate hP h := secUpdate_frozen hP h
  secTrade h := secTransactCore_frozen P h
  sweep := sweepSec_frozen P
  secWeight s w := by constructor <;> simp
  dateChange sd _ := stratDateChange_frozen P _ sd
  capital := capital_frozen P
  write hP h := stratWrite_frozen hP h
  rows sd hP := stratRows_frozen hP sd
  adjust := adjust_frozen P
  stratWeight sd w := by constructor <;> simp
  bankrupt sd := by constructor <;> simp

theorem frozenLaws (cfg : Cfg K) (P : Nat → Prop) :
    Laws cfg P (fun a b => SecFrozen P a b ∧ NowS P a b) (fun a b => StratFrozen P a b ∧ NowD P a b) :=
  (frozenPre cfg P).withClock

/-- hedge notional rows: the kind is kept, and an all-zero notional row of a hedge stays all-zero -/
def HzS (s s' : SecData K) : Prop :=
  s'.kind = s.kind ∧ (isHedge s.kind = true → (∀ x ∈ s.rNotl, x = 0) → ∀ x ∈ s'.rNotl, x = 0)

theorem hzS_of_eq {s s' : SecData K} (hk : s'.kind = s.kind) (hr : s'.rNotl = s.rNotl) : HzS s s' :=
  ⟨hk, fun _ hz => by rw [hr]; exact hz⟩

theorem hedgePre (cfg : Cfg K) (C : Nat → Prop) : PreLaws cfg C HzS (fun _ _ => True) where
  rsRefl _ := ⟨rfl, fun _ h => h⟩
  rsTrans h1 h2 := ⟨h2.1.trans h1.1, fun hk hz => h2.2 (by rw [h1.1]; exact hk) (h1.2 hk hz)⟩
  rdRefl _ := trivial
  rdTrans _ _ := trivial
  secUpdate _ h := by
    have hk := (secUpdate_frozen (P := AllIdx) trivial h).kind
    exact ⟨hk, fun hh _ => secUpdate_hedgeZero h (by rw [hk]; exact hh)⟩
  secTrade h := hzS_of_eq (secTransactCore_fields h).2.1 (secTransactCore_fields h).2.2
  sweep np s acc := hzS_of_eq (sweepSec_fields np s acc).2.1 (sweepSec_fields np s acc).2.2
  secWeight _ _ := hzS_of_eq rfl rfl
  dateChange _ _ := trivial
  capital _ _ := trivial
  write _ _ := trivial
  rows _ _ := trivial
  adjust _ _ := trivial
  stratWeight _ _ := trivial
  bankrupt _ := trivial

theorem hedgeLaws (cfg : Cfg K) (C : Nat → Prop) :
    Laws cfg C (fun a b => HzS a b ∧ NowS C a b) (fun a b => True ∧ NowD C a b) :=
  (hedgePre cfg C).withClock

end

mutual
theorem lift_hedgeZero {Rd : StratData K → StratData K → Prop} :
    (n n' : Node K) → Lift HzS Rd n n' → HedgeZero n → HedgeZero n'
  | .sec s, .sec s', h, hz => by
    simp only [lift_sec] at h
    simp only [HedgeZero] at hz ⊢
    intro hk
    exact h.2 (by rw [← h.1]; exact hk) (hz (by rw [← h.1]; exact hk))
  | .strat sd ks, .strat sd' ks', h, hz => by
    simp only [lift_strat] at h
    simp only [HedgeZero] at hz ⊢
    exact liftL_hedgeZero ks ks' h.2 hz
  | .sec _, .strat _ _, h, _ => by simp at h
  | .strat _ _, .sec _, h, _ => by simp at h
theorem liftL_hedgeZero {Rd : StratData K → StratData K → Prop} :
    (ks ks' : List (Node K)) → LiftL HzS Rd ks ks' → HedgeZeroL ks → HedgeZeroL ks'
  | [], [], _, _ => by simp [HedgeZeroL]
  | k :: ks, k' :: ks', h, hz => by
    simp only [liftL_cons] at h
    simp only [HedgeZeroL] at hz ⊢
    exact ⟨lift_hedgeZero k k' h.1 hz.1, liftL_hedgeZero ks ks' h.2 hz.2⟩
  | [], _ :: _, h, _ => by simp at h
  | _ :: _, [], h, _ => by simp at h
end

/-! ### what the instances say about sequences of public calls -/

section corollaries
variable {cfg : Cfg K} {C : Nat → Prop}

theorem frozen_of_lift {P : Nat → Prop} {n n' : Node K}
    (h : Lift (fun a b => SecFrozen P a b ∧ NowS P a b) (fun a b => StratFrozen P a b ∧ NowD P a b) n n') :
    Frozen P n n' :=
  (lift_frozen n n').1 (Lift.mono (fun _ _ h => h.1) (fun _ _ h => h.1) n n' h)

theorem hedgeZero_of_lift {n n' : Node K}
    (h : Lift (fun a b => HzS a b ∧ NowS C a b) (fun a b => True ∧ NowD C a b) n n')
    (hz : HedgeZero n) : HedgeZero n' :=
  lift_hedgeZero n n' (Lift.mono (fun _ _ h => h.1) (fun _ _ h => h) n n' h) hz

/-- clocks in `C` stay in `C` under public calls whose explicit updates are at dates in `C` -/
theorem RunC.wok {w w' : World K} (hw : WOK C w) (h : RunC cfg C w w') : WOK C w' :=
  (h.lift (clockLaws cfg C) hw).2

/-- public calls executed while all clocks lie in `P` write recorded rows only at indices in `P` -/
theorem RunC.frozen {P : Nat → Prop} {w w' : World K} (hw : WOK P w) (h : RunC cfg P w w') :
    Frozen P w.root w'.root :=
  frozen_of_lift (h.lift (frozenLaws cfg P) hw).1

/-- public calls keep the all-zero notional rows of hedge securities all-zero -/
theorem RunC.hedgeZero {w w' : World K} (hw : WOK C w) (h : RunC cfg C w w') (hz : HedgeZero w.root) :
    HedgeZero w'.root :=
  hedgeZero_of_lift (h.lift (hedgeLaws cfg C) hw).1 hz

/-- `root.update(d)` alone: rows only at `d`, whatever the clocks were -/
theorem updRoot_frozen_at {d : Nat} {w w' : World K} (h : updRoot cfg d w = .ok w') :
    Frozen (· = d) w.root w'.root ∧ WOK (· = d) w' :=
  ⟨frozen_of_lift (updRoot_lift (frozenLaws cfg (· = d)) rfl h).1, (updRoot_lift (frozenLaws cfg (· = d)) rfl h).2⟩

theorem updRoot_hedgeZero {d : Nat} {w w' : World K} (h : updRoot cfg d w = .ok w')
    (hz : HedgeZero w.root) : HedgeZero w'.root :=
  hedgeZero_of_lift (C := fun _ => True) (updRoot_lift (hedgeLaws cfg _) trivial h).1 hz

theorem updRoot_wok {d : Nat} (hC : C d) {w w' : World K} (h : updRoot cfg d w = .ok w') : WOK C w' :=
  wok_mono (fun _ hx => hx ▸ hC) (updRoot_lift (clockLaws cfg C) hC h).2

end corollaries

end Bt.P04
